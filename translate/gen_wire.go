package main

// gen_wire: lnwire/*.go -> Gen/GenWire.v   (tie T1 of property C10)
//
// For every message type registered in makeEmptyMessage the generator reads
// the Encode method (the `WriteX(w, c.F)` chain) and the Decode method (the
// `ReadElements(r, &c.F, ...)` chain) and emits, as values of the types of
// Wire/Model.v and Wire/MsgModel.v:
//
//   enc_<T>, dec_<T> : layout            the ordered field codecs of each side
//   Example encdec_<T> : enc_<T> = dec_<T>      (asymmetry => the build breaks)
//   for messages that parse TLV records out of the extension data
//   encmsg_<T>, msg_<T> : tlvmsg         fixed fields, conditional fields, known
//                                        records (type, codec, always produced),
//                                        Repack (EncodeMessageExtraData) or
//                                        Merge (MergeAndEncode)
//   gen_layouts  : msg_table             plain messages
//   gen_tlvmsgs  : tmsg_table            TLV-carrying messages
//   msg_type_of  : list (string * N)
//   unsupported_messages : list (N * string)   one entry per message the
//                                        fragment below cannot express
//   (* @fields <type> <GoField>:<codec> ... *) lines read by props/c10.py
//
// The supported fragment is deliberately small (see decodeStmts/encodeStmts);
// anything outside it makes THAT message unsupported, naming the construct and
// its position.  Only parse errors / a missing makeEmptyMessage abort the run.

import (
	"fmt"
	"go/ast"
	"go/parser"
	"go/printer"
	"go/token"
	"os"
	"path/filepath"
	"sort"
	"strconv"
	"strings"
)

func init() {
	register("wire", genWire)
	register("wiresym", genWireSym)
}

type wgen struct {
	fset    *token.FileSet
	files   map[string]*ast.File
	consts  map[string]ast.Expr      // const name -> value expr
	types   map[string]*ast.TypeSpec // type name -> spec
	methods map[string]*ast.FuncDecl // "T.Method"
	funcs   map[string]*ast.FuncDecl
	readTys map[string]bool // pointer types handled by ReadElement
	// a trusted helper (part of the model's vocabulary) no longer contains a construct the
	// model mirrors: the descriptions are still generated -- so that the correspondence run
	// shows HOW the behaviour changed, with concrete inputs -- and a failing Example in
	// GenWireSym.v breaks the proof stage
	helperDrift map[string]string
}

type wfield struct {
	name  string // Go field path (c.F -> "F", split fields "F.Hash")
	codec string // Coq term of type fkind
}

type wrec struct {
	typ    uint64
	rk     string // Coq term of type rk
	always bool
	field  string
}

type wcond struct {
	idx   int
	mask  uint64
	field string
	flds  []wfield
}

type wside struct {
	flds   []wfield
	cond   *wcond
	tlv    bool // parses / packs known records
	mode   string
	known  []wrec
	term   string // "", "FRest", "FTlvRest" : plain terminal extension field
	extFld string
	excl   [][2][]uint64 // Decode rejects records of group [0] together with records of group [1]
	optAt  int           // >= 0: the fields from this index on form an optional tail
	optFld string        // Encode: the field whose nil-ness decides whether the tail is written
	all    bool          // Merge without custom-record split: ExtraData holds ALL unknown records
}

type unsup struct{ msg string }

func (u *unsup) Error() string { return u.msg }

func (g *wgen) src(n ast.Node) string {
	var b strings.Builder
	printer.Fprint(&b, g.fset, n)
	return strings.Join(strings.Fields(b.String()), " ")
}

func (g *wgen) at(n ast.Node) string {
	p := g.fset.Position(n.Pos())
	return fmt.Sprintf("%s:%d", filepath.Base(p.Filename), p.Line)
}

func (g *wgen) bad(n ast.Node, format string, a ...any) error {
	return &unsup{fmt.Sprintf("%s: %s", g.at(n), fmt.Sprintf(format, a...))}
}

// ---------------------------------------------------------------- loading

func loadWire(repo string) (*wgen, error) {
	g := &wgen{fset: token.NewFileSet(), files: map[string]*ast.File{},
		consts: map[string]ast.Expr{}, types: map[string]*ast.TypeSpec{},
		methods: map[string]*ast.FuncDecl{}, funcs: map[string]*ast.FuncDecl{},
		readTys: map[string]bool{}, helperDrift: map[string]string{}}
	dir := filepath.Join(repo, "lnwire")
	ents, err := os.ReadDir(dir)
	if err != nil {
		return nil, err
	}
	for _, e := range ents {
		n := e.Name()
		if e.IsDir() || !strings.HasSuffix(n, ".go") || strings.HasSuffix(n, "_test.go") {
			continue
		}
		f, err := parser.ParseFile(g.fset, filepath.Join(dir, n), nil, 0)
		if err != nil {
			return nil, fmt.Errorf("parse error: %v", err)
		}
		g.files[n] = f
		for _, d := range f.Decls {
			switch d := d.(type) {
			case *ast.GenDecl:
				var lastVals []ast.Expr
				for i, s := range d.Specs {
					switch s := s.(type) {
					case *ast.TypeSpec:
						g.types[s.Name.Name] = s
					case *ast.ValueSpec:
						if d.Tok != token.CONST {
							continue
						}
						vals := s.Values
						if len(vals) == 0 {
							vals = lastVals // implicit repetition (iota)
						} else {
							lastVals = vals
						}
						for j, nm := range s.Names {
							if j < len(vals) {
								g.consts[nm.Name] = &iotaExpr{vals[j], i}
							}
						}
					}
				}
			case *ast.FuncDecl:
				if d.Recv == nil {
					g.funcs[d.Name.Name] = d
					continue
				}
				rt := d.Recv.List[0].Type
				if s, ok := rt.(*ast.StarExpr); ok {
					rt = s.X
				}
				if id, ok := rt.(*ast.Ident); ok {
					g.methods[id.Name+"."+d.Name.Name] = d
				}
			}
		}
	}
	return g, nil
}

// iotaExpr is a const value expression together with its iota.
type iotaExpr struct {
	ast.Expr
	iota int
}

func (g *wgen) evalConst(e ast.Expr, iota int, depth int) (uint64, bool) {
	if depth > 20 {
		return 0, false
	}
	switch e := e.(type) {
	case *iotaExpr:
		return g.evalConst(e.Expr, e.iota, depth+1)
	case *ast.BasicLit:
		if e.Kind == token.INT {
			v, err := strconv.ParseUint(e.Value, 0, 64)
			return v, err == nil
		}
	case *ast.ParenExpr:
		return g.evalConst(e.X, iota, depth+1)
	case *ast.Ident:
		if e.Name == "iota" {
			return uint64(iota), true
		}
		if c, ok := g.consts[e.Name]; ok {
			return g.evalConst(c, 0, depth+1)
		}
	case *ast.SelectorExpr:
		switch g.src(e) {
		case "sha256.Size", "chainhash.HashSize":
			return 32, true
		case "math.MaxUint16":
			return 65535, true
		}
	case *ast.CallExpr: // conversion T(x)
		if len(e.Args) == 1 {
			return g.evalConst(e.Args[0], iota, depth+1)
		}
	case *ast.BinaryExpr:
		a, ok1 := g.evalConst(e.X, iota, depth+1)
		b, ok2 := g.evalConst(e.Y, iota, depth+1)
		if !ok1 || !ok2 {
			return 0, false
		}
		switch e.Op {
		case token.SHL:
			return a << b, true
		case token.ADD:
			return a + b, true
		case token.SUB:
			return a - b, true
		case token.MUL:
			return a * b, true
		case token.OR:
			return a | b, true
		}
	}
	return 0, false
}

// ---------------------------------------------------------------- types

func (g *wgen) structField(structName, field string) (ast.Expr, bool) {
	if i := strings.Index(field, "."); i >= 0 {
		t, ok := g.structField1(structName, field[:i])
		if !ok {
			return nil, false
		}
		id, ok := t.(*ast.Ident)
		if !ok {
			return nil, false
		}
		return g.structField(id.Name, field[i+1:])
	}
	if t, ok := g.structField1(structName, field); ok {
		return t, true
	}
	// promoted through an embedded struct (Go rejects ambiguous selectors)
	if ts, ok := g.types[structName]; ok {
		if st, ok := ts.Type.(*ast.StructType); ok {
			for _, f := range st.Fields.List {
				if id, ok := f.Type.(*ast.Ident); ok && len(f.Names) == 0 {
					if t, ok := g.structField(id.Name, field); ok {
						return t, true
					}
				}
			}
		}
	}
	return nil, false
}

func (g *wgen) structField1(structName, field string) (ast.Expr, bool) {
	ts, ok := g.types[structName]
	if !ok {
		return nil, false
	}
	st, ok := ts.Type.(*ast.StructType)
	if !ok {
		return nil, false
	}
	for _, f := range st.Fields.List {
		for _, n := range f.Names {
			if n.Name == field {
				return f.Type, true
			}
		}
		if len(f.Names) == 0 { // embedded struct, named by its type
			if id, ok := f.Type.(*ast.Ident); ok && id.Name == field {
				return f.Type, true
			}
		}
	}
	return nil, false
}

// array length of a type used as x[:]
func (g *wgen) arrayLen(t ast.Expr) (uint64, bool) {
	switch t := t.(type) {
	case *ast.ArrayType:
		if t.Len == nil {
			return 0, false
		}
		if id, ok := t.Elt.(*ast.Ident); !ok || id.Name != "byte" {
			return 0, false
		}
		return g.evalConst(t.Len, 0, 0)
	case *ast.SelectorExpr:
		if g.src(t) == "chainhash.Hash" {
			return 32, true
		}
	case *ast.Ident:
		if ts, ok := g.types[t.Name]; ok && ts.Assign == 0 {
			return g.arrayLen(ts.Type)
		}
	}
	return 0, false
}

// codec of a value of Go type t as read by ReadElement(&x) / written by its
// WriteX counterpart.
func (g *wgen) codecOfType(n ast.Node, t ast.Expr, name string) ([]wfield, error) {
	ts := g.src(t)
	one := func(c string) ([]wfield, error) { return []wfield{{name, c}}, nil }
	switch ts {
	case "uint8", "FundingFlag", "ChanUpdateMsgFlags", "ChanUpdateChanFlags", "QueryEncoding":
		return one("FU 1")
	case "uint16", "FailCode":
		return one("FU 2")
	case "uint32":
		return one("FU 4")
	case "uint64", "MilliSatoshi", "btcutil.Amount", "ShortChannelID":
		return one("FU 8")
	case "bool":
		return one("FBool")
	case "ChannelID":
		return one("FBytes 32")
	case "Sig":
		return one("FBytes 64")
	case "[33]byte":
		return one("FBytes 33")
	case "*btcec.PublicKey":
		return one("FPoint")
	case "*RawFeatureVector", "RawFeatureVector":
		return one("FFeat")
	case "PingPayload", "PongPayload", "WarningData", "ErrorData", "OpaqueReason":
		return one("FVar16")
	case "DeliveryAddress":
		m, ok := g.evalConst(&ast.Ident{Name: "deliveryAddressMaxSize"}, 0, 0)
		if !ok {
			return nil, g.bad(n, "deliveryAddressMaxSize not a constant")
		}
		return one(fmt.Sprintf("FVar16Max %d", m))
	case "[]Sig":
		return one("FArr16 64")
	case "NodeAlias":
		return one("FAlias")
	case "[]net.Addr":
		return one("FAddrs")
	case "wire.OutPoint":
		return []wfield{{name + ".Hash", "FBytes 32"}, {name + ".Index", "FU 2"}}, nil
	case "color.RGBA":
		return []wfield{{name + ".R", "FU 1"}, {name + ".G", "FU 1"}, {name + ".B", "FU 1"}}, nil
	case "ExtraOpaqueData":
		return one("FRest")
	}
	return nil, g.bad(n, "unsupported element codec for Go type %s", ts)
}

// ---------------------------------------------------------------- records

var decoderKinds = map[string]string{
	"nonceTypeDecoder":               "RKNonce",
	"partialSigTypeDecoder":          "RKScalar",
	"partialSigWithNonceTypeDecoder": "RKSigNonce",
	"channelTypeDecoder":             "RKFeat",
	"queryOptionsDecoder":            "RKFeat",
	"rawFeatureDecoder":              "RKFeat",
	"DShortChannelID":                "RKFixed 8",
	"feeDecoder":                     "RKFixed 8",
	"leaseExpiryDecoder":             "RKFixed 4",
	"tlv.DVarBytes":                  "RKVar",
	"decodeLocalNoncesData":          "RKNonceMap",
	"decodeMilliSatoshis":            "RKBigSize",
}

var decoderSizes = map[string]uint64{
	"DShortChannelID": 8, "feeDecoder": 8, "leaseExpiryDecoder": 4,
	"partialSigTypeDecoder": 32, "partialSigWithNonceTypeDecoder": 98,
}

func (g *wgen) resolveAlias(t ast.Expr) ast.Expr {
	for i := 0; i < 10; i++ {
		id, ok := t.(*ast.Ident)
		if !ok {
			return t
		}
		ts, ok := g.types[id.Name]
		if !ok || ts.Assign == 0 { // only true aliases (type X = ...)
			return t
		}
		t = ts.Type
	}
	return t
}

func (g *wgen) tlvTypeNum(n ast.Node, t ast.Expr) (uint64, error) {
	t = g.resolveAlias(t)
	s := g.src(t)
	if strings.HasPrefix(s, "tlv.TlvType") {
		v, err := strconv.ParseUint(strings.TrimPrefix(s, "tlv.TlvType"), 10, 64)
		if err == nil {
			return v, nil
		}
	}
	return 0, g.bad(n, "cannot resolve TLV type parameter %s", s)
}

// record type and codec declared by `func (x *V) Record() tlv.Record`
func (g *wgen) recordOfNamed(n ast.Node, name string) (uint64, bool, string, error) {
	fd, ok := g.methods[name+".Record"]
	if !ok {
		return 0, false, "", g.bad(n, "type %s has no Record() method", name)
	}
	var call *ast.CallExpr
	for _, st := range fd.Body.List {
		if r, ok := st.(*ast.ReturnStmt); ok && len(r.Results) == 1 {
			call, _ = r.Results[0].(*ast.CallExpr)
		}
	}
	if call == nil {
		return 0, false, "", g.bad(fd, "%s.Record(): no `return tlv.MakeXRecord(...)`", name)
	}
	fn := g.src(call.Fun)
	typ, tok := g.evalConst(call.Args[0], 0, 0)
	if !tok {
		if c, ok := call.Args[0].(*ast.CallExpr); ok {
			// (SomeTypeDef)(nil).TypeVal()
			if sel, ok := c.Fun.(*ast.SelectorExpr); ok && sel.Sel.Name == "TypeVal" {
				if cc, ok := sel.X.(*ast.CallExpr); ok {
					if p, ok := cc.Fun.(*ast.ParenExpr); ok {
						if v, err := g.tlvTypeNum(n, p.X); err == nil {
							typ, tok = v, true
						}
					}
				}
			}
		}
	}
	switch fn {
	case "tlv.MakeStaticRecord", "tlv.MakeDynamicRecord":
		if len(call.Args) != 5 {
			return 0, false, "", g.bad(call, "%s with %d args", fn, len(call.Args))
		}
		dec := g.src(call.Args[4])
		rk, ok := decoderKinds[dec]
		if !ok {
			return 0, false, "", g.bad(call, "record decoder %s is not in the translator's table", dec)
		}
		if fn == "tlv.MakeStaticRecord" {
			if sz, ok := g.evalConst(call.Args[2], 0, 0); ok {
				if want, ok := decoderSizes[dec]; ok && want != sz {
					return 0, false, "", g.bad(call, "static size %d of %s differs from table (%d)", sz, dec, want)
				}
			}
		}
		return typ, tok, rk, nil
	}
	if fn == "tlv.MakePrimitiveRecord" && len(call.Args) == 2 {
		rk, err := g.primitiveKind(call, name, fd, call.Args[1])
		if err != nil {
			return 0, false, "", err
		}
		return typ, tok, rk, nil
	}
	return 0, false, "", g.bad(call, "%s.Record(): unsupported constructor %s", name, fn)
}

// codec chosen by tlv.MakePrimitiveRecord from the Go type of its value pointer:
// (*uintN)(x) | &recv.field with field of type uintN / [N]byte / []byte / *btcec.PublicKey
func (g *wgen) primitiveKind(n ast.Node, name string, fd *ast.FuncDecl, v ast.Expr) (string, error) {
	var t ast.Expr
	if c, ok := v.(*ast.CallExpr); ok && len(c.Args) == 1 {
		if p, ok := c.Fun.(*ast.ParenExpr); ok {
			if st, ok := p.X.(*ast.StarExpr); ok {
				t = st.X
			}
		}
	}
	if u, ok := v.(*ast.UnaryExpr); ok && u.Op == token.AND && len(fd.Recv.List[0].Names) == 1 {
		if f, ok := recvField(u.X, fd.Recv.List[0].Names[0].Name); ok {
			t, _ = g.structField(name, f)
		}
	}
	if t == nil {
		return "", g.bad(n, "%s.Record(): cannot type the primitive value %s", name, g.src(v))
	}
	switch ts := g.src(t); ts {
	case "uint8":
		return "RKFixed 1", nil
	case "uint16":
		return "RKFixed 2", nil
	case "uint32":
		return "RKFixed 4", nil
	case "uint64":
		return "RKFixed 8", nil
	case "[]byte":
		return "RKVar", nil
	case "*btcec.PublicKey":
		return "RKPoint", nil
	default:
		if l, ok := g.arrayLen(t); ok && (l == 32 || l == 33 || l == 64) {
			return fmt.Sprintf("RKFixed %d", l), nil
		}
		return "", g.bad(n, "%s.Record(): primitive record of Go type %s is not in the translator's table", name, ts)
	}
}

func (g *wgen) rkOfValue(n ast.Node, v ast.Expr) (string, error) {
	s := g.src(v)
	switch s {
	case "uint16":
		return "RKFixed 2", nil
	case "uint32":
		return "RKFixed 4", nil
	case "uint64":
		return "RKFixed 8", nil
	case "*btcec.PublicKey":
		return "RKPoint", nil
	}
	if ix, ok := v.(*ast.IndexExpr); ok && g.src(ix.X) == "tlv.BigSizeT" {
		return "RKBigSize", nil
	}
	if id, ok := v.(*ast.Ident); ok {
		_, _, rk, err := g.recordOfNamed(n, id.Name)
		return rk, err
	}
	return "", g.bad(n, "unsupported record value type %s", s)
}

// record described by a Go type (struct field type / local var type)
func (g *wgen) recordOfType(n ast.Node, t ast.Expr) (uint64, string, error) {
	t = g.resolveAlias(t)
	if s, ok := t.(*ast.StarExpr); ok {
		t = g.resolveAlias(s.X)
	}
	if ix, ok := t.(*ast.IndexListExpr); ok {
		fn := g.src(ix.X)
		if (fn == "tlv.RecordT" || fn == "tlv.OptionalRecordT") && len(ix.Indices) == 2 {
			typ, err := g.tlvTypeNum(n, ix.Indices[0])
			if err != nil {
				return 0, "", err
			}
			rk, err := g.rkOfValue(n, ix.Indices[1])
			return typ, rk, err
		}
		return 0, "", g.bad(n, "unsupported generic record type %s", g.src(t))
	}
	if ix, ok := t.(*ast.IndexExpr); ok && g.src(ix.X) == "fn.Option" {
		return g.recordOfType(n, ix.Index)
	}
	if id, ok := t.(*ast.Ident); ok {
		typ, tok, rk, err := g.recordOfNamed(n, id.Name)
		if err != nil {
			return 0, "", err
		}
		if !tok {
			return 0, "", g.bad(n, "TLV type of %s is not a constant", id.Name)
		}
		return typ, rk, nil
	}
	return 0, "", g.bad(n, "unsupported record type %s", g.src(t))
}

// ---------------------------------------------------------------- helpers

// recvField: `c.F` (optionally &c.F) -> "F"
func recvField(e ast.Expr, recv string) (string, bool) {
	if u, ok := e.(*ast.UnaryExpr); ok && u.Op == token.AND {
		e = u.X
	}
	s, ok := e.(*ast.SelectorExpr)
	if !ok {
		return "", false
	}
	if id, ok := s.X.(*ast.Ident); ok {
		if id.Name != recv {
			return "", false
		}
		return s.Sel.Name, true
	}
	// recv.Embedded.F -> "Embedded.F"
	if _, ok := s.X.(*ast.SelectorExpr); ok {
		if p, ok := recvField(s.X, recv); ok {
			return p + "." + s.Sel.Name, true
		}
	}
	return "", false
}

func findCall(n ast.Node, name string) *ast.CallExpr {
	var res *ast.CallExpr
	ast.Inspect(n, func(x ast.Node) bool {
		if res != nil {
			return false
		}
		if c, ok := x.(*ast.CallExpr); ok {
			switch f := c.Fun.(type) {
			case *ast.Ident:
				if f.Name == name {
					res = c
				}
			case *ast.SelectorExpr:
				if f.Sel.Name == name {
					res = c
				}
			}
		}
		return res == nil
	})
	return res
}

// `if err != nil { return <anything> }`
func isErrCheck(st ast.Stmt) bool {
	is, ok := st.(*ast.IfStmt)
	if !ok || is.Init != nil || is.Else != nil || len(is.Body.List) != 1 {
		return false
	}
	be, ok := is.Cond.(*ast.BinaryExpr)
	if !ok || be.Op != token.NEQ {
		return false
	}
	x, ok1 := be.X.(*ast.Ident)
	y, ok2 := be.Y.(*ast.Ident)
	if !ok1 || !ok2 || x.Name != "err" || y.Name != "nil" {
		return false
	}
	_, ok = is.Body.List[0].(*ast.ReturnStmt)
	return ok
}

// the call of a statement of one of the forms
//
//	return f(...) | err := f(...) | err = f(...) | x, err := f(...) |
//	if err := f(...); err != nil { return err }
func stmtCall(st ast.Stmt) *ast.CallExpr {
	switch s := st.(type) {
	case *ast.ReturnStmt:
		if len(s.Results) == 1 {
			c, _ := s.Results[0].(*ast.CallExpr)
			return c
		}
	case *ast.AssignStmt:
		if len(s.Rhs) == 1 {
			c, _ := s.Rhs[0].(*ast.CallExpr)
			return c
		}
	case *ast.IfStmt:
		if s.Init != nil && s.Else == nil && len(s.Body.List) == 1 {
			if _, ok := s.Body.List[0].(*ast.ReturnStmt); ok {
				if a, ok := s.Init.(*ast.AssignStmt); ok && len(a.Lhs) == 1 && len(a.Rhs) == 1 {
					if id, ok := a.Lhs[0].(*ast.Ident); ok && id.Name == "err" {
						c, _ := a.Rhs[0].(*ast.CallExpr)
						return c
					}
				}
			}
		}
	case *ast.ExprStmt:
		c, _ := s.X.(*ast.CallExpr)
		return c
	}
	return nil
}

func callName(c *ast.CallExpr) string {
	switch f := c.Fun.(type) {
	case *ast.Ident:
		return f.Name
	case *ast.SelectorExpr:
		return f.Sel.Name
	}
	return ""
}

// `recv.F.Method()` with Method = `return c&CONST != 0` -> (F, mask)
func (g *wgen) flagCond(e ast.Expr, recv, structName string) (string, uint64, error) {
	c, ok := e.(*ast.CallExpr)
	if !ok || len(c.Args) != 0 {
		return "", 0, g.bad(e, "unsupported condition %s", g.src(e))
	}
	sel, ok := c.Fun.(*ast.SelectorExpr)
	if !ok {
		return "", 0, g.bad(e, "unsupported condition %s", g.src(e))
	}
	f, ok := recvField(sel.X, recv)
	if !ok {
		return "", 0, g.bad(e, "unsupported condition %s", g.src(e))
	}
	ft, ok := g.structField(structName, f)
	if !ok {
		return "", 0, g.bad(e, "unknown field %s.%s", structName, f)
	}
	md, ok := g.methods[g.src(ft)+"."+sel.Sel.Name]
	if !ok || len(md.Body.List) != 1 {
		return "", 0, g.bad(e, "condition method %s.%s is not a single return", g.src(ft), sel.Sel.Name)
	}
	ret, ok := md.Body.List[0].(*ast.ReturnStmt)
	if !ok || len(ret.Results) != 1 {
		return "", 0, g.bad(md, "condition method is not a single return")
	}
	// c&CONST != 0
	ne, ok := ret.Results[0].(*ast.BinaryExpr)
	if !ok || ne.Op != token.NEQ || g.src(ne.Y) != "0" {
		return "", 0, g.bad(md, "condition %s is not of the form x&MASK != 0", g.src(ret.Results[0]))
	}
	and, ok := ne.X.(*ast.BinaryExpr)
	if !ok || and.Op != token.AND {
		return "", 0, g.bad(md, "condition %s is not of the form x&MASK != 0", g.src(ret.Results[0]))
	}
	rn := md.Recv.List[0].Names[0].Name
	if id, ok := and.X.(*ast.Ident); !ok || id.Name != rn {
		return "", 0, g.bad(md, "condition %s does not test the receiver", g.src(ret.Results[0]))
	}
	mask, ok := g.evalConst(and.Y, 0, 0)
	if !ok {
		return "", 0, g.bad(md, "mask %s is not a constant", g.src(and.Y))
	}
	return f, mask, nil
}

func fieldIndex(flds []wfield, name string) int {
	for i, f := range flds {
		if f.name == name {
			return i
		}
	}
	return -1
}

// ---------------------------------------------------------------- Decode

type decState struct {
	g       *wgen
	recv    string
	sname   string
	side    *wside
	locals  map[string]ast.Expr // local var -> declared type
	zeroOf  map[string]string   // local var := recv.F.Zero() -> F
	zeroTy  map[string]ast.Expr // local var = tlv.ZeroRecordT[A,B]() -> RecordT type expr
	extVar  string              // local ExtraOpaqueData variable
	extRead bool
	optBuf  string // local array the first optional-tail field was read into
	optLen  uint64
	scidEnc string // field receiving the encoding type of decodeShortChanIDs
	lenVar  string // local uint16 holding the length of the byte slice read next
	lenFld  string // recv field allocated with make([]byte, lenVar)
}

// `buf[:]` / `buf[:N]` of a local `var buf [N]byte` -> (N, "buf")
func (d *decState) localArraySlice(e ast.Expr) (uint64, string, error) {
	g := d.g
	sl, ok := e.(*ast.SliceExpr)
	if !ok || sl.Low != nil {
		return 0, "", g.bad(e, "unsupported buffer expression %s", g.src(e))
	}
	id, ok := sl.X.(*ast.Ident)
	if !ok {
		return 0, "", g.bad(e, "unsupported buffer expression %s", g.src(e))
	}
	t, ok := d.locals[id.Name]
	if !ok {
		return 0, "", g.bad(e, "unknown local buffer %s", id.Name)
	}
	n, ok := g.arrayLen(t)
	if !ok {
		return 0, "", g.bad(e, "local %s is not a byte array", id.Name)
	}
	if sl.High != nil {
		h, ok := g.evalConst(sl.High, 0, 0)
		if !ok || h != n {
			return 0, "", g.bad(e, "buffer slice %s does not cover the whole array", g.src(e))
		}
	}
	return n, id.Name, nil
}

// if err == io.EOF { recv.F = ...; return nil } else if err != nil { return err }
func isEOFSplit(g *wgen, st ast.Stmt, recv string) bool {
	is, ok := st.(*ast.IfStmt)
	if !ok || is.Init != nil || g.src(is.Cond) != "err == io.EOF" || is.Else == nil {
		return false
	}
	for j, b := range is.Body.List {
		if j == len(is.Body.List)-1 {
			r, ok := b.(*ast.ReturnStmt)
			if !ok || len(r.Results) != 1 || g.src(r.Results[0]) != "nil" {
				return false
			}
			continue
		}
		a, ok := b.(*ast.AssignStmt)
		if !ok || len(a.Lhs) != 1 {
			return false
		}
		if _, ok := recvField(a.Lhs[0], recv); !ok {
			return false
		}
	}
	el, ok := is.Else.(*ast.IfStmt)
	return ok && isErrCheck(el)
}

// helperEnv resolves the parameters of a package-level helper that is called
// with `&recv.Embedded` / `&recv.Field` / `recv.Field` / the extension data:
// param -> struct type name, or param -> the (record) type of the field itself.
type helperEnv struct {
	structOf map[string]string   // param of type *T (T a struct of lnwire)
	typeOf   map[string]ast.Expr // param that is itself a record-typed field
	ext      string              // param bound to the extension data
}

func (g *wgen) bindHelper(n ast.Node, call *ast.CallExpr, hf *ast.FuncDecl, recv, sname, extVar string) (*helperEnv, error) {
	env := &helperEnv{structOf: map[string]string{}, typeOf: map[string]ast.Expr{}}
	var params []*ast.Field
	for _, f := range hf.Type.Params.List {
		for range f.Names {
			params = append(params, f)
		}
	}
	var names []string
	for _, f := range hf.Type.Params.List {
		for _, nm := range f.Names {
			names = append(names, nm.Name)
		}
	}
	if len(params) != len(call.Args) {
		return nil, g.bad(n, "helper %s: %d parameters, %d arguments", hf.Name.Name, len(params), len(call.Args))
	}
	for i, a := range call.Args {
		pt := params[i].Type
		if id, ok := a.(*ast.Ident); ok && id.Name == recv {
			if st, ok := pt.(*ast.StarExpr); ok && g.src(st.X) == sname {
				env.structOf[names[i]] = sname
				continue
			}
			return nil, g.bad(n, "helper %s: receiver passed as %s", hf.Name.Name, g.src(pt))
		}
		if id, ok := a.(*ast.Ident); ok {
			if extVar == "" || id.Name != extVar || g.src(pt) != "ExtraOpaqueData" {
				return nil, g.bad(n, "helper %s: unsupported argument %s", hf.Name.Name, g.src(a))
			}
			env.ext = names[i]
			continue
		}
		f, ok := recvField(a, recv)
		if !ok {
			return nil, g.bad(n, "helper %s: unsupported argument %s", hf.Name.Name, g.src(a))
		}
		ft, ok := g.structField(sname, f)
		if !ok {
			return nil, g.bad(n, "helper %s: unknown field %s.%s", hf.Name.Name, sname, f)
		}
		if st, ok := pt.(*ast.StarExpr); ok {
			pt = st.X
		}
		if g.src(pt) != g.src(ft) {
			return nil, g.bad(n, "helper %s: parameter %s has type %s, argument field %s has type %s",
				hf.Name.Name, names[i], g.src(pt), f, g.src(ft))
		}
		if id, ok := pt.(*ast.Ident); ok {
			if ts, ok := g.types[id.Name]; ok {
				if _, ok := ts.Type.(*ast.StructType); ok {
					env.structOf[names[i]] = id.Name
					continue
				}
			}
		}
		env.typeOf[names[i]] = pt
	}
	return env, nil
}

// type of `p.F` / `p` in a helper body
func (g *wgen) helperFieldType(n ast.Node, env *helperEnv, e ast.Expr) (ast.Expr, string, error) {
	if id, ok := e.(*ast.Ident); ok {
		if t, ok := env.typeOf[id.Name]; ok {
			return t, id.Name, nil
		}
	}
	if sel, ok := e.(*ast.SelectorExpr); ok {
		if id, ok := sel.X.(*ast.Ident); ok {
			if sn, ok := env.structOf[id.Name]; ok {
				if t, ok := g.structField(sn, sel.Sel.Name); ok {
					return t, sn + "." + sel.Sel.Name, nil
				}
			}
		}
	}
	return nil, "", g.bad(n, "cannot resolve %s in helper", g.src(e))
}

// X.IsSome() || Y.IsSome() || ...  -> the record types of X, Y, ...
func (g *wgen) isSomeGroup(n ast.Node, env *helperEnv, e ast.Expr) ([]uint64, error) {
	if be, ok := e.(*ast.BinaryExpr); ok && be.Op == token.LOR {
		a, err := g.isSomeGroup(n, env, be.X)
		if err != nil {
			return nil, err
		}
		b, err := g.isSomeGroup(n, env, be.Y)
		if err != nil {
			return nil, err
		}
		return append(a, b...), nil
	}
	c, ok := e.(*ast.CallExpr)
	if !ok || len(c.Args) != 0 {
		return nil, g.bad(n, "unsupported presence test %s", g.src(e))
	}
	sel, ok := c.Fun.(*ast.SelectorExpr)
	if !ok || sel.Sel.Name != "IsSome" {
		return nil, g.bad(n, "unsupported presence test %s", g.src(e))
	}
	t, _, err := g.helperFieldType(n, env, sel.X)
	if err != nil {
		return nil, err
	}
	typ, _, err := g.recordOfType(n, t)
	if err != nil {
		return nil, err
	}
	return []uint64{typ}, nil
}

// Decode-side helper `func h(c *A, tc *B, ..., tlvRecords ExtraOpaqueData) error`:
// x := c.F.Zero(); typeMap, err := tlvRecords.ExtractRecords(&x, ...); the
// assignments of the parsed records; hasA := c.F.IsSome() || ...;
// if hasA && hasB { return error }
func (d *decState) inlineHelper(n ast.Node, call *ast.CallExpr, hf *ast.FuncDecl) error {
	g := d.g
	env, err := g.bindHelper(n, call, hf, d.recv, d.sname, d.extVar)
	if err != nil {
		return err
	}
	if env.ext == "" {
		return g.bad(n, "helper %s does not receive the extension data", hf.Name.Name)
	}
	zero := map[string]ast.Expr{}
	groups := map[string][]uint64{}
	for _, st := range hf.Body.List {
		if isErrCheck(st) {
			continue
		}
		if r, ok := st.(*ast.ReturnStmt); ok && len(r.Results) == 1 && g.src(r.Results[0]) == "nil" {
			continue
		}
		if as, ok := st.(*ast.AssignStmt); ok && as.Tok == token.DEFINE && len(as.Lhs) == 1 && len(as.Rhs) == 1 {
			id, _ := as.Lhs[0].(*ast.Ident)
			if c, ok := as.Rhs[0].(*ast.CallExpr); ok && id != nil && len(c.Args) == 0 {
				if sel, ok := c.Fun.(*ast.SelectorExpr); ok && sel.Sel.Name == "Zero" {
					t, _, err := g.helperFieldType(st, env, sel.X)
					if err != nil {
						return err
					}
					zero[id.Name] = t
					continue
				}
			}
			if id != nil {
				if grp, err := g.isSomeGroup(st, env, as.Rhs[0]); err == nil {
					groups[id.Name] = grp
					continue
				}
			}
		}
		if is, ok := st.(*ast.IfStmt); ok && is.Else == nil {
			cond := g.src(is.Cond)
			if is.Init != nil && cond == "ok && val == nil" {
				continue // if val, ok := typeMap[...]; ok && val == nil { field = Some(x) }
			}
			if be, ok := is.Cond.(*ast.BinaryExpr); ok && is.Init == nil && be.Op == token.LAND &&
				len(is.Body.List) == 1 {
				a, ok1 := be.X.(*ast.Ident)
				b, ok2 := be.Y.(*ast.Ident)
				_, isRet := is.Body.List[0].(*ast.ReturnStmt)
				if ok1 && ok2 && isRet && groups[a.Name] != nil && groups[b.Name] != nil {
					d.side.excl = append(d.side.excl, [2][]uint64{groups[a.Name], groups[b.Name]})
					continue
				}
			}
		}
		if c := stmtCall(st); c != nil && callName(c) == "ExtractRecords" {
			sel, ok := c.Fun.(*ast.SelectorExpr)
			if !ok || g.src(sel.X) != env.ext {
				return g.bad(st, "ExtractRecords not applied to the extension data")
			}
			if d.side.tlv {
				return g.bad(st, "extension parsed twice")
			}
			d.side.tlv, d.side.mode = true, "Repack"
			for _, a := range c.Args {
				u, ok := a.(*ast.UnaryExpr)
				if !ok || u.Op != token.AND {
					return g.bad(a, "unsupported record argument %s", g.src(a))
				}
				id, ok := u.X.(*ast.Ident)
				if !ok || zero[id.Name] == nil {
					return g.bad(a, "cannot resolve record variable %s", g.src(u.X))
				}
				typ, rk, err := g.recordOfType(a, zero[id.Name])
				if err != nil {
					return err
				}
				d.side.known = append(d.side.known, wrec{typ: typ, rk: rk, field: id.Name})
			}
			continue
		}
		return g.bad(st, "unsupported statement in helper %s: %s", hf.Name.Name, g.src(st))
	}
	if !d.side.tlv {
		return g.bad(n, "helper %s does not parse the extension data", hf.Name.Name)
	}
	return nil
}

func (d *decState) readArgs(n ast.Node, args []ast.Expr, into *[]wfield) error {
	g := d.g
	for _, a := range args {
		if d.extRead {
			return g.bad(a, "element read after the extension data")
		}
		// c.F[:]
		if sl, ok := a.(*ast.SliceExpr); ok && sl.Low == nil && sl.High == nil {
			f, ok := recvField(sl.X, d.recv)
			if !ok {
				return g.bad(a, "unsupported ReadElements argument %s", g.src(a))
			}
			ft, ok := g.structField(d.sname, f)
			if !ok {
				return g.bad(a, "unknown field %s.%s", d.sname, f)
			}
			n, ok := g.arrayLen(ft)
			if !ok {
				return g.bad(a, "cannot determine array length of %s (%s)", f, g.src(ft))
			}
			*into = append(*into, wfield{f, fmt.Sprintf("FBytes %d", n)})
			continue
		}
		if f, ok := recvField(a, d.recv); ok && d.lenFld == f && f != "" {
			// ReadElement(r, recv.F) with recv.F = make([]byte, n), n the u16 just read
			if ft, ok := g.structField(d.sname, f); !ok || g.src(ft) != "[]byte" {
				return g.bad(a, "length-prefixed field %s is not a []byte", f)
			}
			*into = append(*into, wfield{f, "FVar16"})
			d.lenFld, d.lenVar = "", ""
			continue
		}
		u, ok := a.(*ast.UnaryExpr)
		if !ok || u.Op != token.AND {
			return g.bad(a, "unsupported ReadElements argument %s", g.src(a))
		}
		if id, ok := u.X.(*ast.Ident); ok {
			t, ok := d.locals[id.Name]
			if ok && g.src(t) == "uint16" && d.lenVar == "" && len(args) == 1 {
				d.lenVar = id.Name // u16 length of a byte slice read next
				continue
			}
			if !ok || g.src(t) != "ExtraOpaqueData" {
				return g.bad(a, "ReadElements into local %s which is not an ExtraOpaqueData", id.Name)
			}
			d.extVar, d.extRead = id.Name, true
			continue
		}
		f, ok := recvField(u.X, d.recv)
		if !ok {
			return g.bad(a, "unsupported ReadElements argument %s", g.src(a))
		}
		ft, ok := g.structField(d.sname, f)
		if !ok {
			return g.bad(a, "unknown field %s.%s", d.sname, f)
		}
		if !g.readTys["*"+g.src(ft)] {
			return g.bad(a, "ReadElement has no case for *%s", g.src(ft))
		}
		cs, err := g.codecOfType(a, ft, f)
		if err != nil {
			return err
		}
		if len(cs) == 1 && cs[0].codec == "FRest" {
			d.side.term, d.side.extFld, d.extRead = "FRest", f, true
			continue
		}
		*into = append(*into, cs...)
	}
	return nil
}

func (d *decState) knownArg(a ast.Expr) (wrec, error) {
	g := d.g
	u, ok := a.(*ast.UnaryExpr)
	if !ok || u.Op != token.AND {
		return wrec{}, g.bad(a, "unsupported record argument %s", g.src(a))
	}
	if f, ok := recvField(u.X, d.recv); ok {
		ft, ok := g.structField(d.sname, f)
		if !ok {
			return wrec{}, g.bad(a, "unknown field %s.%s", d.sname, f)
		}
		typ, rk, err := g.recordOfType(a, ft)
		return wrec{typ: typ, rk: rk, field: f}, err
	}
	id, ok := u.X.(*ast.Ident)
	if !ok {
		return wrec{}, g.bad(a, "unsupported record argument %s", g.src(a))
	}
	if f, ok := d.zeroOf[id.Name]; ok {
		ft, ok := g.structField(d.sname, f)
		if !ok {
			return wrec{}, g.bad(a, "unknown field %s.%s", d.sname, f)
		}
		typ, rk, err := g.recordOfType(a, ft)
		return wrec{typ: typ, rk: rk, field: f}, err
	}
	if t, ok := d.zeroTy[id.Name]; ok {
		typ, rk, err := g.recordOfType(a, t)
		return wrec{typ: typ, rk: rk, field: id.Name}, err
	}
	if t, ok := d.locals[id.Name]; ok {
		typ, rk, err := g.recordOfType(a, t)
		return wrec{typ: typ, rk: rk, field: id.Name}, err
	}
	return wrec{}, g.bad(a, "cannot resolve record variable %s", id.Name)
}

// local declarations: var x T | var ( x T; y = recv.F.Zero(); z = tlv.ZeroRecordT[A,B]() ) |
// x := recv.F.Zero()
func (d *decState) declare(name string, typ ast.Expr, val ast.Expr) bool {
	if typ != nil {
		d.locals[name] = typ
		return true
	}
	c, ok := val.(*ast.CallExpr)
	if !ok || len(c.Args) != 0 {
		return false
	}
	if sel, ok := c.Fun.(*ast.SelectorExpr); ok && sel.Sel.Name == "Zero" {
		if f, ok := recvField(sel.X, d.recv); ok {
			d.zeroOf[name] = f
			return true
		}
	}
	if ix, ok := c.Fun.(*ast.IndexListExpr); ok && d.g.src(ix.X) == "tlv.ZeroRecordT" {
		d.zeroTy[name] = &ast.IndexListExpr{X: &ast.SelectorExpr{X: ast.NewIdent("tlv"),
			Sel: ast.NewIdent("RecordT")}, Indices: ix.Indices}
		return true
	}
	return false
}

// statements that only move already-decoded data into the struct
func (d *decState) ignorable(st ast.Stmt) bool {
	g := d.g
	switch s := st.(type) {
	case *ast.ReturnStmt:
		return len(s.Results) == 1 && g.src(s.Results[0]) == "nil"
	case *ast.AssignStmt:
		// recv.F = local | val, ok := typeMap[...] | val, ok = typeMap[...]
		if len(s.Lhs) == 1 && len(s.Rhs) == 1 {
			if _, ok := recvField(s.Lhs[0], d.recv); ok {
				if _, ok := s.Rhs[0].(*ast.Ident); ok {
					return true
				}
				// copy of an already decoded field into its embedded twin
				if _, ok := s.Rhs[0].(*ast.SelectorExpr); ok {
					if _, ok := recvField(s.Rhs[0], d.recv); ok {
						return true
					}
				}
			}
		}
		if len(s.Lhs) == 2 && len(s.Rhs) == 1 {
			if ix, ok := s.Rhs[0].(*ast.IndexExpr); ok {
				if id, ok := ix.X.(*ast.Ident); ok && id.Name == "typeMap" {
					return true
				}
			}
		}
	case *ast.IfStmt:
		if s.Else != nil {
			return false
		}
		cond := g.src(s.Cond)
		okCond := cond == "ok && val == nil" || cond == "ok" ||
			strings.HasPrefix(cond, "parsed.Contains(") ||
			(strings.HasPrefix(cond, "len(") && (strings.HasSuffix(cond, ") != 0") ||
				strings.HasSuffix(cond, ") == 0")))
		if !okCond {
			return false
		}
		if s.Init != nil {
			a, ok := s.Init.(*ast.AssignStmt)
			if !ok || len(a.Rhs) != 1 {
				return false
			}
			if _, ok := a.Rhs[0].(*ast.IndexExpr); !ok {
				return false
			}
		}
		for _, b := range s.Body.List {
			a, ok := b.(*ast.AssignStmt)
			if !ok || len(a.Lhs) != 1 {
				return false
			}
			if _, ok := recvField(a.Lhs[0], d.recv); !ok {
				return false
			}
		}
		return true
	}
	return false
}

func (g *wgen) analyseDecode(sname string, fd *ast.FuncDecl) (*wside, error) {
	if len(fd.Recv.List[0].Names) != 1 {
		return nil, g.bad(fd, "receiver without a name")
	}
	d := &decState{g: g, recv: fd.Recv.List[0].Names[0].Name, sname: sname, side: &wside{optAt: -1},
		locals: map[string]ast.Expr{}, zeroOf: map[string]string{}, zeroTy: map[string]ast.Expr{}}
	body := fd.Body.List
	skip := 0
	for i, st := range body {
		if skip > 0 {
			skip--
			continue
		}
		if d.lenVar != "" && d.lenFld == "" {
			// must be followed by recv.F = make([]byte, n)
			as, ok := st.(*ast.AssignStmt)
			if isErrCheck(st) {
				continue
			}
			if ok && len(as.Lhs) == 1 && len(as.Rhs) == 1 &&
				g.src(as.Rhs[0]) == "make([]byte, "+d.lenVar+")" {
				if f, ok := recvField(as.Lhs[0], d.recv); ok {
					d.lenFld = f
					continue
				}
			}
			return nil, g.bad(st, "u16 length %s is not used to allocate a []byte field right away", d.lenVar)
		}
		if _, isRet := st.(*ast.ReturnStmt); isErrCheck(st) || (d.ignorable(st) && (!isRet || i == len(body)-1)) {
			continue
		}
		// declarations
		if ds, ok := st.(*ast.DeclStmt); ok {
			gd := ds.Decl.(*ast.GenDecl)
			if gd.Tok != token.VAR {
				return nil, g.bad(st, "unsupported declaration")
			}
			for _, sp := range gd.Specs {
				vs := sp.(*ast.ValueSpec)
				for i, nm := range vs.Names {
					var val ast.Expr
					if i < len(vs.Values) {
						val = vs.Values[i]
					}
					if !d.declare(nm.Name, vs.Type, val) {
						return nil, g.bad(sp, "unsupported local declaration %s", g.src(sp))
					}
				}
			}
			continue
		}
		if as, ok := st.(*ast.AssignStmt); ok && as.Tok == token.DEFINE && len(as.Lhs) == 1 &&
			len(as.Rhs) == 1 {
			if id, ok := as.Lhs[0].(*ast.Ident); ok && id.Name != "err" {
				if d.declare(id.Name, nil, as.Rhs[0]) {
					continue
				}
			}
		}
		// conditional fields
		if is, ok := st.(*ast.IfStmt); ok && is.Init == nil && is.Else == nil {
			if _, isCall := is.Cond.(*ast.CallExpr); isCall {
				f, mask, err := g.flagCond(is.Cond, d.recv, sname)
				if err != nil {
					return nil, err
				}
				if d.side.cond != nil || d.extRead {
					return nil, g.bad(st, "more than one conditional part / conditional after extension")
				}
				idx := fieldIndex(d.side.flds, f)
				if idx < 0 {
					return nil, g.bad(st, "condition on field %s which was not read before", f)
				}
				c := &wcond{idx: idx, mask: mask, field: f}
				for _, b := range is.Body.List {
					call := stmtCall(b)
					if call == nil || callName(call) != "ReadElements" {
						return nil, g.bad(b, "unsupported statement in conditional part: %s", g.src(b))
					}
					if err := d.readArgs(b, call.Args[1:], &c.flds); err != nil {
						return nil, err
					}
				}
				d.side.cond = c
				continue
			}
		}
		call := stmtCall(st)
		if call == nil {
			return nil, g.bad(st, "unsupported statement in Decode: %s", g.src(st))
		}
		switch callName(call) {
		case "ReadElements", "ReadElement":
			into := &d.side.flds
			if d.side.cond != nil {
				// fields after the conditional part are not expressible
				var tmp []wfield
				into = &tmp
				if err := d.readArgs(st, call.Args[1:], into); err != nil {
					return nil, err
				}
				if len(tmp) != 0 {
					return nil, g.bad(st, "fixed fields after the conditional part")
				}
				continue
			}
			if err := d.readArgs(st, call.Args[1:], into); err != nil {
				return nil, err
			}
		case "ValidateTLV":
			sel := call.Fun.(*ast.SelectorExpr)
			f, ok := recvField(sel.X, d.recv)
			if !ok || d.side.term != "FRest" || f != d.side.extFld {
				return nil, g.bad(st, "ValidateTLV on something else than the extension field")
			}
			d.side.term = "FTlvRest"
		case "ExtractRecords", "ParseAndExtractCustomRecords", "ParseAndExtractExtraData":
			args := call.Args
			mode := "Repack"
			if callName(call) == "ParseAndExtractExtraData" {
				d.side.all = true
			}
			if callName(call) != "ExtractRecords" {
				mode = "Merge"
				if len(args) == 0 || g.src(args[0]) != d.extVar || d.extVar == "" {
					return nil, g.bad(st, "%s not applied to the extension data", callName(call))
				}
				args = args[1:]
			} else {
				sel := call.Fun.(*ast.SelectorExpr)
				if g.src(sel.X) != d.extVar || d.extVar == "" {
					return nil, g.bad(st, "ExtractRecords not applied to the extension data")
				}
			}
			if d.side.tlv {
				return nil, g.bad(st, "extension parsed twice")
			}
			d.side.tlv, d.side.mode = true, mode
			for _, a := range args {
				r, err := d.knownArg(a)
				if err != nil {
					return nil, err
				}
				d.side.known = append(d.side.known, r)
			}
		case "decodeShortChanIDs":
			as, isAs := st.(*ast.AssignStmt)
			if !isAs || len(as.Lhs) != 3 || len(call.Args) != 1 || d.extRead || d.side.cond != nil {
				return nil, g.bad(st, "unsupported use of decodeShortChanIDs")
			}
			f1, ok1 := recvField(as.Lhs[0], d.recv)
			f2, ok2 := recvField(as.Lhs[1], d.recv)
			t1, _ := g.structField(sname, f1)
			t2, _ := g.structField(sname, f2)
			if !ok1 || !ok2 || t1 == nil || t2 == nil || g.src(t1) != "QueryEncoding" ||
				g.src(t2) != "[]ShortChannelID" || g.src(as.Lhs[2]) != "err" {
				return nil, g.bad(st, "decodeShortChanIDs results not stored in (QueryEncoding, []ShortChannelID, err)")
			}
			if err := g.scidHelpersOK(); err != nil {
				g.helperDrift["short_chan_id_helpers"] = err.Error()
			}
			d.side.flds = append(d.side.flds, wfield{f2, "FScids"})
			d.scidEnc = f1
		case "Decode":
			// return recv.ExtraData.Decode(r): the extension data, unvalidated
			sel, _ := call.Fun.(*ast.SelectorExpr)
			f, ok := recvField(sel.X, d.recv)
			ft, _ := g.structField(sname, f)
			if _, isRet := st.(*ast.ReturnStmt); !isRet || !ok || ft == nil || g.src(ft) != "ExtraOpaqueData" ||
				len(call.Args) != 1 || g.src(call.Args[0]) != "r" || d.extRead || i != len(body)-1 {
				return nil, g.bad(st, "unsupported call in Decode: %s", g.src(call.Fun))
			}
			d.side.term, d.side.extFld, d.extRead = "FRest", f, true
		case "ReadVarInt":
			// x, err := tlv.ReadVarInt(r, &buf); ...; recv.F = x
			as, isAs := st.(*ast.AssignStmt)
			if g.src(call.Fun) != "tlv.ReadVarInt" || !isAs || len(as.Lhs) != 2 || d.extRead || d.side.cond != nil {
				return nil, g.bad(st, "unsupported call in Decode: %s", g.src(call.Fun))
			}
			x := g.src(as.Lhs[0])
			fld := ""
			for _, nx := range body[i+1:] {
				if a2, ok := nx.(*ast.AssignStmt); ok && len(a2.Lhs) == 1 && len(a2.Rhs) == 1 && g.src(a2.Rhs[0]) == x {
					if f, ok := recvField(a2.Lhs[0], d.recv); ok {
						fld = f
					}
					break
				}
				if !isErrCheck(nx) {
					break
				}
			}
			ft, _ := g.structField(sname, fld)
			if fld == "" || ft == nil || g.src(ft) != "uint64" {
				return nil, g.bad(st, "result of tlv.ReadVarInt is not stored in a uint64 field right away")
			}
			d.side.flds = append(d.side.flds, wfield{fld, "FBigSize"})
		case "ReadFull":
			// _, err = io.ReadFull(r, buf[:N])   (first field of an optional tail)
			if g.src(call.Fun) != "io.ReadFull" || len(call.Args) != 2 || i+1 >= len(body) {
				return nil, g.bad(st, "unsupported call in Decode: %s", g.src(call.Fun))
			}
			n, buf, err := d.localArraySlice(call.Args[1])
			if err != nil {
				return nil, err
			}
			if !isEOFSplit(g, body[i+1], d.recv) {
				return nil, g.bad(body[i+1], "io.ReadFull not followed by `if err == io.EOF { ...; return nil } else if err != nil { return err }`")
			}
			if d.side.optAt >= 0 || d.side.cond != nil || d.extRead {
				return nil, g.bad(st, "second optional tail / optional tail after conditional part")
			}
			d.side.optAt = len(d.side.flds)
			d.optBuf, d.optLen = buf, n
			skip = 1
		case "copy":
			// copy(recv.F[:], buf[:])
			if d.optBuf == "" || len(call.Args) != 2 {
				return nil, g.bad(st, "unsupported call in Decode: copy")
			}
			dst, ok1 := call.Args[0].(*ast.SliceExpr)
			_, buf, err := d.localArraySlice(call.Args[1])
			if !ok1 || err != nil || buf != d.optBuf || dst.Low != nil || dst.High != nil {
				return nil, g.bad(st, "unsupported copy in Decode: %s", g.src(st))
			}
			f, ok := recvField(dst.X, d.recv)
			if !ok {
				return nil, g.bad(st, "unsupported copy target %s", g.src(dst.X))
			}
			ft, _ := g.structField(sname, f)
			if ft == nil {
				return nil, g.bad(st, "unknown field %s.%s", sname, f)
			}
			if n, ok := g.arrayLen(ft); !ok || n != d.optLen {
				return nil, g.bad(st, "copy of %d bytes into field %s of another size", d.optLen, f)
			}
			if len(d.side.flds) != d.side.optAt {
				return nil, g.bad(st, "copy of the optional-tail buffer is not the first tail field")
			}
			d.side.flds = append(d.side.flds, wfield{f, fmt.Sprintf("FBytes %d", d.optLen)})
			d.optBuf = ""
		default:
			if hf, ok := g.funcs[callName(call)]; ok && d.extVar != "" {
				if _, isId := call.Fun.(*ast.Ident); isId {
					if err := d.inlineHelper(st, call, hf); err != nil {
						return nil, err
					}
					continue
				}
			}
			return nil, g.bad(st, "unsupported call in Decode: %s", g.src(call.Fun))
		}
	}
	if d.optBuf != "" {
		return nil, g.bad(fd, "optional-tail buffer %s is never copied into a field", d.optBuf)
	}
	if d.lenVar != "" {
		return nil, g.bad(fd, "u16 length %s read but no byte slice of that length", d.lenVar)
	}
	if d.extVar != "" && !d.side.tlv {
		// local ExtraOpaqueData copied into the struct without parsing
		d.side.term = "FRest"
	}
	// the struct field that receives the extension data (recv.F = local)
	ast.Inspect(fd.Body, func(n ast.Node) bool {
		if as, ok := n.(*ast.AssignStmt); ok && len(as.Lhs) == 1 && len(as.Rhs) == 1 {
			if f, ok := recvField(as.Lhs[0], d.recv); ok {
				if ft, ok := g.structField(sname, f); ok && g.src(ft) == "ExtraOpaqueData" {
					if _, ok := as.Rhs[0].(*ast.Ident); ok && d.side.extFld == "" {
						d.side.extFld = f
					}
				}
			}
		}
		return true
	})
	if d.side.term == "" && !d.side.tlv && d.extRead {
		return nil, g.bad(fd, "extension data read but not used")
	}
	return d.side, nil
}

// ---------------------------------------------------------------- Encode

var writeCodecs = map[string]string{
	"WriteUint8": "FU 1", "WriteFundingFlag": "FU 1", "WriteChanUpdateMsgFlags": "FU 1",
	"WriteChanUpdateChanFlags": "FU 1", "WriteQueryEncoding": "FU 1",
	"WriteUint16": "FU 2", "WriteFailCode": "FU 2", "WriteUint32": "FU 4",
	"WriteUint64": "FU 8", "WriteSatoshi": "FU 8", "WriteMilliSatoshi": "FU 8",
	"WriteShortChannelID": "FU 8", "WriteChannelID": "FBytes 32", "WriteSig": "FBytes 64",
	"WritePublicKey": "FPoint", "WriteBool": "FBool", "WriteRawFeatureVector": "FFeat",
	"WritePingPayload": "FVar16", "WritePongPayload": "FVar16", "WriteWarningData": "FVar16",
	"WriteErrorData": "FVar16", "WriteOpaqueReason": "FVar16", "WriteSigs": "FArr16 64",
	"WriteNodeAlias": "FAlias", "WriteNetAddrs": "FAddrs",
}

type encState struct {
	g        *wgen
	recv     string
	sname    string
	side     *wside
	prodVar  string // name of the []tlv.RecordProducer variable
	mergeVar string // result variable of MergeAndEncode
	done     bool
	sorted   string // field sorted by `if !recv.noSort { sort.Slice(...) }`
	packVar  string // var tlvData ExtraOpaqueData; tlvData.PackRecords(producers...)
	lenVar   string // n := len(recv.F)
	lenFld   string
	lenOut   bool // WriteUint16(w, uint16(n)) seen: WriteBytes(w, recv.F) must follow
}

func unconv(e ast.Expr) ast.Expr {
	// strip conversions T(x) and &x
	for {
		switch x := e.(type) {
		case *ast.CallExpr:
			if len(x.Args) == 1 {
				if _, ok := x.Fun.(*ast.Ident); ok {
					e = x.Args[0]
					continue
				}
			}
		case *ast.UnaryExpr:
			if x.Op == token.AND {
				e = x.X
				continue
			}
		case *ast.ParenExpr:
			e = x.X
			continue
		}
		return e
	}
}

func (e *encState) write(n ast.Node, call *ast.CallExpr, into *[]wfield) error {
	g := e.g
	if e.done {
		return g.bad(n, "write after the extension data")
	}
	fn := callName(call)
	if len(call.Args) != 2 {
		return g.bad(n, "%s with %d arguments", fn, len(call.Args))
	}
	arg := call.Args[1]
	if fn == "WriteUint16" && e.lenVar != "" && !e.lenOut {
		if id, ok := unconv(arg).(*ast.Ident); ok && id.Name == e.lenVar {
			e.lenOut = true
			return nil
		}
	}
	if e.lenOut {
		f, ok := recvField(arg, e.recv)
		ft, _ := g.structField(e.sname, f)
		if fn != "WriteBytes" || !ok || f != e.lenFld || ft == nil || g.src(ft) != "[]byte" {
			return g.bad(n, "u16 length of %s written, but %s follows", e.lenFld, g.src(call))
		}
		*into = append(*into, wfield{f, "FVar16"})
		e.lenOut, e.lenVar, e.lenFld = false, "", ""
		return nil
	}
	switch fn {
	case "WriteBytes":
		if sl, ok := arg.(*ast.SliceExpr); ok && sl.Low == nil && sl.High == nil {
			f, ok := recvField(sl.X, e.recv)
			if !ok {
				return g.bad(n, "unsupported WriteBytes argument %s", g.src(arg))
			}
			ft, ok := g.structField(e.sname, f)
			if !ok {
				return g.bad(n, "unknown field %s.%s", e.sname, f)
			}
			ln, ok := g.arrayLen(ft)
			if !ok {
				return g.bad(n, "cannot determine array length of %s", f)
			}
			*into = append(*into, wfield{f, fmt.Sprintf("FBytes %d", ln)})
			return nil
		}
		if id, ok := arg.(*ast.Ident); ok {
			if id.Name == e.mergeVar && e.mergeVar != "" {
				e.done = true
				return nil
			}
			return g.bad(n, "WriteBytes of local %s", id.Name)
		}
		f, ok := recvField(arg, e.recv)
		if !ok {
			return g.bad(n, "unsupported WriteBytes argument %s", g.src(arg))
		}
		ft, ok := g.structField(e.sname, f)
		if !ok || g.src(ft) != "ExtraOpaqueData" {
			return g.bad(n, "WriteBytes of field %s which is not an ExtraOpaqueData", f)
		}
		e.done = true
		if e.side.tlv {
			if e.side.mode != "Repack" || f != e.side.extFld {
				return g.bad(n, "extension field written is not the one packed")
			}
			return nil
		}
		e.side.term, e.side.extFld = "FRest", f
		return nil
	case "WriteOutPoint", "WriteColorRGBA", "WriteDeliveryAddress":
		f, ok := recvField(unconv(arg), e.recv)
		if !ok {
			return g.bad(n, "unsupported %s argument %s", fn, g.src(arg))
		}
		ft, ok := g.structField(e.sname, f)
		if !ok {
			return g.bad(n, "unknown field %s.%s", e.sname, f)
		}
		want := map[string]string{"WriteOutPoint": "wire.OutPoint", "WriteColorRGBA": "color.RGBA",
			"WriteDeliveryAddress": "DeliveryAddress"}[fn]
		if g.src(ft) != want {
			return g.bad(n, "%s applied to a %s", fn, g.src(ft))
		}
		cs, err := g.codecOfType(n, ft, f)
		if err != nil {
			return err
		}
		*into = append(*into, cs...)
		return nil
	}
	c, ok := writeCodecs[fn]
	if !ok {
		return g.bad(n, "unsupported writer %s", fn)
	}
	f, ok := recvField(unconv(arg), e.recv)
	if !ok {
		return g.bad(n, "unsupported %s argument %s", fn, g.src(arg))
	}
	*into = append(*into, wfield{f, c})
	return nil
}

func (e *encState) producer(n ast.Node, x ast.Expr, always bool) error {
	g := e.g
	f, ok := recvField(x, e.recv)
	if !ok {
		return g.bad(n, "unsupported record producer %s", g.src(x))
	}
	ft, ok := g.structField(e.sname, f)
	if !ok {
		return g.bad(n, "unknown field %s.%s", e.sname, f)
	}
	typ, rk, err := g.recordOfType(n, ft)
	if err != nil {
		return err
	}
	e.side.known = append(e.side.known, wrec{typ: typ, rk: rk, always: always, field: f})
	return nil
}

// Encode-side helper `func h(c *A, tc *B, f T) []tlv.RecordProducer`:
// ps := make([]tlv.RecordProducer, 0, n); X.WhenSome(func(v T) { ps = append(ps, &v) }) ...; return ps
func (e *encState) inlineProducers(n ast.Node, call *ast.CallExpr, hf *ast.FuncDecl) error {
	g := e.g
	env, err := g.bindHelper(n, call, hf, e.recv, e.sname, "")
	if err != nil {
		return err
	}
	pv := ""
	for _, st := range hf.Body.List {
		if as, ok := st.(*ast.AssignStmt); ok && as.Tok == token.DEFINE && len(as.Lhs) == 1 {
			id, _ := as.Lhs[0].(*ast.Ident)
			if c, ok := as.Rhs[0].(*ast.CallExpr); ok && id != nil && callName(c) == "make" &&
				g.src(c.Args[0]) == "[]tlv.RecordProducer" && pv == "" {
				pv = id.Name
				continue
			}
		}
		if r, ok := st.(*ast.ReturnStmt); ok && len(r.Results) == 1 && g.src(r.Results[0]) == pv && pv != "" {
			continue
		}
		c := stmtCall(st)
		if _, isExpr := st.(*ast.ExprStmt); isExpr && c != nil && callName(c) == "WhenSome" && len(c.Args) == 1 {
			sel := c.Fun.(*ast.SelectorExpr)
			fl, ok := c.Args[0].(*ast.FuncLit)
			if !ok || len(fl.Body.List) != 1 || len(fl.Type.Params.List) != 1 ||
				len(fl.Type.Params.List[0].Names) != 1 {
				return g.bad(st, "unsupported WhenSome callback in helper %s", hf.Name.Name)
			}
			save := e.prodVar
			e.prodVar = pv
			x, ok := e.appendStmt(fl.Body.List[0])
			e.prodVar = save
			if !ok || g.src(x) != "&"+fl.Type.Params.List[0].Names[0].Name {
				return g.bad(st, "WhenSome callback in helper %s is not an append of its parameter", hf.Name.Name)
			}
			t, nm, err := g.helperFieldType(st, env, sel.X)
			if err != nil {
				return err
			}
			typ, rk, err := g.recordOfType(st, t)
			if err != nil {
				return err
			}
			e.side.known = append(e.side.known, wrec{typ: typ, rk: rk, field: nm})
			continue
		}
		return g.bad(st, "unsupported statement in helper %s: %s", hf.Name.Name, g.src(st))
	}
	return nil
}

// recordProducers = append(recordProducers, X)
func (e *encState) appendStmt(st ast.Stmt) (ast.Expr, bool) {
	as, ok := st.(*ast.AssignStmt)
	if !ok || len(as.Lhs) != 1 || len(as.Rhs) != 1 {
		return nil, false
	}
	id, ok := as.Lhs[0].(*ast.Ident)
	if !ok || id.Name != e.prodVar {
		return nil, false
	}
	c, ok := as.Rhs[0].(*ast.CallExpr)
	if !ok || callName(c) != "append" || len(c.Args) != 2 || e.g.src(c.Args[0]) != e.prodVar {
		return nil, false
	}
	return c.Args[1], true
}

func (g *wgen) analyseEncode(sname string, fd *ast.FuncDecl) (*wside, error) {
	if len(fd.Recv.List[0].Names) != 1 {
		return nil, g.bad(fd, "receiver without a name")
	}
	e := &encState{g: g, recv: fd.Recv.List[0].Names[0].Name, sname: sname, side: &wside{optAt: -1}}
	for _, st := range fd.Body.List {
		if isErrCheck(st) {
			continue
		}
		// producer list: x := make([]tlv.RecordProducer, 0, n) | x := []tlv.RecordProducer{&c.F} |
		// var x []tlv.RecordProducer
		if as, ok := st.(*ast.AssignStmt); ok && as.Tok == token.DEFINE && len(as.Lhs) == 1 {
			id, _ := as.Lhs[0].(*ast.Ident)
			// n := len(recv.F)
			if c, ok := as.Rhs[0].(*ast.CallExpr); ok && id != nil && callName(c) == "len" && len(c.Args) == 1 {
				if f, ok := recvField(c.Args[0], e.recv); ok && e.lenVar == "" {
					e.lenVar, e.lenFld = id.Name, f
					continue
				}
			}
			// producers := helper(&c.A, &c.B, c.F)
			if c, ok := as.Rhs[0].(*ast.CallExpr); ok && id != nil {
				if fid, ok := c.Fun.(*ast.Ident); ok {
					if hf, ok := g.funcs[fid.Name]; ok && hf.Type.Results != nil &&
						len(hf.Type.Results.List) == 1 &&
						g.src(hf.Type.Results.List[0].Type) == "[]tlv.RecordProducer" {
						if err := e.inlineProducers(st, c, hf); err != nil {
							return nil, err
						}
						e.prodVar = id.Name
						continue
					}
				}
			}
			if c, ok := as.Rhs[0].(*ast.CallExpr); ok && id != nil && callName(c) == "make" &&
				g.src(c.Args[0]) == "[]tlv.RecordProducer" {
				e.prodVar = id.Name
				continue
			}
			if cl, ok := as.Rhs[0].(*ast.CompositeLit); ok && id != nil &&
				g.src(cl.Type) == "[]tlv.RecordProducer" {
				e.prodVar = id.Name
				for _, el := range cl.Elts {
					if err := e.producer(st, el, true); err != nil {
						return nil, err
					}
				}
				continue
			}
		}
		if ds, ok := st.(*ast.DeclStmt); ok {
			gd := ds.Decl.(*ast.GenDecl)
			if gd.Tok == token.VAR && len(gd.Specs) == 1 {
				vs := gd.Specs[0].(*ast.ValueSpec)
				if len(vs.Names) == 1 && vs.Type != nil && g.src(vs.Type) == "[]tlv.RecordProducer" &&
					len(vs.Values) == 0 {
					e.prodVar = vs.Names[0].Name
					continue
				}
			}
			if gd.Tok == token.VAR && g.src(st) == "var buf [8]byte" {
				continue // scratch buffer of tlv.WriteVarInt
			}
			if gd.Tok == token.VAR && len(gd.Specs) == 1 {
				vs := gd.Specs[0].(*ast.ValueSpec)
				if len(vs.Names) == 1 && vs.Type != nil && g.src(vs.Type) == "ExtraOpaqueData" &&
					len(vs.Values) == 0 && e.packVar == "" {
					e.packVar = vs.Names[0].Name // target of PackRecords
					continue
				}
			}
			return nil, g.bad(st, "unsupported declaration in Encode: %s", g.src(st))
		}
		// if c.F != nil { producers = append(producers, c.F) }   |   if c.F.HasX() { WriteY }
		if is, ok := st.(*ast.IfStmt); ok && is.Init == nil && is.Else == nil {
			// if c.X == nil { return WriteBytes(w, c.ExtraData) }: the rest is an optional tail
			if be, ok := is.Cond.(*ast.BinaryExpr); ok && be.Op == token.EQL && g.src(be.Y) == "nil" &&
				len(is.Body.List) == 1 {
				f, ok := recvField(be.X, e.recv)
				rc := stmtCall(is.Body.List[0])
				_, isRet := is.Body.List[0].(*ast.ReturnStmt)
				if ok && isRet && rc != nil && callName(rc) == "WriteBytes" && len(rc.Args) == 2 {
					xf, ok2 := recvField(rc.Args[1], e.recv)
					xt, _ := g.structField(sname, xf)
					if ok2 && xt != nil && g.src(xt) == "ExtraOpaqueData" && e.side.optAt < 0 &&
						e.side.cond == nil && !e.done {
						e.side.optAt, e.side.optFld = len(e.side.flds), f
						continue
					}
				}
				return nil, g.bad(st, "unsupported nil test in Encode: %s", g.src(is.Cond))
			}
			if be, ok := is.Cond.(*ast.BinaryExpr); ok && be.Op == token.NEQ && g.src(be.Y) == "nil" &&
				len(is.Body.List) == 1 {
				if x, ok := e.appendStmt(is.Body.List[0]); ok {
					f1, ok1 := recvField(be.X, e.recv)
					f2, ok2 := recvField(x, e.recv)
					if !ok1 || !ok2 || f1 != f2 {
						return nil, g.bad(st, "nil test and appended producer differ")
					}
					if err := e.producer(st, x, false); err != nil {
						return nil, err
					}
					continue
				}
			}
			// if !recv.noSort { sort.Slice(recv.F, func(i, j int) bool { return recv.F[i].ToUint64() < recv.F[j].ToUint64() }) }
			// (a no-op on a decoded value: decodeShortChanIDs only accepts increasing ids)
			if u, ok := is.Cond.(*ast.UnaryExpr); ok && u.Op == token.NOT && len(is.Body.List) == 1 {
				if f, ok := recvField(u.X, e.recv); ok && f == "noSort" {
					c := stmtCall(is.Body.List[0])
					if c != nil && g.src(c.Fun) == "sort.Slice" && len(c.Args) == 2 {
						if sf, ok := recvField(c.Args[0], e.recv); ok {
							want := fmt.Sprintf("func(i, j int) bool { return %s.%s[i].ToUint64() < %s.%s[j].ToUint64() }",
								e.recv, sf, e.recv, sf)
							if g.src(c.Args[1]) == want {
								e.sorted = sf
								continue
							}
						}
					}
				}
				return nil, g.bad(st, "unsupported if statement in Encode: %s", g.src(is.Cond))
			}
			if _, isCall := is.Cond.(*ast.CallExpr); isCall {
				f, mask, err := g.flagCond(is.Cond, e.recv, sname)
				if err != nil {
					return nil, err
				}
				if e.side.cond != nil || e.done {
					return nil, g.bad(st, "more than one conditional part")
				}
				idx := fieldIndex(e.side.flds, f)
				if idx < 0 {
					return nil, g.bad(st, "condition on field %s which was not written before", f)
				}
				c := &wcond{idx: idx, mask: mask, field: f}
				for _, b := range is.Body.List {
					if isErrCheck(b) {
						continue
					}
					call := stmtCall(b)
					if call == nil || !strings.HasPrefix(callName(call), "Write") {
						return nil, g.bad(b, "unsupported statement in conditional part: %s", g.src(b))
					}
					if err := e.write(b, call, &c.flds); err != nil {
						return nil, err
					}
				}
				e.side.cond = c
				continue
			}
			return nil, g.bad(st, "unsupported if statement in Encode: %s", g.src(is.Cond))
		}
		if r, ok := st.(*ast.ReturnStmt); ok && len(r.Results) == 1 && g.src(r.Results[0]) == "nil" &&
			st == fd.Body.List[len(fd.Body.List)-1] {
			continue // final `return nil`
		}
		if as, ok := st.(*ast.AssignStmt); ok && len(as.Lhs) == 2 && len(as.Rhs) == 1 && as.Tok == token.DEFINE {
			// producers, err := recv.ExtraData.RecordProducers(): the unknown records come first
			if c, ok := as.Rhs[0].(*ast.CallExpr); ok && callName(c) == "RecordProducers" && len(c.Args) == 0 {
				sel := c.Fun.(*ast.SelectorExpr)
				f, ok := recvField(sel.X, e.recv)
				ft, _ := g.structField(sname, f)
				id, isId := as.Lhs[0].(*ast.Ident)
				if !ok || ft == nil || g.src(ft) != "ExtraOpaqueData" || !isId || e.prodVar != "" {
					return nil, g.bad(st, "unsupported RecordProducers call %s", g.src(c))
				}
				e.prodVar, e.side.all, e.side.extFld = id.Name, true, f
				continue
			}
		}
		if as, ok := st.(*ast.AssignStmt); ok && len(as.Lhs) == 1 && len(as.Rhs) == 1 && as.Tok == token.ASSIGN {
			// producers = append(producers, helper(recv | &recv.Embedded)...)
			if c, ok := as.Rhs[0].(*ast.CallExpr); ok && callName(c) == "append" && c.Ellipsis.IsValid() &&
				len(c.Args) == 2 && g.src(as.Lhs[0]) == e.prodVar && g.src(c.Args[0]) == e.prodVar && e.prodVar != "" {
				if hc, ok := c.Args[1].(*ast.CallExpr); ok {
					if fid, ok := hc.Fun.(*ast.Ident); ok {
						if hf, ok := g.funcs[fid.Name]; ok {
							if err := e.inlineProducers(st, hc, hf); err != nil {
								return nil, err
							}
							continue
						}
					}
				}
				return nil, g.bad(st, "unsupported append of producers: %s", g.src(c.Args[1]))
			}
		}
		call := stmtCall(st)
		if call == nil {
			return nil, g.bad(st, "unsupported statement in Encode: %s", g.src(st))
		}
		name := callName(call)
		switch {
		case name == "WhenSome":
			// c.F.WhenSome(func(x T) { producers = append(producers, &x) })
			sel := call.Fun.(*ast.SelectorExpr)
			fl, ok := call.Args[0].(*ast.FuncLit)
			if !ok || len(fl.Body.List) != 1 || len(fl.Type.Params.List) != 1 {
				return nil, g.bad(st, "unsupported WhenSome callback")
			}
			x, ok := e.appendStmt(fl.Body.List[0])
			if !ok {
				return nil, g.bad(st, "WhenSome callback is not an append to the producer list")
			}
			pn := fl.Type.Params.List[0].Names[0].Name
			if g.src(x) != "&"+pn {
				return nil, g.bad(st, "WhenSome callback appends %s, not its parameter", g.src(x))
			}
			if err := e.producer(st, sel.X, false); err != nil {
				return nil, err
			}
		case name == "PackRecords":
			sel := call.Fun.(*ast.SelectorExpr)
			if g.src(sel.X) != e.packVar || e.packVar == "" || len(call.Args) != 1 ||
				!call.Ellipsis.IsValid() || g.src(call.Args[0]) != e.prodVar || !e.side.all {
				return nil, g.bad(st, "unsupported PackRecords call")
			}
			e.side.tlv, e.side.mode = true, "Merge"
			e.mergeVar = e.packVar
		case name == "EncodeMessageExtraData":
			if len(call.Args) != 2 || !call.Ellipsis.IsValid() || g.src(call.Args[1]) != e.prodVar {
				return nil, g.bad(st, "unsupported EncodeMessageExtraData call")
			}
			f, ok := recvField(call.Args[0], e.recv)
			if !ok {
				return nil, g.bad(st, "EncodeMessageExtraData target is not a field")
			}
			e.side.tlv, e.side.mode, e.side.extFld = true, "Repack", f
		case name == "MergeAndEncode":
			if len(call.Args) != 3 {
				return nil, g.bad(st, "unsupported MergeAndEncode call")
			}
			a0 := g.src(call.Args[0])
			if a0 != "nil" && a0 != e.prodVar {
				return nil, g.bad(st, "MergeAndEncode of %s, not the producer list", a0)
			}
			f1, ok1 := recvField(call.Args[1], e.recv)
			f2, ok2 := recvField(call.Args[2], e.recv)
			if !ok1 || !ok2 || f2 != "CustomRecords" {
				return nil, g.bad(st, "MergeAndEncode arguments are not (records, c.ExtraData, c.CustomRecords)")
			}
			as, ok := st.(*ast.AssignStmt)
			if !ok || len(as.Lhs) != 2 {
				return nil, g.bad(st, "MergeAndEncode result not assigned")
			}
			e.mergeVar = g.src(as.Lhs[0])
			e.side.tlv, e.side.mode, e.side.extFld = true, "Merge", f1
		case name == "encodeShortChanIDs" && len(call.Args) == 3:
			f1, ok1 := recvField(call.Args[1], e.recv)
			f2, ok2 := recvField(call.Args[2], e.recv)
			t1, _ := g.structField(sname, f1)
			t2, _ := g.structField(sname, f2)
			if !ok1 || !ok2 || t1 == nil || t2 == nil || g.src(t1) != "QueryEncoding" ||
				g.src(t2) != "[]ShortChannelID" || e.done || e.side.cond != nil || g.src(call.Args[0]) != "w" {
				return nil, g.bad(st, "unsupported encodeShortChanIDs call")
			}
			if err := g.scidHelpersOK(); err != nil {
				g.helperDrift["short_chan_id_helpers"] = err.Error()
			}
			if e.sorted != "" && e.sorted != f2 {
				return nil, g.bad(st, "Encode sorts %s but writes %s", e.sorted, f2)
			}
			e.side.flds = append(e.side.flds, wfield{f2, "FScids"})
		case g.src(call.Fun) == "tlv.WriteVarInt" && len(call.Args) == 3:
			f, ok := recvField(call.Args[1], e.recv)
			ft, _ := g.structField(sname, f)
			if !ok || ft == nil || g.src(ft) != "uint64" || e.done || e.side.cond != nil {
				return nil, g.bad(st, "unsupported tlv.WriteVarInt argument %s", g.src(call.Args[1]))
			}
			e.side.flds = append(e.side.flds, wfield{f, "FBigSize"})
		case strings.HasPrefix(name, "Write"):
			into := &e.side.flds
			if e.side.cond != nil {
				var tmp []wfield
				if err := e.write(st, call, &tmp); err != nil {
					return nil, err
				}
				if len(tmp) != 0 {
					return nil, g.bad(st, "fixed fields after the conditional part")
				}
				continue
			}
			if err := e.write(st, call, into); err != nil {
				return nil, err
			}
		default:
			return nil, g.bad(st, "unsupported call in Encode: %s", g.src(call.Fun))
		}
	}
	if e.lenVar != "" {
		return nil, g.bad(fd, "length of %s taken but never written", e.lenFld)
	}
	return e.side, nil
}

// ---------------------------------------------------------------- emit

func coqLayout(fl []wfield) string {
	cs := make([]string, len(fl))
	for i, f := range fl {
		cs[i] = f.codec
	}
	return "[" + strings.Join(cs, "; ") + "]"
}

func coqKnown(ks []wrec) string {
	s := make([]wrec, len(ks))
	copy(s, ks)
	sort.Slice(s, func(i, j int) bool { return s[i].typ < s[j].typ })
	var out []string
	for _, k := range s {
		out = append(out, fmt.Sprintf("{| kr_type := %d; kr_kind := %s; kr_always := %v |}",
			k.typ, k.rk, k.always))
	}
	return "[" + strings.Join(out, "; ") + "]"
}

func coqNs(ns []uint64) string {
	out := make([]string, len(ns))
	for i, n := range ns {
		out[i] = strconv.FormatUint(n, 10)
	}
	return "[" + strings.Join(out, "; ") + "]"
}

func coqExcl(x [][2][]uint64) string {
	var out []string
	for _, ab := range x {
		out = append(out, fmt.Sprintf("(%s, %s)", coqNs(ab[0]), coqNs(ab[1])))
	}
	return "[" + strings.Join(out, "; ") + "]"
}

func coqMsg(s *wside, term string) string {
	cond := "None"
	if s.cond != nil {
		cond = fmt.Sprintf("Some (%d%%nat, %d, %s)", s.cond.idx, s.cond.mask, coqLayout(s.cond.flds))
	}
	_ = term
	flds := s.flds
	if s.optAt >= 0 {
		flds = s.flds[s.optAt:]
	}
	tm := fmt.Sprintf("{| tm_pre := %s; tm_cond := %s; tm_known := %s; tm_mode := %s; tm_excl := %s |}",
		coqLayout(flds), cond, coqKnown(s.known), s.mode, coqExcl(s.excl))
	if s.optAt >= 0 {
		return fmt.Sprintf("{| om_pre := %s; om_tail := %s |}", coqLayout(s.flds[:s.optAt]), tm)
	}
	return tm
}

func coqString(s string) string {
	s = strings.ReplaceAll(s, "\"", "'")
	var b strings.Builder
	for _, r := range s {
		if r < 32 || r > 126 {
			b.WriteByte('?')
		} else {
			b.WriteRune(r)
		}
	}
	return "\"" + b.String() + "\""
}

// why a message that the fragment does not express is not (yet) worth expressing: what the
// Coq model (Wire/MsgModel.v) would need.  Appended to the construct-level reason.
var modelGaps = map[string]string{
	"AnnounceSignatures2": "pure-TLV message: every non-optional record is re-emitted by AllRecords with its zero " +
		"value when the peer omitted it, and unknown records survive only inside the signed ranges " +
		"(ExtraSignedFields); MsgModel.tlvmsg has neither always-records with a non-empty default value " +
		"nor a range-filtered Merge; harness predicates only",
	"ChannelAnnouncement2": "pure-TLV message: as AnnounceSignatures2, plus records omitted when equal to a default " +
		"(chain hash = mainnet genesis); harness predicates only",
	"NodeAnnouncement2": "pure-TLV message: as AnnounceSignatures2, plus records for colour, alias and per-family " +
		"address lists; harness predicates only",
	"ChannelUpdate2": "pure-TLV message: as AnnounceSignatures2, plus records omitted when equal to a default " +
		"(cltv delta, htlc minimum, fees, disable flags) and the zero-length TrueBoolean record; harness predicates only",
	"ReplyChannelRange": "the timestamps record (own encoding byte, optionally zlib) must have exactly one entry per " +
		"short channel id, and Encode sorts the ids and permutes the timestamps along; the plain id list itself " +
		"is Model.FScids (see QueryShortChanIDs); harness predicates only",
}

type wmsg struct {
	constName string
	typ       uint64
	sname     string
}

func (g *wgen) messages() ([]wmsg, error) {
	fd, ok := g.funcs["makeEmptyMessage"]
	if !ok {
		return nil, fmt.Errorf("lnwire: makeEmptyMessage not found")
	}
	var msgs []wmsg
	var sw *ast.SwitchStmt
	ast.Inspect(fd, func(n ast.Node) bool {
		if s, ok := n.(*ast.SwitchStmt); ok && sw == nil {
			sw = s
		}
		return sw == nil
	})
	if sw == nil {
		return nil, fmt.Errorf("lnwire: makeEmptyMessage has no switch")
	}
	for _, cc := range sw.Body.List {
		c := cc.(*ast.CaseClause)
		if len(c.List) != 1 || len(c.Body) != 1 {
			continue // default: custom range, handled by hand (see notes/C10.md)
		}
		id, ok := c.List[0].(*ast.Ident)
		if !ok {
			return nil, fmt.Errorf("lnwire: makeEmptyMessage case %s", g.src(c.List[0]))
		}
		as, ok := c.Body[0].(*ast.AssignStmt)
		if !ok {
			return nil, fmt.Errorf("lnwire: makeEmptyMessage case %s: not an assignment", id.Name)
		}
		u, ok := as.Rhs[0].(*ast.UnaryExpr)
		if !ok {
			return nil, fmt.Errorf("lnwire: makeEmptyMessage case %s: not &T{}", id.Name)
		}
		cl, ok := u.X.(*ast.CompositeLit)
		if !ok {
			return nil, fmt.Errorf("lnwire: makeEmptyMessage case %s: not &T{}", id.Name)
		}
		v, ok := g.evalConst(id, 0, 0)
		if !ok {
			return nil, fmt.Errorf("lnwire: message type constant %s not evaluable", id.Name)
		}
		msgs = append(msgs, wmsg{id.Name, v, g.src(cl.Type)})
	}
	sort.Slice(msgs, func(i, j int) bool { return msgs[i].typ < msgs[j].typ })
	return msgs, nil
}

// failures: code -> payload layout for every failure code of
// makeEmptyOnionError whose payload the fragment expresses (no payload, or a
// plain ReadElement/WriteX chain without extension data).
func (g *wgen) failures(b, sym *strings.Builder, updOK bool) (ok []string, fds []string, bad []string, err error) {
	fd, found := g.funcs["makeEmptyOnionError"]
	if !found {
		return nil, nil, nil, fmt.Errorf("lnwire: makeEmptyOnionError not found")
	}
	var sw *ast.SwitchStmt
	ast.Inspect(fd, func(n ast.Node) bool {
		if s, isSw := n.(*ast.SwitchStmt); isSw && sw == nil {
			sw = s
		}
		return sw == nil
	})
	if sw == nil {
		return nil, nil, nil, fmt.Errorf("lnwire: makeEmptyOnionError has no switch")
	}
	type fc struct {
		code  uint64
		sname string
	}
	var fcs []fc
	for _, cc := range sw.Body.List {
		c := cc.(*ast.CaseClause)
		if len(c.List) != 1 || len(c.Body) != 1 {
			continue // default: unknown code
		}
		ret, isRet := c.Body[0].(*ast.ReturnStmt)
		if !isRet || len(ret.Results) != 2 {
			return nil, nil, nil, fmt.Errorf("lnwire: makeEmptyOnionError case %s", g.src(c.List[0]))
		}
		u, isU := ret.Results[0].(*ast.UnaryExpr)
		if !isU {
			return nil, nil, nil, fmt.Errorf("lnwire: makeEmptyOnionError case %s: not &T{}", g.src(c.List[0]))
		}
		cl, isCl := u.X.(*ast.CompositeLit)
		if !isCl {
			return nil, nil, nil, fmt.Errorf("lnwire: makeEmptyOnionError case %s: not &T{}", g.src(c.List[0]))
		}
		v, evok := g.evalConst(c.List[0], 0, 0)
		if !evok {
			return nil, nil, nil, fmt.Errorf("lnwire: failure code %s not evaluable", g.src(c.List[0]))
		}
		fcs = append(fcs, fc{v, g.src(cl.Type)})
	}
	sort.Slice(fcs, func(i, j int) bool { return fcs[i].code < fcs[j].code })
	for _, f := range fcs {
		dm, hasD := g.methods[f.sname+".Decode"]
		em, hasE := g.methods[f.sname+".Encode"]
		if !hasD && !hasE {
			fmt.Fprintf(b, "Definition fail_%s : layout := [].  (* code %d: no payload *)\n", f.sname, f.code)
			ok = append(ok, fmt.Sprintf("(%d, fail_%s)", f.code, f.sname))
			fds = append(fds, fmt.Sprintf("(%d, FDPlain fail_%s)", f.code, f.sname))
			continue
		}
		reason := ""
		var dec, enc *wside
		if hasD && hasE {
			df, ef, dOpt, eOpt, matched, uerr := g.updFailure(f.sname, dm, em)
			if matched && uerr == nil && !updOK {
				uerr = &unsup{"embeds a channel_update, but ChannelUpdate1 itself has no generated description"}
			}
			if matched && uerr != nil {
				reason = f.sname + ": " + uerr.Error()
				fmt.Fprintf(b, "(* unsupported failure: %s *)\n", strings.ReplaceAll(reason, "*)", "* )"))
				bad = append(bad, fmt.Sprintf("(%d, %s)", f.code, coqString(reason)))
				continue
			}
			if !matched {
				de, ee, m2, eerr := g.eofFailure(f.sname, dm, em)
				if m2 && eerr != nil {
					reason = f.sname + ": " + eerr.Error()
					fmt.Fprintf(b, "(* unsupported failure: %s *)\n", strings.ReplaceAll(reason, "*)", "* )"))
					bad = append(bad, fmt.Sprintf("(%d, %s)", f.code, coqString(reason)))
					continue
				}
				if m2 {
					fmt.Fprintf(b, "Definition failenceof_%s : layout := %s.\n", f.sname, coqLayout(ee))
					fmt.Fprintf(b, "Definition faileof_%s : layout := %s.  (* code %d, EOF-tolerant *)\n",
						f.sname, coqLayout(de), f.code)
					fmt.Fprintf(sym, "Example failencdec_%s : failenceof_%s = faileof_%s. Proof. reflexivity. Qed.\n",
						f.sname, f.sname, f.sname)
					fds = append(fds, fmt.Sprintf("(%d, FDEof faileof_%s)", f.code, f.sname))
					continue
				}
			}
			if matched {
				fmt.Fprintf(b, "Definition failencupd_%s : updfail := %s.\n", f.sname, coqUpd(ef, eOpt))
				fmt.Fprintf(b, "Definition failupd_%s : updfail := %s.  (* code %d *)\n", f.sname, coqUpd(df, dOpt), f.code)
				fmt.Fprintf(sym, "Example failencdec_%s : failencupd_%s = failupd_%s. Proof. reflexivity. Qed.\n",
					f.sname, f.sname, f.sname)
				fds = append(fds, fmt.Sprintf("(%d, FDUpd failupd_%s)", f.code, f.sname))
				continue
			}
		}
		if !hasD || !hasE {
			reason = "only one of Encode/Decode"
		} else {
			var derr, eerr error
			dec, derr = g.analyseDecode(f.sname, dm)
			enc, eerr = g.analyseEncode(f.sname, em)
			switch {
			case derr != nil:
				reason = "Decode: " + derr.Error()
			case eerr != nil:
				reason = "Encode: " + eerr.Error()
			case dec.tlv || enc.tlv || dec.term != "" || enc.term != "" || dec.cond != nil || enc.cond != nil:
				reason = "payload with extension data / conditional fields"
			}
		}
		if reason != "" {
			reason = f.sname + ": " + reason
			fmt.Fprintf(b, "(* unsupported failure: %s *)\n", strings.ReplaceAll(reason, "*)", "* )"))
			bad = append(bad, fmt.Sprintf("(%d, %s)", f.code, coqString(reason)))
			continue
		}
		fmt.Fprintf(b, "Definition failenc_%s : layout := %s.\n", f.sname, coqLayout(enc.flds))
		fmt.Fprintf(b, "Definition fail_%s : layout := %s.  (* code %d *)\n", f.sname, coqLayout(dec.flds), f.code)
		fmt.Fprintf(sym, "Example failencdec_%s : failenc_%s = fail_%s. Proof. reflexivity. Qed.\n",
			f.sname, f.sname, f.sname)
		ok = append(ok, fmt.Sprintf("(%d, fail_%s)", f.code, f.sname))
		fds = append(fds, fmt.Sprintf("(%d, FDPlain fail_%s)", f.code, f.sname))
	}
	b.WriteString("\n")
	return ok, fds, bad, nil
}

// the two helpers every channel_update-embedding failure goes through are part of the
// translator's trusted vocabulary (MsgModel.decode_uf / encode_uf); they must still
// contain the constructs the model mirrors.
func (g *wgen) updHelpersOK() error {
	want := map[string][]string{
		"parseChannelUpdateCompatibilityMode": {"io.LimitReader(reader, int64(length))", "r.Peek(2)",
			"typeInt == MsgChannelUpdate", "r.Read(throwAwayTypeBytes[:])", "return chanUpdate.Decode(r, pver)"},
		"writeOnionErrorChanUpdate": {"WriteMessage(&b, chanUpdate, pver)", "WriteUint16(w, uint16(updateLen))",
			"w.Write(b.Bytes())"},
	}
	for fn, subs := range want {
		fd, ok := g.funcs[fn]
		if !ok {
			return &unsup{"helper " + fn + " not found"}
		}
		src := g.src(fd.Body)
		for _, sub := range subs {
			if !strings.Contains(src, sub) {
				return g.bad(fd, "helper %s no longer contains `%s`", fn, sub)
			}
		}
		if n := len(fd.Body.List); (fn == "writeOnionErrorChanUpdate" && n != 6) ||
			(fn == "parseChannelUpdateCompatibilityMode" && n != 7) {
			return g.bad(fd, "helper %s has %d statements: not the shape the model mirrors", fn, n)
		}
	}
	return nil
}

// decodeShortChanIDs / encodeShortChanIDs are part of the translator's trusted vocabulary
// (Model.FScids mirrors their PLAIN branch; zlib is left to the harness predicates); they
// must still contain the constructs the model mirrors.
func (g *wgen) scidHelpersOK() error {
	want := map[string][]string{
		"decodeShortChanIDs": {"ReadElements(r, &numBytesResp)", "if numBytesResp == 0 { return 0, nil, nil }",
			"io.ReadFull(r, queryBody)", "encodingType := QueryEncoding(queryBody[0])", "queryBody = queryBody[1:]",
			"case EncodingSortedPlain: if len(queryBody)%8 != 0 {", "numShortChanIDs := len(queryBody) / 8",
			"if numShortChanIDs == 0 { return encodingType, nil, nil }",
			"if i > 0 && cid.ToUint64() <= lastChanID.ToUint64() { return 0, nil, ErrUnsortedSIDs{lastChanID, cid} }",
			"default: return 0, nil, ErrUnknownShortChanIDEncoding(encodingType)"},
		"encodeShortChanIDs": {"case EncodingSortedPlain: numBytesBody := uint16(len(shortChanIDs)*8) + 1",
			"WriteUint16(w, numBytesBody)", "WriteQueryEncoding(w, encodingType)",
			"for _, chanID := range shortChanIDs { if err := WriteShortChannelID(w, chanID)"},
	}
	for fn, subs := range want {
		fd, ok := g.funcs[fn]
		if !ok {
			return &unsup{"helper " + fn + " not found"}
		}
		src := g.src(fd.Body)
		for _, sub := range subs {
			if !strings.Contains(src, sub) {
				return g.bad(fd, "helper %s no longer contains `%s`", fn, sub)
			}
		}
	}
	return nil
}

// failure payload = fixed fields ++ u16 length ++ channel_update (see MsgModel.updfail):
//
//	Decode: ReadElement(r, &f.X)...; var length uint16; ReadElement(r, &length);
//	        f.Update = ChannelUpdate1{}; return parseChannelUpdateCompatibilityMode(r, length, &f.Update, pver)
//	   or   if length != 0 { f.Update = &ChannelUpdate1{}; return parse...(r, length, f.Update, pver) }; return nil
//	Encode: WriteX(w, f.X)...; return writeOnionErrorChanUpdate(w, &f.Update, pver)
//	   or   if f.Update != nil { return writeOnionErrorChanUpdate(w, f.Update, pver) }; return WriteUint16(w, 0)
//
// matched = false: the methods do not mention the helpers at all.
func (g *wgen) updFailure(sname string, dm, em *ast.FuncDecl) (dec, enc []wfield, decOpt, encOpt, matched bool, err error) {
	if !strings.Contains(g.src(dm.Body), "parseChannelUpdateCompatibilityMode") &&
		!strings.Contains(g.src(em.Body), "writeOnionErrorChanUpdate") {
		return nil, nil, false, false, false, nil
	}
	matched = true
	if herr := g.updHelpersOK(); herr != nil {
		g.helperDrift["channel_update_helpers"] = herr.Error()
	}
	if len(dm.Recv.List[0].Names) != 1 || len(em.Recv.List[0].Names) != 1 {
		err = g.bad(dm, "receiver without a name")
		return
	}
	recv := dm.Recv.List[0].Names[0].Name
	d := &decState{g: g, recv: recv, sname: sname, side: &wside{optAt: -1},
		locals: map[string]ast.Expr{}, zeroOf: map[string]string{}, zeroTy: map[string]ast.Expr{}}
	stage := 0 // 0 fields, 1 length declared, 2 length read, 3 done
	body := dm.Body.List
	for i := 0; i < len(body); i++ {
		st := body[i]
		src := g.src(st)
		if isErrCheck(st) {
			continue
		}
		switch {
		case stage == 0 && src == "var length uint16":
			stage = 1
		case stage == 1 && stmtCall(st) != nil && callName(stmtCall(st)) == "ReadElement" &&
			len(stmtCall(st).Args) == 2 && g.src(stmtCall(st).Args[1]) == "&length":
			stage = 2
		case stage == 0 && stmtCall(st) != nil && (callName(stmtCall(st)) == "ReadElement" ||
			callName(stmtCall(st)) == "ReadElements"):
			if _, isRet := st.(*ast.ReturnStmt); isRet {
				err = g.bad(st, "unsupported statement in Decode: %s", src)
				return
			}
			if err = d.readArgs(st, stmtCall(st).Args[1:], &dec); err != nil {
				return
			}
		case stage == 2 && src == recv+".Update = ChannelUpdate1{}" && i+2 == len(body) &&
			g.src(body[i+1]) == "return parseChannelUpdateCompatibilityMode( r, length, &"+recv+".Update, pver, )":
			stage, i = 3, i+1
		case stage == 2 && i+2 == len(body) && g.src(body[i+1]) == "return nil" &&
			src == "if length != 0 { "+recv+".Update = &ChannelUpdate1{} return parseChannelUpdateCompatibilityMode( r, length, "+recv+".Update, pver, ) }":
			stage, decOpt, i = 3, true, i+1
		default:
			err = g.bad(st, "unsupported statement in Decode of a channel_update failure: %s", src)
			return
		}
	}
	if stage != 3 || d.extRead {
		err = g.bad(dm, "Decode does not end in parseChannelUpdateCompatibilityMode")
		return
	}
	erecv := em.Recv.List[0].Names[0].Name
	e := &encState{g: g, recv: erecv, sname: sname, side: &wside{optAt: -1}}
	ebody := em.Body.List
	done := false
	for i := 0; i < len(ebody); i++ {
		st := ebody[i]
		src := g.src(st)
		if isErrCheck(st) {
			continue
		}
		switch {
		case i+1 == len(ebody) && src == "return writeOnionErrorChanUpdate(w, &"+erecv+".Update, pver)":
			done = true
		case i+2 == len(ebody) && g.src(ebody[i+1]) == "return WriteUint16(w, 0)" &&
			src == "if "+erecv+".Update != nil { return writeOnionErrorChanUpdate(w, "+erecv+".Update, pver) }":
			done, encOpt, i = true, true, i+1
		default:
			c := stmtCall(st)
			_, isRet := st.(*ast.ReturnStmt)
			if c == nil || isRet || !strings.HasPrefix(callName(c), "Write") {
				err = g.bad(st, "unsupported statement in Encode of a channel_update failure: %s", src)
				return
			}
			if err = e.write(st, c, &enc); err != nil {
				return
			}
		}
	}
	if !done || e.done {
		err = g.bad(em, "Encode does not end in writeOnionErrorChanUpdate")
	}
	return
}

// EOF-tolerant failure payload (MsgModel.decode_eof):
//
//	Decode: err := ReadElement(r, &f.X); switch { case err == io.EOF: return nil; case err != nil: return err } ...
//	        return f.E.Decode(r)          (E an ExtraOpaqueData)
//	Encode: WriteX(w, f.X) ...; return f.E.Encode(w)
func (g *wgen) eofFailure(sname string, dm, em *ast.FuncDecl) (dec, enc []wfield, matched bool, err error) {
	if !strings.Contains(g.src(dm.Body), "case err == io.EOF") {
		return nil, nil, false, nil
	}
	matched = true
	if len(dm.Recv.List[0].Names) != 1 || len(em.Recv.List[0].Names) != 1 {
		return nil, nil, true, g.bad(dm, "receiver without a name")
	}
	recv := dm.Recv.List[0].Names[0].Name
	d := &decState{g: g, recv: recv, sname: sname, side: &wside{optAt: -1},
		locals: map[string]ast.Expr{}, zeroOf: map[string]string{}, zeroTy: map[string]ast.Expr{}}
	const sw = "switch { case err == io.EOF: return nil case err != nil: return err }"
	body := dm.Body.List
	extOf := func(st ast.Stmt, meth, arg string) (string, bool) {
		r, ok := st.(*ast.ReturnStmt)
		if !ok || len(r.Results) != 1 {
			return "", false
		}
		c, ok := r.Results[0].(*ast.CallExpr)
		if !ok || len(c.Args) != 1 || g.src(c.Args[0]) != arg {
			return "", false
		}
		sel, ok := c.Fun.(*ast.SelectorExpr)
		if !ok || sel.Sel.Name != meth {
			return "", false
		}
		f, ok := recvField(sel.X, recv)
		ft, _ := g.structField(sname, f)
		return f, ok && ft != nil && g.src(ft) == "ExtraOpaqueData"
	}
	for i := 0; i < len(body); i++ {
		st := body[i]
		if i == len(body)-1 {
			f, ok := extOf(st, "Decode", "r")
			if !ok {
				return nil, nil, true, g.bad(st, "Decode does not end in `return f.<ExtraOpaqueData>.Decode(r)`")
			}
			dec = append(dec, wfield{f, "FRest"})
			break
		}
		as, isAs := st.(*ast.AssignStmt)
		c := stmtCall(st)
		if !isAs || len(as.Lhs) != 1 || g.src(as.Lhs[0]) != "err" || c == nil || callName(c) != "ReadElement" ||
			len(c.Args) != 2 || g.src(body[i+1]) != sw {
			return nil, nil, true, g.bad(st, "unsupported statement in an EOF-tolerant Decode: %s", g.src(st))
		}
		if err := d.readArgs(st, c.Args[1:], &dec); err != nil {
			return nil, nil, true, err
		}
		i++
	}
	recv = em.Recv.List[0].Names[0].Name
	e := &encState{g: g, recv: recv, sname: sname, side: &wside{optAt: -1}}
	for i, st := range em.Body.List {
		if isErrCheck(st) {
			continue
		}
		if i == len(em.Body.List)-1 {
			f, ok := extOf(st, "Encode", "w")
			if !ok {
				return nil, nil, true, g.bad(st, "Encode does not end in `return f.<ExtraOpaqueData>.Encode(w)`")
			}
			enc = append(enc, wfield{f, "FRest"})
			break
		}
		c := stmtCall(st)
		_, isRet := st.(*ast.ReturnStmt)
		if c == nil || isRet || !strings.HasPrefix(callName(c), "Write") {
			return nil, nil, true, g.bad(st, "unsupported statement in Encode: %s", g.src(st))
		}
		if err := e.write(st, c, &enc); err != nil {
			return nil, nil, true, err
		}
	}
	return dec, enc, true, nil
}

// ---------------------------------------------------------------- default-elided records
//
// Pure-TLV messages write some records only when a test on the value holds and fill a
// default on Decode when the record is absent.  For every
//
//	if <test> { ...; producers = append(producers, &X) }
//
// of a record-collecting method (AllRecords, nonSignatureRecordProducers) of a registered
// message the test must be of a shape known to mean "value != default":
//
//	recv.F.Val != CONST                         -> ENe CONST
//	!recv.F.Val.M()  with  func (c T) M() bool { return c == CONST }   -> ENe CONST
//	!recv.F.Val.IsEqual(chaincfg.MainNetParams.GenesisHash)            -> ENeGenesis
//
// anything else is EUnknown (C10_gen_elisions_ok then fails).  The decoder's default comes
// from `if _, ok := typeMap[recv.F.TlvType()]; !ok { recv.F.Val = CONST }` /
// `recv.F.Val = *chaincfg.MainNetParams.GenesisHash` in Decode; none = the Go zero value.
func (g *wgen) elisions(msgs []wmsg) []string {
	var out []string
	for _, m := range msgs {
		for _, meth := range []string{"AllRecords", "nonSignatureRecordProducers"} {
			fd, ok := g.methods[m.sname+"."+meth]
			if !ok || len(fd.Recv.List[0].Names) != 1 {
				continue
			}
			recv := fd.Recv.List[0].Names[0].Name
			for _, st := range fd.Body.List {
				is, ok := st.(*ast.IfStmt)
				if !ok || is.Init != nil || !strings.Contains(g.src(is.Body), "append(") {
					continue
				}
				test, fld := g.elisionTest(is.Cond, recv, m.sname)
				typ := "0"
				why := ""
				if fld == "" {
					why = "test " + g.src(is.Cond) + " does not name a record field"
				} else if ft, ok := g.structField(m.sname, fld); ok {
					if t, _, err := g.recordOfTypeNoKind(st, ft); err == nil {
						typ = strconv.FormatUint(t, 10)
					} else {
						why = err.Error()
					}
				}
				if test == "EUnknown" && why == "" {
					why = "test " + g.src(is.Cond) + " is not of a shape known to mean value != default"
				}
				def := g.decodeDefault(m.sname, fld)
				c := ""
				if why != "" {
					c = "  (* " + strings.ReplaceAll(g.at(st)+": "+why, "*)", "* )") + " *)"
				}
				out = append(out, fmt.Sprintf("{| el_msg := %d; el_type := %s; el_test := %s; el_default := %s |}%s",
					m.typ, typ, test, def, c))
			}
		}
	}
	return out
}

// TLV type of a tlv.RecordT / OptionalRecordT field, whatever its value codec
func (g *wgen) recordOfTypeNoKind(n ast.Node, t ast.Expr) (uint64, string, error) {
	t = g.resolveAlias(t)
	if ix, ok := t.(*ast.IndexListExpr); ok && len(ix.Indices) == 2 {
		typ, err := g.tlvTypeNum(n, ix.Indices[0])
		return typ, "", err
	}
	return 0, "", g.bad(n, "field is not a tlv.RecordT")
}

func (g *wgen) elisionTest(cond ast.Expr, recv, sname string) (string, string) {
	valOf := func(e ast.Expr) (string, bool) { // recv.F.Val -> F
		sel, ok := e.(*ast.SelectorExpr)
		if !ok || sel.Sel.Name != "Val" {
			return "", false
		}
		return recvField(sel.X, recv)
	}
	if be, ok := cond.(*ast.BinaryExpr); ok && be.Op == token.NEQ {
		if f, ok := valOf(be.X); ok {
			if c, ok := g.evalConst(be.Y, 0, 0); ok {
				return fmt.Sprintf("(ENe %d)", c), f
			}
			return "EUnknown", f
		}
	}
	if u, ok := cond.(*ast.UnaryExpr); ok && u.Op == token.NOT {
		if c, ok := u.X.(*ast.CallExpr); ok {
			if sel, ok := c.Fun.(*ast.SelectorExpr); ok {
				if f, ok := valOf(sel.X); ok {
					if sel.Sel.Name == "IsEqual" && len(c.Args) == 1 &&
						g.src(c.Args[0]) == "chaincfg.MainNetParams.GenesisHash" {
						return "ENeGenesis", f
					}
					// func (c T) M() bool { return c == CONST }
					if len(c.Args) == 0 {
						if ft, ok := g.structField(sname, f); ok {
							if ix, ok := g.resolveAlias(ft).(*ast.IndexListExpr); ok && len(ix.Indices) == 2 {
								if md, ok := g.methods[g.src(ix.Indices[1])+"."+sel.Sel.Name]; ok &&
									len(md.Body.List) == 1 && len(md.Recv.List[0].Names) == 1 {
									if ret, ok := md.Body.List[0].(*ast.ReturnStmt); ok && len(ret.Results) == 1 {
										if eq, ok := ret.Results[0].(*ast.BinaryExpr); ok && eq.Op == token.EQL &&
											g.src(eq.X) == md.Recv.List[0].Names[0].Name {
											if k, ok := g.evalConst(eq.Y, 0, 0); ok {
												return fmt.Sprintf("(ENe %d)", k), f
											}
										}
									}
								}
							}
						}
					}
					return "EUnknown", f
				}
			}
		}
	}
	return "EUnknown", ""
}

func (g *wgen) decodeDefault(sname, fld string) string {
	fd, ok := g.methods[sname+".Decode"]
	if !ok || fld == "" || len(fd.Recv.List[0].Names) != 1 {
		return "(DConst 0)"
	}
	recv := fd.Recv.List[0].Names[0].Name
	def := "(DConst 0)"
	lhs := recv + "." + fld + ".Val"
	for _, st := range fd.Body.List {
		// recv.F.Val = *chaincfg.MainNetParams.GenesisHash   (unconditional, overwritten when present)
		if as, ok := st.(*ast.AssignStmt); ok && len(as.Lhs) == 1 && len(as.Rhs) == 1 && g.src(as.Lhs[0]) == lhs {
			if g.src(as.Rhs[0]) == "*chaincfg.MainNetParams.GenesisHash" {
				def = "DGenesis"
			}
		}
		// if _, ok := typeMap[recv.F.TlvType()]; !ok { recv.F.Val = CONST }
		if is, ok := st.(*ast.IfStmt); ok && is.Init != nil && g.src(is.Cond) == "!ok" && len(is.Body.List) == 1 &&
			strings.Contains(g.src(is.Init), "typeMap["+recv+"."+fld+".TlvType()]") {
			if as, ok := is.Body.List[0].(*ast.AssignStmt); ok && len(as.Lhs) == 1 && len(as.Rhs) == 1 &&
				g.src(as.Lhs[0]) == lhs {
				if c, ok := g.evalConst(as.Rhs[0], 0, 0); ok {
					def = fmt.Sprintf("(DConst %d)", c)
				} else {
					def = "(DConst 0) (* default " + g.src(as.Rhs[0]) + " not evaluable *)"
				}
			}
		}
	}
	return def
}

func coqUpd(flds []wfield, opt bool) string {
	return fmt.Sprintf("{| uf_pre := %s; uf_opt := %v |}", coqLayout(flds), opt)
}

func sameFields(a, b []wfield) bool {
	if len(a) != len(b) {
		return false
	}
	for i := range a {
		if a[i] != b[i] {
			return false
		}
	}
	return true
}

// genWire emits the descriptions (Gen/GenWire.v); genWireSym emits the
// Encode-layout = Decode-layout Examples (Gen/GenWireSym.v).  They are separate
// files so that an asymmetry breaks the build of GenWireSym.v (=> proof stage
// broken) while the model of the Decode side stays available to the
// correspondence run, which then reports concrete failing inputs.
func genWire(repo string) (string, string, error) {
	m, _, err := wireCore(repo)
	return "GenWire.v", m, err
}

func genWireSym(repo string) (string, string, error) {
	_, s, err := wireCore(repo)
	return "GenWireSym.v", s, err
}

func wireCore(repo string) (string, string, error) {
	g, err := loadWire(repo)
	if err != nil {
		return "", "", err
	}
	var sym strings.Builder
	sym.WriteString("(* GENERATED by /verif/translate (gen_wire.go) -- do not edit.\n")
	sym.WriteString("   Encode-side description = Decode-side description, per message / failure code. *)\n")
	sym.WriteString("From Coq Require Import List NArith Bool.\n")
	sym.WriteString("From LV Require Import Wire.Model Wire.MsgModel Gen.GenWire.\n")
	sym.WriteString("Import ListNotations.\nLocal Open Scope N_scope.\n\n")
	// the pointer types ReadElement has a case for
	if re, ok := g.funcs["ReadElement"]; ok {
		ast.Inspect(re, func(n ast.Node) bool {
			if ts, ok := n.(*ast.TypeSwitchStmt); ok {
				for _, cc := range ts.Body.List {
					for _, t := range cc.(*ast.CaseClause).List {
						g.readTys[g.src(t)] = true
					}
				}
				return false
			}
			return true
		})
	}
	if len(g.readTys) == 0 {
		return "", "", fmt.Errorf("lnwire: ReadElement type switch not found")
	}
	msgs, err := g.messages()
	if err != nil {
		return "", "", err
	}
	var b strings.Builder
	b.WriteString("(* GENERATED by /verif/translate (gen_wire.go) from lnwire/*.go -- do not edit.\n")
	b.WriteString("   Ordered field codecs of every message's Encode and Decode method. *)\n")
	b.WriteString("From Coq Require Import List NArith Bool String.\n")
	b.WriteString("From LV Require Import Wire.Model Wire.MsgModel.\n")
	b.WriteString("Import ListNotations.\nLocal Open Scope N_scope.\nLocal Open Scope string_scope.\n\n")
	var plain, tlvs, opts, unsupp, names, meta, nosplit []string
	for _, m := range msgs {
		names = append(names, fmt.Sprintf("(%s, %d)", coqString(m.sname), m.typ))
		dec, derr := (*wside)(nil), error(nil)
		enc, eerr := (*wside)(nil), error(nil)
		if fd, ok := g.methods[m.sname+".Decode"]; ok {
			dec, derr = g.analyseDecode(m.sname, fd)
		} else {
			derr = &unsup{"no Decode method"}
		}
		if fd, ok := g.methods[m.sname+".Encode"]; ok {
			enc, eerr = g.analyseEncode(m.sname, fd)
		} else {
			eerr = &unsup{"no Encode method"}
		}
		if derr != nil || eerr != nil {
			var why []string
			if derr != nil {
				why = append(why, "Decode: "+derr.Error())
			}
			if eerr != nil {
				why = append(why, "Encode: "+eerr.Error())
			}
			reason := m.sname + ": " + strings.Join(why, "; ")
			if gap, ok := modelGaps[m.sname]; ok {
				reason += " -- " + gap
			}
			fmt.Fprintf(&b, "(* unsupported: %s *)\n\n", strings.ReplaceAll(reason, "*)", "* )"))
			unsupp = append(unsupp, fmt.Sprintf("(%d, %s)", m.typ, coqString(reason)))
			continue
		}
		fmt.Fprintf(&b, "(* %s = %d : %s *)\n", m.constName, m.typ, m.sname)
		if dec.tlv != enc.tlv {
			// one side parses records, the other writes raw bytes: emit both as
			// they are; the Example below cannot hold.
			fmt.Fprintf(&b, "(* ASYMMETRY: Decode parses records = %v, Encode packs records = %v *)\n",
				dec.tlv, enc.tlv)
		}
		var fl []string
		for _, f := range dec.flds {
			fl = append(fl, f.name+":"+strings.ReplaceAll(f.codec, " ", ""))
		}
		if dec.cond != nil {
			for _, f := range dec.cond.flds {
				fl = append(fl, fmt.Sprintf("?%s&%d:%s:%s", dec.cond.field, dec.cond.mask, f.name,
					strings.ReplaceAll(f.codec, " ", "")))
			}
		}
		if dec.tlv && (dec.optAt >= 0 || enc.optAt >= 0) {
			// optional tail (ChannelReestablish)
			reason := ""
			switch {
			case dec.optAt < 0 || enc.optAt < 0:
				reason = "optional tail on one side of Encode/Decode only"
			case dec.cond != nil || enc.cond != nil:
				reason = "optional tail together with flag-conditional fields"
			case fieldIndex(enc.flds[enc.optAt:], enc.optFld) < 0:
				reason = "Encode decides on " + enc.optFld + " which is not a field of the tail"
			case enc.flds[enc.optAt+fieldIndex(enc.flds[enc.optAt:], enc.optFld)].codec != "FPoint":
				reason = "Encode decides on " + enc.optFld + " which is not a nil-able public key"
			}
			if reason != "" {
				reason = m.sname + ": " + reason
				fmt.Fprintf(&b, "(* unsupported: %s *)\n\n", reason)
				unsupp = append(unsupp, fmt.Sprintf("(%d, %s)", m.typ, coqString(reason)))
				continue
			}
			e2 := *enc
			e2.excl = dec.excl
			fmt.Fprintf(&b, "Definition encopt_%s : optmsg := %s.\n", m.sname, coqMsg(&e2, ""))
			fmt.Fprintf(&b, "Definition opt_%s : optmsg := %s.\n\n", m.sname, coqMsg(dec, ""))
			fmt.Fprintf(&sym, "Example encdec_%s : encopt_%s = opt_%s. Proof. reflexivity. Qed.\n",
				m.sname, m.sname, m.sname)
			opts = append(opts, fmt.Sprintf("(%d, opt_%s)", m.typ, m.sname))
			var ofl []string
			for i, f := range dec.flds {
				pre := ""
				if i >= dec.optAt {
					pre = "!"
				}
				ofl = append(ofl, pre+f.name+":"+strings.ReplaceAll(f.codec, " ", ""))
			}
			meta = append(meta, fmt.Sprintf("(* @fields %d opt %s ext=%s %s *)", m.typ, dec.mode,
				dec.extFld, strings.Join(ofl, " ")))
			continue
		}
		if dec.tlv {
			e2 := *enc
			e2.excl = dec.excl // only Decode enforces the exclusion; Encode is compared without it
			enc = &e2
			fmt.Fprintf(&b, "Definition encmsg_%s : tlvmsg := %s.\n", m.sname, coqMsg(enc, ""))
			// the known records of the Decode side carry no `always` flag: take it
			// from the Encode side for the comparison (types and codecs must agree)
			dk := make([]wrec, len(dec.known))
			copy(dk, dec.known)
			for i := range dk {
				for _, ek := range enc.known {
					if ek.typ == dk[i].typ {
						dk[i].always = ek.always
					}
				}
			}
			d2 := *dec
			d2.known = dk
			fmt.Fprintf(&b, "Definition msg_%s : tlvmsg := %s.\n", m.sname, coqMsg(&d2, ""))
			fmt.Fprintf(&sym, "Example encdec_%s : encmsg_%s = msg_%s. Proof. reflexivity. Qed.\n",
				m.sname, m.sname, m.sname)
			// Merge with / without the custom-record split (ExtraData = all unknown records)
			fmt.Fprintf(&sym, "Example encdec_split_%s : %v = %v. Proof. reflexivity. Qed.\n",
				m.sname, enc.all, dec.all)
			modeName := dec.mode
			if dec.all {
				nosplit = append(nosplit, strconv.FormatUint(m.typ, 10))
				modeName = "MergeAll"
			}
			b.WriteString("\n")
			tlvs = append(tlvs, fmt.Sprintf("(%d, msg_%s)", m.typ, m.sname))
			meta = append(meta, fmt.Sprintf("(* @fields %d tlv %s ext=%s %s *)", m.typ, modeName,
				dec.extFld, strings.Join(fl, " ")))
			continue
		}
		el := append([]wfield{}, enc.flds...)
		dl := append([]wfield{}, dec.flds...)
		if enc.term != "" {
			et := enc.term
			if dec.term == "FTlvRest" && et == "FRest" {
				et = "FTlvRest" // Encode writes the validated bytes back
			}
			el = append(el, wfield{enc.extFld, et})
		}
		if dec.term != "" {
			dl = append(dl, wfield{dec.extFld, dec.term})
			fl = append(fl, dec.extFld+":"+dec.term)
		}
		if dec.optAt >= 0 || enc.optAt >= 0 {
			reason := m.sname + ": optional tail in a message without TLV parsing"
			fmt.Fprintf(&b, "(* unsupported: %s *)\n\n", reason)
			unsupp = append(unsupp, fmt.Sprintf("(%d, %s)", m.typ, coqString(reason)))
			continue
		}
		if dec.cond != nil || enc.cond != nil {
			reason := m.sname + ": conditional fields in a message without TLV parsing"
			fmt.Fprintf(&b, "(* unsupported: %s *)\n\n", reason)
			unsupp = append(unsupp, fmt.Sprintf("(%d, %s)", m.typ, coqString(reason)))
			continue
		}
		fmt.Fprintf(&b, "Definition enc_%s : layout := %s.\n", m.sname, coqLayout(el))
		fmt.Fprintf(&b, "Definition dec_%s : layout := %s.\n", m.sname, coqLayout(dl))
		fmt.Fprintf(&sym, "Example encdec_%s : enc_%s = dec_%s. Proof. reflexivity. Qed.\n",
			m.sname, m.sname, m.sname)
		if !sameFields(enc.flds, dec.flds) {
			fmt.Fprintf(&b, "(* field names differ: Encode %v / Decode %v *)\n", enc.flds, dec.flds)
		}
		b.WriteString("\n")
		plain = append(plain, fmt.Sprintf("(%d, dec_%s)", m.typ, m.sname))
		meta = append(meta, fmt.Sprintf("(* @fields %d plain - ext=%s %s *)", m.typ, dec.extFld,
			strings.Join(fl, " ")))
	}
	wr := func(name, typ string, items []string) {
		fmt.Fprintf(&b, "Definition %s : %s := [\n  %s\n].\n\n", name, typ, strings.Join(items, ";\n  "))
	}
	// ---- onion failure codes (makeEmptyOnionError) ----
	updOK := false
	for _, t := range tlvs {
		updOK = updOK || t == "(258, msg_ChannelUpdate1)"
	}
	fails, fdescs, unsuppF, err := g.failures(&b, &sym, updOK)
	if err != nil {
		return "", "", err
	}
	// the channel_update description the embedding failure codes refer to
	if updOK {
		b.WriteString("Definition gen_upd : tlvmsg := msg_ChannelUpdate1.\n\n")
	} else {
		b.WriteString("Definition gen_upd : tlvmsg := {| tm_pre := []; tm_cond := None; tm_known := []; tm_mode := Repack; tm_excl := [] |}.\n\n")
	}
	var drift []string
	for k := range g.helperDrift {
		drift = append(drift, k)
	}
	sort.Strings(drift)
	for _, k := range drift {
		fmt.Fprintf(&sym, "(* trusted helper changed: %s *)\n", strings.ReplaceAll(g.helperDrift[k], "*)", "* )"))
		fmt.Fprintf(&sym, "Example %s_unchanged : true = false. Proof. reflexivity. Qed.\n", k)
		fmt.Fprintf(&b, "(* TRUSTED HELPER CHANGED (%s): %s *)\n", k, strings.ReplaceAll(g.helperDrift[k], "*)", "* )"))
	}
	wr("gen_elisions", "list elision", g.elisions(msgs))
	wr("gen_layouts", "msg_table", plain)
	wr("gen_failures", "msg_table", fails)
	wr("gen_fdescs", "ftable", fdescs)
	wr("unsupported_failures", "list (N * string)", unsuppF)
	wr("gen_tlvmsgs", "tmsg_table", tlvs)
	wr("gen_optmsgs", "omsg_table", opts)
	fmt.Fprintf(&b, "(* Merge messages whose ExtraData field holds ALL unknown records (no custom-record split) *)\n")
	fmt.Fprintf(&b, "Definition gen_nosplit : list N := [%s].\n\n", strings.Join(nosplit, "; "))
	wr("msg_type_of", "list (string * N)", names)
	wr("unsupported_messages", "list (N * string)", unsupp)
	b.WriteString(strings.Join(meta, "\n") + "\n")
	return b.String(), sym.String(), nil
}
