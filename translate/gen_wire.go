package main

// gen_wire: lnwire/*.go -> Gen/GenWire.v   (tie T1 of property C10)
//
// For every message type registered in makeEmptyMessage the generator reads
// the Encode method (the `WriteX(w, c.F)` chain) and the Decode method (the
// `ReadElements(r, &c.F, ...)` chain) and emits, as values of the types of
// Wire/Model.v and Wire/MsgModel.v:
//
//   enc_<T>, dec_<T> : layout            the ordered field codecs of each side
//   Example encdec_<T> : enc_<T> = dec_<T>      (asymmetry => the build breaks)
//   for messages that parse TLV records out of the extension data
//   encmsg_<T>, msg_<T> : tlvmsg         fixed fields, conditional fields, known
//                                        records (type, codec, always produced),
//                                        Repack (EncodeMessageExtraData) or
//                                        Merge (MergeAndEncode)
//   gen_layouts  : msg_table             plain messages
//   gen_tlvmsgs  : tmsg_table            TLV-carrying messages
//   msg_type_of  : list (string * N)
//   unsupported_messages : list (N * string)   one entry per message the
//                                        fragment below cannot express
//   (* @fields <type> <GoField>:<codec> ... *) lines read by props/c10.py
//
// The supported fragment is deliberately small (see decodeStmts/encodeStmts);
// anything outside it makes THAT message unsupported, naming the construct and
// its position.  Only parse errors / a missing makeEmptyMessage abort the run.

import (
	"fmt"
	"go/ast"
	"go/parser"
	"go/printer"
	"go/token"
	"os"
	"path/filepath"
	"sort"
	"strconv"
	"strings"
)

func init() {
	register("wire", genWire)
	register("wiresym", genWireSym)
}

type wgen struct {
	fset    *token.FileSet
	files   map[string]*ast.File
	consts  map[string]ast.Expr      // const name -> value expr
	types   map[string]*ast.TypeSpec // type name -> spec
	methods map[string]*ast.FuncDecl // "T.Method"
	funcs   map[string]*ast.FuncDecl
	readTys map[string]bool // pointer types handled by ReadElement
}

type wfield struct {
	name  string // Go field path (c.F -> "F", split fields "F.Hash")
	codec string // Coq term of type fkind
}

type wrec struct {
	typ    uint64
	rk     string // Coq term of type rk
	always bool
	field  string
}

type wcond struct {
	idx   int
	mask  uint64
	field string
	flds  []wfield
}

type wside struct {
	flds   []wfield
	cond   *wcond
	tlv    bool // parses / packs known records
	mode   string
	known  []wrec
	term   string // "", "FRest", "FTlvRest" : plain terminal extension field
	extFld string
}

type unsup struct{ msg string }

func (u *unsup) Error() string { return u.msg }

func (g *wgen) src(n ast.Node) string {
	var b strings.Builder
	printer.Fprint(&b, g.fset, n)
	return strings.Join(strings.Fields(b.String()), " ")
}

func (g *wgen) at(n ast.Node) string {
	p := g.fset.Position(n.Pos())
	return fmt.Sprintf("%s:%d", filepath.Base(p.Filename), p.Line)
}

func (g *wgen) bad(n ast.Node, format string, a ...any) error {
	return &unsup{fmt.Sprintf("%s: %s", g.at(n), fmt.Sprintf(format, a...))}
}

// ---------------------------------------------------------------- loading

func loadWire(repo string) (*wgen, error) {
	g := &wgen{fset: token.NewFileSet(), files: map[string]*ast.File{},
		consts: map[string]ast.Expr{}, types: map[string]*ast.TypeSpec{},
		methods: map[string]*ast.FuncDecl{}, funcs: map[string]*ast.FuncDecl{},
		readTys: map[string]bool{}}
	dir := filepath.Join(repo, "lnwire")
	ents, err := os.ReadDir(dir)
	if err != nil {
		return nil, err
	}
	for _, e := range ents {
		n := e.Name()
		if e.IsDir() || !strings.HasSuffix(n, ".go") || strings.HasSuffix(n, "_test.go") {
			continue
		}
		f, err := parser.ParseFile(g.fset, filepath.Join(dir, n), nil, 0)
		if err != nil {
			return nil, fmt.Errorf("parse error: %v", err)
		}
		g.files[n] = f
		for _, d := range f.Decls {
			switch d := d.(type) {
			case *ast.GenDecl:
				var lastVals []ast.Expr
				for i, s := range d.Specs {
					switch s := s.(type) {
					case *ast.TypeSpec:
						g.types[s.Name.Name] = s
					case *ast.ValueSpec:
						if d.Tok != token.CONST {
							continue
						}
						vals := s.Values
						if len(vals) == 0 {
							vals = lastVals // implicit repetition (iota)
						} else {
							lastVals = vals
						}
						for j, nm := range s.Names {
							if j < len(vals) {
								g.consts[nm.Name] = &iotaExpr{vals[j], i}
							}
						}
					}
				}
			case *ast.FuncDecl:
				if d.Recv == nil {
					g.funcs[d.Name.Name] = d
					continue
				}
				rt := d.Recv.List[0].Type
				if s, ok := rt.(*ast.StarExpr); ok {
					rt = s.X
				}
				if id, ok := rt.(*ast.Ident); ok {
					g.methods[id.Name+"."+d.Name.Name] = d
				}
			}
		}
	}
	return g, nil
}

// iotaExpr is a const value expression together with its iota.
type iotaExpr struct {
	ast.Expr
	iota int
}

func (g *wgen) evalConst(e ast.Expr, iota int, depth int) (uint64, bool) {
	if depth > 20 {
		return 0, false
	}
	switch e := e.(type) {
	case *iotaExpr:
		return g.evalConst(e.Expr, e.iota, depth+1)
	case *ast.BasicLit:
		if e.Kind == token.INT {
			v, err := strconv.ParseUint(e.Value, 0, 64)
			return v, err == nil
		}
	case *ast.ParenExpr:
		return g.evalConst(e.X, iota, depth+1)
	case *ast.Ident:
		if e.Name == "iota" {
			return uint64(iota), true
		}
		if c, ok := g.consts[e.Name]; ok {
			return g.evalConst(c, 0, depth+1)
		}
	case *ast.SelectorExpr:
		switch g.src(e) {
		case "sha256.Size", "chainhash.HashSize":
			return 32, true
		case "math.MaxUint16":
			return 65535, true
		}
	case *ast.CallExpr: // conversion T(x)
		if len(e.Args) == 1 {
			return g.evalConst(e.Args[0], iota, depth+1)
		}
	case *ast.BinaryExpr:
		a, ok1 := g.evalConst(e.X, iota, depth+1)
		b, ok2 := g.evalConst(e.Y, iota, depth+1)
		if !ok1 || !ok2 {
			return 0, false
		}
		switch e.Op {
		case token.SHL:
			return a << b, true
		case token.ADD:
			return a + b, true
		case token.SUB:
			return a - b, true
		case token.MUL:
			return a * b, true
		case token.OR:
			return a | b, true
		}
	}
	return 0, false
}

// ---------------------------------------------------------------- types

func (g *wgen) structField(structName, field string) (ast.Expr, bool) {
	ts, ok := g.types[structName]
	if !ok {
		return nil, false
	}
	st, ok := ts.Type.(*ast.StructType)
	if !ok {
		return nil, false
	}
	for _, f := range st.Fields.List {
		for _, n := range f.Names {
			if n.Name == field {
				return f.Type, true
			}
		}
	}
	return nil, false
}

// array length of a type used as x[:]
func (g *wgen) arrayLen(t ast.Expr) (uint64, bool) {
	switch t := t.(type) {
	case *ast.ArrayType:
		if t.Len == nil {
			return 0, false
		}
		if id, ok := t.Elt.(*ast.Ident); !ok || id.Name != "byte" {
			return 0, false
		}
		return g.evalConst(t.Len, 0, 0)
	case *ast.SelectorExpr:
		if g.src(t) == "chainhash.Hash" {
			return 32, true
		}
	case *ast.Ident:
		if ts, ok := g.types[t.Name]; ok && ts.Assign == 0 {
			return g.arrayLen(ts.Type)
		}
	}
	return 0, false
}

// codec of a value of Go type t as read by ReadElement(&x) / written by its
// WriteX counterpart.
func (g *wgen) codecOfType(n ast.Node, t ast.Expr, name string) ([]wfield, error) {
	ts := g.src(t)
	one := func(c string) ([]wfield, error) { return []wfield{{name, c}}, nil }
	switch ts {
	case "uint8", "FundingFlag", "ChanUpdateMsgFlags", "ChanUpdateChanFlags", "QueryEncoding":
		return one("FU 1")
	case "uint16", "FailCode":
		return one("FU 2")
	case "uint32":
		return one("FU 4")
	case "uint64", "MilliSatoshi", "btcutil.Amount", "ShortChannelID":
		return one("FU 8")
	case "bool":
		return one("FBool")
	case "ChannelID":
		return one("FBytes 32")
	case "Sig":
		return one("FBytes 64")
	case "[33]byte":
		return one("FBytes 33")
	case "*btcec.PublicKey":
		return one("FPoint")
	case "*RawFeatureVector", "RawFeatureVector":
		return one("FFeat")
	case "PingPayload", "PongPayload", "WarningData", "ErrorData", "OpaqueReason":
		return one("FVar16")
	case "DeliveryAddress":
		m, ok := g.evalConst(&ast.Ident{Name: "deliveryAddressMaxSize"}, 0, 0)
		if !ok {
			return nil, g.bad(n, "deliveryAddressMaxSize not a constant")
		}
		return one(fmt.Sprintf("FVar16Max %d", m))
	case "[]Sig":
		return one("FArr16 64")
	case "wire.OutPoint":
		return []wfield{{name + ".Hash", "FBytes 32"}, {name + ".Index", "FU 2"}}, nil
	case "color.RGBA":
		return []wfield{{name + ".R", "FU 1"}, {name + ".G", "FU 1"}, {name + ".B", "FU 1"}}, nil
	case "ExtraOpaqueData":
		return one("FRest")
	}
	return nil, g.bad(n, "unsupported element codec for Go type %s", ts)
}

// ---------------------------------------------------------------- records

var decoderKinds = map[string]string{
	"nonceTypeDecoder":               "RKNonce",
	"partialSigTypeDecoder":          "RKScalar",
	"partialSigWithNonceTypeDecoder": "RKSigNonce",
	"channelTypeDecoder":             "RKFeat",
	"queryOptionsDecoder":            "RKFeat",
	"rawFeatureDecoder":              "RKFeat",
	"DShortChannelID":                "RKFixed 8",
	"feeDecoder":                     "RKFixed 8",
	"leaseExpiryDecoder":             "RKFixed 4",
	"tlv.DVarBytes":                  "RKVar",
}

var decoderSizes = map[string]uint64{
	"DShortChannelID": 8, "feeDecoder": 8, "leaseExpiryDecoder": 4,
	"partialSigTypeDecoder": 32, "partialSigWithNonceTypeDecoder": 98,
}

func (g *wgen) resolveAlias(t ast.Expr) ast.Expr {
	for i := 0; i < 10; i++ {
		id, ok := t.(*ast.Ident)
		if !ok {
			return t
		}
		ts, ok := g.types[id.Name]
		if !ok || ts.Assign == 0 { // only true aliases (type X = ...)
			return t
		}
		t = ts.Type
	}
	return t
}

func (g *wgen) tlvTypeNum(n ast.Node, t ast.Expr) (uint64, error) {
	t = g.resolveAlias(t)
	s := g.src(t)
	if strings.HasPrefix(s, "tlv.TlvType") {
		v, err := strconv.ParseUint(strings.TrimPrefix(s, "tlv.TlvType"), 10, 64)
		if err == nil {
			return v, nil
		}
	}
	return 0, g.bad(n, "cannot resolve TLV type parameter %s", s)
}

// record type and codec declared by `func (x *V) Record() tlv.Record`
func (g *wgen) recordOfNamed(n ast.Node, name string) (uint64, bool, string, error) {
	fd, ok := g.methods[name+".Record"]
	if !ok {
		return 0, false, "", g.bad(n, "type %s has no Record() method", name)
	}
	var call *ast.CallExpr
	for _, st := range fd.Body.List {
		if r, ok := st.(*ast.ReturnStmt); ok && len(r.Results) == 1 {
			call, _ = r.Results[0].(*ast.CallExpr)
		}
	}
	if call == nil {
		return 0, false, "", g.bad(fd, "%s.Record(): no `return tlv.MakeXRecord(...)`", name)
	}
	fn := g.src(call.Fun)
	typ, tok := g.evalConst(call.Args[0], 0, 0)
	if !tok {
		if c, ok := call.Args[0].(*ast.CallExpr); ok {
			// (SomeTypeDef)(nil).TypeVal()
			if sel, ok := c.Fun.(*ast.SelectorExpr); ok && sel.Sel.Name == "TypeVal" {
				if cc, ok := sel.X.(*ast.CallExpr); ok {
					if p, ok := cc.Fun.(*ast.ParenExpr); ok {
						if v, err := g.tlvTypeNum(n, p.X); err == nil {
							typ, tok = v, true
						}
					}
				}
			}
		}
	}
	switch fn {
	case "tlv.MakeStaticRecord", "tlv.MakeDynamicRecord":
		if len(call.Args) != 5 {
			return 0, false, "", g.bad(call, "%s with %d args", fn, len(call.Args))
		}
		dec := g.src(call.Args[4])
		rk, ok := decoderKinds[dec]
		if !ok {
			return 0, false, "", g.bad(call, "record decoder %s is not in the translator's table", dec)
		}
		if fn == "tlv.MakeStaticRecord" {
			if sz, ok := g.evalConst(call.Args[2], 0, 0); ok {
				if want, ok := decoderSizes[dec]; ok && want != sz {
					return 0, false, "", g.bad(call, "static size %d of %s differs from table (%d)", sz, dec, want)
				}
			}
		}
		return typ, tok, rk, nil
	}
	return 0, false, "", g.bad(call, "%s.Record(): unsupported constructor %s", name, fn)
}

func (g *wgen) rkOfValue(n ast.Node, v ast.Expr) (string, error) {
	s := g.src(v)
	switch s {
	case "uint16":
		return "RKFixed 2", nil
	case "uint32":
		return "RKFixed 4", nil
	case "uint64":
		return "RKFixed 8", nil
	case "*btcec.PublicKey":
		return "RKPoint", nil
	}
	if id, ok := v.(*ast.Ident); ok {
		_, _, rk, err := g.recordOfNamed(n, id.Name)
		return rk, err
	}
	return "", g.bad(n, "unsupported record value type %s", s)
}

// record described by a Go type (struct field type / local var type)
func (g *wgen) recordOfType(n ast.Node, t ast.Expr) (uint64, string, error) {
	t = g.resolveAlias(t)
	if s, ok := t.(*ast.StarExpr); ok {
		t = g.resolveAlias(s.X)
	}
	if ix, ok := t.(*ast.IndexListExpr); ok {
		fn := g.src(ix.X)
		if (fn == "tlv.RecordT" || fn == "tlv.OptionalRecordT") && len(ix.Indices) == 2 {
			typ, err := g.tlvTypeNum(n, ix.Indices[0])
			if err != nil {
				return 0, "", err
			}
			rk, err := g.rkOfValue(n, ix.Indices[1])
			return typ, rk, err
		}
		return 0, "", g.bad(n, "unsupported generic record type %s", g.src(t))
	}
	if id, ok := t.(*ast.Ident); ok {
		typ, tok, rk, err := g.recordOfNamed(n, id.Name)
		if err != nil {
			return 0, "", err
		}
		if !tok {
			return 0, "", g.bad(n, "TLV type of %s is not a constant", id.Name)
		}
		return typ, rk, nil
	}
	return 0, "", g.bad(n, "unsupported record type %s", g.src(t))
}

// ---------------------------------------------------------------- helpers

// recvField: `c.F` (optionally &c.F) -> "F"
func recvField(e ast.Expr, recv string) (string, bool) {
	if u, ok := e.(*ast.UnaryExpr); ok && u.Op == token.AND {
		e = u.X
	}
	s, ok := e.(*ast.SelectorExpr)
	if !ok {
		return "", false
	}
	id, ok := s.X.(*ast.Ident)
	if !ok || id.Name != recv {
		return "", false
	}
	return s.Sel.Name, true
}

func findCall(n ast.Node, name string) *ast.CallExpr {
	var res *ast.CallExpr
	ast.Inspect(n, func(x ast.Node) bool {
		if res != nil {
			return false
		}
		if c, ok := x.(*ast.CallExpr); ok {
			switch f := c.Fun.(type) {
			case *ast.Ident:
				if f.Name == name {
					res = c
				}
			case *ast.SelectorExpr:
				if f.Sel.Name == name {
					res = c
				}
			}
		}
		return res == nil
	})
	return res
}

// `if err != nil { return <anything> }`
func isErrCheck(st ast.Stmt) bool {
	is, ok := st.(*ast.IfStmt)
	if !ok || is.Init != nil || is.Else != nil || len(is.Body.List) != 1 {
		return false
	}
	be, ok := is.Cond.(*ast.BinaryExpr)
	if !ok || be.Op != token.NEQ {
		return false
	}
	x, ok1 := be.X.(*ast.Ident)
	y, ok2 := be.Y.(*ast.Ident)
	if !ok1 || !ok2 || x.Name != "err" || y.Name != "nil" {
		return false
	}
	_, ok = is.Body.List[0].(*ast.ReturnStmt)
	return ok
}

// the call of a statement of one of the forms
//
//	return f(...) | err := f(...) | err = f(...) | x, err := f(...) |
//	if err := f(...); err != nil { return err }
func stmtCall(st ast.Stmt) *ast.CallExpr {
	switch s := st.(type) {
	case *ast.ReturnStmt:
		if len(s.Results) == 1 {
			c, _ := s.Results[0].(*ast.CallExpr)
			return c
		}
	case *ast.AssignStmt:
		if len(s.Rhs) == 1 {
			c, _ := s.Rhs[0].(*ast.CallExpr)
			return c
		}
	case *ast.IfStmt:
		if s.Init != nil && s.Else == nil && len(s.Body.List) == 1 {
			if _, ok := s.Body.List[0].(*ast.ReturnStmt); ok {
				if a, ok := s.Init.(*ast.AssignStmt); ok && len(a.Lhs) == 1 && len(a.Rhs) == 1 {
					if id, ok := a.Lhs[0].(*ast.Ident); ok && id.Name == "err" {
						c, _ := a.Rhs[0].(*ast.CallExpr)
						return c
					}
				}
			}
		}
	case *ast.ExprStmt:
		c, _ := s.X.(*ast.CallExpr)
		return c
	}
	return nil
}

func callName(c *ast.CallExpr) string {
	switch f := c.Fun.(type) {
	case *ast.Ident:
		return f.Name
	case *ast.SelectorExpr:
		return f.Sel.Name
	}
	return ""
}

// `recv.F.Method()` with Method = `return c&CONST != 0` -> (F, mask)
func (g *wgen) flagCond(e ast.Expr, recv, structName string) (string, uint64, error) {
	c, ok := e.(*ast.CallExpr)
	if !ok || len(c.Args) != 0 {
		return "", 0, g.bad(e, "unsupported condition %s", g.src(e))
	}
	sel, ok := c.Fun.(*ast.SelectorExpr)
	if !ok {
		return "", 0, g.bad(e, "unsupported condition %s", g.src(e))
	}
	f, ok := recvField(sel.X, recv)
	if !ok {
		return "", 0, g.bad(e, "unsupported condition %s", g.src(e))
	}
	ft, ok := g.structField(structName, f)
	if !ok {
		return "", 0, g.bad(e, "unknown field %s.%s", structName, f)
	}
	md, ok := g.methods[g.src(ft)+"."+sel.Sel.Name]
	if !ok || len(md.Body.List) != 1 {
		return "", 0, g.bad(e, "condition method %s.%s is not a single return", g.src(ft), sel.Sel.Name)
	}
	ret, ok := md.Body.List[0].(*ast.ReturnStmt)
	if !ok || len(ret.Results) != 1 {
		return "", 0, g.bad(md, "condition method is not a single return")
	}
	// c&CONST != 0
	ne, ok := ret.Results[0].(*ast.BinaryExpr)
	if !ok || ne.Op != token.NEQ || g.src(ne.Y) != "0" {
		return "", 0, g.bad(md, "condition %s is not of the form x&MASK != 0", g.src(ret.Results[0]))
	}
	and, ok := ne.X.(*ast.BinaryExpr)
	if !ok || and.Op != token.AND {
		return "", 0, g.bad(md, "condition %s is not of the form x&MASK != 0", g.src(ret.Results[0]))
	}
	rn := md.Recv.List[0].Names[0].Name
	if id, ok := and.X.(*ast.Ident); !ok || id.Name != rn {
		return "", 0, g.bad(md, "condition %s does not test the receiver", g.src(ret.Results[0]))
	}
	mask, ok := g.evalConst(and.Y, 0, 0)
	if !ok {
		return "", 0, g.bad(md, "mask %s is not a constant", g.src(and.Y))
	}
	return f, mask, nil
}

func fieldIndex(flds []wfield, name string) int {
	for i, f := range flds {
		if f.name == name {
			return i
		}
	}
	return -1
}

// ---------------------------------------------------------------- Decode

type decState struct {
	g       *wgen
	recv    string
	sname   string
	side    *wside
	locals  map[string]ast.Expr // local var -> declared type
	zeroOf  map[string]string   // local var := recv.F.Zero() -> F
	zeroTy  map[string]ast.Expr // local var = tlv.ZeroRecordT[A,B]() -> RecordT type expr
	extVar  string              // local ExtraOpaqueData variable
	extRead bool
}

func (d *decState) readArgs(n ast.Node, args []ast.Expr, into *[]wfield) error {
	g := d.g
	for _, a := range args {
		if d.extRead {
			return g.bad(a, "element read after the extension data")
		}
		// c.F[:]
		if sl, ok := a.(*ast.SliceExpr); ok && sl.Low == nil && sl.High == nil {
			f, ok := recvField(sl.X, d.recv)
			if !ok {
				return g.bad(a, "unsupported ReadElements argument %s", g.src(a))
			}
			ft, ok := g.structField(d.sname, f)
			if !ok {
				return g.bad(a, "unknown field %s.%s", d.sname, f)
			}
			n, ok := g.arrayLen(ft)
			if !ok {
				return g.bad(a, "cannot determine array length of %s (%s)", f, g.src(ft))
			}
			*into = append(*into, wfield{f, fmt.Sprintf("FBytes %d", n)})
			continue
		}
		u, ok := a.(*ast.UnaryExpr)
		if !ok || u.Op != token.AND {
			return g.bad(a, "unsupported ReadElements argument %s", g.src(a))
		}
		if id, ok := u.X.(*ast.Ident); ok {
			t, ok := d.locals[id.Name]
			if !ok || g.src(t) != "ExtraOpaqueData" {
				return g.bad(a, "ReadElements into local %s which is not an ExtraOpaqueData", id.Name)
			}
			d.extVar, d.extRead = id.Name, true
			continue
		}
		f, ok := recvField(u.X, d.recv)
		if !ok {
			return g.bad(a, "unsupported ReadElements argument %s", g.src(a))
		}
		ft, ok := g.structField(d.sname, f)
		if !ok {
			return g.bad(a, "unknown field %s.%s", d.sname, f)
		}
		if !g.readTys["*"+g.src(ft)] {
			return g.bad(a, "ReadElement has no case for *%s", g.src(ft))
		}
		cs, err := g.codecOfType(a, ft, f)
		if err != nil {
			return err
		}
		if len(cs) == 1 && cs[0].codec == "FRest" {
			d.side.term, d.side.extFld, d.extRead = "FRest", f, true
			continue
		}
		*into = append(*into, cs...)
	}
	return nil
}

func (d *decState) knownArg(a ast.Expr) (wrec, error) {
	g := d.g
	u, ok := a.(*ast.UnaryExpr)
	if !ok || u.Op != token.AND {
		return wrec{}, g.bad(a, "unsupported record argument %s", g.src(a))
	}
	if f, ok := recvField(u.X, d.recv); ok {
		ft, ok := g.structField(d.sname, f)
		if !ok {
			return wrec{}, g.bad(a, "unknown field %s.%s", d.sname, f)
		}
		typ, rk, err := g.recordOfType(a, ft)
		return wrec{typ: typ, rk: rk, field: f}, err
	}
	id, ok := u.X.(*ast.Ident)
	if !ok {
		return wrec{}, g.bad(a, "unsupported record argument %s", g.src(a))
	}
	if f, ok := d.zeroOf[id.Name]; ok {
		ft, ok := g.structField(d.sname, f)
		if !ok {
			return wrec{}, g.bad(a, "unknown field %s.%s", d.sname, f)
		}
		typ, rk, err := g.recordOfType(a, ft)
		return wrec{typ: typ, rk: rk, field: f}, err
	}
	if t, ok := d.zeroTy[id.Name]; ok {
		typ, rk, err := g.recordOfType(a, t)
		return wrec{typ: typ, rk: rk, field: id.Name}, err
	}
	if t, ok := d.locals[id.Name]; ok {
		typ, rk, err := g.recordOfType(a, t)
		return wrec{typ: typ, rk: rk, field: id.Name}, err
	}
	return wrec{}, g.bad(a, "cannot resolve record variable %s", id.Name)
}

// local declarations: var x T | var ( x T; y = recv.F.Zero(); z = tlv.ZeroRecordT[A,B]() ) |
// x := recv.F.Zero()
func (d *decState) declare(name string, typ ast.Expr, val ast.Expr) bool {
	if typ != nil {
		d.locals[name] = typ
		return true
	}
	c, ok := val.(*ast.CallExpr)
	if !ok || len(c.Args) != 0 {
		return false
	}
	if sel, ok := c.Fun.(*ast.SelectorExpr); ok && sel.Sel.Name == "Zero" {
		if f, ok := recvField(sel.X, d.recv); ok {
			d.zeroOf[name] = f
			return true
		}
	}
	if ix, ok := c.Fun.(*ast.IndexListExpr); ok && d.g.src(ix.X) == "tlv.ZeroRecordT" {
		d.zeroTy[name] = &ast.IndexListExpr{X: &ast.SelectorExpr{X: ast.NewIdent("tlv"),
			Sel: ast.NewIdent("RecordT")}, Indices: ix.Indices}
		return true
	}
	return false
}

// statements that only move already-decoded data into the struct
func (d *decState) ignorable(st ast.Stmt) bool {
	g := d.g
	switch s := st.(type) {
	case *ast.ReturnStmt:
		return len(s.Results) == 1 && g.src(s.Results[0]) == "nil"
	case *ast.AssignStmt:
		// recv.F = local | val, ok := typeMap[...] | val, ok = typeMap[...]
		if len(s.Lhs) == 1 && len(s.Rhs) == 1 {
			if _, ok := recvField(s.Lhs[0], d.recv); ok {
				if _, ok := s.Rhs[0].(*ast.Ident); ok {
					return true
				}
			}
		}
		if len(s.Lhs) == 2 && len(s.Rhs) == 1 {
			if ix, ok := s.Rhs[0].(*ast.IndexExpr); ok {
				if id, ok := ix.X.(*ast.Ident); ok && id.Name == "typeMap" {
					return true
				}
			}
		}
	case *ast.IfStmt:
		if s.Else != nil {
			return false
		}
		cond := g.src(s.Cond)
		okCond := cond == "ok && val == nil" || cond == "ok" ||
			strings.HasPrefix(cond, "parsed.Contains(") ||
			(strings.HasPrefix(cond, "len(") && (strings.HasSuffix(cond, ") != 0") ||
				strings.HasSuffix(cond, ") == 0")))
		if !okCond {
			return false
		}
		if s.Init != nil {
			a, ok := s.Init.(*ast.AssignStmt)
			if !ok || len(a.Rhs) != 1 {
				return false
			}
			if _, ok := a.Rhs[0].(*ast.IndexExpr); !ok {
				return false
			}
		}
		for _, b := range s.Body.List {
			a, ok := b.(*ast.AssignStmt)
			if !ok || len(a.Lhs) != 1 {
				return false
			}
			if _, ok := recvField(a.Lhs[0], d.recv); !ok {
				return false
			}
		}
		return true
	}
	return false
}

func (g *wgen) analyseDecode(sname string, fd *ast.FuncDecl) (*wside, error) {
	if len(fd.Recv.List[0].Names) != 1 {
		return nil, g.bad(fd, "receiver without a name")
	}
	d := &decState{g: g, recv: fd.Recv.List[0].Names[0].Name, sname: sname, side: &wside{},
		locals: map[string]ast.Expr{}, zeroOf: map[string]string{}, zeroTy: map[string]ast.Expr{}}
	for _, st := range fd.Body.List {
		if isErrCheck(st) || d.ignorable(st) {
			continue
		}
		// declarations
		if ds, ok := st.(*ast.DeclStmt); ok {
			gd := ds.Decl.(*ast.GenDecl)
			if gd.Tok != token.VAR {
				return nil, g.bad(st, "unsupported declaration")
			}
			for _, sp := range gd.Specs {
				vs := sp.(*ast.ValueSpec)
				for i, nm := range vs.Names {
					var val ast.Expr
					if i < len(vs.Values) {
						val = vs.Values[i]
					}
					if !d.declare(nm.Name, vs.Type, val) {
						return nil, g.bad(sp, "unsupported local declaration %s", g.src(sp))
					}
				}
			}
			continue
		}
		if as, ok := st.(*ast.AssignStmt); ok && as.Tok == token.DEFINE && len(as.Lhs) == 1 &&
			len(as.Rhs) == 1 {
			if id, ok := as.Lhs[0].(*ast.Ident); ok && id.Name != "err" {
				if d.declare(id.Name, nil, as.Rhs[0]) {
					continue
				}
			}
		}
		// conditional fields
		if is, ok := st.(*ast.IfStmt); ok && is.Init == nil && is.Else == nil {
			if _, isCall := is.Cond.(*ast.CallExpr); isCall {
				f, mask, err := g.flagCond(is.Cond, d.recv, sname)
				if err != nil {
					return nil, err
				}
				if d.side.cond != nil || d.extRead {
					return nil, g.bad(st, "more than one conditional part / conditional after extension")
				}
				idx := fieldIndex(d.side.flds, f)
				if idx < 0 {
					return nil, g.bad(st, "condition on field %s which was not read before", f)
				}
				c := &wcond{idx: idx, mask: mask, field: f}
				for _, b := range is.Body.List {
					call := stmtCall(b)
					if call == nil || callName(call) != "ReadElements" {
						return nil, g.bad(b, "unsupported statement in conditional part: %s", g.src(b))
					}
					if err := d.readArgs(b, call.Args[1:], &c.flds); err != nil {
						return nil, err
					}
				}
				d.side.cond = c
				continue
			}
		}
		call := stmtCall(st)
		if call == nil {
			return nil, g.bad(st, "unsupported statement in Decode: %s", g.src(st))
		}
		switch callName(call) {
		case "ReadElements", "ReadElement":
			into := &d.side.flds
			if d.side.cond != nil {
				// fields after the conditional part are not expressible
				var tmp []wfield
				into = &tmp
				if err := d.readArgs(st, call.Args[1:], into); err != nil {
					return nil, err
				}
				if len(tmp) != 0 {
					return nil, g.bad(st, "fixed fields after the conditional part")
				}
				continue
			}
			if err := d.readArgs(st, call.Args[1:], into); err != nil {
				return nil, err
			}
		case "ValidateTLV":
			sel := call.Fun.(*ast.SelectorExpr)
			f, ok := recvField(sel.X, d.recv)
			if !ok || d.side.term != "FRest" || f != d.side.extFld {
				return nil, g.bad(st, "ValidateTLV on something else than the extension field")
			}
			d.side.term = "FTlvRest"
		case "ExtractRecords", "ParseAndExtractCustomRecords":
			args := call.Args
			mode := "Repack"
			if callName(call) == "ParseAndExtractCustomRecords" {
				mode = "Merge"
				if len(args) == 0 || g.src(args[0]) != d.extVar || d.extVar == "" {
					return nil, g.bad(st, "ParseAndExtractCustomRecords not applied to the extension data")
				}
				args = args[1:]
			} else {
				sel := call.Fun.(*ast.SelectorExpr)
				if g.src(sel.X) != d.extVar || d.extVar == "" {
					return nil, g.bad(st, "ExtractRecords not applied to the extension data")
				}
			}
			if d.side.tlv {
				return nil, g.bad(st, "extension parsed twice")
			}
			d.side.tlv, d.side.mode = true, mode
			for _, a := range args {
				r, err := d.knownArg(a)
				if err != nil {
					return nil, err
				}
				d.side.known = append(d.side.known, r)
			}
		default:
			return nil, g.bad(st, "unsupported call in Decode: %s", g.src(call.Fun))
		}
	}
	if d.extVar != "" && !d.side.tlv {
		// local ExtraOpaqueData copied into the struct without parsing
		d.side.term = "FRest"
	}
	// the struct field that receives the extension data (recv.F = local)
	ast.Inspect(fd.Body, func(n ast.Node) bool {
		if as, ok := n.(*ast.AssignStmt); ok && len(as.Lhs) == 1 && len(as.Rhs) == 1 {
			if f, ok := recvField(as.Lhs[0], d.recv); ok {
				if ft, ok := g.structField(sname, f); ok && g.src(ft) == "ExtraOpaqueData" {
					if _, ok := as.Rhs[0].(*ast.Ident); ok && d.side.extFld == "" {
						d.side.extFld = f
					}
				}
			}
		}
		return true
	})
	if d.side.term == "" && !d.side.tlv && d.extRead {
		return nil, g.bad(fd, "extension data read but not used")
	}
	return d.side, nil
}

// ---------------------------------------------------------------- Encode

var writeCodecs = map[string]string{
	"WriteUint8": "FU 1", "WriteFundingFlag": "FU 1", "WriteChanUpdateMsgFlags": "FU 1",
	"WriteChanUpdateChanFlags": "FU 1", "WriteQueryEncoding": "FU 1",
	"WriteUint16": "FU 2", "WriteFailCode": "FU 2", "WriteUint32": "FU 4",
	"WriteUint64": "FU 8", "WriteSatoshi": "FU 8", "WriteMilliSatoshi": "FU 8",
	"WriteShortChannelID": "FU 8", "WriteChannelID": "FBytes 32", "WriteSig": "FBytes 64",
	"WritePublicKey": "FPoint", "WriteBool": "FBool", "WriteRawFeatureVector": "FFeat",
	"WritePingPayload": "FVar16", "WritePongPayload": "FVar16", "WriteWarningData": "FVar16",
	"WriteErrorData": "FVar16", "WriteOpaqueReason": "FVar16", "WriteSigs": "FArr16 64",
}

type encState struct {
	g        *wgen
	recv     string
	sname    string
	side     *wside
	prodVar  string // name of the []tlv.RecordProducer variable
	mergeVar string // result variable of MergeAndEncode
	done     bool
}

func unconv(e ast.Expr) ast.Expr {
	// strip conversions T(x) and &x
	for {
		switch x := e.(type) {
		case *ast.CallExpr:
			if len(x.Args) == 1 {
				if _, ok := x.Fun.(*ast.Ident); ok {
					e = x.Args[0]
					continue
				}
			}
		case *ast.UnaryExpr:
			if x.Op == token.AND {
				e = x.X
				continue
			}
		case *ast.ParenExpr:
			e = x.X
			continue
		}
		return e
	}
}

func (e *encState) write(n ast.Node, call *ast.CallExpr, into *[]wfield) error {
	g := e.g
	if e.done {
		return g.bad(n, "write after the extension data")
	}
	fn := callName(call)
	if len(call.Args) != 2 {
		return g.bad(n, "%s with %d arguments", fn, len(call.Args))
	}
	arg := call.Args[1]
	switch fn {
	case "WriteBytes":
		if sl, ok := arg.(*ast.SliceExpr); ok && sl.Low == nil && sl.High == nil {
			f, ok := recvField(sl.X, e.recv)
			if !ok {
				return g.bad(n, "unsupported WriteBytes argument %s", g.src(arg))
			}
			ft, ok := g.structField(e.sname, f)
			if !ok {
				return g.bad(n, "unknown field %s.%s", e.sname, f)
			}
			ln, ok := g.arrayLen(ft)
			if !ok {
				return g.bad(n, "cannot determine array length of %s", f)
			}
			*into = append(*into, wfield{f, fmt.Sprintf("FBytes %d", ln)})
			return nil
		}
		if id, ok := arg.(*ast.Ident); ok {
			if id.Name == e.mergeVar && e.mergeVar != "" {
				e.done = true
				return nil
			}
			return g.bad(n, "WriteBytes of local %s", id.Name)
		}
		f, ok := recvField(arg, e.recv)
		if !ok {
			return g.bad(n, "unsupported WriteBytes argument %s", g.src(arg))
		}
		ft, ok := g.structField(e.sname, f)
		if !ok || g.src(ft) != "ExtraOpaqueData" {
			return g.bad(n, "WriteBytes of field %s which is not an ExtraOpaqueData", f)
		}
		e.done = true
		if e.side.tlv {
			if e.side.mode != "Repack" || f != e.side.extFld {
				return g.bad(n, "extension field written is not the one packed")
			}
			return nil
		}
		e.side.term, e.side.extFld = "FRest", f
		return nil
	case "WriteOutPoint", "WriteColorRGBA", "WriteDeliveryAddress":
		f, ok := recvField(unconv(arg), e.recv)
		if !ok {
			return g.bad(n, "unsupported %s argument %s", fn, g.src(arg))
		}
		ft, ok := g.structField(e.sname, f)
		if !ok {
			return g.bad(n, "unknown field %s.%s", e.sname, f)
		}
		want := map[string]string{"WriteOutPoint": "wire.OutPoint", "WriteColorRGBA": "color.RGBA",
			"WriteDeliveryAddress": "DeliveryAddress"}[fn]
		if g.src(ft) != want {
			return g.bad(n, "%s applied to a %s", fn, g.src(ft))
		}
		cs, err := g.codecOfType(n, ft, f)
		if err != nil {
			return err
		}
		*into = append(*into, cs...)
		return nil
	}
	c, ok := writeCodecs[fn]
	if !ok {
		return g.bad(n, "unsupported writer %s", fn)
	}
	f, ok := recvField(unconv(arg), e.recv)
	if !ok {
		return g.bad(n, "unsupported %s argument %s", fn, g.src(arg))
	}
	*into = append(*into, wfield{f, c})
	return nil
}

func (e *encState) producer(n ast.Node, x ast.Expr, always bool) error {
	g := e.g
	f, ok := recvField(x, e.recv)
	if !ok {
		return g.bad(n, "unsupported record producer %s", g.src(x))
	}
	ft, ok := g.structField(e.sname, f)
	if !ok {
		return g.bad(n, "unknown field %s.%s", e.sname, f)
	}
	typ, rk, err := g.recordOfType(n, ft)
	if err != nil {
		return err
	}
	e.side.known = append(e.side.known, wrec{typ: typ, rk: rk, always: always, field: f})
	return nil
}

// recordProducers = append(recordProducers, X)
func (e *encState) appendStmt(st ast.Stmt) (ast.Expr, bool) {
	as, ok := st.(*ast.AssignStmt)
	if !ok || len(as.Lhs) != 1 || len(as.Rhs) != 1 {
		return nil, false
	}
	id, ok := as.Lhs[0].(*ast.Ident)
	if !ok || id.Name != e.prodVar {
		return nil, false
	}
	c, ok := as.Rhs[0].(*ast.CallExpr)
	if !ok || callName(c) != "append" || len(c.Args) != 2 || e.g.src(c.Args[0]) != e.prodVar {
		return nil, false
	}
	return c.Args[1], true
}

func (g *wgen) analyseEncode(sname string, fd *ast.FuncDecl) (*wside, error) {
	if len(fd.Recv.List[0].Names) != 1 {
		return nil, g.bad(fd, "receiver without a name")
	}
	e := &encState{g: g, recv: fd.Recv.List[0].Names[0].Name, sname: sname, side: &wside{}}
	for _, st := range fd.Body.List {
		if isErrCheck(st) {
			continue
		}
		// producer list: x := make([]tlv.RecordProducer, 0, n) | x := []tlv.RecordProducer{&c.F} |
		// var x []tlv.RecordProducer
		if as, ok := st.(*ast.AssignStmt); ok && as.Tok == token.DEFINE && len(as.Lhs) == 1 {
			id, _ := as.Lhs[0].(*ast.Ident)
			if c, ok := as.Rhs[0].(*ast.CallExpr); ok && id != nil && callName(c) == "make" &&
				g.src(c.Args[0]) == "[]tlv.RecordProducer" {
				e.prodVar = id.Name
				continue
			}
			if cl, ok := as.Rhs[0].(*ast.CompositeLit); ok && id != nil &&
				g.src(cl.Type) == "[]tlv.RecordProducer" {
				e.prodVar = id.Name
				for _, el := range cl.Elts {
					if err := e.producer(st, el, true); err != nil {
						return nil, err
					}
				}
				continue
			}
		}
		if ds, ok := st.(*ast.DeclStmt); ok {
			gd := ds.Decl.(*ast.GenDecl)
			if gd.Tok == token.VAR && len(gd.Specs) == 1 {
				vs := gd.Specs[0].(*ast.ValueSpec)
				if len(vs.Names) == 1 && vs.Type != nil && g.src(vs.Type) == "[]tlv.RecordProducer" &&
					len(vs.Values) == 0 {
					e.prodVar = vs.Names[0].Name
					continue
				}
			}
			return nil, g.bad(st, "unsupported declaration in Encode: %s", g.src(st))
		}
		// if c.F != nil { producers = append(producers, c.F) }   |   if c.F.HasX() { WriteY }
		if is, ok := st.(*ast.IfStmt); ok && is.Init == nil && is.Else == nil {
			if be, ok := is.Cond.(*ast.BinaryExpr); ok && be.Op == token.NEQ && g.src(be.Y) == "nil" &&
				len(is.Body.List) == 1 {
				if x, ok := e.appendStmt(is.Body.List[0]); ok {
					f1, ok1 := recvField(be.X, e.recv)
					f2, ok2 := recvField(x, e.recv)
					if !ok1 || !ok2 || f1 != f2 {
						return nil, g.bad(st, "nil test and appended producer differ")
					}
					if err := e.producer(st, x, false); err != nil {
						return nil, err
					}
					continue
				}
			}
			if _, isCall := is.Cond.(*ast.CallExpr); isCall {
				f, mask, err := g.flagCond(is.Cond, e.recv, sname)
				if err != nil {
					return nil, err
				}
				if e.side.cond != nil || e.done {
					return nil, g.bad(st, "more than one conditional part")
				}
				idx := fieldIndex(e.side.flds, f)
				if idx < 0 {
					return nil, g.bad(st, "condition on field %s which was not written before", f)
				}
				c := &wcond{idx: idx, mask: mask, field: f}
				for _, b := range is.Body.List {
					if isErrCheck(b) {
						continue
					}
					call := stmtCall(b)
					if call == nil || !strings.HasPrefix(callName(call), "Write") {
						return nil, g.bad(b, "unsupported statement in conditional part: %s", g.src(b))
					}
					if err := e.write(b, call, &c.flds); err != nil {
						return nil, err
					}
				}
				e.side.cond = c
				continue
			}
			return nil, g.bad(st, "unsupported if statement in Encode: %s", g.src(is.Cond))
		}
		call := stmtCall(st)
		if call == nil {
			return nil, g.bad(st, "unsupported statement in Encode: %s", g.src(st))
		}
		name := callName(call)
		switch {
		case name == "WhenSome":
			// c.F.WhenSome(func(x T) { producers = append(producers, &x) })
			sel := call.Fun.(*ast.SelectorExpr)
			fl, ok := call.Args[0].(*ast.FuncLit)
			if !ok || len(fl.Body.List) != 1 || len(fl.Type.Params.List) != 1 {
				return nil, g.bad(st, "unsupported WhenSome callback")
			}
			x, ok := e.appendStmt(fl.Body.List[0])
			if !ok {
				return nil, g.bad(st, "WhenSome callback is not an append to the producer list")
			}
			pn := fl.Type.Params.List[0].Names[0].Name
			if g.src(x) != "&"+pn {
				return nil, g.bad(st, "WhenSome callback appends %s, not its parameter", g.src(x))
			}
			if err := e.producer(st, sel.X, false); err != nil {
				return nil, err
			}
		case name == "EncodeMessageExtraData":
			if len(call.Args) != 2 || !call.Ellipsis.IsValid() || g.src(call.Args[1]) != e.prodVar {
				return nil, g.bad(st, "unsupported EncodeMessageExtraData call")
			}
			f, ok := recvField(call.Args[0], e.recv)
			if !ok {
				return nil, g.bad(st, "EncodeMessageExtraData target is not a field")
			}
			e.side.tlv, e.side.mode, e.side.extFld = true, "Repack", f
		case name == "MergeAndEncode":
			if len(call.Args) != 3 {
				return nil, g.bad(st, "unsupported MergeAndEncode call")
			}
			a0 := g.src(call.Args[0])
			if a0 != "nil" && a0 != e.prodVar {
				return nil, g.bad(st, "MergeAndEncode of %s, not the producer list", a0)
			}
			f1, ok1 := recvField(call.Args[1], e.recv)
			f2, ok2 := recvField(call.Args[2], e.recv)
			if !ok1 || !ok2 || f2 != "CustomRecords" {
				return nil, g.bad(st, "MergeAndEncode arguments are not (records, c.ExtraData, c.CustomRecords)")
			}
			as, ok := st.(*ast.AssignStmt)
			if !ok || len(as.Lhs) != 2 {
				return nil, g.bad(st, "MergeAndEncode result not assigned")
			}
			e.mergeVar = g.src(as.Lhs[0])
			e.side.tlv, e.side.mode, e.side.extFld = true, "Merge", f1
		case strings.HasPrefix(name, "Write"):
			into := &e.side.flds
			if e.side.cond != nil {
				var tmp []wfield
				if err := e.write(st, call, &tmp); err != nil {
					return nil, err
				}
				if len(tmp) != 0 {
					return nil, g.bad(st, "fixed fields after the conditional part")
				}
				continue
			}
			if err := e.write(st, call, into); err != nil {
				return nil, err
			}
		default:
			return nil, g.bad(st, "unsupported call in Encode: %s", g.src(call.Fun))
		}
	}
	return e.side, nil
}

// ---------------------------------------------------------------- emit

func coqLayout(fl []wfield) string {
	cs := make([]string, len(fl))
	for i, f := range fl {
		cs[i] = f.codec
	}
	return "[" + strings.Join(cs, "; ") + "]"
}

func coqKnown(ks []wrec) string {
	s := make([]wrec, len(ks))
	copy(s, ks)
	sort.Slice(s, func(i, j int) bool { return s[i].typ < s[j].typ })
	var out []string
	for _, k := range s {
		out = append(out, fmt.Sprintf("{| kr_type := %d; kr_kind := %s; kr_always := %v |}",
			k.typ, k.rk, k.always))
	}
	return "[" + strings.Join(out, "; ") + "]"
}

func coqMsg(s *wside, term string) string {
	cond := "None"
	if s.cond != nil {
		cond = fmt.Sprintf("Some (%d%%nat, %d, %s)", s.cond.idx, s.cond.mask, coqLayout(s.cond.flds))
	}
	_ = term
	return fmt.Sprintf("{| tm_pre := %s; tm_cond := %s; tm_known := %s; tm_mode := %s |}",
		coqLayout(s.flds), cond, coqKnown(s.known), s.mode)
}

func coqString(s string) string {
	s = strings.ReplaceAll(s, "\"", "'")
	var b strings.Builder
	for _, r := range s {
		if r < 32 || r > 126 {
			b.WriteByte('?')
		} else {
			b.WriteRune(r)
		}
	}
	return "\"" + b.String() + "\""
}

type wmsg struct {
	constName string
	typ       uint64
	sname     string
}

func (g *wgen) messages() ([]wmsg, error) {
	fd, ok := g.funcs["makeEmptyMessage"]
	if !ok {
		return nil, fmt.Errorf("lnwire: makeEmptyMessage not found")
	}
	var msgs []wmsg
	var sw *ast.SwitchStmt
	ast.Inspect(fd, func(n ast.Node) bool {
		if s, ok := n.(*ast.SwitchStmt); ok && sw == nil {
			sw = s
		}
		return sw == nil
	})
	if sw == nil {
		return nil, fmt.Errorf("lnwire: makeEmptyMessage has no switch")
	}
	for _, cc := range sw.Body.List {
		c := cc.(*ast.CaseClause)
		if len(c.List) != 1 || len(c.Body) != 1 {
			continue // default: custom range, handled by hand (see notes/C10.md)
		}
		id, ok := c.List[0].(*ast.Ident)
		if !ok {
			return nil, fmt.Errorf("lnwire: makeEmptyMessage case %s", g.src(c.List[0]))
		}
		as, ok := c.Body[0].(*ast.AssignStmt)
		if !ok {
			return nil, fmt.Errorf("lnwire: makeEmptyMessage case %s: not an assignment", id.Name)
		}
		u, ok := as.Rhs[0].(*ast.UnaryExpr)
		if !ok {
			return nil, fmt.Errorf("lnwire: makeEmptyMessage case %s: not &T{}", id.Name)
		}
		cl, ok := u.X.(*ast.CompositeLit)
		if !ok {
			return nil, fmt.Errorf("lnwire: makeEmptyMessage case %s: not &T{}", id.Name)
		}
		v, ok := g.evalConst(id, 0, 0)
		if !ok {
			return nil, fmt.Errorf("lnwire: message type constant %s not evaluable", id.Name)
		}
		msgs = append(msgs, wmsg{id.Name, v, g.src(cl.Type)})
	}
	sort.Slice(msgs, func(i, j int) bool { return msgs[i].typ < msgs[j].typ })
	return msgs, nil
}

// failures: code -> payload layout for every failure code of
// makeEmptyOnionError whose payload the fragment expresses (no payload, or a
// plain ReadElement/WriteX chain without extension data).
func (g *wgen) failures(b, sym *strings.Builder) (ok []string, bad []string, err error) {
	fd, found := g.funcs["makeEmptyOnionError"]
	if !found {
		return nil, nil, fmt.Errorf("lnwire: makeEmptyOnionError not found")
	}
	var sw *ast.SwitchStmt
	ast.Inspect(fd, func(n ast.Node) bool {
		if s, isSw := n.(*ast.SwitchStmt); isSw && sw == nil {
			sw = s
		}
		return sw == nil
	})
	if sw == nil {
		return nil, nil, fmt.Errorf("lnwire: makeEmptyOnionError has no switch")
	}
	type fc struct {
		code  uint64
		sname string
	}
	var fcs []fc
	for _, cc := range sw.Body.List {
		c := cc.(*ast.CaseClause)
		if len(c.List) != 1 || len(c.Body) != 1 {
			continue // default: unknown code
		}
		ret, isRet := c.Body[0].(*ast.ReturnStmt)
		if !isRet || len(ret.Results) != 2 {
			return nil, nil, fmt.Errorf("lnwire: makeEmptyOnionError case %s", g.src(c.List[0]))
		}
		u, isU := ret.Results[0].(*ast.UnaryExpr)
		if !isU {
			return nil, nil, fmt.Errorf("lnwire: makeEmptyOnionError case %s: not &T{}", g.src(c.List[0]))
		}
		cl, isCl := u.X.(*ast.CompositeLit)
		if !isCl {
			return nil, nil, fmt.Errorf("lnwire: makeEmptyOnionError case %s: not &T{}", g.src(c.List[0]))
		}
		v, evok := g.evalConst(c.List[0], 0, 0)
		if !evok {
			return nil, nil, fmt.Errorf("lnwire: failure code %s not evaluable", g.src(c.List[0]))
		}
		fcs = append(fcs, fc{v, g.src(cl.Type)})
	}
	sort.Slice(fcs, func(i, j int) bool { return fcs[i].code < fcs[j].code })
	for _, f := range fcs {
		dm, hasD := g.methods[f.sname+".Decode"]
		em, hasE := g.methods[f.sname+".Encode"]
		if !hasD && !hasE {
			fmt.Fprintf(b, "Definition fail_%s : layout := [].  (* code %d: no payload *)\n", f.sname, f.code)
			ok = append(ok, fmt.Sprintf("(%d, fail_%s)", f.code, f.sname))
			continue
		}
		reason := ""
		var dec, enc *wside
		if !hasD || !hasE {
			reason = "only one of Encode/Decode"
		} else {
			var derr, eerr error
			dec, derr = g.analyseDecode(f.sname, dm)
			enc, eerr = g.analyseEncode(f.sname, em)
			switch {
			case derr != nil:
				reason = "Decode: " + derr.Error()
			case eerr != nil:
				reason = "Encode: " + eerr.Error()
			case dec.tlv || enc.tlv || dec.term != "" || enc.term != "" || dec.cond != nil || enc.cond != nil:
				reason = "payload with extension data / conditional fields"
			}
		}
		if reason != "" {
			reason = f.sname + ": " + reason
			fmt.Fprintf(b, "(* unsupported failure: %s *)\n", strings.ReplaceAll(reason, "*)", "* )"))
			bad = append(bad, fmt.Sprintf("(%d, %s)", f.code, coqString(reason)))
			continue
		}
		fmt.Fprintf(b, "Definition failenc_%s : layout := %s.\n", f.sname, coqLayout(enc.flds))
		fmt.Fprintf(b, "Definition fail_%s : layout := %s.  (* code %d *)\n", f.sname, coqLayout(dec.flds), f.code)
		fmt.Fprintf(sym, "Example failencdec_%s : failenc_%s = fail_%s. Proof. reflexivity. Qed.\n",
			f.sname, f.sname, f.sname)
		ok = append(ok, fmt.Sprintf("(%d, fail_%s)", f.code, f.sname))
	}
	b.WriteString("\n")
	return ok, bad, nil
}

func sameFields(a, b []wfield) bool {
	if len(a) != len(b) {
		return false
	}
	for i := range a {
		if a[i] != b[i] {
			return false
		}
	}
	return true
}

// genWire emits the descriptions (Gen/GenWire.v); genWireSym emits the
// Encode-layout = Decode-layout Examples (Gen/GenWireSym.v).  They are separate
// files so that an asymmetry breaks the build of GenWireSym.v (=> proof stage
// broken) while the model of the Decode side stays available to the
// correspondence run, which then reports concrete failing inputs.
func genWire(repo string) (string, string, error) {
	m, _, err := wireCore(repo)
	return "GenWire.v", m, err
}

func genWireSym(repo string) (string, string, error) {
	_, s, err := wireCore(repo)
	return "GenWireSym.v", s, err
}

func wireCore(repo string) (string, string, error) {
	g, err := loadWire(repo)
	if err != nil {
		return "", "", err
	}
	var sym strings.Builder
	sym.WriteString("(* GENERATED by /verif/translate (gen_wire.go) -- do not edit.\n")
	sym.WriteString("   Encode-side description = Decode-side description, per message / failure code. *)\n")
	sym.WriteString("From Coq Require Import List NArith Bool.\n")
	sym.WriteString("From LV Require Import Wire.Model Wire.MsgModel Gen.GenWire.\n")
	sym.WriteString("Import ListNotations.\nLocal Open Scope N_scope.\n\n")
	// the pointer types ReadElement has a case for
	if re, ok := g.funcs["ReadElement"]; ok {
		ast.Inspect(re, func(n ast.Node) bool {
			if ts, ok := n.(*ast.TypeSwitchStmt); ok {
				for _, cc := range ts.Body.List {
					for _, t := range cc.(*ast.CaseClause).List {
						g.readTys[g.src(t)] = true
					}
				}
				return false
			}
			return true
		})
	}
	if len(g.readTys) == 0 {
		return "", "", fmt.Errorf("lnwire: ReadElement type switch not found")
	}
	msgs, err := g.messages()
	if err != nil {
		return "", "", err
	}
	var b strings.Builder
	b.WriteString("(* GENERATED by /verif/translate (gen_wire.go) from lnwire/*.go -- do not edit.\n")
	b.WriteString("   Ordered field codecs of every message's Encode and Decode method. *)\n")
	b.WriteString("From Coq Require Import List NArith Bool String.\n")
	b.WriteString("From LV Require Import Wire.Model Wire.MsgModel.\n")
	b.WriteString("Import ListNotations.\nLocal Open Scope N_scope.\nLocal Open Scope string_scope.\n\n")
	var plain, tlvs, unsupp, names, meta []string
	for _, m := range msgs {
		names = append(names, fmt.Sprintf("(%s, %d)", coqString(m.sname), m.typ))
		dec, derr := (*wside)(nil), error(nil)
		enc, eerr := (*wside)(nil), error(nil)
		if fd, ok := g.methods[m.sname+".Decode"]; ok {
			dec, derr = g.analyseDecode(m.sname, fd)
		} else {
			derr = &unsup{"no Decode method"}
		}
		if fd, ok := g.methods[m.sname+".Encode"]; ok {
			enc, eerr = g.analyseEncode(m.sname, fd)
		} else {
			eerr = &unsup{"no Encode method"}
		}
		if derr != nil || eerr != nil {
			var why []string
			if derr != nil {
				why = append(why, "Decode: "+derr.Error())
			}
			if eerr != nil {
				why = append(why, "Encode: "+eerr.Error())
			}
			reason := m.sname + ": " + strings.Join(why, "; ")
			fmt.Fprintf(&b, "(* unsupported: %s *)\n\n", strings.ReplaceAll(reason, "*)", "* )"))
			unsupp = append(unsupp, fmt.Sprintf("(%d, %s)", m.typ, coqString(reason)))
			continue
		}
		fmt.Fprintf(&b, "(* %s = %d : %s *)\n", m.constName, m.typ, m.sname)
		if dec.tlv != enc.tlv {
			// one side parses records, the other writes raw bytes: emit both as
			// they are; the Example below cannot hold.
			fmt.Fprintf(&b, "(* ASYMMETRY: Decode parses records = %v, Encode packs records = %v *)\n",
				dec.tlv, enc.tlv)
		}
		var fl []string
		for _, f := range dec.flds {
			fl = append(fl, f.name+":"+strings.ReplaceAll(f.codec, " ", ""))
		}
		if dec.cond != nil {
			for _, f := range dec.cond.flds {
				fl = append(fl, fmt.Sprintf("?%s&%d:%s:%s", dec.cond.field, dec.cond.mask, f.name,
					strings.ReplaceAll(f.codec, " ", "")))
			}
		}
		if dec.tlv {
			fmt.Fprintf(&b, "Definition encmsg_%s : tlvmsg := %s.\n", m.sname, coqMsg(enc, ""))
			// the known records of the Decode side carry no `always` flag: take it
			// from the Encode side for the comparison (types and codecs must agree)
			dk := make([]wrec, len(dec.known))
			copy(dk, dec.known)
			for i := range dk {
				for _, ek := range enc.known {
					if ek.typ == dk[i].typ {
						dk[i].always = ek.always
					}
				}
			}
			d2 := *dec
			d2.known = dk
			fmt.Fprintf(&b, "Definition msg_%s : tlvmsg := %s.\n", m.sname, coqMsg(&d2, ""))
			fmt.Fprintf(&sym, "Example encdec_%s : encmsg_%s = msg_%s. Proof. reflexivity. Qed.\n",
				m.sname, m.sname, m.sname)
			b.WriteString("\n")
			tlvs = append(tlvs, fmt.Sprintf("(%d, msg_%s)", m.typ, m.sname))
			meta = append(meta, fmt.Sprintf("(* @fields %d tlv %s ext=%s %s *)", m.typ, dec.mode,
				dec.extFld, strings.Join(fl, " ")))
			continue
		}
		el := append([]wfield{}, enc.flds...)
		dl := append([]wfield{}, dec.flds...)
		if enc.term != "" {
			et := enc.term
			if dec.term == "FTlvRest" && et == "FRest" {
				et = "FTlvRest" // Encode writes the validated bytes back
			}
			el = append(el, wfield{enc.extFld, et})
		}
		if dec.term != "" {
			dl = append(dl, wfield{dec.extFld, dec.term})
			fl = append(fl, dec.extFld+":"+dec.term)
		}
		if dec.cond != nil || enc.cond != nil {
			reason := m.sname + ": conditional fields in a message without TLV parsing"
			fmt.Fprintf(&b, "(* unsupported: %s *)\n\n", reason)
			unsupp = append(unsupp, fmt.Sprintf("(%d, %s)", m.typ, coqString(reason)))
			continue
		}
		fmt.Fprintf(&b, "Definition enc_%s : layout := %s.\n", m.sname, coqLayout(el))
		fmt.Fprintf(&b, "Definition dec_%s : layout := %s.\n", m.sname, coqLayout(dl))
		fmt.Fprintf(&sym, "Example encdec_%s : enc_%s = dec_%s. Proof. reflexivity. Qed.\n",
			m.sname, m.sname, m.sname)
		if !sameFields(enc.flds, dec.flds) {
			fmt.Fprintf(&b, "(* field names differ: Encode %v / Decode %v *)\n", enc.flds, dec.flds)
		}
		b.WriteString("\n")
		plain = append(plain, fmt.Sprintf("(%d, dec_%s)", m.typ, m.sname))
		meta = append(meta, fmt.Sprintf("(* @fields %d plain - ext=%s %s *)", m.typ, dec.extFld,
			strings.Join(fl, " ")))
	}
	wr := func(name, typ string, items []string) {
		fmt.Fprintf(&b, "Definition %s : %s := [\n  %s\n].\n\n", name, typ, strings.Join(items, ";\n  "))
	}
	// ---- onion failure codes (makeEmptyOnionError) ----
	fails, unsuppF, err := g.failures(&b, &sym)
	if err != nil {
		return "", "", err
	}
	wr("gen_layouts", "msg_table", plain)
	wr("gen_failures", "msg_table", fails)
	wr("unsupported_failures", "list (N * string)", unsuppF)
	wr("gen_tlvmsgs", "tmsg_table", tlvs)
	wr("msg_type_of", "list (string * N)", names)
	wr("unsupported_messages", "list (N * string)", unsupp)
	b.WriteString(strings.Join(meta, "\n") + "\n")
	return b.String(), sym.String(), nil
}
