package main

// gen_scripts: input/script_utils.go -> Gen/GenScripts.v
//
// For every function that builds a script with txscript.ScriptTemplate:
//   Definition <snake_name> (flags : bool ...) (params : data|num ...) : list instr
// from the text template (a raw-string literal passed directly, or a local
// string variable assembled by `v := `..“, `v = `..“ in a two-armed
// `switch { case opt.flag: ... default: ... }`, `if flag { v += `..` }`,
// `v += `..“), plus
//   Definition <snake_name>_of sha256 ripemd160 (flags) (go args) : list instr
// which instantiates the template parameters the way the Go function does
// (TemplateParams{...} map: SerializeCompressed, schnorr.SerializePubKey,
// address.Hash160, Ripemd160H, int64(uint32), sha256.Sum256, make([]byte,n)).
//
// For every function that assembles a witness stack (`w := make(..., n)`,
// `w[i] = ...`): the stack as a function of its symbolic items, its shape as
// `list witem`, a generated Example that both coincide, and — when the
// function writes tx fields (sequence / version / locktime) — the effect as
// `<snake_name>_tx`.
//
// Anything outside this fragment is an error naming the construct.

import (
	"fmt"
	"go/ast"
	"go/parser"
	"go/printer"
	"go/token"
	"path/filepath"
	"regexp"
	"sort"
	"strconv"
	"strings"
	"unicode"
)

func init() { register("scripts", genScripts) }

const scriptsSrc = "input/script_utils.go"

// ---------------------------------------------------------------- helpers

func snake(s string) string {
	rs := []rune(s)
	var b strings.Builder
	for i, c := range rs {
		if unicode.IsUpper(c) && i > 0 {
			prev := rs[i-1]
			nextLower := i+1 < len(rs) && unicode.IsLower(rs[i+1])
			if unicode.IsLower(prev) || (unicode.IsUpper(prev) && nextLower) {
				b.WriteByte('_')
			}
		}
		b.WriteRune(unicode.ToLower(c))
	}
	out := b.String()
	switch out {
	case "end", "in", "at", "if", "then", "else", "let", "fun", "match", "with",
		"as", "return", "forall", "exists", "type", "set", "prop", "using", "where", "for":
		out += "_"
	}
	return out
}

type sgen struct {
	fset *token.FileSet
	file *ast.File
}

func (g *sgen) pos(n ast.Node) string {
	p := g.fset.Position(n.Pos())
	return fmt.Sprintf("%s:%d", scriptsSrc, p.Line)
}

func (g *sgen) src(n ast.Node) string {
	var b strings.Builder
	printer.Fprint(&b, g.fset, n)
	return b.String()
}

func (g *sgen) errf(n ast.Node, format string, a ...any) error {
	return fmt.Errorf("%s: %s", g.pos(n), fmt.Sprintf(format, a...))
}

func mentions(n ast.Node, name string) bool {
	found := false
	ast.Inspect(n, func(x ast.Node) bool {
		if id, ok := x.(*ast.Ident); ok && id.Name == name {
			found = true
		}
		return !found
	})
	return found
}

func contains(n ast.Node, target ast.Node) bool {
	found := false
	ast.Inspect(n, func(x ast.Node) bool {
		if x == target {
			found = true
		}
		return !found
	})
	return found
}

func isSel(e ast.Expr, pkg, name string) bool {
	s, ok := e.(*ast.SelectorExpr)
	if !ok || s.Sel.Name != name {
		return false
	}
	id, ok := s.X.(*ast.Ident)
	return ok && id.Name == pkg
}

func strLit(e ast.Expr) (string, bool) {
	bl, ok := e.(*ast.BasicLit)
	if !ok || bl.Kind != token.STRING {
		return "", false
	}
	s, err := strconv.Unquote(bl.Value)
	if err != nil {
		return "", false
	}
	return s, true
}

// ---------------------------------------------------------------- templates

type tmplPart interface{}
type litPart struct {
	text string
	node ast.Node
}
type ifPart struct {
	flag         string
	thenP, elseP []tmplPart
}

func (g *sgen) flagName(e ast.Expr) (string, error) {
	switch c := e.(type) {
	case *ast.Ident:
		return snake(c.Name), nil
	case *ast.SelectorExpr:
		return snake(c.Sel.Name), nil
	}
	return "", g.errf(e, "condition %q guarding a template arm is not a plain flag", g.src(e))
}

// armParts translates the statements of one conditional arm: each must be
// `v = lit` or `v += lit`.
func (g *sgen) armParts(v string, stmts []ast.Stmt) ([]tmplPart, error) {
	var out []tmplPart
	for _, s := range stmts {
		as, ok := s.(*ast.AssignStmt)
		if !ok || len(as.Lhs) != 1 || len(as.Rhs) != 1 {
			return nil, g.errf(s, "statement %q in a template arm is not `%s (=|+=) literal`", g.src(s), v)
		}
		id, ok := as.Lhs[0].(*ast.Ident)
		lit, isLit := strLit(as.Rhs[0])
		if !ok || id.Name != v || !isLit || (as.Tok != token.ASSIGN && as.Tok != token.ADD_ASSIGN) {
			return nil, g.errf(s, "statement %q in a template arm is not `%s (=|+=) literal`", g.src(s), v)
		}
		out = append(out, litPart{lit, as.Rhs[0]})
	}
	return out, nil
}

func (g *sgen) collectTemplate(fd *ast.FuncDecl, call *ast.CallExpr) ([]tmplPart, error) {
	if len(call.Args) == 0 {
		return nil, g.errf(call, "ScriptTemplate without arguments")
	}
	if lit, ok := strLit(call.Args[0]); ok {
		return []tmplPart{litPart{lit, call.Args[0]}}, nil
	}
	id, ok := call.Args[0].(*ast.Ident)
	if !ok {
		return nil, g.errf(call.Args[0], "template argument %q is neither a string literal nor a local variable", g.src(call.Args[0]))
	}
	v := id.Name
	var parts []tmplPart
	for _, st := range fd.Body.List {
		if !mentions(st, v) {
			continue
		}
		if contains(st, call) {
			// the statement that consumes the template
			continue
		}
		switch s := st.(type) {
		case *ast.DeclStmt:
			// var v string
			gd, ok := s.Decl.(*ast.GenDecl)
			if !ok || gd.Tok != token.VAR || len(gd.Specs) != 1 {
				return nil, g.errf(s, "unsupported declaration of template variable: %q", g.src(s))
			}
			vs := gd.Specs[0].(*ast.ValueSpec)
			if len(vs.Values) != 0 {
				return nil, g.errf(s, "unsupported initialised declaration of template variable: %q", g.src(s))
			}
		case *ast.AssignStmt:
			if len(s.Lhs) != 1 || len(s.Rhs) != 1 {
				return nil, g.errf(s, "unsupported assignment to template variable: %q", g.src(s))
			}
			lid, ok := s.Lhs[0].(*ast.Ident)
			lit, isLit := strLit(s.Rhs[0])
			if !ok || lid.Name != v || !isLit {
				return nil, g.errf(s, "unsupported assignment involving template variable: %q", g.src(s))
			}
			switch s.Tok {
			case token.DEFINE, token.ASSIGN:
				if len(parts) != 0 {
					return nil, g.errf(s, "template variable %s overwritten after it was built", v)
				}
				parts = append(parts, litPart{lit, s.Rhs[0]})
			case token.ADD_ASSIGN:
				parts = append(parts, litPart{lit, s.Rhs[0]})
			default:
				return nil, g.errf(s, "unsupported operator on template variable: %q", g.src(s))
			}
		case *ast.IfStmt:
			if s.Init != nil {
				return nil, g.errf(s, "if with init statement around template arm")
			}
			flag, err := g.flagName(s.Cond)
			if err != nil {
				return nil, err
			}
			thenP, err := g.armParts(v, s.Body.List)
			if err != nil {
				return nil, err
			}
			var elseP []tmplPart
			if s.Else != nil {
				eb, ok := s.Else.(*ast.BlockStmt)
				if !ok {
					return nil, g.errf(s.Else, "else-if chain around template arms")
				}
				elseP, err = g.armParts(v, eb.List)
				if err != nil {
					return nil, err
				}
			}
			parts = append(parts, ifPart{flag, thenP, elseP})
		case *ast.SwitchStmt:
			if s.Tag != nil || s.Init != nil || len(s.Body.List) != 2 {
				return nil, g.errf(s, "template switch is not `switch { case flag: ...; default: ... }`")
			}
			var flag string
			var thenP, elseP []tmplPart
			for _, cc := range s.Body.List {
				c := cc.(*ast.CaseClause)
				arm, err := g.armParts(v, c.Body)
				if err != nil {
					return nil, err
				}
				if c.List == nil {
					elseP = arm
					continue
				}
				if len(c.List) != 1 || flag != "" {
					return nil, g.errf(c, "template switch case is not a single flag")
				}
				flag, err = g.flagName(c.List[0])
				if err != nil {
					return nil, err
				}
				thenP = arm
			}
			if flag == "" || thenP == nil || elseP == nil {
				return nil, g.errf(s, "template switch needs one flag case and a default")
			}
			if len(parts) != 0 {
				return nil, g.errf(s, "template switch after the template was started")
			}
			parts = append(parts, ifPart{flag, thenP, elseP})
		default:
			return nil, g.errf(st, "statement touching template variable %s is outside the supported fragment: %q", v, firstLine(g.src(st)))
		}
	}
	if len(parts) == 0 {
		return nil, g.errf(call, "no literal found for template variable %s", v)
	}
	return parts, nil
}

func firstLine(s string) string {
	if i := strings.IndexByte(s, '\n'); i >= 0 {
		return s[:i] + " ..."
	}
	return s
}

// flags of a part list, in order of appearance
func partFlags(parts []tmplPart, acc *[]string) {
	for _, p := range parts {
		if ip, ok := p.(ifPart); ok {
			seen := false
			for _, f := range *acc {
				if f == ip.flag {
					seen = true
				}
			}
			if !seen {
				*acc = append(*acc, ip.flag)
			}
			partFlags(ip.thenP, acc)
			partFlags(ip.elseP, acc)
		}
	}
}

// literal texts in order under a flag assignment
func expand(parts []tmplPart, asg map[string]bool, out *[]litPart) {
	for _, p := range parts {
		switch x := p.(type) {
		case litPart:
			*out = append(*out, x)
		case ifPart:
			if asg[x.flag] {
				expand(x.thenP, asg, out)
			} else {
				expand(x.elseP, asg, out)
			}
		}
	}
}

// Go concatenates the parts and only then splits on white space: make sure no
// token can straddle two parts under any flag assignment.
func (g *sgen) checkBoundaries(parts []tmplPart) error {
	var flags []string
	partFlags(parts, &flags)
	for m := 0; m < 1<<len(flags); m++ {
		asg := map[string]bool{}
		for i, f := range flags {
			asg[f] = m&(1<<i) != 0
		}
		var lits []litPart
		expand(parts, asg, &lits)
		for i := 0; i+1 < len(lits); i++ {
			a, b := lits[i].text, lits[i+1].text
			if a == "" || b == "" {
				continue
			}
			if !unicode.IsSpace(rune(a[len(a)-1])) && !unicode.IsSpace(rune(b[0])) {
				return g.errf(lits[i+1].node, "template parts are concatenated without white space: a token would straddle them")
			}
		}
	}
	return nil
}

type tparam struct {
	name  string // template name, e.g. RevKeyHash
	isNum bool
}

var (
	reHex = regexp.MustCompile(`\{\{\s*hex\s+\.(\w+)\s*\}\}`)
	reNum = regexp.MustCompile(`\{\{\s*\.(\w+)\s*\}\}`)
)

var opInstr = map[string]string{
	"OP_0": "INum 0", "OP_FALSE": "INum 0", "OP_TRUE": "INum 1", "OP_1NEGATE": "I1Negate",
	"OP_DUP": "IDup", "OP_DROP": "IDrop", "OP_SWAP": "ISwap", "OP_SIZE": "ISize",
	"OP_IFDUP": "IIfDup", "OP_EQUAL": "IEqual", "OP_EQUALVERIFY": "IEqualVerify",
	"OP_VERIFY": "IVerify", "OP_IF": "IIf", "OP_NOTIF": "INotIf", "OP_ELSE": "IElse",
	"OP_ENDIF": "IEndIf", "OP_HASH160": "IHash160", "OP_CHECKSIG": "ICheckSig",
	"OP_CHECKSIGVERIFY": "ICheckSigVerify", "OP_CHECKMULTISIG": "ICheckMultiSig",
	"OP_CHECKMULTISIGVERIFY": "ICheckMultiSigVerify",
	"OP_CHECKLOCKTIMEVERIFY": "ICLTV", "OP_CLTV": "ICLTV",
	"OP_CHECKSEQUENCEVERIFY": "ICSV", "OP_CSV": "ICSV",
}

// opcodes outside the interpreter's subset still translate (to IOther byte):
// the model then answers Unsupported, which breaks the proofs / correspondence
// instead of silently dropping the opcode.
var opOther = map[string]int{
	"OP_NOP": 0x61, "OP_RETURN": 0x6a, "OP_TOALTSTACK": 0x6b, "OP_FROMALTSTACK": 0x6c,
	"OP_2DROP": 0x6d, "OP_2DUP": 0x6e, "OP_3DUP": 0x6f, "OP_2OVER": 0x70, "OP_2ROT": 0x71,
	"OP_2SWAP": 0x72, "OP_DEPTH": 0x74, "OP_NIP": 0x77, "OP_OVER": 0x78, "OP_PICK": 0x79,
	"OP_ROLL": 0x7a, "OP_ROT": 0x7b, "OP_TUCK": 0x7d, "OP_1ADD": 0x8b, "OP_1SUB": 0x8c,
	"OP_NEGATE": 0x8f, "OP_ABS": 0x90, "OP_NOT": 0x91, "OP_0NOTEQUAL": 0x92, "OP_ADD": 0x93,
	"OP_SUB": 0x94, "OP_BOOLAND": 0x9a, "OP_BOOLOR": 0x9b, "OP_NUMEQUAL": 0x9c,
	"OP_NUMEQUALVERIFY": 0x9d, "OP_NUMNOTEQUAL": 0x9e, "OP_LESSTHAN": 0x9f,
	"OP_GREATERTHAN": 0xa0, "OP_LESSTHANOREQUAL": 0xa1, "OP_GREATERTHANOREQUAL": 0xa2,
	"OP_MIN": 0xa3, "OP_MAX": 0xa4, "OP_WITHIN": 0xa5, "OP_RIPEMD160": 0xa6, "OP_SHA1": 0xa7,
	"OP_SHA256": 0xa8, "OP_HASH256": 0xaa, "OP_CODESEPARATOR": 0xab, "OP_CHECKSIGADD": 0xba,
}

func byteList(b []byte) string {
	s := make([]string, len(b))
	for i, x := range b {
		s[i] = strconv.Itoa(int(x))
	}
	return "[" + strings.Join(s, "; ") + "]"
}

// tokens of one literal -> Coq instr terms; records params
func (g *sgen) tokenize(lp litPart, params *[]tparam) ([]string, error) {
	text := reHex.ReplaceAllString(lp.text, " \x00D$1 ")
	text = reNum.ReplaceAllString(text, " \x00N$1 ")
	if strings.Contains(text, "{{") || strings.Contains(text, "}}") {
		return nil, g.errf(lp.node, "template action other than {{ hex .X }} / {{ .X }} in %q", strings.TrimSpace(lp.text))
	}
	add := func(name string, isNum bool) error {
		for _, p := range *params {
			if p.name == name {
				if p.isNum != isNum {
					return g.errf(lp.node, "template parameter %s used both as data and as number", name)
				}
				return nil
			}
		}
		*params = append(*params, tparam{name, isNum})
		return nil
	}
	var out []string
	for _, tok := range strings.Fields(text) {
		switch {
		case strings.HasPrefix(tok, "\x00D"):
			if err := add(tok[2:], false); err != nil {
				return nil, err
			}
			out = append(out, "push_data "+snake(tok[2:]))
		case strings.HasPrefix(tok, "\x00N"):
			if err := add(tok[2:], true); err != nil {
				return nil, err
			}
			out = append(out, "push_num "+snake(tok[2:]))
		case strings.HasPrefix(tok, "OP_"):
			if ins, ok := opInstr[tok]; ok {
				out = append(out, ins)
			} else if n, err := strconv.Atoi(tok[3:]); err == nil && n >= 1 && n <= 16 {
				out = append(out, fmt.Sprintf("INum %d", n))
			} else if b, ok := opOther[tok]; ok {
				out = append(out, fmt.Sprintf("IOther %d", b))
			} else {
				return nil, g.errf(lp.node, "opcode %s is not in the translator's table", tok)
			}
		case strings.HasPrefix(tok, "0x"):
			b, err := hexBytes(tok[2:])
			if err != nil {
				return nil, g.errf(lp.node, "bad hex token %q", tok)
			}
			out = append(out, "push_data "+byteList(b))
		default:
			if n, err := strconv.ParseInt(tok, 10, 64); err == nil && looksLikeInt(tok) {
				if n < 0 {
					return nil, g.errf(lp.node, "negative integer literal %s in template (only non-negative numbers are modelled)", tok)
				}
				out = append(out, fmt.Sprintf("push_num %d", n))
			} else if b, err := hexBytes(tok); err == nil {
				out = append(out, "push_data "+byteList(b))
			} else {
				return nil, g.errf(lp.node, "token %q is neither opcode, integer, hex nor template parameter", tok)
			}
		}
	}
	return out, nil
}

func looksLikeInt(s string) bool {
	if len(s) > 0 && (s[0] == '+' || s[0] == '-') {
		s = s[1:]
	}
	for _, c := range s {
		if c < '0' || c > '9' {
			return false
		}
	}
	return len(s) > 0
}

func hexBytes(s string) ([]byte, error) {
	if len(s)%2 != 0 {
		return nil, fmt.Errorf("odd hex")
	}
	out := make([]byte, len(s)/2)
	for i := range out {
		v, err := strconv.ParseUint(s[2*i:2*i+2], 16, 8)
		if err != nil {
			return nil, err
		}
		out[i] = byte(v)
	}
	return out, nil
}

// Coq expression of a part list
func (g *sgen) partsExpr(parts []tmplPart, params *[]tparam) (string, error) {
	var chunks []string
	var cur []string
	flush := func() {
		if len(cur) > 0 {
			chunks = append(chunks, "["+strings.Join(cur, "; ")+"]")
			cur = nil
		}
	}
	for _, p := range parts {
		switch x := p.(type) {
		case litPart:
			toks, err := g.tokenize(x, params)
			if err != nil {
				return "", err
			}
			cur = append(cur, toks...)
		case ifPart:
			flush()
			t, err := g.partsExpr(x.thenP, params)
			if err != nil {
				return "", err
			}
			e, err := g.partsExpr(x.elseP, params)
			if err != nil {
				return "", err
			}
			chunks = append(chunks, fmt.Sprintf("(if %s then %s else %s)", x.flag, t, e))
		}
	}
	flush()
	if len(chunks) == 0 {
		return "[]", nil
	}
	return strings.Join(chunks, "\n  ++ "), nil
}

// ---------------------------------------------------------------- _of wrappers

type goParam struct {
	name string
	typ  string
}

func (g *sgen) goParams(fd *ast.FuncDecl) []goParam {
	var out []goParam
	for _, f := range fd.Type.Params.List {
		t := g.src(f.Type)
		for _, n := range f.Names {
			out = append(out, goParam{n.Name, t})
		}
	}
	return out
}

type wrapCtx struct {
	g      *sgen
	fd     *ast.FuncDecl
	gp     map[string]string   // go param -> type
	locals map[string]ast.Expr // simple local definitions
	used   map[string]string   // go param -> coq type, as used
	order  []string
}

func (w *wrapCtx) use(name, coqType string) (string, error) {
	if t, ok := w.used[name]; ok && t != coqType {
		return "", fmt.Errorf("go parameter %s used at two Coq types", name)
	}
	if _, ok := w.used[name]; !ok {
		w.used[name] = coqType
		w.order = append(w.order, name)
	}
	return snake(name), nil
}

func (w *wrapCtx) tr(e ast.Expr) (string, error) {
	g := w.g
	switch x := e.(type) {
	case *ast.ParenExpr:
		return w.tr(x.X)
	case *ast.Ident:
		if t, ok := w.gp[x.Name]; ok {
			switch t {
			case "[]byte":
				return w.use(x.Name, "data")
			}
			return "", g.errf(e, "go parameter %s of type %s used directly as a template value", x.Name, t)
		}
		if d, ok := w.locals[x.Name]; ok {
			return w.tr(d)
		}
		return "", g.errf(e, "identifier %s in template parameter expression is neither a parameter nor a simple local", x.Name)
	case *ast.SliceExpr:
		if x.Low == nil && x.High == nil && x.Max == nil {
			return w.tr(x.X)
		}
	case *ast.CallExpr:
		// k.SerializeCompressed()
		if s, ok := x.Fun.(*ast.SelectorExpr); ok && s.Sel.Name == "SerializeCompressed" && len(x.Args) == 0 {
			if id, ok := s.X.(*ast.Ident); ok && w.gp[id.Name] == "*btcec.PublicKey" {
				return w.use(id.Name, "data")
			}
		}
		if isSel(x.Fun, "schnorr", "SerializePubKey") && len(x.Args) == 1 {
			if id, ok := x.Args[0].(*ast.Ident); ok && w.gp[id.Name] == "*btcec.PublicKey" {
				return w.use(id.Name, "data")
			}
		}
		if isSel(x.Fun, "address", "Hash160") && len(x.Args) == 1 {
			a, err := w.tr(x.Args[0])
			if err != nil {
				return "", err
			}
			return "(ripemd160 (sha256 " + a + "))", nil
		}
		if isSel(x.Fun, "sha256", "Sum256") && len(x.Args) == 1 {
			a, err := w.tr(x.Args[0])
			if err != nil {
				return "", err
			}
			return "(sha256 " + a + ")", nil
		}
		if id, ok := x.Fun.(*ast.Ident); ok && len(x.Args) >= 1 {
			switch id.Name {
			case "Ripemd160H":
				a, err := w.tr(x.Args[0])
				if err != nil {
					return "", err
				}
				return "(ripemd160 " + a + ")", nil
			case "int64":
				if aid, ok := x.Args[0].(*ast.Ident); ok && w.gp[aid.Name] == "uint32" {
					return w.use(aid.Name, "num")
				}
				return "", g.errf(e, "int64(%s): only int64(<uint32 parameter>) is modelled (non-negative numbers)", g.src(x.Args[0]))
			case "make":
				if len(x.Args) == 2 && g.src(x.Args[0]) == "[]byte" {
					if n, err := strconv.Atoi(g.src(x.Args[1])); err == nil {
						return fmt.Sprintf("(repeat 0 %d)", n), nil
					}
				}
			}
		}
	}
	return "", g.errf(e, "template parameter expression %q is outside the supported fragment", g.src(e))
}

// ---------------------------------------------------------------- witnesses

type welem struct {
	isConst bool
	konst   []byte
	param   string
}

type wstack struct {
	elems []welem // index -> element (filled when set)
	set   []bool
}

func (g *sgen) witnessElem(e ast.Expr) (welem, error) {
	nameOf := func(x ast.Expr) (string, bool) {
		// ident or selector chain, leading signDesc dropped
		var parts []string
		for {
			switch y := x.(type) {
			case *ast.Ident:
				if y.Name != "signDesc" || len(parts) == 0 {
					parts = append([]string{y.Name}, parts...)
				}
				s := make([]string, len(parts))
				for i, p := range parts {
					s[i] = snake(p)
				}
				return strings.Join(s, "_"), true
			case *ast.SelectorExpr:
				parts = append([]string{y.Sel.Name}, parts...)
				x = y.X
			default:
				return "", false
			}
		}
	}
	switch x := e.(type) {
	case *ast.Ident:
		if x.Name == "nil" {
			return welem{isConst: true, konst: nil}, nil
		}
		n, _ := nameOf(x)
		return welem{param: n}, nil
	case *ast.SelectorExpr:
		if n, ok := nameOf(x); ok {
			return welem{param: n}, nil
		}
	case *ast.CompositeLit:
		if g.src(x.Type) == "[]byte" {
			var b []byte
			for _, el := range x.Elts {
				v, err := strconv.ParseUint(g.src(el), 0, 8)
				if err != nil {
					return welem{}, g.errf(e, "non-constant byte literal %q", g.src(e))
				}
				b = append(b, byte(v))
			}
			return welem{isConst: true, konst: b}, nil
		}
	case *ast.CallExpr:
		if id, ok := x.Fun.(*ast.Ident); ok {
			switch id.Name {
			case "append":
				// append(sig.Serialize(), byte(hashType))
				if len(x.Args) == 2 {
					if c, ok := x.Args[0].(*ast.CallExpr); ok && len(c.Args) == 0 {
						if s, ok := c.Fun.(*ast.SelectorExpr); ok && s.Sel.Name == "Serialize" {
							if n, ok := nameOf(s.X); ok {
								return welem{param: n}, nil
							}
						}
					}
				}
			case "maybeAppendSighash":
				if len(x.Args) == 2 {
					if n, ok := nameOf(x.Args[0]); ok {
						return welem{param: n}, nil
					}
				}
			}
		}
		if s, ok := x.Fun.(*ast.SelectorExpr); ok && len(x.Args) == 0 &&
			(s.Sel.Name == "SerializeCompressed" || s.Sel.Name == "ToBytes") {
			if n, ok := nameOf(s.X); ok {
				return welem{param: n}, nil
			}
			if c, ok := s.X.(*ast.CallExpr); ok {
				if fid, ok := c.Fun.(*ast.Ident); ok {
					return welem{param: snake(fid.Name)}, nil
				}
			}
		}
	}
	return welem{}, g.errf(e, "witness element expression %q is outside the supported fragment", g.src(e))
}

type wcase struct {
	flag  string // "" = unconditional
	thenA map[int]welem
	elseA map[int]welem
}

type witnessFn struct {
	goName  string
	line    int
	n       int
	uncond  map[int]welem
	conds   []wcase
	alias   string   // non-empty: same stack as that function
	txfx    []string // Coq transformers, innermost first
	txArgs  []goParam
	flagsIn []string
}

func makeLen(g *sgen, e ast.Expr) (int, bool) {
	// wire.TxWitness(make([][]byte, N)) | make(wire.TxWitness, N) | make([][]byte, N)
	if c, ok := e.(*ast.CallExpr); ok {
		if isSel(c.Fun, "wire", "TxWitness") && len(c.Args) == 1 {
			return makeLen(g, c.Args[0])
		}
		if id, ok := c.Fun.(*ast.Ident); ok && id.Name == "make" && len(c.Args) == 2 {
			t := g.src(c.Args[0])
			if t == "[][]byte" || t == "wire.TxWitness" {
				if n, err := strconv.Atoi(g.src(c.Args[1])); err == nil {
					return n, true
				}
			}
		}
	}
	return 0, false
}

func (g *sgen) indexAssign(v string, s ast.Stmt) (int, ast.Expr, bool) {
	as, ok := s.(*ast.AssignStmt)
	if !ok || as.Tok != token.ASSIGN || len(as.Lhs) == 0 {
		return 0, nil, false
	}
	ix, ok := as.Lhs[0].(*ast.IndexExpr)
	if !ok {
		return 0, nil, false
	}
	id, ok := ix.X.(*ast.Ident)
	if !ok || id.Name != v {
		return 0, nil, false
	}
	i, err := strconv.Atoi(g.src(ix.Index))
	if err != nil {
		return 0, nil, false
	}
	// w[i] = e   or   w[i], err = x.ToBytes()
	if len(as.Rhs) != 1 || len(as.Lhs) > 2 {
		return 0, nil, false
	}
	return i, as.Rhs[0], true
}

func (g *sgen) armAssigns(v string, stmts []ast.Stmt) (map[int]welem, error) {
	out := map[int]welem{}
	for _, s := range stmts {
		i, e, ok := g.indexAssign(v, s)
		if !ok {
			return nil, g.errf(s, "statement %q in a conditional witness arm is not `%s[i] = ...`", firstLine(g.src(s)), v)
		}
		el, err := g.witnessElem(e)
		if err != nil {
			return nil, err
		}
		out[i] = el
	}
	return out, nil
}

func returnsWitness(g *sgen, fd *ast.FuncDecl) bool {
	if fd.Type.Results == nil {
		return false
	}
	for _, r := range fd.Type.Results.List {
		t := g.src(r.Type)
		if t == "wire.TxWitness" || t == "[][]byte" {
			return true
		}
	}
	return false
}

// functions returning a witness type that do not build a stack
var witnessSkip = map[string]string{
	"StripTaprootAnnex": "returns a sub-slice of its argument (annex removal), builds no stack",
}

func (g *sgen) collectWitness(fd *ast.FuncDecl, known map[string]bool) (*witnessFn, error) {
	wf := &witnessFn{goName: fd.Name.Name, line: g.fset.Position(fd.Pos()).Line, uncond: map[int]welem{}}
	v := ""
	for _, st := range fd.Body.List {
		if as, ok := st.(*ast.AssignStmt); ok && as.Tok == token.DEFINE && len(as.Lhs) == 1 && len(as.Rhs) == 1 {
			if n, ok := makeLen(g, as.Rhs[0]); ok {
				if v != "" {
					return nil, g.errf(st, "two witness stacks built in one function")
				}
				v = as.Lhs[0].(*ast.Ident).Name
				wf.n = n
			}
		}
	}
	if v == "" {
		// alias: return OtherSpendFn(...)
		last := fd.Body.List[len(fd.Body.List)-1]
		if rs, ok := last.(*ast.ReturnStmt); ok && len(rs.Results) == 1 {
			if c, ok := rs.Results[0].(*ast.CallExpr); ok {
				if id, ok := c.Fun.(*ast.Ident); ok && known[id.Name] {
					wf.alias = id.Name
					return wf, nil
				}
			}
		}
		return nil, g.errf(fd, "function %s returns a witness but neither builds one with make(...) nor forwards to a known spend function", fd.Name.Name)
	}
	for _, st := range fd.Body.List {
		if !mentions(st, v) {
			continue
		}
		if i, e, ok := g.indexAssign(v, st); ok {
			el, err := g.witnessElem(e)
			if err != nil {
				return nil, err
			}
			if _, dup := wf.uncond[i]; dup {
				return nil, g.errf(st, "witness element %d assigned twice", i)
			}
			wf.uncond[i] = el
			continue
		}
		switch s := st.(type) {
		case *ast.AssignStmt:
			if s.Tok == token.DEFINE {
				continue // the make(...)
			}
		case *ast.ReturnStmt:
			continue
		case *ast.IfStmt:
			// if bytes.Compare(a, b) == 1 { ... } else { ... }
			flag := ""
			if be, ok := s.Cond.(*ast.BinaryExpr); ok && be.Op == token.EQL && g.src(be.Y) == "1" {
				if c, ok := be.X.(*ast.CallExpr); ok && isSel(c.Fun, "bytes", "Compare") && len(c.Args) == 2 {
					flag = snake(g.src(c.Args[0])) + "_greater"
				}
			}
			if id, ok := s.Cond.(*ast.Ident); ok {
				flag = snake(id.Name)
			}
			eb, okb := s.Else.(*ast.BlockStmt)
			if flag == "" || s.Init != nil || !okb {
				return nil, g.errf(s, "conditional around witness elements is not `if flag|bytes.Compare(a,b)==1 {..} else {..}`")
			}
			ta, err := g.armAssigns(v, s.Body.List)
			if err != nil {
				return nil, err
			}
			ea, err := g.armAssigns(v, eb.List)
			if err != nil {
				return nil, err
			}
			wf.conds = append(wf.conds, wcase{flag, ta, ea})
			continue
		case *ast.SwitchStmt:
			// switch flag { case false: ...; case true: ... }
			id, ok := s.Tag.(*ast.Ident)
			if !ok || s.Init != nil || len(s.Body.List) != 2 {
				return nil, g.errf(s, "switch around witness elements is not `switch flag { case false: ..; case true: .. }`")
			}
			wc := wcase{flag: snake(id.Name)}
			for _, cc := range s.Body.List {
				c := cc.(*ast.CaseClause)
				if len(c.List) != 1 {
					return nil, g.errf(c, "witness switch case is not a single boolean")
				}
				arm, err := g.armAssigns(v, c.Body)
				if err != nil {
					return nil, err
				}
				switch g.src(c.List[0]) {
				case "true":
					wc.thenA = arm
				case "false":
					wc.elseA = arm
				default:
					return nil, g.errf(c, "witness switch case %q is not true/false", g.src(c.List[0]))
				}
			}
			if wc.thenA == nil || wc.elseA == nil {
				return nil, g.errf(s, "witness switch needs a true and a false case")
			}
			wf.conds = append(wf.conds, wc)
			continue
		}
		return nil, g.errf(st, "statement touching witness stack %s is outside the supported fragment: %q", v, firstLine(g.src(st)))
	}
	// every index must be covered exactly once on every path
	for i := 0; i < wf.n; i++ {
		cnt := 0
		if _, ok := wf.uncond[i]; ok {
			cnt++
		}
		for _, c := range wf.conds {
			_, a := c.thenA[i]
			_, b := c.elseA[i]
			if a != b {
				return nil, g.errf(fd, "witness element %d of %s set in only one arm of a conditional", i, fd.Name.Name)
			}
			if a {
				cnt++
			}
		}
		if cnt != 1 {
			return nil, g.errf(fd, "witness element %d of %s is assigned %d times (stack of %d)", i, fd.Name.Name, cnt, wf.n)
		}
	}
	for i := range wf.uncond {
		if i >= wf.n {
			return nil, g.errf(fd, "witness index %d out of range in %s", i, fd.Name.Name)
		}
	}
	return wf, nil
}

// tx-field writes of a spend function
func (g *sgen) collectTxEffects(fd *ast.FuncDecl, wf *witnessFn) error {
	gp := map[string]string{}
	for _, p := range g.goParams(fd) {
		gp[p.name] = p.typ
	}
	isTx := func(e ast.Expr) bool {
		id, ok := e.(*ast.Ident)
		return ok && gp[id.Name] == "*wire.MsgTx"
	}
	usedArgs := map[string]bool{}
	var handle func(st ast.Stmt, guard string) error
	effect := func(as *ast.AssignStmt) (string, bool, error) {
		if len(as.Lhs) != 1 || len(as.Rhs) != 1 {
			return "", false, nil
		}
		sel, ok := as.Lhs[0].(*ast.SelectorExpr)
		if !ok {
			return "", false, nil
		}
		rhs := as.Rhs[0]
		switch {
		case isTx(sel.X) && sel.Sel.Name == "Version":
			n, err := strconv.Atoi(g.src(rhs))
			if err != nil || n < 0 {
				return "", true, g.errf(as, "tx version set to non-constant %q", g.src(rhs))
			}
			return fmt.Sprintf("set_tx_version %d", n), true, nil
		case isTx(sel.X) && sel.Sel.Name == "LockTime":
			// uint32(x) with x an int32 parameter
			if c, ok := rhs.(*ast.CallExpr); ok && g.src(c.Fun) == "uint32" && len(c.Args) == 1 {
				if id, ok := c.Args[0].(*ast.Ident); ok && gp[id.Name] == "int32" {
					usedArgs[id.Name] = true
					return fmt.Sprintf("set_tx_locktime (Z.to_N (%s mod 4294967296)%%Z)", snake(id.Name)), true, nil
				}
			}
			return "", true, g.errf(as, "tx locktime set to unsupported expression %q", g.src(rhs))
		case sel.Sel.Name == "Sequence":
			// tx.TxIn[0].Sequence = LockTimeToSequence(false, csvDelay)
			ix, ok := sel.X.(*ast.IndexExpr)
			if ok {
				if s2, ok := ix.X.(*ast.SelectorExpr); ok && isTx(s2.X) && s2.Sel.Name == "TxIn" {
					if g.src(ix.Index) != "0" {
						return "", true, g.errf(as, "sequence of input %s set (only input 0 is modelled)", g.src(ix.Index))
					}
					if c, ok := rhs.(*ast.CallExpr); ok && g.src(c.Fun) == "LockTimeToSequence" && len(c.Args) == 2 {
						b := g.src(c.Args[0])
						if id, ok := c.Args[1].(*ast.Ident); ok && gp[id.Name] == "uint32" && (b == "true" || b == "false") {
							usedArgs[id.Name] = true
							return fmt.Sprintf("set_in_sequence (lock_time_to_sequence %s %s)", b, snake(id.Name)), true, nil
						}
					}
					return "", true, g.errf(as, "input sequence set to unsupported expression %q", g.src(rhs))
				}
			}
		}
		// any other write through a tx parameter is not understood
		root := as.Lhs[0]
		for {
			switch y := root.(type) {
			case *ast.SelectorExpr:
				root = y.X
				continue
			case *ast.IndexExpr:
				root = y.X
				continue
			}
			break
		}
		if isTx(root) {
			return "", true, g.errf(as, "write to tx field %q is outside the supported fragment", g.src(as.Lhs[0]))
		}
		return "", false, nil
	}
	handle = func(st ast.Stmt, guard string) error {
		switch s := st.(type) {
		case *ast.AssignStmt:
			if s.Tok != token.ASSIGN {
				return nil
			}
			eff, is, err := effect(s)
			if err != nil {
				return err
			}
			if is {
				if guard != "" {
					eff = fmt.Sprintf("(fun c => if %s then c else %s c)", guard, eff)
				}
				wf.txfx = append(wf.txfx, eff)
			}
		case *ast.IfStmt:
			// if x != -1 { tx.LockTime = ... }
			writes := false
			ast.Inspect(s.Body, func(n ast.Node) bool {
				if as, ok := n.(*ast.AssignStmt); ok && as.Tok == token.ASSIGN {
					if _, is, _ := effect(as); is {
						writes = true
					}
				}
				return true
			})
			if !writes {
				return nil
			}
			be, ok := s.Cond.(*ast.BinaryExpr)
			if !ok || be.Op != token.NEQ || g.src(be.Y) != "-1" || s.Else != nil || s.Init != nil || guard != "" {
				return g.errf(s, "conditional tx write is not `if x != -1 { ... }`")
			}
			id, ok := be.X.(*ast.Ident)
			if !ok || gp[id.Name] != "int32" {
				return g.errf(s, "conditional tx write guarded by %q", g.src(s.Cond))
			}
			usedArgs[id.Name] = true
			for _, b := range s.Body.List {
				if err := handle(b, fmt.Sprintf("(%s =? -1)%%Z", snake(id.Name))); err != nil {
					return err
				}
			}
		}
		return nil
	}
	for _, st := range fd.Body.List {
		if err := handle(st, ""); err != nil {
			return err
		}
	}
	for _, p := range g.goParams(fd) {
		if usedArgs[p.name] {
			wf.txArgs = append(wf.txArgs, p)
		}
	}
	return nil
}

// ---------------------------------------------------------------- driver

func genScripts(repo string) (string, string, error) {
	g := &sgen{fset: token.NewFileSet()}
	path := filepath.Join(repo, filepath.FromSlash(scriptsSrc))
	f, err := parser.ParseFile(g.fset, path, nil, parser.SkipObjectResolution)
	if err != nil {
		return "", "", err
	}
	g.file = f

	var b strings.Builder
	b.WriteString("(* GENERATED by /verif/translate (gen_scripts.go) from " + scriptsSrc + " -- DO NOT EDIT.\n")
	b.WriteString("   Regenerated on every check run; see notes/SCRIPT.md. *)\n")
	b.WriteString("From Coq Require Import List NArith ZArith Bool String.\n")
	b.WriteString("From LV Require Import Script.Interp Script.Witness.\n")
	b.WriteString("Import ListNotations.\nLocal Open Scope N_scope.\n\n")

	names := map[string]string{}
	claim := func(coq, goName string, n ast.Node) error {
		if prev, dup := names[coq]; dup {
			return g.errf(n, "Coq name %s generated for both %s and %s", coq, prev, goName)
		}
		names[coq] = goName
		return nil
	}

	var errs []string
	nScripts, nWit := 0, 0

	// pass 1: which functions return a witness (for alias resolution)
	known := map[string]bool{}
	for _, d := range f.Decls {
		if fd, ok := d.(*ast.FuncDecl); ok && fd.Body != nil && fd.Recv == nil && returnsWitness(g, fd) {
			if _, skip := witnessSkip[fd.Name.Name]; !skip {
				known[fd.Name.Name] = true
			}
		}
	}

	b.WriteString("(* ======== script templates ======== *)\n\n")
	for _, d := range f.Decls {
		fd, ok := d.(*ast.FuncDecl)
		if !ok || fd.Body == nil {
			continue
		}
		var calls []*ast.CallExpr
		ast.Inspect(fd.Body, func(n ast.Node) bool {
			if c, ok := n.(*ast.CallExpr); ok && isSel(c.Fun, "txscript", "ScriptTemplate") {
				calls = append(calls, c)
			}
			return true
		})
		if len(calls) == 0 {
			continue
		}
		if len(calls) > 1 || fd.Recv != nil {
			errs = append(errs, g.errf(fd, "function %s: %d ScriptTemplate calls / method receiver not supported", fd.Name.Name, len(calls)).Error())
			continue
		}
		if fd.Name.Name == "ExampleScriptTemplate" {
			continue
		}
		call := calls[0]
		parts, err := g.collectTemplate(fd, call)
		if err == nil {
			err = g.checkBoundaries(parts)
		}
		if err != nil {
			errs = append(errs, err.Error())
			continue
		}
		var params []tparam
		body, err := g.partsExpr(parts, &params)
		if err != nil {
			errs = append(errs, err.Error())
			continue
		}
		var flags []string
		partFlags(parts, &flags)
		name := snake(fd.Name.Name)
		if err := claim(name, fd.Name.Name, fd); err != nil {
			errs = append(errs, err.Error())
			continue
		}
		line := g.fset.Position(fd.Pos()).Line
		fmt.Fprintf(&b, "(* %s, %s:%d *)\n", fd.Name.Name, scriptsSrc, line)
		fmt.Fprintf(&b, "Definition %s", name)
		for _, fl := range flags {
			fmt.Fprintf(&b, " (%s : bool)", fl)
		}
		for _, p := range params {
			t := "data"
			if p.isNum {
				t = "num"
			}
			fmt.Fprintf(&b, " (%s : %s)", snake(p.name), t)
		}
		fmt.Fprintf(&b, " : list instr :=\n  %s.\n", body)

		// the TemplateParams map
		pmap := map[string]ast.Expr{}
		for _, a := range call.Args[1:] {
			c, ok := a.(*ast.CallExpr)
			if !ok || !isSel(c.Fun, "txscript", "WithScriptTemplateParams") || len(c.Args) != 1 {
				errs = append(errs, g.errf(a, "ScriptTemplate option %q is not WithScriptTemplateParams(TemplateParams{...})", firstLine(g.src(a))).Error())
				continue
			}
			cl, ok := c.Args[0].(*ast.CompositeLit)
			if !ok {
				errs = append(errs, g.errf(c.Args[0], "template parameters are not a composite literal").Error())
				continue
			}
			for _, el := range cl.Elts {
				kv, ok := el.(*ast.KeyValueExpr)
				k, isStr := "", false
				if ok {
					k, isStr = strLit(kv.Key)
				}
				if !ok || !isStr {
					errs = append(errs, g.errf(el, "template parameter entry %q is not \"Name\": expr", g.src(el)).Error())
					continue
				}
				pmap[k] = kv.Value
			}
		}
		w := &wrapCtx{g: g, fd: fd, gp: map[string]string{}, locals: map[string]ast.Expr{}, used: map[string]string{}}
		for _, p := range g.goParams(fd) {
			w.gp[p.name] = p.typ
		}
		// simple locals and the key-sorting swap
		swapFlag, swapA, swapB := "", "", ""
		bad := false
		for _, st := range fd.Body.List {
			switch s := st.(type) {
			case *ast.AssignStmt:
				if s.Tok == token.DEFINE && len(s.Lhs) == 1 && len(s.Rhs) == 1 {
					if id, ok := s.Lhs[0].(*ast.Ident); ok {
						if _, dup := w.locals[id.Name]; dup {
							errs = append(errs, g.errf(s, "local %s defined twice", id.Name).Error())
							bad = true
						}
						w.locals[id.Name] = s.Rhs[0]
					}
				}
				if s.Tok == token.ASSIGN {
					for _, l := range s.Lhs {
						if id, ok := l.(*ast.Ident); ok {
							if _, isP := w.gp[id.Name]; isP {
								errs = append(errs, g.errf(s, "go parameter %s reassigned before being used as template value", id.Name).Error())
								bad = true
							}
						}
					}
				}
			case *ast.IfStmt:
				// if bytes.Compare(a, b) == 1 { a, b = b, a }
				if be, ok := s.Cond.(*ast.BinaryExpr); ok && be.Op == token.EQL && g.src(be.Y) == "1" {
					if c, ok := be.X.(*ast.CallExpr); ok && isSel(c.Fun, "bytes", "Compare") && len(c.Args) == 2 && len(s.Body.List) == 1 && s.Else == nil {
						a, bb := g.src(c.Args[0]), g.src(c.Args[1])
						if as, ok := s.Body.List[0].(*ast.AssignStmt); ok && as.Tok == token.ASSIGN &&
							len(as.Lhs) == 2 && len(as.Rhs) == 2 &&
							g.src(as.Lhs[0]) == a && g.src(as.Lhs[1]) == bb &&
							g.src(as.Rhs[0]) == bb && g.src(as.Rhs[1]) == a {
							swapFlag, swapA, swapB = snake(a)+"_greater", a, bb
							continue
						}
					}
				}
				// any other reassignment of a go parameter inside an if
				ast.Inspect(s, func(n ast.Node) bool {
					if as, ok := n.(*ast.AssignStmt); ok && as.Tok == token.ASSIGN {
						for _, l := range as.Lhs {
							if id, ok := l.(*ast.Ident); ok {
								if _, isP := w.gp[id.Name]; isP {
									errs = append(errs, g.errf(as, "go parameter %s conditionally reassigned (unsupported)", id.Name).Error())
									bad = true
								}
							}
						}
					}
					return true
				})
			}
		}
		if bad {
			continue
		}
		var argExprs []string
		okWrap := true
		for _, p := range params {
			e, ok := pmap[p.name]
			if !ok {
				errs = append(errs, g.errf(call, "template parameter %s of %s has no entry in TemplateParams", p.name, fd.Name.Name).Error())
				okWrap = false
				break
			}
			s, err := w.tr(e)
			if err != nil {
				errs = append(errs, err.Error())
				okWrap = false
				break
			}
			argExprs = append(argExprs, s)
		}
		for k := range pmap {
			found := false
			for _, p := range params {
				if p.name == k {
					found = true
				}
			}
			if !found {
				errs = append(errs, g.errf(call, "TemplateParams entry %s of %s is not used by the template", k, fd.Name.Name).Error())
				okWrap = false
			}
		}
		if !okWrap {
			continue
		}
		fmt.Fprintf(&b, "Definition %s_of (sha256 ripemd160 : data -> data)", name)
		for _, fl := range flags {
			fmt.Fprintf(&b, " (%s : bool)", fl)
		}
		if swapFlag != "" {
			fmt.Fprintf(&b, " (%s : bool)", swapFlag)
		}
		for _, p := range g.goParams(fd) {
			if t, ok := w.used[p.name]; ok {
				fmt.Fprintf(&b, " (%s : %s)", snake(p.name), t)
			}
		}
		b.WriteString(" : list instr :=\n")
		if swapFlag != "" {
			fmt.Fprintf(&b, "  let '(%s, %s) := if %s then (%s, %s) else (%s, %s) in\n",
				snake(swapA), snake(swapB), swapFlag, snake(swapB), snake(swapA), snake(swapA), snake(swapB))
		}
		fmt.Fprintf(&b, "  %s", name)
		for _, fl := range flags {
			b.WriteString(" " + fl)
		}
		for _, a := range argExprs {
			b.WriteString(" " + a)
		}
		b.WriteString(".\n\n")
		nScripts++
	}

	b.WriteString("(* ======== witness stacks ======== *)\n\n")
	for _, d := range f.Decls {
		fd, ok := d.(*ast.FuncDecl)
		if !ok || fd.Body == nil || fd.Recv != nil || !returnsWitness(g, fd) {
			continue
		}
		if why, skip := witnessSkip[fd.Name.Name]; skip {
			fmt.Fprintf(&b, "(* %s: not a witness builder (%s) *)\n\n", fd.Name.Name, why)
			continue
		}
		wf, err := g.collectWitness(fd, known)
		if err == nil && wf.alias == "" {
			err = g.collectTxEffects(fd, wf)
		}
		if err != nil {
			errs = append(errs, err.Error())
			continue
		}
		name := snake(fd.Name.Name)
		if err := claim(name, fd.Name.Name, fd); err != nil {
			errs = append(errs, err.Error())
			continue
		}
		fmt.Fprintf(&b, "(* %s, %s:%d *)\n", fd.Name.Name, scriptsSrc, wf.line)
		if wf.alias != "" {
			fmt.Fprintf(&b, "Notation %s := %s (only parsing).\n", name, snake(wf.alias))
			fmt.Fprintf(&b, "Notation %s_shape := %s_shape (only parsing).\n", name, snake(wf.alias))
			fmt.Fprintf(&b, "Notation %s_params := %s_params (only parsing).\n\n", name, snake(wf.alias))
			nWit++
			continue
		}
		// parameters in order of appearance (index order, then arm before else-arm)
		var pnames []string
		addP := func(e welem) {
			if e.isConst {
				return
			}
			for _, p := range pnames {
				if p == e.param {
					return
				}
			}
			pnames = append(pnames, e.param)
		}
		for i := 0; i < wf.n; i++ {
			if e, ok := wf.uncond[i]; ok {
				addP(e)
			}
			for _, c := range wf.conds {
				if e, ok := c.thenA[i]; ok {
					addP(e)
				}
				if e, ok := c.elseA[i]; ok {
					addP(e)
				}
			}
		}
		pidx := map[string]int{}
		for i, p := range pnames {
			pidx[p] = i
		}
		var flags []string
		for _, c := range wf.conds {
			flags = append(flags, c.flag)
		}
		shapeOf := func(e welem) string {
			if e.isConst {
				return "WConst " + byteList(e.konst)
			}
			return fmt.Sprintf("WParam %d", pidx[e.param])
		}
		valOf := func(e welem) string {
			if e.isConst {
				return byteList(e.konst)
			}
			return e.param
		}
		render := func(f func(welem) string) string {
			var items []string
			for i := 0; i < wf.n; i++ {
				if e, ok := wf.uncond[i]; ok {
					items = append(items, f(e))
					continue
				}
				for _, c := range wf.conds {
					if e, ok := c.thenA[i]; ok {
						items = append(items, fmt.Sprintf("(if %s then %s else %s)", c.flag, f(e), f(c.elseA[i])))
					}
				}
			}
			return "[" + strings.Join(items, "; ") + "]"
		}
		flagDecl := ""
		for _, fl := range flags {
			flagDecl += fmt.Sprintf(" (%s : bool)", fl)
		}
		flagUse := ""
		for _, fl := range flags {
			flagUse += " " + fl
		}
		fmt.Fprintf(&b, "Definition %s_shape%s : list witem :=\n  %s.\n", name, flagDecl, render(shapeOf))
		fmt.Fprintf(&b, "Definition %s%s", name, flagDecl)
		for _, p := range pnames {
			fmt.Fprintf(&b, " (%s : data)", p)
		}
		fmt.Fprintf(&b, " : list data :=\n  %s.\n", render(valOf))
		// the symbolic items in parameter order: the theorems pin this list, so that a
		// reordering of the witness elements changes what they say instead of silently
		// permuting the (positional) parameters
		{
			var q []string
			for _, pn := range pnames {
				q = append(q, fmt.Sprintf("%q%%string", pn))
			}
			fmt.Fprintf(&b, "Definition %s_params : list string := [%s].\n", name, strings.Join(q, "; "))
		}
		fmt.Fprintf(&b, "Example %s_shape_ok : forall%s", name, flagUse)
		for _, p := range pnames {
			b.WriteString(" " + p)
		}
		if len(flags)+len(pnames) == 0 {
			b.WriteString(" (_ : unit)")
		}
		fmt.Fprintf(&b, ",\n  inst_shape (%s_shape%s) [%s] = %s%s %s.\n", name, flagUse,
			strings.Join(pnames, "; "), name, flagUse, strings.Join(pnames, " "))
		b.WriteString("Proof. intros; repeat match goal with x : bool |- _ => destruct x end; reflexivity. Qed.\n")
		if len(wf.txfx) > 0 {
			fmt.Fprintf(&b, "Definition %s_tx", name)
			for _, p := range wf.txArgs {
				t := "num"
				if p.typ == "int32" {
					t = "Z"
				}
				fmt.Fprintf(&b, " (%s : %s)", snake(p.name), t)
			}
			b.WriteString(" (c : txctx) : txctx :=\n  ")
			// effects applied in program order
			expr := "c"
			for _, e := range wf.txfx {
				expr = fmt.Sprintf("(%s %s)", e, expr)
			}
			b.WriteString(expr + ".\n")
		}
		b.WriteString("\n")
		nWit++
	}

	if len(errs) > 0 {
		sort.Strings(errs)
		return "", "", fmt.Errorf("%d untranslatable construct(s):\n  %s", len(errs), strings.Join(errs, "\n  "))
	}
	if nScripts == 0 || nWit == 0 {
		return "", "", fmt.Errorf("%s: found %d script templates and %d witness builders (expected many): source layout changed", scriptsSrc, nScripts, nWit)
	}
	fmt.Fprintf(&b, "Definition gen_scripts_count : nat := %d.\nDefinition gen_witness_count : nat := %d.\n", nScripts, nWit)
	return "GenScripts.v", b.String(), nil
}
