package main

// gen_arith: small pure integer functions and typed constants of lnd
//   -> Gen/GenArith.v (functions)  and  Gen/GenConsts.v (constants)
//
// Tie T1 for the arithmetic the property models rest on.  Every function in
// arithTargets (and, transitively, every lnd function it calls) is translated
// to a Gallina definition over Z with Go's fixed-width semantics made
// explicit (Common/GoInt.v): the wrap of the result type after every + - *
// << unary- and after every narrowing conversion, Z.quot/Z.rem for signed
// / and %, Z.div/Z.modulo for unsigned.  <Subsys>/GenBridge.v proves each
// generated definition equal to the hand-written model function the property
// theorems use, so an edit of the Go source changes Gen/*.v and breaks a proof.
//
// Fragment (anything else is a loud failure naming construct and position):
//   statements  var / := / = / op= / ++ / -- on integer or boolean locals and
//               parameters, if/else (with init), tagless and tag switch (no
//               fallthrough, no break), return, `for ; v < C; v++ {..}` with a
//               constant bound (fuelled Fixpoint, fuel C+1, `break` allowed),
//               logging calls (dropped), nested blocks
//   expressions integer/boolean literals, locals, package constants (also of
//               other lnd packages; iota), + - * / % << >> & | ^ &^, unary
//               - + ^ !, comparisons, && ||, conversions between integer
//               types, calls of other lnd functions/methods in the fragment,
//               `func() T {..}()`, opt.UnwrapOr(d), fmt.Errorf/errors.New/nil
//               in an `error` result position (-> bool)
//   parameters  integers, bool, fn.Option[int type] (-> option Z), struct or
//               *struct (-> one parameter per field read), channeldb.ChannelType
//               (opaque: one bool parameter per predicate method called),
//               anything else only if it is never read (dropped)
//   `/` and `%` need a constant non-zero divisor (Go would panic on zero).

import (
	"fmt"
	"go/ast"
	"go/parser"
	"go/printer"
	"go/token"
	"math/big"
	"os"
	"path/filepath"
	"sort"
	"strings"
	"sync"
)

func init() {
	register("arith", genArith)
	register("consts", genConsts)
}

const lndMod = "github.com/lightningnetwork/lnd/"

// ---------------------------------------------------------------- targets

type arithTarget struct {
	dir, recv, name string
	required        bool
}

var arithTargets = []arithTarget{
	{"htlcswitch", "", "ExpectedFee", true},
	{"graph/db/models", "InboundFee", "CalcFee", true},
	{"lnwallet/chainfee", "SatPerKWeight", "FeeForWeight", true},
	{"lnwire", "MilliSatoshi", "ToSatoshis", true},
	{"lnwire", "", "NewMSatFromSatoshis", true},
	{"lnwallet", "", "CoopCloseBalance", true},
	{"lnwallet", "", "HtlcTimeoutFee", true},
	{"lnwallet", "", "HtlcSuccessFee", true},
	{"lnwallet", "", "CommitWeight", true},
	{"lnwallet", "", "HtlcIsDust", false},
	{"lnwallet/chancloser", "", "feeInAcceptableRange", false},
	{"lnwallet/chancloser", "", "ratchetFee", false},
	{"lnwallet/chancloser", "", "calcCompromiseFee", false},
	{"sweep", "", "calcCurrentConfTarget", false},
	{"shachain", "", "getBit", false},
	{"shachain", "", "getPrefix", false},
	{"shachain", "", "countTrailingZeros", false},
}

type constTarget struct{ dir, name string }

var constTargets = []constTarget{
	{"graph/db/models", "feeRateParts"}, {"graph/db/models", "maxFeeRate"},
	{"input", "HTLCWeight"}, {"input", "CommitWeight"}, {"input", "AnchorCommitWeight"},
	{"input", "TaprootCommitWeight"}, {"input", "HtlcTimeoutWeight"},
	{"input", "HtlcTimeoutWeightConfirmed"}, {"input", "HtlcSuccessWeight"},
	{"input", "HtlcSuccessWeightConfirmed"},
	{"lnwallet", "AnchorSize"},
	{"brontide", "keyRotationInterval"}, {"brontide", "macSize"},
	{"brontide", "lengthHeaderSize"}, {"brontide", "encHeaderSize"},
	{"shachain", "maxHeight"},
	{"lnwire", "MaxMsgBody"}, {"lnwire", "mSatScale"},
	{"tlv", "MaxRecordSize"},
	{"chainntnfs", "ReorgSafetyLimit"},
	{"lnwallet/chainfee", "FeePerKwFloor"}, {"lnwallet/chainfee", "AbsoluteFeePerKwFloor"},
	{"lntypes", "Local"}, {"lntypes", "Remote"},
}

// The named-type table.  External (non-lnd) types and constants cannot be read
// from the tree and are trusted as written here.  lnd-internal named types
// are resolved from their declaration in the tree; the entries below are the
// EXPECTED resolutions and are printed next to the resolved ones in
// GenArith.v (type_table) - the source is authoritative.
var extTypes = map[string]string{
	"github.com/btcsuite/btcd/btcutil.Amount": "int64",
}
var expectTypes = map[string]string{
	"lnwire.MilliSatoshi": "uint64", "chainfee.SatPerKWeight": "int64",
	"lntypes.WeightUnit": "uint64", "lntypes.ChannelParty": "uint8",
	"shachain.index": "uint64", "models.InboundFee": "struct",
	"models.ForwardingPolicy": "struct",
}
var extConsts = map[string]string{
	"github.com/btcsuite/btcd/blockchain.WitnessScaleFactor": "4",
	"math.MaxUint8":  "255",
	"math.MaxUint16": "65535", "math.MaxUint32": "4294967295",
	"math.MaxInt32": "2147483647", "math.MaxInt64": "9223372036854775807",
	"math.MaxUint64": "18446744073709551615",
}

// opaque types: a parameter of such a type becomes one bool parameter per
// zero-argument predicate method called on it.
var opaqueTypes = map[string]bool{
	lndMod + "channeldb.ChannelType": true,
}

var builtinInts = map[string][2]int{ // name -> signed(1/0), bits
	"int8": {1, 8}, "int16": {1, 16}, "int32": {1, 32}, "int64": {1, 64}, "int": {1, 64},
	"uint8": {0, 8}, "uint16": {0, 16}, "uint32": {0, 32}, "uint64": {0, 64}, "uint": {0, 64},
	"byte": {0, 8}, "rune": {1, 32},
}

// ---------------------------------------------------------------- types

const (
	kInt = iota
	kBool
	kUntyped // untyped numeric constant
	kOption
	kOpaque
	kStruct
	kError
	kOther // anything else: allowed only for parameters that are never read
)

type gtype struct {
	kind   int
	signed bool
	bits   int
	pkg    *apkg  // package of the outermost type name (method lookup), or nil
	tname  string // outermost type name
	elem   *gtype // kOption
	st     *ast.StructType
	stPkg  *apkg
	stFile *ast.File
	desc   string
}

func (t *gtype) String() string {
	if t == nil {
		return "<nil>"
	}
	if t.desc != "" {
		return t.desc
	}
	return t.base()
}

func (t *gtype) base() string {
	switch t.kind {
	case kInt:
		if t.signed {
			return fmt.Sprintf("int%d", t.bits)
		}
		return fmt.Sprintf("uint%d", t.bits)
	case kBool:
		return "bool"
	case kUntyped:
		return "untyped-const"
	case kOption:
		return "option " + t.elem.base()
	case kOpaque:
		return "opaque"
	case kStruct:
		return "struct"
	case kError:
		return "error"
	}
	return "other"
}

func (t *gtype) wrap() string {
	if t.signed {
		return fmt.Sprintf("wrap_i%d", t.bits)
	}
	return fmt.Sprintf("wrap_u%d", t.bits)
}

func (t *gtype) inRange() string {
	if t.signed {
		return fmt.Sprintf("in_i%d", t.bits)
	}
	return fmt.Sprintf("in_u%d", t.bits)
}

func (t *gtype) min() *big.Int {
	if !t.signed {
		return big.NewInt(0)
	}
	return new(big.Int).Neg(new(big.Int).Lsh(big.NewInt(1), uint(t.bits-1)))
}

func (t *gtype) max() *big.Int {
	b := t.bits
	if t.signed {
		b--
	}
	return new(big.Int).Sub(new(big.Int).Lsh(big.NewInt(1), uint(b)), big.NewInt(1))
}

func (t *gtype) contains(v *big.Int) bool { return v.Cmp(t.min()) >= 0 && v.Cmp(t.max()) <= 0 }

// subrange: every value of s is a value of t
func subrange(s, t *gtype) bool { return t.contains(s.min()) && t.contains(s.max()) }

func sameInt(a, b *gtype) bool {
	return a.kind == kInt && b.kind == kInt && a.signed == b.signed && a.bits == b.bits
}

var tBool = &gtype{kind: kBool}
var tInt = &gtype{kind: kInt, signed: true, bits: 64, desc: "int"}
var tError = &gtype{kind: kError}

// ---------------------------------------------------------------- packages

type aconst struct {
	name  string
	pkg   *apkg
	file  *ast.File
	typ   ast.Expr // may be nil
	val   ast.Expr
	iota  int
	pos   token.Pos
	state int // 0 new, 1 evaluating, 2 done
	cv    *cval
	err   error
}

type afunc struct {
	pkg  *apkg
	file *ast.File
	decl *ast.FuncDecl
}

type atypedecl struct {
	pkg  *apkg
	file *ast.File
	spec *ast.TypeSpec
}

type apkg struct {
	dir    string
	name   string
	consts map[string]*aconst
	types  map[string]*atypedecl
	funcs  map[string]*afunc // "F" or "T.M"
}

// cval: value of a constant expression
type cval struct {
	v     *big.Rat
	float bool   // untyped float constant (only integral values are usable)
	t     *gtype // nil = untyped
	b     *bool  // boolean constant
}

type agen struct {
	repo  string
	fset  *token.FileSet
	pkgs  map[string]*apkg
	funcs map[string]*tfunc // memo by coq name
	order []*tfunc
	used  map[string]*aconst // constants referenced by functions (coq name)
	types map[string]string  // resolved named types (for the table)
	unsup [][2]string
}

type aerr struct{ msg string }

func (e *aerr) Error() string { return e.msg }

func (g *agen) at(n ast.Node) string {
	if n == nil || !n.Pos().IsValid() {
		return "?"
	}
	p := g.fset.Position(n.Pos())
	rel, err := filepath.Rel(g.repo, p.Filename)
	if err != nil {
		rel = p.Filename
	}
	return fmt.Sprintf("%s:%d", rel, p.Line)
}

func (g *agen) src(n ast.Node) string {
	var b strings.Builder
	printer.Fprint(&b, g.fset, n)
	return strings.Join(strings.Fields(b.String()), " ")
}

func (g *agen) bad(n ast.Node, format string, a ...any) error {
	return &aerr{fmt.Sprintf("%s: %s", g.at(n), fmt.Sprintf(format, a...))}
}

func (g *agen) load(dir string) (*apkg, error) {
	if p, ok := g.pkgs[dir]; ok {
		return p, nil
	}
	full := filepath.Join(g.repo, dir)
	ents, err := os.ReadDir(full)
	if err != nil {
		return nil, fmt.Errorf("package %s: %v", dir, err)
	}
	p := &apkg{dir: dir, consts: map[string]*aconst{}, types: map[string]*atypedecl{},
		funcs: map[string]*afunc{}}
	g.pkgs[dir] = p
	for _, e := range ents {
		n := e.Name()
		if e.IsDir() || !strings.HasSuffix(n, ".go") || strings.HasSuffix(n, "_test.go") {
			continue
		}
		f, err := parser.ParseFile(g.fset, filepath.Join(full, n), nil, parser.SkipObjectResolution)
		if err != nil {
			return nil, fmt.Errorf("parse %s/%s: %v", dir, n, err)
		}
		if p.name == "" {
			p.name = f.Name.Name
		}
		for _, d := range f.Decls {
			switch d := d.(type) {
			case *ast.FuncDecl:
				key := d.Name.Name
				if d.Recv != nil && len(d.Recv.List) == 1 {
					rt := d.Recv.List[0].Type
					if s, ok := rt.(*ast.StarExpr); ok {
						rt = s.X
					}
					if ix, ok := rt.(*ast.IndexExpr); ok {
						rt = ix.X
					}
					if id, ok := rt.(*ast.Ident); ok {
						key = id.Name + "." + key
					} else {
						continue
					}
				}
				if _, dup := p.funcs[key]; !dup { // build-tagged duplicates: keep the first
					p.funcs[key] = &afunc{p, f, d}
				}
			case *ast.GenDecl:
				switch d.Tok {
				case token.TYPE:
					for _, s := range d.Specs {
						ts := s.(*ast.TypeSpec)
						p.types[ts.Name.Name] = &atypedecl{p, f, ts}
					}
				case token.CONST:
					var lastT ast.Expr
					var lastV []ast.Expr
					for i, s := range d.Specs {
						vs := s.(*ast.ValueSpec)
						if len(vs.Values) > 0 {
							lastT, lastV = vs.Type, vs.Values
						}
						for j, nm := range vs.Names {
							if nm.Name == "_" || j >= len(lastV) {
								continue
							}
							if _, dup := p.consts[nm.Name]; dup {
								continue
							}
							p.consts[nm.Name] = &aconst{name: nm.Name, pkg: p, file: f,
								typ: lastT, val: lastV[j], iota: i, pos: nm.Pos()}
						}
					}
				}
			}
		}
	}
	return p, nil
}

// importPath returns the import path bound to local name nm in file f.
func importPath(f *ast.File, nm string) (string, bool) {
	for _, im := range f.Imports {
		path := strings.Trim(im.Path.Value, `"`)
		local := ""
		if im.Name != nil {
			local = im.Name.Name
		} else {
			parts := strings.Split(path, "/")
			local = parts[len(parts)-1]
			if len(parts) > 1 && len(local) >= 2 && local[0] == 'v' &&
				strings.Trim(local[1:], "0123456789") == "" {
				local = parts[len(parts)-2]
			}
		}
		if local == nm {
			return path, true
		}
	}
	return "", false
}

func stripVersion(path string) string {
	parts := strings.Split(path, "/")
	l := parts[len(parts)-1]
	if len(parts) > 1 && len(l) >= 2 && l[0] == 'v' && strings.Trim(l[1:], "0123456789") == "" {
		return strings.Join(parts[:len(parts)-1], "/")
	}
	return path
}

func (g *agen) lndPkg(path string) (*apkg, bool, error) {
	path = stripVersion(path)
	if !strings.HasPrefix(path, lndMod) {
		return nil, false, nil
	}
	p, err := g.load(strings.TrimPrefix(path, lndMod))
	return p, true, err
}

func builtinType(name string) *gtype {
	if sb, ok := builtinInts[name]; ok {
		return &gtype{kind: kInt, signed: sb[0] == 1, bits: sb[1], desc: name}
	}
	switch name {
	case "bool":
		return tBool
	case "error":
		return tError
	}
	return nil
}

// resolveType resolves a type expression written in file f of package p.
func (g *agen) resolveType(p *apkg, f *ast.File, e ast.Expr) (*gtype, error) {
	switch e := e.(type) {
	case *ast.ParenExpr:
		return g.resolveType(p, f, e.X)
	case *ast.Ident:
		if td, ok := p.types[e.Name]; ok {
			return g.resolveNamed(td)
		}
		if t := builtinType(e.Name); t != nil {
			return t, nil
		}
		return &gtype{kind: kOther, desc: e.Name}, nil
	case *ast.StarExpr:
		t, err := g.resolveType(p, f, e.X)
		if err != nil {
			return nil, err
		}
		if t.kind == kStruct {
			return t, nil
		}
		return &gtype{kind: kOther, desc: "*" + t.String()}, nil
	case *ast.StructType:
		return &gtype{kind: kStruct, st: e, stPkg: p, stFile: f, desc: "struct"}, nil
	case *ast.IndexExpr:
		if s, ok := e.X.(*ast.SelectorExpr); ok {
			if x, ok := s.X.(*ast.Ident); ok && x.Name == "fn" && s.Sel.Name == "Option" {
				el, err := g.resolveType(p, f, e.Index)
				if err != nil {
					return nil, err
				}
				if el.kind != kInt {
					return &gtype{kind: kOther, desc: g.src(e)}, nil
				}
				return &gtype{kind: kOption, elem: el, desc: "fn.Option[" + el.String() + "]"}, nil
			}
		}
		return &gtype{kind: kOther, desc: g.src(e)}, nil
	case *ast.SelectorExpr:
		x, ok := e.X.(*ast.Ident)
		if !ok {
			return &gtype{kind: kOther, desc: g.src(e)}, nil
		}
		path, ok := importPath(f, x.Name)
		if !ok {
			return &gtype{kind: kOther, desc: g.src(e)}, nil
		}
		path = stripVersion(path)
		if opaqueTypes[path+"."+e.Sel.Name] {
			return &gtype{kind: kOpaque, desc: x.Name + "." + e.Sel.Name}, nil
		}
		if b, ok := extTypes[path+"."+e.Sel.Name]; ok {
			t := *builtinType(b)
			t.desc = x.Name + "." + e.Sel.Name + "=" + b
			return &t, nil
		}
		q, isLnd, err := g.lndPkg(path)
		if err != nil {
			return nil, err
		}
		if isLnd {
			if td, ok := q.types[e.Sel.Name]; ok {
				return g.resolveNamed(td)
			}
		}
		return &gtype{kind: kOther, desc: g.src(e)}, nil
	}
	return &gtype{kind: kOther, desc: g.src(e)}, nil
}

func (g *agen) resolveNamed(td *atypedecl) (*gtype, error) {
	if td.spec.TypeParams != nil {
		return &gtype{kind: kOther, desc: td.spec.Name.Name}, nil
	}
	full := lndMod + td.pkg.dir + "." + td.spec.Name.Name
	if opaqueTypes[full] {
		return &gtype{kind: kOpaque, desc: td.pkg.name + "." + td.spec.Name.Name}, nil
	}
	u, err := g.resolveType(td.pkg, td.file, td.spec.Type)
	if err != nil {
		return nil, err
	}
	t := *u
	t.pkg, t.tname = td.pkg, td.spec.Name.Name
	t.desc = td.pkg.name + "." + td.spec.Name.Name + "=" + u.base()
	g.types[td.pkg.name+"."+td.spec.Name.Name] = u.base()
	return &t, nil
}

// ---------------------------------------------------------------- driver

type arithResult struct {
	arith, consts string
	err           error
}

var (
	arithOnce sync.Once
	arithRes  arithResult
)

func runArith(repo string) arithResult {
	arithOnce.Do(func() { arithRes = analyzeArith(repo) })
	return arithRes
}

func genArith(repo string) (string, string, error) {
	r := runArith(repo)
	return "GenArith.v", r.arith, r.err
}

func genConsts(repo string) (string, string, error) {
	r := runArith(repo)
	return "GenConsts.v", r.consts, r.err
}

func coqType(t *gtype) string {
	switch t.kind {
	case kBool, kError:
		return "bool"
	case kOption:
		return "option Z"
	}
	return "Z"
}

// cmt makes arbitrary text safe inside a Coq comment.
func cmt(s string) string {
	s = strings.ReplaceAll(s, "(*", "( *")
	s = strings.ReplaceAll(s, "*)", "* )")
	return strings.ReplaceAll(s, `"`, "'")
}

func aCoqString(s string) string { return `"` + strings.ReplaceAll(s, `"`, `""`) + `"%string` }

// structFieldOrder: the used fields of a struct parameter in declaration order.
func structFieldOrder(p *aparam) []string {
	var out []string
	for _, f := range p.t.st.Fields.List {
		for _, nm := range f.Names {
			if _, ok := p.used[nm.Name]; ok {
				out = append(out, nm.Name)
			}
		}
	}
	return out
}

func (g *agen) emitFunc(tf *tfunc) string {
	var b strings.Builder
	d := tf.af.decl
	var sig, dom, doc []string
	for _, p := range tf.params {
		switch p.t.kind {
		case kInt:
			sig = append(sig, fmt.Sprintf("(%s : Z)", p.coq))
			dom = append(dom, p.t.inRange()+" "+p.coq)
			doc = append(doc, fmt.Sprintf("%s : %s", p.coq, p.t))
		case kBool:
			sig = append(sig, fmt.Sprintf("(%s : bool)", p.coq))
			doc = append(doc, fmt.Sprintf("%s : bool", p.coq))
		case kOption:
			sig = append(sig, fmt.Sprintf("(%s : option Z)", p.coq))
			dom = append(dom, "in_opt "+p.t.elem.inRange()+" "+p.coq)
			doc = append(doc, fmt.Sprintf("%s : %s", p.coq, p.t))
		case kStruct:
			for _, f := range structFieldOrder(p) {
				ft := p.used[f]
				n := p.coq + "_" + f
				sig = append(sig, fmt.Sprintf("(%s : %s)", n, coqType(ft)))
				if ft.kind == kInt {
					dom = append(dom, ft.inRange()+" "+n)
				}
				doc = append(doc, fmt.Sprintf("%s : field %s.%s %s", n, p.goName, f, ft))
			}
		case kOpaque:
			for _, m := range sortedKeys(p.used) {
				n := p.coq + "_" + m
				sig = append(sig, fmt.Sprintf("(%s : bool)", n))
				doc = append(doc, fmt.Sprintf("%s : %s.%s() of the opaque %s", n, p.goName, m, p.t))
			}
		default:
			doc = append(doc, fmt.Sprintf("%s : %s dropped (never read)", p.goName, p.t))
		}
	}
	var rts []string
	for _, r := range tf.results {
		rts = append(rts, coqType(r))
	}
	fmt.Fprintf(&b, "(* %s  func %s\n", g.at(d), d.Name.Name)
	for _, l := range doc {
		fmt.Fprintf(&b, "     %s\n", cmt(l))
	}
	var rdoc []string
	for _, r := range tf.results {
		if r.kind == kError {
			rdoc = append(rdoc, "error (true = non-nil)")
		} else {
			rdoc = append(rdoc, r.String())
		}
	}
	fmt.Fprintf(&b, "     result: %s\n", cmt(strings.Join(rdoc, ", ")))
	if len(tf.dropped) > 0 {
		fmt.Fprintf(&b, "     logging statements dropped at %s\n", strings.Join(tf.dropped, ", "))
	}
	b.WriteString("*)\n")
	for _, a := range tf.aux {
		b.WriteString(a)
	}
	sp := ""
	if len(sig) > 0 {
		sp = " " + strings.Join(sig, " ")
	}
	fmt.Fprintf(&b, "Definition %s%s : %s :=\n%s.\n", tf.coq, sp, strings.Join(rts, " * "), ind(tf.body))
	if len(dom) == 0 {
		dom = []string{"True"}
	}
	fmt.Fprintf(&b, "Definition %s_dom%s : Prop :=\n  %s.\n\n", tf.coq, sp, strings.Join(dom, " /\\ "))
	return b.String()
}

func analyzeArith(repo string) arithResult {
	g := &agen{repo: repo, fset: token.NewFileSet(), pkgs: map[string]*apkg{},
		funcs: map[string]*tfunc{}, used: map[string]*aconst{}, types: map[string]string{}}
	var hard []string
	var status []string
	for _, t := range arithTargets {
		key := t.name
		if t.recv != "" {
			key = t.recv + "." + t.name
		}
		label := t.dir + "." + key
		p, err := g.load(t.dir)
		var af *afunc
		if err == nil {
			var ok bool
			if af, ok = p.funcs[key]; !ok {
				err = fmt.Errorf("function %s not found in %s", key, t.dir)
			}
		}
		if err == nil {
			_, err = g.translate(af)
		}
		if err != nil {
			g.unsup = append(g.unsup, [2]string{label, err.Error()})
			status = append(status, fmt.Sprintf("%-50s UNSUPPORTED %v", label, err))
			// Soft failure also for the `required` targets: the target is left out of
			// GenArith.v, its bridge lemma then fails to compile and only the checks
			// that depend on it report proof_broken (a hard failure here would break
			// tie T1 of every property at once).
			fmt.Fprintf(os.Stderr, "translate: arith: target %s UNSUPPORTED: %v\n", label, err)
			continue
		}
		status = append(status, fmt.Sprintf("%-50s ok -> %s", label, funcCoqName(af)))
	}
	// constants: the targets plus every constant a translated function reads
	type cent struct {
		c   *aconst
		why string
	}
	consts := map[string]cent{}
	var missing []string
	for _, t := range constTargets {
		p, err := g.load(t.dir)
		if err != nil {
			missing = append(missing, fmt.Sprintf("%s.%s: %v", t.dir, t.name, err))
			continue
		}
		c, ok := p.consts[t.name]
		if !ok {
			missing = append(missing, fmt.Sprintf("%s.%s: no such constant", t.dir, t.name))
			continue
		}
		consts[constCoqName(c)] = cent{c, "target"}
	}
	for n, c := range g.used {
		if _, ok := consts[n]; !ok {
			consts[n] = cent{c, "read by a translated function"}
		}
	}
	var cnames []string
	for n := range consts {
		cnames = append(cnames, n)
	}
	sort.Strings(cnames)
	var cb strings.Builder
	cb.WriteString("(* GENERATED by /verif/translate (gen_arith.go, generator `consts`) from the lnd tree - DO NOT EDIT.\n" +
		"   Package-level Go constants evaluated exactly (Go constant arithmetic, iota,\n" +
		"   typed conversions); external constants come from the table extConsts. *)\n" +
		"From Coq Require Import ZArith.\nLocal Open Scope Z_scope.\n\n")
	for _, n := range cnames {
		ce := consts[n]
		cv, err := g.constOf(ce.c)
		if err == nil && cv.b != nil {
			err = g.bad(ce.c.val, "boolean constant")
		}
		var iv *big.Int
		if err == nil {
			var ok bool
			if iv, ok = ratInt(cv.v); !ok {
				err = g.bad(ce.c.val, "constant %s = %s is not an integer", n, cv.v.RatString())
			}
		}
		if err != nil {
			missing = append(missing, fmt.Sprintf("%s: %v", n, err))
			continue
		}
		ty := "untyped"
		if cv.t != nil {
			ty = cv.t.String()
		}
		fmt.Fprintf(&cb, "(* %s  %s (%s; %s) = %s *)\nDefinition %s : Z := %s.\n\n",
			g.at(ce.c.val), ce.c.name, cmt(ty), ce.why, cmt(aFirstLine(g.src(ce.c.val))), n, zlit(iv))
	}
	for _, m := range missing {
		fmt.Fprintf(os.Stderr, "translate: consts: constant UNSUPPORTED: %s\n", m)
		fmt.Fprintf(&cb, "(* NOT GENERATED: %s *)\n", cmt(m))
	}
	var ab strings.Builder
	ab.WriteString("(* GENERATED by /verif/translate (gen_arith.go, generator `arith`) from the lnd tree - DO NOT EDIT.\n" +
		"   Go integer functions over Z with explicit fixed-width wraps (Common/GoInt.v).\n" +
		"   <f>_dom states the ranges of the parameter types.\n\n   targets:\n")
	for _, s := range status {
		ab.WriteString("     " + cmt(s) + "\n")
	}
	ab.WriteString("\n   named types resolved from the tree (expected by the generator's table):\n")
	var tn []string
	for n := range g.types {
		tn = append(tn, n)
	}
	sort.Strings(tn)
	for _, n := range tn {
		exp := expectTypes[n]
		if exp == "" {
			exp = "-"
		}
		fmt.Fprintf(&ab, "     %-28s %-8s (expected %s)\n", n, g.types[n], exp)
	}
	ab.WriteString("   external types (trusted table): btcutil.Amount = int64; int/uint are 64 bit\n*)\n")
	ab.WriteString("From Coq Require Import ZArith Bool List String.\n" +
		"From LV Require Import Common.GoInt Gen.GenConsts.\nImport ListNotations.\n" +
		"Local Open Scope Z_scope.\nLocal Open Scope bool_scope.\n\n")
	for _, tf := range g.order {
		ab.WriteString(g.emitFunc(tf))
	}
	ab.WriteString("Definition type_table : list (string * string) := [\n")
	for i, n := range tn {
		sep := ";"
		if i == len(tn)-1 {
			sep = ""
		}
		fmt.Fprintf(&ab, "  (%s, %s)%s\n", aCoqString(n), aCoqString(g.types[n]), sep)
	}
	ab.WriteString("].\n\n(* targets outside the fragment, with the reason *)\n" +
		"Definition unsupported_arith : list (string * string) := [\n")
	for i, u := range g.unsup {
		sep := ";"
		if i == len(g.unsup)-1 {
			sep = ""
		}
		fmt.Fprintf(&ab, "  (%s, %s)%s\n", aCoqString(u[0]), aCoqString(u[1]), sep)
	}
	ab.WriteString("].\n")
	res := arithResult{arith: ab.String(), consts: cb.String()}
	if len(hard) > 0 {
		res.err = fmt.Errorf("%s", strings.Join(hard, "; "))
	}
	return res
}
