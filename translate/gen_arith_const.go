package main

// gen_arith_const: exact evaluation of Go constant expressions (part of the
// arith/consts generators, see gen_arith.go).

import (
	"go/ast"
	"go/token"
	"math/big"
	"strings"
)

func ratInt(r *big.Rat) (*big.Int, bool) {
	if !r.IsInt() {
		return nil, false
	}
	return new(big.Int).Set(r.Num()), true
}

func zlit(v *big.Int) string {
	if v.Sign() < 0 {
		return "(" + v.String() + ")"
	}
	return v.String()
}

func constCoqName(c *aconst) string { return c.pkg.name + "_" + c.name }

// constOf evaluates the package-level constant c (memoised).
func (g *agen) constOf(c *aconst) (*cval, error) {
	switch c.state {
	case 2:
		return c.cv, c.err
	case 1:
		return nil, g.bad(c.val, "constant %s is defined in terms of itself", c.name)
	}
	c.state = 1
	cv, err := g.evalConst(c.pkg, c.file, c.val, c.iota)
	if err == nil && c.typ != nil {
		var t *gtype
		t, err = g.resolveType(c.pkg, c.file, c.typ)
		if err == nil {
			cv, err = g.convConst(c.val, cv, t)
		}
	}
	c.state, c.cv, c.err = 2, cv, err
	return cv, err
}

// convConst converts a constant to type t (Go rejects an overflow at compile time).
func (g *agen) convConst(n ast.Node, cv *cval, t *gtype) (*cval, error) {
	if t.kind == kBool && cv.b != nil {
		return cv, nil
	}
	if t.kind != kInt || cv.b != nil {
		return nil, g.bad(n, "constant of unsupported type %s", t)
	}
	iv, ok := ratInt(cv.v)
	if !ok {
		return nil, g.bad(n, "constant %s is not an integer", cv.v.RatString())
	}
	if !t.contains(iv) {
		return nil, g.bad(n, "constant %s overflows %s", iv, t)
	}
	return &cval{v: new(big.Rat).SetInt(iv), t: t}, nil
}

// lookupConst finds the constant an identifier or pkg.Name selector refers to.
// Returns (declared lnd constant | external value | nil).
func (g *agen) lookupConst(p *apkg, f *ast.File, e ast.Expr) (*aconst, *cval, error) {
	switch e := e.(type) {
	case *ast.Ident:
		if c, ok := p.consts[e.Name]; ok {
			return c, nil, nil
		}
	case *ast.SelectorExpr:
		x, ok := e.X.(*ast.Ident)
		if !ok {
			return nil, nil, nil
		}
		path, ok := importPath(f, x.Name)
		if !ok {
			return nil, nil, nil
		}
		path = stripVersion(path)
		if s, ok := extConsts[path+"."+e.Sel.Name]; ok {
			r, _ := new(big.Rat).SetString(s)
			return nil, &cval{v: r}, nil
		}
		q, isLnd, err := g.lndPkg(path)
		if err != nil {
			return nil, nil, err
		}
		if isLnd {
			if c, ok := q.consts[e.Sel.Name]; ok {
				return c, nil, nil
			}
		}
	}
	return nil, nil, nil
}

func (g *agen) evalConst(p *apkg, f *ast.File, e ast.Expr, iota int) (*cval, error) {
	switch e := e.(type) {
	case *ast.ParenExpr:
		return g.evalConst(p, f, e.X, iota)
	case *ast.BasicLit:
		switch e.Kind {
		case token.INT:
			iv, ok := new(big.Int).SetString(strings.ReplaceAll(e.Value, "_", ""), 0)
			if !ok {
				return nil, g.bad(e, "integer literal %s", e.Value)
			}
			return &cval{v: new(big.Rat).SetInt(iv)}, nil
		case token.FLOAT:
			r, ok := new(big.Rat).SetString(strings.ReplaceAll(e.Value, "_", ""))
			if !ok {
				return nil, g.bad(e, "float literal %s", e.Value)
			}
			return &cval{v: r, float: true}, nil
		}
		return nil, g.bad(e, "unsupported literal %s in a constant expression", e.Value)
	case *ast.Ident:
		switch e.Name {
		case "iota":
			if iota < 0 {
				return nil, g.bad(e, "iota outside a constant declaration")
			}
			return &cval{v: big.NewRat(int64(iota), 1)}, nil
		case "true", "false":
			b := e.Name == "true"
			return &cval{b: &b}, nil
		}
		c, _, err := g.lookupConst(p, f, e)
		if err != nil {
			return nil, err
		}
		if c == nil {
			return nil, g.bad(e, "%s is not a constant", e.Name)
		}
		return g.constOf(c)
	case *ast.SelectorExpr:
		c, ext, err := g.lookupConst(p, f, e)
		if err != nil {
			return nil, err
		}
		if ext != nil {
			return ext, nil
		}
		if c == nil {
			return nil, g.bad(e, "%s is not a known constant (external constants are listed in extConsts)", g.src(e))
		}
		return g.constOf(c)
	case *ast.CallExpr: // conversion T(x)
		if len(e.Args) != 1 {
			return nil, g.bad(e, "call %s in a constant expression", g.src(e))
		}
		t, err := g.resolveType(p, f, e.Fun)
		if err != nil {
			return nil, err
		}
		if t.kind != kInt {
			return nil, g.bad(e, "conversion to %s in a constant expression", t)
		}
		x, err := g.evalConst(p, f, e.Args[0], iota)
		if err != nil {
			return nil, err
		}
		return g.convConst(e, x, t)
	case *ast.UnaryExpr:
		x, err := g.evalConst(p, f, e.X, iota)
		if err != nil {
			return nil, err
		}
		if x.b != nil {
			if e.Op == token.NOT {
				b := !*x.b
				return &cval{b: &b}, nil
			}
			return nil, g.bad(e, "operator %s on a boolean constant", e.Op)
		}
		switch e.Op {
		case token.ADD:
			return x, nil
		case token.SUB:
			return g.fitConst(e, &cval{v: new(big.Rat).Neg(x.v), float: x.float, t: x.t})
		case token.XOR:
			iv, ok := ratInt(x.v)
			if !ok || x.float {
				return nil, g.bad(e, "^ on a non-integer constant")
			}
			r := new(big.Int).Not(iv)
			if x.t != nil && !x.t.signed {
				r.And(r, x.t.max())
			}
			return &cval{v: new(big.Rat).SetInt(r), t: x.t}, nil
		}
		return nil, g.bad(e, "unary %s in a constant expression", e.Op)
	case *ast.BinaryExpr:
		a, err := g.evalConst(p, f, e.X, iota)
		if err != nil {
			return nil, err
		}
		b, err := g.evalConst(p, f, e.Y, iota)
		if err != nil {
			return nil, err
		}
		if a.b != nil || b.b != nil {
			return nil, g.bad(e, "boolean constant expression %s", g.src(e))
		}
		r, err := g.constBinop(e, e.Op, a, b)
		if err != nil {
			return nil, err
		}
		return g.fitConst(e, r)
	}
	return nil, g.bad(e, "unsupported constant expression %s", g.src(e))
}

func (g *agen) fitConst(n ast.Node, c *cval) (*cval, error) {
	if c.t != nil {
		iv, ok := ratInt(c.v)
		if !ok || !c.t.contains(iv) {
			return nil, g.bad(n, "constant expression overflows %s", c.t)
		}
	}
	return c, nil
}

// constBinop: exact arithmetic on two numeric constants.
func (g *agen) constBinop(n ast.Node, op token.Token, a, b *cval) (*cval, error) {
	t := a.t
	if t == nil {
		t = b.t
	}
	if a.t != nil && b.t != nil && !sameInt(a.t, b.t) && op != token.SHL && op != token.SHR {
		return nil, g.bad(n, "constant operands of different types %s and %s", a.t, b.t)
	}
	fl := (a.float || b.float) && t == nil
	res := new(big.Rat)
	switch op {
	case token.ADD:
		res.Add(a.v, b.v)
	case token.SUB:
		res.Sub(a.v, b.v)
	case token.MUL:
		res.Mul(a.v, b.v)
	case token.QUO:
		if b.v.Sign() == 0 {
			return nil, g.bad(n, "constant division by zero")
		}
		if fl {
			res.Quo(a.v, b.v)
		} else {
			ai, ok1 := ratInt(a.v)
			bi, ok2 := ratInt(b.v)
			if !ok1 || !ok2 {
				return nil, g.bad(n, "integer division of non-integer constants")
			}
			res.SetInt(new(big.Int).Quo(ai, bi))
		}
	default:
		ai, ok1 := ratInt(a.v)
		bi, ok2 := ratInt(b.v)
		if !ok1 || !ok2 || (fl && op != token.SHL && op != token.SHR) {
			return nil, g.bad(n, "operator %s on non-integer constants", op)
		}
		r := new(big.Int)
		switch op {
		case token.REM:
			if bi.Sign() == 0 {
				return nil, g.bad(n, "constant division by zero")
			}
			r.Rem(ai, bi)
		case token.AND:
			r.And(ai, bi)
		case token.OR:
			r.Or(ai, bi)
		case token.XOR:
			r.Xor(ai, bi)
		case token.AND_NOT:
			r.AndNot(ai, bi)
		case token.SHL, token.SHR:
			if bi.Sign() < 0 || bi.Cmp(big.NewInt(512)) > 0 {
				return nil, g.bad(n, "constant shift count %s", bi)
			}
			if op == token.SHL {
				r.Lsh(ai, uint(bi.Int64()))
			} else {
				r.Rsh(ai, uint(bi.Int64()))
			}
			return &cval{v: new(big.Rat).SetInt(r), t: a.t}, nil
		default:
			return nil, g.bad(n, "operator %s in a constant expression", op)
		}
		res.SetInt(r)
	}
	return &cval{v: res, float: fl, t: t}, nil
}
