package main

// gen_arith_fn: translation of function bodies (part of the arith generator,
// see gen_arith.go for the fragment).

import (
	"fmt"
	"go/ast"
	"go/token"
	"math/big"
	"sort"
	"strings"
)

// ---------------------------------------------------------------- data

type aparam struct {
	goName string
	coq    string
	t      *gtype
	used   map[string]*gtype // struct: fields read; opaque: predicates called
	read   bool
}

type tfunc struct {
	coq     string
	af      *afunc
	params  []*aparam
	results []*gtype
	body    string
	aux     []string
	dropped []string // logging statements dropped
	state   int      // 1 in progress, 2 done
	err     error
}

// persistent environment of local names
type venv struct {
	name   string
	t      *gtype
	coq    string
	par    *aparam
	parent *venv
}

func (e *venv) lookup(n string) *venv {
	for ; e != nil; e = e.parent {
		if e.name == n {
			return e
		}
	}
	return nil
}

func (e *venv) bind(n string, t *gtype, coq string, par *aparam) *venv {
	return &venv{name: n, t: t, coq: coq, par: par, parent: e}
}

type kont struct {
	fall func() (string, error)
	brk  func() (string, error)
	ret  func(rs *ast.ReturnStmt, env *venv) (string, error)
}

type fctx struct {
	g      *agen
	af     *afunc
	tf     *tfunc
	nloop  int
	loops  map[*ast.ForStmt]string
	nswtch int
}

type xres struct {
	code string
	t    *gtype // nil: untyped numeric constant (cv set)
	cv   *cval  // constant value if known
	atom bool
}

func par(x *xres) string {
	if x.atom {
		return x.code
	}
	return "(" + x.code + ")"
}

var coqReserved = map[string]bool{
	"as": true, "at": true, "cofix": true, "else": true, "end": true, "exists": true,
	"exists2": true, "fix": true, "for": true, "forall": true, "fun": true, "if": true,
	"IF": true, "in": true, "let": true, "match": true, "mod": true, "Prop": true,
	"return": true, "Set": true, "then": true, "Type": true, "using": true, "where": true,
	"with": true, "fuel": true, "true": true, "false": true, "O": true, "S": true,
	"Some": true, "None": true, "Z": true, "bool": true, "nat": true, "option": true,
	"negb": true, "andb": true, "orb": true, "pair": true, "fst": true, "snd": true,
}

func coqIdent(n string) string {
	if coqReserved[n] || strings.HasPrefix(n, "wrap_") || strings.HasPrefix(n, "in_") {
		return n + "_"
	}
	return n
}

func ind(s string) string {
	ls := strings.Split(s, "\n")
	for i, l := range ls {
		if l != "" {
			ls[i] = "  " + l
		}
	}
	return strings.Join(ls, "\n")
}

func unparen(e ast.Expr) ast.Expr {
	for {
		p, ok := e.(*ast.ParenExpr)
		if !ok {
			return e
		}
		e = p.X
	}
}

// ---------------------------------------------------------------- functions

func funcCoqName(af *afunc) string {
	n := af.pkg.name + "_"
	d := af.decl
	if d.Recv != nil && len(d.Recv.List) == 1 {
		rt := d.Recv.List[0].Type
		if s, ok := rt.(*ast.StarExpr); ok {
			rt = s.X
		}
		if id, ok := rt.(*ast.Ident); ok {
			n += id.Name + "_"
		}
	}
	return n + d.Name.Name
}

func (g *agen) translate(af *afunc) (*tfunc, error) {
	name := funcCoqName(af)
	if tf, ok := g.funcs[name]; ok {
		if tf.state == 1 {
			return nil, g.bad(af.decl, "recursive function %s", name)
		}
		return tf, tf.err
	}
	tf := &tfunc{coq: name, af: af, state: 1}
	g.funcs[name] = tf
	err := g.translateBody(tf)
	tf.state, tf.err = 2, err
	if err == nil {
		g.order = append(g.order, tf)
	}
	return tf, err
}

func (g *agen) translateBody(tf *tfunc) error {
	af := tf.af
	d := af.decl
	c := &fctx{g: g, af: af, tf: tf, loops: map[*ast.ForStmt]string{}}
	if d.Type.TypeParams != nil {
		return g.bad(d, "generic function")
	}
	if d.Body == nil {
		return g.bad(d, "function without body")
	}
	var env *venv
	addParams := func(fl *ast.FieldList) error {
		if fl == nil {
			return nil
		}
		for _, f := range fl.List {
			if _, ok := f.Type.(*ast.Ellipsis); ok {
				return g.bad(f, "variadic parameter")
			}
			t, err := g.resolveType(af.pkg, af.file, f.Type)
			if err != nil {
				return err
			}
			names := f.Names
			if len(names) == 0 {
				names = []*ast.Ident{{Name: "_"}}
			}
			for _, nm := range names {
				p := &aparam{goName: nm.Name, coq: coqIdent(nm.Name), t: t, used: map[string]*gtype{}}
				tf.params = append(tf.params, p)
				if nm.Name != "_" {
					if env.lookup(nm.Name) != nil {
						return g.bad(nm, "duplicate parameter %s", nm.Name)
					}
					env = env.bind(nm.Name, t, p.coq, p)
				}
			}
		}
		return nil
	}
	if err := addParams(d.Recv); err != nil {
		return err
	}
	if err := addParams(d.Type.Params); err != nil {
		return err
	}
	if d.Type.Results != nil {
		for _, f := range d.Type.Results.List {
			if len(f.Names) > 0 {
				return g.bad(f, "named result")
			}
			t, err := g.resolveType(af.pkg, af.file, f.Type)
			if err != nil {
				return err
			}
			if t.kind != kInt && t.kind != kBool && t.kind != kError {
				return g.bad(f, "result type %s", t)
			}
			tf.results = append(tf.results, t)
		}
	}
	if len(tf.results) == 0 {
		return g.bad(d, "function without result")
	}
	k := kont{
		fall: func() (string, error) { return "", g.bad(d, "control can reach the end of the function body") },
		ret:  func(rs *ast.ReturnStmt, e *venv) (string, error) { return c.retTuple(rs, e, tf.results) },
	}
	body, err := c.stmts(d.Body.List, env, k)
	if err != nil {
		return err
	}
	tf.body = body
	return nil
}

func (c *fctx) retTuple(rs *ast.ReturnStmt, env *venv, results []*gtype) (string, error) {
	g := c.g
	if len(rs.Results) != len(results) {
		return "", g.bad(rs, "return of %d values, %d expected", len(rs.Results), len(results))
	}
	var parts []string
	for i, e := range rs.Results {
		rt := results[i]
		if rt.kind == kError {
			if id, ok := unparen(e).(*ast.Ident); ok && id.Name == "nil" {
				parts = append(parts, "false")
				continue
			}
			x, err := c.expr(env, e, rt)
			if err != nil {
				return "", err
			}
			if x.t == nil || x.t.kind != kError {
				return "", g.bad(e, "error result %s is not nil / fmt.Errorf / errors.New", g.src(e))
			}
			parts = append(parts, x.code)
			continue
		}
		x, err := c.exprAs(env, e, rt)
		if err != nil {
			return "", err
		}
		parts = append(parts, x.code)
	}
	if len(parts) == 1 {
		return parts[0], nil
	}
	return "(" + strings.Join(parts, ", ") + ")", nil
}

// exprAs translates e and checks/converts it to the expected type want.
func (c *fctx) exprAs(env *venv, e ast.Expr, want *gtype) (*xres, error) {
	x, err := c.expr(env, e, want)
	if err != nil {
		return nil, err
	}
	return c.coerce(e, x, want)
}

func (c *fctx) coerce(n ast.Node, x *xres, want *gtype) (*xres, error) {
	g := c.g
	if x.t == nil {
		if want.kind != kInt {
			return nil, g.bad(n, "numeric constant where %s is expected", want)
		}
		iv, ok := ratInt(x.cv.v)
		if !ok {
			return nil, g.bad(n, "constant %s is not an integer", x.cv.v.RatString())
		}
		if !want.contains(iv) {
			return nil, g.bad(n, "constant %s overflows %s", iv, want)
		}
		return &xres{code: x.code, t: want, cv: &cval{v: x.cv.v, t: want}, atom: x.atom}, nil
	}
	switch want.kind {
	case kInt:
		if !sameInt(x.t, want) {
			return nil, g.bad(n, "value of type %s where %s is expected", x.t, want)
		}
	case kBool:
		if x.t.kind != kBool {
			return nil, g.bad(n, "value of type %s where bool is expected", x.t)
		}
	case kOption:
		if x.t.kind != kOption || !sameInt(x.t.elem, want.elem) {
			return nil, g.bad(n, "value of type %s where %s is expected", x.t, want)
		}
	default:
		return nil, g.bad(n, "cannot pass a value as %s", want)
	}
	return x, nil
}

// ---------------------------------------------------------------- statements

func isLogCall(env *venv, s ast.Stmt) bool {
	es, ok := s.(*ast.ExprStmt)
	if !ok {
		return false
	}
	call, ok := es.X.(*ast.CallExpr)
	if !ok {
		return false
	}
	sel, ok := call.Fun.(*ast.SelectorExpr)
	if !ok {
		return false
	}
	x, ok := sel.X.(*ast.Ident)
	if !ok || env.lookup(x.Name) != nil {
		return false
	}
	if x.Name != "log" && !strings.HasSuffix(x.Name, "Log") && !strings.HasSuffix(x.Name, "log") {
		return false
	}
	switch sel.Sel.Name {
	case "Tracef", "Debugf", "Infof", "Warnf", "Errorf", "Criticalf",
		"Trace", "Debug", "Info", "Warn", "Error", "Critical":
		return true
	}
	return false
}

// escapes: does the statement contain a return or a branch statement
// (outside function literals)?
func escapes(n ast.Node) bool {
	found := false
	ast.Inspect(n, func(m ast.Node) bool {
		switch m.(type) {
		case *ast.FuncLit:
			return false
		case *ast.ReturnStmt, *ast.BranchStmt:
			found = true
		}
		return !found
	})
	return found
}

// assigned: names assigned (not declared) inside n that are bound in env,
// in order of first assignment.
func assigned(n ast.Node, env *venv) []string {
	var out []string
	seen := map[string]bool{}
	add := func(e ast.Expr) {
		if id, ok := unparen(e).(*ast.Ident); ok && env.lookup(id.Name) != nil && !seen[id.Name] {
			seen[id.Name] = true
			out = append(out, id.Name)
		}
	}
	ast.Inspect(n, func(m ast.Node) bool {
		switch m := m.(type) {
		case *ast.FuncLit:
			return false
		case *ast.AssignStmt:
			if m.Tok != token.DEFINE {
				for _, l := range m.Lhs {
					add(l)
				}
			}
		case *ast.IncDecStmt:
			add(m.X)
		}
		return true
	})
	return out
}

func (c *fctx) tuple(env *venv, names []string) (val string, pat string) {
	var cs []string
	for _, n := range names {
		cs = append(cs, env.lookup(n).coq)
	}
	if len(cs) == 1 {
		return cs[0], cs[0]
	}
	return "(" + strings.Join(cs, ", ") + ")", "'(" + strings.Join(cs, ", ") + ")"
}

func (c *fctx) declare(env *venv, id *ast.Ident, t *gtype) (*venv, string, error) {
	if id.Name == "_" {
		return nil, "", c.g.bad(id, "blank identifier")
	}
	if env.lookup(id.Name) != nil {
		return nil, "", c.g.bad(id, "declaration of %s shadows an outer variable (unsupported)", id.Name)
	}
	if _, ok := c.af.pkg.consts[id.Name]; ok {
		return nil, "", c.g.bad(id, "local %s shadows a package constant (unsupported)", id.Name)
	}
	cn := coqIdent(id.Name)
	return env.bind(id.Name, t, cn, nil), cn, nil
}

func (c *fctx) assignTo(env *venv, lhs ast.Expr) (*venv, error) {
	id, ok := unparen(lhs).(*ast.Ident)
	if !ok {
		return nil, c.g.bad(lhs, "assignment to %s (only plain variables)", c.g.src(lhs))
	}
	v := env.lookup(id.Name)
	if v == nil {
		return nil, c.g.bad(lhs, "assignment to unknown variable %s", id.Name)
	}
	if v.t.kind != kInt && v.t.kind != kBool {
		return nil, c.g.bad(lhs, "assignment to %s of type %s", id.Name, v.t)
	}
	if v.par != nil {
		v.par.read = true
	}
	return v, nil
}

var assignOps = map[token.Token]token.Token{
	token.ADD_ASSIGN: token.ADD, token.SUB_ASSIGN: token.SUB, token.MUL_ASSIGN: token.MUL,
	token.QUO_ASSIGN: token.QUO, token.REM_ASSIGN: token.REM, token.AND_ASSIGN: token.AND,
	token.OR_ASSIGN: token.OR, token.XOR_ASSIGN: token.XOR, token.SHL_ASSIGN: token.SHL,
	token.SHR_ASSIGN: token.SHR, token.AND_NOT_ASSIGN: token.AND_NOT,
}

func (c *fctx) stmts(list []ast.Stmt, env *venv, k kont) (string, error) {
	g := c.g
	if len(list) == 0 {
		return k.fall()
	}
	s, rest := list[0], list[1:]
	let := func(name, val string, env2 *venv) (string, error) {
		r, err := c.stmts(rest, env2, k)
		if err != nil {
			return "", err
		}
		if r == name {
			return val, nil
		}
		return "let " + name + " := " + val + " in\n" + r, nil
	}
	if isLogCall(env, s) {
		c.tf.dropped = append(c.tf.dropped, g.at(s))
		return c.stmts(rest, env, k)
	}
	switch s := s.(type) {
	case *ast.EmptyStmt:
		return c.stmts(rest, env, k)
	case *ast.BlockStmt:
		k2 := k
		k2.fall = func() (string, error) { return c.stmts(rest, env, k) }
		return c.stmts(s.List, env, k2)
	case *ast.ReturnStmt:
		return k.ret(s, env)
	case *ast.BranchStmt:
		if s.Tok == token.BREAK && s.Label == nil && k.brk != nil {
			return k.brk()
		}
		return "", g.bad(s, "%s statement here", s.Tok)
	case *ast.DeclStmt:
		gd, ok := s.Decl.(*ast.GenDecl)
		if !ok || gd.Tok != token.VAR {
			return "", g.bad(s, "local %s declaration", gd.Tok)
		}
		// flatten into single-name declarations, translated in order
		type one struct {
			id  *ast.Ident
			typ ast.Expr
			val ast.Expr
		}
		var ds []one
		for _, sp := range gd.Specs {
			vs := sp.(*ast.ValueSpec)
			if len(vs.Values) != 0 && len(vs.Values) != len(vs.Names) {
				return "", g.bad(vs, "multi-value var declaration")
			}
			for i, nm := range vs.Names {
				o := one{id: nm, typ: vs.Type}
				if len(vs.Values) > 0 {
					o.val = vs.Values[i]
				}
				ds = append(ds, o)
			}
		}
		var pre strings.Builder
		for _, o := range ds {
			var t *gtype
			var err error
			if o.typ != nil {
				t, err = g.resolveType(c.af.pkg, c.af.file, o.typ)
				if err != nil {
					return "", err
				}
				if t.kind != kInt && t.kind != kBool {
					return "", g.bad(o.typ, "local variable of type %s", t)
				}
			}
			val := ""
			if o.val == nil {
				val = "0"
				if t.kind == kBool {
					val = "false"
				}
			} else {
				x, err := c.expr(env, o.val, t)
				if err != nil {
					return "", err
				}
				if t == nil {
					t = x.t
					if t == nil {
						t = tInt
					}
				}
				if x, err = c.coerce(o.val, x, t); err != nil {
					return "", err
				}
				val = x.code
			}
			var cn string
			env, cn, err = c.declare(env, o.id, t)
			if err != nil {
				return "", err
			}
			pre.WriteString("let " + cn + " := " + val + " in\n")
		}
		r, err := c.stmts(rest, env, k)
		if err != nil {
			return "", err
		}
		return pre.String() + r, nil
	case *ast.AssignStmt:
		if len(s.Lhs) != 1 || len(s.Rhs) != 1 {
			return "", g.bad(s, "multiple assignment")
		}
		if s.Tok == token.DEFINE {
			id, ok := s.Lhs[0].(*ast.Ident)
			if !ok {
				return "", g.bad(s, "unsupported := target")
			}
			x, err := c.expr(env, s.Rhs[0], nil)
			if err != nil {
				return "", err
			}
			t := x.t
			if t == nil {
				t = tInt
			}
			if t.kind != kInt && t.kind != kBool {
				return "", g.bad(s, "local variable of type %s", t)
			}
			if x, err = c.coerce(s.Rhs[0], x, t); err != nil {
				return "", err
			}
			env2, cn, err := c.declare(env, id, t)
			if err != nil {
				return "", err
			}
			return let(cn, x.code, env2)
		}
		v, err := c.assignTo(env, s.Lhs[0])
		if err != nil {
			return "", err
		}
		var x *xres
		if s.Tok == token.ASSIGN {
			x, err = c.exprAs(env, s.Rhs[0], v.t)
		} else {
			op, ok := assignOps[s.Tok]
			if !ok {
				return "", g.bad(s, "assignment operator %s", s.Tok)
			}
			x, err = c.binary(env, &ast.BinaryExpr{X: s.Lhs[0], OpPos: s.TokPos, Op: op, Y: s.Rhs[0]}, v.t)
			if err == nil {
				x, err = c.coerce(s, x, v.t)
			}
		}
		if err != nil {
			return "", err
		}
		return let(v.coq, x.code, env)
	case *ast.IncDecStmt:
		v, err := c.assignTo(env, s.X)
		if err != nil {
			return "", err
		}
		op := token.ADD
		if s.Tok == token.DEC {
			op = token.SUB
		}
		x, err := c.binary(env, &ast.BinaryExpr{X: s.X, OpPos: s.TokPos, Op: op,
			Y: &ast.BasicLit{ValuePos: s.TokPos, Kind: token.INT, Value: "1"}}, v.t)
		if err != nil {
			return "", err
		}
		return let(v.coq, x.code, env)
	case *ast.IfStmt:
		if s.Init != nil {
			s2 := *s
			s2.Init = nil
			k2 := k
			k2.fall = func() (string, error) { return c.stmts(rest, env, k) }
			return c.stmts([]ast.Stmt{s.Init, &s2}, env, k2)
		}
		cond, err := c.exprAs(env, s.Cond, tBool)
		if err != nil {
			return "", err
		}
		branch := func(b ast.Stmt, k2 kont) (string, error) {
			if b == nil {
				return k2.fall()
			}
			if bl, ok := b.(*ast.BlockStmt); ok {
				return c.stmts(bl.List, env, k2)
			}
			return c.stmts([]ast.Stmt{b}, env, k2)
		}
		if !escapes(s) {
			as := assigned(s, env)
			if len(as) == 0 {
				// nothing observable happens in the branches (logging only)
				if _, err := branch(s.Body, kont{fall: func() (string, error) { return "tt", nil }, ret: k.ret}); err != nil {
					return "", err
				}
				return c.stmts(rest, env, k)
			}
			val, pat := c.tuple(env, as)
			kj := kont{fall: func() (string, error) { return val, nil }, ret: k.ret}
			th, err := branch(s.Body, kj)
			if err != nil {
				return "", err
			}
			el, err := branch(s.Else, kj)
			if err != nil {
				return "", err
			}
			r, err := c.stmts(rest, env, k)
			if err != nil {
				return "", err
			}
			return "let " + pat + " :=\n" + ind("if "+cond.code+" then\n"+ind(th)+"\nelse\n"+ind(el)) +
				"\nin\n" + r, nil
		}
		k2 := k
		k2.fall = func() (string, error) { return c.stmts(rest, env, k) }
		th, err := branch(s.Body, k2)
		if err != nil {
			return "", err
		}
		el, err := branch(s.Else, k2)
		if err != nil {
			return "", err
		}
		if len(th)+len(el) > 200000 {
			return "", g.bad(s, "translation too large (continuation duplicated too often)")
		}
		return "if " + cond.code + " then\n" + ind(th) + "\nelse\n" + ind(el), nil
	case *ast.SwitchStmt:
		ifs, err := c.desugarSwitch(env, s)
		if err != nil {
			return "", err
		}
		return c.stmts(append(ifs, rest...), env, k)
	case *ast.ForStmt:
		return c.forStmt(s, rest, env, k)
	}
	return "", g.bad(s, "unsupported statement %T: %s", s, aFirstLine(g.src(s)))
}

func aFirstLine(s string) string {
	if len(s) > 80 {
		return s[:80] + "..."
	}
	return s
}

// desugarSwitch rewrites a switch into an if / else-if chain.
func (c *fctx) desugarSwitch(env *venv, s *ast.SwitchStmt) ([]ast.Stmt, error) {
	g := c.g
	var pre []ast.Stmt
	if s.Init != nil {
		return nil, g.bad(s, "switch with init statement")
	}
	var tag ast.Expr
	if s.Tag != nil {
		id, ok := unparen(s.Tag).(*ast.Ident)
		if !ok || env.lookup(id.Name) == nil {
			return nil, g.bad(s.Tag, "switch tag %s is not a local variable", g.src(s.Tag))
		}
		tag = id
	}
	var def *ast.CaseClause
	var clauses []*ast.CaseClause
	for _, st := range s.Body.List {
		cc := st.(*ast.CaseClause)
		for _, b := range cc.Body {
			bad := false
			ast.Inspect(b, func(m ast.Node) bool {
				switch m := m.(type) {
				case *ast.FuncLit, *ast.ForStmt:
					return false
				case *ast.BranchStmt:
					_ = m
					bad = true
				}
				return true
			})
			if bad {
				return nil, g.bad(b, "break/fallthrough/continue/goto inside a switch case")
			}
		}
		if cc.List == nil {
			def = cc
		} else {
			clauses = append(clauses, cc)
		}
	}
	var chain ast.Stmt
	if def != nil {
		chain = &ast.BlockStmt{Lbrace: def.Pos(), List: def.Body}
	}
	for i := len(clauses) - 1; i >= 0; i-- {
		cc := clauses[i]
		var cond ast.Expr
		for _, e := range cc.List {
			var one ast.Expr = e
			if tag != nil {
				one = &ast.BinaryExpr{X: tag, OpPos: e.Pos(), Op: token.EQL, Y: e}
			}
			if cond == nil {
				cond = one
			} else {
				cond = &ast.BinaryExpr{X: cond, OpPos: e.Pos(), Op: token.LOR, Y: one}
			}
		}
		chain = &ast.IfStmt{If: cc.Pos(), Cond: cond,
			Body: &ast.BlockStmt{Lbrace: cc.Pos(), List: cc.Body}, Else: chain}
	}
	if chain == nil {
		return pre, nil
	}
	return append(pre, chain), nil
}

// forStmt: `for [init]; v < C; v++ { body }` with constant C -> fuelled Fixpoint.
func (c *fctx) forStmt(s *ast.ForStmt, rest []ast.Stmt, env *venv, k kont) (string, error) {
	g := c.g
	if s.Init != nil {
		s2 := *s
		s2.Init = nil
		k2 := k
		k2.fall = func() (string, error) { return c.stmts(rest, env, k) }
		return c.stmts([]ast.Stmt{s.Init, &s2}, env, k2)
	}
	if s.Cond == nil || s.Post == nil {
		return "", g.bad(s, "for loop without condition or post statement")
	}
	be, ok := unparen(s.Cond).(*ast.BinaryExpr)
	if !ok || (be.Op != token.LSS && be.Op != token.LEQ) {
		return "", g.bad(s.Cond, "loop condition %s is not `v < C` / `v <= C`", g.src(s.Cond))
	}
	vid, ok := unparen(be.X).(*ast.Ident)
	if !ok || env.lookup(vid.Name) == nil {
		return "", g.bad(s.Cond, "loop condition %s: left side is not a local variable", g.src(s.Cond))
	}
	v := env.lookup(vid.Name)
	if v.t.kind != kInt || v.t.signed {
		return "", g.bad(s.Cond, "loop counter %s must have an unsigned type (has %s)", vid.Name, v.t)
	}
	bound, err := g.evalConst(c.af.pkg, c.af.file, be.Y, -1)
	if err != nil {
		return "", g.bad(s.Cond, "loop bound %s is not a constant (%v)", g.src(be.Y), err)
	}
	bi, ok := ratInt(bound.v)
	if !ok || bi.Sign() < 0 || bi.Cmp(big.NewInt(4096)) > 0 || !v.t.contains(new(big.Int).Add(bi, big.NewInt(1))) {
		return "", g.bad(s.Cond, "loop bound %s is not a small constant", g.src(be.Y))
	}
	inc, ok := s.Post.(*ast.IncDecStmt)
	if !ok || inc.Tok != token.INC {
		return "", g.bad(s.Post, "loop post statement is not `v++`")
	}
	if pid, ok := unparen(inc.X).(*ast.Ident); !ok || pid.Name != vid.Name {
		return "", g.bad(s.Post, "loop post statement does not increment the counter %s", vid.Name)
	}
	for _, a := range assigned(s.Body, env) {
		if a == vid.Name {
			return "", g.bad(s.Body, "loop body assigns the counter %s", vid.Name)
		}
	}
	fuel := bi.Int64() + 1
	if be.Op == token.LEQ {
		fuel++
	}
	// state = variables assigned in the loop; free = other locals read
	state := assigned(s, env)
	isState := map[string]bool{}
	for _, n := range state {
		isState[n] = true
	}
	var free []string
	seen := map[string]bool{}
	var ferr error
	ast.Inspect(s, func(m ast.Node) bool {
		switch m := m.(type) {
		case *ast.FuncLit:
			ferr = g.bad(m, "function literal inside a loop")
			return false
		case *ast.ReturnStmt:
			ferr = g.bad(m, "return inside a loop")
		case *ast.SelectorExpr:
			ast.Inspect(m.X, func(q ast.Node) bool {
				if id, ok := q.(*ast.Ident); ok {
					if b := env.lookup(id.Name); b != nil && b.t.kind != kInt && b.t.kind != kBool {
						ferr = g.bad(m, "loop reads %s of type %s", id.Name, b.t)
					}
				}
				return true
			})
		case *ast.Ident:
			if b := env.lookup(m.Name); b != nil && !isState[m.Name] && !seen[m.Name] {
				if b.t.kind != kInt && b.t.kind != kBool {
					ferr = g.bad(m, "loop reads %s of type %s", m.Name, b.t)
				}
				seen[m.Name] = true
				free = append(free, m.Name)
			}
		}
		return ferr == nil
	})
	if ferr != nil {
		return "", ferr
	}
	name, done := c.loops[s]
	if !done {
		c.nloop++
		name = fmt.Sprintf("%s_loop%d", c.tf.coq, c.nloop)
		c.loops[s] = name
		val, _ := c.tuple(env, state)
		var sig, args []string
		coqT := func(t *gtype) string {
			if t.kind == kBool {
				return "bool"
			}
			return "Z"
		}
		var rts []string
		for _, n := range append(append([]string{}, free...), state...) {
			b := env.lookup(n)
			if b.par != nil {
				b.par.read = true
			}
			sig = append(sig, fmt.Sprintf("(%s : %s)", b.coq, coqT(b.t)))
			args = append(args, b.coq)
		}
		for _, n := range state {
			rts = append(rts, coqT(env.lookup(n).t))
		}
		rec := "(" + name + " fuel' " + strings.Join(args, " ") + ")"
		exit := func() (string, error) { return val, nil }
		noRet := func(rs *ast.ReturnStmt, e *venv) (string, error) { return "", g.bad(rs, "return inside a loop") }
		kPost := kont{fall: func() (string, error) { return rec, nil }, ret: noRet}
		kBody := kont{brk: exit, ret: noRet,
			fall: func() (string, error) { return c.stmts([]ast.Stmt{s.Post}, env, kPost) }}
		cond, err := c.exprAs(env, s.Cond, tBool)
		if err != nil {
			return "", err
		}
		body, err := c.stmts(s.Body.List, env, kBody)
		if err != nil {
			return "", err
		}
		fx := fmt.Sprintf("(* %s: %s ; fuel %d = bound + 1 suffices, the counter %s is unsigned and only incremented *)\n",
			g.at(s), cmt(aFirstLine("for ; "+g.src(s.Cond)+"; "+g.src(s.Post))), fuel, vid.Name)
		fx += fmt.Sprintf("Fixpoint %s (fuel : nat) %s {struct fuel} : %s :=\n", name,
			strings.Join(sig, " "), strings.Join(rts, " * "))
		fx += "  match fuel with\n  | O => " + val + "\n  | S fuel' =>\n"
		fx += ind(ind("if " + cond.code + " then\n" + ind(body) + "\nelse\n" + ind(val)))
		fx += "\n  end.\n"
		c.tf.aux = append(c.tf.aux, fx)
	}
	val, pat := c.tuple(env, state)
	_ = val
	var args []string
	for _, n := range append(append([]string{}, free...), state...) {
		args = append(args, env.lookup(n).coq)
	}
	r, err := c.stmts(rest, env, k)
	if err != nil {
		return "", err
	}
	return fmt.Sprintf("let %s := %s %d%%nat %s in\n", pat, name, fuel, strings.Join(args, " ")) + r, nil
}

// ---------------------------------------------------------------- expressions

func (c *fctx) expr(env *venv, e ast.Expr, hint *gtype) (*xres, error) {
	g := c.g
	switch e := e.(type) {
	case *ast.ParenExpr:
		return c.expr(env, e.X, hint)
	case *ast.BasicLit:
		cv, err := g.evalConst(c.af.pkg, c.af.file, e, -1)
		if err != nil {
			return nil, err
		}
		iv, ok := ratInt(cv.v)
		if !ok {
			return nil, g.bad(e, "non-integer literal %s", e.Value)
		}
		return &xres{code: zlit(iv), cv: cv, atom: true}, nil
	case *ast.Ident:
		switch e.Name {
		case "true", "false":
			b := e.Name == "true"
			return &xres{code: e.Name, t: tBool, cv: &cval{b: &b}, atom: true}, nil
		case "nil":
			return nil, g.bad(e, "nil outside an error result")
		}
		if v := env.lookup(e.Name); v != nil {
			if v.par != nil {
				v.par.read = true
			}
			switch v.t.kind {
			case kInt, kBool, kOption:
				return &xres{code: v.coq, t: v.t, atom: true}, nil
			}
			return nil, g.bad(e, "%s of type %s used as a value", e.Name, v.t)
		}
		return c.constRef(e)
	case *ast.SelectorExpr:
		if x, ok := e.X.(*ast.Ident); ok {
			if v := env.lookup(x.Name); v != nil {
				if v.t.kind != kStruct || v.par == nil {
					return nil, g.bad(e, "field selection on %s of type %s", x.Name, v.t)
				}
				ft, err := c.fieldType(v.t, e)
				if err != nil {
					return nil, err
				}
				v.par.read = true
				v.par.used[e.Sel.Name] = ft
				return &xres{code: v.coq + "_" + e.Sel.Name, t: ft, atom: true}, nil
			}
		}
		return c.constRef(e)
	case *ast.UnaryExpr:
		return c.unary(env, e, hint)
	case *ast.BinaryExpr:
		return c.binary(env, e, hint)
	case *ast.CallExpr:
		return c.call(env, e, hint)
	}
	return nil, g.bad(e, "unsupported expression %T: %s", e, aFirstLine(g.src(e)))
}

func (c *fctx) fieldType(st *gtype, e *ast.SelectorExpr) (*gtype, error) {
	g := c.g
	for _, f := range st.st.Fields.List {
		for _, nm := range f.Names {
			if nm.Name == e.Sel.Name {
				t, err := g.resolveType(st.stPkg, st.stFile, f.Type)
				if err != nil {
					return nil, err
				}
				if t.kind != kInt && t.kind != kBool {
					return nil, g.bad(e, "field %s has type %s", e.Sel.Name, t)
				}
				return t, nil
			}
		}
	}
	return nil, g.bad(e, "no field %s in %s (embedded fields are unsupported)", e.Sel.Name, st)
}

func (c *fctx) constRef(e ast.Expr) (*xres, error) {
	g := c.g
	k, ext, err := g.lookupConst(c.af.pkg, c.af.file, e)
	if err != nil {
		return nil, err
	}
	if ext != nil {
		iv, _ := ratInt(ext.v)
		return &xres{code: zlit(iv), cv: ext, atom: true}, nil
	}
	if k == nil {
		return nil, g.bad(e, "%s is neither a local variable nor a known constant", g.src(e))
	}
	cv, err := g.constOf(k)
	if err != nil {
		return nil, err
	}
	if cv.b != nil {
		return nil, g.bad(e, "boolean constant %s", g.src(e))
	}
	if _, ok := ratInt(cv.v); !ok {
		return nil, g.bad(e, "constant %s = %s is not an integer", g.src(e), cv.v.RatString())
	}
	name := constCoqName(k)
	g.used[name] = k
	return &xres{code: name, t: cv.t, cv: cv, atom: true}, nil
}

func (c *fctx) unary(env *venv, e *ast.UnaryExpr, hint *gtype) (*xres, error) {
	g := c.g
	if e.Op == token.NOT {
		x, err := c.exprAs(env, e.X, tBool)
		if err != nil {
			return nil, err
		}
		return &xres{code: "negb " + par(x), t: tBool}, nil
	}
	x, err := c.expr(env, e.X, hint)
	if err != nil {
		return nil, err
	}
	if x.t != nil && x.t.kind != kInt {
		return nil, g.bad(e, "unary %s on %s", e.Op, x.t)
	}
	if x.t == nil { // untyped constant: exact
		cv, err := g.evalConst(c.af.pkg, c.af.file, e, -1)
		if err != nil {
			return nil, err
		}
		iv, ok := ratInt(cv.v)
		if !ok {
			return nil, g.bad(e, "non-integer constant")
		}
		if e.Op == token.SUB && x.atom && !strings.HasPrefix(x.code, "(") {
			if _, isLit := unparen(e.X).(*ast.BasicLit); !isLit {
				return &xres{code: "- " + x.code, cv: cv}, nil
			}
		}
		return &xres{code: zlit(iv), cv: cv, atom: true}, nil
	}
	switch e.Op {
	case token.ADD:
		return x, nil
	case token.SUB:
		return &xres{code: x.t.wrap() + " (- " + par(x) + ")", t: x.t}, nil
	case token.XOR:
		if x.t.signed {
			return &xres{code: "Z.lnot " + par(x), t: x.t}, nil
		}
		return &xres{code: x.t.wrap() + " (Z.lnot " + par(x) + ")", t: x.t}, nil
	}
	return nil, g.bad(e, "unary operator %s", e.Op)
}

var cmpOps = map[token.Token]string{
	token.EQL: "=?", token.LSS: "<?", token.LEQ: "<=?", token.GTR: ">?", token.GEQ: ">=?",
}

func (c *fctx) binary(env *venv, e *ast.BinaryExpr, hint *gtype) (*xres, error) {
	g := c.g
	switch e.Op {
	case token.LAND, token.LOR:
		l, err := c.exprAs(env, e.X, tBool)
		if err != nil {
			return nil, err
		}
		r, err := c.exprAs(env, e.Y, tBool)
		if err != nil {
			return nil, err
		}
		op := "&&"
		if e.Op == token.LOR {
			op = "||"
		}
		return &xres{code: par(l) + " " + op + " " + par(r), t: tBool}, nil
	case token.SHL, token.SHR:
		return c.shift(env, e, hint)
	}
	_, isCmp := cmpOps[e.Op]
	isCmp = isCmp || e.Op == token.NEQ
	oh := hint
	if isCmp {
		oh = nil
	}
	l, err := c.expr(env, e.X, oh)
	if err != nil {
		return nil, err
	}
	var r *xres
	if l.t != nil {
		if r, err = c.expr(env, e.Y, l.t); err != nil {
			return nil, err
		}
	} else {
		if r, err = c.expr(env, e.Y, oh); err != nil {
			return nil, err
		}
		if r.t != nil {
			if l, err = c.expr(env, e.X, r.t); err != nil {
				return nil, err
			}
		}
	}
	// both untyped constants: exact constant arithmetic
	if l.t == nil && r.t == nil {
		if isCmp {
			return nil, g.bad(e, "comparison of two constants")
		}
		cv, err := g.constBinop(e, e.Op, l.cv, r.cv)
		if err != nil {
			return nil, err
		}
		iv, ok := ratInt(cv.v)
		if !ok {
			return nil, g.bad(e, "constant expression %s is not an integer", g.src(e))
		}
		return &xres{code: zlit(iv), cv: cv, atom: true}, nil
	}
	if l.t == nil {
		if l, err = c.coerce(e.X, l, r.t); err != nil {
			return nil, err
		}
	}
	if r.t == nil {
		if r, err = c.coerce(e.Y, r, l.t); err != nil {
			return nil, err
		}
	}
	if isCmp {
		if l.t.kind == kBool && r.t.kind == kBool && (e.Op == token.EQL || e.Op == token.NEQ) {
			code := "Bool.eqb " + par(l) + " " + par(r)
			if e.Op == token.NEQ {
				code = "negb (" + code + ")"
			}
			return &xres{code: code, t: tBool}, nil
		}
		if !sameInt(l.t, r.t) {
			return nil, g.bad(e, "comparison of %s with %s", l.t, r.t)
		}
		if e.Op == token.NEQ {
			return &xres{code: "negb (" + par(l) + " =? " + par(r) + ")", t: tBool}, nil
		}
		return &xres{code: par(l) + " " + cmpOps[e.Op] + " " + par(r), t: tBool}, nil
	}
	if !sameInt(l.t, r.t) {
		return nil, g.bad(e, "operator %s on %s and %s", e.Op, l.t, r.t)
	}
	t := l.t
	res := &xres{t: t}
	if l.cv != nil && r.cv != nil && l.cv.b == nil && r.cv.b == nil {
		if cv, err := g.constBinop(e, e.Op, l.cv, r.cv); err == nil {
			if iv, ok := ratInt(cv.v); ok && t.contains(iv) {
				cv.t = t
				res.cv = cv
			}
		}
	}
	switch e.Op {
	case token.ADD:
		res.code = t.wrap() + " (" + par(l) + " + " + par(r) + ")"
	case token.SUB:
		res.code = t.wrap() + " (" + par(l) + " - " + par(r) + ")"
	case token.MUL:
		res.code = t.wrap() + " (" + par(l) + " * " + par(r) + ")"
	case token.QUO, token.REM:
		if r.cv == nil {
			return nil, g.bad(e, "divisor %s is not a constant (Go panics on zero; unsupported)", g.src(e.Y))
		}
		if r.cv.v.Sign() == 0 {
			return nil, g.bad(e, "division by the constant zero")
		}
		minus1 := r.cv.v.Cmp(big.NewRat(-1, 1)) == 0
		switch {
		case !t.signed && e.Op == token.QUO:
			res.code = par(l) + " / " + par(r)
		case !t.signed:
			res.code = par(l) + " mod " + par(r)
		case e.Op == token.QUO && minus1:
			res.code = t.wrap() + " (Z.quot " + par(l) + " " + par(r) + ")"
		case e.Op == token.QUO:
			res.code = "Z.quot " + par(l) + " " + par(r)
		default:
			res.code = "Z.rem " + par(l) + " " + par(r)
		}
	case token.AND:
		res.code = "Z.land " + par(l) + " " + par(r)
	case token.OR:
		res.code = "Z.lor " + par(l) + " " + par(r)
	case token.XOR:
		res.code = "Z.lxor " + par(l) + " " + par(r)
	case token.AND_NOT:
		res.code = "Z.ldiff " + par(l) + " " + par(r)
	default:
		return nil, g.bad(e, "operator %s", e.Op)
	}
	return res, nil
}

func (c *fctx) shift(env *venv, e *ast.BinaryExpr, hint *gtype) (*xres, error) {
	g := c.g
	r, err := c.expr(env, e.Y, nil)
	if err != nil {
		return nil, err
	}
	if r.t == nil {
		iv, ok := ratInt(r.cv.v)
		if !ok || iv.Sign() < 0 {
			return nil, g.bad(e.Y, "shift count %s", g.src(e.Y))
		}
	} else if r.t.kind != kInt || (r.t.signed && r.cv == nil) {
		return nil, g.bad(e.Y, "shift count of type %s (a negative count panics; unsupported)", r.t)
	} else if r.cv != nil && r.cv.v.Sign() < 0 {
		return nil, g.bad(e.Y, "negative shift count")
	}
	l, err := c.expr(env, e.X, hint)
	if err != nil {
		return nil, err
	}
	if l.t == nil {
		if r.cv != nil { // constant shift: exact
			cv, err := g.constBinop(e, e.Op, l.cv, r.cv)
			if err != nil {
				return nil, err
			}
			iv, _ := ratInt(cv.v)
			return &xres{code: zlit(iv), cv: cv, atom: true}, nil
		}
		if hint == nil || hint.kind != kInt {
			return nil, g.bad(e, "untyped constant shifted by a variable without a typed context")
		}
		if l, err = c.coerce(e.X, l, hint); err != nil {
			return nil, err
		}
	}
	if l.t.kind != kInt {
		return nil, g.bad(e, "shift of %s", l.t)
	}
	if e.Op == token.SHL {
		return &xres{code: l.t.wrap() + " (Z.shiftl " + par(l) + " " + par(r) + ")", t: l.t}, nil
	}
	return &xres{code: "Z.shiftr " + par(l) + " " + par(r), t: l.t}, nil
}

// asType: is the callee expression of a call a type (conversion)?
func (c *fctx) asType(env *venv, fun ast.Expr) (*gtype, error) {
	switch f := fun.(type) {
	case *ast.Ident:
		if env.lookup(f.Name) != nil {
			return nil, nil
		}
		if _, ok := c.af.pkg.funcs[f.Name]; ok {
			return nil, nil
		}
		if _, ok := c.af.pkg.types[f.Name]; !ok && builtinType(f.Name) == nil {
			return nil, nil
		}
	case *ast.SelectorExpr:
		x, ok := f.X.(*ast.Ident)
		if !ok || env.lookup(x.Name) != nil {
			return nil, nil
		}
		if _, ok := importPath(c.af.file, x.Name); !ok {
			return nil, nil
		}
	default:
		return nil, nil
	}
	t, err := c.g.resolveType(c.af.pkg, c.af.file, fun)
	if err != nil {
		return nil, err
	}
	if t.kind == kInt || t.kind == kBool {
		return t, nil
	}
	return nil, nil
}

func (c *fctx) call(env *venv, e *ast.CallExpr, hint *gtype) (*xres, error) {
	g := c.g
	fun := unparen(e.Fun)
	if e.Ellipsis.IsValid() {
		return nil, g.bad(e, "variadic call")
	}
	// func() T { ... }()
	if fl, ok := fun.(*ast.FuncLit); ok {
		if len(e.Args) != 0 || fl.Type.Params.NumFields() != 0 || fl.Type.Results.NumFields() != 1 ||
			len(fl.Type.Results.List[0].Names) != 0 {
			return nil, g.bad(e, "function literal call other than func() T {...}()")
		}
		rt, err := g.resolveType(c.af.pkg, c.af.file, fl.Type.Results.List[0].Type)
		if err != nil {
			return nil, err
		}
		if rt.kind != kInt && rt.kind != kBool {
			return nil, g.bad(e, "function literal returning %s", rt)
		}
		k := kont{
			fall: func() (string, error) { return "", g.bad(fl, "function literal may end without return") },
			ret:  func(rs *ast.ReturnStmt, ev *venv) (string, error) { return c.retTuple(rs, ev, []*gtype{rt}) },
		}
		body, err := c.stmts(fl.Body.List, env, k)
		if err != nil {
			return nil, err
		}
		return &xres{code: strings.Join(strings.Fields(body), " "), t: rt}, nil
	}
	// conversion
	if t, err := c.asType(env, fun); err != nil {
		return nil, err
	} else if t != nil {
		if len(e.Args) != 1 {
			return nil, g.bad(e, "conversion with %d arguments", len(e.Args))
		}
		if t.kind == kBool {
			return c.exprAs(env, e.Args[0], tBool)
		}
		x, err := c.expr(env, e.Args[0], t)
		if err != nil {
			return nil, err
		}
		if x.t == nil {
			return c.coerce(e.Args[0], x, t)
		}
		if x.t.kind != kInt {
			return nil, g.bad(e, "conversion of %s to %s", x.t, t)
		}
		if subrange(x.t, t) {
			return &xres{code: x.code, t: t, cv: x.cv, atom: x.atom}, nil
		}
		return &xres{code: t.wrap() + " " + par(x), t: t}, nil
	}
	switch f := fun.(type) {
	case *ast.Ident:
		af, ok := c.af.pkg.funcs[f.Name]
		if !ok {
			return nil, g.bad(e, "call of %s: not a function of package %s", f.Name, c.af.pkg.name)
		}
		return c.callFunc(env, e, af, nil)
	case *ast.SelectorExpr:
		if x, ok := f.X.(*ast.Ident); ok {
			if v := env.lookup(x.Name); v != nil {
				switch v.t.kind {
				case kOpaque:
					if len(e.Args) != 0 || v.par == nil {
						return nil, g.bad(e, "call %s on an opaque value", g.src(e))
					}
					v.par.read = true
					v.par.used[f.Sel.Name] = tBool
					return &xres{code: v.coq + "_" + f.Sel.Name, t: tBool, atom: true}, nil
				case kOption:
					if f.Sel.Name != "UnwrapOr" || len(e.Args) != 1 {
						return nil, g.bad(e, "option method %s (only UnwrapOr)", f.Sel.Name)
					}
					if v.par != nil {
						v.par.read = true
					}
					d, err := c.exprAs(env, e.Args[0], v.t.elem)
					if err != nil {
						return nil, err
					}
					return &xres{code: "match " + v.coq + " with Some v_ => v_ | None => " + d.code + " end",
						t: v.t.elem}, nil
				}
			} else if path, ok := importPath(c.af.file, x.Name); ok {
				if (x.Name == "fmt" && f.Sel.Name == "Errorf") || (x.Name == "errors" && f.Sel.Name == "New") {
					return &xres{code: "true", t: tError, atom: true}, nil
				}
				q, isLnd, err := g.lndPkg(path)
				if err != nil {
					return nil, err
				}
				if !isLnd {
					return nil, g.bad(e, "call of external function %s", g.src(fun))
				}
				af, ok := q.funcs[f.Sel.Name]
				if !ok {
					return nil, g.bad(e, "call of %s: no such function in %s", g.src(fun), q.dir)
				}
				return c.callFunc(env, e, af, nil)
			}
		}
		// method on a value of a named integer type
		recv, err := c.expr(env, f.X, nil)
		if err != nil {
			return nil, err
		}
		if recv.t == nil || recv.t.pkg == nil || recv.t.kind != kInt {
			return nil, g.bad(e, "method call %s on a value of type %s", g.src(fun), recv.t)
		}
		af, ok := recv.t.pkg.funcs[recv.t.tname+"."+f.Sel.Name]
		if !ok {
			return nil, g.bad(e, "no method %s on %s", f.Sel.Name, recv.t)
		}
		return c.callFunc(env, e, af, recv)
	}
	return nil, g.bad(e, "unsupported call %s", aFirstLine(g.src(e)))
}

func (c *fctx) callFunc(env *venv, e *ast.CallExpr, af *afunc, recv *xres) (*xres, error) {
	g := c.g
	tf, err := g.translate(af)
	if err != nil {
		return nil, &aerr{fmt.Sprintf("%s: in callee %s: %v", g.at(e), funcCoqName(af), err)}
	}
	if len(tf.results) != 1 || tf.results[0].kind == kError {
		return nil, g.bad(e, "call of %s with %d results in an expression", tf.coq, len(tf.results))
	}
	ps := tf.params
	var args []string
	if af.decl.Recv != nil {
		if recv == nil {
			return nil, g.bad(e, "method %s called without receiver", tf.coq)
		}
		p := ps[0]
		ps = ps[1:]
		if p.t.kind != kInt {
			return nil, g.bad(e, "receiver of %s has type %s", tf.coq, p.t)
		}
		r, err := c.coerce(e, recv, p.t)
		if err != nil {
			return nil, err
		}
		args = append(args, par(r))
	}
	if len(ps) != len(e.Args) {
		return nil, g.bad(e, "call of %s with %d arguments, %d expected", tf.coq, len(e.Args), len(ps))
	}
	for i, p := range ps {
		a := e.Args[i]
		switch p.t.kind {
		case kInt, kBool, kOption:
			x, err := c.exprAs(env, a, p.t)
			if err != nil {
				return nil, err
			}
			args = append(args, par(x))
		case kOpaque:
			id, ok := unparen(a).(*ast.Ident)
			var v *venv
			if ok {
				v = env.lookup(id.Name)
			}
			if v == nil || v.t.kind != kOpaque || v.par == nil {
				return nil, g.bad(a, "opaque argument %s is not an opaque parameter of the caller", g.src(a))
			}
			v.par.read = true
			for _, m := range sortedKeys(p.used) {
				v.par.used[m] = tBool
				args = append(args, v.coq+"_"+m)
			}
		default:
			if p.read {
				return nil, g.bad(a, "argument %s of type %s is read by %s", g.src(a), p.t, tf.coq)
			}
			// dropped parameter: the argument is not evaluated (it must be pure)
		}
	}
	code := tf.coq
	if len(args) > 0 {
		code += " " + strings.Join(args, " ")
	}
	return &xres{code: code, t: tf.results[0], atom: len(args) == 0}, nil
}

func sortedKeys(m map[string]*gtype) []string {
	var ks []string
	for k := range m {
		ks = append(ks, k)
	}
	sort.Strings(ks)
	return ks
}
