// Command translate is tie T1 of the /verif framework: it regenerates
// coq/theories/Gen/*.v from the lnd working tree on every check run.
//
//	translate -repo <lnd tree> -out <dir>
//
// Every generator lives in its own file gen_<name>.go and registers itself in
// init().  A generator handles a deliberately small Go fragment and must FAIL
// LOUDLY (error naming the construct and its position) on anything outside it;
// main then exits non-zero, which the check reports as a broken tie.  Nothing is
// ever skipped silently.  Standard library only; builds offline.
package main

import (
	"flag"
	"fmt"
	"os"
	"path/filepath"
	"sort"
)

// Generator produces one Gen file from the repo at the given root.
type Generator func(repo string) (filename string, content string, err error)

var registry = map[string]Generator{}

func register(name string, g Generator) {
	if _, dup := registry[name]; dup {
		panic("duplicate generator " + name)
	}
	registry[name] = g
}

func main() {
	repo := flag.String("repo", "/repo", "lnd source tree")
	out := flag.String("out", "", "output directory for Gen/*.v")
	only := flag.String("only", "", "run a single generator")
	flag.Parse()
	if *out == "" {
		fmt.Fprintln(os.Stderr, "translate: -out is required")
		os.Exit(2)
	}
	if err := os.MkdirAll(*out, 0o755); err != nil {
		fmt.Fprintln(os.Stderr, "translate:", err)
		os.Exit(2)
	}
	names := make([]string, 0, len(registry))
	for n := range registry {
		names = append(names, n)
	}
	sort.Strings(names)
	failed := 0
	for _, n := range names {
		if *only != "" && *only != n {
			continue
		}
		file, content, err := registry[n](*repo)
		if err != nil {
			fmt.Fprintf(os.Stderr, "translate: generator %s FAILED: %v\n", n, err)
			failed++
			continue
		}
		if err := os.WriteFile(filepath.Join(*out, file), []byte(content), 0o644); err != nil {
			fmt.Fprintf(os.Stderr, "translate: generator %s: %v\n", n, err)
			failed++
			continue
		}
		fmt.Printf("translate: %s -> %s (%d bytes)\n", n, file, len(content))
	}
	if failed > 0 {
		fmt.Fprintf(os.Stderr, "translate: %d generator(s) failed\n", failed)
		os.Exit(1)
	}
}
