#!/usr/bin/env python3
import json, sys
pid, wt = sys.argv[1], sys.argv[2]
hint = sys.argv[3] if len(sys.argv) > 3 else ""
for l in open('/verif/properties.jsonl'):
    p = json.loads(l)
    if p['id'] == pid:
        break
print(f"""You are a careful Go engineer doing MUTATION SEEDING for a verification study. You work ONLY inside the git worktree
{wt} (a checkout of the Lightning node `lnd`). Do not read or write anything under /verif or /repo, and do not look at any
other /var/tmp directory. No network is available.

Environment for every shell command: `export GOFLAGS=-mod=mod GOPROXY=off` (do NOT set GOTOOLCHAIN or GOSUMDB; the Go
toolchain go1.25.13 is selected automatically). Always wrap go commands in `timeout`. The machine is shared and loaded, so
builds/tests can be slow (a package test run may take 1-5 min); use `-run` filters where sensible and `-count=1`.

THE PROPERTY (this text is all you get about what is being checked):
  Title: {p['title']}
  Statement: {p['statement']}
  Quantified over: {p['quantifier']['text']}
  Code it is anchored in: {', '.join(p['anchors']['files'])}
{hint}
YOUR TASK: design ONE realistic change to lnd's NON-TEST source that BREAKS this property, such that
  (a) the tree still compiles (`go build ./...` at least for every package you touch and their importers you can afford);
  (b) the EXISTING unit tests of the touched package(s) still pass exactly as they do on the unmodified tree (some tests
      fail on the unmodified tree already — establish the baseline first on the clean tree and compare. NEVER use `git stash`
      (the stash is shared with other worktrees): to get a clean tree use `git diff > /var/tmp/<yourdir>.patch; git checkout -- .`
      and re-apply with `git apply`);
  (c) the breakage needs something SPECIFIC to manifest — a particular interleaving, a crash or fault at a particular
      point, a multi-step sequence of operations, an unusual-but-legal input (boundary value, rare combination), or two
      cooperating sites that each look fine alone — NOT something ordinary use or a smoke test would expose at once.
  Think like a plausible regression or subtle bug a maintainer might introduce (off-by-one at a boundary, a dropped or
  reordered persistence step, a wrong index/party/direction in a rare branch, a missed case in a switch, a stale cache),
  not sabotage like deleting a function body. Keep it small (typically 1-15 changed lines, one or two files).
  Then write a DEMONSTRATION: a new Go test file (name it zz_seed_demo_test.go in the relevant package; it may use the
  package's existing test helpers) or a small program, that FAILS with your change and PASSES on the unmodified tree, and
  that shows the property (as stated above) being violated — not merely that the code changed.

DELIVERABLES, all inside {wt}/SEED/ (create it):
  patch.diff   — `git diff` of the non-test source change ONLY (must apply with `git apply` on a clean checkout of HEAD)
  demo/        — the demonstration file(s) (copies; the path where each must be placed in the tree is given in meta.json)
  meta.json    — {{"property": "{pid}", "summary": "...what the change does...", "needs": "...what is required for it to manifest...",
                  "files_touched": [...], "demo": {{"place_at": "<relative path in tree>", "run": "<exact go test command>"}},
                  "existing_tests_run": ["<commands>"], "baseline_failures": ["<tests that fail on the unmodified tree too>"],
                  "with_change_failures": ["<same list, must be identical to baseline>"]}}
Verify everything yourself before finishing: clean tree + demo passes; patched tree builds, existing tests equal baseline,
demo fails. Leave the worktree with the patch and demo APPLIED. Final message: 5-10 lines summarising the change, what it
needs to manifest, and the verification you ran.""")
