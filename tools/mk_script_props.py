# Regenerates coq/theories/Script/Bundle.v and Props.v from ONE list of statements (so the two
# copies of every statement stay textually identical) and the witness-role pins from the current
# Gen/GenScripts.v.  Dev helper of the script work package; not used by ./check.
PRE = '''forall (sha256 ripemd160 : bytes -> bytes) (sigcheck : bytes -> bytes -> sigres),
  let h := hash160_of sha256 ripemd160 in
  (forall x, hash20 (ripemd160 x)) ->'''

thms = []

def T(name, comment, conjuncts):
    thms.append((name, comment, conjuncts))

# each conjunct: (comment, statement, proof)
T("C04_revocation_paths_accept",
  "every revocation witness built by lnd is accepted by its script, for all keys/hashes/delays and ANY\n   spending-tx context, provided the signature verifies under the revocation key",
  [
  ("to_local (CommitScriptToSelf / CommitSpendRevoke)",
   '''forall ctx csv selfkey revkey sig ws,
     key33 revkey -> key33 selfkey -> u32 csv -> elem_ok sig ->
     parse_script ws = Some (commit_script_to_self_of sha256 ripemd160 csv selfkey revkey) ->
     verify sigcheck revkey sig = true ->
     spend_p2wsh h sigcheck ctx (commit_spend_revoke sig ws) = true''',
   "intros; eapply (to_local_revoke h sigcheck); try (match goal with |- parse_script _ = Some _ => eassumption | |- spend_p2wsh _ _ _ _ = true => eassumption | |- spend_tapleaf _ _ _ _ = true => eassumption end); eauto."),
  ("to_local of script-enforced lease channels",
   '''forall ctx csv lease selfkey revkey sig ws,
     key33 revkey -> key33 selfkey -> u32 csv -> u32 lease -> elem_ok sig ->
     parse_script ws = Some (lease_commit_script_to_self_of sha256 ripemd160 selfkey revkey csv lease) ->
     verify sigcheck revkey sig = true ->
     spend_p2wsh h sigcheck ctx (commit_spend_revoke sig ws) = true''',
   "intros; eapply (lease_to_local_revoke h sigcheck); try (match goal with |- parse_script _ = Some _ => eassumption | |- spend_p2wsh _ _ _ _ = true => eassumption | |- spend_tapleaf _ _ _ _ = true => eassumption end); eauto."),
  ("offered HTLC (SenderHTLCScript / SenderHtlcSpendRevoke[WithKey])",
   '''forall ctx confirmed senderkey receiverkey revkey payhash sig ws,
     key33 revkey -> key33 senderkey -> key33 receiverkey -> elem_ok sig ->
     parse_script ws = Some (sender_htlc_script_of sha256 ripemd160 confirmed senderkey receiverkey revkey payhash) ->
     verify sigcheck revkey sig = true ->
     spend_p2wsh h sigcheck ctx (sender_htlc_spend_revoke sig revkey ws) = true''',
   "intros; eapply (offered_revoke h sigcheck); try (match goal with |- parse_script _ = Some _ => eassumption | |- spend_p2wsh _ _ _ _ = true => eassumption | |- spend_tapleaf _ _ _ _ = true => eassumption end); eauto."),
  ("received HTLC (ReceiverHTLCScript / ReceiverHtlcSpendRevoke[WithKey])",
   '''forall ctx confirmed cltv senderkey receiverkey revkey payhash sig ws,
     key33 revkey -> key33 senderkey -> key33 receiverkey -> u32 cltv -> elem_ok sig ->
     parse_script ws = Some (receiver_htlc_script_of sha256 ripemd160 confirmed cltv senderkey receiverkey revkey payhash) ->
     verify sigcheck revkey sig = true ->
     spend_p2wsh h sigcheck ctx (receiver_htlc_spend_revoke sig revkey ws) = true''',
   "intros; eapply (received_revoke h sigcheck); try (match goal with |- parse_script _ = Some _ => eassumption | |- spend_p2wsh _ _ _ _ = true => eassumption | |- spend_tapleaf _ _ _ _ = true => eassumption end); eauto."),
  ("second-level HTLC output (SecondLevelHtlcScript / HtlcSpendRevoke)",
   '''forall ctx csv delaykey revkey sig ws,
     key33 revkey -> key33 delaykey -> u32 csv -> elem_ok sig ->
     parse_script ws = Some (second_level_htlc_script_of sha256 ripemd160 revkey delaykey csv) ->
     verify sigcheck revkey sig = true ->
     spend_p2wsh h sigcheck ctx (htlc_spend_revoke sig ws) = true''',
   "intros; eapply (second_level_revoke h sigcheck); try (match goal with |- parse_script _ = Some _ => eassumption | |- spend_p2wsh _ _ _ _ = true => eassumption | |- spend_tapleaf _ _ _ _ = true => eassumption end); eauto."),
  ("second-level HTLC output of lease channels",
   '''forall ctx csv cltv delaykey revkey sig ws,
     key33 revkey -> key33 delaykey -> u32 csv -> u32 cltv -> elem_ok sig ->
     parse_script ws = Some (lease_second_level_htlc_script_of sha256 ripemd160 revkey delaykey csv cltv) ->
     verify sigcheck revkey sig = true ->
     spend_p2wsh h sigcheck ctx (htlc_spend_revoke sig ws) = true''',
   "intros; eapply (lease_second_level_revoke h sigcheck); try (match goal with |- parse_script _ = Some _ => eassumption | |- spend_p2wsh _ _ _ _ = true => eassumption | |- spend_tapleaf _ _ _ _ = true => eassumption end); eauto."),
  ("taproot to_local, revocation LEAF (script path; TaprootCommitSpendRevoke).  The taproot HTLC and\n      second-level revocations are key-path spends: no script, nothing for the interpreter to decide",
   '''forall ctx selfkey revkey sig ls cb,
     xonly selfkey -> xonly revkey -> elem_ok sig -> elem_ok ls -> elem_ok cb ->
     parse_script ls = Some (taproot_local_commit_revoke_script_of sha256 ripemd160 selfkey revkey) ->
     verify sigcheck revkey sig = true ->
     spend_tapleaf h sigcheck ctx (taproot_commit_spend_revoke sig ls cb) = true''',
   "intros; eapply (tap_to_local_revoke h sigcheck); try (match goal with |- parse_script _ = Some _ => eassumption | |- spend_p2wsh _ _ _ _ = true => eassumption | |- spend_tapleaf _ _ _ _ = true => eassumption end); eauto."),
  ])

T("C04_revocation_needs_revkey",
  "the revocation branch of every script rejects unless the signature verifies under the key presented\n   (for HTLC scripts: any key k whose hash160 equals the committed revocation-key hash)",
  [
  ("to_local",
   '''forall ctx csv selfkey revkey sig ws,
     key33 revkey -> key33 selfkey -> u32 csv -> elem_ok sig ->
     parse_script ws = Some (commit_script_to_self_of sha256 ripemd160 csv selfkey revkey) ->
     spend_p2wsh h sigcheck ctx (commit_spend_revoke sig ws) = true ->
     verify sigcheck revkey sig = true''',
   "intros; eapply (to_local_revoke_needs_key h sigcheck); try (match goal with |- parse_script _ = Some _ => eassumption | |- spend_p2wsh _ _ _ _ = true => eassumption | |- spend_tapleaf _ _ _ _ = true => eassumption end); eauto."),
  ("lease to_local",
   '''forall ctx csv lease selfkey revkey sig ws,
     key33 revkey -> key33 selfkey -> u32 csv -> u32 lease -> elem_ok sig ->
     parse_script ws = Some (lease_commit_script_to_self_of sha256 ripemd160 selfkey revkey csv lease) ->
     spend_p2wsh h sigcheck ctx (commit_spend_revoke sig ws) = true ->
     verify sigcheck revkey sig = true''',
   "intros; eapply (lease_to_local_revoke_needs_key h sigcheck); try (match goal with |- parse_script _ = Some _ => eassumption | |- spend_p2wsh _ _ _ _ = true => eassumption | |- spend_tapleaf _ _ _ _ = true => eassumption end); eauto."),
  ("second-level output",
   '''forall ctx csv delaykey revkey sig ws,
     key33 revkey -> key33 delaykey -> u32 csv -> elem_ok sig ->
     parse_script ws = Some (second_level_htlc_script_of sha256 ripemd160 revkey delaykey csv) ->
     spend_p2wsh h sigcheck ctx (htlc_spend_revoke sig ws) = true ->
     verify sigcheck revkey sig = true''',
   "intros; eapply (second_level_revoke_needs_key h sigcheck); try (match goal with |- parse_script _ = Some _ => eassumption | |- spend_p2wsh _ _ _ _ = true => eassumption | |- spend_tapleaf _ _ _ _ = true => eassumption end); eauto."),
  ("offered HTLC",
   '''forall ctx confirmed senderkey receiverkey revkey payhash k sig ws,
     key33 k -> key33 senderkey -> key33 receiverkey -> elem_ok sig ->
     parse_script ws = Some (sender_htlc_script_of sha256 ripemd160 confirmed senderkey receiverkey revkey payhash) ->
     h k = h revkey ->
     spend_p2wsh h sigcheck ctx (sender_htlc_spend_revoke sig k ws) = true ->
     verify sigcheck k sig = true''',
   "intros; eapply (offered_revoke_needs_key h sigcheck); try (match goal with |- parse_script _ = Some _ => eassumption | |- spend_p2wsh _ _ _ _ = true => eassumption | |- spend_tapleaf _ _ _ _ = true => eassumption end); eauto."),
  ("received HTLC",
   '''forall ctx confirmed cltv senderkey receiverkey revkey payhash k sig ws,
     key33 k -> key33 senderkey -> key33 receiverkey -> u32 cltv -> elem_ok sig ->
     parse_script ws = Some (receiver_htlc_script_of sha256 ripemd160 confirmed cltv senderkey receiverkey revkey payhash) ->
     h k = h revkey ->
     spend_p2wsh h sigcheck ctx (receiver_htlc_spend_revoke sig k ws) = true ->
     verify sigcheck k sig = true''',
   "intros; eapply (received_revoke_needs_key h sigcheck); try (match goal with |- parse_script _ = Some _ => eassumption | |- spend_p2wsh _ _ _ _ = true => eassumption | |- spend_tapleaf _ _ _ _ = true => eassumption end); eauto."),
  ("taproot to_local revocation leaf",
   '''forall ctx selfkey revkey sig ls cb,
     xonly selfkey -> xonly revkey -> elem_ok sig -> elem_ok ls -> elem_ok cb ->
     parse_script ls = Some (taproot_local_commit_revoke_script_of sha256 ripemd160 selfkey revkey) ->
     spend_tapleaf h sigcheck ctx (taproot_commit_spend_revoke sig ls cb) = true ->
     verify sigcheck revkey sig = true''',
   "intros; eapply (tap_to_local_revoke_needs_key h sigcheck); try (match goal with |- parse_script _ = Some _ => eassumption | |- spend_p2wsh _ _ _ _ = true => eassumption | |- spend_tapleaf _ _ _ _ = true => eassumption end); eauto."),
  ])

T("C05_local_paths_accept",
  "our own commitment confirmed: to_local after the CSV delay, the HTLC-timeout / HTLC-success inputs with\n   both signatures, and the second-level output after its CSV delay, each with the nSequence / tx version\n   the lnd code sets (HtlcSpendSuccess sets them itself: regenerated htlc_spend_success_tx)",
  [
  ("to_local after CSV: sweep input nSequence = LockTimeToSequence(false, csv), tx version >= 2",
   '''forall ctx csv selfkey revkey sig ws,
     key33 revkey -> key33 selfkey -> u32 csv -> elem_ok sig ->
     parse_script ws = Some (commit_script_to_self_of sha256 ripemd160 csv selfkey revkey) ->
     verify sigcheck selfkey sig = true ->
     2 <= tx_version ctx -> in_sequence ctx = lock_time_to_sequence false csv ->
     spend_p2wsh h sigcheck ctx (commit_spend_timeout sig ws) = true''',
   "intros; eapply (to_local_timeout h sigcheck); try (match goal with |- parse_script _ = Some _ => eassumption | |- spend_p2wsh _ _ _ _ = true => eassumption | |- spend_tapleaf _ _ _ _ = true => eassumption end); eauto using csv_sat_exact."),
  ("lease to_local: additionally nLockTime >= lease expiry (block heights), input not final",
   '''forall ctx csv lease selfkey revkey sig ws,
     key33 revkey -> key33 selfkey -> u32 csv -> u32 lease -> elem_ok sig ->
     parse_script ws = Some (lease_commit_script_to_self_of sha256 ripemd160 selfkey revkey csv lease) ->
     verify sigcheck selfkey sig = true ->
     2 <= tx_version ctx -> in_sequence ctx = lock_time_to_sequence false csv ->
     lease <= tx_locktime ctx -> tx_locktime ctx < locktime_threshold -> in_sequence ctx <> max_sequence ->
     spend_p2wsh h sigcheck ctx (commit_spend_timeout sig ws) = true''',
   "intros; eapply (lease_to_local_timeout h sigcheck); try (match goal with |- parse_script _ = Some _ => eassumption | |- spend_p2wsh _ _ _ _ = true => eassumption | |- spend_tapleaf _ _ _ _ = true => eassumption end); eauto using csv_sat_exact, cltv_sat_height."),
  ("HTLC-timeout input: offered HTLC on our commitment, 2-of-2 with the remote signature",
   '''forall ctx confirmed senderkey receiverkey revkey payhash rsig ssig ws,
     key33 revkey -> key33 senderkey -> key33 receiverkey -> elem_ok rsig -> elem_ok ssig ->
     parse_script ws = Some (sender_htlc_script_of sha256 ripemd160 confirmed senderkey receiverkey revkey payhash) ->
     h revkey <> h [] ->
     verify sigcheck receiverkey rsig = true -> verify sigcheck senderkey ssig = true ->
     (confirmed = true -> 2 <= tx_version ctx /\\ in_sequence ctx = 1) ->
     spend_p2wsh h sigcheck ctx (sender_htlc_spend_timeout rsig ssig ws) = true''',
   "intros; eapply (offered_timeout h sigcheck); try (match goal with |- parse_script _ = Some _ => eassumption | |- spend_p2wsh _ _ _ _ = true => eassumption | |- spend_tapleaf _ _ _ _ = true => eassumption end); eauto; intro Hc; match goal with H : _ = true -> _ /\\ _ |- _ => destruct (H Hc) end; eauto using csv_sat_exact."),
  ("HTLC-success input: received HTLC on our commitment, 2-of-2 plus the preimage",
   '''forall ctx confirmed cltv senderkey receiverkey revkey p ssig rsig ws,
     key33 revkey -> key33 senderkey -> key33 receiverkey -> u32 cltv ->
     elem_ok ssig -> elem_ok rsig -> blen p = 32 ->
     parse_script ws = Some (receiver_htlc_script_of sha256 ripemd160 confirmed cltv senderkey receiverkey revkey (sha256 p)) ->
     h revkey <> h p ->
     verify sigcheck senderkey ssig = true -> verify sigcheck receiverkey rsig = true ->
     (confirmed = true -> 2 <= tx_version ctx /\\ in_sequence ctx = 1) ->
     spend_p2wsh h sigcheck ctx (receiver_htlc_spend_redeem ssig rsig p ws) = true''',
   "intros; eapply (received_redeem h sigcheck); try (match goal with |- parse_script _ = Some _ => eassumption | |- spend_p2wsh _ _ _ _ = true => eassumption | |- spend_tapleaf _ _ _ _ = true => eassumption end); eauto; intro Hc; match goal with H : _ = true -> _ /\\ _ |- _ => destruct (H Hc) end; eauto using csv_sat_exact."),
  ("second-level output after CSV; HtlcSpendSuccess rewrites nSequence and version itself",
   '''forall ctx0 csv delaykey revkey sig ws,
     key33 revkey -> key33 delaykey -> u32 csv -> elem_ok sig ->
     parse_script ws = Some (second_level_htlc_script_of sha256 ripemd160 revkey delaykey csv) ->
     verify sigcheck delaykey sig = true ->
     spend_p2wsh h sigcheck (htlc_spend_success_tx csv ctx0) (htlc_spend_success sig ws) = true''',
   "intros; eapply (second_level_delay h sigcheck); try (match goal with |- parse_script _ = Some _ => eassumption | |- spend_p2wsh _ _ _ _ = true => eassumption | |- spend_tapleaf _ _ _ _ = true => eassumption end); eauto; apply csv_sat_exact; [cbn; lia | reflexivity]."),
  ("second-level output through HtlcSecondLevelSpend (caller sets nSequence)",
   '''forall ctx csv delaykey revkey sig ws,
     key33 revkey -> key33 delaykey -> u32 csv -> elem_ok sig ->
     parse_script ws = Some (second_level_htlc_script_of sha256 ripemd160 revkey delaykey csv) ->
     verify sigcheck delaykey sig = true ->
     2 <= tx_version ctx -> in_sequence ctx = lock_time_to_sequence false csv ->
     spend_p2wsh h sigcheck ctx (htlc_second_level_spend sig ws) = true''',
   "intros; eapply (second_level_delay h sigcheck); try (match goal with |- parse_script _ = Some _ => eassumption | |- spend_p2wsh _ _ _ _ = true => eassumption | |- spend_tapleaf _ _ _ _ = true => eassumption end); eauto using csv_sat_exact."),
  ("lease second-level output",
   '''forall ctx csv cltv delaykey revkey sig ws,
     key33 revkey -> key33 delaykey -> u32 csv -> u32 cltv -> elem_ok sig ->
     parse_script ws = Some (lease_second_level_htlc_script_of sha256 ripemd160 revkey delaykey csv cltv) ->
     verify sigcheck delaykey sig = true ->
     2 <= tx_version ctx -> in_sequence ctx = lock_time_to_sequence false csv ->
     cltv <= tx_locktime ctx -> tx_locktime ctx < locktime_threshold -> in_sequence ctx <> max_sequence ->
     spend_p2wsh h sigcheck ctx (htlc_second_level_spend sig ws) = true''',
   "intros; eapply (lease_second_level_delay h sigcheck); try (match goal with |- parse_script _ = Some _ => eassumption | |- spend_p2wsh _ _ _ _ = true => eassumption | |- spend_tapleaf _ _ _ _ = true => eassumption end); eauto using csv_sat_exact, cltv_sat_height."),
  ("taproot to_local delay leaf (default and production scripts; the production leaf leaves the CSV\n      operand as the final stack item, hence 0 < csv there)",
   '''forall ctx (prod : bool) csv selfkey sig ls cb,
     xonly selfkey -> u32 csv -> elem_ok sig -> elem_ok ls -> elem_ok cb ->
     parse_script ls = Some (taproot_local_commit_delay_script_of sha256 ripemd160 prod csv selfkey) ->
     verify sigcheck selfkey sig = true ->
     2 <= tx_version ctx -> in_sequence ctx = lock_time_to_sequence false csv ->
     (prod = true -> 0 < csv) ->
     spend_tapleaf h sigcheck ctx (taproot_commit_spend_success sig ls cb) = true''',
   "intros; eapply (tap_to_local_delay h sigcheck); try (match goal with |- parse_script _ = Some _ => eassumption | |- spend_p2wsh _ _ _ _ = true => eassumption | |- spend_tapleaf _ _ _ _ = true => eassumption end); eauto using csv_sat_exact."),
  ("taproot second-level delay leaf",
   '''forall ctx (prod : bool) csv delaykey sig ls cb,
     xonly delaykey -> u32 csv -> elem_ok sig -> elem_ok ls -> elem_ok cb ->
     parse_script ls = Some (taproot_second_level_tap_leaf_of sha256 ripemd160 prod delaykey csv) ->
     verify sigcheck delaykey sig = true ->
     2 <= tx_version ctx -> in_sequence ctx = lock_time_to_sequence false csv ->
     (prod = true -> 0 < csv) ->
     spend_tapleaf h sigcheck ctx (taproot_htlc_spend_success sig ls cb) = true''',
   "intros; eapply (tap_second_level_delay h sigcheck); try (match goal with |- parse_script _ = Some _ => eassumption | |- spend_p2wsh _ _ _ _ = true => eassumption | |- spend_tapleaf _ _ _ _ = true => eassumption end); eauto using csv_sat_exact."),
  ("taproot offered-HTLC timeout leaf (both signatures)",
   '''forall ctx senderkey receiverkey rsig ssig ls cb,
     xonly senderkey -> xonly receiverkey -> schnorr_len rsig -> schnorr_len ssig -> elem_ok ls -> elem_ok cb ->
     parse_script ls = Some (sender_htlc_tap_leaf_timeout_of sha256 ripemd160 senderkey receiverkey) ->
     verify sigcheck receiverkey rsig = true -> verify sigcheck senderkey ssig = true ->
     spend_tapleaf h sigcheck ctx (sender_htlc_script_taproot_timeout rsig ssig ls cb) = true''',
   "intros; eapply (tap_offered_timeout h sigcheck); try (match goal with |- parse_script _ = Some _ => eassumption | |- spend_p2wsh _ _ _ _ = true => eassumption | |- spend_tapleaf _ _ _ _ = true => eassumption end); eauto."),
  ("taproot received-HTLC success leaf (both signatures and the preimage)",
   '''forall ctx senderkey receiverkey p ssig rsig ls cb,
     xonly senderkey -> xonly receiverkey -> blen p = 32 ->
     schnorr_len ssig -> schnorr_len rsig -> elem_ok ls -> elem_ok cb ->
     parse_script ls = Some (receiver_htlc_tap_leaf_success_of sha256 ripemd160 receiverkey senderkey (sha256 p)) ->
     verify sigcheck senderkey ssig = true -> verify sigcheck receiverkey rsig = true ->
     spend_tapleaf h sigcheck ctx (receiver_htlc_script_taproot_redeem ssig rsig p ls cb) = true''',
   "intros; eapply (tap_received_redeem h sigcheck); try (match goal with |- parse_script _ = Some _ => eassumption | |- spend_p2wsh _ _ _ _ = true => eassumption | |- spend_tapleaf _ _ _ _ = true => eassumption end); eauto."),
  ])

T("C05_remote_paths_accept",
  "the counterparty's commitment confirmed: to_remote (P2WKH / confirmed / lease / taproot), claiming an\n   HTLC they offered with the preimage, timing out an HTLC we offered after its CLTV expiry, anchors",
  [
  ("to_remote, legacy/tweakless channels: P2WKH (CommitSpendNoDelay)",
   '''forall ctx (tweakless : bool) key tweaked sig,
     key33 key -> key33 tweaked -> elem_ok sig ->
     verify sigcheck (if tweakless then key else tweaked) sig = true ->
     spend_p2wkh h sigcheck ctx (h (if tweakless then key else tweaked))
       (commit_spend_no_delay tweakless sig key tweaked) = true''',
   "intros; eapply (to_remote_p2wkh h sigcheck); try (match goal with |- parse_script _ = Some _ => eassumption | |- spend_p2wsh _ _ _ _ = true => eassumption | |- spend_tapleaf _ _ _ _ = true => eassumption end); eauto."),
  ("to_remote of anchor channels: 1-block CSV (nSequence = 1, version >= 2)",
   '''forall ctx key sig ws,
     key33 key -> elem_ok sig ->
     parse_script ws = Some (commit_script_to_remote_confirmed_of sha256 ripemd160 key) ->
     verify sigcheck key sig = true ->
     2 <= tx_version ctx -> in_sequence ctx = 1 ->
     spend_p2wsh h sigcheck ctx (commit_spend_to_remote_confirmed sig ws) = true''',
   "intros; eapply (to_remote_confirmed h sigcheck); try (match goal with |- parse_script _ = Some _ => eassumption | |- spend_p2wsh _ _ _ _ = true => eassumption | |- spend_tapleaf _ _ _ _ = true => eassumption end); eauto using csv_sat_exact."),
  ("to_remote of lease channels: CLTV lease expiry and 1-block CSV",
   '''forall ctx key lease sig ws,
     key33 key -> u32 lease -> elem_ok sig ->
     parse_script ws = Some (lease_commit_script_to_remote_confirmed_of sha256 ripemd160 key lease) ->
     verify sigcheck key sig = true ->
     2 <= tx_version ctx -> in_sequence ctx = 1 ->
     lease <= tx_locktime ctx -> tx_locktime ctx < locktime_threshold ->
     spend_p2wsh h sigcheck ctx (commit_spend_to_remote_confirmed sig ws) = true''',
   "intros; eapply (lease_to_remote_confirmed h sigcheck); try (match goal with |- parse_script _ = Some _ => eassumption | |- spend_p2wsh _ _ _ _ = true => eassumption | |- spend_tapleaf _ _ _ _ = true => eassumption end); eauto using csv_sat_exact; eapply cltv_sat_height; try (match goal with |- parse_script _ = Some _ => eassumption | |- spend_p2wsh _ _ _ _ = true => eassumption | |- spend_tapleaf _ _ _ _ = true => eassumption end); eauto; match goal with H : in_sequence _ = 1 |- _ => rewrite H end; discriminate."),
  ("HTLC they offered, claimed with the preimage p (script checks hash160 p = ripemd160 (sha256 p))",
   '''forall ctx confirmed senderkey receiverkey revkey p sig ws,
     key33 revkey -> key33 senderkey -> key33 receiverkey -> elem_ok sig -> blen p = 32 ->
     parse_script ws = Some (sender_htlc_script_of sha256 ripemd160 confirmed senderkey receiverkey revkey (sha256 p)) ->
     h revkey <> h p ->
     verify sigcheck receiverkey sig = true ->
     (confirmed = true -> 2 <= tx_version ctx /\\ in_sequence ctx = 1) ->
     spend_p2wsh h sigcheck ctx (sender_htlc_spend_redeem sig p ws) = true''',
   "intros; eapply (offered_redeem h sigcheck); try (match goal with |- parse_script _ = Some _ => eassumption | |- spend_p2wsh _ _ _ _ = true => eassumption | |- spend_tapleaf _ _ _ _ = true => eassumption end); eauto; intro Hc; match goal with H : _ = true -> _ /\\ _ |- _ => destruct (H Hc) end; eauto using csv_sat_exact."),
  ("HTLC we offered, timed out after CLTV: ReceiverHtlcSpendTimeout sets nLockTime := expiry itself\n      (regenerated receiver_htlc_spend_timeout_tx); the input must not be final",
   '''forall ctx0 confirmed cltv senderkey receiverkey revkey payhash sig ws,
     key33 revkey -> key33 senderkey -> key33 receiverkey -> cltv < 2147483648 -> elem_ok sig ->
     parse_script ws = Some (receiver_htlc_script_of sha256 ripemd160 confirmed cltv senderkey receiverkey revkey payhash) ->
     h revkey <> h [] ->
     verify sigcheck senderkey sig = true ->
     in_sequence ctx0 <> max_sequence ->
     (confirmed = true -> 2 <= tx_version ctx0 /\\ in_sequence ctx0 = 1) ->
     spend_p2wsh h sigcheck (receiver_htlc_spend_timeout_tx (Z.of_N cltv) ctx0)
       (receiver_htlc_spend_timeout sig ws) = true''',
   "intros; eapply (received_timeout h sigcheck); try (match goal with |- parse_script _ = Some _ => eassumption | |- spend_p2wsh _ _ _ _ = true => eassumption | |- spend_tapleaf _ _ _ _ = true => eassumption end); eauto using timeout_tx_cltv; [unfold u32; lia | intro Hc; match goal with H : _ = true -> _ /\\ _ |- _ => destruct (H Hc) end; apply timeout_tx_csv1; auto]."),
  ("anchor, by its owner",
   '''forall ctx key sig ws,
     key33 key -> elem_ok sig ->
     parse_script ws = Some (commit_script_anchor_of sha256 ripemd160 key) ->
     verify sigcheck key sig = true ->
     spend_p2wsh h sigcheck ctx (commit_spend_anchor sig ws) = true''',
   "intros; eapply (anchor_owner h sigcheck); try (match goal with |- parse_script _ = Some _ => eassumption | |- spend_p2wsh _ _ _ _ = true => eassumption | |- spend_tapleaf _ _ _ _ = true => eassumption end); eauto."),
  ("anchor, by anyone after 16 blocks",
   '''forall ctx key ws,
     key33 key -> compressed_pk key = true ->
     parse_script ws = Some (commit_script_anchor_of sha256 ripemd160 key) ->
     2 <= tx_version ctx -> in_sequence ctx = 16 ->
     spend_p2wsh h sigcheck ctx (commit_spend_anchor_anyone ws) = true''',
   "intros; eapply (anchor_anyone h sigcheck); try (match goal with |- parse_script _ = Some _ => eassumption | |- spend_p2wsh _ _ _ _ = true => eassumption | |- spend_tapleaf _ _ _ _ = true => eassumption end); eauto using csv_sat_exact."),
  ("taproot to_remote leaf",
   '''forall ctx (prod : bool) remotekey sig ls cb,
     xonly remotekey -> elem_ok sig -> elem_ok ls -> elem_ok cb ->
     parse_script ls = Some (new_remote_commit_script_tree_of sha256 ripemd160 prod remotekey) ->
     verify sigcheck remotekey sig = true ->
     2 <= tx_version ctx -> in_sequence ctx = 1 ->
     spend_tapleaf h sigcheck ctx (taproot_commit_remote_spend sig ls cb) = true''',
   "intros; eapply (tap_to_remote h sigcheck); try (match goal with |- parse_script _ = Some _ => eassumption | |- spend_p2wsh _ _ _ _ = true => eassumption | |- spend_tapleaf _ _ _ _ = true => eassumption end); eauto using csv_sat_exact."),
  ("taproot offered-HTLC success leaf (preimage)",
   '''forall ctx (prod : bool) receiverkey p sig ls cb,
     xonly receiverkey -> blen p = 32 -> elem_ok sig -> elem_ok ls -> elem_ok cb ->
     parse_script ls = Some (sender_htlc_tap_leaf_success_of sha256 ripemd160 prod receiverkey (sha256 p)) ->
     verify sigcheck receiverkey sig = true ->
     2 <= tx_version ctx -> in_sequence ctx = 1 ->
     spend_tapleaf h sigcheck ctx (sender_htlc_script_taproot_redeem sig p ls cb) = true''',
   "intros; eapply (tap_offered_redeem h sigcheck); try (match goal with |- parse_script _ = Some _ => eassumption | |- spend_p2wsh _ _ _ _ = true => eassumption | |- spend_tapleaf _ _ _ _ = true => eassumption end); eauto using csv_sat_exact."),
  ("taproot received-HTLC timeout leaf: ReceiverHTLCScriptTaprootTimeout sets nLockTime := expiry",
   '''forall ctx0 (prod : bool) cltv senderkey sig ls cb,
     xonly senderkey -> cltv < 2147483648 -> elem_ok sig -> elem_ok ls -> elem_ok cb ->
     parse_script ls = Some (receiver_htlc_tap_leaf_timeout_of sha256 ripemd160 prod senderkey cltv) ->
     verify sigcheck senderkey sig = true ->
     2 <= tx_version ctx0 -> in_sequence ctx0 = 1 ->
     (prod = true -> 0 < cltv) ->
     spend_tapleaf h sigcheck (receiver_htlc_script_taproot_timeout_tx (Z.of_N cltv) ctx0)
       (receiver_htlc_script_taproot_timeout sig ls cb) = true''',
   "intros; eapply (tap_received_timeout h sigcheck); try (match goal with |- parse_script _ = Some _ => eassumption | |- spend_p2wsh _ _ _ _ = true => eassumption | |- spend_tapleaf _ _ _ _ = true => eassumption end); eauto; [unfold u32; lia | apply tap_timeout_tx_csv1; auto | apply tap_timeout_tx_cltv; [assumption | match goal with H : in_sequence _ = 1 |- _ => rewrite H end; discriminate]]."),
  ("taproot anchor, by anyone after 16 blocks (script path; the owner's spend is a key-path spend)",
   '''forall ctx ls cb,
     elem_ok ls -> elem_ok cb ->
     parse_script ls = Some (new_anchor_script_tree_of sha256 ripemd160) ->
     2 <= tx_version ctx -> in_sequence ctx = 16 ->
     spend_tapleaf h sigcheck ctx (taproot_anchor_spend_any ls cb) = true''',
   "intros; eapply (tap_anchor_anyone h sigcheck); try (match goal with |- parse_script _ = Some _ => eassumption | |- spend_p2wsh _ _ _ _ = true => eassumption | |- spend_tapleaf _ _ _ _ = true => eassumption end); eauto using csv_sat_exact."),
  ])

T("C05_success_needs_preimage",
  "the success branch rejects a preimage whose hash160 differs from the committed payment hash",
  [
  ("offered HTLC (claimed by the receiver)",
   '''forall ctx confirmed senderkey receiverkey revkey payhash p sig ws,
     key33 revkey -> key33 senderkey -> key33 receiverkey -> elem_ok sig -> elem_ok p ->
     parse_script ws = Some (sender_htlc_script_of sha256 ripemd160 confirmed senderkey receiverkey revkey payhash) ->
     h revkey <> h p -> ripemd160 payhash <> h p ->
     spend_p2wsh h sigcheck ctx (sender_htlc_spend_redeem sig p ws) = false''',
   "intros; eapply (offered_redeem_needs_preimage h sigcheck); try (match goal with |- parse_script _ = Some _ => eassumption | |- spend_p2wsh _ _ _ _ = true => eassumption | |- spend_tapleaf _ _ _ _ = true => eassumption end); eauto."),
  ("received HTLC (HTLC-success input)",
   '''forall ctx confirmed cltv senderkey receiverkey revkey payhash p ssig rsig ws,
     key33 revkey -> key33 senderkey -> key33 receiverkey -> u32 cltv ->
     elem_ok ssig -> elem_ok rsig -> blen p = 32 ->
     parse_script ws = Some (receiver_htlc_script_of sha256 ripemd160 confirmed cltv senderkey receiverkey revkey payhash) ->
     h revkey <> h p -> ripemd160 payhash <> h p ->
     spend_p2wsh h sigcheck ctx (receiver_htlc_spend_redeem ssig rsig p ws) = false''',
   "intros; eapply (received_redeem_needs_preimage h sigcheck); try (match goal with |- parse_script _ = Some _ => eassumption | |- spend_p2wsh _ _ _ _ = true => eassumption | |- spend_tapleaf _ _ _ _ = true => eassumption end); eauto."),
  ("taproot offered-HTLC success leaf",
   '''forall ctx (prod : bool) receiverkey payhash p sig ls cb,
     xonly receiverkey -> elem_ok p -> elem_ok sig -> elem_ok ls -> elem_ok cb ->
     parse_script ls = Some (sender_htlc_tap_leaf_success_of sha256 ripemd160 prod receiverkey payhash) ->
     ripemd160 payhash <> h p ->
     spend_tapleaf h sigcheck ctx (sender_htlc_script_taproot_redeem sig p ls cb) = false''',
   "intros; eapply (tap_offered_redeem_needs_preimage h sigcheck); try (match goal with |- parse_script _ = Some _ => eassumption | |- spend_p2wsh _ _ _ _ = true => eassumption | |- spend_tapleaf _ _ _ _ = true => eassumption end); eauto."),
  ])

T("C05_timeout_needs_locktime",
  "the timeout branch of a received-HTLC script rejects any spending tx whose nLockTime is below the expiry",
  [
  ("received HTLC, v0",
   '''forall ctx confirmed cltv senderkey receiverkey revkey payhash sig ws,
     key33 revkey -> key33 senderkey -> key33 receiverkey -> u32 cltv -> elem_ok sig ->
     parse_script ws = Some (receiver_htlc_script_of sha256 ripemd160 confirmed cltv senderkey receiverkey revkey payhash) ->
     h revkey <> h [] ->
     tx_locktime ctx < cltv ->
     spend_p2wsh h sigcheck ctx (receiver_htlc_spend_timeout sig ws) = false''',
   "intros; eapply (received_timeout_needs_locktime h sigcheck); try (match goal with |- parse_script _ = Some _ => eassumption | |- spend_p2wsh _ _ _ _ = true => eassumption | |- spend_tapleaf _ _ _ _ = true => eassumption end); eauto."),
  ])

T("C05_delay_is_enforced",
  "(extra, safety side of the same scripts) a delayed / confirmed-only path is accepted ONLY IF the\n   BIP-112 rule holds for the spending input (csv_sat: tx version >= 2, nSequence not disabled, same\n   unit, nSequence >= delay) -- the contest period the revocation mechanism relies on",
  [
  ("to_local",
   '''forall ctx csv selfkey revkey sig ws,
     key33 revkey -> key33 selfkey -> u32 csv -> elem_ok sig ->
     parse_script ws = Some (commit_script_to_self_of sha256 ripemd160 csv selfkey revkey) ->
     spend_p2wsh h sigcheck ctx (commit_spend_timeout sig ws) = true -> csv_sat ctx csv = true''',
   "intros; eapply (to_local_timeout_needs_csv h sigcheck); try (match goal with |- parse_script _ = Some _ => eassumption | |- spend_p2wsh _ _ _ _ = true => eassumption | |- spend_tapleaf _ _ _ _ = true => eassumption end); eauto."),
  ("lease to_local: CSV and the CLTV lease expiry",
   '''forall ctx csv lease selfkey revkey sig ws,
     key33 revkey -> key33 selfkey -> u32 csv -> u32 lease -> elem_ok sig ->
     parse_script ws = Some (lease_commit_script_to_self_of sha256 ripemd160 selfkey revkey csv lease) ->
     spend_p2wsh h sigcheck ctx (commit_spend_timeout sig ws) = true ->
     csv_sat ctx csv && cltv_sat ctx lease = true''',
   "intros; apply andb_true_intro; eapply (lease_to_local_timeout_needs_csv h sigcheck); try (match goal with |- parse_script _ = Some _ => eassumption | |- spend_p2wsh _ _ _ _ = true => eassumption | |- spend_tapleaf _ _ _ _ = true => eassumption end); eauto."),
  ("second-level output",
   '''forall ctx csv delaykey revkey sig ws,
     key33 revkey -> key33 delaykey -> u32 csv -> elem_ok sig ->
     parse_script ws = Some (second_level_htlc_script_of sha256 ripemd160 revkey delaykey csv) ->
     spend_p2wsh h sigcheck ctx (htlc_second_level_spend sig ws) = true -> csv_sat ctx csv = true''',
   "intros; eapply (second_level_delay_needs_csv h sigcheck); try (match goal with |- parse_script _ = Some _ => eassumption | |- spend_p2wsh _ _ _ _ = true => eassumption | |- spend_tapleaf _ _ _ _ = true => eassumption end); eauto."),
  ("to_remote of anchor channels",
   '''forall ctx key sig ws,
     key33 key -> elem_ok sig ->
     parse_script ws = Some (commit_script_to_remote_confirmed_of sha256 ripemd160 key) ->
     spend_p2wsh h sigcheck ctx (commit_spend_to_remote_confirmed sig ws) = true -> csv_sat ctx 1 = true''',
   "intros; eapply (to_remote_confirmed_needs_csv h sigcheck); try (match goal with |- parse_script _ = Some _ => eassumption | |- spend_p2wsh _ _ _ _ = true => eassumption | |- spend_tapleaf _ _ _ _ = true => eassumption end); eauto."),
  ("offered HTLC with confirmedSpend, preimage path",
   '''forall ctx senderkey receiverkey revkey p sig ws,
     key33 revkey -> key33 senderkey -> key33 receiverkey -> elem_ok sig -> blen p = 32 ->
     parse_script ws = Some (sender_htlc_script_of sha256 ripemd160 true senderkey receiverkey revkey (sha256 p)) ->
     h revkey <> h p ->
     spend_p2wsh h sigcheck ctx (sender_htlc_spend_redeem sig p ws) = true -> csv_sat ctx 1 = true''',
   "intros; eapply (offered_redeem_confirmed_needs_csv h sigcheck); try (match goal with |- parse_script _ = Some _ => eassumption | |- spend_p2wsh _ _ _ _ = true => eassumption | |- spend_tapleaf _ _ _ _ = true => eassumption end); eauto."),
  ("received HTLC with confirmedSpend, timeout path",
   '''forall ctx cltv senderkey receiverkey revkey payhash sig ws,
     key33 revkey -> key33 senderkey -> key33 receiverkey -> u32 cltv -> elem_ok sig ->
     parse_script ws = Some (receiver_htlc_script_of sha256 ripemd160 true cltv senderkey receiverkey revkey payhash) ->
     h revkey <> h [] ->
     spend_p2wsh h sigcheck ctx (receiver_htlc_spend_timeout sig ws) = true -> csv_sat ctx 1 = true''',
   "intros; eapply (received_timeout_confirmed_needs_csv h sigcheck); try (match goal with |- parse_script _ = Some _ => eassumption | |- spend_p2wsh _ _ _ _ = true => eassumption | |- spend_tapleaf _ _ _ _ = true => eassumption end); eauto."),
  ("taproot to_local delay leaf",
   '''forall ctx (prod : bool) csv selfkey sig ls cb,
     xonly selfkey -> u32 csv -> elem_ok sig -> elem_ok ls -> elem_ok cb ->
     parse_script ls = Some (taproot_local_commit_delay_script_of sha256 ripemd160 prod csv selfkey) ->
     spend_tapleaf h sigcheck ctx (taproot_commit_spend_success sig ls cb) = true -> csv_sat ctx csv = true''',
   "intros; eapply (tap_to_local_delay_needs_csv h sigcheck); try (match goal with |- parse_script _ = Some _ => eassumption | |- spend_p2wsh _ _ _ _ = true => eassumption | |- spend_tapleaf _ _ _ _ = true => eassumption end); eauto."),
  ("taproot second-level delay leaf",
   '''forall ctx (prod : bool) csv delaykey sig ls cb,
     xonly delaykey -> u32 csv -> elem_ok sig -> elem_ok ls -> elem_ok cb ->
     parse_script ls = Some (taproot_second_level_tap_leaf_of sha256 ripemd160 prod delaykey csv) ->
     spend_tapleaf h sigcheck ctx (taproot_htlc_spend_success sig ls cb) = true -> csv_sat ctx csv = true''',
   "intros; eapply (tap_second_level_delay_needs_csv h sigcheck); try (match goal with |- parse_script _ = Some _ => eassumption | |- spend_p2wsh _ _ _ _ = true => eassumption | |- spend_tapleaf _ _ _ _ = true => eassumption end); eauto."),
  ])

T("C05_funding_spend_accepts",
  "(extra) the 2-of-2 funding output is spent by SpendMultiSig whichever way the keys sort",
  [
  ("funding multisig",
   '''forall ctx (greater : bool) pa pb siga sigb ws,
     key33 pa -> key33 pb -> elem_ok siga -> elem_ok sigb ->
     parse_script ws = Some (gen_multi_sig_script_of sha256 ripemd160 greater pa pb) ->
     verify sigcheck pa siga = true -> verify sigcheck pb sigb = true ->
     spend_p2wsh h sigcheck ctx (spend_multi_sig greater sigb siga ws) = true''',
   "intros ctx greater; destruct greater; intros; unfold spend_multi_sig; [eapply (funding_multisig h sigcheck) with (pa := pb) (pb := pa) | eapply (funding_multisig h sigcheck) with (pa := pa) (pb := pb)]; eauto."),
  ])

import re as _re
_gen = open('/verif/coq/theories/Gen/GenScripts.v').read()
_pins = _re.findall(r"^Definition (\w+_params) : list string := (\[.*\])\.$", _gen, _re.M)
ROLES = "\n  /\\ ".join("%s = %s" % (n, v) for n, v in _pins)

def stmt(conj):
    parts = []
    for (c, s, _) in conj:
        parts.append("  (* %s *)\n  (%s)" % (c, s))
    return PRE + "\n" + "\n  /\\\n".join(parts)

hdr = '''From Coq Require Import List NArith ZArith Bool Lia String.
From LV Require Import Script.Interp Script.Parse Script.Witness Gen.GenScripts Script.Spend.
'''

b = "(* Proofs of the C04/C05 script-layer theorems (statements repeated in Props.v). *)\n" + hdr
b += '''From LV Require Import Script.Proofs Script.Paths.
Import ListNotations.
Local Open Scope N_scope.

Lemma cltv_sat_height : forall ctx n, n <= tx_locktime ctx -> tx_locktime ctx < locktime_threshold ->
  in_sequence ctx <> max_sequence -> cltv_sat ctx n = true.
Proof.
  intros ctx n H1 H2 H3. unfold cltv_sat, verify_locktime.
  destruct (N.eqb_spec (in_sequence ctx) max_sequence); [contradiction|].
  destruct (N.ltb_spec (tx_locktime ctx) locktime_threshold); [|lia].
  destruct (N.ltb_spec n locktime_threshold); [|lia].
  destruct (N.leb_spec n (tx_locktime ctx)); [reflexivity|lia].
Qed.

(* the regenerated tx effect of ReceiverHtlcSpendTimeout / ReceiverHTLCScriptTaprootTimeout *)
Lemma timeout_tx_eq : forall cltv c, cltv < 2147483648 ->
  receiver_htlc_spend_timeout_tx (Z.of_N cltv) c = set_tx_locktime cltv c /\\
  receiver_htlc_script_taproot_timeout_tx (Z.of_N cltv) c = set_tx_locktime cltv c.
Proof.
  intros cltv c H. unfold receiver_htlc_spend_timeout_tx, receiver_htlc_script_taproot_timeout_tx.
  destruct (Z.eqb_spec (Z.of_N cltv) (-1)); [lia|].
  rewrite Z.mod_small by lia. rewrite N2Z.id. split; reflexivity.
Qed.

Lemma timeout_tx_cltv : forall cltv c, cltv < 2147483648 -> in_sequence c <> max_sequence ->
  cltv_sat (receiver_htlc_spend_timeout_tx (Z.of_N cltv) c) cltv = true.
Proof. intros cltv c H Hs. rewrite (proj1 (timeout_tx_eq cltv c H)). apply cltv_sat_exact; [reflexivity|exact Hs]. Qed.

Lemma tap_timeout_tx_cltv : forall cltv c, cltv < 2147483648 -> in_sequence c <> max_sequence ->
  cltv_sat (receiver_htlc_script_taproot_timeout_tx (Z.of_N cltv) c) cltv = true.
Proof. intros cltv c H Hs. rewrite (proj2 (timeout_tx_eq cltv c H)). apply cltv_sat_exact; [reflexivity|exact Hs]. Qed.

Lemma timeout_tx_csv1 : forall cltv c, cltv < 2147483648 -> 2 <= tx_version c -> in_sequence c = 1 ->
  csv_sat (receiver_htlc_spend_timeout_tx (Z.of_N cltv) c) 1 = true.
Proof. intros cltv c H Hv Hs. rewrite (proj1 (timeout_tx_eq cltv c H)). apply csv_sat_exact; assumption. Qed.

Lemma tap_timeout_tx_csv1 : forall cltv c, cltv < 2147483648 -> 2 <= tx_version c -> in_sequence c = 1 ->
  csv_sat (receiver_htlc_script_taproot_timeout_tx (Z.of_N cltv) c) 1 = true.
Proof. intros cltv c H Hv Hs. rewrite (proj2 (timeout_tx_eq cltv c H)). apply csv_sat_exact; assumption. Qed.

(* "nSequence >= delay" for block-based relative locktimes *)
Lemma csv_blocks_sufficient : forall ctx d,
  2 <= tx_version ctx -> d <= in_sequence ctx -> in_sequence ctx < 65536 -> csv_sat ctx d = true.
Proof.
  intros ctx d Hv Hd Hs. unfold csv_sat, seq_disabled, seq_masked, verify_locktime, seq_type_flag.
  assert (E1 : d / 2147483648 = 0) by (apply N.div_small; lia).
  assert (E2 : in_sequence ctx / 2147483648 = 0) by (apply N.div_small; lia).
  assert (E3 : d / 4194304 = 0) by (apply N.div_small; lia).
  assert (E4 : in_sequence ctx / 4194304 = 0) by (apply N.div_small; lia).
  rewrite E1, E2, E3, E4. cbn [N.modulo N.div_eucl N.eqb snd].
  destruct (N.ltb_spec (tx_version ctx) 2); [lia|].
  rewrite !N.mod_small by lia. rewrite N.mul_0_r, !N.add_0_r.
  destruct (N.ltb_spec (in_sequence ctx) 4194304); [|lia].
  destruct (N.ltb_spec d 4194304); [|lia].
  destruct (N.leb_spec d (in_sequence ctx)); [reflexivity|lia].
Qed.

'''
p = "(* C04 / C05 script-layer property theorems (layer 4 of C04, script layer of C05).\n"
p += '''   Statements only; proofs in Bundle.v / Paths.v / Proofs.v.

   Reading guide.  Scripts are the REGENERATED templates of input/script_utils.go
   (Gen/GenScripts.v, `<fn>_of` = the template instantiated the way the Go function does from
   its key / hash / delay arguments); witnesses are the REGENERATED stacks of the *Spend*
   functions; `spend_p2wsh` / `spend_p2wkh` / `spend_tapleaf` (Spend.v) run the interpreter
   (Interp.v) on the witness minus its script (and control block), the script being given by
   its bytes `ws`/`ls` that parse (Parse.v) to the template.  Everything is quantified over ALL
   keys, hashes, delays, signatures and (where no time lock is involved) all tx contexts.

   Section-free: `sha256`, `ripemd160` (OP_HASH160 = ripemd160 o sha256, exactly what the
   engine computes) and the signature oracle `sigcheck` are universally quantified; the only
   hypotheses on them are stated in the theorems: ripemd160 digests are 20 bytes long,
   `verify sigcheck key sig = true` where a signature is needed, and the hash inequalities
   `h revkey <> h []` / `h revkey <> h preimage` that keep a timeout / success witness out of
   the revocation branch (a collision there would be a hash160 collision with the revocation
   key).  Side conditions key33 / xonly / u32 / elem_ok / schnorr_len are byte-length facts of
   serialized keys, uint32 template numbers, witness items (<= 520 bytes) and Schnorr signatures. *)
'''
p += hdr + '''From LV Require Import Script.Paths Script.Bundle.
Import ListNotations.
Local Open Scope N_scope.

'''
for (name, comment, conj) in thms:
    s = stmt(conj)
    b += "Lemma %s_proof :\n  %s.\nProof.\n  intros sha256 ripemd160 sigcheck h Hrip.\n  unfold hash160_of in h.\n  repeat split.\n" % (name, s)
    for (c, st, pr) in conj:
        b += "  - (* %s *)\n    UNF %s\n    all: try (subst h; apply Hrip).\n" % (c.split("\n")[0], pr)
    b += "Qed.\n\n"
    p += "(* %s *)\nTheorem %s :\n  %s.\nProof. exact %s_proof. Qed.\n\n" % (comment, name, s, name)
b = b.replace("UNF ", "")
b += "(* the order of the symbolic witness items the positional theorems rely on *)\nLemma witness_roles :\n  %s.\nProof. repeat split; reflexivity. Qed.\n" % ROLES
p += """(* Witness items are positional parameters of the regenerated stack functions; this pins which
   symbolic item each position is (names derived by the translator from the Go expressions:
   sweep_sig = signer.SignOutputRaw(...) + sighash byte, receiver_sig / sender_sig = the
   counterparty's HTLC signature argument, revoke_key, payment_preimage, witness_script,
   ctrl_block ...).  A reordering of witness elements in script_utils.go changes these lists. *)
Theorem C0405_witness_roles :
  %s.
Proof. exact witness_roles. Qed.

""" % ROLES
p += '''(* (extra) block-based relative locktime: nSequence >= delay suffices *)
Theorem C05_csv_blocks_sufficient : forall ctx d,
  2 <= tx_version ctx -> d <= in_sequence ctx -> in_sequence ctx < 65536 -> csv_sat ctx d = true.
Proof. exact csv_blocks_sufficient. Qed.
'''
open('/verif/coq/theories/Script/Bundle.v','w').write(b)
open('/verif/coq/theories/Script/Props.v','w').write(p)
