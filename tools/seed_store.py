#!/usr/bin/env python3
"""tools/seed_store.py <PID> <name> — copy a confirmed seeded change into /verif/seeded/<name>/ with the lead's own
confirmation record (from /tmp/sv_*_<name>.log produced by seed_verify.sh and /tmp/seed_tests_all.log)."""
import json, os, re, shutil, sys
pid, name = sys.argv[1], sys.argv[2]
src = (sys.argv[3] if len(sys.argv) > 3 else "/var/tmp/seed-%s" % pid) + "/SEED"
dst = "/verif/seeded/%s" % name
os.makedirs(dst, exist_ok=True)
shutil.copy(os.path.join(src, "patch.diff"), os.path.join(dst, "patch.diff"))
if os.path.isdir(os.path.join(dst, "demo")):
    shutil.rmtree(os.path.join(dst, "demo"))
shutil.copytree(os.path.join(src, "demo"), os.path.join(dst, "demo"))
meta = json.load(open(os.path.join(src, "meta.json")))
def tail(p, n=6):
    try:
        return open(p, errors="replace").read().strip().split("\n")[-n:]
    except FileNotFoundError:
        return []
chk = open("/tmp/sv_check_%s.log" % name, errors="replace").read() if os.path.exists("/tmp/sv_check_%s.log" % name) else ""
viol = [l[:220] for l in chk.split("\n") if l.startswith("VIOLATION")]
ok = [l for l in chk.split("\n") if l.startswith("OK ")]
tests = ""
if os.path.exists("/tmp/seed_tests_all.log"):
    t = open("/tmp/seed_tests_all.log").read()
    m = re.search(r"#### %s\n(.*?)(?=\n#### |\Z)" % re.escape(name), t, re.S)
    tests = m.group(1).strip().split("\n") if m else ""
rec = {
    "property": pid,
    "breaks": meta.get("summary"),
    "needs_to_manifest": meta.get("needs"),
    "files_touched": meta.get("files_touched"),
    "demo": meta.get("demo"),
    "author_meta": {k: meta.get(k) for k in ("existing_tests_run", "baseline_failures", "with_change_failures")},
    "lead_confirmation": {
        "how": "tools/seed_verify.sh %s <seed worktree %s> %s (fresh scratch worktree of /repo HEAD: demo on clean tree, "
               "git apply patch.diff, demo on patched tree, demo removed, VERIF_REPO=<worktree> ./check %s) and "
               "tools/seed_tests.sh %s (go build ./... + go test of the touched packages on the patched tree)" % (pid, pid, name, pid, name),
        "demo_clean_tree_tail": tail("/tmp/sv_clean_%s.log" % name, 3),
        "demo_patched_tree_tail": tail("/tmp/sv_patched_%s.log" % name, 6),
        "existing_tests_on_patched_tree": tests,
        "check_result": "CAUGHT" if viol else ("MISSED" if ok else "unknown"),
        "check_lines": viol[:6] or ok,
    },
}
json.dump(rec, open(os.path.join(dst, "meta.json"), "w"), indent=1)
print(name, rec["lead_confirmation"]["check_result"], len(viol), "violation lines")
