#!/bin/bash
# tools/seed_verify.sh <PID> <seed-worktree> [name]
# Confirms a seeded change independently (clean scratch worktree of /repo HEAD) and runs ./check against it.
set -u
PID=$1; SRC=$2; NAME=${3:-$PID-1}
export GOFLAGS=-mod=mod GOPROXY=off
SV=/var/tmp/sv-$NAME
git -C /repo worktree remove --force $SV >/dev/null 2>&1
git -C /repo worktree add --detach $SV >/dev/null 2>&1 || { echo "cannot create worktree"; exit 2; }
META=$SRC/SEED/meta.json
PLACE=$(python3 -c "import json;print(json.load(open('$META'))['demo']['place_at'])")
RUN=$(python3 -c "import json;print(json.load(open('$META'))['demo']['run'])")
echo "== demo on CLEAN tree (must pass): $RUN"
mkdir -p $(dirname $SV/$PLACE)
DEMOFILE=$(ls $SRC/SEED/demo/* | head -1)
if [ -d "$SRC/SEED/demo" ] && [ $(ls $SRC/SEED/demo | wc -l) -gt 1 ]; then
  # several files: copy each next to place_at's directory
  for f in $SRC/SEED/demo/*; do cp $f $(dirname $SV/$PLACE)/; done
else
  cp $DEMOFILE $SV/$PLACE
fi
(cd $SV && timeout 1800 bash -c "$RUN" > /tmp/sv_clean_$NAME.log 2>&1); RC_CLEAN=$?
tail -3 /tmp/sv_clean_$NAME.log
echo "== apply patch"
(cd $SV && git apply $SRC/SEED/patch.diff) || { echo "PATCH DOES NOT APPLY"; exit 3; }
(cd $SV && git diff --stat | tail -3)
echo "== demo on PATCHED tree (must fail)"
(cd $SV && timeout 1800 bash -c "$RUN" > /tmp/sv_patched_$NAME.log 2>&1); RC_PATCHED=$?
tail -5 /tmp/sv_patched_$NAME.log
echo "clean rc=$RC_CLEAN patched rc=$RC_PATCHED"
# remove the demo before running our check (it is not part of the change)
(cd $SV && git status --short | grep '^??' | awk '{print $2}' | xargs -r rm -rf)
echo "== ./check $PID against the patched tree"
(cd /verif && VERIF_REPO=$SV timeout 3000 ./check $PID > /tmp/sv_check_$NAME.log 2>&1); RC_CHECK=$?
grep -E "^(VIOLATION|KNOWN-FINDING|OK)" /tmp/sv_check_$NAME.log | cut -c1-200 | head -8
echo "check rc=$RC_CHECK"
