#!/usr/bin/env python3
import json, sys
pid = sys.argv[1]
extra = open(sys.argv[2]).read() if len(sys.argv) > 2 else ""
common = open('/verif/tools/prompts/common.md').read().replace('{PID}', pid).replace('{pid}', pid.lower())
for l in open('/verif/properties.jsonl'):
    p = json.loads(l)
    if p['id'] == pid:
        break
txt = common + "\n\nPROPERTY %s — %s\nStatement: %s\nQuantifier: %s\nWhy tests can't: %s\nAnchor files: %s\nMechanisms: %s\nObserve at: %s\n\nWORK PACKAGE SPECIFICS\n%s" % (
    pid, p['title'], p['statement'], p['quantifier']['text'], p['why_tests_cant'],
    ", ".join(p['anchors']['files']),
    "; ".join("%s (%s)" % (m.get('name'), m.get('where')) for m in p['anchors']['mechanism']),
    "; ".join(p['anchors'].get('observe_at') or []), extra)
print(txt)
