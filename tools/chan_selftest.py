"""Throwaway self-test of the chan harness + predicates: python3 selftest.py [seeds...] [K=V env...]"""
import os, sys, time, json, collections
sys.path.insert(0, os.path.dirname(os.path.dirname(os.path.abspath(__file__))))
from props import chan_common as cc

seeds = [a for a in sys.argv[1:] if "=" not in a] or ["1", "2", "3"]
env0 = dict(a.split("=", 1) for a in sys.argv[1:] if "=" in a)
tot = collections.Counter()
for s in seeds:
    env = dict(env0); env["VERIF_SEED"] = s
    t = time.time()
    rows = cc.run_chan_harness(None, env)
    last = cc.run_chan_harness.last
    print("seed %s rc=%d cases=%d wall=%.1fs" % (s, last["rc"], len(rows), time.time() - t))
    if last["rc"] != 0:
        print(last["log"][-3000:])
    h = cc.histograms(rows)
    print(json.dumps({k: h[k] for k in ("aborted","op_results","min_final_height_median")}, sort_keys=True)[:1800])
    nq = ns = npairs = nrel = 0
    bad = 0
    for r in rows:
        f = cc.all_predicates(r)
        nq += cc.mirror_case.quiescent_states; ns += cc.agreement.sigs_checked
        npairs += cc.balance_moves_only_by_htlc.pairs; nrel += cc.reload_consistent.reloads
        sa = cc.soft_abort(r)
        if sa: tot["soft:" + sa] += 1
        ks = cc.known_signature(r)
        if ks: tot["known:" + ks] += 1
        if f and ks:
            print("  case %d (%s): KNOWN %s" % (r["case"], r["chan_type"], ks)); continue
        if f:
            bad += 1
            for k, v in f.items():
                tot[k] += 1
                print("  case %d (%s) %s: %d failures, first: %s" % (r["case"], r["chan_type"], k, len(v), v[0][:600]))
    print("  predicate failures in %d/%d cases; quiescent states %d, sigs %d, commit pairs %d, reload obs %d"
          % (bad, len(rows), nq, ns, npairs, nrel))
print("TOTAL", dict(tot))
