#!/usr/bin/env python3
# run with python3-vt (tooling venv has jsonschema)
import json, glob, jsonschema, sys
ok = True
jsonschema.validate(json.load(open('/verif/MANIFEST.json')), json.load(open('/root/.vp/MANIFEST.schema.json')))
es = json.load(open('/root/.vp/EVIDENCE.schema.json'))
for p in sorted(glob.glob('/verif/evidence/*.json')):
    try:
        jsonschema.validate(json.load(open(p)), es)
    except Exception as e:
        ok = False
        print("INVALID", p, str(e)[:300])
print("valid" if ok else "INVALID")
sys.exit(0 if ok else 1)
