"""minimize.py <seed> <case> [class-substring]: re-run one generated case, then delta-debug its op list
through VERIF_CHAN_SCRIPT batches until a minimal schedule with the same failing class remains."""
import sys, json, os
sys.path.insert(0, os.path.dirname(os.path.dirname(os.path.abspath(__file__))))
from props import chan_common as cc

seed, case = sys.argv[1], sys.argv[2]
want = sys.argv[3] if len(sys.argv) > 3 else None
extra = dict(a.split("=", 1) for a in sys.argv[4:])
env = {"VERIF_SEED": seed, "VERIF_FIRST_CASE": case, "VERIF_CASES": "1"}
env.update(extra)
rows = cc.run_chan_harness(None, env, suffix="_min", corpus=False)
r = rows[0]
print("case", r["case"], r["chan_type"], "aborted:", r["aborted"])
def failclass(row):
    for st in row["steps"]:
        res = [st["res"]] + [d[2] for d in (st.get("extra") or {}).get("delivered") or []]
        for x in res:
            if x not in ("ok",) and (cc._hard(x) or x.startswith("other:not enough") or x.startswith("other:invalid partial")):
                return x
    return None
cls = want or failclass(r)
print("target class:", cls)
ops = [st["op"] for st in r["steps"]]
# cut off after failing step
def fails(rows_):
    out = []
    for row in rows_:
        fc = failclass(row)
        out.append(fc is not None and cls in fc)
    return out
def run_batch(cands):
    path = os.path.join(cc.CORPUS_DIR, "..", "..", "build", "chan_min_batch.json")
    json.dump([{"chan_type": r["chan_type"], "ops": c} for c in cands], open(path, "w"))
    rows_ = cc.run_chan_harness(None, {"VERIF_CHAN_SCRIPT": path}, suffix="_min", corpus=False)
    return fails(rows_)
assert run_batch([ops])[0], "script replay does not reproduce"
n = 2
while len(ops) >= 2:
    chunk = max(1, len(ops) // n)
    cands = [ops[:i] + ops[i + chunk:] for i in range(0, len(ops), chunk)]
    res = run_batch(cands)
    hit = next((c for c, ok in zip(cands, res) if ok), None)
    if hit is not None:
        ops = hit; n = max(n - 1, 2)
        print("reduced to", len(ops))
    else:
        if chunk == 1: break
        n = min(n * 2, len(ops))
print(json.dumps({"chan_type": r["chan_type"], "ops": ops}))
