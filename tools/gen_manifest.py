#!/usr/bin/env python3
import json, os, sys
ROOT = os.path.dirname(os.path.dirname(os.path.abspath(__file__)))
sys.path.insert(0, ROOT)
from props.registry import CLAIMED, NOT_CLAIMED
props = [json.loads(l) for l in open(os.path.join(ROOT, "properties.jsonl")) if l.strip()]
checks, na = [], []
for p in props:
    pid = p["id"]
    if pid in CLAIMED:
        c = CLAIMED[pid]
        checks.append({
            "property_id": pid,
            "quick_cmd": "./check %s --tier quick" % pid,
            "thorough_cmd": "./check %s --tier thorough" % pid,
            "evidence_file": "/verif/evidence/%s.json" % pid,
            "replay_cmd_template": "./check %s --replay {path}" % pid,
            "engine": "coq-lv",
            "level_claimed": {"category": "proof", "text": c["text"], "design_ref": c["design_ref"]},
            "level_note": c["note"],
            "technique": c["technique"],
        })
    else:
        na.append({"property_id": pid,
                   "reason": NOT_CLAIMED.get(pid, "not built yet in this session (planned: DESIGN.md §4 %s); no check is claimed" % pid)})
m = {
    "version": 1,
    "setup_cmd": "./setup",
    "hooks": {
        "guard": "verif",
        "enable": "go test -tags verif -overlay <build/overlay/<id>/overlay.json>: harness _test.go files "
                  "from /verif/harness are injected virtually; no file of /repo is modified",
        "baseline_off_cmd": "for m in $(cat /w/out/gomods.txt); do MF=$(cd /repo/$m && . /w/out/goenv.sh && gomodflag); (cd /repo/$m && go test $MF -json -vet=off -count=1 -timeout 25m ./...); done",
        "source_commits": [],
        "add_only": True,
    },
    "engines": [{
        "name": "coq-lv", "path": "/verif/coq",
        "serves_properties": [c["property_id"] for c in checks],
        "kind_free_text": "Coq 8.16.1 development (models, proofs, property theorems) + Go->Coq translator + "
                          "differential correspondence harness (go test -overlay) driven by ./check",
    }],
    "checks": checks,
    "notes": "See DESIGN.md. Every check: regenerate Gen/*.v from /repo, rebuild the property's .vo closure, "
             "audit for axioms, Print Assumptions, run the real Go code on seeded inputs through an injected "
             "harness, re-run the Coq model on the same inputs by vm_compute, evaluate the property predicate "
             "on the implementation's own trace.",
    "not_applicable": na,
}
json.dump(m, open(os.path.join(ROOT, "MANIFEST.json"), "w"), indent=1)
print("claimed:", [c["property_id"] for c in checks])
