#!/bin/bash
# tools/seed_round.sh <PID> <round>  : verify + test + store one seeded change of round N (/var/tmp/seedN-PID)
PID=$1; R=$2; SRC=/var/tmp/seed$R-$PID; NAME=$PID-$R
[ "$R" = "1" ] && SRC=/var/tmp/seed-$PID
cd /verif
tools/seed_verify.sh $PID $SRC $NAME 2>&1 | grep -E "clean rc|check rc|^OK|^VIOLATION|PATCH DOES" | cut -c1-140
{ echo "#### $NAME"; tools/seed_tests.sh $NAME 2>&1; } >> /tmp/seed_tests_all.log
python3 tools/seed_store.py $PID $NAME $SRC
