#!/bin/bash
# tools/seed_tests.sh <name> : in /var/tmp/sv-<name> (patch applied, demo removed) build + run the existing tests of the
# touched packages; print failing tests (to be compared with the known baseline failures)
NAME=$1; SV=/var/tmp/sv-$NAME
export GOFLAGS=-mod=mod GOPROXY=off
cd $SV || exit 2
PKGS=$(git diff --name-only | grep '\.go$' | xargs -n1 dirname | sort -u | sed 's|^|./|')
echo "touched packages: $PKGS"
timeout 1500 go build ./... 2>&1 | tail -3; echo "build rc=${PIPESTATUS[0]}"
for p in $PKGS; do
  case $p in ./tlv*) (cd tlv && timeout 1500 go test -count=1 ./... 2>&1 | grep -E "^(--- FAIL|FAIL|ok)" | head -20);;
  *) TAGS=""; [ "$p" = "./payments/db" ] && TAGS="-tags test_db_sqlite"
     timeout 2400 go test -count=1 $TAGS $p 2>&1 | grep -E "^(--- FAIL|FAIL|ok|panic)" | head -20;;
  esac
done
