(* C09 trace checker: evaluates the machine model on the inputs of every
   recorded implementation case and compares (wire failure, detail, carried
   amount/expiry) with what the real link returned. *)
From Coq Require Import ZArith List Bool NArith.
From LV Require Import Policy.Model.
Import ListNotations.
Local Open Scope Z_scope.

Record case := mkCase {
  c_transit : bool;
  c_env : env;
  c_htlc : htlc;
  c_wire : Z;      (* observed: harness enum, see wire_code *)
  c_detail : Z;
  c_arg : Z
}.

(* Flat constructor used by the generated cases files. *)
Definition C (transit : bool)
  (mn mx base rate delta rej maxcltv chanbw : Z)
  (auxk auxbw : Z) (custom updok : bool)
  (inamt outamt inexp outexp ibase irate hgt : Z)
  (w d a : Z) : case :=
  mkCase transit
    (mkEnv (mkPolicy mn mx base rate delta) rej maxcltv chanbw
       (if auxk =? 0 then AuxNone else if auxk =? 1 then AuxDeclines
        else if auxk =? 2 then AuxHandles auxbw else AuxError)
       custom updok)
    (mkHtlc inamt outamt inexp outexp ibase irate hgt)
    w d a.

Definition wire_code (w : wire) : Z :=
  match w with
  | WOk => 0 | WFeeInsufficient => 1 | WAmountBelowMinimum => 2
  | WTemporaryChannelFailure => 3 | WExpiryTooSoon => 4 | WExpiryTooFar => 5
  | WIncorrectCltvExpiry => 6 | WTemporaryNodeFailure => 7
  end.

Definition detail_code (d : detail) : Z :=
  match d with DNone => 0 | DExceedsMax => 1 | DInsufficientBalance => 2 end.

Definition run_m (c : case) : result :=
  if c_transit c then check_transit_m (c_env c) (c_htlc c)
  else check_forward_m (c_env c) (c_htlc c).

Definition run_s (c : case) : result :=
  if c_transit c then check_transit_s (c_env c) (c_htlc c)
  else check_forward_s (c_env c) (c_htlc c).

Definition res_eqb (r : result) (w d a : Z) : bool :=
  (wire_code (r_wire r) =? w) && (detail_code (r_detail r) =? d) && (r_arg r =? a).

(* [] if model and implementation agree, else the model's answer *)
Definition check_case (c : case) : list N :=
  let r := run_m c in
  if res_eqb r (c_wire c) (c_detail c) (c_arg c) then []
  else [Z.to_N (wire_code (r_wire r)); Z.to_N (detail_code (r_detail r));
        Z.to_N (r_arg r)].

Fixpoint mismatches (cases : list case) (i : N) : list (N * list N) :=
  match cases with
  | [] => []
  | c :: r =>
    match check_case c with
    | [] => mismatches r (i + 1)
    | bad => (i, bad) :: mismatches r (i + 1)
    end
  end.

(* Cross-check of theorem C09_machine_eq_spec on the recorded inputs: cases
   lying in D on which the machine and the unbounded version differ (the
   theorem says: none).  Reported with code 99. *)
Definition res_same (a b : result) : bool :=
  res_eqb a (wire_code (r_wire b)) (detail_code (r_detail b)) (r_arg b).

Fixpoint d_disagreements (cases : list case) (i : N) : list (N * list N) :=
  match cases with
  | [] => []
  | c :: r =>
    if D_b (c_env c) (c_htlc c) && negb (res_same (run_m c) (run_s c))
    then (i, [99%N]) :: d_disagreements r (i + 1)
    else d_disagreements r (i + 1)
  end.

Definition mismatches_all (cases : list case) (i : N) : list (N * list N) :=
  mismatches cases i ++ d_disagreements cases i.

(* number of cases inside D (coverage figure) *)
Definition count_in_D (cases : list case) : N :=
  N.of_nat (length (filter (fun c => D_b (c_env c) (c_htlc c)) cases)).

(* ---- link selection of Switch.handlePacketAdd (tie of C09_switch_picks_only_ok) ---- *)
Definition wire_of_code (z : Z) : wire :=
  if z =? 0 then WOk else if z =? 1 then WFeeInsufficient
  else if z =? 2 then WAmountBelowMinimum else if z =? 3 then WTemporaryChannelFailure
  else if z =? 4 then WExpiryTooSoon else if z =? 5 then WExpiryTooFar
  else if z =? 6 then WIncorrectCltvExpiry else WTemporaryNodeFailure.

Record selcase := S {
  s_elig : list bool;       (* EligibleToForward of each candidate link *)
  s_checks : list Z;        (* CheckHtlcForward result of each link (wire enum) *)
  s_req : Z;                (* index of the requested outgoing channel *)
  s_chosen : Z;             (* observed: link that got the add, -1 = failed back *)
  s_reply : Z               (* observed: failure sent back (20 = UnknownNextPeer) *)
}.

Definition sel_ok (c : selcase) : bool :=
  let links := seq 0 (length (s_elig c)) in
  let eligible := fun i => nth i (s_elig c) false in
  let check := fun i => mkRes (wire_of_code (nth i (s_checks c) 7)) DNone 0 in
  let dests := destinations nat eligible check links in
  if s_chosen c <? 0 then
    (* failed back: nobody admits, and the failure is the requested link's *)
    match dests with
    | [] =>
      let r := Z.to_nat (s_req c) in
      s_reply c =? (if eligible r then nth r (s_checks c) 7 else 20)
    | _ => false
    end
  else existsb (Nat.eqb (Z.to_nat (s_chosen c))) dests.

Fixpoint sel_mismatches (cases : list selcase) (i : N) : list (N * list N) :=
  match cases with
  | [] => []
  | c :: r =>
    if sel_ok c then sel_mismatches r (i + 1)
    else (i, [98%N]) :: sel_mismatches r (i + 1)
  end.

(* ---- volume path (extracted to OCaml): one verdict per case ----
   (model agrees with implementation, machine = unbounded version if in D) *)
Definition verdict (c : case) : bool * bool :=
  (match check_case c with [] => true | _ => false end,
   negb (D_b (c_env c) (c_htlc c) && negb (res_same (run_m c) (run_s c)))).
