(* C09 trace checker: evaluates the machine model on the inputs of every
   recorded implementation case and compares (wire failure, detail, carried
   amount/expiry) with what the real link returned. *)
From Coq Require Import ZArith List Bool NArith.
From LV Require Import Policy.Model.
Import ListNotations.
Local Open Scope Z_scope.

Record case := mkCase {
  c_transit : bool;
  c_env : env;
  c_htlc : htlc;
  c_wire : Z;      (* observed: harness enum, see wire_code *)
  c_detail : Z;
  c_arg : Z
}.

(* Flat constructor used by the generated cases files. *)
Definition C (transit : bool)
  (mn mx base rate delta rej maxcltv chanbw : Z)
  (auxk auxbw : Z) (custom updok : bool)
  (inamt outamt inexp outexp ibase irate hgt : Z)
  (w d a : Z) : case :=
  mkCase transit
    (mkEnv (mkPolicy mn mx base rate delta) rej maxcltv chanbw
       (if auxk =? 0 then AuxNone else if auxk =? 1 then AuxDeclines
        else if auxk =? 2 then AuxHandles auxbw else AuxError)
       custom updok)
    (mkHtlc inamt outamt inexp outexp ibase irate hgt)
    w d a.

Definition wire_code (w : wire) : Z :=
  match w with
  | WOk => 0 | WFeeInsufficient => 1 | WAmountBelowMinimum => 2
  | WTemporaryChannelFailure => 3 | WExpiryTooSoon => 4 | WExpiryTooFar => 5
  | WIncorrectCltvExpiry => 6 | WTemporaryNodeFailure => 7
  end.

Definition detail_code (d : detail) : Z :=
  match d with DNone => 0 | DExceedsMax => 1 | DInsufficientBalance => 2 end.

Definition run_m (c : case) : result :=
  if c_transit c then check_transit_m (c_env c) (c_htlc c)
  else check_forward_m (c_env c) (c_htlc c).

Definition run_s (c : case) : result :=
  if c_transit c then check_transit_s (c_env c) (c_htlc c)
  else check_forward_s (c_env c) (c_htlc c).

Definition res_eqb (r : result) (w d a : Z) : bool :=
  (wire_code (r_wire r) =? w) && (detail_code (r_detail r) =? d) && (r_arg r =? a).

(* [] if model and implementation agree, else the model's answer *)
Definition check_case (c : case) : list N :=
  let r := run_m c in
  if res_eqb r (c_wire c) (c_detail c) (c_arg c) then []
  else [Z.to_N (wire_code (r_wire r)); Z.to_N (detail_code (r_detail r));
        Z.to_N (r_arg r)].

Fixpoint mismatches (cases : list case) (i : N) : list (N * list N) :=
  match cases with
  | [] => []
  | c :: r =>
    match check_case c with
    | [] => mismatches r (i + 1)
    | bad => (i, bad) :: mismatches r (i + 1)
    end
  end.

(* Cross-check of theorem C09_machine_eq_spec on the recorded inputs: cases
   lying in D on which the machine and the unbounded version differ (the
   theorem says: none).  Reported with code 99. *)
Definition res_same (a b : result) : bool :=
  res_eqb a (wire_code (r_wire b)) (detail_code (r_detail b)) (r_arg b).

Fixpoint d_disagreements (cases : list case) (i : N) : list (N * list N) :=
  match cases with
  | [] => []
  | c :: r =>
    if D_b (c_env c) (c_htlc c) && negb (res_same (run_m c) (run_s c))
    then (i, [99%N]) :: d_disagreements r (i + 1)
    else d_disagreements r (i + 1)
  end.

Definition mismatches_all (cases : list case) (i : N) : list (N * list N) :=
  mismatches cases i ++ d_disagreements cases i.

(* number of cases inside D (coverage figure) *)
Definition count_in_D (cases : list case) : N :=
  N.of_nat (length (filter (fun c => D_b (c_env c) (c_htlc c)) cases)).
