(* C09 — non-vacuity: the hypotheses of the theorems (D, forward_clauses,
   a rejection inside D) are satisfiable by concrete non-trivial inputs. *)
From Coq Require Import ZArith List Lia.
From LV Require Import Policy.Model Policy.Proofs Policy.Props.
Local Open Scope Z_scope.

(* 0.05 BTC forward, 1 sat base + 2500 ppm, inbound discount -500 msat
   -1000 ppm, mainnet-like height. *)
Definition x_pol : policy := mkPolicy 1000 4950000000 1000 2500 80.
Definition x_env : env := mkEnv x_pol 3 2016 4937184000 AuxNone false true.
(* out fee = 1000 + 5000000*2500/10^6 = 13500; inbound = -500 - 5013 = -5513;
   total = 7987 *)
Definition x_htlc (inamt : Z) : htlc := mkHtlc inamt 5000000 800200 800100 (-500) (-1000) 800000.

Example x_total_fee : total_fee_s x_env (x_htlc 0) = 7987.
Proof. vm_compute. reflexivity. Qed.

Example x_in_D : forall i, 0 <= i < two63 -> D x_env (x_htlc i).
Proof. intros i Hi. constructor; cbn; unfold two31, two32, two63, max_amt in *; lia. Qed.

(* boundary: exactly the fee is accepted, one msat less is FeeInsufficient *)
Example x_accept : check_forward_m x_env (x_htlc 5007987) = ok_result.
Proof. vm_compute. reflexivity. Qed.

Example x_reject : check_forward_m x_env (x_htlc 5007986) = mkRes WFeeInsufficient DNone 5000000.
Proof. vm_compute. reflexivity. Qed.

Example x_clauses : forward_clauses x_env (x_htlc 5007987).
Proof.
  apply C09_sound.
  - apply x_in_D. unfold two63. lia.
  - vm_compute. reflexivity.
Qed.

Example x_names : names_violated_forward x_env (x_htlc 5007986)
                    (check_forward_m x_env (x_htlc 5007986)).
Proof.
  apply C09_failure_names_violated_rule.
  - apply x_in_D. unfold two63. lia.
  - vm_compute. discriminate.
Qed.

(* a discount larger than the fee never lets out exceed in *)
Definition y_htlc : htlc := mkHtlc 4999999 5000000 800200 800100 (-100000) (-1000) 800000.
Example y_reject : check_forward_m x_env y_htlc = mkRes WFeeInsufficient DNone 5000000.
Proof. vm_compute. reflexivity. Qed.
Example y_total_negative : total_fee_s x_env y_htlc < 0.
Proof. vm_compute. reflexivity. Qed.

(* link selection: two links, only the second admits *)
Example sel : choose nat (fun _ => true)
                (fun l => if Nat.eqb l 1 then ok_result else mkRes WFeeInsufficient DNone 0)
                (fun _ => O) (cons 0%nat (cons 1%nat nil)) = Some 1%nat.
Proof. vm_compute. reflexivity. Qed.
