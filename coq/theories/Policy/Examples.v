(* placeholder *)
From LV Require Import Policy.Model.
