(* C09 bridge (tie T1): the arithmetic REGENERATED from the lnd tree
   (Gen/GenArith.v, Gen/GenConsts.v) equals the hand-written machine model
   Policy/Model.v that the C09 theorems are stated about.  A source edit of
   ExpectedFee / InboundFee.CalcFee / maxFeeRate / feeRateParts changes the
   generated side and breaks a lemma here.  No domain guard is needed: both
   sides wrap identically on every Z. *)
From Coq Require Import ZArith Bool Lia.
From LV Require Import Common.GoInt Gen.GenConsts Gen.GenArith Policy.Model.
Local Open Scope Z_scope.

Lemma gen_fee_rate_parts_eq : models_feeRateParts = fee_rate_parts.
Proof. reflexivity. Qed.

Lemma gen_max_fee_rate_eq : models_maxFeeRate = max_fee_rate.
Proof. reflexivity. Qed.

Lemma gen_u64_eq x : wrap_u64 x = u64 x.
Proof. reflexivity. Qed.

Lemma gen_s64_eq x : wrap_i64 x = s64 x.
Proof. reflexivity. Qed.

(* htlcswitch.ExpectedFee(f, htlcAmt) *)
Lemma gen_expected_fee_eq : forall (p : policy) (amt : Z),
  htlcswitch_ExpectedFee (base_fee p) (fee_rate p) amt = expected_fee_m p amt.
Proof. intros. reflexivity. Qed.

(* InboundFee.CalcFee(amt), pointer receiver *)
Lemma gen_calc_fee_eq : forall ibase irate amt : Z,
  models_InboundFee_CalcFee ibase irate amt = calc_fee_m ibase irate amt.
Proof.
  intros. unfold models_InboundFee_CalcFee, calc_fee_m, clamp_rate.
  rewrite gen_max_fee_rate_eq, gen_fee_rate_parts_eq.
  destruct (irate >? max_fee_rate); [reflexivity|].
  destruct (irate <? - max_fee_rate); reflexivity.
Qed.
