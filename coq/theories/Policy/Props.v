(* C09 — property theorems (statements only; proofs in Proofs.v). *)
From Coq Require Import ZArith List.
From LV Require Import Policy.Model Policy.Proofs.
Local Open Scope Z_scope.

(* On the realistic domain D the Go arithmetic (uint64/int64/uint32 with
   wrap) takes exactly the decision of the unbounded rule, for forwards and
   for locally initiated sends, including failure code, detail and carried
   value. *)
Theorem C09_machine_eq_spec :
  forall e h, D e h ->
    check_forward_m e h = check_forward_s e h /\
    check_transit_m e h = check_transit_s e h.
Proof. exact machine_eq_spec. Qed.

(* Accept only if: out <= in; in - out covers base + proportional + signed
   inbound fee; min <= out <= max (0 = no max; shaper-custom HTLCs exempt);
   height + rejectDelta < out_expiry <= height + maxCltv; the traffic shaper
   answered; out <= bandwidth; delta <= in_expiry - out_expiry <= maxCltv. *)
Theorem C09_sound :
  forall e h, D e h -> r_wire (check_forward_m e h) = WOk -> forward_clauses e h.
Proof. exact sound. Qed.

Theorem C09_complete :
  forall e h, D e h -> forward_clauses e h -> check_forward_m e h = ok_result.
Proof. exact complete. Qed.

(* Every rejection names a rule that is violated (and carries the right
   amount / expiry); TemporaryNodeFailure only for a shaper error or when
   the channel update is unavailable while an update-carrying rule is
   violated. *)
Theorem C09_failure_names_violated_rule :
  forall e h, D e h -> r_wire (check_forward_m e h) <> WOk ->
    names_violated_forward e h (check_forward_m e h).
Proof. exact failure_names_violated_rule. Qed.

(* CheckHtlcTransit: the same for locally initiated payments. *)
Theorem C09_transit_sound_complete :
  forall e h, D e h ->
    (r_wire (check_transit_m e h) = WOk <->
     send_clauses e (out_amt h) (out_exp h) (height h)) /\
    (r_wire (check_transit_m e h) = WOk -> check_transit_m e h = ok_result) /\
    (r_wire (check_transit_m e h) <> WOk ->
     names_violated_send e (out_amt h) (out_exp h) (height h) (check_transit_m e h)).
Proof. exact transit_sound_complete. Qed.

(* D is needed: with well-formed (in-range) inputs outside D the uint32
   additions wrap and the verdict flips in both directions. *)
Theorem C09_wrap_refuted_outside :
  (exists e h, wf e h /\ r_wire (check_forward_m e h) = WOk /\ ~ forward_clauses e h) /\
  (exists e h, wf e h /\ forward_clauses e h /\ r_wire (check_forward_m e h) <> WOk).
Proof.
  split.
  - exists w_env, w_accept. exact (proj1 wrap_refuted_outside).
  - exists w_env, w_reject. destruct (proj2 wrap_refuted_outside) as (H1 & H2 & H3).
    split; [exact H1 | split; [exact H2 | rewrite H3; discriminate]].
Qed.

(* ... and so does the int64 product in InboundFee.CalcFee once
   |rate| * amount reaches 2^63 (rate clamp 10^7, amount 9.3 BTC). *)
Theorem C09_fee_wrap_refuted_outside :
  exists e h, wf e h /\ r_wire (check_forward_m e h) = WOk /\ ~ fee_covered e h.
Proof.
  exists wf_env, wf_htlc. destruct fee_wrap_refuted_outside as (H1 & H2 & _ & H4).
  split; [exact H1 | split; [exact H2 | exact H4]].
Qed.

(* Switch.handlePacketAdd: the link chosen for the forward is one of the
   candidate links, eligible, and its check returned nil; the add fails iff
   no candidate is eligible with a nil check. *)
Theorem C09_switch_picks_only_ok :
  forall (link : Type) (eligible : link -> bool) (check : link -> result)
         (pick : nat -> nat) (ls : list link),
    (forall l, choose link eligible check pick ls = Some l ->
       In l ls /\ eligible l = true /\ r_wire (check l) = WOk) /\
    (destinations link eligible check ls = nil <->
     forall l, In l ls -> eligible l = false \/ r_wire (check l) <> WOk).
Proof.
  intros. split.
  - intros l. apply switch_picks_only_ok.
  - apply switch_fails_iff_no_link_ok.
Qed.
