(* C09 — proofs about Policy/Model.v. *)
From Coq Require Import ZArith Bool Lia List.
From LV Require Import Policy.Model.
Import ListNotations.
Local Open Scope Z_scope.

(* ---------- fixed-width identities ---------- *)

Lemma u64_small x : 0 <= x < two64 -> u64 x = x.
Proof. intros H. unfold u64. apply Z.mod_small. exact H. Qed.

Lemma u32_small x : 0 <= x < two32 -> u32 x = x.
Proof. intros H. unfold u32. apply Z.mod_small. exact H. Qed.

Lemma s64_small x : - two63 <= x < two63 -> s64 x = x.
Proof.
  intros H. unfold s64. rewrite Z.mod_small; unfold two63, two64 in *; lia.
Qed.

Lemma clamp_rate_id r : - max_fee_rate <= r <= max_fee_rate -> clamp_rate r = r.
Proof.
  intros H. unfold clamp_rate.
  destruct (r >? max_fee_rate) eqn:E1.
  - apply Z.gtb_lt in E1. lia.
  - destruct (r <? - max_fee_rate) eqn:E2.
    + apply Z.ltb_lt in E2. lia.
    + reflexivity.
Qed.

Lemma quot_million_bounds p B :
  0 <= B -> - (B * 1000000) <= p <= B * 1000000 ->
  - B <= Z.quot p 1000000 <= B.
Proof.
  intros HB Hp.
  pose proof (Z.quot_rem' p 1000000) as Hq.
  destruct (Z_le_gt_dec 0 p) as [Hs | Hs].
  - pose proof (Z.rem_bound_pos p 1000000 Hs ltac:(lia)) as Hr. lia.
  - pose proof (Z.rem_bound_pos_neg p 1000000 ltac:(lia) ltac:(lia)) as Hr. lia.
Qed.

(* ---------- fee arithmetic on D ---------- *)

Definition amt_bound : Z := max_amt + max_amt + two32.

Lemma out_fee_eq e h :
  D e h ->
  expected_fee_m (pol e) (out_amt h) = expected_fee_s (pol e) (out_amt h) /\
  0 <= expected_fee_s (pol e) (out_amt h) < max_amt + two32.
Proof.
  intros HD. destruct HD.
  unfold expected_fee_m, expected_fee_s, fee_rate_parts.
  set (o := out_amt h) in *. set (r := fee_rate (pol e)) in *.
  set (b := base_fee (pol e)) in *.
  assert (Hp : 0 <= o * r <= max_amt * 1000000).
  { split; [apply Z.mul_nonneg_nonneg; lia|].
    apply Z.mul_le_mono_nonneg; lia. }
  assert (Hq : 0 <= o * r / 1000000 <= o).
  { split; [apply Z.div_pos; lia|].
    apply Z.div_le_upper_bound; [lia|].
    rewrite (Z.mul_comm 1000000 o). apply Z.mul_le_mono_nonneg_l; lia. }
  unfold max_amt, two32, two64 in *.
  rewrite (u64_small (o * r)) by (unfold two64; lia).
  rewrite u64_small by (unfold two64; lia).
  split; [reflexivity | lia].
Qed.

Lemma fee_rejects_eq e h : D e h -> fee_rejects_m e h = fee_rejects_s e h.
Proof.
  intros HD. pose proof (out_fee_eq e h HD) as [Hfe Hfb]. destruct HD.
  unfold fee_rejects_m, fee_rejects_s, total_fee_s.
  rewrite Hfe.
  set (f := expected_fee_s (pol e) (out_amt h)) in *.
  set (o := out_amt h) in *.
  unfold max_amt, two31, two32, two63, two64 in *.
  rewrite (u64_small (o + f)) by (unfold two64; lia).
  unfold calc_fee_m, calc_fee_s, fee_rate_parts.
  rewrite clamp_rate_id by (unfold max_fee_rate; lia).
  rewrite (s64_small (o + f)) by (unfold two63; lia).
  set (a := o + f) in *.
  assert (Ha : 0 <= a <= 8800387989504) by (unfold a; lia).
  assert (Hp : - (8800387989504 * 1000000) <= ib_rate h * a <= 8800387989504 * 1000000).
  { destruct (Z_le_gt_dec 0 (ib_rate h)) as [Hs | Hs].
    - split.
      + assert (0 <= ib_rate h * a) by (apply Z.mul_nonneg_nonneg; lia). lia.
      + rewrite (Z.mul_comm 8800387989504). apply Z.mul_le_mono_nonneg; lia.
    - split.
      + assert (Hn : (- ib_rate h) * a <= 1000000 * 8800387989504)
          by (apply Z.mul_le_mono_nonneg; lia).
        rewrite Z.mul_opp_l in Hn. lia.
      + assert (0 <= (- ib_rate h) * a) by (apply Z.mul_nonneg_nonneg; lia).
        rewrite Z.mul_opp_l in *. lia. }
  rewrite (s64_small (ib_rate h * a)) by (unfold two63; lia).
  pose proof (quot_million_bounds (ib_rate h * a) 8800387989504 ltac:(lia) Hp) as Hq.
  set (q := Z.quot (ib_rate h * a) 1000000) in *.
  rewrite (s64_small (ib_base h + q)) by (unfold two63; lia).
  rewrite (s64_small f) by (unfold two63; lia).
  rewrite (s64_small (ib_base h + q + f)) by (unfold two63; lia).
  rewrite (s64_small (in_amt h)) by (unfold two63; lia).
  rewrite (s64_small o) by (unfold two63; lia).
  rewrite (s64_small (in_amt h - o)) by (unfold two63; lia).
  reflexivity.
Qed.

Lemma can_send_eq e h amt :
  D e h -> can_send_m e amt (out_exp h) (height h) = can_send_s e amt (out_exp h) (height h).
Proof.
  intros HD. destruct HD. unfold can_send_m, can_send_s.
  unfold two31, two32 in *.
  rewrite (u32_small (height h + reject_delta e)) by (unfold two32; lia).
  rewrite (u32_small (max_cltv e + height h)) by (unfold two32; lia).
  reflexivity.
Qed.

Lemma machine_eq_spec e h :
  D e h ->
  check_forward_m e h = check_forward_s e h /\
  check_transit_m e h = check_transit_s e h.
Proof.
  intros HD. split.
  - unfold check_forward_m, check_forward_s.
    rewrite (fee_rejects_eq e h HD), (can_send_eq e h (out_amt h) HD).
    destruct (fee_rejects_s e h); [reflexivity|].
    destruct (r_wire (can_send_s e (out_amt h) (out_exp h) (height h))); try reflexivity.
    destruct HD.
    destruct (Z.leb_spec (out_exp h) (in_exp h)) as [Hle | Hgt].
    + assert (E : (in_exp h <? out_exp h) = false) by (apply Z.ltb_ge; lia).
      rewrite E. reflexivity.
    + assert (E : (in_exp h <? out_exp h) = true) by (apply Z.ltb_lt; lia).
      rewrite E. cbn [orb].
      assert (E2 : (in_exp h - out_exp h <? tl_delta (pol e)) = true)
        by (apply Z.ltb_lt; lia).
      rewrite E2. reflexivity.
  - unfold check_transit_m, check_transit_s. apply can_send_eq. exact HD.
Qed.

(* ---------- the unbounded rule: accept iff every clause holds ---------- *)

Ltac zb :=
  repeat match goal with
  | |- context [?a <? ?b] => destruct (Z.ltb_spec a b)
  | |- context [?a <=? ?b] => destruct (Z.leb_spec a b)
  | |- context [?a =? ?b] => destruct (Z.eqb_spec a b)
  end.

Ltac fin :=
  cbn [r_wire r_detail r_arg negb andb orb] in *;
  try discriminate; try congruence; try lia; try tauto.

Lemma can_send_s_ok e amt t hg :
  r_wire (can_send_s e amt t hg) = WOk <-> send_clauses e amt t hg.
Proof.
  unfold can_send_s, validate_amount_m, send_clauses, amount_ok, not_too_soon,
    not_too_far, aux_answers, bandwidth_ok, with_upd, ok_result, custom_skip, eff_bw.
  destruct (aux_ans e) eqn:Ea; destruct (custom_htlc e); destruct (upd_ok e);
    zb; cbn [negb andb orb r_wire]; split; intros HH; fin;
    try (repeat split; fin; fail);
    try (exfalso; decompose [and or] HH; fin; fail).
Qed.

Lemma can_send_s_names e amt t hg :
  r_wire (can_send_s e amt t hg) <> WOk ->
  names_violated_send e amt t hg (can_send_s e amt t hg).
Proof.
  unfold can_send_s, validate_amount_m, names_violated_send, with_upd, ok_result,
    custom_skip, eff_bw.
  destruct (aux_ans e) eqn:Ea; destruct (custom_htlc e); destruct (upd_ok e);
    zb; cbn [negb andb orb r_wire r_detail r_arg]; intros HH; fin;
    try (repeat split; fin; fail);
    try (right; repeat split; fin; fail);
    try (left; reflexivity).
Qed.

Lemma fee_rejects_s_false e h :
  fee_rejects_s e h = false <-> no_loss h /\ fee_covered e h.
Proof.
  unfold fee_rejects_s, no_loss, fee_covered.
  zb; cbn [orb]; split; intros HH; fin.
Qed.

Lemma with_upd_not_ok e w d a : w <> WOk -> r_wire (with_upd e w d a) <> WOk.
Proof. intros Hw. unfold with_upd. destruct (upd_ok e); cbn [r_wire]; congruence. Qed.

Lemma forward_s_ok e h :
  r_wire (check_forward_s e h) = WOk <-> forward_clauses e h.
Proof.
  unfold check_forward_s, forward_clauses.
  destruct (fee_rejects_s e h) eqn:Ef.
  - split; intros HH.
    + exfalso. revert HH. apply with_upd_not_ok. discriminate.
    + exfalso. destruct HH as (H1 & H2 & _).
      assert (E : fee_rejects_s e h = false) by (apply fee_rejects_s_false; tauto).
      congruence.
  - apply fee_rejects_s_false in Ef. destruct Ef as [Hnl Hfc].
    pose proof (can_send_s_ok e (out_amt h) (out_exp h) (height h)) as Hcs.
    destruct (r_wire (can_send_s e (out_amt h) (out_exp h) (height h))) eqn:Ew;
      try (split; intros HH;
           [ first [ congruence
                   | exfalso; pose proof (can_send_s_names e (out_amt h) (out_exp h) (height h)) as Hn;
                     rewrite Ew in *; congruence ]
           | destruct HH as (_ & _ & Hs & _); apply Hcs in Hs; discriminate ]; fail).
    assert (Hs : send_clauses e (out_amt h) (out_exp h) (height h)) by (apply Hcs; reflexivity).
    unfold delta_ok, delta_within_max, with_upd, ok_result.
    destruct (upd_ok e); zb; cbn [r_wire]; split; intros HH; fin;
      try (repeat split; fin; fail);
      try (exfalso; decompose [and] HH; fin; fail).
Qed.

Lemma forward_s_names e h :
  r_wire (check_forward_s e h) <> WOk ->
  names_violated_forward e h (check_forward_s e h).
Proof.
  unfold check_forward_s.
  destruct (fee_rejects_s e h) eqn:Ef.
  - intros _. unfold with_upd, names_violated_forward.
    assert (Hn : ~ (no_loss h /\ fee_covered e h)).
    { intros HH. apply fee_rejects_s_false in HH. congruence. }
    destruct (upd_ok e) eqn:Eu; cbn [r_wire r_detail r_arg].
    + repeat split; fin.
    + right. split; [reflexivity | left; exact Hn].
  - pose proof (can_send_s_names e (out_amt h) (out_exp h) (height h)) as Hn.
    destruct (r_wire (can_send_s e (out_amt h) (out_exp h) (height h))) eqn:Ew.
    + clear Hn. unfold with_upd, ok_result, names_violated_forward, delta_ok, delta_within_max.
      destruct (upd_ok e) eqn:Eu; zb; cbn [r_wire r_detail r_arg]; intros HH; fin;
        try (repeat split; fin; fail);
        try (right; split; [reflexivity | right; right; right; lia]; fail);
        try (right; lia).
    + intros _. specialize (Hn ltac:(discriminate)).
      revert Hn Ew. generalize (can_send_s e (out_amt h) (out_exp h) (height h)).
      intros [w d a]. unfold names_violated_forward, names_violated_send.
      cbn [r_wire r_detail r_arg]. intros Hn Ew. subst w. destruct d; fin.
    + intros _. specialize (Hn ltac:(discriminate)).
      revert Hn Ew. generalize (can_send_s e (out_amt h) (out_exp h) (height h)).
      intros [w d a]. unfold names_violated_forward, names_violated_send.
      cbn [r_wire r_detail r_arg]. intros Hn Ew. subst w. destruct d; fin.
    + intros _. specialize (Hn ltac:(discriminate)).
      revert Hn Ew. generalize (can_send_s e (out_amt h) (out_exp h) (height h)).
      intros [w d a]. unfold names_violated_forward, names_violated_send.
      cbn [r_wire r_detail r_arg]. intros Hn Ew. subst w. destruct d; fin.
    + intros _. specialize (Hn ltac:(discriminate)).
      revert Hn Ew. generalize (can_send_s e (out_amt h) (out_exp h) (height h)).
      intros [w d a]. unfold names_violated_forward, names_violated_send.
      cbn [r_wire r_detail r_arg]. intros Hn Ew. subst w. destruct d; fin.
    + intros _. specialize (Hn ltac:(discriminate)).
      revert Hn Ew. generalize (can_send_s e (out_amt h) (out_exp h) (height h)).
      intros [w d a]. unfold names_violated_forward, names_violated_send.
      cbn [r_wire r_detail r_arg]. intros Hn Ew. subst w. destruct d; fin.
    + intros _. specialize (Hn ltac:(discriminate)).
      revert Hn Ew. generalize (can_send_s e (out_amt h) (out_exp h) (height h)).
      intros [w d a]. unfold names_violated_forward, names_violated_send.
      cbn [r_wire r_detail r_arg]. intros Hn Ew. subst w. destruct d; fin.
    + intros _. specialize (Hn ltac:(discriminate)).
      revert Hn Ew. generalize (can_send_s e (out_amt h) (out_exp h) (height h)).
      intros [w d a]. unfold names_violated_forward, names_violated_send.
      cbn [r_wire r_detail r_arg]. intros Hn Ew. subst w. destruct d; fin.
Qed.

Lemma can_send_s_ok_result e amt t hg :
  r_wire (can_send_s e amt t hg) = WOk -> can_send_s e amt t hg = ok_result.
Proof.
  unfold can_send_s, validate_amount_m, with_upd, ok_result.
  destruct (custom_skip e); destruct (aux_ans e); destruct (upd_ok e);
    zb; cbn [negb andb orb r_wire]; intros HH; fin.
Qed.

Lemma forward_s_ok_result e h :
  r_wire (check_forward_s e h) = WOk -> check_forward_s e h = ok_result.
Proof.
  unfold check_forward_s.
  destruct (fee_rejects_s e h).
  - intros HH. exfalso. revert HH. apply with_upd_not_ok. discriminate.
  - destruct (r_wire (can_send_s e (out_amt h) (out_exp h) (height h))) eqn:Ew;
      try (intros HH; congruence).
    unfold with_upd, ok_result. destruct (upd_ok e); zb; cbn [r_wire]; intros HH; fin.
Qed.

(* ---------- property theorems (machine level, on D) ---------- *)

Lemma sound e h :
  D e h -> r_wire (check_forward_m e h) = WOk -> forward_clauses e h.
Proof.
  intros HD. destruct (machine_eq_spec e h HD) as [-> _]. apply forward_s_ok.
Qed.

Lemma complete e h :
  D e h -> forward_clauses e h -> check_forward_m e h = ok_result.
Proof.
  intros HD HC. destruct (machine_eq_spec e h HD) as [-> _].
  apply forward_s_ok_result. apply forward_s_ok. exact HC.
Qed.

Lemma failure_names_violated_rule e h :
  D e h -> r_wire (check_forward_m e h) <> WOk ->
  names_violated_forward e h (check_forward_m e h).
Proof.
  intros HD. destruct (machine_eq_spec e h HD) as [-> _]. apply forward_s_names.
Qed.

Lemma transit_sound_complete e h :
  D e h ->
  (r_wire (check_transit_m e h) = WOk <->
   send_clauses e (out_amt h) (out_exp h) (height h)) /\
  (r_wire (check_transit_m e h) = WOk -> check_transit_m e h = ok_result) /\
  (r_wire (check_transit_m e h) <> WOk ->
   names_violated_send e (out_amt h) (out_exp h) (height h) (check_transit_m e h)).
Proof.
  intros HD. destruct (machine_eq_spec e h HD) as [_ ->]. unfold check_transit_s.
  split; [apply can_send_s_ok | split; [apply can_send_s_ok_result | apply can_send_s_names]].
Qed.

(* ---------- outside D the verdict flips (witnesses) ---------- *)

Definition w_pol : policy := mkPolicy 1000 0 1000 1 40.
Definition w_env : env := mkEnv w_pol 3 2016 989987184000 AuxNone false true.

(* heightNow + OutgoingCltvRejectDelta wraps: an HTLC whose outgoing expiry
   (100) is billions of blocks in the past is accepted. *)
Definition w_accept : htlc := mkHtlc 2002 1000 140 100 0 0 4294967295.
(* MaxOutgoingCltvExpiry + heightNow wraps: a forward satisfying every
   clause is rejected as "expiry too far". *)
Definition w_reject : htlc := mkHtlc 2002 1000 4294966346 4294966306 0 0 4294966296.

Lemma wrap_refuted_outside :
  (wf w_env w_accept /\ r_wire (check_forward_m w_env w_accept) = WOk /\
   ~ forward_clauses w_env w_accept) /\
  (wf w_env w_reject /\ forward_clauses w_env w_reject /\
   check_forward_m w_env w_reject = mkRes WExpiryTooFar DNone 0).
Proof.
  split; split.
  - constructor; cbn; unfold two31, two32, two64; lia.
  - split; [vm_compute; reflexivity|].
    intros (_ & _ & (_ & Hs & _) & _). unfold not_too_soon in Hs. cbn in Hs. lia.
  - constructor; cbn; unfold two31, two32, two64; lia.
  - split; [|vm_compute; reflexivity].
    unfold forward_clauses, send_clauses, no_loss, fee_covered, amount_ok, not_too_soon,
      not_too_far, aux_answers, bandwidth_ok, delta_ok, delta_within_max.
    cbn. repeat split; try lia; try discriminate.
    all: try (right; split; [lia | left; reflexivity]).
    all: try (vm_compute; discriminate).
Qed.

(* int64 overflow of rate*amount in InboundFee.CalcFee: with a +1000 %
   inbound fee (the clamp value) a 9.3 BTC forward is accepted with a zero
   fee although the policy asks for 9.3 * 10^12 msat. *)
Definition wf_pol : policy := mkPolicy 0 0 0 0 40.
Definition wf_env : env := mkEnv wf_pol 3 2016 989987184000 AuxNone false true.
Definition wf_htlc : htlc := mkHtlc 930000000000 930000000000 1140 1100 0 10000000 1000.

Lemma fee_wrap_refuted_outside :
  wf wf_env wf_htlc /\ r_wire (check_forward_m wf_env wf_htlc) = WOk /\
  total_fee_s wf_env wf_htlc = 9300000000000 /\ ~ fee_covered wf_env wf_htlc.
Proof.
  split; [constructor; cbn; unfold two31, two32, two64; lia|].
  split; [vm_compute; reflexivity|].
  assert (E : total_fee_s wf_env wf_htlc = 9300000000000) by (vm_compute; reflexivity).
  split; [exact E|]. unfold fee_covered. rewrite E. cbn. lia.
Qed.

(* ---------- link selection ---------- *)

Lemma switch_picks_only_ok (link : Type) (eligible : link -> bool)
  (check : link -> result) (pick : nat -> nat) (ls : list link) (l : link) :
  choose link eligible check pick ls = Some l ->
  In l ls /\ eligible l = true /\ r_wire (check l) = WOk.
Proof.
  unfold choose, destinations. intros HH. apply nth_error_In in HH.
  apply filter_In in HH. destruct HH as [Hin Ha]. unfold admits in Ha.
  apply andb_true_iff in Ha. destruct Ha as [He Hc].
  repeat split; try assumption.
  destruct (r_wire (check l)); try discriminate. reflexivity.
Qed.

Lemma switch_fails_iff_no_link_ok (link : Type) (eligible : link -> bool)
  (check : link -> result) (ls : list link) :
  destinations link eligible check ls = [] <->
  forall l, In l ls -> eligible l = false \/ r_wire (check l) <> WOk.
Proof.
  unfold destinations. split.
  - intros HH l Hin.
    destruct (admits link eligible check l) eqn:Ea.
    + assert (Hf : In l (filter (admits link eligible check) ls))
        by (apply filter_In; split; assumption).
      rewrite HH in Hf. destruct Hf.
    + unfold admits in Ea. apply andb_false_iff in Ea. destruct Ea as [Ea | Ea].
      * left. exact Ea.
      * right. intros Hw. rewrite Hw in Ea. discriminate.
  - intros HH. destruct (filter (admits link eligible check) ls) as [|x xs] eqn:Ef; [reflexivity|].
    assert (Hx : In x (filter (admits link eligible check) ls)) by (rewrite Ef; left; reflexivity).
    apply filter_In in Hx. destruct Hx as [Hin Ha]. unfold admits in Ha.
    apply andb_true_iff in Ha. destruct Ha as [He Hc].
    destruct (HH x Hin) as [Hn | Hn]; [congruence|].
    destruct (r_wire (check x)); try discriminate. congruence.
Qed.
