(* C09 — proofs about Policy/Model.v. *)
From Coq Require Import ZArith Bool Lia List.
From LV Require Import Policy.Model.
Import ListNotations.
Local Open Scope Z_scope.

(* ---------- fixed-width identities ---------- *)

Lemma u64_small x : 0 <= x < two64 -> u64 x = x.
Proof. intros H. unfold u64. apply Z.mod_small. exact H. Qed.

Lemma u32_small x : 0 <= x < two32 -> u32 x = x.
Proof. intros H. unfold u32. apply Z.mod_small. exact H. Qed.

Lemma s64_small x : - two63 <= x < two63 -> s64 x = x.
Proof.
  intros H. unfold s64. rewrite Z.mod_small; unfold two63, two64 in *; lia.
Qed.

Lemma clamp_rate_id r : - max_fee_rate <= r <= max_fee_rate -> clamp_rate r = r.
Proof.
  intros H. unfold clamp_rate.
  destruct (r >? max_fee_rate) eqn:E1.
  - apply Z.gtb_lt in E1. lia.
  - destruct (r <? - max_fee_rate) eqn:E2.
    + apply Z.ltb_lt in E2. lia.
    + reflexivity.
Qed.

Lemma quot_million_bounds p B :
  0 <= B -> - (B * 1000000) <= p <= B * 1000000 ->
  - B <= Z.quot p 1000000 <= B.
Proof.
  intros HB Hp.
  pose proof (Z.quot_rem' p 1000000) as Hq.
  destruct (Z_le_gt_dec 0 p) as [Hs | Hs].
  - pose proof (Z.rem_bound_pos p 1000000 Hs ltac:(lia)) as Hr. lia.
  - pose proof (Z.rem_bound_pos_neg p 1000000 ltac:(lia) ltac:(lia)) as Hr. lia.
Qed.

(* ---------- fee arithmetic on D ---------- *)

Definition amt_bound : Z := max_amt + max_amt + two32.

Lemma out_fee_eq e h :
  D e h ->
  expected_fee_m (pol e) (out_amt h) = expected_fee_s (pol e) (out_amt h) /\
  0 <= expected_fee_s (pol e) (out_amt h) < max_amt + two32.
Proof.
  intros HD. destruct HD.
  unfold expected_fee_m, expected_fee_s, fee_rate_parts.
  set (o := out_amt h) in *. set (r := fee_rate (pol e)) in *.
  set (b := base_fee (pol e)) in *.
  assert (Hp : 0 <= o * r <= max_amt * 1000000).
  { split; [apply Z.mul_nonneg_nonneg; lia|].
    apply Z.mul_le_mono_nonneg; lia. }
  assert (Hq : 0 <= o * r / 1000000 <= o).
  { split; [apply Z.div_pos; lia|].
    apply Z.div_le_upper_bound; [lia|].
    rewrite (Z.mul_comm 1000000 o). apply Z.mul_le_mono_nonneg_l; lia. }
  unfold max_amt, two32, two64 in *.
  rewrite (u64_small (o * r)) by (unfold two64; lia).
  rewrite u64_small by (unfold two64; lia).
  split; [reflexivity | lia].
Qed.

Lemma fee_rejects_eq e h : D e h -> fee_rejects_m e h = fee_rejects_s e h.
Proof.
  intros HD. pose proof (out_fee_eq e h HD) as [Hfe Hfb]. destruct HD.
  unfold fee_rejects_m, fee_rejects_s, total_fee_s.
  rewrite Hfe.
  set (f := expected_fee_s (pol e) (out_amt h)) in *.
  set (o := out_amt h) in *.
  unfold max_amt, two31, two32, two63, two64 in *.
  rewrite (u64_small (o + f)) by (unfold two64; lia).
  unfold calc_fee_m, calc_fee_s, fee_rate_parts.
  rewrite clamp_rate_id by (unfold max_fee_rate; lia).
  rewrite (s64_small (o + f)) by (unfold two63; lia).
  set (a := o + f) in *.
  assert (Ha : 0 <= a <= 8800387989504) by (unfold a; lia).
  assert (Hp : - (8800387989504 * 1000000) <= ib_rate h * a <= 8800387989504 * 1000000).
  { destruct (Z_le_gt_dec 0 (ib_rate h)) as [Hs | Hs].
    - split.
      + assert (0 <= ib_rate h * a) by (apply Z.mul_nonneg_nonneg; lia). lia.
      + rewrite (Z.mul_comm 8800387989504). apply Z.mul_le_mono_nonneg; lia.
    - split.
      + assert (Hn : (- ib_rate h) * a <= 1000000 * 8800387989504)
          by (apply Z.mul_le_mono_nonneg; lia).
        rewrite Z.mul_opp_l in Hn. lia.
      + assert (0 <= (- ib_rate h) * a) by (apply Z.mul_nonneg_nonneg; lia).
        rewrite Z.mul_opp_l in *. lia. }
  rewrite (s64_small (ib_rate h * a)) by (unfold two63; lia).
  pose proof (quot_million_bounds (ib_rate h * a) 8800387989504 ltac:(lia) Hp) as Hq.
  set (q := Z.quot (ib_rate h * a) 1000000) in *.
  rewrite (s64_small (ib_base h + q)) by (unfold two63; lia).
  rewrite (s64_small f) by (unfold two63; lia).
  rewrite (s64_small (ib_base h + q + f)) by (unfold two63; lia).
  rewrite (s64_small (in_amt h)) by (unfold two63; lia).
  rewrite (s64_small o) by (unfold two63; lia).
  rewrite (s64_small (in_amt h - o)) by (unfold two63; lia).
  reflexivity.
Qed.

Lemma can_send_eq e h amt :
  D e h -> can_send_m e amt (out_exp h) (height h) = can_send_s e amt (out_exp h) (height h).
Proof.
  intros HD. destruct HD. unfold can_send_m, can_send_s.
  unfold two31, two32 in *.
  rewrite (u32_small (height h + reject_delta e)) by (unfold two32; lia).
  rewrite (u32_small (max_cltv e + height h)) by (unfold two32; lia).
  reflexivity.
Qed.

Lemma machine_eq_spec e h :
  D e h ->
  check_forward_m e h = check_forward_s e h /\
  check_transit_m e h = check_transit_s e h.
Proof.
  intros HD. split.
  - unfold check_forward_m, check_forward_s.
    rewrite (fee_rejects_eq e h HD), (can_send_eq e h (out_amt h) HD).
    destruct (fee_rejects_s e h); [reflexivity|].
    destruct (r_wire (can_send_s e (out_amt h) (out_exp h) (height h))); try reflexivity.
    destruct HD.
    destruct (Z.leb_spec (out_exp h) (in_exp h)) as [Hle | Hgt].
    + assert (E : (in_exp h <? out_exp h) = false) by (apply Z.ltb_ge; lia).
      rewrite E. reflexivity.
    + assert (E : (in_exp h <? out_exp h) = true) by (apply Z.ltb_lt; lia).
      rewrite E. cbn [orb].
      assert (E2 : (in_exp h - out_exp h <? tl_delta (pol e)) = true)
        by (apply Z.ltb_lt; lia).
      rewrite E2. reflexivity.
  - unfold check_transit_m, check_transit_s. apply can_send_eq. exact HD.
Qed.

(* ---------- the unbounded rule: accept iff every clause holds ---------- *)

Ltac zb :=
  repeat match goal with
  | |- context [?a <? ?b] => destruct (Z.ltb_spec a b)
  | |- context [?a <=? ?b] => destruct (Z.leb_spec a b)
  | |- context [?a =? ?b] => destruct (Z.eqb_spec a b)
  end.

Ltac fin :=
  cbn [r_wire r_detail r_arg negb andb orb] in *;
  try discriminate; try congruence; try lia; try tauto.

Lemma can_send_s_ok e amt t hg :
  r_wire (can_send_s e amt t hg) = WOk <-> send_clauses e amt t hg.
Proof.
  unfold can_send_s, validate_amount_m, send_clauses, amount_ok, not_too_soon,
    not_too_far, aux_answers, bandwidth_ok, with_upd, ok_result, custom_skip, eff_bw.
  destruct (aux_ans e) eqn:Ea; destruct (custom_htlc e); destruct (upd_ok e);
    zb; cbn [negb andb orb r_wire]; split; intros H; fin;
    try (repeat split; fin; fail);
    try (exfalso; decompose [and or] H; fin; fail).
Qed.

Lemma can_send_s_names e amt t hg :
  r_wire (can_send_s e amt t hg) <> WOk ->
  names_violated_send e amt t hg (can_send_s e amt t hg).
Proof.
  unfold can_send_s, validate_amount_m, names_violated_send, with_upd, ok_result,
    custom_skip, eff_bw.
  destruct (aux_ans e) eqn:Ea; destruct (custom_htlc e); destruct (upd_ok e);
    zb; cbn [negb andb orb r_wire r_detail r_arg]; intros H; fin;
    try (repeat split; fin; fail);
    try (right; repeat split; fin; fail);
    try (left; reflexivity).
Qed.
