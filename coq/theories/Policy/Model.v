(* C09 — forwarding-policy decision of a channel link.

   Executable model of (line numbers of /repo at the time of writing)
     htlcswitch/link.go:76     ExpectedFee
     graph/db/models/inbound_fee.go:35  InboundFee.CalcFee
     htlcswitch/link.go:2511   channelLink.CheckHtlcForward
     htlcswitch/link.go:2614   channelLink.CheckHtlcTransit
     htlcswitch/link.go:2633   channelLink.canSendHtlc
     htlcswitch/link.go:4839   channelLink.validateHtlcAmount
     htlcswitch/link.go:899    channelLink.createFailureWithUpdate
   in two versions:
     *_m  machine arithmetic exactly as Go computes it (uint64 msat wrap,
          int64 two's-complement reinterpretation and wrap, truncating signed
          division, uint32 heights with wrap), same check ORDER, same failure
          codes;
     *_s  the same decision procedure over unbounded Z (no wrap anywhere);
   plus the property's clauses as Props over unbounded Z.

   Definitions only; proofs are in Proofs.v. *)
From Coq Require Import ZArith Bool.
Local Open Scope Z_scope.

(* ---- fixed-width arithmetic ---- *)
Definition two31 : Z := 2147483648.
Definition two32 : Z := 4294967296.
Definition two63 : Z := 9223372036854775808.
Definition two64 : Z := 18446744073709551616.

Definition u32 (x : Z) : Z := x mod two32.
Definition u64 (x : Z) : Z := x mod two64.
(* int64(x): two's-complement reinterpretation of the low 64 bits *)
Definition s64 (x : Z) : Z := (x + two63) mod two64 - two63.

(* graph/db/models: feeRateParts = 1e6, maxFeeRate = 10 * feeRateParts *)
Definition fee_rate_parts : Z := 1000000.
Definition max_fee_rate : Z := 10000000.

(* ---- data ---- *)
(* models.ForwardingPolicy (the fields the decision reads) *)
Record policy := mkPolicy {
  min_htlc : Z;      (* MinHTLCOut   uint64 msat *)
  max_htlc : Z;      (* MaxHTLC      uint64 msat, 0 = unlimited *)
  base_fee : Z;      (* BaseFee      uint64 msat *)
  fee_rate : Z;      (* FeeRate      uint64, parts per million *)
  tl_delta : Z       (* TimeLockDelta uint32 *)
}.

(* what cfg.AuxTrafficShaper answers for this htlc *)
Inductive aux :=
| AuxNone                 (* no traffic shaper configured *)
| AuxDeclines             (* ShouldHandleTraffic = false *)
| AuxHandles (bw : Z)     (* handled, PaymentBandwidth = bw *)
| AuxError.               (* shaper returned an error *)

Record env := mkEnv {
  pol : policy;
  reject_delta : Z;       (* cfg.OutgoingCltvRejectDelta uint32 *)
  max_cltv : Z;           (* cfg.MaxOutgoingCltvExpiry   uint32 *)
  chan_bw : Z;            (* l.Bandwidth() = channel.AvailableBalance() *)
  aux_ans : aux;
  custom_htlc : bool;     (* shaper.IsCustomHTLC(records) *)
  upd_ok : bool           (* FetchLastChannelUpdate succeeds *)
}.

Record htlc := mkHtlc {
  in_amt : Z;             (* incomingHtlcAmt uint64 *)
  out_amt : Z;            (* amtToForward    uint64 *)
  in_exp : Z;             (* incomingTimeout uint32 *)
  out_exp : Z;            (* outgoingTimeout uint32 *)
  ib_base : Z;            (* inboundFee.Base int32 *)
  ib_rate : Z;            (* inboundFee.Rate int32 *)
  height : Z              (* heightNow uint32 *)
}.

Inductive wire :=
| WOk | WFeeInsufficient | WAmountBelowMinimum | WTemporaryChannelFailure
| WExpiryTooSoon | WExpiryTooFar | WIncorrectCltvExpiry | WTemporaryNodeFailure.

Inductive detail := DNone | DExceedsMax | DInsufficientBalance.

(* observable of a *LinkError: wire failure type, FailureDetail, and the
   amount / expiry the wire failure carries (0 when it carries none) *)
Record result := mkRes { r_wire : wire; r_detail : detail; r_arg : Z }.

Definition ok_result : result := mkRes WOk DNone 0.

(* createFailureWithUpdate: FailAliasUpdate yields nil for an ordinary
   channel, then FetchLastChannelUpdate; on error the failure degrades to
   TemporaryNodeFailure (the caller keeps its FailureDetail). *)
Definition with_upd (e : env) (w : wire) (d : detail) (a : Z) : result :=
  if upd_ok e then mkRes w d a else mkRes WTemporaryNodeFailure d 0.

Definition custom_skip (e : env) : bool :=
  match aux_ans e with
  | AuxNone => false
  | _ => custom_htlc e
  end.

Definition eff_bw (e : env) : Z :=
  match aux_ans e with
  | AuxHandles bw => bw
  | _ => chan_bw e
  end.

Definition clamp_rate (r : Z) : Z :=
  if r >? max_fee_rate then max_fee_rate
  else if r <? - max_fee_rate then - max_fee_rate
  else r.

(* ================= machine version ================= *)

(* f.BaseFee + (htlcAmt*f.FeeRate)/1000000   — all uint64 *)
Definition expected_fee_m (p : policy) (amt : Z) : Z :=
  u64 (base_fee p + u64 (amt * fee_rate p) / fee_rate_parts).

(* fee := int64(Base); rate := clamp(int64(Rate));
   fee += rate * int64(amt) / feeRateParts *)
Definition calc_fee_m (ibase irate amt : Z) : Z :=
  s64 (ibase + Z.quot (s64 (clamp_rate irate * s64 amt)) fee_rate_parts).

Definition validate_amount_m (e : env) (amt : Z) : option result :=
  if custom_skip e then None
  else if amt <? min_htlc (pol e)
  then Some (with_upd e WAmountBelowMinimum DNone amt)
  else if negb (max_htlc (pol e) =? 0) && (max_htlc (pol e) <? amt)
  then Some (with_upd e WTemporaryChannelFailure DExceedsMax 0)
  else None.

Definition can_send_m (e : env) (amt timeout hgt : Z) : result :=
  match validate_amount_m e amt with
  | Some r => r
  | None =>
    if timeout <=? u32 (hgt + reject_delta e)
    then with_upd e WExpiryTooSoon DNone 0
    else if u32 (max_cltv e + hgt) <? timeout
    then mkRes WExpiryTooFar DNone 0
    else match aux_ans e with
         | AuxError => mkRes WTemporaryNodeFailure DNone 0
         | _ =>
           if eff_bw e <? amt
           then with_upd e WTemporaryChannelFailure DInsufficientBalance 0
           else ok_result
         end
  end.

Definition fee_rejects_m (e : env) (h : htlc) : bool :=
  let out_fee := expected_fee_m (pol e) (out_amt h) in
  let in_fee := calc_fee_m (ib_base h) (ib_rate h) (u64 (out_amt h + out_fee)) in
  let expected := s64 (in_fee + s64 out_fee) in
  let actual := s64 (s64 (in_amt h) - s64 (out_amt h)) in
  (in_amt h <? out_amt h) || (actual <? expected).

Definition check_forward_m (e : env) (h : htlc) : result :=
  if fee_rejects_m e h
  then with_upd e WFeeInsufficient DNone (out_amt h)
  else
    let r := can_send_m e (out_amt h) (out_exp h) (height h) in
    match r_wire r with
    | WOk =>
      (* var incomingDelta uint32; if in >= out { incomingDelta = in - out } *)
      let idelta := if out_exp h <=? in_exp h then in_exp h - out_exp h else 0 in
      if (in_exp h <? out_exp h) || (idelta <? tl_delta (pol e))
      then with_upd e WIncorrectCltvExpiry DNone (in_exp h)
      else if max_cltv e <? idelta
      then mkRes WExpiryTooFar DNone 0
      else ok_result
    | _ => r
    end.

(* CheckHtlcTransit(amt, timeout, heightNow) *)
Definition check_transit_m (e : env) (h : htlc) : result :=
  can_send_m e (out_amt h) (out_exp h) (height h).

(* ================= unbounded version ================= *)

Definition expected_fee_s (p : policy) (amt : Z) : Z :=
  base_fee p + (amt * fee_rate p) / fee_rate_parts.

Definition calc_fee_s (ibase irate amt : Z) : Z :=
  ibase + Z.quot (clamp_rate irate * amt) fee_rate_parts.

(* total fee the policy asks for: outbound fee on the outgoing amount plus
   the (signed) inbound fee on outgoing amount + outbound fee *)
Definition total_fee_s (e : env) (h : htlc) : Z :=
  let out_fee := expected_fee_s (pol e) (out_amt h) in
  calc_fee_s (ib_base h) (ib_rate h) (out_amt h + out_fee) + out_fee.

Definition can_send_s (e : env) (amt timeout hgt : Z) : result :=
  match validate_amount_m e amt with
  | Some r => r
  | None =>
    if timeout <=? hgt + reject_delta e
    then with_upd e WExpiryTooSoon DNone 0
    else if max_cltv e + hgt <? timeout
    then mkRes WExpiryTooFar DNone 0
    else match aux_ans e with
         | AuxError => mkRes WTemporaryNodeFailure DNone 0
         | _ =>
           if eff_bw e <? amt
           then with_upd e WTemporaryChannelFailure DInsufficientBalance 0
           else ok_result
         end
  end.

Definition fee_rejects_s (e : env) (h : htlc) : bool :=
  (in_amt h <? out_amt h) || (in_amt h - out_amt h <? total_fee_s e h).

Definition check_forward_s (e : env) (h : htlc) : result :=
  if fee_rejects_s e h
  then with_upd e WFeeInsufficient DNone (out_amt h)
  else
    let r := can_send_s e (out_amt h) (out_exp h) (height h) in
    match r_wire r with
    | WOk =>
      if in_exp h - out_exp h <? tl_delta (pol e)
      then with_upd e WIncorrectCltvExpiry DNone (in_exp h)
      else if max_cltv e <? in_exp h - out_exp h
      then mkRes WExpiryTooFar DNone 0
      else ok_result
    | _ => r
    end.

Definition check_transit_s (e : env) (h : htlc) : result :=
  can_send_s e (out_amt h) (out_exp h) (height h).

(* ================= the property's clauses (unbounded Z) ================= *)

(* the node is never out of pocket *)
Definition no_loss (h : htlc) : Prop := out_amt h <= in_amt h.
(* difference covers base + proportional fee, adjusted by the inbound fee *)
Definition fee_covered (e : env) (h : htlc) : Prop :=
  total_fee_s e h <= in_amt h - out_amt h.
(* amount within [min_htlc, max_htlc] (0 = no maximum); custom HTLCs of a
   traffic shaper are exempt, as in validateHtlcAmount *)
Definition amount_ok (e : env) (amt : Z) : Prop :=
  custom_skip e = true \/
  (min_htlc (pol e) <= amt /\ (max_htlc (pol e) = 0 \/ amt <= max_htlc (pol e))).
Definition not_too_soon (e : env) (timeout hgt : Z) : Prop :=
  hgt + reject_delta e < timeout.
Definition not_too_far (e : env) (timeout hgt : Z) : Prop :=
  timeout <= hgt + max_cltv e.
Definition aux_answers (e : env) : Prop := aux_ans e <> AuxError.
Definition bandwidth_ok (e : env) (amt : Z) : Prop := amt <= eff_bw e.
Definition delta_ok (e : env) (h : htlc) : Prop :=
  tl_delta (pol e) <= in_exp h - out_exp h.
Definition delta_within_max (e : env) (h : htlc) : Prop :=
  in_exp h - out_exp h <= max_cltv e.

Definition send_clauses (e : env) (amt timeout hgt : Z) : Prop :=
  amount_ok e amt /\ not_too_soon e timeout hgt /\ not_too_far e timeout hgt /\
  aux_answers e /\ bandwidth_ok e amt.

Definition forward_clauses (e : env) (h : htlc) : Prop :=
  no_loss h /\ fee_covered e h /\
  send_clauses e (out_amt h) (out_exp h) (height h) /\
  delta_ok e h /\ delta_within_max e h.

(* "the failure names a rule that is actually violated" *)
Definition names_violated_send (e : env) (amt timeout hgt : Z) (r : result) : Prop :=
  match r_wire r, r_detail r with
  | WAmountBelowMinimum, DNone =>
      upd_ok e = true /\ custom_skip e = false /\ amt < min_htlc (pol e) /\ r_arg r = amt
  | WTemporaryChannelFailure, DExceedsMax =>
      upd_ok e = true /\ custom_skip e = false /\
      max_htlc (pol e) <> 0 /\ max_htlc (pol e) < amt
  | WTemporaryChannelFailure, DInsufficientBalance =>
      upd_ok e = true /\ eff_bw e < amt
  | WExpiryTooSoon, DNone => upd_ok e = true /\ timeout <= hgt + reject_delta e
  | WExpiryTooFar, DNone => hgt + max_cltv e < timeout
  | WTemporaryNodeFailure, DNone =>
      aux_ans e = AuxError \/
      (upd_ok e = false /\
       ((custom_skip e = false /\ amt < min_htlc (pol e)) \/ timeout <= hgt + reject_delta e))
  | WTemporaryNodeFailure, DExceedsMax =>
      upd_ok e = false /\ custom_skip e = false /\
      max_htlc (pol e) <> 0 /\ max_htlc (pol e) < amt
  | WTemporaryNodeFailure, DInsufficientBalance =>
      upd_ok e = false /\ eff_bw e < amt
  | _, _ => False
  end.

Definition names_violated_forward (e : env) (h : htlc) (r : result) : Prop :=
  match r_wire r, r_detail r with
  | WFeeInsufficient, DNone =>
      upd_ok e = true /\ ~ (no_loss h /\ fee_covered e h) /\ r_arg r = out_amt h
  | WIncorrectCltvExpiry, DNone =>
      upd_ok e = true /\ ~ delta_ok e h /\ r_arg r = in_exp h
  | WExpiryTooFar, DNone =>
      height h + max_cltv e < out_exp h \/ ~ delta_within_max e h
  | WTemporaryNodeFailure, DNone =>
      aux_ans e = AuxError \/
      (upd_ok e = false /\
       (~ (no_loss h /\ fee_covered e h) \/
        (custom_skip e = false /\ out_amt h < min_htlc (pol e)) \/
        out_exp h <= height h + reject_delta e \/
        ~ delta_ok e h))
  | _, _ => names_violated_send e (out_amt h) (out_exp h) (height h) r
  end.

(* ================= domains ================= *)

(* machine well-formedness: every field in the range of its Go type *)
Record wf (e : env) (h : htlc) : Prop := mkWf {
  wf_min : 0 <= min_htlc (pol e) < two64;
  wf_max : 0 <= max_htlc (pol e) < two64;
  wf_base : 0 <= base_fee (pol e) < two64;
  wf_rate : 0 <= fee_rate (pol e) < two64;
  wf_delta : 0 <= tl_delta (pol e) < two32;
  wf_rej : 0 <= reject_delta e < two32;
  wf_maxcltv : 0 <= max_cltv e < two32;
  wf_in : 0 <= in_amt h < two64;
  wf_out : 0 <= out_amt h < two64;
  wf_inexp : 0 <= in_exp h < two32;
  wf_outexp : 0 <= out_exp h < two32;
  wf_ibase : - two31 <= ib_base h < two31;
  wf_irate : - two31 <= ib_rate h < two31;
  wf_height : 0 <= height h < two32
}.

(* The realistic domain D on which machine arithmetic provably equals the
   unbounded rule.  2^42 msat = 43.98 BTC, more than 4x lnd's largest
   (wumbo) channel of 10 BTC. *)
Definition max_amt : Z := 4398046511104.

Record D (e : env) (h : htlc) : Prop := mkD {
  D_in : 0 <= in_amt h < two63;
  D_out : 0 <= out_amt h <= max_amt;
  D_base : 0 <= base_fee (pol e) < two32;             (* wire field is uint32 *)
  D_rate : 0 <= fee_rate (pol e) <= 1000000;          (* <= 100 % *)
  D_ibase : - two31 <= ib_base h < two31;             (* any int32 *)
  D_irate : - 1000000 <= ib_rate h <= 1000000;        (* |rate| <= 100 % *)
  D_height : 0 <= height h < two31;
  D_rej : 0 <= reject_delta e < two31;
  D_maxcltv : 0 <= max_cltv e < two31;
  D_delta : 0 <= tl_delta (pol e) < two32;
  D_inexp : 0 <= in_exp h < two32;
  D_outexp : 0 <= out_exp h < two32
}.

(* Handy boolean version (used by Exec.v to report which cases lie in D). *)
Definition in_range (lo x hi : Z) : bool := (lo <=? x) && (x <? hi).
Definition D_b (e : env) (h : htlc) : bool :=
  in_range 0 (in_amt h) two63 && in_range 0 (out_amt h) (max_amt + 1) &&
  in_range 0 (base_fee (pol e)) two32 && in_range 0 (fee_rate (pol e)) 1000001 &&
  in_range (- two31) (ib_base h) two31 && in_range (-1000000) (ib_rate h) 1000001 &&
  in_range 0 (height h) two31 && in_range 0 (reject_delta e) two31 &&
  in_range 0 (max_cltv e) two31 && in_range 0 (tl_delta (pol e)) two32 &&
  in_range 0 (in_exp h) two32 &&
  in_range 0 (out_exp h) two32.

(* ================= link selection of Switch.handlePacketAdd ================= *)
(* htlcswitch/switch.go:2964-2995: a link enters `destinations` iff it is
   eligible and its CheckHtlcForward returned nil; the forward goes to a
   member of `destinations` (chosen at random) or, if there is none, fails. *)
Section Selection.
  Variable link : Type.
  Variable eligible : link -> bool.
  Variable check : link -> result.

  Definition admits (l : link) : bool :=
    eligible l && match r_wire (check l) with WOk => true | _ => false end.

  Definition destinations (ls : list link) : list link := List.filter admits ls.

  (* `pick` stands for rand.Intn; any function works.  None = the add is
     failed back (len(destinations) == 0). *)
  Definition choose (pick : nat -> nat) (ls : list link) : option link :=
    List.nth_error (destinations ls) (pick (length (destinations ls))).
End Selection.
