(* C19 trace checker: evaluates the model on the cases recorded from the real
   findPath / newRoute / edgeUnifier.getEdge (harness/routing/verif_route_test.go). *)
From Coq Require Import ZArith NArith List Bool.
From LV Require Import Route.Model.
Import ListNotations.
Local Open Scope Z_scope.

Definition E := mkEdge.
Definition H := mkHop.

Definition edge_eqb (a b : edge) : bool :=
  (e_chan a =? e_chan b) && (e_from a =? e_from b) && (e_to a =? e_to b) &&
  Bool.eqb (e_disabled a) (e_disabled b) && (e_min a =? e_min b) &&
  (e_max a =? e_max b) && Bool.eqb (e_hasmax a) (e_hasmax b) &&
  (e_base a =? e_base b) && (e_rate a =? e_rate b) && (e_delta a =? e_delta b) &&
  (e_ibase a =? e_ibase b) && (e_irate a =? e_irate b) && (e_cap a =? e_cap b).

Definition hop_eqb (a b : hop) : bool :=
  (h_chan a =? h_chan b) && (h_to a =? h_to b) && (h_amt a =? h_amt b) &&
  (h_tl a =? h_tl b).

Fixpoint list_eqb {A} (eqb : A -> A -> bool) (a b : list A) : bool :=
  match a, b with
  | [], [] => true
  | x :: a', y :: b' => eqb x y && list_eqb eqb a' b'
  | _, _ => false
  end.

Definition route_eqb (a b : route) : bool :=
  (r_src a =? r_src b) && (r_amt a =? r_amt b) && (r_tl a =? r_tl b) &&
  list_eqb hop_eqb (r_hops a) (r_hops b).

(* A unified edge handed to newRoute must be a policy of the graph: same
   channel, endpoints, fee schedule, limits; its time lock delta may only be
   LARGER than the channel's (getEdgeNetwork synthesises the maximum over the
   parallel channels); its inbound fee is the channel's, or zero (exit hop,
   route hints); its capacity field is not used by newRoute. *)
Definition path_edge_matches (g : graph) (pe : edge) (is_last : bool) : bool :=
  match find_edge g (e_chan pe) (e_from pe) (e_to pe) with
  | None => false
  | Some ge =>
    Bool.eqb (e_disabled ge) (e_disabled pe) && (e_min ge =? e_min pe) &&
    (e_max ge =? e_max pe) && Bool.eqb (e_hasmax ge) (e_hasmax pe) &&
    (e_base ge =? e_base pe) && (e_rate ge =? e_rate pe) &&
    (e_delta ge <=? e_delta pe) &&
    (if is_last then (e_ibase pe =? 0) && (e_irate pe =? 0)
     else (e_ibase ge =? e_ibase pe) && (e_irate ge =? e_irate pe))
  end.

Fixpoint path_matches (g : graph) (path : list edge) : bool :=
  match path with
  | [] => true
  | [pe] => path_edge_matches g pe true
  | pe :: rest => path_edge_matches g pe false && path_matches g rest
  end.

Inductive case :=
| CRoute (g : graph) (en : env) (rs : restr) (amt src dst : Z)
         (path : list edge)          (* unified edges returned by findPath *)
         (r : route)                 (* route returned by newRoute *)
         (sizes : list Z)            (* Hop.PayloadSize of every hop of r *)
         (last_size : Z)             (* lastHopPayloadSize used by findPath *)
         (hopfees : list Z) (totfees recv : Z)   (* Route.HopFee/TotalFees/ReceiverAmt *)
| CGetEdge (local : bool) (en : env) (es : list edge) (net nextout : Z)
           (res : option edge).      (* what edgeUnifier.getEdge returned *)

Definition opt_edge_eqb (a b : option edge) : bool :=
  match a, b with
  | None, None => true
  | Some x, Some y => edge_eqb x y
  | _, _ => false
  end.

Definition flag (i : N) (ok : bool) : list N := if ok then [] else [i].

(* indices of failed sub-checks:
   0 route_valid rejects the returned route
   1 new_route (model) on the returned path differs from the returned route
   2 HopFee / TotalFees / ReceiverAmt differ from the model
   3 a path edge is not a policy of the graph
   4 replaying the relaxations along the path is rejected by the model's
     processEdge guards, or ends in a different total amount / time lock
   5 lastHopPayloadSize differs from the real final hop payload size
   6 getEdge differs *)
Definition check_case (c : case) : list N :=
  match c with
  | CRoute g en rs amt src dst path r sizes last_size hopfees totfees recv =>
    flag 0 (route_valid g en rs amt src dst r sizes) ++
    flag 1 (route_eqb (new_route en src amt path) r) ++
    flag 2 (list_eqb Z.eqb (hop_fees r) hopfees && (total_fees r =? totfees) &&
            (receiver_amt r =? recv)) ++
    flag 3 (path_matches g path) ++
    flag 4 (match replay en rs amt src dst last_size path (0 :: removelast sizes) with
            | None => false
            | Some n => (n_node n =? src) && (n_net n =? r_amt r) &&
                        (n_cltv n =? r_tl r) && (n_size n =? zsum sizes - last sizes 0 + last_size)
            end) ++
    flag 5 (last sizes 0 =? last_size)
  | CGetEdge local en es net nextout res =>
    flag 6 (opt_edge_eqb (get_edge en local es net nextout) res)
  end.

Fixpoint mismatches (cases : list case) (i : N) : list (N * list N) :=
  match cases with
  | [] => []
  | c :: r =>
    match check_case c with
    | [] => mismatches r (i + 1)%N
    | bad => (i, bad) :: mismatches r (i + 1)%N
    end
  end.
