(* C19 -> C09: every forwarding node of a route accepted by [route_valid]
   passes the link's forwarding rule (check_forward_s and check_forward_m of Policy.Model) when that
   rule is evaluated with the policy of the outgoing channel, the inbound fee
   of the incoming channel and the hop's amounts / expiries. *)
From Coq Require Import ZArith List Bool Lia.
From LV Require Import Route.Model Route.Proofs.
From LV Require Policy.Model Policy.Proofs.
Import ListNotations.
Local Open Scope Z_scope.

Module P := LV.Policy.Model.
Module PP := LV.Policy.Proofs.

(* models.ForwardingPolicy of the outgoing channel (MaxHTLC 0 = unlimited) *)
Definition pol_of (e : edge) : P.policy :=
  P.mkPolicy (e_min e) (if e_hasmax e then e_max e else 0) (e_base e) (e_rate e) (e_delta e).

(* the forwarding link: ordinary channel (no traffic shaper), channel update
   available; reject delta, max cltv and bandwidth are the link's own *)
Definition link_env (eout : edge) (rej maxcltv bw : Z) : P.env :=
  P.mkEnv (pol_of eout) rej maxcltv bw P.AuxNone false true.

Definition htlc_of (ein : edge) (a_in tl_in : Z) (h : hop) (hgt : Z) : P.htlc :=
  P.mkHtlc a_in (h_amt h) tl_in (h_tl h) (e_ibase ein) (e_irate ein) hgt.

(* [forwards a tl es hs ein eout h a_in tl_in]: somewhere along the route the
   node between [ein] and [eout] receives (a_in, tl_in) over [ein] and, per its
   payload [h], forwards (h_amt h, h_tl h) over [eout]. *)
Inductive forwards : Z -> Z -> list edge -> list hop ->
                     edge -> edge -> hop -> Z -> Z -> Prop :=
| fw_here a tl e e' es h hs : forwards a tl (e :: e' :: es) (h :: hs) e e' h a tl
| fw_later a tl e es h hs x y k a' tl' :
    forwards (h_amt h) (h_tl h) es hs x y k a' tl' ->
    forwards a tl (e :: es) (h :: hs) x y k a' tl'.

Lemma compute_fee_is_expected_fee e a :
  compute_fee e a = P.expected_fee_s (pol_of e) a.
Proof. reflexivity. Qed.

Lemma inbound_fee_is_calc_fee e a :
  inbound_fee e a = P.calc_fee_s (e_ibase e) (e_irate e) a.
Proof. reflexivity. Qed.

Lemma hops_spec_head_carries en rs a tl e es hs :
  hops_spec en rs a tl (e :: es) hs -> carries en rs e a.
Proof. intros H. inversion H; subst; assumption. Qed.

Lemma forwards_clauses en rs a tl es hs ein eout h a_in tl_in :
  hops_spec en rs a tl es hs ->
  forwards a tl es hs ein eout h a_in tl_in ->
  carries en rs ein a_in /\ carries en rs eout (h_amt h) /\
  h_amt h <= a_in /\
  node_fee ein eout (h_amt h) <= a_in - h_amt h /\
  e_delta eout <= tl_in - h_tl h.
Proof.
  intros Hs Hf. induction Hf.
  - inversion Hs; subst.
    match goal with Hn : hops_spec _ _ _ _ (_ :: _) _ |- _ =>
      pose proof (hops_spec_head_carries _ _ _ _ _ _ _ Hn) as Hc' end.
    refine (conj _ (conj _ (conj _ (conj _ _)))); assumption.
  - inversion Hs; subst.
    + inversion Hf.
    + apply IHHf. assumption.
Qed.

Lemma hop_forward_clauses en rs a tl es hs ein eout h a_in tl_in rej maxcltv bw hgt :
  hops_spec en rs a tl es hs ->
  forwards a tl es hs ein eout h a_in tl_in ->
  hgt + rej < h_tl h ->                (* not too soon for the outgoing link *)
  h_tl h <= hgt + maxcltv ->           (* not too far *)
  tl_in - h_tl h <= maxcltv ->
  h_amt h <= bw ->                     (* the outgoing link has the balance *)
  P.forward_clauses (link_env eout rej maxcltv bw) (htlc_of ein a_in tl_in h hgt).
Proof.
  intros Hs Hf Hsoon Hfar Hgap Hbw.
  destruct (forwards_clauses _ _ _ _ _ _ _ _ _ _ _ Hs Hf) as (_ & Hc & Hnl & Hfee & Hd).
  destruct Hc.
  unfold P.forward_clauses, P.no_loss, P.fee_covered, P.send_clauses, P.amount_ok,
    P.not_too_soon, P.not_too_far, P.aux_answers, P.bandwidth_ok, P.delta_ok,
    P.delta_within_max, P.total_fee_s, P.custom_skip, P.eff_bw, link_env, htlc_of.
  cbn [P.in_amt P.out_amt P.in_exp P.out_exp P.ib_base P.ib_rate P.height P.pol
       P.reject_delta P.max_cltv P.chan_bw P.aux_ans P.custom_htlc P.min_htlc
       P.max_htlc P.tl_delta pol_of].
  rewrite <- compute_fee_is_expected_fee, <- inbound_fee_is_calc_fee.
  unfold node_fee in Hfee.
  repeat split; try lia; try discriminate.
  right. split; [assumption|].
  destruct (e_hasmax eout) eqn:Em; [right; auto | left; reflexivity].
Qed.

Lemma hop_passes_C09_spec en rs a tl es hs ein eout h a_in tl_in rej maxcltv bw hgt :
  hops_spec en rs a tl es hs ->
  forwards a tl es hs ein eout h a_in tl_in ->
  hgt + rej < h_tl h -> h_tl h <= hgt + maxcltv ->
  tl_in - h_tl h <= maxcltv -> h_amt h <= bw ->
  P.check_forward_s (link_env eout rej maxcltv bw) (htlc_of ein a_in tl_in h hgt)
  = P.ok_result.
Proof.
  intros. apply PP.forward_s_ok_result. apply PP.forward_s_ok.
  eapply hop_forward_clauses; eassumption.
Qed.

(* the machine-arithmetic rule (Go's uint64/int64/uint32) on C09's domain D *)
Lemma hop_passes_C09_machine en rs a tl es hs ein eout h a_in tl_in rej maxcltv bw hgt :
  hops_spec en rs a tl es hs ->
  forwards a tl es hs ein eout h a_in tl_in ->
  hgt + rej < h_tl h -> h_tl h <= hgt + maxcltv ->
  tl_in - h_tl h <= maxcltv -> h_amt h <= bw ->
  P.D (link_env eout rej maxcltv bw) (htlc_of ein a_in tl_in h hgt) ->
  P.check_forward_m (link_env eout rej maxcltv bw) (htlc_of ein a_in tl_in h hgt)
  = P.ok_result.
Proof.
  intros. apply PP.complete; [assumption|].
  eapply hop_forward_clauses; eassumption.
Qed.
