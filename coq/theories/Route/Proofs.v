(* C19 — proofs about Route/Model.v. *)
From Coq Require Import ZArith List Bool Lia.
From LV Require Import Route.Model.
Import ListNotations.
Local Open Scope Z_scope.

(* ================= the property as Props ================= *)

(* channel direction [e] can carry amount [a] *)
Record carries (en : env) (rs : restr) (e : edge) (a : Z) : Prop := mkCarries {
  c_min : e_min e <= a;
  c_max : e_hasmax e = true -> a <= e_max e;
  c_cap : 0 < e_cap e -> a <= e_cap e * 1000;
  c_ign_node : ~ In (e_from e) (ign_nodes rs);
  c_ign_pair : ~ In (e_from e, e_to e) (ign_pairs rs);
  (* network channels: the direction is enabled *)
  c_enabled : e_from e <> self en -> e_disabled e = false;
  (* local channels: bandwidth hint and outgoing-channel restriction *)
  c_bw : e_from e = self en ->
         forall bw, lookup (e_chan e) (hints en) = Some bw -> a <= bw;
  c_outchan : e_from e = self en ->
              out_chans rs <> [] -> In (e_chan e) (out_chans rs)
}.

(* [chain g prev hs es]: the hops run over existing directed policies of the
   graph, each leaving the node the previous one arrived at *)
Inductive chain (g : graph) : Z -> list hop -> list edge -> Prop :=
| chain_nil prev : chain g prev [] []
| chain_cons prev h hs e es :
    In e g -> e_chan e = h_chan h -> e_from e = prev -> e_to e = h_to h ->
    chain g (h_to h) hs es ->
    chain g prev (h :: hs) (e :: es).

(* [hops_spec a tl es hs]: an htlc of amount [a] and expiry [tl] enters the
   first edge; every channel can carry what flows over it; every forwarding
   node is left at least its fee (outbound + inbound, floored at 0) and at
   least its time lock delta; the final hop's payload repeats what it gets. *)
Inductive hops_spec (en : env) (rs : restr) : Z -> Z -> list edge -> list hop -> Prop :=
| hs_last a tl e h :
    carries en rs e a -> h_amt h = a -> h_tl h = tl ->
    hops_spec en rs a tl [e] [h]
| hs_cons a tl e e' es h hs :
    carries en rs e a ->
    h_amt h <= a ->                                   (* never out of pocket *)
    node_fee e e' (h_amt h) <= a - h_amt h ->         (* fee covered *)
    e_delta e' <= tl - h_tl h ->                      (* expiry gap covered *)
    hops_spec en rs (h_amt h) (h_tl h) (e' :: es) hs ->
    hops_spec en rs a tl (e :: e' :: es) (h :: hs).

Record route_ok (g : graph) (en : env) (rs : restr) (amt src dst : Z)
       (r : route) (sizes : list Z) (es : list edge) : Prop := mkRouteOk {
  ok_src : r_src r = src;
  ok_nonempty : r_hops r <> [];
  ok_chain : chain g src (r_hops r) es;
  ok_dst : last_to src (r_hops r) = dst;
  ok_hops : hops_spec en rs (r_amt r) (r_tl r) es (r_hops r);
  ok_recv : receiver_amt r = amt;
  ok_final_tl : last_tl (r_hops r) = height en + final_delta en;
  ok_fee_limit : r_amt r - amt <= fee_limit rs;
  ok_cltv_limit : r_tl r <= cltv_limit rs + (height en + final_delta en);
  ok_last_hop : forall n, last_hop rs = Some n ->
                exists e, es <> [] /\ last es e = e /\ In e es /\ e_from e = n;
  ok_payload : length sizes = length (r_hops r) /\ zsum sizes <= max_payload
}.

(* ================= boolean reflection helpers ================= *)

Ltac zb :=
  repeat match goal with
  | H : (_ && _) = true |- _ => apply andb_prop in H; destruct H
  | H : negb _ = true |- _ => apply negb_true_iff in H
  | H : negb _ = false |- _ => apply negb_false_iff in H
  | H : (_ && _) = false |- _ => apply andb_false_iff in H
  | H : (_ || _) = true |- _ => apply orb_prop in H
  | H : (_ =? _) = true |- _ => apply Z.eqb_eq in H
  | H : (_ =? _) = false |- _ => apply Z.eqb_neq in H
  | H : (_ <=? _) = true |- _ => apply Z.leb_le in H
  | H : (_ <=? _) = false |- _ => apply Z.leb_gt in H
  | H : (_ <? _) = true |- _ => apply Z.ltb_lt in H
  | H : (_ <? _) = false |- _ => apply Z.ltb_ge in H
  end.

Lemma mem_In x l : mem x l = true <-> In x l.
Proof.
  unfold mem. rewrite existsb_exists. split.
  - intros (y & Hy & E). apply Z.eqb_eq in E. subst. exact Hy.
  - intros H. exists x. split; [exact H | apply Z.eqb_refl].
Qed.

Lemma mem2_In x y l : mem2 x y l = true <-> In (x, y) l.
Proof.
  unfold mem2. rewrite existsb_exists. split.
  - intros ((a, b) & Hy & E). cbn [fst snd] in E. zb. subst. exact Hy.
  - intros H. exists (x, y). split; [exact H|]. cbn [fst snd].
    rewrite !Z.eqb_refl. reflexivity.
Qed.

Lemma node_fee_nonneg ein eout a : 0 <= node_fee ein eout a.
Proof. unfold node_fee. lia. Qed.

Lemma find_edge_some g c f t e :
  find_edge g c f t = Some e ->
  In e g /\ e_chan e = c /\ e_from e = f /\ e_to e = t.
Proof.
  unfold find_edge. intros H. apply find_some in H. destruct H as [Hin He].
  unfold edge_is in He. zb. auto.
Qed.

Lemma resolve_chain g prev hs es :
  resolve g prev hs = Some es -> chain g prev hs es.
Proof.
  revert prev es. induction hs as [|h hs IH]; intros prev es H; cbn [resolve] in H.
  - inversion H. constructor.
  - destruct (find_edge g (h_chan h) prev (h_to h)) as [e|] eqn:Ef; [|discriminate].
    destruct (resolve g (h_to h) hs) as [es'|] eqn:Er; [|discriminate].
    inversion H; subst. apply find_edge_some in Ef. destruct Ef as (Hin & Hc & Hf & Ht).
    constructor; auto.
Qed.

Lemma edge_ok_carries en rs e a : edge_ok en rs e a = true -> carries en rs e a.
Proof.
  unfold edge_ok, in_range, not_ignored. intros H. zb.
  assert (Hn : ~ In (e_from e) (ign_nodes rs)).
  { intros Hi. apply mem_In in Hi. congruence. }
  assert (Hp : ~ In (e_from e, e_to e) (ign_pairs rs)).
  { intros Hi. apply mem2_In in Hi. congruence. }
  assert (Hmin : e_min e <= a) by lia.
  assert (Hmax : e_hasmax e = true -> a <= e_max e).
  { intros Hm. rewrite Hm in *. cbn [andb] in *. zb. lia. }
  assert (Hcap : 0 < e_cap e -> a <= e_cap e * 1000).
  { intros Hc. destruct (0 <? e_cap e) eqn:E1; zb; [|lia].
    cbn [andb] in *. zb. lia. }
  destruct (e_from e =? self en) eqn:Es; zb.
  - constructor; auto; try (intros; congruence).
    + intros _ bw Hl. unfold bw_ok in *. rewrite Hl in *. zb. lia.
    + intros _ Hne. unfold out_chan_ok in *. destruct (out_chans rs) eqn:Eo; [congruence|].
      apply mem_In. assumption.
  - constructor; auto; try (intros; congruence).
Qed.

Lemma hops_ok_spec en rs es : forall hs a tl,
  hops_ok en rs a tl es hs = true -> hops_spec en rs a tl es hs.
Proof.
  induction es as [|e es IH]; intros hs a tl H; [discriminate|].
  destruct hs as [|h hs]; [discriminate|].
  cbn [hops_ok] in H. destruct es as [|e' es'].
  - destruct hs; [|discriminate]. zb. subst.
    apply hs_last; auto using edge_ok_carries.
  - zb. pose proof (node_fee_nonneg e e' (h_amt h)).
    apply hs_cons; auto using edge_ok_carries; try lia.
Qed.

Lemma chain_length g prev hs es : chain g prev hs es -> length es = length hs.
Proof. induction 1; cbn; congruence. Qed.

Lemma last_In {A} (l : list A) d : l <> [] -> In (last l d) l.
Proof.
  induction l as [|x l IH]; [congruence|]. intros _. destruct l as [|y l].
  - left. reflexivity.
  - right. apply IH. discriminate.
Qed.

Lemma last_indep {A} (l : list A) d d' : l <> [] -> last l d = last l d'.
Proof.
  induction l as [|x l IH]; [congruence|]. intros _. destruct l as [|y l]; [reflexivity|].
  apply IH. discriminate.
Qed.

Lemma checker_sound g en rs amt src dst r sizes :
  route_valid g en rs amt src dst r sizes = true ->
  exists es, resolve g src (r_hops r) = Some es /\
             route_ok g en rs amt src dst r sizes es.
Proof.
  unfold route_valid. destruct (resolve g src (r_hops r)) as [es|] eqn:Er; [|discriminate].
  intros H. zb. exists es. split; [reflexivity|].
  constructor; auto.
  - intros E. rewrite E in *. discriminate.
  - apply resolve_chain. exact Er.
  - apply hops_ok_spec. assumption.
  - intros n Hn. unfold last_hop_ok in *. rewrite Hn in *.
    destruct es as [|e0 es0] eqn:Ees; [discriminate|]. zb.
    set (d := mkEdge 0 0 0 false 0 0 false 0 0 0 0 0 0) in *.
    exists (last (e0 :: es0) d). repeat split.
    + discriminate.
    + apply last_indep. discriminate.
    + apply last_In. discriminate.
    + assumption.
  - split; [apply Nat.eqb_eq; assumption | assumption].
Qed.

(* ================= newRoute ================= *)

(* what new_route_aux returns, spelled out *)
Lemma new_route_aux_cons amt tl0 e e' rest :
  new_route_aux amt tl0 (e :: e' :: rest) =
  let '(hops, next_in, tl) := new_route_aux amt tl0 (e' :: rest) in
  (mkHop (e_chan e) (e_to e) next_in tl :: hops,
   next_in + node_fee e e' next_in, tl + e_delta e').
Proof. reflexivity. Qed.

Definition fst3 {A B C} (x : A * B * C) : A := fst (fst x).
Definition snd3 {A B C} (x : A * B * C) : B := snd (fst x).
Definition thd3 {A B C} (x : A * B * C) : C := snd x.

Lemma nr_length amt tl0 es : length (fst3 (new_route_aux amt tl0 es)) = length es.
Proof.
  induction es as [|e es IH]; [reflexivity|].
  destruct es as [|e' rest]; [reflexivity|].
  rewrite new_route_aux_cons.
  destruct (new_route_aux amt tl0 (e' :: rest)) as [[hops ni] tl].
  cbn [fst3 fst length] in *. rewrite IH. reflexivity.
Qed.

(* the amount entering the path is at least the payment amount *)
Lemma nr_amt_ge amt tl0 es : amt <= snd3 (new_route_aux amt tl0 es).
Proof.
  induction es as [|e es IH]; [cbn; lia|].
  destruct es as [|e' rest]; [cbn; lia|].
  rewrite new_route_aux_cons.
  destruct (new_route_aux amt tl0 (e' :: rest)) as [[hops ni] tl].
  cbn [snd3 fst snd] in *. pose proof (node_fee_nonneg e e' ni). lia.
Qed.

Lemma nr_last amt tl0 es : es <> [] ->
  let hops := fst3 (new_route_aux amt tl0 es) in
  h_amt (last hops (mkHop 0 0 0 0)) = amt /\
  h_tl (last hops (mkHop 0 0 0 0)) = tl0 /\
  h_to (last hops (mkHop 0 0 0 0)) = e_to (last es (mkEdge 0 0 0 false 0 0 false 0 0 0 0 0 0)).
Proof.
  induction es as [|e es IH]; [congruence|]. intros _.
  destruct es as [|e' rest]; [cbn; auto|].
  rewrite new_route_aux_cons.
  specialize (IH ltac:(discriminate)).
  pose proof (nr_length amt tl0 (e' :: rest)) as Hl.
  destruct (new_route_aux amt tl0 (e' :: rest)) as [[hops ni] tl].
  cbn [fst3 fst] in *. destruct hops as [|h hops]; [discriminate|].
  exact IH.
Qed.

(* sum of the time lock deltas of all edges but the first *)
Definition deltas_after_first (es : list edge) : Z := zsum (map e_delta (List.tl es)).

Lemma nr_tl amt tl0 es :
  thd3 (new_route_aux amt tl0 es) = tl0 + deltas_after_first es.
Proof.
  induction es as [|e es IH]; [cbn; lia|].
  destruct es as [|e' rest]; [cbn; lia|].
  rewrite new_route_aux_cons.
  destruct (new_route_aux amt tl0 (e' :: rest)) as [[hops ni] t1].
  unfold deltas_after_first in *. cbn [thd3 snd List.tl map zsum fold_right] in *.
  rewrite IH. destruct rest; cbn [List.tl map zsum fold_right]; lia.
Qed.

(* HopFee telescopes: for positive amounts that never increase along the
   route the per-hop fees add up to TotalAmount - ReceiverAmt *)
Fixpoint nonincreasing (incoming : Z) (hs : list hop) : Prop :=
  match hs with
  | [] => True
  | h :: r => 0 < h_amt h <= incoming /\ nonincreasing (h_amt h) r
  end.

Lemma zsum_cons x l : zsum (x :: l) = x + zsum l.
Proof. reflexivity. Qed.

Lemma hop_fees_telescope recv incoming hs :
  hs <> [] -> nonincreasing incoming hs ->
  zsum (hop_fees_aux recv incoming hs) = incoming - h_amt (last hs (mkHop 0 0 0 0)) /\
  Forall (fun f => 0 <= f) (hop_fees_aux recv incoming hs).
Proof.
  revert incoming. induction hs as [|h hs IH]; [congruence|]. intros incoming _ [Hh Hr].
  assert (Ef : hop_fee_of recv incoming (h_amt h) = incoming - h_amt h).
  { unfold hop_fee_of. destruct (incoming =? 0) eqn:E1; zb; [lia|].
    destruct (h_amt h =? 0) eqn:E2; zb; [lia|]. reflexivity. }
  change (hop_fees_aux recv incoming (h :: hs)) with
    (hop_fee_of recv incoming (h_amt h) :: hop_fees_aux recv (h_amt h) hs).
  rewrite zsum_cons, Ef. destruct hs as [|h' hs'].
  - cbn. split; [lia|]. repeat constructor. lia.
  - destruct (IH (h_amt h) ltac:(discriminate) Hr) as [IH1 IH2].
    change (last (h :: h' :: hs') (mkHop 0 0 0 0)) with (last (h' :: hs') (mkHop 0 0 0 0)).
    split; [lia|]. constructor; [lia | exact IH2].
Qed.

Lemma nr_nonincreasing amt tl0 es : 0 < amt ->
  nonincreasing (snd3 (new_route_aux amt tl0 es)) (fst3 (new_route_aux amt tl0 es)).
Proof.
  intros Hamt. induction es as [|e es IH]; [exact I|].
  destruct es as [|e' rest]; [cbn; lia|].
  rewrite new_route_aux_cons.
  pose proof (nr_amt_ge amt tl0 (e' :: rest)) as Hge.
  destruct (new_route_aux amt tl0 (e' :: rest)) as [[hops ni] tl].
  cbn [fst3 snd3 fst snd nonincreasing h_amt] in *.
  pose proof (node_fee_nonneg e e' ni). split; [lia | exact IH].
Qed.

Lemma new_route_fields en src amt es :
  let x := new_route_aux amt (height en + final_delta en) es in
  new_route en src amt es = mkRoute src (snd3 x) (thd3 x) (fst3 x).
Proof.
  unfold new_route. destruct (new_route_aux amt (height en + final_delta en) es) as [[a b] c].
  reflexivity.
Qed.

Lemma newroute_consistent en src amt es :
  es <> [] -> 0 < amt ->
  let r := new_route en src amt es in
  r_src r = src /\
  length (r_hops r) = length es /\
  receiver_amt r = amt /\
  last_tl (r_hops r) = height en + final_delta en /\
  last_to src (r_hops r) = e_to (last es (mkEdge 0 0 0 false 0 0 false 0 0 0 0 0 0)) /\
  r_amt r = receiver_amt r + zsum (hop_fees r) /\
  total_fees r = zsum (hop_fees r) /\
  Forall (fun f => 0 <= f) (hop_fees r) /\
  r_tl r = height en + final_delta en + deltas_after_first es.
Proof.
  intros Hne Hamt. cbv zeta. rewrite new_route_fields. cbv zeta.
  set (tl0 := height en + final_delta en).
  pose proof (nr_length amt tl0 es) as Hlen.
  pose proof (nr_last amt tl0 es Hne) as (Hla & Hlt & Hlto).
  pose proof (nr_tl amt tl0 es) as Htl.
  pose proof (nr_nonincreasing amt tl0 es Hamt) as Hni.
  set (x := new_route_aux amt tl0 es) in *.
  assert (Hhne : fst3 x <> []).
  { intros E. rewrite E in Hlen. destruct es; [congruence | discriminate]. }
  unfold receiver_amt, total_fees, hop_fees, last_tl, last_to, receiver_amt.
  cbn [r_src r_amt r_tl r_hops].
  destruct (hop_fees_telescope amt (snd3 x) (fst3 x) Hhne Hni) as [Hsum Hpos].
  destruct (fst3 x) as [|h0 hs0] eqn:Eh; [congruence|].
  rewrite (last_indep (h0 :: hs0) (mkHop 0 src 0 0) (mkHop 0 0 0 0)) by discriminate.
  rewrite Hla in *. repeat split; auto; try lia.
Qed.

(* ---- newRoute leaves every forwarding node exactly its fee and delta ---- *)

(* every edge can carry the amount newRoute puts on it *)
Fixpoint carried_ok (en : env) (rs : restr) (amt tl0 : Z) (es : list edge) : bool :=
  match es with
  | [] => true
  | e :: rest =>
    edge_ok en rs e (snd3 (new_route_aux amt tl0 es)) && carried_ok en rs amt tl0 rest
  end.

Lemma newroute_hops_ok en rs amt tl0 es :
  es <> [] -> carried_ok en rs amt tl0 es = true ->
  let x := new_route_aux amt tl0 es in
  hops_ok en rs (snd3 x) (thd3 x) es (fst3 x) = true.
Proof.
  induction es as [|e es IH]; [congruence|]. intros _ Hc.
  destruct es as [|e' rest].
  - cbn in *. zb. rewrite H. rewrite !Z.eqb_refl. reflexivity.
  - cbn [carried_ok] in Hc. apply andb_prop in Hc. destruct Hc as [Hc1 Hc2].
    specialize (IH ltac:(discriminate) Hc2). cbv zeta in *.
    rewrite new_route_aux_cons in *.
    destruct (new_route_aux amt tl0 (e' :: rest)) as [[hops ni] tl] eqn:Ex.
    cbn [fst3 snd3 thd3 fst snd] in *.
    cbn [hops_ok h_amt h_tl]. rewrite Hc1. cbn [andb].
    replace (ni + node_fee e e' ni - ni) with (node_fee e e' ni) by lia.
    replace (tl + e_delta e' - tl) with (e_delta e') by lia.
    rewrite !Z.leb_refl. cbn [andb]. exact IH.
Qed.
