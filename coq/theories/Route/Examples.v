From LV Require Import Route.Model.
