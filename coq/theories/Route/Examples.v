(* C19 — non-vacuity: the hypotheses of the property theorems are satisfiable
   by concrete, non-trivial inputs (3 hops, a negative inbound fee that floors
   a node's fee at zero, a parallel channel, tight limits). *)
From Coq Require Import ZArith List Bool Lia.
From LV Require Import Route.Model Route.Proofs Route.LinkC09 Route.Search Route.Props.
Import ListNotations.
Local Open Scope Z_scope.

(* nodes 0 (source = self) -> 1 -> 2 -> 3 (target); channels 10, 20/21, 30 *)
Definition e01 := mkEdge 10 0 1 false 1000 2000000 true 1000 100 40 (-5000) (-2000) 5000.
Definition e12 := mkEdge 20 1 2 false 1 1500000 true 1000 1000 80 100 500 3000.
Definition e12' := mkEdge 21 1 2 false 1 1500000 true 0 0 144 100 500 3000.
Definition e23 := mkEdge 30 2 3 false 1000 1000000 true 2000 5000 18 0 0 1000.
Definition g0 : graph := [e01; e12; e12'; e23].
Definition en0 := mkEnv 0 700000 40 [(10, 1007603)].
Definition rs0 := mkRestr 7603 162 [10] (Some 2) [5] [(3, 0)].

Definition path0 := [e01; set_delta_cap e12 144 3000; zero_inbound e23].
Definition r0 := new_route en0 0 1000000 path0.

Example r0_value :
  r0 = mkRoute 0 1007603 700202
         [mkHop 10 1 1007603 700058; mkHop 20 2 1000000 700040; mkHop 30 3 1000000 700040].
Proof. vm_compute. reflexivity. Qed.

(* node 1's fee is floored at zero by its inbound discount; node 2 keeps 7603 *)
Example r0_hop_fees : hop_fees r0 = [0; 7603; 0].
Proof. vm_compute. reflexivity. Qed.

(* the checker accepts it with every limit exactly tight: bandwidth hint,
   fee limit, cltv limit, max_htlc of the last channel *)
Example r0_valid : route_valid g0 en0 rs0 1000000 0 3 r0 [60; 60; 50] = true.
Proof. vm_compute. reflexivity. Qed.

(* ... and rejects it as soon as one limit is one tighter *)
Example r0_fee_limit_tight :
  route_valid g0 en0 (mkRestr 7602 162 [10] (Some 2) [] []) 1000000 0 3 r0 [60; 60; 50] = false.
Proof. vm_compute. reflexivity. Qed.
Example r0_bandwidth_tight :
  route_valid g0 (mkEnv 0 700000 40 [(10, 1007602)]) rs0 1000000 0 3 r0 [60; 60; 50] = false.
Proof. vm_compute. reflexivity. Qed.
Example r0_underpaid_rejected :
  route_valid g0 en0 rs0 1000000 0 3
    (mkRoute 0 1007602 700202
       [mkHop 10 1 1007602 700058; mkHop 20 2 1000000 700040; mkHop 30 3 1000000 700040])
    [60; 60; 50] = false.
Proof. vm_compute. reflexivity. Qed.

Example r0_carried_ok : carried_ok en0 rs0 1000000 700040 [e01; e12; e23] = true.
Proof. vm_compute. reflexivity. Qed.

(* C19_hop_passes_C09: its hypotheses hold for node 2 of r0 *)
Example r0_forwards :
  forwards (r_amt r0) (r_tl r0) [e01; e12; e23] (r_hops r0)
           e12 e23 (mkHop 20 2 1000000 700040) 1007603 700058.
Proof. rewrite r0_value. cbn [r_amt r_tl r_hops]. apply fw_later. apply fw_here. Qed.

Example r0_node2_passes_C09 :
  P.check_forward_m (link_env e23 10 2016 5000000) (htlc_of e12 1007603 700058
                     (mkHop 20 2 1000000 700040) 700000) = P.ok_result /\
  P.D (link_env e23 10 2016 5000000)
      (htlc_of e12 1007603 700058 (mkHop 20 2 1000000 700040) 700000).
Proof.
  split; [vm_compute; reflexivity|].
  constructor; vm_compute; split; congruence.
Qed.

(* C19_get_edge_sound: highest fee policy, maximum delta of the parallel channels *)
Example get_edge_parallel :
  get_edge en0 false [e12; e12'] 1007000 7000 = Some (set_delta_cap e12 144 3000).
Proof. vm_compute. reflexivity. Qed.

(* C19_search_invariant / C19_search_sound: the relaxations along path0 are
   accepted and lead to the source entry with the totals of r0 *)
Example replay_path0 :
  replay en0 rs0 1000000 0 3 50 path0 [0; 60; 60]
  = Some (mkEntry 0 1007603 0 700202 170).
Proof. vm_compute. reflexivity. Qed.

Example search_chain_valid :
  exists n szs, inv en0 rs0 1000000 0 3 n path0 [e01; e12; e23] szs /\ n_node n = 0.
Proof.
  assert (Hfl : 0 <= fee_limit rs0) by (vm_compute; congruence).
  destruct (relax en0 rs0 1000000 0 (zero_inbound e23) (target_entry en0 3 1000000 50) 60)
    as [n1|] eqn:E1; [|vm_compute in E1; discriminate].
  pose proof (C19_search_invariant_init en0 rs0 1000000 0 3 50 Hfl e23 e23 60 n1
                (syn_refl _) eq_refl ltac:(vm_compute; reflexivity)
                ltac:(intros n Hn; vm_compute in Hn; inversion Hn; reflexivity) E1) as I1.
  assert (N1 : n1 = mkEntry 2 1007000 7000 700058 110) by (vm_compute in E1; congruence).
  destruct (relax en0 rs0 1000000 0 (set_delta_cap e12 144 3000) n1 60) as [n2|] eqn:E2;
    [|subst n1; vm_compute in E2; discriminate].
  destruct (C19_search_invariant en0 rs0 1000000 0 3 Hfl n1 _ _ _ e12 (set_delta_cap e12 144 3000) 60 n2
              I1 ltac:(subst n1; vm_compute; congruence)
              (syn_set_delta_cap e12 144 3000 ltac:(vm_compute; congruence))
              ltac:(split; reflexivity) ltac:(subst n1; reflexivity)
              ltac:(subst n1; vm_compute; reflexivity) E2) as [own2 I2].
  assert (N2 : n2 = mkEntry 1 1009610 2007 700202 170)
    by (subst n1; vm_compute in E2; congruence).
  destruct (relax en0 rs0 1000000 0 e01 n2 0) as [n3|] eqn:E3;
    [|subst n2; vm_compute in E3; discriminate].
  destruct (C19_search_invariant en0 rs0 1000000 0 3 Hfl n2 _ _ _ e01 e01 0 n3
              I2 ltac:(subst n2; vm_compute; congruence) (syn_refl _)
              ltac:(split; reflexivity) ltac:(subst n2; reflexivity)
              ltac:(subst n2; vm_compute; reflexivity) E3) as [own3 I3].
  exists n3, (own3 :: own2 :: [50]). split; [exact I3|].
  subst n2. vm_compute in E3. inversion E3. reflexivity.
Qed.
