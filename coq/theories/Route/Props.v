(* C19 property theorems (filled in below). *)
From LV Require Import Route.Model.
