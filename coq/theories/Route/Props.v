(* C19 — every route the pathfinder returns is payable under all stated
   constraints.  Property theorems; proofs are in Proofs.v, LinkC09.v, Search.v. *)
From Coq Require Import ZArith List Bool.
From LV Require Import Route.Model Route.Proofs Route.LinkC09 Route.Search.
From LV Require Import Route.Dijkstra Route.DijkstraProofs.
From LV Require Import Route.Blinded Route.BlindedProofs.
Import ListNotations.
Local Open Scope Z_scope.

(* A route the executable checker accepts satisfies every clause of the
   property (route_ok, Proofs.v): connected from source to target over existing
   policies of the graph; every channel can carry what flows over it (min/max
   HTLC, capacity, not ignored, enabled, and for channels of [self] bandwidth
   hint and outgoing-channel set); every forwarding node is left at least its
   fee (outbound + inbound, floored at 0) and its time lock delta and is never
   out of pocket; receiver gets exactly [amt] at height + final delta; total
   fees within the fee limit, total time lock within the CLTV limit, last-hop
   restriction respected, onion payload fits. *)
Theorem C19_checker_sound :
  forall g en rs amt src dst r sizes,
    route_valid g en rs amt src dst r sizes = true ->
    exists es, resolve g src (r_hops r) = Some es /\
               route_ok g en rs amt src dst r sizes es.
Proof. exact checker_sound. Qed.

(* newRoute's per-hop amounts and time locks add up to its totals. *)
Theorem C19_newroute_consistent :
  forall en src amt es,
    es <> [] -> 0 < amt ->
    let r := new_route en src amt es in
    r_src r = src /\
    length (r_hops r) = length es /\
    receiver_amt r = amt /\
    last_tl (r_hops r) = height en + final_delta en /\
    last_to src (r_hops r) = e_to (last es (mkEdge 0 0 0 false 0 0 false 0 0 0 0 0 0)) /\
    r_amt r = receiver_amt r + zsum (hop_fees r) /\
    total_fees r = zsum (hop_fees r) /\
    Forall (fun f => 0 <= f) (hop_fees r) /\
    r_tl r = height en + final_delta en + deltas_after_first es.
Proof. exact newroute_consistent. Qed.

(* If every edge of a path can carry the amount newRoute puts on it, the hops
   newRoute builds pass the per-hop part of the checker: each forwarding node
   keeps exactly its fee and exactly its time lock delta. *)
Theorem C19_newroute_pays_exact_fees :
  forall en rs amt tl0 es,
    es <> [] -> carried_ok en rs amt tl0 es = true ->
    let x := new_route_aux amt tl0 es in
    hops_ok en rs (snd3 x) (thd3 x) es (fst3 x) = true.
Proof. exact newroute_hops_ok. Qed.

(* Cross-check with C09: at every forwarding node of a checker-accepted route
   the link's forwarding rule (outgoing channel's policy, incoming channel's
   inbound fee, the hop's amounts and expiries) answers OK, provided the
   height, the link's cltv bounds and its balance allow; both for the
   unbounded rule and, on C09's domain D, for Go's machine arithmetic. *)
Theorem C19_hop_passes_C09 :
  forall g en rs amt src dst r sizes,
    route_valid g en rs amt src dst r sizes = true ->
    exists es, resolve g src (r_hops r) = Some es /\
    forall ein eout h a_in tl_in rej maxcltv bw hgt,
      forwards (r_amt r) (r_tl r) es (r_hops r) ein eout h a_in tl_in ->
      hgt + rej < h_tl h -> h_tl h <= hgt + maxcltv ->
      tl_in - h_tl h <= maxcltv -> h_amt h <= bw ->
      P.check_forward_s (link_env eout rej maxcltv bw) (htlc_of ein a_in tl_in h hgt)
        = P.ok_result /\
      (P.D (link_env eout rej maxcltv bw) (htlc_of ein a_in tl_in h hgt) ->
       P.check_forward_m (link_env eout rej maxcltv bw) (htlc_of ein a_in tl_in h hgt)
        = P.ok_result).
Proof.
  intros g en rs amt src dst r sizes H.
  destruct (checker_sound _ _ _ _ _ _ _ _ H) as (es & Hr & Hok).
  exists es. split; [exact Hr|]. intros.
  split; [|intros HD]; [eapply hop_passes_C09_spec | eapply hop_passes_C09_machine];
    try eassumption; exact (ok_hops _ _ _ _ _ _ _ _ _ Hok).
Qed.

(* getEdgeLocal / getEdgeNetwork only hand out a policy that was offered, with
   a time lock delta at least the channel's own (the maximum over all usable
   parallel channels), and that can carry the amount sent over it. *)
Theorem C19_get_edge_sound :
  forall en local es net nout e,
    get_edge en local es net nout = Some e ->
    exists o, In o es /\ syn o e /\ inb_same o e /\
      let a := net + capped_inbound o net nout in
      in_range o a = true /\
      (local = true -> bw_ok en o a = true) /\
      (local = false -> e_disabled o = false /\
         forall x, In x es -> usable_net net nout x = true -> e_delta x <= e_delta e).
Proof. exact get_edge_sound. Qed.

(* Search invariant, base: the entry created by relaxing an edge into the
   target describes a one-hop suffix the checker accepts. *)
Theorem C19_search_invariant_init :
  forall en rs amt src dst last_size, 0 <= fee_limit rs ->
  forall o e payload n',
    syn o e -> e_to e = dst ->
    edge_ok en rs o amt = true ->
    (forall n, last_hop rs = Some n -> e_from o = n) ->
    relax en rs amt src (zero_inbound e) (target_entry en dst amt last_size) payload = Some n' ->
    inv en rs amt src dst n' [zero_inbound e] [o] [last_size].
Proof. exact relax_from_target. Qed.

(* Search invariant, step: relaxing an edge into a (non-source) node whose
   entry satisfies the invariant yields an entry that satisfies it for the
   extended path: the amounts / time locks processEdge accumulated are the
   ones newRoute will recompute, the checker accepts the extended suffix for
   them, and fee / cltv / payload limits hold. *)
Theorem C19_search_invariant :
  forall en rs amt src dst, 0 <= fee_limit rs ->
  forall to es os szs o e payload n',
    inv en rs amt src dst to es os szs ->
    n_node to <> src ->
    syn o e -> inb_same o e -> e_to e = n_node to ->
    edge_ok en rs o (n_net to + Z.max (inbound_fee e (n_net to)) (- n_outfee to)) = true ->
    relax en rs amt src e to payload = Some n' ->
    exists own, inv en rs amt src dst n' (e :: es) (o :: os) (own :: szs).
Proof. exact relax_step. Qed.

(* Consequence: once the source's entry satisfies the invariant, the route
   newRoute builds from its chain is accepted by the checker (hence, by
   C19_checker_sound, satisfies every clause of the property). *)
Theorem C19_search_sound :
  forall en rs amt src dst g n es os szs,
    inv en rs amt src dst n es os szs ->
    n_node n = src ->
    resolve g src (r_hops (new_route en src amt es)) = Some os ->
    0 < amt ->
    route_valid g en rs amt src dst (new_route en src amt es) szs = true.
Proof. exact search_sound. Qed.

(* ---------- findPath's search loop (Route/Dijkstra.v) ----------

   [greach s]: state s of the loop (distance map, heap, partialPath) is
   reachable from the initial state by processEdge calls (LRelax: any edge the
   unifier may hand out for the current pivot, any payload size, any answer
   [ep] of the probability source) and heap pops (LPop: ANY entry that is
   minimal w.r.t. distanceHeap.Less), every processEdge call satisfying the
   DOMAIN GUARDS [guard]:
     - policy fields are unsigned (base, rate, time lock delta >= 0),
     - the probability source answers a number in [0,1],
     - amountToSend * timeLockDelta * 15 < 2^63 and
       pivot.weight + edgeWeight < 2^63 (Go's int64 arithmetic in edgeWeight
       and tempWeight does not wrap; the model computes with wrap64).
   [keyops_ok K]: the float64 operations used for the heap key are monotone
   (total order; p*e <= p for 0 <= e <= 1; getProbabilityBasedDist monotone in
   the weight and antitone in the probability). *)

(* CHAIN STABILITY.  Once a node is finalised (popped: in the distance map and
   off the heap) its entry is never changed again and it never re-enters the
   heap, in every continuation of the run. *)
Theorem C19_chain_stable :
  forall (K : keyops), keyops_ok K ->
  forall g en rs amt src dst last_size (minprob : kP K),
    0 <= fee_limit rs -> 0 < amt ->
  forall s s' v x,
    greach K g en rs amt src dst last_size minprob s ->
    gsteps K g en rs amt src dst minprob s s' ->
    finalised K s v x -> finalised K s' v x.
Proof. exact chain_stable. Qed.

(* heap.Pop returns entries in non-decreasing key order (dist ascending,
   probability descending): the Dijkstra finalisation argument. *)
Theorem C19_pops_sorted :
  forall (K : keyops), keyops_ok K ->
  forall g en rs amt src dst last_size (minprob : kP K),
    0 <= fee_limit rs -> 0 < amt ->
  forall s v s',
    greach K g en rs amt src dst last_size minprob s ->
    exec K g en rs amt src dst minprob s (LPop K v) = Some s' ->
    s_pivot K s = init_pivot K en amt dst last_size \/
    key_lt K (s_pivot K s') (s_pivot K s) = false.
Proof.
  intros K KO g en rs amt src dst last_size minprob Hf Ha s v s' Hr He.
  exact (pops_sorted K KO g en rs amt src dst last_size minprob Hf Ha s v s' Hr I He).
Qed.

(* SOUNDNESS OF findPath + newRoute.  When the source has been popped, the
   nextHop chain that findPath unravels from the distance map exists, is
   unique, and the route newRoute builds from it passes the checker (hence, by
   C19_checker_sound, satisfies every clause of the property).  [szs] are the
   payload sizes the size oracle answered for the hops of the chain. *)
Theorem C19_findpath_sound :
  forall (K : keyops), keyops_ok K ->
  forall g en rs amt src dst last_size (minprob : kP K),
    0 <= fee_limit rs -> 0 < amt ->
  forall s,
    greach K g en rs amt src dst last_size minprob s ->
    s_done K s = true ->
    exists es szs,
      (forall fuel, (length es <= fuel)%nat ->
                    unravel K dst fuel (s_dm K s) src = Some es) /\
      (forall fuel es', unravel K dst fuel (s_dm K s) src = Some es' -> es' = es) /\
      route_valid g en rs amt src dst (new_route en src amt es) szs = true.
Proof. exact findpath_sound. Qed.

(* End to end: the route built from the chain findPath returns satisfies every
   clause of the property (route_ok), for every guarded run of the search. *)
Theorem C19_findpath_route_ok :
  forall (K : keyops), keyops_ok K ->
  forall g en rs amt src dst last_size (minprob : kP K),
    0 <= fee_limit rs -> 0 < amt ->
  forall s,
    greach K g en rs amt src dst last_size minprob s ->
    s_done K s = true ->
    exists es szs os,
      unravel K dst (length es) (s_dm K s) src = Some es /\
      resolve g src (r_hops (new_route en src amt es)) = Some os /\
      route_ok g en rs amt src dst (new_route en src amt es) szs os.
Proof.
  intros K KO g en rs amt src dst last_size minprob Hf Ha s Hr Hd.
  destruct (findpath_sound K KO g en rs amt src dst last_size minprob Hf Ha s Hr Hd)
    as (es & szs & Hu & _ & Hv).
  destruct (checker_sound _ _ _ _ _ _ _ _ Hv) as (os & Hres & Hok).
  exists es, szs, os. split; [apply Hu; apply le_n|]. split; assumption.
Qed.

(* ---------- additional edges: route hints and blinded payment paths ----------
   (Route/Blinded.v)

   All theorems above quantify over ANY graph [g : list edge].  The graph of a
   findPath call with additional edges is [with_additional g self adds]: the
   channel graph plus every hint that does not leave [self], with zero inbound
   fee and the fixed hint capacity; for a payment to blinded paths [ps] the
   hints are [blinded_additional nums ps] (BlindedPaymentPathSet.ToRouteHints
   after NewBlindedPaymentPathSet): per path the edge introduction node ->
   first blinded node with the AGGREGATED relay parameters
   (min = htlc_minimum, max = htlc_maximum but has_max = FALSE as lnd leaves
   it, fee base/rate, cltv delta), then all-zero edges up to the NUMS dummy
   target [nums].  The instances below spell this out. *)

(* findPath + newRoute on the graph with the blinded paths' edges: the chain
   exists, is unique and the route built from it (dummy hop still on) satisfies
   every clause of the property on THAT graph; in particular (next theorems)
   the aggregated htlc_minimum, fee and CLTV delta are honoured. *)
Theorem C19_blinded_findpath_route_ok :
  forall (K : keyops), keyops_ok K ->
  forall g nums ps en rs amt src last_size (minprob : kP K),
    0 <= fee_limit rs -> 0 < amt ->
  forall s,
    greach K (blinded_graph g (self en) nums ps) en rs amt src (set_target nums ps)
           last_size minprob s ->
    s_done K s = true ->
    exists es szs os,
      unravel K (set_target nums ps) (length es) (s_dm K s) src = Some es /\
      resolve (blinded_graph g (self en) nums ps) src (r_hops (new_route en src amt es)) = Some os /\
      route_ok (blinded_graph g (self en) nums ps) en rs amt src (set_target nums ps)
               (new_route en src amt es) szs os.
Proof.
  intros K KO g nums ps en rs amt src last_size minprob Hf Ha s Hr Hd.
  exact (C19_findpath_route_ok K KO _ en rs amt src _ last_size minprob Hf Ha s Hr Hd).
Qed.

(* The clause "the amount forwarded lies within that channel's MIN htlc" holds
   on the aggregated edge of every blinded path: whatever a checker-accepted
   route sends over [agg_edge p b1] is at least the path's htlc_minimum. *)
Theorem C19_blinded_min_enforced :
  forall g en rs amt src dst r sizes,
    route_valid g en rs amt src dst r sizes = true ->
    exists es, resolve g src (r_hops r) = Some es /\
      forall p b1 x, carried_on (r_amt r) es (r_hops r) (agg_edge p b1) x ->
                     bp_min p <= x.
Proof. exact blinded_min_enforced. Qed.

(* The node in front of the aggregated edge (the introduction node) is left at
   least the aggregated fee netted with the inbound fee of the channel the
   payment arrives on (floored at zero — exactly what newRoute computes; NOTE:
   with a negative inbound fee this is LESS than the aggregated fee, see
   C19_blinded_aggregate_fee_refuted) and at least the aggregated CLTV delta. *)
Theorem C19_blinded_intro_paid :
  forall g en rs amt src dst r sizes,
    route_valid g en rs amt src dst r sizes = true ->
    exists es, resolve g src (r_hops r) = Some es /\
      forall p b1 ein h a_in tl_in,
        fwd_over (r_amt r) (r_tl r) es (r_hops r) ein (agg_edge p b1) h a_in tl_in ->
        Z.max 0 (bp_base p + (h_amt h * bp_rate p) / fee_rate_parts +
                 inbound_fee ein (h_amt h + (bp_base p + (h_amt h * bp_rate p) / fee_rate_parts)))
          <= a_in - h_amt h /\
        bp_delta p <= tl_in - h_tl h /\
        bp_min p <= h_amt h.
Proof. exact blinded_intro_paid. Qed.

(* newRoute's removal of the NUMS dummy hop changes no other hop and neither
   total: the dummy edge is all-zero and hints carry no inbound fee. *)
Theorem C19_newroute_strip_dummy :
  forall amt tl0 a b es,
    es <> [] ->
    e_ibase (last es dflt_edge) = 0 -> e_irate (last es dflt_edge) = 0 ->
    new_route_aux amt tl0 (es ++ [zero_edge a b]) =
    (fst3 (new_route_aux amt tl0 es) ++ [mkHop 0 b amt tl0],
     snd3 (new_route_aux amt tl0 es), thd3 (new_route_aux amt tl0 es)).
Proof. intros. apply new_route_aux_snoc_dummy; assumption. Qed.

(* newRoute's back-fill loses nothing: when every hop from the introduction
   node on shows the recipient's amount and expiry (zero-fee zero-delta edges
   inside the blinded portion), writing those back recovers the hops. *)
Theorem C19_unblind_backfill :
  forall intro amt tl hs inb,
    flat_from intro amt tl inb hs ->
    unblind_hops intro amt tl inb (backfill intro inb hs) = hs.
Proof. exact unblind_backfill. Qed.

(* REFUTED: "the amount forwarded lies within that channel's MAX htlc" on the
   aggregated edge.  has_max of [agg_edge] is false (as toRouteHints leaves
   HasMaxHTLC), so the checker, like amtInRange, never looks at htlc_maximum.
   Witness (replayed on the real code in every run, finding C19-F1): source 0
   -101-> 1 = introduction node, one blinded hop 3, htlc_maximum 500000,
   amount 500001. *)
Definition w_e01 := mkEdge 101 0 1 false 0 5000000000 true 1000 100 40 0 0 10000000.
Definition w_p := mkBPay 1 [3] 1000 100 80 0 500000.
Definition w_en := mkEnv 0 800000 0 [].
Definition w_rs := mkRestr 1099511627776 100000 [] None [] [].
Definition w_path := [w_e01; agg_edge w_p 3; zero_edge 3 11].

Theorem C19_blinded_max_refuted :
  bpay_valid w_p = true /\
  let G := blinded_graph [w_e01] 0 11 [w_p] in
  (* the route with the dummy hop passes the checker on the search graph *)
  route_valid G w_en w_rs 500001 0 11 (new_route w_en 0 500001 w_path) [110; 90; 90] = true /\
  exists r os,
    new_route_blinded 11 [w_p] w_en 0 500001 w_path = Some r /\
    (* so does the route newRoute returns, with the amounts written back *)
    route_valid G w_en w_rs 500001 0 3 (unblind 1 r) [110; 90] = true /\
    resolve G 0 (r_hops (unblind 1 r)) = Some os /\
    exists x, carried_on (r_amt r) os (r_hops (unblind 1 r)) (agg_edge w_p 3) x /\
              bp_max w_p < x.
Proof.
  split; [reflexivity|]. cbv zeta. split; [vm_compute; reflexivity|].
  eexists. eexists. split; [vm_compute; reflexivity|].
  split; [vm_compute; reflexivity|]. split; [vm_compute; reflexivity|].
  exists 500001. split; [|vm_compute; reflexivity].
  apply co_next. apply co_here.
Qed.

(* REFUTED: "the blinded path is left its aggregated fee".  A negative
   inbound fee of the introduction node on the channel the payment arrives on
   is netted against the aggregated fee (node_fee = max 0 (out + in)), which
   pays for ALL nodes of the blinded path.  Witness: 0 -101-> 1 -102-> 2 =
   introduction node charging inbound base -1500 on 102; aggregated fee
   1000 + 100 ppm; amount 400000: the path is left 0 instead of 1040. *)
Definition w_e12 := mkEdge 102 1 2 false 0 5000000000 true 2000 500 30 (-1500) 0 10000000.
Definition w_p2 := mkBPay 2 [3] 1000 100 80 1000 500000.
Definition w_path2 := [w_e01; w_e12; agg_edge w_p2 3; zero_edge 3 11].

Theorem C19_blinded_aggregate_fee_refuted :
  let G := blinded_graph [w_e01; w_e12] 0 11 [w_p2] in
  route_valid G w_en w_rs 400000 0 11 (new_route w_en 0 400000 w_path2) [50; 110; 90; 90] = true /\
  exists r os ein h a_in tl_in,
    new_route_blinded 11 [w_p2] w_en 0 400000 w_path2 = Some r /\
    route_valid G w_en w_rs 400000 0 3 (unblind 2 r) [50; 110; 90] = true /\
    resolve G 0 (r_hops (unblind 2 r)) = Some os /\
    fwd_over (r_amt r) (r_tl r) os (r_hops (unblind 2 r)) ein (agg_edge w_p2 3) h a_in tl_in /\
    a_in - h_amt h < bp_base w_p2 + (h_amt h * bp_rate w_p2) / fee_rate_parts.
Proof.
  cbv zeta. split; [vm_compute; reflexivity|].
  do 6 eexists. split; [vm_compute; reflexivity|].
  split; [vm_compute; reflexivity|]. split; [vm_compute; reflexivity|].
  split; [apply fo_later; apply fo_here|]. vm_compute. reflexivity.
Qed.

(* REFUTED: the htlc limits of an INTRODUCTION-NODE-ONLY path.  Such a path
   yields no additional edge at all ([blinded_edges] = []): the search runs to
   the introduction node over the public graph and nothing carries
   htlc_minimum / htlc_maximum.  Witness (finding C19-F3): 0 -101-> 1 -102-> 2 =
   introduction node = recipient, htlc_minimum 1000, amount 999. *)
Definition w_e12n := mkEdge 102 1 2 false 0 5000000000 true 2000 500 30 0 0 10000000.
Definition w_p3 := mkBPay 2 [] 1000 100 80 1000 500000.
Definition w_en80 := mkEnv 0 800000 80 [].

Theorem C19_blinded_intro_only_limits_refuted :
  bpay_valid w_p3 = true /\
  blinded_additional 11 [w_p3] = [] /\
  set_target 11 [w_p3] = 2 /\ set_final_delta [w_p3] = final_delta w_en80 /\
  let G := blinded_graph [w_e01; w_e12n] 0 11 [w_p3] in
  exists r,
    new_route_blinded 11 [w_p3] w_en80 0 999 [w_e01; w_e12n] = Some r /\
    route_valid G w_en80 w_rs 999 0 2 (unblind 2 r) [50; 90] = true /\
    receiver_amt r < bp_min w_p3.
Proof.
  split; [reflexivity|]. split; [reflexivity|]. split; [reflexivity|]. split; [reflexivity|].
  cbv zeta. eexists. split; [vm_compute; reflexivity|].
  split; vm_compute; reflexivity.
Qed.

(* REFUTED: "the onion payload fits" for the route findPath accepts on its own
   estimate.  lastHopPayloadSize's blinded branch ([final_hop_est]) leaves out
   the total_amount_msat record newRoute puts on the final hop
   ([final_hop_real]).  Witness (finding C19-F4): introduction-node-only path
   with 1214 bytes of encrypted data, amount 52946097776 at expiry 800080:
   estimate exactly 1300, processEdge's payload guard passes ([replay] ends
   with routingInfoSize 1300), the real payload is 1307 and the checker, which
   is given the real size, rejects the route. *)
Definition w_e01big := mkEdge 101 0 1 false 0 1125899906842624 true 1000 100 40 0 0 100000000.
Definition w_p4 := mkBPay 1 [] 1000 100 80 1000 1125899906842624.

Theorem C19_blinded_payload_estimate_refuted :
  let amt := 52946097776 in
  let tl := height w_en80 + final_delta w_en80 in
  let G := blinded_graph [w_e01big] 0 11 [w_p4] in
  final_hop_est amt tl 1214 true = max_payload /\
  final_hop_real amt tl 1214 true amt (-1) = 1307 /\
  (exists n, replay w_en80 w_rs amt 0 1 (final_hop_est amt tl 1214 true)
                    [zero_inbound w_e01big] [0] = Some n /\ n_size n = max_payload) /\
  exists r,
    new_route_blinded 11 [w_p4] w_en80 0 amt [zero_inbound w_e01big] = Some r /\
    route_valid G w_en80 w_rs amt 0 1 (unblind 1 r) [final_hop_est amt tl 1214 true] = true /\
    route_valid G w_en80 w_rs amt 0 1 (unblind 1 r) [final_hop_real amt tl 1214 true amt (-1)] = false.
Proof.
  cbv zeta. split; [vm_compute; reflexivity|]. split; [vm_compute; reflexivity|].
  split; [eexists; split; vm_compute; reflexivity|].
  eexists. split; [vm_compute; reflexivity|]. split; vm_compute; reflexivity.
Qed.
