(* C19 — replay of a recorded findPath run on the model of Route/Dijkstra.v.

   The harness observes, from inside the real findPath:
     * every expansion of a pivot (the graph callback ForEachNodeDirectedChannel
       issued by addGraphPolicies at the top of the loop) = the ORDER in which
       nodes are finalised (popped), target first;
     * every processEdge call that reaches the probability source (from, to,
       amountToSend, capacity) together with the answer it was given.
   [sim] feeds these events to the model: for a probe it recomputes the unified
   edge with [get_edge] from the graph, the payload size, and executes the
   LRelax step with float64 arithmetic (Coq primitive floats = IEEE binary64,
   evaluated by vm_compute on the hardware); for a pivot it executes LPop,
   which only succeeds when that node is on the model's heap and minimal.
   Finally the source is popped and the unravelled chain is compared with the
   path findPath returned. *)
From Coq Require Import ZArith NArith List Bool Floats Uint63.
From LV Require Import Route.Model Route.Exec Route.Dijkstra.
Import ListNotations.
Local Open Scope Z_scope.

(* ---------- float64 ---------- *)

(* float64(int64) — round to nearest even *)
Definition f_of_Z (z : Z) : float :=
  if z <? 0 then PrimFloat.opp (PrimFloat.of_uint63 (Uint63.of_Z (- z)))
  else PrimFloat.of_uint63 (Uint63.of_Z z).

(* int64(float64) for finite values — truncation toward zero *)
Definition f_trunc (f : float) : Z :=
  match Prim2SF f with
  | S754_finite s m e =>
    let a := if 0 <=? e then Zpos m * 2 ^ e else Zpos m / 2 ^ (- e) in
    if s then - a else a
  | _ => 0
  end.

(* math.Float64frombits *)
Definition f_of_bits (b : Z) : float :=
  let ex := (b / 4503599627370496) mod 2048 in
  let mant := b mod 4503599627370496 in
  let neg := 9223372036854775808 <=? b in
  let f :=
    if ex =? 0 then
      (if mant =? 0 then 0%float
       else SF2Prim (S754_finite false (Z.to_pos mant) (-1074)))
    else if ex =? 2047 then nan
    else SF2Prim (S754_finite false (Z.to_pos (4503599627370496 + mant)) (ex - 1075)) in
  if neg then PrimFloat.opp f else f.

(* getProbabilityBasedDist *)
Definition f_dist (pen : float) (w : Z) (p : float) : Z :=
  if PrimFloat.eqb p 0 then inf64
  else
    let d := (f_of_Z w + pen / p)%float in
    if PrimFloat.ltb 9000000000000000000 d then inf64 else f_trunc d.

Definition FK (pen : float) : keyops :=
  mkKeyops float PrimFloat.leb PrimFloat.mul (f_dist pen) 1%float
           (fun p => PrimFloat.eqb p 0)
           (fun p => PrimFloat.leb 0 p = true /\ PrimFloat.leb p 1 = true).

(* ---------- Hop.PayloadSize of a cleartext intermediate hop ---------- *)

(* tlv.SizeTUint64: number of significant bytes *)
Definition tu_len (v : Z) : Z :=
  if v <=? 0 then 0 else Z.log2 v / 8 + 1.

Definition inter_size (amount expiry chan : Z) : Z :=
  let rc (len : Z) := 1 + 1 + len in       (* type and length fit one byte each *)
  let body :=
    (if amount =? 0 then 0 else rc (tu_len amount)) +
    (if expiry =? 0 then 0 else rc (tu_len expiry)) +
    (if chan =? 0 then 0 else rc 8) in
  body + 1 + 32.                           (* varint(body) + HMAC *)

(* ---------- events ---------- *)

Inductive ev :=
| EvPivot (v : Z)
| EvProbe (from to a cap pbits : Z).

Inductive scase :=
| SCase (g : graph) (hintchans : list Z) (en : env) (rs : restr)
        (amt src dst last_size attempt minprob_bits : Z)
        (bsz : list (Z * Z * Z))          (* from, to, payload size of blinded edges *)
        (evs : list ev)
        (result : option (list edge)).    (* returned path / errNoPathFound *)

Section Sim.
  Variables (g : graph) (hintchans : list Z) (en : env) (rs : restr).
  Variables (amt src dst last_size : Z) (pen minprob : float).
  Variable bsz : list (Z * Z * Z).

  (* BlindedEdge.IntermediatePayloadSize does not depend on amount / expiry /
     channel: an oracle value per blinded edge *)
  Fixpoint bsz_get (f t : Z) (l : list (Z * Z * Z)) : option Z :=
    match l with
    | [] => None
    | (f', t', s) :: r => if (f' =? f) && (t' =? t) then Some s else bsz_get f t r
    end.

  Let K := FK pen.

  (* the edges newNodeEdgeUnifier collects for from -> pivot: graph policies
     in graph order, then route hints (never those of self); outgoing-channel
     restriction for channels of self; inbound fees zeroed at the exit hop *)
  Definition cands (pv : dentry K) (from : Z) : list edge :=
    let to := n_node (d_e pv) in
    let dir := filter (fun e => (e_from e =? from) && (e_to e =? to)) g in
    let is_hint e := mem (e_chan e) hintchans in
    let l := filter (fun e => negb (is_hint e)) dir ++
             filter (fun e => is_hint e && negb (from =? self en)) dir in
    let l := if from =? self en then filter (out_chan_ok rs) l else l in
    match d_next pv with
    | None => map zero_inbound l
    | Some _ => l
    end.

  Definition guard_fb (s : state K) (e : edge) (ep : float) : bool :=
    let to := d_e (s_pivot K s) in
    (0 <=? e_base e) && (0 <=? e_rate e) && (0 <=? e_delta e) &&
    PrimFloat.leb 0 ep && PrimFloat.leb ep 1 &&
    (r_send to e * r_tld src e * risk_factor <? two63) &&
    (d_weight (s_pivot K s) + edge_weight (r_send to e) (r_fee src to e) (r_tld src e) <? two63).

  (* result of one event: new state, "domain guards and key monotonicity held" *)
  Definition step_ev (s : state K) (e : ev) : option (state K * bool) :=
    match e with
    | EvPivot v =>
      match exec K g en rs amt src dst minprob s (LPop K v) with
      | Some s' =>
        (* pops come out in non-decreasing key order *)
        let sorted := match d_next (s_pivot K s) with
                      | None => true
                      | Some _ => negb (key_lt K (s_pivot K s') (s_pivot K s))
                      end in
        Some (s', sorted)
      | None => None
      end
    | EvProbe from to a cap pbits =>
      let pv := s_pivot K s in
      if negb (to =? n_node (d_e pv)) then None
      else
        match get_edge en (from =? self en) (cands pv from) (n_net (d_e pv)) (n_outfee (d_e pv)) with
        | None => None
        | Some ue =>
          if negb ((r_send (d_e pv) ue =? a) && (e_cap ue =? cap)) then None
          else
            let ep := f_of_bits pbits in
            let payload := match bsz_get from to bsz with
                           | Some sz => sz
                           | None => inter_size a (n_cltv (d_e pv)) (e_chan ue)
                           end in
            match exec K g en rs amt src dst minprob s (LRelax K ue payload ep) with
            | None => None
            | Some s' =>
              let lawok :=
                match relax_full K en rs amt src minprob pv ue payload ep with
                | None => true
                | Some c =>
                  guard_fb s ue ep &&
                  PrimFloat.leb (d_prob c) (d_prob pv) &&
                  match d_next pv with
                  | None => true
                  | Some _ => negb (key_lt K c pv)
                  end
                end in
              Some (s', lawok)
            end
        end
    end.

  (* index of the first rejected event, or the final state *)
  Fixpoint sim (s : state K) (ok : bool) (i : N) (evs : list ev)
    : (state K * bool) + N :=
    match evs with
    | [] => inl (s, ok)
    | e :: r =>
      match step_ev s e with
      | None => inr i
      | Some (s', ok') => sim s' (ok && ok') (i + 1)%N r
      end
    end.

  Definition path_eqb (a b : list edge) : bool := list_eqb edge_eqb a b.

  (* failed sub-checks:
     7   the replay got stuck (see 100+i)
     8   end of search differs: source not poppable / chain <> returned path /
         (no route) model still has something on the heap or a source entry
     9   a domain guard or the key monotonicity failed on an observed step
     100+i  event i was not a possible behaviour of the model (pop of a node
            that is not on the heap or not minimal, probe for an edge the
            unifier model does not hand out, other amount / capacity) *)
  Definition check_search (evs : list ev) (result : option (list edge)) : list N :=
    match evs with
    | EvPivot v :: rest =>
      if negb (v =? dst) then [7; 100]%N
      else
        match sim (init K en amt dst last_size) true 1%N rest with
        | inr i => [7; 100 + i]%N
        | inl (s, ok) =>
          flag 9 ok ++
          match result with
          | Some path =>
            match exec K g en rs amt src dst minprob s (LPop K src) with
            | None => [8]%N
            | Some s' =>
              flag 8 (s_done K s' &&
                      match unravel K dst (S (length path)) (s_dm K s') src with
                      | Some es => path_eqb es path
                      | None => false
                      end)
            end
          | None =>
            flag 8 (match s_heap K s with [] => true | _ => false end &&
                    match dm_get K src (s_dm K s) with None => true | Some _ => false end)
          end
        end
    | _ => [7; 100]%N
    end.
End Sim.

Definition check_scase (c : scase) : list N :=
  match c with
  | SCase g hintchans en rs amt src dst last_size attempt minprob_bits bsz evs result =>
    check_search g hintchans en rs amt src dst last_size
                 (f_of_Z attempt) (f_of_bits minprob_bits) bsz evs result
  end.

Fixpoint smismatches (cases : list scase) (i : N) : list (N * list N) :=
  match cases with
  | [] => []
  | c :: r =>
    match check_scase c with
    | [] => smismatches r (i + 1)%N
    | bad => (i, bad) :: smismatches r (i + 1)%N
    end
  end.
