(* C19 — findPath's search loop: non-vacuity of C19_chain_stable /
   C19_findpath_sound, and what breaks WITHOUT the domain guards. *)
From Coq Require Import ZArith List Bool Lia.
From LV Require Import Route.Model Route.Proofs Route.Search Route.Dijkstra
     Route.DijkstraProofs Route.Props Route.Examples.
Import ListNotations.
Local Open Scope Z_scope.

(* [vm_compute] as a tactic would also normalise the keyops record that occurs
   as a parameter inside the TYPES of the goal (very slow), so equalities between
   states / entries are closed by a vm cast instead. *)
Ltac vmr := match goal with |- _ = ?b => vm_cast_no_check (@eq_refl _ b) end.

(* exact key arithmetic: probabilities in ppm, attempt cost 100 msat *)
Definition KZ := ZK 100.

Lemma KZ_ok : keyops_ok KZ.
Proof. apply ZK_ok. lia. Qed.

(* decidable form of the domain guards for this instance *)
Definition guard_b (src : Z) (s : state KZ) (l : label KZ) : bool :=
  match l with
  | LRelax _ e payload ep =>
    let to := d_e (s_pivot KZ s) in
    (0 <=? e_base e) && (0 <=? e_rate e) && (0 <=? e_delta e) &&
    (0 <=? ep) && (ep <=? 1000000) &&
    (r_send to e * r_tld src e * risk_factor <? two63) &&
    (d_weight (s_pivot KZ s) + edge_weight (r_send to e) (r_fee src to e) (r_tld src e) <? two63)
  | LPop _ _ => true
  end.

Lemma guard_b_ok src s l : guard_b src s l = true -> guard KZ src s l.
Proof.
  destruct l as [e payload ep|v]; cbn [guard_b guard]; [|auto].
  intros H. zb. cbn [KZ ZK pvalid ple pone]. repeat split; try assumption.
  apply Z.leb_le. assumption.
Qed.

Section Runs.
  Variables (g : graph) (en : env) (rs : restr) (amt src dst last_size : Z).

  (* guarded run: every step must satisfy the guards *)
  Fixpoint grun (s : state KZ) (ls : list (label KZ)) : option (state KZ) :=
    match ls with
    | [] => Some s
    | l :: r =>
      if guard_b src s l
      then match exec KZ g en rs amt src dst 0 s l with
           | Some s' => grun s' r
           | None => None
           end
      else None
    end.

  Lemma grun_gsteps ls : forall s s',
    grun s ls = Some s' -> gsteps KZ g en rs amt src dst 0 s s'.
  Proof.
    induction ls as [|l ls IH]; intros s s' H; cbn [grun] in H.
    - inversion H. constructor.
    - destruct (guard_b src s l) eqn:Eg; [|discriminate].
      destruct (exec KZ g en rs amt src dst 0 s l) as [s1|] eqn:Ee; [|discriminate].
      eapply gs_step; [apply guard_b_ok; exact Eg | exact Ee | apply IH; exact H].
  Qed.

  Lemma grun_greach ls s s' :
    greach KZ g en rs amt src dst last_size 0 s -> grun s ls = Some s' ->
    greach KZ g en rs amt src dst last_size 0 s'.
  Proof.
    intros Hr H. eapply greach_gsteps; [exact Hr|]. eapply grun_gsteps. exact H.
  Qed.
End Runs.

(* ---------- a guarded run on the graph of Examples.v ----------
   0 (source = self) -> 1 -> 2 -> 3 (target), parallel channels 20/21 between
   1 and 2, every limit of rs0 exactly tight.  Node 1's pending entry is
   first created over channel 21 and the candidate over channel 20 is then
   compared against it by the improvement test. *)
Definition ls0 : list (label KZ) :=
  [LRelax KZ (zero_inbound e23) 60 950000; LPop KZ 2;
   LRelax KZ e12' 60 900000; LRelax KZ (set_delta_cap e12 144 3000) 60 900000;
   LPop KZ 1; LRelax KZ e01 0 1000000; LPop KZ 0].

Definition init0 := init KZ en0 1000000 3 50.

Definition fin0 : state KZ :=
  match grun g0 en0 rs0 1000000 0 3 init0 ls0 with Some s => s | None => init0 end.

Example run0_reaches_source :
  grun g0 en0 rs0 1000000 0 3 init0 ls0 = Some fin0 /\ s_done KZ fin0 = true.
Proof. split; [vmr | vm_compute; reflexivity]. Qed.

Example fin0_reachable : greach KZ g0 en0 rs0 1000000 0 3 50 0 fin0.
Proof.
  eapply grun_greach; [apply gr_init|]. exact (proj1 run0_reaches_source).
Qed.

Example fin0_chain :
  unravel KZ 3 3 (s_dm KZ fin0) 0 = Some [e01; e12'; zero_inbound e23].
Proof. vm_compute. reflexivity. Qed.

(* the conclusion of C19_findpath_sound, computed directly *)
Example fin0_route_valid :
  route_valid g0 en0 rs0 1000000 0 3
    (new_route en0 0 1000000 [e01; e12'; zero_inbound e23]) [60; 60; 50] = true.
Proof. vm_compute. reflexivity. Qed.

(* ... and obtained from the theorem *)
Example fin0_sound :
  exists szs, route_valid g0 en0 rs0 1000000 0 3
                (new_route en0 0 1000000 [e01; e12'; zero_inbound e23]) szs = true.
Proof.
  destruct (C19_findpath_sound KZ KZ_ok g0 en0 rs0 1000000 0 3 50 0
              ltac:(cbn; lia) ltac:(lia) fin0 fin0_reachable
              (proj2 run0_reaches_source)) as (es & szs & _ & Hu & Hv).
  rewrite <- (Hu _ _ fin0_chain) in Hv. exists szs. exact Hv.
Qed.

(* node 2 is finalised after the first pop and stays so until the end *)
Definition mid0 : state KZ :=
  match grun g0 en0 rs0 1000000 0 3 init0 (firstn 2 ls0) with Some s => s | None => init0 end.

Definition x2 : dentry KZ :=
  match dm_get KZ 2 (s_dm KZ mid0) with Some x => x | None => init_pivot KZ en0 1000000 3 50 end.

Example mid0_finalised_stays :
  finalised KZ mid0 2 x2 /\ finalised KZ fin0 2 x2 /\ d_next x2 = Some (zero_inbound e23).
Proof.
  assert (H1 : grun g0 en0 rs0 1000000 0 3 init0 (firstn 2 ls0) = Some mid0) by vmr.
  assert (H2 : grun g0 en0 rs0 1000000 0 3 mid0 (skipn 2 ls0) = Some fin0) by vmr.
  assert (Hfin : finalised KZ mid0 2 x2).
  { split; [vmr|]. vm_compute. intros []. }
  split; [exact Hfin|]. split; [|vm_compute; reflexivity].
  eapply (C19_chain_stable KZ KZ_ok g0 en0 rs0 1000000 0 3 50 0 ltac:(cbn; lia) ltac:(lia)).
  - eapply grun_greach; [apply gr_init | exact H1].
  - eapply grun_gsteps. exact H2.
  - exact Hfin.
Qed.

(* ---------- what breaks without the int64 guard ----------

   100 BTC payment (10^13 msat) over a channel with time lock delta 65535:
   amountToSend * 65535 * 15 exceeds 2^63, Go's edgeWeight wraps to a
   NEGATIVE weight (about -8.6e9).  Nodes: 0 source, 1 = V, 2 = U, 3 target.
     V->T chan 11 (fee 1000), U->T chan 12 (fee 5000000),
     V->U chan 13 (delta 65535), S->V chan 14 (max_htlc = amt + 2000).
   V is popped first (cheapest), the source's entry is created from V's entry
   (amount amt+1000 <= max_htlc of channel 14).  Then U is popped and the edge
   V->U with its negative weight REWRITES the already finalised entry of V
   (now reached via U, amount amt+5000000) and pushes V again.  When V is
   expanded again, channel 14 cannot carry the new amount, so the source's
   entry stays as it was -- pointing at V, whose entry has changed.  The
   chain S->V->U->T that findPath unravels makes newRoute put amt+5000000
   on channel 14, above its max_htlc: the route does not pass the checker. *)
Definition A13 : Z := 10000000000000.
Definition eVT := mkEdge 11 1 3 false 0 0 false 1000 0 10 0 0 0.
Definition eUT := mkEdge 12 2 3 false 0 0 false 5000000 0 10 0 0 0.
Definition eVU := mkEdge 13 1 2 false 0 0 false 0 0 65535 0 0 0.
Definition eSV := mkEdge 14 0 1 false 0 (A13 + 2000) true 0 0 40 0 0 0.
Definition g1 : graph := [eVT; eUT; eVU; eSV].
Definition en1 := mkEnv 0 700000 40 [].
Definition rs1 := mkRestr 1000000000 200000 [] None [] [].
Definition init1 := init KZ en1 A13 3 50.
Definition run1 := run KZ g1 en1 rs1 A13 0 3 0.

Definition lsA : list (label KZ) :=
  [LRelax KZ eVT 50 1000000; LRelax KZ eUT 50 1000000; LPop KZ 1; LRelax KZ eSV 0 10].
Definition lsB : list (label KZ) := [LPop KZ 2; LRelax KZ eVU 50 1000000].
Definition lsC : list (label KZ) := [LPop KZ 1; LPop KZ 0].

Definition stA := match run1 init1 lsA with Some s => s | None => init1 end.
Definition stB := match run1 stA lsB with Some s => s | None => init1 end.
Definition stC := match run1 stB lsC with Some s => s | None => init1 end.

Lemma route_valid_hops_ok g en rs amt src dst r szs :
  route_valid g en rs amt src dst r szs = true ->
  exists es, resolve g src (r_hops r) = Some es /\
             hops_ok en rs (r_amt r) (r_tl r) es (r_hops r) = true.
Proof.
  unfold route_valid. destruct (resolve g src (r_hops r)) as [es|]; [|discriminate].
  intros H. zb. exists es. split; [reflexivity | assumption].
Qed.

Definition xV : dentry KZ :=
  match dm_get KZ 1 (s_dm KZ stA) with Some x => x | None => init_pivot KZ en1 A13 3 50 end.
Definition xV' : dentry KZ :=
  match dm_get KZ 1 (s_dm KZ stB) with Some x => x | None => init_pivot KZ en1 A13 3 50 end.
Definition stA' : state KZ :=
  match exec KZ g1 en1 rs1 A13 0 3 0 stA (LPop KZ 2) with Some s => s | None => init1 end.

Example C19_chain_stable_needs_int64_guard_refuted :
    (* the three segments are runs of the loop (no guards) *)
    run1 init1 lsA = Some stA /\ run1 stA lsB = Some stB /\ run1 stB lsC = Some stC /\
    (* V = node 1 is finalised after lsA, with the entry reached over chan 11 ... *)
    finalised KZ stA 1 xV /\ option_map e_chan (d_next xV) = Some 11 /\
    (* ... the only guard that fails in lsB is the int64 one ... *)
    guard_b 0 stA (LPop KZ 2) = true /\
    exec KZ g1 en1 rs1 A13 0 3 0 stA (LPop KZ 2) = Some stA' /\
    guard_b 0 stA' (LRelax KZ eVU 50 1000000) = false /\
    r_send (d_e (s_pivot KZ stA')) eVU * r_tld 0 eVU * risk_factor >= two63 /\
    (* ... and V's entry is then REWRITTEN (now over chan 13, negative weight)
       and V is back on the heap *)
    dm_get KZ 1 (s_dm KZ stB) = Some xV' /\ option_map e_chan (d_next xV') = Some 13 /\
    In 1 (s_heap KZ stB) /\ d_weight xV' < 0 /\
    (* the search ends at the source; the unravelled chain is S->V->U->T *)
    s_done KZ stC = true /\
    unravel KZ 3 3 (s_dm KZ stC) 0 = Some [eSV; eVU; eUT] /\
    (* and the route newRoute builds from it is NOT valid, whatever the sizes:
       channel 14 would have to carry amt+5000000 > max_htlc = amt+2000 *)
    forall szs, route_valid g1 en1 rs1 A13 0 3 (new_route en1 0 A13 [eSV; eVU; eUT]) szs = false.
Proof.
  split; [vmr|]. split; [vmr|]. split; [vmr|].
  split; [split; [vmr | vm_compute; intros [H|[H|[]]]; discriminate]|].
  split; [vm_compute; reflexivity|]. split; [reflexivity|]. split; [vmr|].
  split; [vm_compute; reflexivity|]. split; [vm_compute; discriminate|].
  split; [vmr|]. split; [vm_compute; reflexivity|]. split; [vm_compute; auto|].
  split; [vm_compute; reflexivity|]. split; [vm_compute; reflexivity|].
  split; [vm_compute; reflexivity|].
  intros szs. destruct (route_valid _ _ _ _ _ _ _ szs) eqn:E; [|reflexivity].
  apply route_valid_hops_ok in E. destruct E as (es & Hr & Hh).
  vm_compute in Hr. inversion Hr; subst es. vm_compute in Hh. discriminate.
Qed.

(* ---------- what breaks without "probabilities <= 1" ----------
   Same graph with a 1000 sat payment (no overflow) and attempt cost 10^9
   msat: a probability source that answers 10^6 (= 10^12 ppm) for V->U makes
   the distance of the candidate for V smaller than that of V's finalised
   entry, which is rewritten in the same way. *)
Definition KP := ZK 1000000000.
Definition A6 : Z := 1000000.
Definition eSV' := mkEdge 14 0 1 false 0 (A6 + 2000) true 0 0 40 0 0 0.
Definition g2 : graph := [eVT; eUT; eVU; eSV'].
Definition init2 := init KP en1 A6 3 50.
Definition run2 := run KP g2 en1 rs1 A6 0 3 0.
Definition lsA2 : list (label KP) :=
  [LRelax KP eVT 50 1000000; LRelax KP eUT 50 1000000; LPop KP 1; LRelax KP eSV' 0 10].
Definition lsB2 : list (label KP) := [LPop KP 2; LRelax KP eVU 50 1000000000000].
Definition lsC2 : list (label KP) := [LPop KP 1; LPop KP 0].
Definition stA2 := match run2 init2 lsA2 with Some s => s | None => init2 end.
Definition stB2 := match run2 stA2 lsB2 with Some s => s | None => init2 end.
Definition stC2 := match run2 stB2 lsC2 with Some s => s | None => init2 end.

Definition yV : dentry KP :=
  match dm_get KP 1 (s_dm KP stA2) with Some x => x | None => init_pivot KP en1 A6 3 50 end.
Definition yV' : dentry KP :=
  match dm_get KP 1 (s_dm KP stB2) with Some x => x | None => init_pivot KP en1 A6 3 50 end.

Example C19_chain_stable_needs_prob_le_one_refuted :
    run2 init2 lsA2 = Some stA2 /\ run2 stA2 lsB2 = Some stB2 /\ run2 stB2 lsC2 = Some stC2 /\
    finalised KP stA2 1 yV /\ option_map e_chan (d_next yV) = Some 11 /\
    dm_get KP 1 (s_dm KP stB2) = Some yV' /\ option_map e_chan (d_next yV') = Some 13 /\
    In 1 (s_heap KP stB2) /\
    (* no int64 overflow anywhere: all weights are small and non-negative *)
    0 <= d_weight yV' < 100000000 /\
    s_done KP stC2 = true /\
    unravel KP 3 3 (s_dm KP stC2) 0 = Some [eSV'; eVU; eUT] /\
    forall szs, route_valid g2 en1 rs1 A6 0 3 (new_route en1 0 A6 [eSV'; eVU; eUT]) szs = false.
Proof.
  split; [vmr|]. split; [vmr|]. split; [vmr|].
  split; [split; [vmr | vm_compute; intros [H|[H|[]]]; discriminate]|].
  split; [vm_compute; reflexivity|]. split; [vmr|]. split; [vm_compute; reflexivity|].
  split; [vm_compute; auto|].
  split; [vm_compute; split; [discriminate | reflexivity]|].
  split; [vm_compute; reflexivity|]. split; [vm_compute; reflexivity|].
  intros szs. destruct (route_valid _ _ _ _ _ _ _ szs) eqn:E; [|reflexivity].
  apply route_valid_hops_ok in E. destruct E as (es & Hr & Hh).
  vm_compute in Hr. inversion Hr; subst es. vm_compute in Hh. discriminate.
Qed.
