(* C19c trace checker for routes to blinded payment paths: evaluates the model
   of Route/Blinded.v on the rows recorded from the real
   NewBlindedPaymentPathSet / ToRouteHints / findPath / newRoute
   (harness/routing/verif_blinded_test.go). *)
From Coq Require Import ZArith NArith List Bool.
From LV Require Import Route.Model Route.Exec Route.Blinded.
Import ListNotations.
Local Open Scope Z_scope.

Definition BP := mkBPay.

Inductive bcase :=
| CBlinded (gpub : graph) (en : env) (rs : restr) (amt src nums : Z)
           (ps : list bpay)
           (obs_add : list edge)       (* ToRouteHints as lnd built it *)
           (dst : Z)                   (* target handed to findPath *)
           (path : list edge)          (* unified edges returned by findPath *)
           (r : route)                 (* route returned by newRoute (payload values) *)
           (sizes : list Z)            (* real onion payload size of every hop of r *)
           (bsizes : list (Z * Z * Z)) (* from, to, BlindedEdge.IntermediatePayloadSize *)
           (last_size : Z)
           (hopfees : list Z) (totfees recv : Z)
           (enc_est enc_real total custom_len : Z)  (* encrypted-data lengths: largest last hop of
                                                       the set / the recipient's; finalHop.totalAmt;
                                                       custom record bytes (-1 none) *)
           (session : bool)            (* RestrictParams without the path set: 13 skipped *)
| CBlindedNo (en : env) (nums : Z) (ps : list bpay) (obs_add : list edge) (dst : Z)
| CHints (target : Z) (hints : list (list hophint))
         (obs : list edge).           (* RouteHintsToEdges as lnd built it, input order *)

Definition HH := mkHH.

Fixpoint lookup_bs (f t : Z) (l : list (Z * Z * Z)) : option Z :=
  match l with
  | [] => None
  | (f', t', s) :: r => if (f' =? f) && (t' =? t) then Some s else lookup_bs f t r
  end.

(* payload sizes processEdge saw along the path: edge i accounts for the
   payload of its from-node = the hop that arrives there (hop i-1) *)
Fixpoint psizes (bsizes : list (Z * Z * Z)) (prev_size : Z) (es : list edge) (sizes : list Z)
  : list Z :=
  match es with
  | [] => []
  | e :: r =>
    (match lookup_bs (e_from e) (e_to e) bsizes with Some s => s | None => prev_size end)
      :: psizes bsizes (hd 0 sizes) r (tl sizes)
  end.

Definition recipient (p : bpay) : Z :=
  match bp_hops p with [] => bp_intro p | l => last l 0 end.

Definition no_last_hop (rs : restr) : restr :=
  mkRestr (fee_limit rs) (cltv_limit rs) (out_chans rs) None (ign_nodes rs) (ign_pairs rs).

(* indices of failed sub-checks (continuing Exec.check_case / check_scase):
   0 route_valid rejects the returned route (amounts written back into the
     blinded portion, target = the recipient's blinded key)
   1 model newRoute (dummy hop removed, back-fill) differs from the returned route
   2 HopFee / TotalFees / ReceiverAmt differ from the model
   3 a path edge is not a policy of the graph + additional edges
   4 replay of the relaxations along the path (dummy hop included) rejected or
     different totals
   10 ToRouteHints differs from the model (incl. HasMaxHTLC of the aggregate edge)
   11 target / final CLTV delta of the path set differ from the model
   12 last-hop restriction not met by the search path
   13 lastHopPayloadSize / the real final-hop payload differ from the size model
      (final_hop_est / final_hop_real)
   14 RouteHintsToEdges differs from hint_edges (end node, channel id, fee,
      delta of every derived edge, their number and order) *)
Definition check_bcase (c : bcase) : list N :=
  match c with
  | CBlinded gpub en rs amt src nums ps obs_add dst path r sizes bsizes last_size
             hopfees totfees recv enc_est enc_real total custom_len session =>
    let g := with_additional gpub (self en) obs_add in
    flag 10 (list_eqb edge_eqb (blinded_additional nums ps) obs_add) ++
    flag 11 ((dst =? set_target nums ps) && (final_delta en =? set_final_delta ps)) ++
    match chosen nums ps (strip_dummy nums path) with
    | None => [1]%N
    | Some p =>
      flag 0 (route_valid g en (no_last_hop rs) amt src (recipient p)
                          (unblind (bp_intro p) r) sizes)
    end ++
    match new_route_blinded nums ps en src amt path with
    | None => [1]%N
    | Some mr => flag 1 (route_eqb mr r)
    end ++
    flag 2 (list_eqb Z.eqb (hop_fees r) hopfees && (total_fees r =? totfees) &&
            (receiver_amt r =? recv)) ++
    flag 3 (path_matches g path) ++
    flag 4 (session ||   (* RequestRoute searches with the block-padded final expiry *)
            match replay en rs amt src dst last_size path (psizes bsizes 0 path sizes) with
            | None => false
            | Some n => (n_node n =? src) && (n_net n =? r_amt r) && (n_cltv n =? r_tl r)
            end) ++
    flag 12 (last_hop_ok rs path) ++
    flag 13 (session ||
             let single := match find is_single ps with Some _ => true | None => false end in
             let tl := height en + final_delta en in
             (final_hop_est amt tl enc_est single =? last_size) &&
             (final_hop_real amt tl enc_real single total custom_len =? last sizes 0))
  | CBlindedNo en nums ps obs_add dst =>
    flag 10 (list_eqb edge_eqb (blinded_additional nums ps) obs_add) ++
    flag 11 ((dst =? set_target nums ps) && (final_delta en =? set_final_delta ps))
  | CHints target hints obs =>
    flag 14 (list_eqb edge_eqb (hint_edges target hints) obs)
  end.

Fixpoint bmismatches (cases : list bcase) (i : N) : list (N * list N) :=
  match cases with
  | [] => []
  | c :: r =>
    match check_bcase c with
    | [] => bmismatches r (i + 1)%N
    | bad => (i, bad) :: bmismatches r (i + 1)%N
    end
  end.
