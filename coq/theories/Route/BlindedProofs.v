(* C19c — proofs about Route/Blinded.v. *)
From Coq Require Import ZArith List Bool Lia.
From LV Require Import Route.Model Route.Proofs Route.Blinded.
Import ListNotations.
Local Open Scope Z_scope.

(* ---------- every edge of an accepted route carries what flows over it ---------- *)

Lemma hops_spec_carried en rs a tl es hs e x :
  hops_spec en rs a tl es hs -> carried_on a es hs e x -> carries en rs e x.
Proof.
  intros Hs Hc. revert tl Hs. induction Hc; intros tl Hs.
  - inversion Hs; subst; assumption.
  - inversion Hs; subst.
    + inversion Hc.
    + eapply IHHc. eassumption.
Qed.

(* the checker on a graph with the blinded edges: the aggregated htlc_minimum
   IS enforced (it sits in MinHTLC) ... *)
Lemma blinded_min_enforced g en rs amt src dst r sizes :
  route_valid g en rs amt src dst r sizes = true ->
  exists es, resolve g src (r_hops r) = Some es /\
    forall p b1 x, carried_on (r_amt r) es (r_hops r) (agg_edge p b1) x ->
                   bp_min p <= x.
Proof.
  intros H. destruct (checker_sound _ _ _ _ _ _ _ _ H) as (es & Hr & Hok).
  exists es. split; [exact Hr|]. intros p b1 x Hc.
  pose proof (hops_spec_carried _ _ _ _ _ _ _ _ (ok_hops _ _ _ _ _ _ _ _ _ Hok) Hc) as C.
  exact (c_min _ _ _ _ C).
Qed.

(* [fwd_over a tl es hs ein eout h a_in tl_in]: as LinkC09.forwards (kept local
   to avoid the dependency on the C09 development) *)
Inductive fwd_over : Z -> Z -> list edge -> list hop ->
                     edge -> edge -> hop -> Z -> Z -> Prop :=
| fo_here a tl e e' es h hs : fwd_over a tl (e :: e' :: es) (h :: hs) e e' h a tl
| fo_later a tl e es h hs x y k a' tl' :
    fwd_over (h_amt h) (h_tl h) es hs x y k a' tl' ->
    fwd_over a tl (e :: es) (h :: hs) x y k a' tl'.

Lemma fwd_over_clauses en rs a tl es hs ein eout h a_in tl_in :
  hops_spec en rs a tl es hs ->
  fwd_over a tl es hs ein eout h a_in tl_in ->
  node_fee ein eout (h_amt h) <= a_in - h_amt h /\
  e_delta eout <= tl_in - h_tl h /\
  carries en rs eout (h_amt h).
Proof.
  intros Hs Hf. induction Hf.
  - inversion Hs; subst.
    match goal with Hn : hops_spec _ _ _ _ (_ :: _) _ |- _ =>
      assert (Hc' : carries en rs e' (h_amt h)) by (inversion Hn; subst; assumption) end.
    split; [assumption|]. split; assumption.
  - inversion Hs; subst.
    + inversion Hf.
    + apply IHHf. assumption.
Qed.

(* ... and the introduction node is left the aggregated fee (netted with the
   inbound fee of the channel the payment arrives on, floored at zero) and the
   aggregated CLTV delta. *)
Lemma blinded_intro_paid g en rs amt src dst r sizes :
  route_valid g en rs amt src dst r sizes = true ->
  exists es, resolve g src (r_hops r) = Some es /\
    forall p b1 ein h a_in tl_in,
      fwd_over (r_amt r) (r_tl r) es (r_hops r) ein (agg_edge p b1) h a_in tl_in ->
      Z.max 0 (bp_base p + (h_amt h * bp_rate p) / fee_rate_parts +
               inbound_fee ein (h_amt h + (bp_base p + (h_amt h * bp_rate p) / fee_rate_parts)))
        <= a_in - h_amt h /\
      bp_delta p <= tl_in - h_tl h /\
      bp_min p <= h_amt h.
Proof.
  intros H. destruct (checker_sound _ _ _ _ _ _ _ _ H) as (es & Hr & Hok).
  exists es. split; [exact Hr|]. intros p b1 ein h a_in tl_in Hf.
  destruct (fwd_over_clauses _ _ _ _ _ _ _ _ _ _ _ (ok_hops _ _ _ _ _ _ _ _ _ Hok) Hf)
    as (Hfee & Hd & Hc).
  split; [exact Hfee|]. split; [exact Hd|]. exact (c_min _ _ _ _ Hc).
Qed.

(* ---------- newRoute: removing the dummy hop changes nothing else ---------- *)

Lemma zero_edge_fee a b x : compute_fee (zero_edge a b) x = 0.
Proof. unfold compute_fee, zero_edge. cbn [e_base e_rate]. rewrite Z.mul_0_r. reflexivity. Qed.

Lemma no_inbound_fee e x : e_ibase e = 0 -> e_irate e = 0 -> inbound_fee e x = 0.
Proof.
  intros Hb Hr. unfold inbound_fee, clamp_rate. rewrite Hb, Hr. reflexivity.
Qed.

Lemma new_route_aux_snoc_dummy amt tl0 a b : forall es,
  es <> [] ->
  e_ibase (last es dflt_edge) = 0 -> e_irate (last es dflt_edge) = 0 ->
  new_route_aux amt tl0 (es ++ [zero_edge a b]) =
  (fst3 (new_route_aux amt tl0 es) ++ [mkHop 0 b amt tl0],
   snd3 (new_route_aux amt tl0 es), thd3 (new_route_aux amt tl0 es)).
Proof.
  induction es as [|e es IH]; [congruence|]. intros _ Hb Hr.
  destruct es as [|e' rest].
  - cbn [app last] in *.
    change (new_route_aux amt tl0 [e; zero_edge a b]) with
      (([mkHop (e_chan e) (e_to e) amt tl0; mkHop 0 b amt tl0],
        amt + node_fee e (zero_edge a b) amt, tl0 + e_delta (zero_edge a b))).
    unfold node_fee. rewrite zero_edge_fee, no_inbound_fee by assumption.
    cbn. f_equal; [f_equal|]; lia.
  - change ((e :: e' :: rest) ++ [zero_edge a b]) with (e :: (e' :: rest) ++ [zero_edge a b]).
    change ((e' :: rest) ++ [zero_edge a b]) with (e' :: rest ++ [zero_edge a b]).
    rewrite new_route_aux_cons.
    change (e' :: rest ++ [zero_edge a b]) with ((e' :: rest) ++ [zero_edge a b]).
    rewrite IH; [|discriminate| |].
    + rewrite new_route_aux_cons.
      destruct (new_route_aux amt tl0 (e' :: rest)) as [[hops ni] tl].
      cbn [fst3 snd3 thd3 fst snd app]. reflexivity.
    + exact Hb.
    + exact Hr.
Qed.

(* ---------- back-fill and its inverse ---------- *)

(* from the introduction node on, every hop shows the same amount / expiry
   (zero-fee, zero-delta edges inside the blinded portion) *)
Fixpoint flat_from (intro amt tl : Z) (inb : bool) (hs : list hop) : Prop :=
  match hs with
  | [] => True
  | h :: r =>
    let inb' := inb || (h_to h =? intro) in
    (inb' = true -> h_amt h = amt /\ h_tl h = tl) /\ flat_from intro amt tl inb' r
  end.

Lemma unblind_backfill intro amt tl : forall hs inb,
  flat_from intro amt tl inb hs ->
  unblind_hops intro amt tl inb (backfill intro inb hs) = hs.
Proof.
  induction hs as [|h r IH]; intros inb Hf; [reflexivity|].
  cbn [flat_from] in Hf. destruct Hf as [Hh Hr].
  destruct r as [|h' r'].
  - cbn [backfill unblind_hops].
    destruct (inb || (h_to h =? intro)) eqn:E; [|reflexivity].
    destruct (Hh eq_refl) as [Ha Ht]. destruct h; cbn in *. subst. reflexivity.
  - change (backfill intro inb (h :: h' :: r')) with
      ((if inb || (h_to h =? intro) then mkHop (h_chan h) (h_to h) 0 0 else h)
         :: backfill intro (inb || (h_to h =? intro)) (h' :: r')).
    cbn [unblind_hops].
    destruct (inb || (h_to h =? intro)) eqn:E.
    + cbn [h_to h_chan]. rewrite E. rewrite (IH _ Hr).
      destruct (Hh eq_refl) as [Ha Ht]. destruct h; cbn in *. subst. reflexivity.
    + rewrite E. rewrite (IH _ Hr). reflexivity.
Qed.
