(* C19c — non-vacuity of the blinded-path theorems and the SEARCH-LEVEL witness
   of finding C19-F1: a guarded run of the Dijkstra model on the graph with the
   blinded path's edges ends with the chain [101; aggregate; dummy], and the
   route newRoute builds from it sends 500001 msat into a blinded path whose
   htlc_maximum is 500000. *)
From Coq Require Import ZArith List Bool Lia.
From LV Require Import Route.Model Route.Proofs Route.Dijkstra Route.DijkstraProofs
     Route.Blinded Route.BlindedProofs Route.Props Route.DijkstraExamples.
Import ListNotations.
Local Open Scope Z_scope.

Definition GW : graph := blinded_graph [w_e01] 0 11 [w_p].

(* the graph findPath searches: the channel + the two edges toRouteHints makes *)
Example GW_edges : GW = [w_e01; agg_edge w_p 3; zero_edge 3 11].
Proof. vm_compute. reflexivity. Qed.

Example GW_target : set_target 11 [w_p] = 11 /\ set_final_delta [w_p] = 0.
Proof. split; reflexivity. Qed.

Definition lsW : list (label KZ) :=
  [LRelax KZ (zero_edge 3 11) 110 1000000; LPop KZ 3;
   LRelax KZ (agg_edge w_p 3) 110 1000000; LPop KZ 1;
   LRelax KZ w_e01 0 1000000; LPop KZ 0].

Definition initW := init KZ w_en 500001 11 85.

Definition finW : state KZ :=
  match grun GW w_en w_rs 500001 0 11 initW lsW with Some s => s | None => initW end.

Example runW_reaches_source :
  grun GW w_en w_rs 500001 0 11 initW lsW = Some finW /\ s_done KZ finW = true.
Proof. split; [vmr | vm_compute; reflexivity]. Qed.

Example finW_reachable : greach KZ GW w_en w_rs 500001 0 11 85 0 finW.
Proof.
  eapply grun_greach; [apply gr_init|]. exact (proj1 runW_reaches_source).
Qed.

Example finW_chain : unravel KZ 11 3 (s_dm KZ finW) 0 = Some w_path.
Proof. vm_compute. reflexivity. Qed.

(* C19_blinded_findpath_route_ok applies (non-vacuity) ... *)
Example finW_route_ok :
  exists szs os,
    route_ok GW w_en w_rs 500001 0 11 (new_route w_en 0 500001 w_path) szs os.
Proof.
  destruct (C19_blinded_findpath_route_ok KZ KZ_ok [w_e01] 11 [w_p] w_en w_rs 500001 0 85 0
              ltac:(cbn; lia) ltac:(lia) finW finW_reachable
              (proj2 runW_reaches_source)) as (es & szs & os & Hu & _ & Hok).
  assert (es = w_path) as ->.
  { destruct (C19_findpath_sound KZ KZ_ok GW w_en w_rs 500001 0 11 85 0
                ltac:(cbn; lia) ltac:(lia) finW finW_reachable
                (proj2 runW_reaches_source)) as (es' & _ & _ & Huniq & _).
    rewrite (Huniq _ _ Hu). symmetry. exact (Huniq _ _ finW_chain). }
  exists szs, os. exact Hok.
Qed.

(* ... and yet the returned route overshoots the blinded path's htlc_maximum:
   the max clause is refuted for a route the SEARCH MODEL returns. *)
Example C19_blinded_max_search_refuted :
  exists s r,
    greach KZ GW w_en w_rs 500001 0 11 85 0 s /\ s_done KZ s = true /\
    unravel KZ 11 3 (s_dm KZ s) 0 = Some w_path /\
    new_route_blinded 11 [w_p] w_en 0 500001 w_path = Some r /\
    receiver_amt r = 500001 /\ bp_max w_p < receiver_amt r.
Proof.
  exists finW. eexists. split; [exact finW_reachable|].
  split; [exact (proj2 runW_reaches_source)|]. split; [exact finW_chain|].
  split; [vm_compute; reflexivity|]. split; vm_compute; reflexivity.
Qed.

(* hypotheses of C19_newroute_strip_dummy / C19_unblind_backfill are
   satisfiable on the witness *)
Example strip_dummy_witness :
  new_route_aux 500001 800000 ([w_e01; agg_edge w_p 3] ++ [zero_edge 3 11]) =
  (fst3 (new_route_aux 500001 800000 [w_e01; agg_edge w_p 3]) ++ [mkHop 0 11 500001 800000],
   snd3 (new_route_aux 500001 800000 [w_e01; agg_edge w_p 3]),
   thd3 (new_route_aux 500001 800000 [w_e01; agg_edge w_p 3])).
Proof. apply C19_newroute_strip_dummy; [discriminate | reflexivity | reflexivity]. Qed.

Example backfill_witness :
  let hs := fst3 (new_route_aux 500001 800000 [w_e01; agg_edge w_p 3]) in
  flat_from 1 500001 800000 false hs /\
  backfill 1 false hs = [mkHop 101 1 0 0; mkHop 0 3 500001 800000] /\
  unblind_hops 1 500001 800000 false (backfill 1 false hs) = hs.
Proof.
  cbv zeta. split; [vm_compute; repeat split; reflexivity|].
  split; [vm_compute; reflexivity|]. vm_compute. reflexivity.
Qed.
