(* C19 — findPath's main loop (routing/pathfind.go:1055-1157, heap.go).

   Executable model of the backward Dijkstra search:
     * the distance map  node -> nodeWithDist {dist, probability, weight,
       netAmountReceived, outboundFee, incomingCltv, routingInfoSize, nextHop};
     * the heap as "the set of nodes currently on the heap" (heap entries and
       distance-map entries are the SAME objects in lnd: processEdge stores
       the new nodeWithDist in both) and Pop = "remove an entry that is
       minimal w.r.t. distanceHeap.Less" (any of the equal minima);
     * processEdge = the guards of [Model.relax] + probability, edgeWeight
       (Go int64 arithmetic, [wrap64]), getProbabilityBasedDist and the
       improvement test against the current distance-map entry;
     * the source is never expanded (popping it ends the search); the target
       is not recorded in the distance map (the initial partialPath), and
       edges leaving the target are skipped unless source = target;
     * the final unravelling of the nextHop chain ([unravel]).

   float64 probabilities and getProbabilityBasedDist are abstracted as a
   [keyops] structure; what the proofs need from it is [keyops_ok] (total
   order, p*e <= p for e <= 1, distance monotone in weight and antitone in
   probability).  The choice of which edges are processed for a pivot, in
   which order, and which of several minimal heap entries is popped, is left
   to the LABELS of a run, so every theorem holds for every such choice.

   Definitions only; proofs are in DijkstraProofs.v. *)
From Coq Require Import ZArith List Bool.
From LV Require Import Route.Model.
Import ListNotations.
Local Open Scope Z_scope.

(* ---------- Go int64 arithmetic and edgeWeight ---------- *)

Definition two63 : Z := 9223372036854775808.

(* two's complement int64 of an integer *)
Definition wrap64 (z : Z) : Z := (z + two63) mod (2 * two63) - two63.

(* RiskFactorBillionths *)
Definition risk_factor : Z := 15.

(* edgeWeight over the integers *)
Definition edge_weight (locked fee delta : Z) : Z :=
  fee + (locked * delta * risk_factor) / 1000000000.

(* edgeWeight as Go computes it:
     int64(lockedAmt) * int64(timeLockDelta) * RiskFactorBillionths / 1000000000
     + int64(fee)                       every operation wraps, / truncates *)
Definition edge_weight_m (locked fee delta : Z) : Z :=
  wrap64 (wrap64 fee +
          Z.quot (wrap64 (wrap64 (wrap64 locked * delta) * risk_factor)) 1000000000).

(* ---------- probabilities / distance (float64 in lnd) ---------- *)

Record keyops := mkKeyops {
  kP : Type;                     (* float64 *)
  ple : kP -> kP -> bool;        (* a <= b *)
  pmul : kP -> kP -> kP;         (* a * b *)
  pdist : Z -> kP -> Z;          (* getProbabilityBasedDist(weight, p, absoluteAttemptCost) *)
  pone : kP;                     (* 1 *)
  pzero : kP -> bool;            (* p == 0 *)
  pvalid : kP -> Prop            (* the domain: a probability, i.e. a number in [0,1] (not NaN) *)
}.

(* The laws the stability proof needs.  They only speak about operands in the
   domain [pvalid] (for float64: 0 <= p <= 1, which excludes NaN and infinity),
   where IEEE-754 round-to-nearest operations are monotone; see notes/C19.md. *)
Record keyops_ok (K : keyops) : Prop := mkKeyopsOk {
  ple_refl : forall a, pvalid K a -> ple K a a = true;
  ple_trans : forall a b c, ple K a b = true -> ple K b c = true -> ple K a c = true;
  pone_valid : pvalid K (pone K);
  pmul_valid : forall p e, pvalid K p -> pvalid K e -> pvalid K (pmul K p e);
  pmul_le : forall p e, pvalid K p -> pvalid K e -> ple K e (pone K) = true ->
            ple K (pmul K p e) p = true;
  pdist_mono : forall w w' p p', pvalid K p -> pvalid K p' ->
               0 <= w -> w <= w' -> w' < two63 -> ple K p' p = true ->
               pdist K w p <= pdist K w' p'
}.

Section Dijkstra.
  Variable K : keyops.
  Variables (g : graph) (en : env) (rs : restr) (amt src dst last_size : Z).
  Variable minprob : kP K.       (* cfg.MinProbability *)

  (* nodeWithDist *)
  Record dentry := mkD {
    d_e : entry;                 (* node, netAmountReceived, outboundFee, incomingCltv, routingInfoSize *)
    d_dist : Z;
    d_prob : kP K;
    d_weight : Z;
    d_next : option edge         (* nextHop; None = the initial partial path (exit hop) *)
  }.

  Definition pgt (a b : kP K) : bool := negb (ple K a b).

  (* distanceHeap.Less *)
  Definition key_lt (a b : dentry) : bool :=
    if d_dist a =? d_dist b then pgt (d_prob a) (d_prob b)
    else d_dist a <? d_dist b.

  (* the quantities processEdge derives from the pivot [to] and the edge *)
  Definition r_inb (to : entry) (e : edge) : Z :=
    Z.max (inbound_fee e (n_net to)) (- n_outfee to).
  Definition r_send (to : entry) (e : edge) : Z := n_net to + r_inb to e.
  Definition r_ofee (to : entry) (e : edge) : Z :=
    if e_from e =? src then 0 else compute_fee e (r_send to e).
  Definition r_tld (e : edge) : Z := if e_from e =? src then 0 else e_delta e.
  (* signedFee floored at zero *)
  Definition r_fee (to : entry) (e : edge) : Z := Z.max 0 (r_inb to e + r_ofee to e).

  (* processEdge up to (not including) the comparison with distance[from]:
     None = the candidate is dropped.  [payload] = edge.hopPayloadSizeFn(...),
     [ep] = r.ProbabilitySource(...) are oracle answers. *)
  Definition relax_full (pv : dentry) (e : edge) (payload : Z) (ep : kP K)
    : option dentry :=
    match relax en rs amt src e (d_e pv) payload with
    | None => None
    | Some n' =>
      if pzero K ep then None
      else
        let prob := pmul K (d_prob pv) ep in
        if pgt minprob prob then None          (* probability < cfg.MinProbability *)
        else
          let w := edge_weight_m (r_send (d_e pv) e) (r_fee (d_e pv) e) (r_tld e) in
          let tw := wrap64 (d_weight pv + w) in
          Some (mkD n' (pdist K tw prob) prob tw (Some e))
    end.

  (* the improvement test of processEdge: false = "return" *)
  Definition improves (c cur : dentry) : bool :=
    if d_dist cur <? d_dist c then false
    else if (d_dist c =? d_dist cur) && ple K (d_prob c) (d_prob cur) then false
    else true.

  (* distance map: association list, newest binding first *)
  Definition dmap := list (Z * dentry).

  Fixpoint dm_get (k : Z) (m : dmap) : option dentry :=
    match m with
    | [] => None
    | (k', v) :: r => if k' =? k then Some v else dm_get k r
    end.

  Definition dm_set (k : Z) (v : dentry) (m : dmap) : dmap := (k, v) :: m.

  Definition heap_add (v : Z) (h : list Z) : list Z := if mem v h then h else v :: h.
  Definition heap_del (v : Z) (h : list Z) : list Z := filter (fun u => negb (u =? v)) h.

  Record state := mkSt {
    s_dm : dmap;                 (* distance *)
    s_heap : list Z;             (* nodes on nodeHeap *)
    s_pivot : dentry;            (* partialPath *)
    s_done : bool                (* the source has been popped *)
  }.

  Definition init_pivot : dentry :=
    mkD (target_entry en dst amt last_size) 0 (pone K) 0 None.

  Definition init : state := mkSt [] [] init_pivot false.

  Definition syn_b (o e : edge) : bool :=
    (e_chan e =? e_chan o) && (e_from e =? e_from o) && (e_to e =? e_to o) &&
    (e_base e =? e_base o) && (e_rate e =? e_rate o) && (e_delta o <=? e_delta e).

  (* edge_ok without the ignore sets (those are the probability source's
     business: processEdge drops the candidate when it answers 0) *)
  Definition usable_b (o : edge) (a : Z) : bool :=
    in_range o a &&
    (if e_from o =? self en
     then out_chan_ok rs o && bw_ok en o a
     else negb (e_disabled o)).

  (* What newNodeEdgeUnifier + getEdge establish for the unified edge [e] they
     hand to processEdge while [pv] is the pivot (C19_get_edge_sound): it is
     the graph policy [o] of that channel direction, possibly with a larger
     time lock delta; [o] can carry the amount that would be sent; inbound fee
     zeroed for the exit hop; the last-hop restriction applies at the exit hop. *)
  Definition offered_b (pv : dentry) (e : edge) : bool :=
    match find_edge g (e_chan e) (e_from e) (e_to e) with
    | None => false
    | Some o =>
      syn_b o e && usable_b o (r_send (d_e pv) e) &&
      match d_next pv with
      | None =>
        (e_ibase e =? 0) && (e_irate e =? 0) &&
        match last_hop rs with None => true | Some n => e_from o =? n end
      | Some _ => (e_ibase e =? e_ibase o) && (e_irate e =? e_irate o)
      end
    end.

  Inductive label :=
  | LRelax (e : edge) (payload : Z) (ep : kP K)   (* one processEdge call *)
  | LPop (v : Z).                                 (* heap.Pop returned node v *)

  Definition is_min (m : dmap) (h : list Z) (x : dentry) : bool :=
    forallb (fun u => match dm_get u m with
                      | Some y => negb (key_lt y x)
                      | None => true
                      end) h.

  (* One step of the loop; None = the label is not a possible behaviour. *)
  Definition exec (s : state) (l : label) : option state :=
    if s_done s then None
    else
      match l with
      | LRelax e payload ep =>
        let pv := s_pivot s in
        if negb (e_to e =? n_node (d_e pv)) then None
        (* if !routeToSelf && fromNode == target { continue } *)
        else if negb (src =? dst) && (e_from e =? dst) then None
        else if negb (offered_b pv e) then None
        else
          match relax_full pv e payload ep with
          | None => Some s
          | Some c =>
            let upd := mkSt (dm_set (e_from e) c (s_dm s))
                            (heap_add (e_from e) (s_heap s)) pv false in
            match dm_get (e_from e) (s_dm s) with
            | None => Some upd
            | Some cur => if improves c cur then Some upd else Some s
            end
          end
      | LPop v =>
        if negb (mem v (s_heap s)) then None
        else
          match dm_get v (s_dm s) with
          | None => None
          | Some x =>
            if is_min (s_dm s) (s_heap s) x
            then Some (mkSt (s_dm s) (heap_del v (s_heap s)) x (v =? src))
            else None
          end
      end.

  Fixpoint run (s : state) (ls : list label) : option state :=
    match ls with
    | [] => Some s
    | l :: r => match exec s l with None => None | Some s' => run s' r end
    end.

  (* The DOMAIN GUARDS under which chain stability holds, per processEdge
     call: policy fields are unsigned, the probability source answers a
     number in [0,1], and edgeWeight / the weight accumulation do not
     overflow int64. *)
  Definition guard (s : state) (l : label) : Prop :=
    match l with
    | LRelax e payload ep =>
      let to := d_e (s_pivot s) in
      0 <= e_base e /\ 0 <= e_rate e /\ 0 <= e_delta e /\
      pvalid K ep /\ ple K ep (pone K) = true /\
      r_send to e * r_tld e * risk_factor < two63 /\
      d_weight (s_pivot s) + edge_weight (r_send to e) (r_fee to e) (r_tld e) < two63
    | LPop _ => True
    end.

  (* states reachable by guarded steps *)
  Inductive greach : state -> Prop :=
  | gr_init : greach init
  | gr_step s l s' : greach s -> guard s l -> exec s l = Some s' -> greach s'.

  (* guarded runs between two states *)
  Inductive gsteps : state -> state -> Prop :=
  | gs_refl s : gsteps s s
  | gs_step s l s1 s' : guard s l -> exec s l = Some s1 -> gsteps s1 s' -> gsteps s s'.

  (* a node is finalised: recorded in the distance map and off the heap *)
  Definition finalised (s : state) (v : Z) (x : dentry) : Prop :=
    dm_get v (s_dm s) = Some x /\ ~ In v (s_heap s).

  (* the unravelling loop at the end of findPath *)
  Fixpoint unravel (fuel : nat) (m : dmap) (cur : Z) : option (list edge) :=
    match fuel with
    | O => None
    | S f =>
      match dm_get cur m with
      | None => None
      | Some x =>
        match d_next x with
        | None => None
        | Some e =>
          if e_to e =? dst then Some [e]
          else match unravel f m (e_to e) with
               | None => None
               | Some es => Some (e :: es)
               end
        end
      end
    end.
End Dijkstra.

Arguments d_e {K} _.
Arguments d_dist {K} _.
Arguments d_prob {K} _.
Arguments d_weight {K} _.
Arguments d_next {K} _.

(* ---------- an exact instance of [keyops] (used for the Examples) ----------
   probabilities in parts per million, distance = weight + penalty/p, capped at
   math.MaxInt64 like getProbabilityBasedDist *)
Definition inf64 : Z := 9223372036854775807.

Definition ZK (pen : Z) : keyops :=
  mkKeyops Z Z.leb (fun p e => p * e / 1000000)
           (fun w p => if p =? 0 then inf64 else Z.min inf64 (w + pen * 1000000 / p))
           1000000 (fun p => p =? 0) (fun p => 0 <= p).
