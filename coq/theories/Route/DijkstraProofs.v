(* C19 — chain stability of findPath's search loop and soundness of the route
   built from the returned chain.  Proofs about Route/Dijkstra.v. *)
From Coq Require Import ZArith List Bool Lia.
From LV Require Import Route.Model Route.Proofs Route.Search Route.Dijkstra.
Import ListNotations.
Local Open Scope Z_scope.

(* ================= int64 arithmetic ================= *)

Lemma wrap64_id z : - two63 <= z < two63 -> wrap64 z = z.
Proof.
  intros H. unfold wrap64. rewrite Z.mod_small; [lia|]. unfold two63 in *. lia.
Qed.

Lemma edge_weight_nonneg locked fee delta :
  0 <= locked -> 0 <= delta -> 0 <= fee -> fee <= edge_weight locked fee delta.
Proof.
  intros Hl Hd Hf. unfold edge_weight, risk_factor.
  assert (0 <= locked * delta * 15) by nia.
  pose proof (Z.div_pos (locked * delta * 15) 1000000000 H ltac:(lia)). lia.
Qed.

(* Under the int64 guards Go's edgeWeight is the exact integer value. *)
Lemma edge_weight_m_exact locked fee delta :
  0 <= locked -> 0 <= delta -> 0 <= fee ->
  locked * delta * risk_factor < two63 ->
  edge_weight locked fee delta < two63 ->
  edge_weight_m locked fee delta = edge_weight locked fee delta.
Proof.
  intros Hl Hd Hf Hov Hsum.
  pose proof (edge_weight_nonneg locked fee delta Hl Hd Hf) as Hge.
  unfold edge_weight_m, edge_weight in *. unfold risk_factor in *.
  assert (Hp : 0 <= locked * delta * 15) by nia.
  pose proof (Z.div_pos (locked * delta * 15) 1000000000 Hp ltac:(lia)) as Hq.
  assert (Hfee : wrap64 fee = fee) by (apply wrap64_id; unfold two63 in *; lia).
  rewrite Hfee.
  destruct (Z.eq_dec delta 0) as [E|E].
  - subst delta. rewrite (Z.mul_0_r (wrap64 locked)).
    replace (locked * 0 * 15) with 0 in * by lia.
    change (wrap64 0) with 0. rewrite Z.mul_0_l. change (wrap64 0) with 0.
    change (Z.quot 0 1000000000) with 0. change (0 / 1000000000) with 0 in *.
    apply wrap64_id. unfold two63 in *. lia.
  - assert (Hlk : wrap64 locked = locked) by (apply wrap64_id; unfold two63 in *; nia).
    rewrite Hlk.
    assert (Hld : wrap64 (locked * delta) = locked * delta)
      by (apply wrap64_id; unfold two63 in *; nia).
    rewrite Hld.
    assert (Hl15 : wrap64 (locked * delta * 15) = locked * delta * 15)
      by (apply wrap64_id; unfold two63 in *; nia).
    rewrite Hl15. rewrite Z.quot_div_nonneg by lia.
    apply wrap64_id. unfold two63 in *. lia.
Qed.

Section P.
  Variable K : keyops.
  Hypothesis KO : keyops_ok K.
  Variables (g : graph) (en : env) (rs : restr) (amt src dst last_size : Z).
  Variable minprob : kP K.
  Hypothesis fee_limit_nonneg : 0 <= fee_limit rs.
  Hypothesis amt_pos : 0 < amt.

  Notation dentry := (dentry K).
  Notation state := (state K).
  Notation label := (label K).
  Notation dmap := (dmap K).
  Notation dm_get := (dm_get K).
  Notation dm_set := (dm_set K).
  Notation key_lt := (key_lt K).
  Notation improves := (improves K).
  Notation relax_full := (relax_full K en rs amt src minprob).
  Notation exec := (exec K g en rs amt src dst minprob).
  Notation guard := (guard K src).
  Notation init := (init K en amt dst last_size).
  Notation init_pivot := (init_pivot K en amt dst last_size).
  Notation greach := (greach K g en rs amt src dst last_size minprob).
  Notation unravel := (unravel K dst).
  Notation offered_b := (offered_b K g en rs).
  Notation inv := (inv en rs amt src dst).
  Notation r_ofee := (r_ofee src).
  Notation r_tld := (r_tld src).
  Notation r_fee := (r_fee src).

  (* ================= the heap order ================= *)

  (* a sorts before-or-equal b *)
  Definition kle (a b : dentry) : Prop := key_lt b a = false.

  Lemma kle_iff a b :
    kle a b <-> d_dist a < d_dist b \/
                (d_dist a = d_dist b /\ ple K (d_prob b) (d_prob a) = true).
  Proof.
    unfold kle, Dijkstra.key_lt, pgt.
    destruct (d_dist b =? d_dist a) eqn:E; zb.
    - rewrite negb_false_iff. split; [intros H; right; split; [lia | exact H]|].
      intros [H|[_ H]]; [lia | exact H].
    - split; [intros H; zb; left; lia|]. intros [H|[H _]]; [|lia].
      apply Z.ltb_ge. lia.
  Qed.

  Lemma kle_refl a : pvalid K (d_prob a) -> kle a a.
  Proof.
    intros H. apply kle_iff. right. split; [reflexivity | apply (ple_refl K KO); exact H].
  Qed.

  Lemma kle_trans a b c : kle a b -> kle b c -> kle a c.
  Proof.
    rewrite !kle_iff. intros [H1|[H1 P1]] [H2|[H2 P2]]; try (left; lia).
    right. split; [lia|]. eapply (ple_trans K KO); eassumption.
  Qed.

  Lemma improves_key_lt c cur : improves c cur = key_lt c cur.
  Proof.
    unfold Dijkstra.improves, Dijkstra.key_lt, pgt.
    destruct (d_dist cur <? d_dist c) eqn:E1; zb.
    - destruct (d_dist c =? d_dist cur) eqn:E2; zb; [lia|].
      symmetry. apply Z.ltb_ge. lia.
    - destruct (d_dist c =? d_dist cur) eqn:E2; zb; cbn [andb].
      + destruct (ple K (d_prob c) (d_prob cur)); reflexivity.
      + symmetry. apply Z.ltb_lt. lia.
  Qed.

  (* an entry that does not sort strictly before [cur] never replaces it *)
  Lemma kle_not_improves c cur : kle cur c -> improves c cur = false.
  Proof. intros H. rewrite improves_key_lt. exact H. Qed.

  (* ================= one relaxation ================= *)

  Lemma relax_fields e to payload n' :
    relax en rs amt src e to payload = Some n' ->
    n_node n' = e_from e /\
    n_net n' = r_send to e + r_ofee to e /\
    n_outfee n' = r_ofee to e.
  Proof.
    unfold relax, Dijkstra.r_ofee, Dijkstra.r_send, r_inb. intros H.
    repeat match type of H with
           | (if ?c then _ else _) = _ => destruct c; [discriminate|]
           end.
    inversion H; subst n'. cbn. auto.
  Qed.

  Lemma relax_not_ignored e to payload n' :
    relax en rs amt src e to payload = Some n' -> not_ignored rs e = true.
  Proof.
    unfold relax. intros H.
    match type of H with (if ?c then _ else _) = _ => destruct c; [discriminate|] end.
    destruct (not_ignored rs e); [reflexivity | discriminate].
  Qed.

  Lemma usable_edge_ok o e a :
    syn o e -> usable_b en rs o a = true -> not_ignored rs e = true ->
    edge_ok en rs o a = true.
  Proof.
    intros [_ Hf Ht _ _ _] Hu Hn. unfold usable_b in Hu. unfold edge_ok.
    apply andb_prop in Hu. destruct Hu as [Hr Hl]. rewrite Hr, Hl.
    unfold not_ignored in *. rewrite <- Hf, <- Ht. rewrite Hn. reflexivity.
  Qed.

  (* well-formed numeric content of an entry *)
  Record wf_num (x : dentry) : Prop := mkWfNum {
    w_weight : 0 <= d_weight x;
    w_prob : pvalid K (d_prob x);
    w_amts : 0 <= n_outfee (d_e x) <= n_net (d_e x)
  }.

  Lemma r_send_nonneg x e : wf_num x -> 0 <= r_send (d_e x) e.
  Proof. intros [_ _ H]. unfold Dijkstra.r_send, r_inb. lia. Qed.

  Lemma r_ofee_nonneg x e :
    wf_num x -> 0 <= e_base e -> 0 <= e_rate e -> 0 <= r_ofee (d_e x) e.
  Proof.
    intros Hw Hb Hr. pose proof (r_send_nonneg x e Hw) as Hs.
    unfold Dijkstra.r_ofee. destruct (e_from e =? src); [lia|].
    unfold compute_fee, fee_rate_parts.
    assert (0 <= r_send (d_e x) e * e_rate e) by nia.
    pose proof (Z.div_pos _ 1000000 H ltac:(lia)). lia.
  Qed.

  Lemma r_tld_nonneg e : 0 <= e_delta e -> 0 <= r_tld e.
  Proof. unfold Dijkstra.r_tld. destruct (e_from e =? src); lia. Qed.

  (* What a guarded processEdge call produces: exact (non-wrapped) weight that
     is at least the pivot's, probability at most the pivot's. *)
  Lemma relax_full_spec s e payload ep c :
    let pv := s_pivot K s in
    wf_num pv -> guard s (LRelax K e payload ep) ->
    relax_full pv e payload ep = Some c ->
    exists n',
      relax en rs amt src e (d_e pv) payload = Some n' /\
      d_e c = n' /\ d_next c = Some e /\
      d_prob c = pmul K (d_prob pv) ep /\
      d_weight c = d_weight pv + edge_weight (r_send (d_e pv) e) (r_fee (d_e pv) e) (r_tld e) /\
      d_weight pv <= d_weight c < two63 /\
      d_dist c = pdist K (d_weight c) (d_prob c) /\
      ple K (d_prob c) (d_prob pv) = true /\
      wf_num c.
  Proof.
    intros pv Hw Hg Hr. cbn [Dijkstra.guard] in Hg. fold pv in Hg.
    destruct Hg as (Hb & Hrt & Hd & Hv & Hle & Hov & Hsum).
    unfold Dijkstra.relax_full in Hr.
    destruct (relax en rs amt src e (d_e pv) payload) as [n'|] eqn:Erl; [|discriminate].
    destruct (pzero K ep); [discriminate|].
    destruct (pgt K minprob (pmul K (d_prob pv) ep)); [discriminate|].
    inversion Hr; subst c. clear Hr. cbn [d_e d_next d_prob d_weight d_dist].
    pose proof (r_send_nonneg pv e Hw) as Hs.
    pose proof (r_tld_nonneg e Hd) as Ht.
    pose proof (r_ofee_nonneg pv e Hw Hb Hrt) as Ho.
    assert (Hf : 0 <= r_fee (d_e pv) e) by (unfold Dijkstra.r_fee; lia).
    pose proof (edge_weight_nonneg _ _ _ Hs Ht Hf) as Hwn.
    destruct Hw as [Hw0 Hwp Hwa].
    assert (Eew : edge_weight_m (r_send (d_e pv) e) (r_fee (d_e pv) e) (r_tld e) =
                  edge_weight (r_send (d_e pv) e) (r_fee (d_e pv) e) (r_tld e)).
    { apply edge_weight_m_exact; auto. lia. }
    rewrite Eew.
    assert (Etw : wrap64 (d_weight pv + edge_weight (r_send (d_e pv) e) (r_fee (d_e pv) e) (r_tld e))
                  = d_weight pv + edge_weight (r_send (d_e pv) e) (r_fee (d_e pv) e) (r_tld e)).
    { apply wrap64_id. unfold two63 in *. lia. }
    rewrite Etw.
    destruct (relax_fields _ _ _ _ Erl) as (Hn1 & Hn2 & Hn3).
    assert (Hple : ple K (pmul K (d_prob pv) ep) (d_prob pv) = true)
      by (apply (pmul_le K KO); assumption).
    exists n'.
    split; [reflexivity|]. split; [reflexivity|]. split; [reflexivity|].
    split; [reflexivity|]. split; [reflexivity|]. split; [lia|].
    split; [reflexivity|]. split; [exact Hple|].
    constructor; cbn [d_e d_next d_prob d_weight d_dist].
    - lia.
    - apply (pmul_valid K KO); assumption.
    - rewrite Hn2, Hn3. lia.
  Qed.

  (* the key never decreases along a relaxation from a pivot whose dist is
     getProbabilityBasedDist of its weight and probability *)
  Lemma relax_full_kle s e payload ep c :
    let pv := s_pivot K s in
    wf_num pv -> d_dist pv = pdist K (d_weight pv) (d_prob pv) ->
    guard s (LRelax K e payload ep) ->
    relax_full pv e payload ep = Some c ->
    kle pv c.
  Proof.
    intros pv Hw Hdist Hg Hr.
    destruct (relax_full_spec s e payload ep c Hw Hg Hr)
      as (n' & _ & _ & _ & Hp & _ & Hwt & Hd & Hple & Hwc).
    fold pv in Hwt, Hple.
    assert (Hmono : d_dist pv <= d_dist c).
    { rewrite Hdist, Hd. apply (pdist_mono K KO); try lia.
      - apply Hw. - apply Hwc. - apply Hw. - exact Hple. }
    apply kle_iff. destruct (Z.eq_dec (d_dist pv) (d_dist c)) as [E|E].
    - right. split; [exact E | exact Hple].
    - left. lia.
  Qed.

  (* ================= maps and heaps ================= *)

  Lemma dm_get_set_same k v m : dm_get k (dm_set k v m) = Some v.
  Proof. cbn. rewrite Z.eqb_refl. reflexivity. Qed.

  Lemma dm_get_set_other k k' v m : k' <> k -> dm_get k (dm_set k' v m) = dm_get k m.
  Proof. intros H. cbn. apply Z.eqb_neq in H. rewrite H. reflexivity. Qed.

  Lemma heap_add_In v u h : In u (heap_add v h) <-> u = v \/ In u h.
  Proof.
    unfold heap_add. destruct (mem v h) eqn:E.
    - apply mem_In in E. split; [auto|]. intros [->|H]; auto.
    - cbn. split; intros [H|H]; auto.
  Qed.

  Lemma heap_del_In v u h : In u (heap_del v h) <-> u <> v /\ In u h.
  Proof.
    unfold heap_del. rewrite filter_In. split.
    - intros [H1 H2]. zb. auto.
    - intros [H1 H2]. split; [exact H2|]. apply negb_true_iff. apply Z.eqb_neq. exact H1.
  Qed.

  (* ================= the invariant ================= *)

  (* the graph policies behind a path, found by the same lookup the checker uses *)
  Fixpoint path_res (prev : Z) (es os : list edge) : Prop :=
    match es, os with
    | [], [] => True
    | e :: es', o :: os' =>
      e_from e = prev /\ find_edge g (e_chan e) prev (e_to e) = Some o /\
      path_res (e_to e) es' os'
    | _, _ => False
    end.

  (* [backed m h x es os szs]: entry [x] heads a nextHop chain [es] to the
     target that runs through FINALISED entries of the distance map [m] only,
     and satisfies the search invariant of Search.v along that chain. *)
  Inductive backed (m : dmap) (h : list Z) : dentry -> list edge -> list edge -> list Z -> Prop :=
  | b_exit x e o :
      d_next x = Some e -> e_to e = dst ->
      e_from e = n_node (d_e x) ->
      find_edge g (e_chan e) (e_from e) (e_to e) = Some o ->
      inv (d_e x) [e] [o] [last_size] ->
      backed m h x [e] [o] [last_size]
  | b_step x e o y es os szs own :
      d_next x = Some e -> e_to e = n_node (d_e y) -> n_node (d_e y) <> dst ->
      e_from e = n_node (d_e x) ->
      find_edge g (e_chan e) (e_from e) (e_to e) = Some o ->
      dm_get (n_node (d_e y)) m = Some y -> ~ In (n_node (d_e y)) h ->
      backed m h y es os szs ->
      inv (d_e x) (e :: es) (o :: os) (own :: szs) ->
      backed m h x (e :: es) (o :: os) (own :: szs).

  Lemma backed_mono m h m' h' x es os szs :
    (forall v y, dm_get v m = Some y -> ~ In v h -> dm_get v m' = Some y /\ ~ In v h') ->
    backed m h x es os szs -> backed m' h' x es os szs.
  Proof.
    intros Hm Hb.
    induction Hb as [x e o Hn Hto Hfr Hfe Hinv
                    | x e o y es os szs own Hn Hto Hnd Hfr Hfe Hget Hnh Hb IH Hinv].
    - eapply b_exit; eassumption.
    - destruct (Hm _ _ Hget Hnh) as [G1 G2]. eapply b_step; eassumption.
  Qed.

  Lemma backed_inv m h x es os szs : backed m h x es os szs -> inv (d_e x) es os szs.
  Proof. intros H. destruct H; assumption. Qed.

  Lemma backed_path_res m h x es os szs :
    backed m h x es os szs -> path_res (n_node (d_e x)) es os.
  Proof.
    intros Hb.
    induction Hb as [x e o Hn Hto Hfr Hfe Hinv
                    | x e o y es os szs own Hn Hto Hnd Hfr Hfe Hget Hnh Hb IH Hinv];
      cbn [path_res]; rewrite <- Hfr.
    - repeat split; auto.
    - repeat split; auto. rewrite Hto. exact IH.
  Qed.

  Lemma backed_unravel m h x es os szs :
    backed m h x es os szs -> forall v, dm_get v m = Some x ->
    forall fuel, (length es <= fuel)%nat -> unravel fuel m v = Some es.
  Proof.
    intros Hb.
    induction Hb as [x e o Hn Hto Hfr Hfe Hinv
                    | x e o y es os szs own Hn Hto Hnd Hfr Hfe Hget Hnh Hb IH Hinv];
      intros v Hv fuel Hf.
    - destruct fuel as [|f]; [cbn in Hf; lia|]. cbn [Dijkstra.unravel].
      rewrite Hv, Hn, Hto, Z.eqb_refl. reflexivity.
    - destruct fuel as [|f]; [cbn in Hf; lia|]. cbn [Dijkstra.unravel].
      rewrite Hv, Hn. rewrite Hto. apply Z.eqb_neq in Hnd. rewrite Hnd.
      rewrite (IH _ Hget f); [reflexivity|]. cbn [length] in Hf. lia.
  Qed.

  Record wf_entry (v : Z) (x : dentry) : Prop := mkWfEntry {
    we_node : n_node (d_e x) = v;
    we_next : exists e, d_next x = Some e;
    we_dist : d_dist x = pdist K (d_weight x) (d_prob x);
    we_num : wf_num x;
    we_dst : src <> dst -> v <> dst
  }.

  Record INV (s : state) : Prop := mkINV {
    I_heap : forall v, In v (s_heap K s) -> exists x, dm_get v (s_dm K s) = Some x;
    I_wf : forall v x, dm_get v (s_dm K s) = Some x -> wf_entry v x;
    I_backed : forall v x, dm_get v (s_dm K s) = Some x ->
               exists es os szs, backed (s_dm K s) (s_heap K s) x es os szs;
    I_pnum : wf_num (s_pivot K s);
    (* the pivot: either the initial partial path (nothing finalised yet) or a
       finalised entry that sorts before everything on the heap *)
    I_piv : s_done K s = false ->
            (s_pivot K s = init_pivot /\
             forall v x, dm_get v (s_dm K s) = Some x -> In v (s_heap K s)) \/
            (d_next (s_pivot K s) <> None /\
             dm_get (n_node (d_e (s_pivot K s))) (s_dm K s) = Some (s_pivot K s) /\
             ~ In (n_node (d_e (s_pivot K s))) (s_heap K s) /\
             forall u y, In u (s_heap K s) -> dm_get u (s_dm K s) = Some y ->
                         kle (s_pivot K s) y);
    (* finalised entries sort before-or-equal the pivot *)
    I_fin_le : forall v x, dm_get v (s_dm K s) = Some x -> ~ In v (s_heap K s) ->
               kle x (s_pivot K s);
    I_fin_ns : s_done K s = false ->
               forall v x, dm_get v (s_dm K s) = Some x -> ~ In v (s_heap K s) -> v <> src;
    I_done : s_done K s = true ->
             dm_get src (s_dm K s) = Some (s_pivot K s) /\ ~ In src (s_heap K s)
  }.

  Lemma INV_init : INV init.
  Proof.
    constructor; cbn.
    - intros v [].
    - intros v x H. discriminate.
    - intros v x H. discriminate.
    - constructor; cbn; [lia | apply (pone_valid K KO) | lia].
    - intros _. left. split; [reflexivity|]. intros v x H. discriminate.
    - intros v x H. discriminate.
    - intros _ v x H. discriminate.
    - discriminate.
  Qed.

  Lemma zero_inbound_id e : e_ibase e = 0 -> e_irate e = 0 -> zero_inbound e = e.
  Proof. destruct e. cbn. intros -> ->. reflexivity. Qed.

  Lemma syn_b_syn o e : syn_b o e = true -> syn o e.
  Proof. unfold syn_b. intros H. zb. constructor; auto. Qed.

  (* ================= chain stability, one step ================= *)

  (* The only way an entry of the distance map changes is an accepted
     relaxation; it never hits a finalised node. *)
  Lemma relax_target_not_final s e payload ep c cur :
    INV s -> s_done K s = false -> guard s (LRelax K e payload ep) ->
    relax_full (s_pivot K s) e payload ep = Some c ->
    dm_get (e_from e) (s_dm K s) = Some cur ->
    improves c cur = true ->
    In (e_from e) (s_heap K s).
  Proof.
    intros HI Hnd Hg Hr Hcur Himp.
    destruct (in_dec Z.eq_dec (e_from e) (s_heap K s)) as [Hin|Hnin]; [exact Hin|].
    exfalso.
    destruct (I_piv s HI Hnd) as [[Hp Hall]|(Hnx & Hpm & Hph & Hk2)].
    - apply Hnin. eapply Hall. exact Hcur.
    - pose proof (I_fin_le s HI _ _ Hcur Hnin) as H1.
      pose proof (I_wf s HI _ _ Hpm) as Hwp.
      pose proof (relax_full_kle s e payload ep c (I_pnum s HI) (we_dist _ _ Hwp) Hg Hr) as H2.
      pose proof (kle_trans _ _ _ H1 H2) as H3.
      rewrite (kle_not_improves _ _ H3) in Himp. discriminate.
  Qed.

  Lemma chain_stable_step s l s' :
    INV s -> guard s l -> exec s l = Some s' ->
    forall v x, finalised K s v x -> finalised K s' v x.
  Proof.
    intros HI Hg He v x [Hv Hh]. unfold Dijkstra.exec in He.
    destruct (s_done K s) eqn:Hd; [discriminate|].
    destruct l as [e payload ep|u].
    - destruct (negb (e_to e =? n_node (d_e (s_pivot K s)))); [discriminate|].
      destruct (negb (src =? dst) && (e_from e =? dst)); [discriminate|].
      destruct (negb (offered_b (s_pivot K s) e)); [discriminate|].
      destruct (relax_full (s_pivot K s) e payload ep) as [c|] eqn:Er.
      2:{ inversion He; subst s'. split; assumption. }
      assert (Hupd : (dm_get (e_from e) (s_dm K s) = None \/ In (e_from e) (s_heap K s)) ->
                     finalised K (mkSt K (dm_set (e_from e) c (s_dm K s))
                                       (heap_add (e_from e) (s_heap K s)) (s_pivot K s) false) v x).
      { intros Hcase. assert (Hne : e_from e <> v).
        { intros E. subst v. destruct Hcase as [Hc|Hc]; [congruence | contradiction]. }
        split; cbn [s_dm s_heap].
        - rewrite dm_get_set_other by exact Hne. exact Hv.
        - rewrite heap_add_In. intros [E|Hin]; [congruence | contradiction]. }
      destruct (dm_get (e_from e) (s_dm K s)) as [cur|] eqn:Ecur.
      + destruct (improves c cur) eqn:Ei.
        * inversion He; subst s'. apply Hupd. right.
          eapply relax_target_not_final; eassumption.
        * inversion He; subst s'. split; assumption.
      + inversion He; subst s'. apply Hupd. left. reflexivity.
    - destruct (negb (mem u (s_heap K s))); [discriminate|].
      destruct (dm_get u (s_dm K s)) as [y|]; [|discriminate].
      destruct (is_min K (s_dm K s) (s_heap K s) y); [|discriminate].
      inversion He; subst s'. split; cbn [s_dm s_heap]; [exact Hv|].
      rewrite heap_del_In. intros [_ Hin]. contradiction.
  Qed.

  (* ================= the invariant is preserved ================= *)

  Lemma r_send_target e :
    e_ibase e = 0 -> e_irate e = 0 ->
    r_send (target_entry en dst amt last_size) e = amt.
  Proof.
    intros Hb Hr. unfold Dijkstra.r_send, r_inb, target_entry, inbound_fee.
    cbn [n_net n_outfee]. rewrite Hb, Hr. change (clamp_rate 0) with 0.
    rewrite Z.mul_0_l. change (Z.quot 0 fee_rate_parts) with 0. lia.
  Qed.

  Lemma INV_update s e payload ep c :
    INV s -> s_done K s = false -> guard s (LRelax K e payload ep) ->
    e_to e = n_node (d_e (s_pivot K s)) ->
    (src <> dst -> e_from e <> dst) ->
    offered_b (s_pivot K s) e = true ->
    relax_full (s_pivot K s) e payload ep = Some c ->
    (dm_get (e_from e) (s_dm K s) = None \/ In (e_from e) (s_heap K s)) ->
    INV (mkSt K (dm_set (e_from e) c (s_dm K s))
              (heap_add (e_from e) (s_heap K s)) (s_pivot K s) false).
  Proof.
    intros HI Hnd Hg Hto Hdst Hoff Hr Hcase.
    set (from := e_from e) in *.
    destruct (relax_full_spec s e payload ep c (I_pnum s HI) Hg Hr)
      as (n' & Hrl & Hce & Hcn & Hcp & Hcw & Hcwb & Hcd & Hcple & Hcnum).
    destruct (relax_fields _ _ _ _ Hrl) as (Hn1 & Hn2 & Hn3).
    assert (Hpres : forall v y, dm_get v (s_dm K s) = Some y -> ~ In v (s_heap K s) ->
                    dm_get v (dm_set from c (s_dm K s)) = Some y /\
                    ~ In v (heap_add from (s_heap K s))).
    { intros v y Hv Hh. assert (Hne : from <> v).
      { intros E. subst v. destruct Hcase as [Hc|Hc]; [congruence | contradiction]. }
      split.
      - rewrite dm_get_set_other by exact Hne. exact Hv.
      - rewrite heap_add_In. intros [E|Hin]; [congruence | contradiction]. }
    (* the graph policy behind e *)
    unfold Dijkstra.offered_b in Hoff. fold from in Hoff.
    destruct (find_edge g (e_chan e) from (e_to e)) as [o|] eqn:Efe; [|discriminate].
    apply andb_prop in Hoff. destruct Hoff as [Hoff Hoff3].
    apply andb_prop in Hoff. destruct Hoff as [Hsynb Hok].
    pose proof (syn_b_syn _ _ Hsynb) as Hsyn.
    pose proof (usable_edge_ok _ _ _ Hsyn Hok (relax_not_ignored _ _ _ _ Hrl)) as Hok'.
    clear Hok. rename Hok' into Hok.
    assert (Hcnode : n_node (d_e c) = from) by (rewrite Hce; exact Hn1).
    (* c heads a chain through finalised entries *)
    assert (Hcb : exists es os szs,
               backed (dm_set from c (s_dm K s)) (heap_add from (s_heap K s)) c es os szs).
    { destruct (I_piv s HI Hnd) as [[Hp Hall]|(Hnx & Hpm & Hph & Hk2)].
      - (* exit hop *)
        rewrite Hp in Hoff3, Hrl, Hok, Hto. cbn [d_next init_pivot Dijkstra.init_pivot d_e] in Hoff3, Hrl, Hok, Hto.
        apply andb_prop in Hoff3. destruct Hoff3 as [Hz Hlh].
        apply andb_prop in Hz. destruct Hz as [Hz1 Hz2]. zb.
        rewrite (r_send_target e Hz1 Hz2) in Hok.
        exists [e], [o], [last_size]. eapply b_exit.
        + exact Hcn.
        + rewrite Hto. reflexivity.
        + rewrite Hcnode. reflexivity.
        + exact Efe.
        + rewrite Hce. rewrite <- (zero_inbound_id e Hz1 Hz2).
          eapply (relax_from_target en rs amt src dst last_size fee_limit_nonneg o e payload n').
          * exact Hsyn.
          * rewrite Hto. reflexivity.
          * exact Hok.
          * intros n Hn. rewrite Hn in Hlh. zb. exact Hlh.
          * rewrite (zero_inbound_id e Hz1 Hz2). exact Hrl.
      - (* pivot is a finalised entry *)
        destruct (I_backed s HI _ _ Hpm) as (es & os & szs & Hb).
        destruct (d_next (s_pivot K s)) as [enx|] eqn:Enx; [|congruence].
        apply andb_prop in Hoff3. destruct Hoff3 as [Hi1 Hi2]. zb.
        pose proof (I_wf s HI _ _ Hpm) as Hwp.
        assert (Hpns : n_node (d_e (s_pivot K s)) <> src) by (eapply (I_fin_ns s HI Hnd); eassumption).
        assert (Hpnd : n_node (d_e (s_pivot K s)) <> dst).
        { destruct (Z.eq_dec src dst) as [E|E]; [congruence|].
          apply (we_dst _ _ Hwp E). }
        destruct (relax_step en rs amt src dst fee_limit_nonneg (d_e (s_pivot K s)) es os szs o e payload n')
          as (own & Hinv').
        + eapply backed_inv. exact Hb.
        + exact Hpns.
        + exact Hsyn.
        + split; assumption.
        + exact Hto.
        + exact Hok.
        + exact Hrl.
        + destruct (Hpres _ _ Hpm Hph) as [G1 G2].
          exists (e :: es), (o :: os), (own :: szs). eapply b_step with (y := s_pivot K s).
          * exact Hcn.
          * exact Hto.
          * exact Hpnd.
          * rewrite Hcnode. reflexivity.
          * exact Efe.
          * exact G1.
          * exact G2.
          * eapply backed_mono; [exact Hpres | exact Hb].
          * rewrite Hce. exact Hinv'. }
    constructor; cbn [s_dm s_heap s_pivot s_done].
    - intros v Hv. apply heap_add_In in Hv. destruct (Z.eq_dec from v) as [E|E].
      + subst v. exists c. apply dm_get_set_same.
      + rewrite dm_get_set_other by exact E. destruct Hv as [Hv|Hv]; [congruence|].
        apply (I_heap s HI). exact Hv.
    - intros v x Hv. destruct (Z.eq_dec from v) as [E|E].
      + subst v. rewrite dm_get_set_same in Hv. inversion Hv; subst x.
        constructor; auto. exists e. exact Hcn.
      + rewrite dm_get_set_other in Hv by exact E. apply (I_wf s HI). exact Hv.
    - intros v x Hv. destruct (Z.eq_dec from v) as [E|E].
      + subst v. rewrite dm_get_set_same in Hv. inversion Hv; subst x. exact Hcb.
      + rewrite dm_get_set_other in Hv by exact E.
        destruct (I_backed s HI _ _ Hv) as (es & os & szs & Hb).
        exists es, os, szs. eapply backed_mono; [exact Hpres | exact Hb].
    - apply (I_pnum s HI).
    - intros _. destruct (I_piv s HI Hnd) as [[Hp Hall]|(Hnx & Hpm & Hph & Hk2)].
      + left. split; [exact Hp|]. intros v x Hv. apply heap_add_In.
        destruct (Z.eq_dec from v) as [E|E]; [left; congruence|].
        rewrite dm_get_set_other in Hv by exact E. right. eapply Hall. exact Hv.
      + right. destruct (Hpres _ _ Hpm Hph) as [G1 G2].
        split; [exact Hnx|]. split; [exact G1|]. split; [exact G2|].
        intros u y Hu Hy. destruct (Z.eq_dec from u) as [E|E].
        * subst u. rewrite dm_get_set_same in Hy. inversion Hy; subst y.
          pose proof (I_wf s HI _ _ Hpm) as Hwp.
          apply (relax_full_kle s e payload ep c (I_pnum s HI) (we_dist _ _ Hwp) Hg Hr).
        * rewrite dm_get_set_other in Hy by exact E. apply heap_add_In in Hu.
          destruct Hu as [Hu|Hu]; [congruence|]. eapply Hk2; eassumption.
    - intros v x Hv Hh. rewrite heap_add_In in Hh.
      assert (E : from <> v) by (intros E; apply Hh; left; congruence).
      rewrite dm_get_set_other in Hv by exact E.
      apply (I_fin_le s HI _ _ Hv). intros Hin. apply Hh. right. exact Hin.
    - intros _ v x Hv Hh. rewrite heap_add_In in Hh.
      assert (E : from <> v) by (intros E; apply Hh; left; congruence).
      rewrite dm_get_set_other in Hv by exact E.
      apply (I_fin_ns s HI Hnd _ _ Hv). intros Hin. apply Hh. right. exact Hin.
    - discriminate.
  Qed.

  Lemma is_min_spec m h x :
    is_min K m h x = true -> forall u y, In u h -> dm_get u m = Some y -> kle x y.
  Proof.
    unfold is_min. rewrite forallb_forall. intros H u y Hu Hy.
    specialize (H u Hu). rewrite Hy in H. apply negb_true_iff in H. exact H.
  Qed.

  Lemma INV_pop s v x :
    INV s -> s_done K s = false -> In v (s_heap K s) ->
    dm_get v (s_dm K s) = Some x -> is_min K (s_dm K s) (s_heap K s) x = true ->
    INV (mkSt K (s_dm K s) (heap_del v (s_heap K s)) x (v =? src)).
  Proof.
    intros HI Hnd Hin Hx Hmin.
    pose proof (is_min_spec _ _ _ Hmin) as Hminx.
    pose proof (I_wf s HI _ _ Hx) as Hwx.
    assert (Hpres : forall u y, dm_get u (s_dm K s) = Some y -> ~ In u (s_heap K s) ->
                    dm_get u (s_dm K s) = Some y /\ ~ In u (heap_del v (s_heap K s))).
    { intros u y Hu Hh. split; [exact Hu|]. rewrite heap_del_In. intros [_ H]. contradiction. }
    constructor; cbn [s_dm s_heap s_pivot s_done].
    - intros u Hu. apply heap_del_In in Hu. apply (I_heap s HI). apply Hu.
    - apply (I_wf s HI).
    - intros u y Hu. destruct (I_backed s HI _ _ Hu) as (es & os & szs & Hb).
      exists es, os, szs. eapply backed_mono; [exact Hpres | exact Hb].
    - apply (we_num _ _ Hwx).
    - intros Hns. right. rewrite (we_node _ _ Hwx).
      split; [destruct (we_next _ _ Hwx) as [e0 E0]; congruence|].
      split; [exact Hx|]. split; [rewrite heap_del_In; intros [H _]; congruence|].
      intros u y Hu Hy. apply heap_del_In in Hu. eapply Hminx; [apply Hu | exact Hy].
    - intros u y Hu Hh. destruct (Z.eq_dec u v) as [E|E].
      + subst u. rewrite Hx in Hu. inversion Hu; subst y. apply kle_refl.
        apply (w_prob _ (we_num _ _ Hwx)).
      + assert (Hh' : ~ In u (s_heap K s)).
        { intros H. apply Hh. apply heap_del_In. split; assumption. }
        pose proof (I_fin_le s HI _ _ Hu Hh') as H1.
        destruct (I_piv s HI Hnd) as [[Hp Hall]|(Hnx & Hpm & Hph & Hk2)].
        * exfalso. apply Hh'. eapply Hall. exact Hu.
        * eapply kle_trans; [exact H1|]. eapply Hk2; eassumption.
    - intros Hns u y Hu Hh. destruct (Z.eq_dec u v) as [E|E].
      + subst u. zb. exact Hns.
      + apply (I_fin_ns s HI Hnd _ _ Hu). intros H. apply Hh. apply heap_del_In. split; assumption.
    - intros Hs. zb. subst v. split; [exact Hx|]. rewrite heap_del_In. intros [H _]. congruence.
  Qed.

  Lemma INV_step s l s' : INV s -> guard s l -> exec s l = Some s' -> INV s'.
  Proof.
    intros HI Hg He. unfold Dijkstra.exec in He.
    destruct (s_done K s) eqn:Hd; [discriminate|].
    destruct l as [e payload ep|u].
    - destruct (e_to e =? n_node (d_e (s_pivot K s))) eqn:Eto; cbn [negb] in He; [|discriminate].
      destruct (negb (src =? dst) && (e_from e =? dst)) eqn:Esk; [discriminate|].
      destruct (offered_b (s_pivot K s) e) eqn:Eoff; cbn [negb] in He; [|discriminate].
      zb.
      assert (Hdst : src <> dst -> e_from e <> dst).
      { intros Hne. destruct Esk as [Esk|Esk]; zb; [congruence | exact Esk]. }
      destruct (relax_full (s_pivot K s) e payload ep) as [c|] eqn:Er.
      2:{ inversion He; subst s'. exact HI. }
      destruct (dm_get (e_from e) (s_dm K s)) as [cur|] eqn:Ecur.
      + destruct (improves c cur) eqn:Ei.
        * inversion He; subst s'. apply (INV_update s e payload ep c); auto.
          right. eapply relax_target_not_final; eassumption.
        * inversion He; subst s'. exact HI.
      + inversion He; subst s'. apply (INV_update s e payload ep c); auto.
    - destruct (mem u (s_heap K s)) eqn:Em; cbn [negb] in He; [|discriminate].
      destruct (dm_get u (s_dm K s)) as [y|] eqn:Ey; [|discriminate].
      destruct (is_min K (s_dm K s) (s_heap K s) y) eqn:Emin; [|discriminate].
      inversion He; subst s'. apply INV_pop; auto. apply mem_In. exact Em.
  Qed.

  Lemma INV_greach s : greach s -> INV s.
  Proof.
    induction 1 as [|s l s' Hr IH Hg He]; [apply INV_init|].
    eapply INV_step; eassumption.
  Qed.

  Lemma greach_gsteps s s' :
    greach s -> gsteps K g en rs amt src dst minprob s s' -> greach s'.
  Proof.
    intros Hr Hs. induction Hs as [|s l s1 s' Hg He Hs IH]; [exact Hr|].
    apply IH. eapply gr_step; eassumption.
  Qed.

  (* ================= the theorems ================= *)

  (* CHAIN STABILITY: once a node has been popped, its distance-map entry is
     never changed again (and it never re-enters the heap). *)
  Lemma chain_stable s s' v x :
    greach s -> gsteps K g en rs amt src dst minprob s s' ->
    finalised K s v x -> finalised K s' v x.
  Proof.
    intros Hr Hs. induction Hs as [|s l s1 s' Hg He Hs IH]; [auto|].
    intros Hf. apply IH.
    - eapply gr_step; eassumption.
    - eapply chain_stable_step; try eassumption. apply INV_greach. exact Hr.
  Qed.

  (* heap.Pop hands out entries in non-decreasing key order *)
  Lemma pops_sorted s v s' :
    greach s -> guard s (LPop K v) -> exec s (LPop K v) = Some s' ->
    s_pivot K s = init_pivot \/ kle (s_pivot K s) (s_pivot K s').
  Proof.
    intros Hr _ He. pose proof (INV_greach s Hr) as HI. unfold Dijkstra.exec in He.
    destruct (s_done K s) eqn:Hd; [discriminate|].
    destruct (mem v (s_heap K s)) eqn:Em; cbn [negb] in He; [|discriminate].
    destruct (dm_get v (s_dm K s)) as [y|] eqn:Ey; [|discriminate].
    destruct (is_min K (s_dm K s) (s_heap K s) y) eqn:Emin; [|discriminate].
    inversion He; subst s'. cbn [s_pivot].
    destruct (I_piv s HI Hd) as [[Hp _]|(_ & _ & _ & Hk2)]; [left; exact Hp|].
    right. eapply Hk2; [apply mem_In; exact Em | exact Ey].
  Qed.

  Lemma resolve_new_route tl0 es : forall os prev,
    path_res prev es os ->
    resolve g prev (fst3 (new_route_aux amt tl0 es)) = Some os.
  Proof.
    induction es as [|e es IH]; intros os prev H.
    - destruct os; [reflexivity | contradiction].
    - destruct os as [|o os]; [contradiction|]. cbn [path_res] in H.
      destruct H as (Hf & Hfe & Hrest).
      destruct es as [|e' rest].
      + destruct os; [|contradiction]. cbn. rewrite Hfe. reflexivity.
      + rewrite new_route_aux_cons. specialize (IH os (e_to e) Hrest).
        destruct (new_route_aux amt tl0 (e' :: rest)) as [[hops ni] tl].
        cbn [fst3 fst] in *. cbn [resolve h_chan h_to]. rewrite Hfe, IH. reflexivity.
  Qed.

  Lemma unravel_mono m : forall fuel v es,
    unravel fuel m v = Some es -> forall fuel', (fuel <= fuel')%nat -> unravel fuel' m v = Some es.
  Proof.
    induction fuel as [|f IH]; intros v es H fuel' Hle; [discriminate|].
    destruct fuel' as [|f']; [lia|]. cbn [Dijkstra.unravel] in *.
    destruct (dm_get v m) as [x|]; [|discriminate].
    destruct (d_next x) as [e|]; [|discriminate].
    destruct (e_to e =? dst); [exact H|].
    destruct (unravel f m (e_to e)) as [es'|] eqn:Eu; [|discriminate].
    rewrite (IH _ _ Eu f') by lia. exact H.
  Qed.

  (* SOUNDNESS OF findPath + newRoute: when the source has been popped, the
     nextHop chain unravelled from the distance map is a path [es] for which
     the route newRoute builds passes the checker. *)
  Lemma findpath_sound s :
    greach s -> s_done K s = true ->
    exists es szs,
      (forall fuel, (length es <= fuel)%nat -> unravel fuel (s_dm K s) src = Some es) /\
      (forall fuel es', unravel fuel (s_dm K s) src = Some es' -> es' = es) /\
      route_valid g en rs amt src dst (new_route en src amt es) szs = true.
  Proof.
    intros Hr Hd. pose proof (INV_greach s Hr) as HI.
    destruct (I_done s HI Hd) as [Hsrc Hnh].
    destruct (I_backed s HI _ _ Hsrc) as (es & os & szs & Hb).
    pose proof (I_wf s HI _ _ Hsrc) as Hw.
    exists es, szs. split; [|split].
    - intros fuel Hf. eapply backed_unravel; eassumption.
    - intros fuel es' Hu.
      pose proof (backed_unravel _ _ _ _ _ _ Hb _ Hsrc (Nat.max fuel (length es)) ltac:(lia)) as H1.
      pose proof (unravel_mono _ _ _ _ Hu (Nat.max fuel (length es)) ltac:(lia)) as H2.
      congruence.
    - eapply search_sound.
      + eapply backed_inv. exact Hb.
      + apply (we_node _ _ Hw).
      + rewrite new_route_fields. cbv zeta. cbn [r_hops].
        apply resolve_new_route. rewrite <- (we_node _ _ Hw). eapply backed_path_res. exact Hb.
      + exact amt_pos.
  Qed.
End P.

(* the exact instance satisfies the laws *)
Lemma ZK_ok pen : 0 <= pen -> keyops_ok (ZK pen).
Proof.
  intros Hpen. constructor; cbn [ZK ple pmul pdist pone pzero pvalid kP].
  - intros a _. apply Z.leb_refl.
  - intros a b c H1 H2. zb. apply Z.leb_le. lia.
  - lia.
  - intros p e Hp He. apply Z.div_pos; nia.
  - intros p e Hp He Hle. zb. apply Z.leb_le.
    apply Z.div_le_upper_bound; nia.
  - intros w w' p p' Hp Hp' Hw Hww Hw' Hle. zb.
    destruct (p' =? 0) eqn:E'; zb.
    + destruct (p =? 0); [lia|]. apply Z.le_min_l.
    + assert (Hpn : p <> 0) by lia. apply Z.eqb_neq in Hpn. rewrite Hpn.
      assert (pen * 1000000 / p <= pen * 1000000 / p').
      { apply Z.div_le_compat_l; lia. }
      lia.
Qed.
