(* C19c — additional edges of findPath: private route hints and blinded payment
   paths (line numbers of /repo at the time of writing)
     routing/pathfind.go:702-726,1073-1095  additionalEdges: hints that leave
         [self] are skipped; every other hint enters the unifier with ZERO
         inbound fee and the fixed capacity fakeHopHintCapacity
     routing/blinding.go:94   NewBlindedPaymentPathSet (NUMS dummy hop; an
         introduction-node-only path discards all other paths and supplies the
         final CLTV delta and the real target)
     routing/blinding.go:376  BlindedPayment.toRouteHints: the aggregated relay
         parameters sit on the edge introduction node -> first blinded node,
         with MaxHTLC = HtlcMaximum but HasMaxHTLC NOT SET; all later edges of
         the path have an all-zero policy; every edge has ChannelID 0
     routing/pathfind.go:176-186  newRoute removes the dummy hop
     routing/pathfind.go:330-380  newRoute's second pass (blinded back-fill)

   Definitions only; proofs are in BlindedProofs.v. *)
From Coq Require Import ZArith List Bool.
From LV Require Import Route.Model.
Import ListNotations.
Local Open Scope Z_scope.

(* fakeHopHintCapacity = 10 BTC, in satoshi *)
Definition fake_hint_cap : Z := 1000000000.

(* ---------- additional edges in the graph findPath searches ---------- *)

(* what the unifier is given for an additional edge with policy [e] *)
Definition as_additional (e : edge) : edge :=
  mkEdge (e_chan e) (e_from e) (e_to e) (e_disabled e) (e_min e) (e_max e)
         (e_hasmax e) (e_base e) (e_rate e) (e_delta e) 0 0 fake_hint_cap.

(* the graph of one findPath call: channel graph + additional edges, except
   those that leave [slf] ("Edges connected to self are always included in
   the graph, therefore can be skipped") *)
Definition with_additional (g : graph) (slf : Z) (adds : list edge) : graph :=
  g ++ map as_additional (filter (fun e => negb (e_from e =? slf)) adds).

(* ---------- blinded payments ---------- *)

Record bpay := mkBPay {
  bp_intro : Z;          (* BlindedPath.IntroductionPoint *)
  bp_hops : list Z;      (* blinded node ids AFTER the introduction node, recipient last *)
  bp_base : Z;           (* BaseFee *)
  bp_rate : Z;           (* ProportionalFeeRate *)
  bp_delta : Z;          (* CltvExpiryDelta *)
  bp_min : Z;            (* HtlcMinimum *)
  bp_max : Z             (* HtlcMaximum *)
}.

(* BlindedPayment.Validate, numeric part *)
Definition bpay_valid (p : bpay) : bool := bp_min p <=? bp_max p.

(* the edge that carries the aggregated relay parameters.  e_hasmax = false:
   toRouteHints fills MaxHTLC but leaves HasMaxHTLC at its zero value. *)
Definition agg_edge (p : bpay) (b1 : Z) : edge :=
  mkEdge 0 (bp_intro p) b1 false (bp_min p) (bp_max p) false
         (bp_base p) (bp_rate p) (bp_delta p) 0 0 fake_hint_cap.

Definition zero_edge (a b : Z) : edge :=
  mkEdge 0 a b false 0 0 false 0 0 0 0 0 fake_hint_cap.

Fixpoint zero_chain (a : Z) (l : list Z) : list edge :=
  match l with
  | [] => []
  | b :: r => zero_edge a b :: zero_chain b r
  end.

(* toRouteHints of a path to which NewBlindedPaymentPathSet appended the dummy
   hop [nums]; an introduction-node-only path yields no edge *)
Definition blinded_edges (nums : Z) (p : bpay) : list edge :=
  match bp_hops p with
  | [] => []
  | b1 :: rest => agg_edge p b1 :: zero_chain b1 (rest ++ [nums])
  end.

Definition is_single (p : bpay) : bool :=
  match bp_hops p with [] => true | _ => false end.

(* NewBlindedPaymentPathSet: the first introduction-node-only path wins *)
Definition path_set (ps : list bpay) : list bpay :=
  match find is_single ps with Some p => [p] | None => ps end.

(* TargetPubKey *)
Definition set_target (nums : Z) (ps : list bpay) : Z :=
  match find is_single ps with Some p => bp_intro p | None => nums end.

(* FinalCLTVDelta *)
Definition set_final_delta (ps : list bpay) : Z :=
  match find is_single ps with Some p => bp_delta p | None => 0 end.

(* BlindedPaymentPathSet.ToRouteHints *)
Definition blinded_additional (nums : Z) (ps : list bpay) : list edge :=
  flat_map (blinded_edges nums) (path_set ps).

(* the graph findPath searches when paying to the blinded path set *)
Definition blinded_graph (g : graph) (slf nums : Z) (ps : list bpay) : graph :=
  with_additional g slf (blinded_additional nums ps).

(* ---------- newRoute for a blinded payment ---------- *)

Definition dflt_edge : edge := mkEdge 0 0 0 false 0 0 false 0 0 0 0 0 0.

(* "If the last hop is the NUMS key for blinded paths, we remove the dummy hop" *)
Definition strip_dummy (nums : Z) (es : list edge) : list edge :=
  match es with
  | [] => []
  | _ => if e_to (last es dflt_edge) =? nums then removelast es else es
  end.

(* the payment a path edge was derived from (edges carry a pointer in lnd;
   here: the payment whose hints contain that node pair) *)
Definition owner (nums : Z) (ps : list bpay) (e : edge) : option bpay :=
  find (fun p => existsb (edge_is (e_chan e) (e_from e) (e_to e)) (blinded_edges nums p)) ps.

(* the LAST edge of the path that stems from a blinded payment (newRoute walks
   backwards and keeps the first one it meets) *)
Fixpoint last_blinded (es : list edge) : option edge :=
  match es with
  | [] => None
  | e :: r =>
    match last_blinded r with
    | Some x => Some x
    | None => if e_chan e =? 0 then Some e else None
    end
  end.

Definition chosen (nums : Z) (ps : list bpay) (es : list edge) : option bpay :=
  match last_blinded es with
  | Some e => owner nums (path_set ps) e
  | None =>
    (* IntroNodeOnlyPath *)
    match path_set ps with
    | [p] => if is_single p then Some p else None
    | _ => None
    end
  end.

(* second pass of newRoute: from the introduction node on, every hop but the
   final one gets zero amount and zero time lock in its payload *)
Fixpoint backfill (intro : Z) (inb : bool) (hs : list hop) : list hop :=
  match hs with
  | [] => []
  | h :: r =>
    let inb' := inb || (h_to h =? intro) in
    match r with
    | [] => [h]
    | _ => (if inb' then mkHop (h_chan h) (h_to h) 0 0 else h) :: backfill intro inb' r
    end
  end.

(* newRoute(source, path, height, finalHop, blindedPathSet); [en] must carry
   final_delta = set_final_delta ps *)
Definition new_route_blinded (nums : Z) (ps : list bpay) (en : env) (src amt : Z)
           (path : list edge) : option route :=
  let es := strip_dummy nums path in
  match chosen nums ps es with
  | None => None
  | Some p =>
    let r := new_route en src amt es in
    Some (mkRoute (r_src r) (r_amt r) (r_tl r) (backfill (bp_intro p) false (r_hops r)))
  end.

(* ---------- what really travels ---------- *)

(* Inside the blinded portion the payloads carry no amounts: every blinded
   node derives them from its encrypted data; the recipient's payload names
   the amount and expiry that must arrive.  [unblind] writes them back. *)
Fixpoint unblind_hops (intro amt tl : Z) (inb : bool) (hs : list hop) : list hop :=
  match hs with
  | [] => []
  | h :: r =>
    let inb' := inb || (h_to h =? intro) in
    (if inb' then mkHop (h_chan h) (h_to h) amt tl else h) :: unblind_hops intro amt tl inb' r
  end.

Definition unblind (intro : Z) (r : route) : route :=
  let l := last (r_hops r) (mkHop 0 0 0 0) in
  mkRoute (r_src r) (r_amt r) (r_tl r) (unblind_hops intro (h_amt l) (h_tl l) false (r_hops r)).

(* [e] is one of the edges of the route and amount [a] flows over it *)
Inductive carried_on : Z -> list edge -> list hop -> edge -> Z -> Prop :=
| co_here a e es h hs : carried_on a (e :: es) (h :: hs) e a
| co_next a e es h hs e' a' :
    carried_on (h_amt h) es hs e' a' -> carried_on a (e :: es) (h :: hs) e' a'.

(* ---------- onion payload of the final hop of a blinded route ---------- *)

(* tlv.SizeTUint64: significant bytes *)
Definition tu_bytes (v : Z) : Z := if v <=? 0 then 0 else Z.log2 v / 8 + 1.

(* tlv.VarIntSize *)
Definition varint_size (v : Z) : Z :=
  if v <? 253 then 1 else if v <? 65536 then 3 else if v <? 4294967296 then 5 else 9.

(* a record whose type fits one byte *)
Definition rec1 (len : Z) : Z := 1 + varint_size len + len.

(* destination custom record 70000 (5-byte type) of [l] bytes; l < 0: none *)
Definition custom_bytes (l : Z) : Z := if l <? 0 then 0 else 5 + varint_size l + l.

(* lastHopPayloadSize, blinded branch (pathfind.go:1585): amount, expiry,
   encrypted data of the largest last hop, blinding point only for an
   introduction-node-only path.  NO total_amount_msat, NO custom records. *)
Definition final_hop_est (amt tl enc_len : Z) (single : bool) : Z :=
  let body := rec1 (tu_bytes amt) + rec1 (tu_bytes tl) + rec1 enc_len +
              (if single then rec1 33 else 0) in
  body + varint_size body + 32.

(* what newRoute really puts on the final hop (Hop.PackHopPayload): the same
   plus total_amount_msat (type 18) and the custom records *)
Definition final_hop_real (amt tl enc_len : Z) (single : bool) (total custom_len : Z) : Z :=
  let body := rec1 (tu_bytes amt) + rec1 (tu_bytes tl) + rec1 enc_len +
              (if single then rec1 33 else 0) +
              (if total =? 0 then 0 else rec1 (tu_bytes total)) + custom_bytes custom_len in
  body + varint_size body + 32.

(* ---------- BOLT11 route hints: RouteHintsToEdges ---------- *)

(* zpay32.HopHint *)
Record hophint := mkHH {
  hh_node : Z; hh_chan : Z; hh_base : Z; hh_rate : Z; hh_delta : Z
}.

(* one route hint = hop hints chained in forward order: the channel of a hop
   hint leads to the NEXT hop hint's node, the last one to the target; a hint
   carries fee and CLTV delta only (no htlc limits, never disabled) *)
Fixpoint hint_chain (target : Z) (l : list hophint) : list edge :=
  match l with
  | [] => []
  | h :: r =>
    let to := match r with [] => target | h' :: _ => hh_node h' end in
    mkEdge (hh_chan h) (hh_node h) to false 0 0 false
           (hh_base h) (hh_rate h) (hh_delta h) 0 0 fake_hint_cap
      :: hint_chain target r
  end.

(* routing.RouteHintsToEdges (payment_session_source.go), in input order *)
Definition hint_edges (target : Z) (hints : list (list hophint)) : list edge :=
  flat_map (hint_chain target) hints.
