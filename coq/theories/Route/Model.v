(* C19 — every route the pathfinder returns is payable under all stated
   constraints.

   Executable model of (line numbers of /repo at the time of writing)
     graph/db/models/cached_edge_policy.go:72  CachedEdgePolicy.ComputeFee
     graph/db/models/inbound_fee.go:35         InboundFee.CalcFee
     routing/pathfind.go:140    newRoute (backward recomputation of amounts,
                                time locks, totals)
     routing/pathfind.go:782    processEdge (the guards of one relaxation)
     routing/unified_edges.go:190 amtInRange
     routing/unified_edges.go:237 calcCappedInboundFee
     routing/unified_edges.go:253 getEdgeLocal
     routing/unified_edges.go:351 getEdgeNetwork
     routing/route/route.go:592 HopFee, :624 TotalFees, :633 ReceiverAmt
   and the executable CHECKER [route_valid] that states the property clause
   by clause on a (graph, restrictions, route) triple.

   Amounts are msat in unbounded Z (lnd: uint64 / int64).  The correspondence
   run stays far below 2^63 so that no Go wrap can occur; see notes/C19.md.

   Definitions only; proofs are in Proofs.v. *)
From Coq Require Import ZArith List Bool.
Import ListNotations.
Local Open Scope Z_scope.

Definition fee_rate_parts : Z := 1000000.
Definition max_fee_rate : Z := 10000000.
(* sphinx.MaxRoutingPayloadSize *)
Definition max_payload : Z := 1300.
(* lnwire.MaxMilliSatoshi = math.MaxUint64 *)
Definition max_msat : Z := 18446744073709551615.
(* math.MinInt64 *)
Definition min_int64 : Z := -9223372036854775808.

(* One directed channel policy: what node [e_from] announced for channel
   [e_chan] towards [e_to], the channel capacity, and the INBOUND fee that
   the receiving node [e_to] charges on this channel. *)
Record edge := mkEdge {
  e_chan : Z;
  e_from : Z;
  e_to : Z;
  e_disabled : bool;
  e_min : Z;          (* MinHTLC msat *)
  e_max : Z;          (* MaxHTLC msat, meaningful iff e_hasmax *)
  e_hasmax : bool;
  e_base : Z;         (* FeeBaseMSat *)
  e_rate : Z;         (* FeeProportionalMillionths *)
  e_delta : Z;        (* TimeLockDelta *)
  e_ibase : Z;        (* inbound fee base (int32) of e_to on this channel *)
  e_irate : Z;        (* inbound fee rate (int32) *)
  e_cap : Z           (* capacity in SATOSHI, 0 = unknown *)
}.

Definition graph := list edge.

Record hop := mkHop {
  h_chan : Z;         (* Hop.ChannelID: channel the htlc ARRIVES on *)
  h_to : Z;           (* Hop.PubKeyBytes *)
  h_amt : Z;          (* Hop.AmtToForward *)
  h_tl : Z            (* Hop.OutgoingTimeLock *)
}.

Record route := mkRoute {
  r_src : Z;          (* SourcePubKey *)
  r_amt : Z;          (* TotalAmount *)
  r_tl : Z;           (* TotalTimeLock *)
  r_hops : list hop
}.

Record env := mkEnv {
  self : Z;                 (* the node whose local channels use bandwidth hints *)
  height : Z;               (* currentHeight *)
  final_delta : Z;          (* finalHop.cltvDelta; finalHtlcExpiry = height + final_delta *)
  hints : list (Z * Z)      (* bandwidth hints: channel id -> msat *)
}.

Record restr := mkRestr {
  fee_limit : Z;
  cltv_limit : Z;           (* excludes the final cltv delta *)
  out_chans : list Z;       (* OutgoingChannelIDs, [] = unrestricted *)
  last_hop : option Z;
  ign_nodes : list Z;       (* probability source answers 0 for these from-nodes *)
  ign_pairs : list (Z * Z)  (* … and for these directed pairs *)
}.

(* ---------- fees ---------- *)

(* c.FeeBaseMSat + (amt*c.FeeProportionalMillionths)/feeRateParts *)
Definition compute_fee (e : edge) (amt : Z) : Z :=
  e_base e + (amt * e_rate e) / fee_rate_parts.

Definition clamp_rate (r : Z) : Z :=
  if r >? max_fee_rate then max_fee_rate
  else if r <? - max_fee_rate then - max_fee_rate
  else r.

(* fee := Base; fee += clamp(Rate) * int64(amt) / feeRateParts  (truncating) *)
Definition inbound_fee (e : edge) (amt : Z) : Z :=
  e_ibase e + Z.quot (clamp_rate (e_irate e) * amt) fee_rate_parts.

(* Fee the node between [ein] and [eout] keeps when it forwards [fwd] over
   [eout]: outbound fee on the forwarded amount plus inbound fee on
   (forwarded + outbound fee), floored at zero per node
   (newRoute, pathfind.go:274-284). *)
Definition node_fee (ein eout : edge) (fwd : Z) : Z :=
  let o := compute_fee eout fwd in
  Z.max 0 (o + inbound_fee ein (fwd + o)).

(* ---------- newRoute ---------- *)

(* Backward pass over the path edges (forward order, source first).
   Returns (hops, amount that flows over the first edge, time lock of the
   htlc on the first edge). *)
Fixpoint new_route_aux (amt tl0 : Z) (es : list edge) : list hop * Z * Z :=
  match es with
  | [] => ([], amt, tl0)
  | e :: rest =>
    match rest with
    | [] => ([mkHop (e_chan e) (e_to e) amt tl0], amt, tl0)
    | e' :: _ =>
      let '(hops, next_in, tl) := new_route_aux amt tl0 rest in
      (mkHop (e_chan e) (e_to e) next_in tl :: hops,
       next_in + node_fee e e' next_in,
       tl + e_delta e')
    end
  end.

Definition new_route (en : env) (src amt : Z) (es : list edge) : route :=
  let '(hops, total, tl) := new_route_aux amt (height en + final_delta en) es in
  mkRoute src total tl hops.

(* ---------- Route.HopFee / TotalFees / ReceiverAmt ---------- *)

Definition receiver_amt (r : route) : Z :=
  match r_hops r with
  | [] => 0
  | _ => h_amt (last (r_hops r) (mkHop 0 0 0 0))
  end.

Definition total_fees (r : route) : Z :=
  match r_hops r with
  | [] => 0
  | _ => r_amt r - receiver_amt r
  end.

(* HopFee for one hop given the incoming amount (uint64 subtraction is exact
   whenever incoming >= outgoing, which the checker establishes). *)
Definition hop_fee_of (recv incoming outgoing : Z) : Z :=
  if negb (incoming =? 0) && negb (outgoing =? 0) then incoming - outgoing
  else if incoming =? 0 then 0
  else incoming - recv.

Fixpoint hop_fees_aux (recv incoming : Z) (hs : list hop) : list Z :=
  match hs with
  | [] => []
  | h :: r => hop_fee_of recv incoming (h_amt h) :: hop_fees_aux recv (h_amt h) r
  end.

Definition hop_fees (r : route) : list Z :=
  hop_fees_aux (receiver_amt r) (r_amt r) (r_hops r).

Definition zsum (l : list Z) : Z := fold_right Z.add 0 l.

(* ---------- the checker ---------- *)

Definition mem (x : Z) (l : list Z) : bool := existsb (Z.eqb x) l.
Definition mem2 (x y : Z) (l : list (Z * Z)) : bool :=
  existsb (fun p => (fst p =? x) && (snd p =? y)) l.

Fixpoint lookup (k : Z) (l : list (Z * Z)) : option Z :=
  match l with
  | [] => None
  | (k', v) :: r => if k' =? k then Some v else lookup k r
  end.

Definition edge_is (chan from to : Z) (e : edge) : bool :=
  (e_chan e =? chan) && (e_from e =? from) && (e_to e =? to).

Definition find_edge (g : graph) (chan from to : Z) : option edge :=
  find (edge_is chan from to) g.

(* connectedness: every hop names an existing directed policy leaving the
   node the previous hop arrived at *)
Fixpoint resolve (g : graph) (prev : Z) (hs : list hop) : option (list edge) :=
  match hs with
  | [] => Some []
  | h :: r =>
    match find_edge g (h_chan h) prev (h_to h) with
    | None => None
    | Some e =>
      match resolve g (h_to h) r with
      | None => None
      | Some es => Some (e :: es)
      end
    end
  end.

(* unifiedEdge.amtInRange *)
Definition in_range (e : edge) (a : Z) : bool :=
  negb ((0 <? e_cap e) && (e_cap e * 1000 <? a)) &&
  negb (e_hasmax e && (e_max e <? a)) &&
  negb (a <? e_min e).

Definition bw_ok (en : env) (e : edge) (a : Z) : bool :=
  match lookup (e_chan e) (hints en) with
  | None => true
  | Some bw => a <=? bw
  end.

Definition out_chan_ok (rs : restr) (e : edge) : bool :=
  match out_chans rs with
  | [] => true
  | l => mem (e_chan e) l
  end.

Definition not_ignored (rs : restr) (e : edge) : bool :=
  negb (mem (e_from e) (ign_nodes rs)) && negb (mem2 (e_from e) (e_to e) (ign_pairs rs)).

(* what must hold for channel direction [e] to carry amount [a] *)
Definition edge_ok (en : env) (rs : restr) (e : edge) (a : Z) : bool :=
  in_range e a && not_ignored rs e &&
  (if e_from e =? self en
   then out_chan_ok rs e && bw_ok en e a      (* local channel: hints, disabled flag ignored *)
   else negb (e_disabled e)).

(* [a_in]/[tl_in]: amount and expiry of the htlc that travels over the first
   edge of [es].  The final hop keeps no fee and its payload repeats the
   incoming amount and expiry. *)
Fixpoint hops_ok (en : env) (rs : restr) (a_in tl_in : Z)
         (es : list edge) (hs : list hop) : bool :=
  match es, hs with
  | e :: es', h :: hs' =>
    match es' with
    | [] =>
      match hs' with
      | [] => edge_ok en rs e a_in && (h_amt h =? a_in) && (h_tl h =? tl_in)
      | _ => false
      end
    | e' :: _ =>
      edge_ok en rs e a_in &&
      (node_fee e e' (h_amt h) <=? a_in - h_amt h) &&
      (e_delta e' <=? tl_in - h_tl h) &&
      hops_ok en rs (h_amt h) (h_tl h) es' hs'
    end
  | _, _ => false
  end.

Definition last_to (src : Z) (hs : list hop) : Z :=
  h_to (last hs (mkHop 0 src 0 0)).

Definition last_tl (hs : list hop) : Z := h_tl (last hs (mkHop 0 0 0 0)).

Definition last_hop_ok (rs : restr) (es : list edge) : bool :=
  match last_hop rs with
  | None => true
  | Some n =>
    match es with
    | [] => false
    | _ => e_from (last es (mkEdge 0 0 0 false 0 0 false 0 0 0 0 0 0)) =? n
    end
  end.

(* [sizes]: onion payload size of every hop as measured on the real route
   (oracle: route.Hop.PayloadSize). *)
Definition route_valid (g : graph) (en : env) (rs : restr) (amt src dst : Z)
           (r : route) (sizes : list Z) : bool :=
  match resolve g src (r_hops r) with
  | None => false
  | Some es =>
    (r_src r =? src) &&
    negb (Nat.eqb (length (r_hops r)) 0) &&
    (last_to src (r_hops r) =? dst) &&
    hops_ok en rs (r_amt r) (r_tl r) es (r_hops r) &&
    (receiver_amt r =? amt) &&
    (last_tl (r_hops r) =? height en + final_delta en) &&
    (r_amt r - amt <=? fee_limit rs) &&
    (r_tl r <=? cltv_limit rs + (height en + final_delta en)) &&
    last_hop_ok rs es &&
    Nat.eqb (length sizes) (length (r_hops r)) &&
    (zsum sizes <=? max_payload)
  end.

(* ---------- edge selection (unified_edges.go) ---------- *)

(* calcCappedInboundFee *)
Definition capped_inbound (e : edge) (amt next_out_fee : Z) : Z :=
  Z.max (inbound_fee e amt) (- next_out_fee).

Record net_acc := mkNetAcc {
  na_best : option edge; na_maxfee : Z; na_maxtl : Z; na_maxcap : Z
}.

Definition net_step (net next_out : Z) (acc : net_acc) (e : edge) : net_acc :=
  let ib := capped_inbound e net next_out in
  let amt := net + ib in
  if negb (in_range e amt) then acc
  else if e_disabled e then acc
  else
    let cap0 := e_cap e * 1000 in
    let capm := if (cap0 =? 0) && e_hasmax e then e_max e else cap0 in
    let maxcap := Z.max capm (na_maxcap acc) in
    let maxtl := Z.max (na_maxtl acc) (e_delta e) in
    let fee := compute_fee e amt + ib in
    if fee <? na_maxfee acc
    then mkNetAcc (na_best acc) (na_maxfee acc) maxtl maxcap
    else mkNetAcc (Some e) fee maxtl maxcap.

Definition set_delta_cap (e : edge) (d c : Z) : edge :=
  mkEdge (e_chan e) (e_from e) (e_to e) (e_disabled e) (e_min e) (e_max e)
         (e_hasmax e) (e_base e) (e_rate e) d (e_ibase e) (e_irate e) c.

(* getEdgeNetwork: the policy with the highest total fee for this amount,
   with the time lock delta replaced by the maximum over all usable parallel
   channels and the capacity by the maximum capacity (msat -> sat). *)
Definition get_edge_network (es : list edge) (net next_out : Z) : option edge :=
  let acc := fold_left (net_step net next_out) es (mkNetAcc None min_int64 0 0) in
  match na_best acc with
  | None => None
  | Some e => Some (set_delta_cap e (na_maxtl acc) (na_maxcap acc / 1000))
  end.

Definition local_step (en : env) (net next_out : Z)
           (acc : option edge * Z) (e : edge) : option edge * Z :=
  let ib := capped_inbound e net next_out in
  let amt := net + ib in
  if negb (in_range e amt) then acc
  else
    let bw := match lookup (e_chan e) (hints en) with
              | Some b => b | None => max_msat end in
    if bw <? amt then acc
    else if bw <? snd acc then acc
    else (Some e, bw).

(* getEdgeLocal: usable local channel with the highest bandwidth *)
Definition get_edge_local (en : env) (es : list edge) (net next_out : Z) : option edge :=
  fst (fold_left (local_step en net next_out) es (None, 0)).

Definition get_edge (en : env) (local : bool) (es : list edge) (net next_out : Z)
  : option edge :=
  if local then get_edge_local en es net next_out
  else get_edge_network es net next_out.

(* ---------- one relaxation of findPath (processEdge) ---------- *)

(* nodeWithDist without the float parts (dist, probability, weight) *)
Record entry := mkEntry {
  n_node : Z;
  n_net : Z;        (* netAmountReceived *)
  n_outfee : Z;     (* outboundFee *)
  n_cltv : Z;       (* incomingCltv *)
  n_size : Z        (* routingInfoSize *)
}.

Definition target_entry (en : env) (dst amt last_size : Z) : entry :=
  mkEntry dst amt 0 (height en + final_delta en) last_size.

(* [payload] is the answer of edge.hopPayloadSizeFn (oracle).  None = the
   candidate is dropped.  The probability source is represented by the
   ignore sets only (probability 0); every other probability-based pruning
   can only drop more candidates. *)
Definition relax (en : env) (rs : restr) (amt src : Z) (e : edge) (to : entry)
           (payload : Z) : option entry :=
  let from := e_from e in
  let ib := Z.max (inbound_fee e (n_net to)) (- n_outfee to) in
  let send := n_net to + ib in
  let total_fee := send - amt in
  if (0 <? total_fee) && (fee_limit rs <? total_fee) then None
  else if negb (not_ignored rs e) then None
  else
    let ofee := if from =? src then 0 else compute_fee e send in
    let tld := if from =? src then 0 else e_delta e in
    let cltv := n_cltv to + tld in
    if cltv_limit rs + (height en + final_delta en) <? cltv then None
    else
      let size := n_size to + (if from =? src then 0 else payload) in
      if max_payload <? size then None
      else Some (mkEntry from (send + ofee) ofee cltv size).

(* the unifier zeroes the inbound fee of edges into the exit hop *)
Definition zero_inbound (e : edge) : edge :=
  mkEdge (e_chan e) (e_from e) (e_to e) (e_disabled e) (e_min e) (e_max e)
         (e_hasmax e) (e_base e) (e_rate e) (e_delta e) 0 0 (e_cap e).

(* Replay of the relaxations along a path (forward order); [sizes] are the
   per-hop payload sizes in forward order (sizes of the hops the edges LEAD
   TO, i.e. the payload of the node e_to), so the payload of node e_from of
   edge i is the (i-1)-th size. *)
Fixpoint replay (en : env) (rs : restr) (amt src dst last_size : Z)
         (es : list edge) (psizes : list Z) : option entry :=
  match es with
  | [] => Some (target_entry en dst amt last_size)
  | e :: rest =>
    match replay en rs amt src dst last_size rest (tl psizes) with
    | None => None
    | Some to => relax en rs amt src e to (hd 0 psizes)
    end
  end.
