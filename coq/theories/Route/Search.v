(* C19 — the search side: edge selection (getEdgeLocal / getEdgeNetwork) only
   hands out usable channels, and every entry that relaxations (processEdge)
   build describes a suffix path that the checker accepts for the amounts
   newRoute will later recompute along that path. *)
From Coq Require Import ZArith List Bool Lia.
From LV Require Import Route.Model Route.Proofs.
Import ListNotations.
Local Open Scope Z_scope.

(* ================= edge selection ================= *)

(* [syn o e]: unified edge [e] is graph policy [o] with a time lock delta that
   is at least the channel's own (and an arbitrary capacity / inbound fee:
   capacity is only used for probabilities, the inbound fee is zeroed for the
   exit hop). *)
Record syn (o e : edge) : Prop := mkSyn {
  syn_chan : e_chan e = e_chan o;
  syn_from : e_from e = e_from o;
  syn_to : e_to e = e_to o;
  syn_base : e_base e = e_base o;
  syn_rate : e_rate e = e_rate o;
  syn_delta : e_delta o <= e_delta e
}.

Definition inb_same (o e : edge) : Prop :=
  e_ibase e = e_ibase o /\ e_irate e = e_irate o.

Lemma syn_set_delta_cap o d c : e_delta o <= d -> syn o (set_delta_cap o d c).
Proof. intros H. constructor; cbn; auto. Qed.

Lemma syn_refl o : syn o o.
Proof. constructor; auto; lia. Qed.

Lemma syn_zero_inbound o e : syn o e -> syn o (zero_inbound e).
Proof. intros []. constructor; cbn; auto. Qed.

Definition usable_net (net nout : Z) (e : edge) : bool :=
  in_range e (net + capped_inbound e net nout) && negb (e_disabled e).

Record net_inv (net nout : Z) (l : list edge) (acc : net_acc) : Prop := mkNetInv {
  ni_best : forall e, na_best acc = Some e ->
            In e l /\ usable_net net nout e = true /\ e_delta e <= na_maxtl acc;
  ni_all : forall e, In e l -> usable_net net nout e = true -> e_delta e <= na_maxtl acc
}.

Lemma net_step_inv net nout l acc e :
  net_inv net nout l acc -> net_inv net nout (l ++ [e]) (net_step net nout acc e).
Proof.
  intros [Hb Ha]. unfold net_step.
  destruct (in_range e (net + capped_inbound e net nout)) eqn:Er; cbn [negb].
  2:{ constructor.
      - intros x Hx. destruct (Hb x Hx) as (H1 & H2 & H3). repeat split; auto.
        apply in_or_app. left. exact H1.
      - intros x Hx Hu. apply in_app_or in Hx. destruct Hx as [Hx|[Hx|[]]]; [auto|].
        subst x. unfold usable_net in Hu. rewrite Er in Hu. discriminate. }
  destruct (e_disabled e) eqn:Ed.
  { constructor.
    - intros x Hx. destruct (Hb x Hx) as (H1 & H2 & H3). repeat split; auto.
      apply in_or_app. left. exact H1.
    - intros x Hx Hu. apply in_app_or in Hx. destruct Hx as [Hx|[Hx|[]]]; [auto|].
      subst x. unfold usable_net in Hu. rewrite Ed in Hu.
      rewrite andb_false_r in Hu. discriminate. }
  assert (Hue : usable_net net nout e = true).
  { unfold usable_net. rewrite Er, Ed. reflexivity. }
  match goal with |- context [if ?c then _ else _] => destruct c end.
  - constructor; cbn [na_best na_maxtl].
    + intros x Hx. destruct (Hb x Hx) as (H1 & H2 & H3). repeat split; auto; [|lia].
      apply in_or_app. left. exact H1.
    + intros x Hx Hu. apply in_app_or in Hx. destruct Hx as [Hx|[Hx|[]]].
      * specialize (Ha x Hx Hu). lia.
      * subst x. lia.
  - constructor; cbn [na_best na_maxtl].
    + intros x Hx. inversion Hx; subst x. repeat split; auto; [|lia].
      apply in_or_app. right. left. reflexivity.
    + intros x Hx Hu. apply in_app_or in Hx. destruct Hx as [Hx|[Hx|[]]].
      * specialize (Ha x Hx Hu). lia.
      * subst x. lia.
Qed.

Lemma net_fold_inv net nout es : forall l acc,
  net_inv net nout l acc ->
  net_inv net nout (l ++ es) (fold_left (net_step net nout) es acc).
Proof.
  induction es as [|e es IH]; intros l acc H; cbn [fold_left].
  - rewrite app_nil_r. exact H.
  - replace (l ++ e :: es) with ((l ++ [e]) ++ es) by (rewrite <- app_assoc; reflexivity).
    apply IH. apply net_step_inv. exact H.
Qed.

Lemma get_edge_network_sound es net nout e :
  get_edge_network es net nout = Some e ->
  exists o, In o es /\ e = set_delta_cap o (e_delta e) (e_cap e) /\
            e_delta o <= e_delta e /\
            in_range o (net + capped_inbound o net nout) = true /\
            e_disabled o = false /\
            (forall x, In x es -> usable_net net nout x = true -> e_delta x <= e_delta e).
Proof.
  unfold get_edge_network. intros H.
  assert (Hinv : net_inv net nout ([] ++ es)
                   (fold_left (net_step net nout) es (mkNetAcc None min_int64 0 0))).
  { apply net_fold_inv. constructor; cbn; [discriminate | contradiction]. }
  cbn [app] in Hinv.
  set (acc := fold_left (net_step net nout) es (mkNetAcc None min_int64 0 0)) in *.
  destruct (na_best acc) as [o|] eqn:Eb; [|discriminate].
  inversion H; subst e. clear H. destruct Hinv as [Hb Ha].
  destruct (Hb o Eb) as (Hin & Hu & Hd). unfold usable_net in Hu.
  apply andb_prop in Hu. destruct Hu as [Hr Hdis]. apply negb_true_iff in Hdis.
  exists o. cbn [set_delta_cap e_delta e_cap]. repeat split; auto.
Qed.

Definition bw_of (en : env) (e : edge) : Z :=
  match lookup (e_chan e) (hints en) with Some b => b | None => max_msat end.

Definition usable_local (en : env) (net nout : Z) (e : edge) : bool :=
  in_range e (net + capped_inbound e net nout) &&
  (net + capped_inbound e net nout <=? bw_of en e).

Lemma local_fold_inv en net nout es : forall l acc,
  (forall e, fst acc = Some e -> In e l /\ usable_local en net nout e = true) ->
  forall e, fst (fold_left (local_step en net nout) es acc) = Some e ->
            In e (l ++ es) /\ usable_local en net nout e = true.
Proof.
  induction es as [|x es IH]; intros l acc H e He; cbn [fold_left] in He.
  - rewrite app_nil_r. auto.
  - replace (l ++ x :: es) with ((l ++ [x]) ++ es) by (rewrite <- app_assoc; reflexivity).
    eapply IH; [|exact He]. clear He e. intros e He.
    unfold local_step in He. fold (bw_of en x) in He.
    destruct (in_range x (net + capped_inbound x net nout)) eqn:Er; cbn [negb] in He.
    2:{ destruct (H e He). split; auto. apply in_or_app; auto. }
    destruct (bw_of en x <? net + capped_inbound x net nout) eqn:E1.
    { destruct (H e He). split; auto. apply in_or_app; auto. }
    destruct (bw_of en x <? snd acc) eqn:E2.
    { destruct (H e He). split; auto. apply in_or_app; auto. }
    cbn [fst] in He. inversion He; subst e. split.
    + apply in_or_app. right. left. reflexivity.
    + unfold usable_local. rewrite Er. apply Z.ltb_ge in E1. apply Z.leb_le in E1.
      rewrite E1. reflexivity.
Qed.

Lemma get_edge_local_sound en es net nout e :
  get_edge_local en es net nout = Some e ->
  In e es /\ in_range e (net + capped_inbound e net nout) = true /\
  bw_ok en e (net + capped_inbound e net nout) = true.
Proof.
  unfold get_edge_local. intros H.
  destruct (local_fold_inv en net nout es [] (None, 0)
              ltac:(cbn; intros; discriminate) e H) as [Hin Hu].
  cbn [app] in Hin. unfold usable_local in Hu. apply andb_prop in Hu. destruct Hu as [Hr Hb].
  repeat split; auto. unfold bw_ok. unfold bw_of in Hb.
  destruct (lookup (e_chan e) (hints en)); [exact Hb | reflexivity].
Qed.

(* Whatever getEdge returns is one of the offered policies [o] (possibly with
   a larger time lock delta), and [o] can carry the amount that will be sent
   over it: in range, enabled (network) / within bandwidth (local). *)
Lemma get_edge_sound en local es net nout e :
  get_edge en local es net nout = Some e ->
  exists o, In o es /\ syn o e /\ inb_same o e /\
    let a := net + capped_inbound o net nout in
    in_range o a = true /\
    (local = true -> bw_ok en o a = true) /\
    (local = false -> e_disabled o = false /\
       forall x, In x es -> usable_net net nout x = true -> e_delta x <= e_delta e).
Proof.
  unfold get_edge. destruct local; intros H.
  - apply get_edge_local_sound in H. destruct H as (Hin & Hr & Hb).
    exists e. split; [exact Hin|]. split; [apply syn_refl|]. split; [split; reflexivity|].
    cbv zeta. split; [exact Hr|]. split; [intros _; exact Hb | discriminate].
  - apply get_edge_network_sound in H. destruct H as (o & Hin & He & Hd & Hr & Hdis & Hall).
    exists o. split; [exact Hin|]. split; [rewrite He; apply syn_set_delta_cap; exact Hd|].
    split; [rewrite He; split; reflexivity|].
    cbv zeta. split; [exact Hr|]. split; [discriminate|]. intros _. split; [exact Hdis | exact Hall].
Qed.

(* ================= relaxation invariant ================= *)

Section Search.
  Variables (en : env) (rs : restr) (amt src dst last_size : Z).
  Let tl0 := height en + final_delta en.

  (* [inv n es os szs]: entry [n] was built by relaxing along the unified
     edges [es] (forward order, first edge leaves n_node n); [os] are the
     graph policies behind them; [szs] the payload sizes of the hops. *)
  Record inv (n : entry) (es os : list edge) (szs : list Z) : Prop := mkInv {
    i_ne : es <> [];
    i_syn : Forall2 syn os es;
    i_from : e_from (hd (zero_inbound (mkEdge 0 0 0 false 0 0 false 0 0 0 0 0 0)) es) = n_node n;
    i_dst : e_to (last es (mkEdge 0 0 0 false 0 0 false 0 0 0 0 0 0)) = dst;
    (* the checker accepts the suffix for the amounts newRoute recomputes *)
    i_ok : hops_ok en rs (snd3 (new_route_aux amt tl0 es)) (thd3 (new_route_aux amt tl0 es))
                   os (fst3 (new_route_aux amt tl0 es)) = true;
    i_outfee : n_outfee n =
               if n_node n =? src then 0
               else compute_fee (hd (mkEdge 0 0 0 false 0 0 false 0 0 0 0 0 0) es)
                                (snd3 (new_route_aux amt tl0 es));
    i_net : n_net n = snd3 (new_route_aux amt tl0 es) + n_outfee n;
    i_cltv : n_cltv n = thd3 (new_route_aux amt tl0 es) +
             (if n_node n =? src then 0
              else e_delta (hd (mkEdge 0 0 0 false 0 0 false 0 0 0 0 0 0) es));
    i_fee_limit : snd3 (new_route_aux amt tl0 es) - amt <= fee_limit rs;
    i_cltv_limit : n_cltv n <= cltv_limit rs + tl0;
    i_last_hop : last_hop_ok rs os = true;
    i_sizes : length szs = length es /\
              exists own, n_size n = zsum szs + own /\ (n_node n = src -> own = 0) /\
                          n_size n <= max_payload
  }.

  Hypothesis fee_limit_nonneg : 0 <= fee_limit rs.

  (* first relaxation: pivot is the target; the unifier zeroed the inbound fee;
     the last-hop restriction was applied by the caller of processEdge *)
  Lemma relax_from_target o e payload n' :
    syn o e ->
    e_to e = dst ->
    edge_ok en rs o amt = true ->
    (forall n, last_hop rs = Some n -> e_from o = n) ->
    relax en rs amt src (zero_inbound e) (target_entry en dst amt last_size) payload = Some n' ->
    inv n' [zero_inbound e] [o] [last_size].
  Proof.
    intros Hsyn Hto Hok Hlast H. unfold relax, target_entry in H.
    cbn [n_net n_outfee n_cltv n_size e_from zero_inbound] in H.
    assert (Eib : inbound_fee (zero_inbound e) amt = 0).
    { unfold inbound_fee, zero_inbound, clamp_rate. cbn. reflexivity. }
    rewrite Eib in H. cbn [Z.opp Z.max Z.compare] in H.
    replace (amt + 0 - amt) with 0 in H by lia. cbn [Z.ltb Z.compare andb] in H.
    destruct (negb (not_ignored rs (zero_inbound e))); [discriminate|].
    match type of H with (if ?c then _ else _) = _ => destruct c eqn:Ec; [discriminate|] end.
    match type of H with (if ?c then _ else _) = _ => destruct c eqn:Es; [discriminate|] end.
    inversion H; subst n'. clear H. apply Z.ltb_ge in Ec. apply Z.ltb_ge in Es.
    fold tl0 in Ec |- *.
    constructor; cbn [n_node n_net n_outfee n_cltv n_size hd last new_route_aux fst3 snd3 thd3 fst snd
                      zero_inbound e_from e_to e_chan e_delta]; rewrite ?Z.add_0_r.
    - discriminate.
    - constructor; [apply syn_zero_inbound; exact Hsyn | constructor].
    - reflexivity.
    - exact Hto.
    - cbn [hops_ok h_amt h_tl]. rewrite Hok, !Z.eqb_refl. reflexivity.
    - reflexivity.
    - lia.
    - destruct (e_from e =? src); cbn; lia.
    - lia.
    - exact Ec.
    - unfold last_hop_ok. destruct (last_hop rs) as [n|] eqn:El; [|reflexivity].
      cbn [last]. apply Z.eqb_eq. apply Hlast. reflexivity.
    - split; [reflexivity|].
      exists (if e_from e =? src then 0 else payload). cbn [zsum fold_right].
      repeat split; [lia | | lia].
      intros E. apply Z.eqb_eq in E. rewrite E. reflexivity.
  Qed.

  (* any later relaxation: pivot [to] is a popped node other than the source *)
  Lemma relax_step to es os szs o e payload n' :
    inv to es os szs ->
    n_node to <> src ->
    syn o e -> inb_same o e ->
    e_to e = n_node to ->
    (* postcondition of getEdge for the amount sent over the channel *)
    edge_ok en rs o (n_net to + Z.max (inbound_fee e (n_net to)) (- n_outfee to)) = true ->
    relax en rs amt src e to payload = Some n' ->
    exists own, inv n' (e :: es) (o :: os) (own :: szs).
  Proof.
    intros Hinv Hnsrc Hsyn Hinb Hto Hok H.
    destruct Hinv as [Hne Hsy Hfrom Hdst Hhok Hof Hnet Hcl Hfl Hcll Hlh [Hlen (own & Hsz & Hown0 & Hszmax)]].
    destruct es as [|e' rest]; [congruence|].
    destruct os as [|o' orest]; [inversion Hsy|].
    assert (Hsyn' : syn o' e') by (inversion Hsy; assumption).
    cbn [hd] in *.
    apply Z.eqb_neq in Hnsrc. rewrite Hnsrc in *.
    unfold relax in H.
    set (send := n_net to + Z.max (inbound_fee e (n_net to)) (- n_outfee to)) in *.
    match type of H with (if ?c then _ else _) = _ => destruct c eqn:Efl; [discriminate|] end.
    destruct (negb (not_ignored rs e)); [discriminate|].
    match type of H with (if ?c then _ else _) = _ => destruct c eqn:Ec; [discriminate|] end.
    match type of H with (if ?c then _ else _) = _ => destruct c eqn:Es; [discriminate|] end.
    inversion H; subst n'. clear H. apply Z.ltb_ge in Ec. apply Z.ltb_ge in Es.
    fold tl0 in Ec.
    (* what newRoute computes for the extended path *)
    pose proof (nr_amt_ge amt tl0 (e' :: rest)) as Hge.
    assert (Enew : new_route_aux amt tl0 (e :: e' :: rest) =
                   (mkHop (e_chan e) (e_to e) (snd3 (new_route_aux amt tl0 (e' :: rest)))
                          (thd3 (new_route_aux amt tl0 (e' :: rest)))
                      :: fst3 (new_route_aux amt tl0 (e' :: rest)),
                    snd3 (new_route_aux amt tl0 (e' :: rest)) +
                      node_fee e e' (snd3 (new_route_aux amt tl0 (e' :: rest))),
                    thd3 (new_route_aux amt tl0 (e' :: rest)) + e_delta e')).
    { rewrite new_route_aux_cons.
      destruct (new_route_aux amt tl0 (e' :: rest)) as [[hops0 ni0] t0]. reflexivity. }
    set (hops := fst3 (new_route_aux amt tl0 (e' :: rest))) in *.
    set (ni := snd3 (new_route_aux amt tl0 (e' :: rest))) in *.
    set (t1 := thd3 (new_route_aux amt tl0 (e' :: rest))) in *.
    assert (Esend : send = ni + node_fee e e' ni).
    { unfold send, node_fee. rewrite Hnet, Hof. lia. }
    exists own.
    constructor; rewrite ?Enew;
      cbn [n_node n_net n_outfee n_cltv n_size hd last fst3 snd3 thd3 fst snd].
    - discriminate.
    - constructor; assumption.
    - reflexivity.
    - exact Hdst.
    - cbn [hops_ok h_amt h_tl]. rewrite <- Esend. rewrite Hok. cbn [andb].
      assert (Enf : node_fee o o' ni = node_fee e e' ni).
      { destruct Hsyn, Hsyn', Hinb as [Hi1 Hi2]. unfold node_fee, compute_fee, inbound_fee.
        rewrite syn_base1, syn_rate1, Hi1, Hi2. reflexivity. }
      rewrite Enf.
      replace (send - ni) with (node_fee e e' ni) by lia.
      replace (t1 + e_delta e' - t1) with (e_delta e') by lia.
      rewrite Z.leb_refl. cbn [andb].
      destruct Hsyn' as [_ _ _ _ _ Hd']. apply Z.leb_le in Hd'. rewrite Hd'. cbn [andb].
      exact Hhok.
    - rewrite <- Esend. reflexivity.
    - rewrite <- Esend. reflexivity.
    - rewrite Hcl. destruct (e_from e =? src); lia.
    - rewrite <- Esend.
      apply andb_false_iff in Efl. destruct Efl as [Efl|Efl].
      + apply Z.ltb_ge in Efl. fold send in Efl. lia.
      + apply Z.ltb_ge in Efl. fold send in Efl. lia.
    - exact Ec.
    - unfold last_hop_ok in *. destruct (last_hop rs); [|reflexivity].
      change (last (o :: o' :: orest) (mkEdge 0 0 0 false 0 0 false 0 0 0 0 0 0))
        with (last (o' :: orest) (mkEdge 0 0 0 false 0 0 false 0 0 0 0 0 0)).
      exact Hlh.
    - split; [cbn [length] in *; congruence|].
      exists (if e_from e =? src then 0 else payload). rewrite zsum_cons.
      repeat split; [lia | | lia].
      intros E. apply Z.eqb_eq in E. rewrite E. reflexivity.
  Qed.

  (* When the entry is the source's, the route newRoute builds from the chain
     passes the checker, provided the graph lookup of each hop finds the policy
     the search used (channel ids are unique per direction). *)
  Lemma search_sound g n es os szs :
    inv n es os szs ->
    n_node n = src ->
    resolve g src (r_hops (new_route en src amt es)) = Some os ->
    0 < amt ->
    route_valid g en rs amt src dst (new_route en src amt es) szs = true.
  Proof.
    intros Hinv Hsrc Hres Hamt.
    destruct Hinv as [Hne Hsy Hfrom Hdst Hhok Hof Hnet Hcl Hfl Hcll Hlh [Hlen (own & Hsz & Hown0 & Hszmax)]].
    pose proof (newroute_consistent en src amt es Hne Hamt) as Hc. cbv zeta in Hc.
    destruct Hc as (Hs & Hl & Hrecv & Hltl & Hlto & _ & _ & _ & _).
    rewrite new_route_fields in Hres, Hs, Hl, Hrecv, Hltl, Hlto |- *. cbv zeta in Hres, Hs, Hl, Hrecv, Hltl, Hlto |- *.
    fold tl0 in Hres, Hs, Hl, Hrecv, Hltl, Hlto |- *.
    set (x := new_route_aux amt tl0 es) in *.
    set (r := mkRoute src (snd3 x) (thd3 x) (fst3 x)) in *.
    unfold route_valid. rewrite Hres.
    change (r_src r) with src. change (r_amt r) with (snd3 x).
    change (r_tl r) with (thd3 x). change (r_hops r) with (fst3 x) in *.
    apply Z.eqb_eq in Hsrc.
    repeat (apply andb_true_intro; split).
    - apply Z.eqb_refl.
    - rewrite Hl. destruct es; [congruence | reflexivity].
    - apply Z.eqb_eq. rewrite Hlto. exact Hdst.
    - exact Hhok.
    - apply Z.eqb_eq. exact Hrecv.
    - apply Z.eqb_eq. exact Hltl.
    - apply Z.leb_le. exact Hfl.
    - apply Z.leb_le. rewrite Hsrc in Hcl. lia.
    - exact Hlh.
    - apply Nat.eqb_eq. congruence.
    - apply Z.leb_le. apply Z.eqb_eq in Hsrc. specialize (Hown0 Hsrc). lia.
  Qed.
End Search.
