(* C12 — lemmas about the arbitrator decision model. *)
From Coq Require Import List NArith ZArith Bool Lia.
From LV Require Import Arb.ActionsModel.
Import ListNotations.
Local Open Scope N_scope.

(* ------------------------------------------------------------------ *)
(* counting                                                            *)

Fixpoint cnt (x : N) (l : list N) : nat :=
  match l with
  | [] => O
  | y :: r => ((if N.eqb y x then 1 else 0) + cnt x r)%nat
  end.

Lemma cnt_app x a b : cnt x (a ++ b) = (cnt x a + cnt x b)%nat.
Proof. induction a as [|y a IH]; cbn [cnt app]; [reflexivity|]. rewrite IH. lia. Qed.

Lemma cnt_zero_iff x l : cnt x l = O <-> ~ In x l.
Proof.
  induction l as [|y l IH]; cbn [cnt In]; [tauto|].
  destruct (N.eqb_spec y x) as [->|ne].
  - split; [discriminate| intros H; exfalso; apply H; now left].
  - cbn. rewrite IH. split; [intros H [E|I]; [congruence|tauto] | tauto].
Qed.

Lemma existsb_eqb_in x l : existsb (N.eqb x) l = true <-> In x l.
Proof.
  rewrite existsb_exists. split.
  - intros (y & I & E). apply N.eqb_eq in E. now subst.
  - intros I. exists x. split; [assumption| apply N.eqb_refl].
Qed.

Lemma nodup_n_in x l : In x (nodup_n l) <-> In x l.
Proof.
  induction l as [|y l IH]; cbn [nodup_n In]; [tauto|].
  destruct (existsb (N.eqb y) l) eqn:E.
  - rewrite IH. apply existsb_eqb_in in E. split; [tauto|]. intros [->|I]; assumption.
  - cbn [In]. rewrite IH. tauto.
Qed.

Lemma cnt_nodup_le x l : (cnt x (nodup_n l) <= 1)%nat.
Proof.
  induction l as [|y l IH]; cbn [nodup_n cnt]; [lia|].
  destruct (existsb (N.eqb y) l) eqn:E; [assumption|].
  cbn [cnt]. destruct (N.eqb_spec y x) as [->|ne]; [|lia].
  assert (Z0 : cnt x (nodup_n l) = O).
  { apply cnt_zero_iff. rewrite nodup_n_in. intros I.
    apply existsb_eqb_in in I. congruence. }
  lia.
Qed.

Lemma cnt_nodup_in x l : In x l -> cnt x (nodup_n l) = 1%nat.
Proof.
  intros I. pose proof (cnt_nodup_le x l) as LE.
  destruct (cnt x (nodup_n l)) as [|n] eqn:E; [|lia].
  apply cnt_zero_iff in E. rewrite nodup_n_in in E. tauto.
Qed.

Lemma cnt_nodup_notin x l : ~ In x l -> cnt x (nodup_n l) = O.
Proof. intros NI. apply cnt_zero_iff. now rewrite nodup_n_in. Qed.

(* ------------------------------------------------------------------ *)
(* lists of HTLCs                                                      *)

Lemma in_outs h l : In h (outs l) <-> In h l /\ h_incoming h = false.
Proof. unfold outs. rewrite filter_In. now rewrite negb_true_iff. Qed.

Lemma in_ins h l : In h (ins l) <-> In h l /\ h_incoming h = true.
Proof. unfold ins. now rewrite filter_In. Qed.

Lemma in_idxs x l : In x (idxs l) <-> exists h, In h l /\ h_idx h = x.
Proof.
  unfold idxs. rewrite in_map_iff. split; intros (h & A & B); exists h; tauto.
Qed.

Lemma mem_idx_true i l : mem_idx i l = true <-> In i (idxs l).
Proof.
  unfold mem_idx. rewrite existsb_exists, in_idxs.
  split; intros (h & I & E); exists h; (split; [assumption|]);
    [now apply N.eqb_eq | now apply N.eqb_eq].
Qed.

Lemma mem_idx_false i l : mem_idx i l = false <-> ~ In i (idxs l).
Proof. rewrite <- mem_idx_true. destruct (mem_idx i l); split; congruence. Qed.

Lemma nodup_idx_inj l a b :
  NoDup (idxs l) -> In a l -> In b l -> h_idx a = h_idx b -> a = b.
Proof.
  induction l as [|x l IH]; cbn [idxs map In]; [tauto|].
  intros ND [->|Ia] [->|Ib] E; inversion ND as [|? ? NI ND']; subst.
  - reflexivity.
  - exfalso. apply NI. apply in_map_iff. exists b. split; [congruence|assumption].
  - exfalso. apply NI. apply in_map_iff. exists a. split; [congruence|assumption].
  - now apply IH.
Qed.

Lemma nodup_idxs_filter P l : NoDup (idxs l) -> NoDup (idxs (filter P l)).
Proof.
  induction l as [|x l IH]; cbn [idxs map filter]; [constructor|].
  intros ND. inversion ND as [|? ? NI ND']; subst.
  destruct (P x); cbn [map]; [|now apply IH].
  constructor; [|now apply IH].
  intros I. apply NI. apply in_map_iff in I as (h & E & I).
  apply filter_In in I as [I _]. apply in_map_iff. now exists h.
Qed.

(* idx membership in a filtered list, when indexes are unique *)
Lemma in_idxs_filter_uniq P l h :
  NoDup (idxs l) -> In h l ->
  (In (h_idx h) (idxs (filter P l)) <-> P h = true).
Proof.
  intros ND I. rewrite in_idxs. split.
  - intros (h' & I' & E). apply filter_In in I' as [I' Ph'].
    assert (h' = h) by (eapply nodup_idx_inj; eassumption). now subst.
  - intros Ph. exists h. split; [|reflexivity]. apply filter_In. tauto.
Qed.

Lemma in_idxs_filter P l x :
  In x (idxs (filter P l)) <-> exists h, In h l /\ P h = true /\ h_idx h = x.
Proof.
  rewrite in_idxs. split.
  - intros (h & I & E). apply filter_In in I. exists h. tauto.
  - intros (h & I & Ph & E). exists h. split; [apply filter_In; tauto|assumption].
Qed.

Lemma in_idxs_app x a b : In x (idxs (a ++ b)) <-> In x (idxs a) \/ In x (idxs b).
Proof. unfold idxs. rewrite map_app. apply in_app_iff. Qed.

(* dedup_idx *)
Lemma dedup_in seen l h : In h (dedup_idx seen l) -> In h l /\ ~ In (h_idx h) seen.
Proof.
  revert seen. induction l as [|x l IH]; intros seen; cbn [dedup_idx In]; [tauto|].
  destruct (existsb (N.eqb (h_idx x)) seen) eqn:E.
  - intros I. apply IH in I. tauto.
  - intros [->|I].
    + split; [now left|]. intros I. apply existsb_eqb_in in I. congruence.
    + apply IH in I as [I NI]. split; [now right|]. intros I'. apply NI. now right.
Qed.

Lemma dedup_nodup seen l : NoDup (idxs (dedup_idx seen l)).
Proof.
  revert seen. induction l as [|x l IH]; intros seen; cbn [dedup_idx idxs map]; [constructor|].
  destruct (existsb (N.eqb (h_idx x)) seen) eqn:E; [apply IH|].
  cbn [map]. constructor; [|apply IH].
  intros I. apply in_map_iff in I as (h & Eh & I). apply dedup_in in I as [_ NI].
  apply NI. left. congruence.
Qed.

Lemma dedup_covers seen l x :
  In x (idxs l) -> ~ In x seen -> In x (idxs (dedup_idx seen l)).
Proof.
  revert seen. induction l as [|y l IH]; intros seen; cbn [dedup_idx idxs map In]; [tauto|].
  intros [E|I] NS.
  - destruct (existsb (N.eqb (h_idx y)) seen) eqn:Ex.
    + apply existsb_eqb_in in Ex. subst. tauto.
    + cbn [map In]. now left.
  - destruct (existsb (N.eqb (h_idx y)) seen) eqn:Ex.
    + now apply IH.
    + cbn [map In]. destruct (N.eq_dec (h_idx y) x) as [->|ne]; [now left|right].
      apply IH; [assumption|]. intros [E|I']; [congruence|tauto].
Qed.

Lemma merged_in c h :
  In h (remote_merged c) -> In h (outs (c_remote c)) \/ In h (outs (c_pending c)).
Proof. unfold remote_merged. intros I. apply dedup_in in I as [I _]. now apply in_app_iff. Qed.

Lemma merged_nodup c : NoDup (idxs (remote_merged c)).
Proof. apply dedup_nodup. Qed.

Lemma merged_covers c x :
  In x (idxs (outs (c_remote c) ++ outs (c_pending c))) -> In x (idxs (remote_merged c)).
Proof. intros I. apply dedup_covers; [assumption| intros []]. Qed.

(* ------------------------------------------------------------------ *)
(* the classifiers with a non-chain trigger                            *)

Definition go_out (e : env) (height : N) (h : htlc) : bool :=
  should_go e h (e_out_delta e) height.

Definition full_commit (e : env) (height : N) (l : list htlc) : actions :=
  mkActs (filter (fun h => negb (h_dust h) && go_out e height h) (outs l)) []
         (filter h_dust (outs l))
         (filter (fun h => negb (h_dust h) && negb (go_out e height h)) (outs l))
         (filter (fun h => negb (h_dust h)) (ins l))
         (filter h_dust (ins l)) [].

Lemma check_commit_nochain e height t l :
  is_chain t = false -> check_commit e height t l = full_commit e height l.
Proof. intros H. unfold check_commit. rewrite H, andb_false_r. reflexivity. Qed.

Lemma check_commit_have e height t l :
  have_chain_actions e height l = true -> check_commit e height t l = full_commit e height l.
Proof. intros H. unfold check_commit. rewrite H. reflexivity. Qed.

Lemma check_commit_idle e height l :
  have_chain_actions e height l = false -> check_commit e height TChain l = no_actions.
Proof. intros H. unfold check_commit. rewrite H. reflexivity. Qed.

(* candidates of the two "diff" classifiers *)
Definition dangling_cand (e : env) (height : N) (c : csets) (confirmed : bool) : list htlc :=
  filter (fun h => (should_go e h (e_out_delta e) height || confirmed)
                   && negb (e_pre e (h_hash h)))
         (filter (fun h => negb (mem_idx (h_idx h) (outs (c_local c)))) (remote_merged c)).

Definition diff_cand (e : env) (c : csets) (pending_conf : bool) : list htlc :=
  filter (fun h => negb (mem_idx (h_idx h)
                                 (outs (if pending_conf then c_pending c else c_remote c)))
                   && negb (e_pre e (h_hash h)))
         (outs (if pending_conf then c_remote c else c_pending c)).

Lemma check_dangling_eq e height c cf :
  check_dangling e height c cf = split_fail (dangling_cand e height c cf).
Proof. reflexivity. Qed.

Lemma check_remote_diff_eq e c pc : check_remote_diff e c pc = split_fail (diff_cand e c pc).
Proof. reflexivity. Qed.

(* ------------------------------------------------------------------ *)
(* advanceState on the paths of the property                           *)

Definition is_force_close_kind (t : trigger) : bool :=
  match t with TLocalClose | TRemoteClose => true | _ => false end.

(* The effects of processing a unilateral-close event (non breach). *)
Definition close_fail (fixed : bool) (e : env) (st : astate) (height : N) (t : trigger)
           (k : ckey) (c : csets) (r : resolutions) : list N :=
  (match st with
   | SDefault => nodup_n (idxs (a_faildust (construct e height t k c)))
   | _ => []
   end) ++
  (if res_empty r && cs_empty c then []
   else nodup_n (idxs (closed_failback_set fixed c (construct e height t k c)))).

Definition close_final (e : env) (height : N) (t : trigger)
           (k : ckey) (c : csets) (r : resolutions) : list N :=
  if res_empty r && cs_empty c then [] else idxs (a_indust (construct e height t k c)).

Definition close_resolvers (e : env) (height : N) (t : trigger)
           (k : ckey) (c : csets) (r : resolutions) : list (rkind * N) :=
  if res_empty r && cs_empty c then [] else prep_resolutions r (construct e height t k c).

Lemma advance_close fixed e st u height t k c active r :
  (st = SDefault \/ st = SCommitmentBroadcasted) ->
  is_force_close_kind t = true -> r_breach r = false ->
  exists st' u' ef,
    advance fixed e fuel0 st u height t (Some (k, c)) active (Some r) no_eff
    = Some (st', u', ef) /\
    f_fail ef = close_fail fixed e st height t k c r /\
    f_final ef = close_final e height t k c r /\
    f_resolvers ef = close_resolvers e height t k c r /\
    f_force ef = 0 /\
    closed_state st' = true.
Proof.
  intros Hst Ht Hb.
  unfold close_fail, close_final, close_resolvers.
  destruct (res_empty r && cs_empty c) eqn:Emp;
    destruct Hst as [-> | ->]; destruct t; try discriminate Ht;
      cbn -[construct prep_resolutions closed_failback_set nodup_n];
      rewrite ?Emp, ?Hb;
      cbn -[construct prep_resolutions closed_failback_set nodup_n];
      rewrite ?Emp, ?Hb;
      cbn -[construct prep_resolutions closed_failback_set nodup_n].
  all: try (destruct (Nat.eqb _ 0);
            cbn -[construct prep_resolutions closed_failback_set nodup_n]).
  all: do 3 eexists; (split; [reflexivity|]);
    cbn -[construct prep_resolutions closed_failback_set nodup_n];
    rewrite ?app_nil_r; repeat split; reflexivity.
Qed.
