(* C12 — lemmas about the arbitrator decision model. *)
From Coq Require Import List NArith ZArith Bool Lia Btauto.
From LV Require Import Arb.ActionsModel.
Import ListNotations.
Local Open Scope N_scope.

(* ------------------------------------------------------------------ *)
(* counting                                                            *)

Fixpoint cnt (x : N) (l : list N) : nat :=
  match l with
  | [] => O
  | y :: r => ((if N.eqb y x then 1 else 0) + cnt x r)%nat
  end.

Lemma cnt_app x a b : cnt x (a ++ b) = (cnt x a + cnt x b)%nat.
Proof. induction a as [|y a IH]; cbn [cnt app]; [reflexivity|]. rewrite IH. lia. Qed.

Lemma cnt_zero_iff x l : cnt x l = O <-> ~ In x l.
Proof.
  induction l as [|y l IH]; cbn [cnt In]; [tauto|].
  destruct (N.eqb_spec y x) as [->|ne].
  - split; [discriminate| intros H; exfalso; apply H; now left].
  - cbn. rewrite IH. split; [intros H [E|I]; [congruence|tauto] | tauto].
Qed.

Lemma existsb_eqb_in x l : existsb (N.eqb x) l = true <-> In x l.
Proof.
  rewrite existsb_exists. split.
  - intros (y & I & E). apply N.eqb_eq in E. now subst.
  - intros I. exists x. split; [assumption| apply N.eqb_refl].
Qed.

Lemma nodup_n_in x l : In x (nodup_n l) <-> In x l.
Proof.
  induction l as [|y l IH]; cbn [nodup_n In]; [tauto|].
  destruct (existsb (N.eqb y) l) eqn:E.
  - rewrite IH. apply existsb_eqb_in in E. split; [tauto|]. intros [->|I]; assumption.
  - cbn [In]. rewrite IH. tauto.
Qed.

Lemma cnt_nodup_le x l : (cnt x (nodup_n l) <= 1)%nat.
Proof.
  induction l as [|y l IH]; cbn [nodup_n cnt]; [lia|].
  destruct (existsb (N.eqb y) l) eqn:E; [assumption|].
  cbn [cnt]. destruct (N.eqb_spec y x) as [->|ne]; [|lia].
  assert (Z0 : cnt x (nodup_n l) = O).
  { apply cnt_zero_iff. rewrite nodup_n_in. intros I.
    apply existsb_eqb_in in I. congruence. }
  lia.
Qed.

Lemma cnt_nodup_in x l : In x l -> cnt x (nodup_n l) = 1%nat.
Proof.
  intros I. pose proof (cnt_nodup_le x l) as LE.
  destruct (cnt x (nodup_n l)) as [|n] eqn:E; [|lia].
  apply cnt_zero_iff in E. rewrite nodup_n_in in E. tauto.
Qed.

Lemma cnt_nodup_notin x l : ~ In x l -> cnt x (nodup_n l) = O.
Proof. intros NI. apply cnt_zero_iff. now rewrite nodup_n_in. Qed.

(* ------------------------------------------------------------------ *)
(* lists of HTLCs                                                      *)

Lemma in_outs h l : In h (outs l) <-> In h l /\ h_incoming h = false.
Proof. unfold outs. rewrite filter_In. now rewrite negb_true_iff. Qed.

Lemma in_ins h l : In h (ins l) <-> In h l /\ h_incoming h = true.
Proof. unfold ins. now rewrite filter_In. Qed.

Lemma in_idxs x l : In x (idxs l) <-> exists h, In h l /\ h_idx h = x.
Proof.
  unfold idxs. rewrite in_map_iff. split; intros (h & A & B); exists h; tauto.
Qed.

Lemma mem_idx_true i l : mem_idx i l = true <-> In i (idxs l).
Proof.
  unfold mem_idx. rewrite existsb_exists, in_idxs.
  split; intros (h & I & E); exists h; (split; [assumption|]);
    [now apply N.eqb_eq | now apply N.eqb_eq].
Qed.

Lemma mem_idx_false i l : mem_idx i l = false <-> ~ In i (idxs l).
Proof. rewrite <- mem_idx_true. destruct (mem_idx i l); split; congruence. Qed.

Lemma nodup_idx_inj l a b :
  NoDup (idxs l) -> In a l -> In b l -> h_idx a = h_idx b -> a = b.
Proof.
  induction l as [|x l IH]; cbn [idxs map In]; [tauto|].
  intros ND [->|Ia] [->|Ib] E; inversion ND as [|? ? NI ND']; subst.
  - reflexivity.
  - exfalso. apply NI. apply in_map_iff. exists b. split; [congruence|assumption].
  - exfalso. apply NI. apply in_map_iff. exists a. split; [congruence|assumption].
  - now apply IH.
Qed.

Lemma nodup_idxs_filter P l : NoDup (idxs l) -> NoDup (idxs (filter P l)).
Proof.
  induction l as [|x l IH]; cbn [idxs map filter]; [constructor|].
  intros ND. inversion ND as [|? ? NI ND']; subst.
  destruct (P x); cbn [map]; [|now apply IH].
  constructor; [|now apply IH].
  intros I. apply NI. apply in_map_iff in I as (h & E & I).
  apply filter_In in I as [I _]. apply in_map_iff. now exists h.
Qed.

(* idx membership in a filtered list, when indexes are unique *)
Lemma in_idxs_filter_uniq P l h :
  NoDup (idxs l) -> In h l ->
  (In (h_idx h) (idxs (filter P l)) <-> P h = true).
Proof.
  intros ND I. rewrite in_idxs. split.
  - intros (h' & I' & E). apply filter_In in I' as [I' Ph'].
    assert (h' = h) by (eapply nodup_idx_inj; eassumption). now subst.
  - intros Ph. exists h. split; [|reflexivity]. apply filter_In. tauto.
Qed.

Lemma in_idxs_filter P l x :
  In x (idxs (filter P l)) <-> exists h, In h l /\ P h = true /\ h_idx h = x.
Proof.
  rewrite in_idxs. split.
  - intros (h & I & E). apply filter_In in I. exists h. tauto.
  - intros (h & I & Ph & E). exists h. split; [apply filter_In; tauto|assumption].
Qed.

Lemma in_idxs_app x a b : In x (idxs (a ++ b)) <-> In x (idxs a) \/ In x (idxs b).
Proof. unfold idxs. rewrite map_app. apply in_app_iff. Qed.

(* dedup_idx *)
Lemma dedup_in seen l h : In h (dedup_idx seen l) -> In h l /\ ~ In (h_idx h) seen.
Proof.
  revert seen. induction l as [|x l IH]; intros seen; cbn [dedup_idx In]; [tauto|].
  destruct (existsb (N.eqb (h_idx x)) seen) eqn:E.
  - intros I. apply IH in I. tauto.
  - intros [->|I].
    + split; [now left|]. intros I. apply existsb_eqb_in in I. congruence.
    + apply IH in I as [I NI]. split; [now right|]. intros I'. apply NI. now right.
Qed.

Lemma dedup_nodup seen l : NoDup (idxs (dedup_idx seen l)).
Proof.
  revert seen. induction l as [|x l IH]; intros seen; cbn [dedup_idx idxs map]; [constructor|].
  destruct (existsb (N.eqb (h_idx x)) seen) eqn:E; [apply IH|].
  cbn [map]. constructor; [|apply IH].
  intros I. apply in_map_iff in I as (h & Eh & I). apply dedup_in in I as [_ NI].
  apply NI. left. congruence.
Qed.

Lemma dedup_covers seen l x :
  In x (idxs l) -> ~ In x seen -> In x (idxs (dedup_idx seen l)).
Proof.
  revert seen. induction l as [|y l IH]; intros seen; cbn [dedup_idx idxs map In]; [tauto|].
  intros [E|I] NS.
  - destruct (existsb (N.eqb (h_idx y)) seen) eqn:Ex.
    + apply existsb_eqb_in in Ex. subst. tauto.
    + cbn [map In]. now left.
  - destruct (existsb (N.eqb (h_idx y)) seen) eqn:Ex.
    + now apply IH.
    + cbn [map In]. destruct (N.eq_dec (h_idx y) x) as [->|ne]; [now left|right].
      apply IH; [assumption|]. intros [E|I']; [congruence|tauto].
Qed.

Lemma merged_in c h :
  In h (remote_merged c) -> In h (outs (c_remote c)) \/ In h (outs (c_pending c)).
Proof. unfold remote_merged. intros I. apply dedup_in in I as [I _]. now apply in_app_iff. Qed.

Lemma merged_nodup c : NoDup (idxs (remote_merged c)).
Proof. apply dedup_nodup. Qed.

Lemma merged_covers c x :
  In x (idxs (outs (c_remote c) ++ outs (c_pending c))) -> In x (idxs (remote_merged c)).
Proof. intros I. apply dedup_covers; [assumption| intros []]. Qed.

(* ------------------------------------------------------------------ *)
(* the classifiers with a non-chain trigger                            *)

Definition go_out (e : env) (height : N) (h : htlc) : bool :=
  should_go e h (e_out_delta e) height.

Definition full_commit (e : env) (height : N) (l : list htlc) : actions :=
  mkActs (filter (fun h => negb (h_dust h) && go_out e height h) (outs l)) []
         (filter h_dust (outs l))
         (filter (fun h => negb (h_dust h) && negb (go_out e height h)) (outs l))
         (filter (fun h => negb (h_dust h)) (ins l))
         (filter h_dust (ins l)) [].

Lemma check_commit_nochain e height t l :
  is_chain t = false -> check_commit e height t l = full_commit e height l.
Proof. intros H. unfold check_commit. rewrite H, andb_false_r. reflexivity. Qed.

Lemma check_commit_have e height t l :
  have_chain_actions e height l = true -> check_commit e height t l = full_commit e height l.
Proof. intros H. unfold check_commit. rewrite H. reflexivity. Qed.

Lemma check_commit_idle e height l :
  have_chain_actions e height l = false -> check_commit e height TChain l = no_actions.
Proof. intros H. unfold check_commit. rewrite H. reflexivity. Qed.

(* candidates of the two "diff" classifiers *)
Lemma check_local_nochain fixed e height t c cf :
  is_chain t = false ->
  check_local fixed e height t c cf =
  merge (full_commit e height (c_local c)) (check_dangling e height c cf).
Proof.
  intros H. unfold check_local. rewrite H, !andb_false_r.
  now rewrite check_commit_nochain.
Qed.

Definition dangling_cand (e : env) (height : N) (c : csets) (confirmed : bool) : list htlc :=
  filter (fun h => (should_go e h (e_out_delta e) height || confirmed)
                   && negb (e_pre e (h_hash h)))
         (filter (fun h => negb (mem_idx (h_idx h) (outs (c_local c)))) (remote_merged c)).

Definition diff_cand (e : env) (c : csets) (pending_conf : bool) : list htlc :=
  filter (fun h => negb (mem_idx (h_idx h)
                                 (outs (if pending_conf then c_pending c else c_remote c)))
                   && negb (e_pre e (h_hash h)))
         (outs (if pending_conf then c_remote c else c_pending c)).

Lemma check_dangling_eq e height c cf :
  check_dangling e height c cf = split_fail (dangling_cand e height c cf).
Proof. reflexivity. Qed.

Lemma check_remote_diff_eq e c pc : check_remote_diff e c pc = split_fail (diff_cand e c pc).
Proof. reflexivity. Qed.

(* ------------------------------------------------------------------ *)
(* advanceState on the paths of the property                           *)

Lemma advance_eq fixed e f st u height t conf active logres acc :
  advance fixed e (S f) st u height t conf active logres acc =
  let nx := fst (adv_step fixed e st u height t conf active logres) in
  let ef := snd (adv_step fixed e st u height t conf active logres) in
  let unres' := (u + length (filter persisted (f_resolvers ef)))%nat in
  let acc' := eff_app acc ef in
  if is_error nx then Some (st, unres', acc')
  else if same_state nx st then Some (nx, unres', acc')
  else advance fixed e f nx unres' height t conf active logres acc'.
Proof. reflexivity. Qed.

Ltac adv :=
  rewrite advance_eq;
  cbn [adv_step state_step is_chain andb fst snd is_error same_state legacy_breach
       eff_app no_eff f_fail f_final f_resolvers f_force f_resolved app].

Ltac adv_simpl :=
  cbn [fst snd is_error same_state f_resolvers filter length Nat.add eff_app app
       f_fail f_final f_force f_resolved no_eff].

Ltac adv_done :=
  solve [ do 3 eexists; split; [reflexivity|];
          unfold eff_app, no_eff;
          cbn [f_fail f_final f_resolvers f_force f_resolved closed_state app N.add];
          rewrite ?app_nil_r; repeat split; reflexivity ].

Definition is_force_close_kind (t : trigger) : bool :=
  match t with TLocalClose | TRemoteClose => true | _ => false end.

(* The effects of processing a unilateral-close event (non breach). *)
Definition close_fail (fixed : bool) (e : env) (st : astate) (height : N) (t : trigger)
           (k : ckey) (c : csets) (r : resolutions) : list N :=
  (match st with
   | SDefault => nodup_n (idxs (a_faildust (construct fixed e height t k c)))
   | _ => []
   end) ++
  (if res_empty r && cs_empty c then []
   else nodup_n (idxs (closed_failback_set fixed c (construct fixed e height t k c)))).

Definition close_final (fixed : bool) (e : env) (height : N) (t : trigger)
           (k : ckey) (c : csets) (r : resolutions) : list N :=
  if res_empty r && cs_empty c then []
  else idxs (a_indust (construct fixed e height t k c)).

Definition close_resolvers (fixed : bool) (e : env) (height : N) (t : trigger)
           (k : ckey) (c : csets) (r : resolutions) : list (rkind * N) :=
  if res_empty r && cs_empty c then []
  else prep_resolutions r (construct fixed e height t k c).

Lemma advance_close fixed e st u height t k c active r :
  (st = SDefault \/ st = SCommitmentBroadcasted) ->
  is_force_close_kind t = true -> r_breach r = false ->
  exists st' u' ef,
    advance fixed e fuel0 st u height t (Some (k, c)) active (Some r) no_eff
    = Some (st', u', ef) /\
    f_fail ef = close_fail fixed e st height t k c r /\
    f_final ef = close_final fixed e height t k c r /\
    f_resolvers ef = close_resolvers fixed e height t k c r /\
    f_force ef = 0 /\
    closed_state st' = true.
Proof.
  intros Hst Ht Hb.
  unfold close_fail, close_final, close_resolvers, fuel0.
  set (A := construct fixed e height t k c).
  assert (EA : construct fixed e height t k c = A) by reflexivity.
  clearbody A.
  destruct (res_empty r && cs_empty c) eqn:Emp;
    destruct Hst as [-> | ->]; destruct t; try discriminate Ht.
  all: repeat first
      [ adv_done
      | progress (rewrite ?andb_false_r, ?Emp, ?Hb, ?EA; adv_simpl)
      | match goal with
        | |- context [if Nat.eqb ?x 0 then _ else _] => destruct (Nat.eqb x 0)
        end
      | adv ].
Qed.

(* chain / user trigger in StateDefault *)
Lemma advance_trigger fixed e u height t active logres :
  (t = TChain \/ t = TUser) ->
  let A := check_local fixed e height t active false in
  advance fixed e fuel0 SDefault u height t None active logres no_eff =
  if acts_empty A && is_chain t then Some (SDefault, u, no_eff)
  else Some (SCommitmentBroadcasted, u,
             mkEff (nodup_n (idxs (a_faildust A))) [] [] 1 0).
Proof.
  intros Ht A. unfold fuel0.
  assert (EA : check_local fixed e height t active false = A) by reflexivity.
  clearbody A.
  destruct Ht as [-> | ->]; adv; rewrite EA.
  - destruct (acts_empty A); cbn [andb fst snd is_error same_state].
    + cbn [f_resolvers no_eff filter length eff_app app f_fail f_final f_force f_resolved].
      now rewrite Nat.add_0_r.
    + adv. adv_simpl. adv. adv_simpl.
      unfold eff_app, no_eff; cbn. rewrite ?Nat.add_0_r, ?app_nil_r. reflexivity.
  - rewrite andb_false_r. cbn [fst snd is_error same_state].
    adv. adv_simpl. adv. adv_simpl.
    unfold eff_app, no_eff; cbn. rewrite ?Nat.add_0_r, ?app_nil_r. reflexivity.
Qed.

(* breach *)
Lemma advance_breach fixed e st u height c active r :
  (st = SDefault \/ st = SCommitmentBroadcasted) -> r_breach r = true ->
  exists st' u' ef,
    advance fixed e fuel0 st u height TBreachClose (Some (CRemote, c)) active (Some r) no_eff
    = Some (st', u', ef) /\
    f_fail ef =
      (match st with
       | SDefault =>
         nodup_n (idxs (a_faildust (construct fixed e height TBreachClose CRemote c)))
       | _ => []
       end) ++ nodup_n (idxs (outs (c_remote c) ++ outs (c_pending c))) /\
    f_resolvers ef = (if r_anchor r then [(RAnchor, 0)] else []) ++ [(RBreach, 0)] /\
    f_force ef = 0.
Proof.
  intros Hst Hb. unfold fuel0.
  set (A := construct fixed e height TBreachClose CRemote c).
  assert (EA : construct fixed e height TBreachClose CRemote c = A) by reflexivity.
  clearbody A.
  assert (Emp : res_empty r = false).
  { unfold res_empty. rewrite Hb. now rewrite !andb_false_r. }
  destruct Hst as [-> | ->].
  all: repeat first
      [ solve [ do 3 eexists; split; [reflexivity|];
                unfold eff_app, no_eff;
                cbn [f_fail f_final f_resolvers f_force f_resolved app N.add];
                unfold prep_resolutions; rewrite ?Hb, ?app_nil_r; repeat split; reflexivity ]
      | progress (rewrite ?andb_false_r, ?Emp, ?Hb, ?EA; cbn [andb]; adv_simpl)
      | match goal with
        | |- context [if Nat.eqb ?x 0 then _ else _] => destruct (Nat.eqb x 0)
        end
      | adv ].
Qed.

(* ------------------------------------------------------------------ *)
(* deadline rule                                                       *)

From Coq Require Import ZifyBool ZifyN ZifyNat.
Ltac Zify.zify_post_hook ::= Z.div_mod_to_equations.

Lemma u32_sub_exact a b : a < u32 -> b <= a -> u32_sub a b = a - b.
Proof. unfold u32_sub, u32. intros. lia. Qed.

Definition acts_by (e : env) (h : htlc) : Prop :=
  h_incoming h = true \/ e_fwd e (h_idx h) = true \/ (e_grace e < e_uptime e)%Z.

Lemma should_go_due e h delta height :
  h_expiry h < u32 -> delta <= h_expiry h -> h_expiry h - delta <= height ->
  acts_by e h -> should_go e h delta height = true.
Proof.
  intros A B C D. unfold acts_by in D. unfold should_go. rewrite u32_sub_exact by assumption.
  destruct (N.ltb_spec height (h_expiry h - delta)); [lia|].
  destruct (h_incoming h) eqn:Inc; [reflexivity|].
  destruct D as [D|[D|D]]; [discriminate| now rewrite D |].
  apply Z.ltb_lt in D. rewrite D. apply orb_true_r.
Qed.

Lemma nil_b_in {A} (x : A) l : In x l -> nil_b l = false.
Proof. destruct l; [intros []|reflexivity]. Qed.

Lemma nil_b_app_false_l {A} (a b : list A) : nil_b a = false -> nil_b (a ++ b) = false.
Proof. destruct a; [discriminate|reflexivity]. Qed.

Lemma nil_b_app {A} (a b : list A) : nil_b (a ++ b) = nil_b a && nil_b b.
Proof. destruct a; reflexivity. Qed.

Lemma acts_empty_merge a x : acts_empty (merge a x) = acts_empty a && acts_empty x.
Proof.
  unfold acts_empty, merge.
  cbn [a_timeout a_claim a_faildust a_outwatch a_inwatch a_indust a_dangling].
  rewrite !nil_b_app. btauto.
Qed.

Lemma acts_empty_merge_l a x : acts_empty a = false -> acts_empty (merge a x) = false.
Proof. intros H. now rewrite acts_empty_merge, H. Qed.

Lemma acts_empty_merge_r a x : acts_empty x = false -> acts_empty (merge a x) = false.
Proof. intros H. rewrite acts_empty_merge, H. apply andb_false_r. Qed.

(* every HTLC of a commitment lands in some category of the full classification *)
Lemma full_commit_nonempty0 e height l h :
  In h l -> acts_empty (full_commit e height l) = false.
Proof.
  intros I. unfold acts_empty, full_commit.
  cbn [a_timeout a_claim a_faildust a_outwatch a_inwatch a_indust a_dangling].
  destruct (h_incoming h) eqn:Inc; destruct (h_dust h) eqn:D.
  - assert (F : nil_b (filter h_dust (ins l)) = false).
    { apply nil_b_in with h. apply filter_In. split; [|assumption]. now apply in_ins. }
    rewrite F. now rewrite !andb_false_r.
  - assert (F : nil_b (filter (fun h => negb (h_dust h)) (ins l)) = false).
    { apply nil_b_in with h. apply filter_In. split.
      - now apply in_ins. - now rewrite D. }
    rewrite F. now rewrite !andb_false_r.
  - assert (F : nil_b (filter h_dust (outs l)) = false).
    { apply nil_b_in with h. apply filter_In. split; [|assumption]. now apply in_outs. }
    rewrite F. now rewrite !andb_false_r.
  - destruct (go_out e height h) eqn:G.
    + assert (F : nil_b (filter (fun h => negb (h_dust h) && go_out e height h) (outs l))
                  = false).
      { apply nil_b_in with h. apply filter_In. split.
        - now apply in_outs. - now rewrite D, G. }
      rewrite F. reflexivity.
    + assert (F : nil_b (filter (fun h => negb (h_dust h) && negb (go_out e height h))
                                (outs l)) = false).
      { apply nil_b_in with h. apply filter_In. split.
        - now apply in_outs. - now rewrite D, G. }
      rewrite F. now rewrite !andb_false_r.
Qed.

Definition due (e : env) (h : htlc) (height : N) : Prop :=
  let delta := if h_incoming h then e_in_delta e else e_out_delta e in
  h_expiry h < u32 /\ delta <= h_expiry h /\ h_expiry h - delta <= height /\
  (if h_incoming h then e_pre e (h_hash h) = true
   else e_fwd e (h_idx h) = true \/ (e_grace e < e_uptime e)%Z).

Lemma due_have e h height l :
  In h l -> due e h height -> have_chain_actions e height l = true.
Proof.
  intros I (A & B & C & D). unfold have_chain_actions.
  destruct (h_incoming h) eqn:Inc.
  - apply orb_true_iff. right. apply existsb_exists. exists h. split; [now apply in_ins|].
    rewrite D. apply should_go_due; try assumption. left. assumption.
  - apply orb_true_iff. left. apply existsb_exists. exists h. split; [now apply in_outs|].
    apply should_go_due; try assumption. right. assumption.
Qed.

Lemma check_local_due fixed e h height active :
  In h (c_local active) -> due e h height ->
  acts_empty (check_local fixed e height TChain active false) = false.
Proof.
  intros I D. unfold check_local.
  rewrite (check_commit_have e height TChain (c_local active)) by (eapply due_have; eassumption).
  rewrite (full_commit_nonempty0 e height (c_local active) h I).
  rewrite andb_false_r. cbn [andb].
  apply acts_empty_merge_l. eapply full_commit_nonempty0; eassumption.
Qed.

Lemma on_block_default fixed e a height active :
  ar_state a = SDefault ->
  on_block fixed e a height active =
  let A := check_local fixed e height TChain active false in
  if acts_empty A then Some (a, no_eff)
  else Some (mkArb SCommitmentBroadcasted (ar_unres a) (ar_res a),
             mkEff (nodup_n (idxs (a_faildust A))) [] [] 1 0).
Proof.
  intros S. unfold on_block, run_adv. rewrite S. cbn [closed_state].
  rewrite advance_trigger by now left.
  cbn [is_chain]. rewrite andb_true_r.
  destruct (acts_empty _); [|reflexivity].
  destruct a as [s u r]. cbn in S. now subst.
Qed.

Lemma on_block_broadcasted fixed e a height active :
  ar_state a = SCommitmentBroadcasted -> on_block fixed e a height active = Some (a, no_eff).
Proof. intros S. unfold on_block. now rewrite S. Qed.

Lemma on_user_default fixed e a height active :
  ar_state a = SDefault ->
  on_user fixed e a height active =
  Some (mkArb SCommitmentBroadcasted (ar_unres a) (ar_res a),
        mkEff (nodup_n (idxs (a_faildust (check_local fixed e height TUser active false))))
              [] [] 1 0).
Proof.
  intros S. unfold on_user, run_adv. rewrite S.
  rewrite advance_trigger by now right.
  cbn [is_chain]. now rewrite andb_false_r.
Qed.

(* deadline: one block *)
Lemma deadline_block fixed e active height h :
  In h (c_local active) -> due e h height ->
  exists a' ef, on_block fixed e arb0 height active = Some (a', ef) /\
                ar_state a' = SCommitmentBroadcasted /\ f_force ef = 1.
Proof.
  intros I D. rewrite on_block_default by reflexivity. cbv zeta.
  rewrite (check_local_due fixed e h height active I D).
  do 2 eexists. split; [reflexivity|]. split; reflexivity.
Qed.

(* a run of block epochs over an unchanged set of HTLCs *)
Fixpoint run_blocks (fixed : bool) (e : env) (a : arb) (active : csets) (hs : list N)
         (acc : eff) : option (arb * eff) :=
  match hs with
  | [] => Some (a, acc)
  | x :: r =>
    match on_block fixed e a x active with
    | None => None
    | Some (a', ef) => run_blocks fixed e a' active r (eff_app acc ef)
    end
  end.

Lemma run_blocks_broadcasted fixed e a active hs acc :
  ar_state a = SCommitmentBroadcasted ->
  run_blocks fixed e a active hs acc = Some (a, acc).
Proof.
  intros S. revert acc. induction hs as [|x r IH]; intros acc; cbn [run_blocks]; [reflexivity|].
  rewrite on_block_broadcasted by assumption. rewrite IH.
  destruct acc; unfold eff_app, no_eff; cbn. now rewrite !app_nil_r, N.add_0_r, N.add_0_r.
Qed.

Lemma deadline_blocks fixed e active hs h x :
  In h (c_local active) -> In x hs -> due e h x ->
  forall a acc, ar_state a = SDefault ->
  exists a' ef, run_blocks fixed e a active hs acc = Some (a', ef) /\
                ar_state a' = SCommitmentBroadcasted /\ f_force ef = f_force acc + 1.
Proof.
  intros I Ix D. induction hs as [|y r IH]; [destruct Ix|].
  intros a acc S. cbn [run_blocks]. rewrite on_block_default by assumption. cbv zeta.
  destruct (acts_empty (check_local fixed e y TChain active false)) eqn:E.
  - destruct Ix as [->|Ix].
    + rewrite (check_local_due fixed e h x active I D) in E. discriminate.
    + destruct (IH Ix a (eff_app acc no_eff) S) as (a' & ef & R & S' & F).
      exists a', ef. split; [assumption|]. split; [assumption|].
      rewrite F. unfold eff_app, no_eff; cbn. lia.
  - rewrite run_blocks_broadcasted by reflexivity.
    do 2 eexists. split; [reflexivity|]. split; [reflexivity|].
    unfold eff_app; cbn. reflexivity.
Qed.

(* no spurious force close *)
Lemma split_fail_empty cand : acts_empty (split_fail cand) = true -> cand = [].
Proof.
  unfold acts_empty, split_fail.
  cbn [a_timeout a_claim a_faildust a_outwatch a_inwatch a_indust a_dangling nil_b andb].
  destruct cand as [|h r]; [reflexivity|]. cbn [filter].
  destruct (h_dust h); cbn [negb nil_b andb]; [discriminate|].
  rewrite andb_false_r. discriminate.
Qed.

Definition go_witness (e : env) (active : csets) (height : N) (h : htlc) : Prop :=
  (In h (outs (c_local active)) /\ should_go e h (e_out_delta e) height = true) \/
  (In h (ins (c_local active)) /\ e_pre e (h_hash h) = true /\
   should_go e h (e_in_delta e) height = true) \/
  (In h (outs (c_remote active) ++ outs (c_pending active)) /\
   ~ In (h_idx h) (idxs (outs (c_local active))) /\
   should_go e h (e_out_delta e) height = true /\ e_pre e (h_hash h) = false).

Lemma have_witness e active height :
  have_chain_actions e height (c_local active) = true ->
  exists h, go_witness e active height h.
Proof.
  unfold have_chain_actions. intros H. apply orb_true_iff in H as [H|H];
    apply existsb_exists in H as (h & I & P); exists h.
  - left. tauto.
  - right. left. apply andb_true_iff in P. tauto.
Qed.

Lemma dangling_witness e active height h :
  In h (dangling_cand e height active false) -> go_witness e active height h.
Proof.
  unfold dangling_cand. intros I. apply filter_In in I as [I P].
  apply filter_In in I as [I Q]. right. right.
  rewrite orb_false_r in P. apply andb_true_iff in P as [P1 P2].
  apply negb_true_iff in P2, Q. apply mem_idx_false in Q.
  apply merged_in in I. rewrite in_app_iff. tauto.
Qed.

Lemma no_spurious fixed e active height a' ef :
  on_block fixed e arb0 height active = Some (a', ef) ->
  f_force ef <> 0 ->
  exists h, go_witness e active height h.
Proof.
  rewrite on_block_default by reflexivity. cbv zeta.
  destruct (acts_empty (check_local fixed e height TChain active false)) eqn:E.
  - intros [= <- <-]. cbn. congruence.
  - intros _ _. unfold check_local in E.
    destruct (have_chain_actions e height (c_local active)) eqn:Hv.
    + now apply have_witness.
    + rewrite check_commit_idle in E by assumption.
      assert (D : acts_empty (check_dangling e height active false) = false).
      { destruct (acts_empty (check_dangling e height active false)) eqn:D; [|reflexivity].
        exfalso. cbn [acts_empty no_actions a_timeout a_claim a_faildust a_outwatch a_inwatch
                      a_indust a_dangling nil_b andb negb] in E.
        rewrite andb_false_r in E. cbn [andb] in E.
        rewrite acts_empty_merge in E. rewrite D in E. cbn in E. discriminate. }
      rewrite check_dangling_eq in D.
      destruct (dangling_cand e height active false) as [|h r] eqn:C.
      * cbn in D. discriminate.
      * exists h. apply dangling_witness. rewrite C. now left.
Qed.

(* ------------------------------------------------------------------ *)
(* classification after a commitment confirmed                         *)

Definition cand (e : env) (height : N) (k : ckey) (c : csets) : list htlc :=
  match k with
  | CLocal => dangling_cand e height c true
  | CRemote => diff_cand e c false
  | CPending => diff_cand e c true
  end.

Lemma construct_eq fixed e height t k c :
  is_chain t = false ->
  construct fixed e height t k c =
  merge (full_commit e height (conf_set k c)) (split_fail (cand e height k c)).
Proof.
  intros H. destruct k; unfold construct, check_remote, cand, conf_set.
  - now rewrite check_local_nochain.
  - now rewrite check_commit_nochain.
  - now rewrite check_commit_nochain.
Qed.

Definition wf (c : csets) : Prop :=
  NoDup (idxs (outs (c_local c))) /\ NoDup (idxs (ins (c_local c))) /\
  NoDup (idxs (outs (c_remote c))) /\ NoDup (idxs (ins (c_remote c))) /\
  NoDup (idxs (outs (c_pending c))) /\ NoDup (idxs (ins (c_pending c))).

Lemma wf_outs k c : wf c -> NoDup (idxs (outs (conf_set k c))).
Proof. unfold wf. destruct k; cbn [conf_set]; tauto. Qed.
Lemma wf_ins k c : wf c -> NoDup (idxs (ins (conf_set k c))).
Proof. unfold wf. destruct k; cbn [conf_set]; tauto. Qed.

Lemma cand_props e height k c m :
  In m (cand e height k c) ->
  ~ In (h_idx m) (idxs (outs (conf_set k c))) /\ e_pre e (h_hash m) = false /\
  (In m (outs (c_remote c)) \/ In m (outs (c_pending c))).
Proof.
  destruct k; unfold cand, dangling_cand, diff_cand, conf_set; intros I.
  - apply filter_In in I as [I P]. apply filter_In in I as [I Q].
    apply andb_true_iff in P as [_ P]. apply negb_true_iff in P, Q.
    apply mem_idx_false in Q. apply merged_in in I. tauto.
  - apply filter_In in I as [I P]. apply andb_true_iff in P as [Q P].
    apply negb_true_iff in P, Q. apply mem_idx_false in Q. tauto.
  - apply filter_In in I as [I P]. apply andb_true_iff in P as [Q P].
    apply negb_true_iff in P, Q. apply mem_idx_false in Q. tauto.
Qed.

Lemma cand_nodup e height k c : wf c -> NoDup (idxs (cand e height k c)).
Proof.
  intros W. destruct k; unfold cand, dangling_cand, diff_cand.
  - do 2 apply nodup_idxs_filter. apply merged_nodup.
  - apply nodup_idxs_filter. unfold wf in W. tauto.
  - apply nodup_idxs_filter. unfold wf in W. tauto.
Qed.

(* a merged record and a candidate with the same index agree on dust-ness *)
Lemma cand_merged_dust e height k c m m' :
  wf c -> In m (remote_merged c) -> In m' (cand e height k c) -> h_idx m = h_idx m' ->
  h_dust m = h_dust m'.
Proof.
  intros W Im Ic E. destruct k; unfold cand, dangling_cand, diff_cand in Ic.
  - apply filter_In in Ic as [Ic _]. apply filter_In in Ic as [Ic _].
    f_equal. eapply nodup_idx_inj; [apply merged_nodup| | |]; eassumption.
  - apply filter_In in Ic as [Ic P]. apply andb_true_iff in P as [Q _].
    apply negb_true_iff in Q. apply mem_idx_false in Q.
    apply merged_in in Im as [Im|Im].
    + exfalso. apply Q. apply in_idxs. exists m. tauto.
    + f_equal. unfold wf in W. eapply nodup_idx_inj with (l := outs (c_pending c)); tauto.
  - apply filter_In in Ic as [Ic P]. apply andb_true_iff in P as [Q _].
    apply negb_true_iff in Q. apply mem_idx_false in Q.
    apply merged_in in Im as [Im|Im].
    + f_equal. unfold wf in W. eapply nodup_idx_inj with (l := outs (c_remote c)); tauto.
    + exfalso. apply Q. apply in_idxs. exists m. tauto.
Qed.

(* coverage: an offered HTLC that is only on a non-confirmed commitment, with
   no known preimage, is a candidate *)
Definition no_pre (e : env) (c : csets) (x : N) : Prop :=
  forall h, In h (outs (c_remote c) ++ outs (c_pending c)) -> h_idx h = x ->
            e_pre e (h_hash h) = false.

Definition others (k : ckey) (c : csets) : list htlc :=
  match k with
  | CLocal => outs (c_remote c) ++ outs (c_pending c)
  | CRemote => outs (c_pending c)
  | CPending => outs (c_remote c)
  end.

Lemma cand_covers e height k c x :
  In x (idxs (others k c)) -> ~ In x (idxs (outs (conf_set k c))) -> no_pre e c x ->
  In x (idxs (cand e height k c)).
Proof.
  intros I NC NP. destruct k; unfold others in I; unfold cand, dangling_cand, diff_cand;
    cbn [conf_set] in NC.
  - apply merged_covers in I. apply in_idxs in I as (m & Im & E).
    apply in_idxs. exists m. split; [|assumption].
    apply filter_In. split.
    + apply filter_In. split; [assumption|]. apply negb_true_iff. apply mem_idx_false.
      now rewrite E.
    + rewrite orb_true_r. cbn [andb]. apply negb_true_iff. apply NP; [|assumption].
      apply merged_in in Im. now apply in_app_iff.
  - apply in_idxs in I as (m & Im & E). apply in_idxs. exists m. split; [|assumption].
    apply filter_In. split; [assumption|]. apply andb_true_iff. split.
    + apply negb_true_iff. apply mem_idx_false. now rewrite E.
    + apply negb_true_iff. apply NP; [|assumption]. apply in_app_iff. now right.
  - apply in_idxs in I as (m & Im & E). apply in_idxs. exists m. split; [|assumption].
    apply filter_In. split; [assumption|]. apply andb_true_iff. split.
    + apply negb_true_iff. apply mem_idx_false. now rewrite E.
    + apply negb_true_iff. apply NP; [|assumption]. apply in_app_iff. now left.
Qed.

(* counting in lists with unique indexes *)
Lemma cnt_nodup_list x l : NoDup l -> In x l -> cnt x l = 1%nat.
Proof.
  induction l as [|y l IH]; intros ND I; [destruct I|].
  inversion ND as [|? ? NI ND']; subst. cbn [cnt].
  destruct (N.eqb_spec y x) as [->|ne].
  - assert (cnt x l = O) by now apply cnt_zero_iff. lia.
  - destruct I as [E|I]; [congruence|]. rewrite IH by assumption. lia.
Qed.

Lemma cnt_idxs_filter P l h :
  NoDup (idxs l) -> In h l ->
  cnt (h_idx h) (idxs (filter P l)) = if P h then 1%nat else O.
Proof.
  intros ND I. destruct (P h) eqn:Ph.
  - apply cnt_nodup_list; [now apply nodup_idxs_filter|].
    now apply in_idxs_filter_uniq.
  - apply cnt_zero_iff. rewrite in_idxs_filter_uniq by assumption. congruence.
Qed.

Lemma filter_filter_and {A} (P Q : A -> bool) l :
  filter P (filter Q l) = filter (fun x => Q x && P x) l.
Proof.
  induction l as [|x l IH]; [reflexivity|]. cbn [filter].
  destruct (Q x); cbn [filter andb]; [destruct (P x)|]; now rewrite IH.
Qed.

(* resolvers *)
Definition out_kind (k : rkind) : bool :=
  match k with RTimeout | ROutContest => true | _ => false end.
Definition in_kind (k : rkind) : bool :=
  match k with RSuccess | RInContest => true | _ => false end.
Definition res_idxs (p : rkind -> bool) (l : list (rkind * N)) : list N :=
  map snd (filter (fun q => p (fst q)) l).

Lemma res_idxs_app p a b : res_idxs p (a ++ b) = res_idxs p a ++ res_idxs p b.
Proof. unfold res_idxs. now rewrite filter_app, map_app. Qed.

Lemma res_idxs_mk p k res l :
  res_idxs p (mk_resolvers k res l) =
  if p k then idxs (filter (has_res res) l) else [].
Proof.
  unfold res_idxs, mk_resolvers, idxs.
  induction (filter (has_res res) l) as [|h r IH]; cbn [map filter fst].
  - now destruct (p k).
  - destruct (p k); cbn [map snd]; [now rewrite IH| assumption].
Qed.

Lemma prep_out_idxs r A :
  r_breach r = false ->
  res_idxs out_kind (prep_resolutions r A) =
  idxs (filter (has_res (r_out r)) (a_timeout A)) ++
  idxs (filter (has_res (r_out r)) (a_outwatch A)).
Proof.
  intros Hb. unfold prep_resolutions. rewrite Hb.
  rewrite !res_idxs_app, !res_idxs_mk. cbn [out_kind].
  destruct (r_anchor r), (r_commit r); cbn; now rewrite ?app_nil_r.
Qed.

Lemma prep_in_idxs r A :
  r_breach r = false ->
  res_idxs in_kind (prep_resolutions r A) =
  idxs (filter (has_res (r_in r)) (a_claim A)) ++
  idxs (filter (has_res (r_in r)) (a_inwatch A)).
Proof.
  intros Hb. unfold prep_resolutions. rewrite Hb.
  rewrite !res_idxs_app, !res_idxs_mk. cbn [in_kind].
  destruct (r_anchor r), (r_commit r); cbn; now rewrite ?app_nil_r.
Qed.

Definition res_complete (r : resolutions) (l : list htlc) : Prop :=
  forall h, In h l -> h_dust h = false ->
            has_res (if h_incoming h then r_in r else r_out r) h = true.

Lemma cs_nonempty k c h : In h (conf_set k c) -> cs_empty c = false.
Proof.
  unfold cs_empty. destruct k; cbn [conf_set]; intros I.
  - destruct (c_local c); [destruct I|reflexivity].
  - destruct (c_local c); [|reflexivity]. destruct (c_remote c); [destruct I|reflexivity].
  - destruct (c_local c); [|reflexivity]. destruct (c_remote c); [|reflexivity].
    destruct (c_pending c); [destruct I|reflexivity].
Qed.

Lemma close_resolvers_out fixed e height t k c r h :
  is_chain t = false -> r_breach r = false -> wf c -> res_complete r (conf_set k c) ->
  In h (outs (conf_set k c)) -> h_dust h = false ->
  cnt (h_idx h) (res_idxs out_kind (close_resolvers fixed e height t k c r)) = 1%nat.
Proof.
  intros Ht Hb W RC I D. unfold close_resolvers.
  apply in_outs in I as I'. destruct I' as [Ic Inc].
  rewrite (cs_nonempty k c h Ic), andb_false_r.
  rewrite prep_out_idxs by assumption. rewrite construct_eq by assumption.
  cbn [merge full_commit split_fail a_timeout a_outwatch]. rewrite !app_nil_r.
  rewrite cnt_app, !filter_filter_and.
  pose proof (wf_outs k c W) as ND.
  rewrite !cnt_idxs_filter by assumption.
  specialize (RC h Ic D). rewrite Inc in RC. rewrite RC, D. cbn [negb andb].
  destruct (go_out e height h); reflexivity.
Qed.

Lemma close_resolvers_in fixed e height t k c r h :
  is_chain t = false -> r_breach r = false -> wf c -> res_complete r (conf_set k c) ->
  In h (ins (conf_set k c)) -> h_dust h = false ->
  cnt (h_idx h) (res_idxs in_kind (close_resolvers fixed e height t k c r)) = 1%nat.
Proof.
  intros Ht Hb W RC I D. unfold close_resolvers.
  apply in_ins in I as I'. destruct I' as [Ic Inc].
  rewrite (cs_nonempty k c h Ic), andb_false_r.
  rewrite prep_in_idxs by assumption. rewrite construct_eq by assumption.
  cbn [merge full_commit split_fail a_claim a_inwatch filter idxs map app].
  rewrite !app_nil_r, !filter_filter_and.
  pose proof (wf_ins k c W) as ND.
  rewrite cnt_idxs_filter by assumption.
  specialize (RC h Ic D). rewrite Inc in RC. now rewrite RC, D.
Qed.

Lemma close_final_dust fixed e height t k c r h :
  is_chain t = false -> wf c -> In h (ins (conf_set k c)) -> h_dust h = true ->
  cnt (h_idx h) (close_final fixed e height t k c r) = 1%nat.
Proof.
  intros Ht W I D. unfold close_final.
  apply in_ins in I as I'. destruct I' as [Ic Inc].
  rewrite (cs_nonempty k c h Ic), andb_false_r.
  rewrite construct_eq by assumption.
  cbn [merge full_commit split_fail a_indust]. rewrite app_nil_r.
  rewrite cnt_idxs_filter by (try apply wf_ins; assumption). now rewrite D.
Qed.

(* ------------------------------------------------------------------ *)
(* fail-backs                                                          *)

Lemma construct_faildust fixed e height t k c x :
  is_chain t = false ->
  (In x (idxs (a_faildust (construct fixed e height t k c))) <->
   (exists h, In h (outs (conf_set k c)) /\ h_dust h = true /\ h_idx h = x) \/
   (exists m, In m (cand e height k c) /\ h_dust m = true /\ h_idx m = x)).
Proof.
  intros Ht. rewrite construct_eq by assumption.
  cbn [merge full_commit split_fail a_faildust].
  rewrite in_idxs_app, !in_idxs_filter. reflexivity.
Qed.

Lemma construct_dangling fixed e height t k c x :
  is_chain t = false ->
  (In x (idxs (a_dangling (construct fixed e height t k c))) <->
   exists m, In m (cand e height k c) /\ h_dust m = false /\ h_idx m = x).
Proof.
  intros Ht. rewrite construct_eq by assumption.
  cbn [merge full_commit split_fail a_dangling app].
  rewrite in_idxs_filter. split; intros (m & I & D & E); exists m;
    (split; [assumption|split; [|assumption]]).
  - now apply negb_true_iff in D.
  - now apply negb_true_iff.
Qed.

Lemma closed_set_in fixed c A x :
  In x (idxs (closed_failback_set fixed c A)) ->
  In x (idxs (a_dangling A)) \/ In x (idxs (a_faildust A)).
Proof.
  unfold closed_failback_set. rewrite in_idxs_app. intros [I|I]; [now left|right].
  destruct fixed; [|destruct I]. apply in_idxs_filter in I as (m & I & _ & E).
  apply in_idxs. now exists m.
Qed.

Lemma closed_set_dangling fixed c A x :
  In x (idxs (a_dangling A)) -> In x (idxs (closed_failback_set fixed c A)).
Proof. unfold closed_failback_set. rewrite in_idxs_app. now left. Qed.

Definition local_dust (c : csets) (x : N) : Prop :=
  exists l, In l (outs (c_local c)) /\ h_idx l = x /\ h_dust l = true.

Lemma closed_set_fixed c A x :
  In x (idxs (a_faildust A)) -> ~ local_dust c x ->
  In x (idxs (closed_failback_set true c A)).
Proof.
  intros I NL. unfold closed_failback_set. rewrite in_idxs_app. right.
  apply in_idxs in I as (m & I & E). apply in_idxs_filter. exists m.
  split; [assumption|]. split; [|assumption].
  apply negb_true_iff. apply not_true_is_false. intros Ex.
  apply existsb_exists in Ex as (l & Il & P). apply andb_true_iff in P as [P1 P2].
  apply N.eqb_eq in P1. apply NL. exists l. split; [assumption|]. split; congruence.
Qed.

Lemma closed_set_unfixed c A : closed_failback_set false c A = a_dangling A.
Proof. unfold closed_failback_set. apply app_nil_r. Qed.

(* no fail-back at/after confirmation for an HTLC with an output there *)
Lemma close_fail_output fixed e st height t k c r h :
  is_chain t = false -> wf c ->
  In h (outs (conf_set k c)) -> h_dust h = false ->
  ~ In (h_idx h) (close_fail fixed e st height t k c r).
Proof.
  intros Ht W I D.
  assert (NF : ~ In (h_idx h) (idxs (a_faildust (construct fixed e height t k c)))).
  { rewrite construct_faildust by assumption. intros [(h' & I' & D' & E)|(m & Im & _ & E)].
    - assert (h' = h) by (eapply nodup_idx_inj; [apply (wf_outs k c W)| | |]; eassumption).
      subst. congruence.
    - apply cand_props in Im as (NC & _). apply NC. rewrite E. apply in_idxs. now exists h. }
  assert (ND : ~ In (h_idx h) (idxs (a_dangling (construct fixed e height t k c)))).
  { rewrite construct_dangling by assumption. intros (m & Im & _ & E).
    apply cand_props in Im as (NC & _). apply NC. rewrite E. apply in_idxs. now exists h. }
  unfold close_fail. rewrite in_app_iff. intros [F|F].
  - destruct st; try destruct F. apply (proj1 (nodup_n_in _ _)) in F. tauto.
  - destruct (res_empty r && cs_empty c); [destruct F|].
    apply (proj1 (nodup_n_in _ _)) in F. apply closed_set_in in F. tauto.
Qed.

Lemma others_nonempty k c x : In x (idxs (others k c)) -> cs_empty c = false.
Proof.
  intros I. apply in_idxs in I as (m & I & _).
  assert (J : In m (c_remote c) \/ In m (c_pending c)).
  { destruct k; unfold others in I; rewrite ?in_app_iff, ?in_outs in I; tauto. }
  unfold cs_empty. destruct (c_local c); [|reflexivity].
  destruct (c_remote c); [|reflexivity]. destruct (c_pending c); [|reflexivity].
  destruct J as [[]|[]].
Qed.

(* which index gets a fail-back in the close step: complete characterisation
   of the two halves *)
Definition must_fail (e : env) (k : ckey) (c : csets) (x : N) : Prop :=
  (exists h, In h (outs (conf_set k c)) /\ h_dust h = true /\ h_idx h = x) \/
  (In x (idxs (others k c)) /\ ~ In x (idxs (outs (conf_set k c))) /\ no_pre e c x).

Lemma must_fail_nonempty e k c x : must_fail e k c x -> cs_empty c = false.
Proof.
  intros [(h & I & _)|(I & _)].
  - apply in_outs in I as [I _]. eapply cs_nonempty; eassumption.
  - eapply others_nonempty; eassumption.
Qed.

(* every must-fail index is in exactly one of HtlcFailDustAction /
   HtlcFailDanglingAction *)
Lemma must_fail_split fixed e height t k c x :
  is_chain t = false -> wf c -> must_fail e k c x ->
  let A := construct fixed e height t k c in
  (In x (idxs (a_faildust A)) /\ ~ In x (idxs (a_dangling A))) \/
  (~ In x (idxs (a_faildust A)) /\ In x (idxs (a_dangling A))).
Proof.
  intros Ht W M A. subst A.
  rewrite construct_faildust, construct_dangling by assumption.
  destruct M as [(h & I & D & E)|(I & NC & NP)].
  - left. split; [left; now exists h|].
    intros (m & Im & _ & Em). apply cand_props in Im as (NC & _). apply NC.
    rewrite Em, <- E. apply in_idxs. now exists h.
  - pose proof (cand_covers e height k c x I NC NP) as Ic.
    apply in_idxs in Ic as (m & Im & Em).
    pose proof (cand_nodup e height k c W) as ND.
    destruct (h_dust m) eqn:D.
    + left. split; [right; now exists m|].
      intros (m' & Im' & D' & Em').
      assert (m' = m) by (eapply nodup_idx_inj; [exact ND| | |]; congruence).
      subst. congruence.
    + right. split; [|now exists m].
      intros [(h & Ih & _ & Eh)|(m' & Im' & D' & Em')].
      * apply NC. rewrite <- Eh. apply in_idxs. now exists h.
      * assert (m' = m) by (eapply nodup_idx_inj; [exact ND| | |]; congruence).
        subst. congruence.
Qed.

(* direct path (no broadcast), today's code: exactly once *)
Lemma close_fail_direct_once e height t k c r x :
  is_chain t = false -> wf c -> must_fail e k c x ->
  cnt x (close_fail false e SDefault height t k c r) = 1%nat.
Proof.
  intros Ht W M. unfold close_fail.
  rewrite (must_fail_nonempty e k c x M), andb_false_r.
  rewrite closed_set_unfixed, cnt_app.
  destruct (must_fail_split false e height t k c x Ht W M) as [[A B]|[A B]].
  - rewrite cnt_nodup_in, cnt_nodup_notin by assumption. reflexivity.
  - rewrite cnt_nodup_notin, cnt_nodup_in by assumption. reflexivity.
Qed.

(* with the candidate fix, direct path: at least once *)
Lemma close_fail_direct_fixed fixed e height t k c r x :
  is_chain t = false -> wf c -> must_fail e k c x ->
  (1 <= cnt x (close_fail fixed e SDefault height t k c r))%nat.
Proof.
  intros Ht W M. unfold close_fail.
  rewrite (must_fail_nonempty e k c x M), andb_false_r. rewrite cnt_app.
  destruct (must_fail_split fixed e height t k c x Ht W M) as [[A B]|[A B]].
  - rewrite cnt_nodup_in by assumption. lia.
  - rewrite (cnt_nodup_in x (idxs (closed_failback_set _ _ _)))
      by now apply closed_set_dangling. lia.
Qed.

(* what the node cancels back when it decides to broadcast *)
Lemma trigger_faildust_sub fixed e height t c x :
  In x (idxs (a_faildust (check_local fixed e height t c false))) ->
  local_dust c x \/
  (exists m, In m (remote_merged c) /\ h_dust m = true /\ h_idx m = x /\
             ~ In x (idxs (outs (c_local c)))).
Proof.
  unfold check_local. cbv zeta.
  match goal with |- context [merge ?X _] => set (la' := X) end.
  assert (S : forall y, In y (idxs (a_faildust la')) ->
                        In y (idxs (filter h_dust (outs (c_local c))))).
  { intros y. subst la'. unfold check_commit.
    repeat match goal with
           | |- context [if ?b then _ else _] => destruct b
           end; cbv zeta; cbn [a_faildust no_actions]; unfold idxs; cbn [map In]; tauto. }
  cbn [merge a_faildust]. rewrite in_idxs_app. intros [I|I].
  - left. apply S in I. apply in_idxs_filter in I as (l & Il & D & E). now exists l.
  - right. rewrite check_dangling_eq in I. cbn [split_fail a_faildust] in I.
    apply in_idxs_filter in I as (m & Im & D & E). exists m.
    unfold dangling_cand in Im. apply filter_In in Im as [Im _].
    apply filter_In in Im as [Im Q]. apply negb_true_iff in Q. apply mem_idx_false in Q.
    rewrite E in Q. tauto.
Qed.

Lemma trigger_faildust_local e height t c x :
  t = TUser \/ (t = TChain /\ acts_empty (check_local true e height TChain c false) = false) ->
  local_dust c x ->
  In x (idxs (a_faildust (check_local true e height t c false))).
Proof.
  intros Ht (l & Il & E & D).
  assert (F : In x (idxs (a_faildust (full_commit e height (c_local c))))).
  { cbn [full_commit a_faildust]. apply in_idxs_filter. now exists l. }
  unfold check_local. cbn [merge a_faildust]. rewrite in_idxs_app. left.
  destruct Ht as [->|[-> NE]].
  - cbn [is_chain]. rewrite !andb_false_r. now rewrite check_commit_nochain.
  - unfold check_local in NE.
    destruct (have_chain_actions e height (c_local c)) eqn:Hv.
    + rewrite check_commit_have by assumption.
      rewrite (full_commit_nonempty0 e height (c_local c) l) by (apply in_outs in Il; tauto).
      rewrite andb_false_r. assumption.
    + rewrite check_commit_idle in * by assumption.
      destruct (acts_empty (check_dangling e height c false)) eqn:D'.
      * exfalso. cbn [acts_empty no_actions a_timeout a_claim a_faildust a_outwatch
                      a_inwatch a_indust a_dangling nil_b andb negb] in NE.
        rewrite acts_empty_merge, D' in NE. cbn in NE. discriminate.
      * cbn [acts_empty no_actions a_timeout a_claim a_faildust a_outwatch
             a_inwatch a_indust a_dangling nil_b andb negb is_chain].
        now rewrite check_commit_nochain.
Qed.

(* ------------------------------------------------------------------ *)
(* the close event handlers                                            *)

Definition kkey (k : close_kind) : ckey :=
  match k with KLocal => CLocal | KPending => CPending | _ => CRemote end.
Definition ktrig (k : close_kind) : trigger :=
  match k with KLocal => TLocalClose | _ => TRemoteClose end.
Definition uni (k : close_kind) : bool :=
  match k with KLocal | KRemote | KPending => true | _ => false end.
Definition start_ok (a : arb) : Prop :=
  ar_state a = SDefault \/ ar_state a = SCommitmentBroadcasted.

Lemma ktrig_nochain k : is_chain (ktrig k) = false.
Proof. now destruct k. Qed.

Lemma on_close_uni fixed e a k height c r active :
  uni k = true -> start_ok a -> r_breach r = false ->
  exists a' ef,
    on_close fixed e a k height c r active = Some (a', ef) /\
    f_fail ef = close_fail fixed e (ar_state a) height (ktrig k) (kkey k) c r /\
    f_final ef = close_final fixed e height (ktrig k) (kkey k) c r /\
    f_resolvers ef = close_resolvers fixed e height (ktrig k) (kkey k) c r /\
    f_force ef = 0 /\ closed_state (ar_state a') = true.
Proof.
  intros U S Hb.
  assert (FT : is_force_close_kind (ktrig k) = true) by now destruct k.
  destruct (advance_close fixed e (ar_state a) (ar_unres a) height (ktrig k) (kkey k) c
                          active r S FT Hb)
    as (st' & u' & ef & Adv & F1 & F2 & F3 & F4 & CS).
  exists (mkArb st' u' (Some r)), ef.
  split; [|tauto].
  destruct k; try discriminate U; unfold on_close, run_adv;
    cbn [ar_state ar_unres ar_res kkey ktrig] in *; now rewrite Adv.
Qed.

Definition conf_of (k : close_kind) (c : csets) : list htlc := conf_set (kkey k) c.

(* what every close step guarantees, whatever came before *)
Definition close_guarantees (e : env) (k : close_kind) (c : csets) (ef : eff) : Prop :=
  (forall h, In h (outs (conf_of k c)) -> h_dust h = false ->
             cnt (h_idx h) (res_idxs out_kind (f_resolvers ef)) = 1%nat /\
             cnt (h_idx h) (f_fail ef) = O) /\
  (forall h, In h (ins (conf_of k c)) -> h_dust h = false ->
             cnt (h_idx h) (res_idxs in_kind (f_resolvers ef)) = 1%nat) /\
  (forall h, In h (ins (conf_of k c)) -> h_dust h = true ->
             cnt (h_idx h) (f_final ef) = 1%nat).

Lemma close_step fixed e a k height c r active :
  uni k = true -> start_ok a -> r_breach r = false -> wf c ->
  res_complete r (conf_of k c) ->
  exists a' ef,
    on_close fixed e a k height c r active = Some (a', ef) /\
    closed_state (ar_state a') = true /\ f_force ef = 0 /\
    f_fail ef = close_fail fixed e (ar_state a) height (ktrig k) (kkey k) c r /\
    close_guarantees e k c ef.
Proof.
  intros U S Hb W RC.
  destruct (on_close_uni fixed e a k height c r active U S Hb)
    as (a' & ef & On & F1 & F2 & F3 & F4 & CS).
  exists a', ef. repeat split; try assumption.
  - rewrite F3. apply close_resolvers_out; try assumption. apply ktrig_nochain.
  - rewrite F1. apply cnt_zero_iff. apply close_fail_output; try assumption.
    apply ktrig_nochain.
  - intros h I D. rewrite F3. apply close_resolvers_in; try assumption. apply ktrig_nochain.
  - intros h I D. rewrite F2. apply close_final_dust; try assumption. apply ktrig_nochain.
Qed.

(* ---- direct path, today's code ---- *)
Lemma classification_direct e k height c r :
  uni k = true -> r_breach r = false -> wf c -> res_complete r (conf_of k c) ->
  exists a' ef,
    on_close false e arb0 k height c r c = Some (a', ef) /\
    closed_state (ar_state a') = true /\
    close_guarantees e k c ef /\
    (forall x, must_fail e (kkey k) c x -> cnt x (f_fail ef) = 1%nat).
Proof.
  intros U Hb W RC.
  destruct (close_step false e arb0 k height c r c U (or_introl eq_refl) Hb W RC)
    as (a' & ef & On & CS & _ & F & G).
  exists a', ef. split; [assumption|]. split; [assumption|]. split; [assumption|].
  intros x M. rewrite F. cbn [ar_state arb0].
  apply close_fail_direct_once; [apply ktrig_nochain| assumption| assumption].
Qed.

(* ---- broadcast first ---- *)
Definition trigger_step (fixed : bool) (e : env) (user : bool) (height : N) (c : csets)
  : option (arb * eff) :=
  if user then on_user fixed e arb0 height c else on_block fixed e arb0 height c.

Lemma trigger_step_broadcast fixed e user height c a1 ef1 :
  trigger_step fixed e user height c = Some (a1, ef1) -> f_force ef1 = 1 ->
  ar_state a1 = SCommitmentBroadcasted /\
  f_fail ef1 = nodup_n (idxs (a_faildust
                 (check_local fixed e height (if user then TUser else TChain) c false))) /\
  (user = true \/ acts_empty (check_local fixed e height TChain c false) = false).
Proof.
  unfold trigger_step. destruct user.
  - rewrite on_user_default by reflexivity. intros [= <- <-] _. cbn. tauto.
  - rewrite on_block_default by reflexivity. cbv zeta.
    destruct (acts_empty (check_local fixed e height TChain c false)) eqn:E.
    + intros [= <- <-]. cbn. discriminate.
    + intros [= <- <-] _. cbn. tauto.
Qed.

Definition local_sub_conf (k : close_kind) (c : csets) : Prop :=
  forall l, In l (outs (c_local c)) -> In (h_idx l) (idxs (outs (conf_of k c))).

Lemma classification_broadcast_partial e user h0 k h1 c r a1 ef1 :
  uni k = true -> r_breach r = false -> wf c -> res_complete r (conf_of k c) ->
  local_sub_conf k c ->
  trigger_step false e user h0 c = Some (a1, ef1) -> f_force ef1 = 1 ->
  exists a2 ef2,
    on_close false e a1 k h1 c r c = Some (a2, ef2) /\
    closed_state (ar_state a2) = true /\
    close_guarantees e k c ef2 /\
    (forall x, (cnt x (f_fail ef1 ++ f_fail ef2) <= 1)%nat) /\
    (forall x, In x (idxs (others (kkey k) c)) -> ~ In x (idxs (outs (conf_of k c))) ->
               no_pre e c x ->
               (forall m, In m (others (kkey k) c) -> h_idx m = x -> h_dust m = false) ->
               cnt x (f_fail ef1 ++ f_fail ef2) = 1%nat).
Proof.
  intros U Hb W RC Sh Tr Fc.
  apply trigger_step_broadcast in Tr as (S1 & F1 & _); [|assumption].
  destruct (close_step false e a1 k h1 c r c U (or_intror S1) Hb W RC)
    as (a2 & ef2 & On & CS & _ & F2 & G).
  exists a2, ef2. split; [assumption|]. split; [assumption|]. split; [assumption|].
  rewrite S1 in F2. unfold close_fail in F2. cbn [app] in F2.
  assert (LE : forall x, (cnt x (f_fail ef1 ++ f_fail ef2) <= 1)%nat).
  { intros x. rewrite cnt_app, F1, F2.
    destruct (res_empty r && cs_empty c).
    { cbn [cnt]. pose proof (cnt_nodup_le x (idxs (a_faildust (check_local false e h0
                                  (if user then TUser else TChain) c false)))). lia. }
    rewrite closed_set_unfixed.
    set (L1 := idxs (a_faildust _)). set (L2 := idxs (a_dangling _)).
    pose proof (cnt_nodup_le x L1) as B1. pose proof (cnt_nodup_le x L2) as B2.
    destruct (cnt x (nodup_n L1)) as [|n1] eqn:E1; [lia|].
    destruct (cnt x (nodup_n L2)) as [|n2] eqn:E2; [lia|].
    exfalso.
    assert (I1 : In x L1).
    { apply nodup_n_in. destruct (cnt_zero_iff x (nodup_n L1)) as [_ Z].
      destruct (in_dec N.eq_dec x (nodup_n L1)) as [i|ni]; [assumption|].
      specialize (Z ni). lia. }
    assert (I2 : In x L2).
    { apply nodup_n_in. destruct (cnt_zero_iff x (nodup_n L2)) as [_ Z].
      destruct (in_dec N.eq_dec x (nodup_n L2)) as [i|ni]; [assumption|].
      specialize (Z ni). lia. }
    subst L1 L2.
    apply (proj1 (construct_dangling false e h1 (ktrig k) (kkey k) c x (ktrig_nochain k)))
      in I2 as (m' & Im' & D' & E').
    apply trigger_faildust_sub in I1 as [(l & Il & El & Dl)|(m & Im & Dm & Em & _)].
    - apply cand_props in Im' as (NC & _). apply NC. rewrite E', <- El. now apply Sh.
    - assert (h_dust m = h_dust m')
        by (eapply cand_merged_dust; try eassumption; congruence).
      congruence. }
  split; [exact LE|].
  intros x Io NC NP ND.
  assert (GE : (1 <= cnt x (f_fail ef2))%nat).
  { rewrite F2.
    assert (NE : cs_empty c = false) by (eapply others_nonempty; eassumption).
    rewrite NE, andb_false_r. rewrite closed_set_unfixed.
    rewrite cnt_nodup_in; [lia|].
    apply (proj2 (construct_dangling false e h1 (ktrig k) (kkey k) c x (ktrig_nochain k))).
    pose proof (cand_covers e h1 (kkey k) c x Io NC NP) as Ic.
    apply in_idxs in Ic as (m & Im & Em). exists m. split; [assumption|].
    split; [|assumption]. apply ND; [|assumption].
    pose proof (cand_props e h1 (kkey k) c m Im) as (NC' & _ & J).
    destruct k; try discriminate U; cbn [kkey others]; cbn [kkey conf_set] in *.
    - apply in_app_iff. tauto.
    - destruct J as [J|J]; [|assumption]. exfalso.
      apply NC'. apply in_idxs. now exists m.
    - destruct J as [J|J]; [assumption|]. exfalso.
      apply NC'. apply in_idxs. now exists m. }
  specialize (LE x). rewrite cnt_app in *. lia.
Qed.

(* ---- with the candidate fix: every must-fail index at least once ---- *)
Lemma local_dust_dec c x : local_dust c x \/ ~ local_dust c x.
Proof.
  destruct (existsb (fun l => N.eqb (h_idx l) x && h_dust l) (outs (c_local c))) eqn:E.
  - left. apply existsb_exists in E as (l & I & P). apply andb_true_iff in P as [P Q].
    apply N.eqb_eq in P. now exists l.
  - right. intros (l & I & P & Q).
    assert (T : existsb (fun l => N.eqb (h_idx l) x && h_dust l) (outs (c_local c)) = true).
    { apply existsb_exists. exists l. split; [assumption|]. rewrite Q, andb_true_r.
      now apply N.eqb_eq. }
    congruence.
Qed.

Lemma classification_fixed_direct e k height c r :
  uni k = true -> r_breach r = false -> wf c -> res_complete r (conf_of k c) ->
  exists a' ef,
    on_close true e arb0 k height c r c = Some (a', ef) /\
    closed_state (ar_state a') = true /\
    close_guarantees e k c ef /\
    (forall x, must_fail e (kkey k) c x -> (1 <= cnt x (f_fail ef))%nat).
Proof.
  intros U Hb W RC.
  destruct (close_step true e arb0 k height c r c U (or_introl eq_refl) Hb W RC)
    as (a' & ef & On & CS & _ & F & G).
  exists a', ef. split; [assumption|]. split; [assumption|]. split; [assumption|].
  intros x M. rewrite F. cbn [ar_state arb0].
  apply close_fail_direct_fixed; [apply ktrig_nochain| assumption| assumption].
Qed.

Lemma classification_fixed_broadcast e user h0 k h1 c r a1 ef1 :
  uni k = true -> r_breach r = false -> wf c -> res_complete r (conf_of k c) ->
  trigger_step true e user h0 c = Some (a1, ef1) -> f_force ef1 = 1 ->
  exists a2 ef2,
    on_close true e a1 k h1 c r c = Some (a2, ef2) /\
    closed_state (ar_state a2) = true /\
    close_guarantees e k c ef2 /\
    (forall x, must_fail e (kkey k) c x -> (1 <= cnt x (f_fail ef1 ++ f_fail ef2))%nat).
Proof.
  intros U Hb W RC Tr Fc.
  apply trigger_step_broadcast in Tr as (S1 & F1 & Why); [|assumption].
  destruct (close_step true e a1 k h1 c r c U (or_intror S1) Hb W RC)
    as (a2 & ef2 & On & CS & _ & F2 & G).
  exists a2, ef2. split; [assumption|]. split; [assumption|]. split; [assumption|].
  intros x M. rewrite cnt_app, F1, F2, S1. unfold close_fail. cbn [app].
  rewrite (must_fail_nonempty e (kkey k) c x M), andb_false_r.
  destruct (must_fail_split true e h1 (ktrig k) (kkey k) c x (ktrig_nochain k) W M)
    as [[A B]|[A B]].
  - destruct (local_dust_dec c x) as [L|NL].
    + rewrite cnt_nodup_in; [lia|].
      apply trigger_faildust_local; [|assumption].
      destruct Why as [->|NE]; [now left|].
      destruct user; [now left|right; tauto].
    + rewrite (cnt_nodup_in x (idxs (closed_failback_set true c _)))
        by (apply closed_set_fixed; assumption). lia.
  - rewrite (cnt_nodup_in x (idxs (closed_failback_set true c _)))
      by now apply closed_set_dangling. lia.
Qed.

(* ---- breach ---- *)
Lemma breach_all_failed fixed e a height c r active :
  start_ok a ->
  exists a' ef,
    on_close fixed e a KBreach height c r active = Some (a', ef) /\
    (forall h, In h (outs (c_remote c) ++ outs (c_pending c)) ->
               (1 <= cnt (h_idx h) (f_fail ef))%nat) /\
    res_idxs out_kind (f_resolvers ef) = [] /\
    res_idxs in_kind (f_resolvers ef) = [].
Proof.
  intros S. unfold on_close.
  set (r' := mkRes true (r_anchor r) false [] []).
  destruct (advance_breach fixed e (ar_state a) (ar_unres a) height c active r' S eq_refl)
    as (st' & u' & ef & Adv & F & R & _).
  exists (mkArb st' u' (Some r')), ef. split.
  - unfold run_adv. cbn [ar_state ar_unres ar_res]. now rewrite Adv.
  - split.
    + intros h I. rewrite F, cnt_app.
      rewrite (cnt_nodup_in (h_idx h) (idxs (outs (c_remote c) ++ outs (c_pending c)))).
      * lia.
      * apply in_idxs. exists h. split; [exact I|reflexivity].
    + rewrite R. subst r'. cbn [r_anchor]. destruct (r_anchor r); split; reflexivity.
Qed.

(* ---- no spurious force close: received HTLCs we cannot claim ---- *)
Lemma no_spurious_received fixed e active height :
  (forall h, In h (c_local active ++ c_remote active ++ c_pending active) ->
             h_incoming h = true) ->
  (forall h, In h (c_local active) -> e_pre e (h_hash h) = false) ->
  on_block fixed e arb0 height active = Some (arb0, no_eff).
Proof.
  intros AllIn NoPre.
  pose proof (on_block_default fixed e arb0 height active eq_refl) as On. cbv zeta in On.
  destruct (acts_empty (check_local fixed e height TChain active false)); [exact On|].
  exfalso.
  destruct (no_spurious fixed e active height _ _ On) as (h & Wt); [cbn; discriminate|].
  destruct Wt as [[I _]|[[I [P _]]|[I _]]].
  - apply in_outs in I as [I Inc]. rewrite AllIn in Inc; [discriminate|].
    apply in_app_iff. now left.
  - apply in_ins in I as [I _]. rewrite NoPre in P; [discriminate|assumption].
  - apply in_app_iff in I as [I|I]; apply in_outs in I as [I Inc];
      rewrite AllIn in Inc; try discriminate; rewrite !in_app_iff; tauto.
Qed.

(* ---- the refuting scenario (DESIGN §7-a) ---- *)
Definition w_env : env := mkEnv 10 10 (fun _ => true) 0 14400 (fun _ => false).
Definition w_htlc_local : htlc := mkHtlc 7 false 0 500 1.
Definition w_htlc_remote : htlc := mkHtlc 7 false (-1) 500 1.
Definition w_sets : csets := mkSets [w_htlc_local] [w_htlc_remote] [].
Definition w_res : resolutions := mkRes false false true [] [0%Z].

Lemma w_wf : wf w_sets.
Proof. unfold wf, w_sets. cbn. repeat split; repeat constructor; intros []. Qed.

Lemma w_refutes :
  exists a1 ef1 a2 ef2,
    trigger_step false w_env true 100 w_sets = Some (a1, ef1) /\ f_force ef1 = 1 /\
    on_close false w_env a1 KRemote 101 w_sets w_res w_sets = Some (a2, ef2) /\
    ar_state a2 = SWaitingFullResolution /\
    cnt 7 (f_fail ef1 ++ f_fail ef2) = O /\
    res_idxs out_kind (f_resolvers ef2) = [].
Proof.
  exists (mkArb SCommitmentBroadcasted 0 None), (mkEff [] [] [] 1 0),
         (mkArb SWaitingFullResolution 1 (Some w_res)), (mkEff [] [] [(RCommit, 0)] 0 0).
  vm_compute. repeat split; reflexivity.
Qed.
