(* C13 progress: every history (any interleaving, any stops) can be
   extended, WITHOUT a further stop, to one that marks the channel fully
   resolved.  Proof: an invariant [PInv] that excludes every blocked
   configuration, and a lexicographic measure (major, minor) that some
   enabled thread step strictly decreases in every live state. *)
From Coq Require Import List NArith Bool Arith Lia.
From LV Require Import Arb.RestartModel Arb.RestartProofs.
Import ListNotations.

Definition lvl (a : astate) : nat :=
  match a with
  | SDefault => 5 | SBroadcast => 4 | SCB => 3 | SClosed => 2 | SWaiting => 1 | SFull => 0
  end.

Definition launched (m : mem) : Prop :=
  (m_state m = SWaiting /\ forall t, m_pc m <> MStep t true)
  \/ exists t, m_pc m = MCommit SWaiting t.

Section Progress.
Variable sc : scen.
Hypothesis Hwf : wf_scen sc = true.

Record PInv (s : st) : Prop := {
  q_done : m_pc (mm s) = MDone -> d_full (dk s) = false -> m_fin (mm s) = Some 0;
  q_cd : m_closedeliv (mm s) = true ->
         d_closed (dk s) = true \/ exists i, m_pc (mm s) = MClose i;
  q_ud : m_userdone (mm s) = true ->
         m_state (mm s) <> SDefault \/ m_pc (mm s) = MStep TUser false
         \/ m_pc (mm s) = MCommit SBroadcast TUser;
  q_late : early (m_state (mm s)) = false -> d_closed (dk s) = true;
  q_trig : pc_trig (m_pc (mm s)) = Some TClose -> d_closed (dk s) = true;
  q_closed : d_full (dk s) = false -> d_closed (dk s) = true ->
             sc_kind sc = KCoop \/ d_res (dk s) = true;
  q_mclose : forall i, m_pc (mm s) = MClose (S i) -> sc_kind sc = KCoop \/ d_res (dk s) = true;
  q_scb : (m_state (mm s) = SCB \/ exists t, m_pc (mm s) = MPublish t \/ m_pc (mm s) = MCommit SCB t) ->
          d_bcast (dk s) = true;
  q_noidle : m_pc (mm s) = MIdle ->
             m_state (mm s) = SDefault \/ m_state (mm s) = SCB \/ m_state (mm s) = SWaiting;
  q_mce : forall i, m_pc (mm s) = MClose i -> m_state (mm s) = SDefault \/ m_state (mm s) = SCB;
  q_early : d_full (dk s) = false -> d_closed (dk s) = true -> early (m_state (mm s)) = true ->
            pc_trig (m_pc (mm s)) = Some TClose;
  q_bc : forall t, m_pc (mm s) = MBcast t \/ m_pc (mm s) = MPublish t -> m_state (mm s) = SBroadcast;
  q_commit : forall a t, m_pc (mm s) = MCommit a t -> lvl a < lvl (m_state (mm s));
  q_commit_late : forall a t, m_pc (mm s) = MCommit a t -> early a = false -> d_closed (dk s) = true;
  q_clres : m_state (mm s) = SClosed -> d_full (dk s) = false -> d_res (dk s) = true;
  q_clres2 : forall t, m_pc (mm s) = MCommit SClosed t -> d_res (dk s) = true;
  q_launch : launched (mm s) -> forall k p, d_con (dk s) k = Some p -> m_res (mm s) k <> None;
  q_wait : m_state (mm s) = SWaiting -> m_pc (mm s) = MIdle -> m_sigs (mm s) = 0 ->
           exists k p, d_con (dk s) k = Some p;
  q_dlate : early (d_state (dk s)) = false -> d_closed (dk s) = true
}.

Lemma pinv_init : PInv init.
Proof.
  constructor; simpl; try solve [intros; discriminate | intros; congruence].
  all: try solve [intros [H|[t [H|H]]]; discriminate | intros t [H|H]; discriminate
                 | unfold launched; simpl; intros [[H _]|[t H]]; discriminate].
Qed.

Lemma live_of_pc : forall s, Inv2 sc s -> m_pc (mm s) <> MDone ->
  d_full (dk s) = false /\ m_fin (mm s) = None.
Proof.
  intros s J H. split.
  - destruct (d_full (dk s)) eqn:Ef; auto.
    destruct (j_full sc s J Ef) as (_ & H1 & _). contradiction.
  - destruct (m_fin (mm s)) eqn:Em; auto.
    assert (Hne : m_fin (mm s) <> None) by congruence.
    destruct (j_fin sc s J Hne) as (H1 & _). contradiction.
Qed.

Lemma close_next_lvl : forall d, lvl (close_next sc d) <= 2.
Proof. intros d. unfold close_next. destruct (sc_kind sc); try destruct (d_res d); simpl; lia. Qed.

Lemma close_next_nw : forall d, close_next sc d <> SWaiting.
Proof. intros d. unfold close_next. destruct (sc_kind sc); try destruct (d_res d); discriminate. Qed.

Lemma close_next_closed_res : forall d,
  (sc_kind sc = KCoop \/ d_res d = true) -> close_next sc d = SClosed -> d_res d = true.
Proof.
  intros d H. unfold close_next. destruct (sc_kind sc) eqn:Ek.
  - discriminate.
  - destruct H; [discriminate|auto].
  - destruct H; [discriminate|auto].
  - destruct (d_res d); [auto|discriminate].
Qed.

Lemma forallb_false : forall A (f : A -> bool) l, forallb f l = false ->
  exists x, In x l /\ f x = false.
Proof.
  induction l as [|a l IH]; simpl; intros H; [discriminate|].
  destruct (f a) eqn:E.
  - destruct (IH H) as (x & Hin & Hx). exists x. auto.
  - exists a. auto.
Qed.

Lemma no_contracts_false : forall d, no_contracts sc d = false ->
  exists r p, In r (sc_resolvers sc) /\ d_con d (r_key r) = Some p.
Proof.
  intros d H. unfold no_contracts in H. apply forallb_false in H.
  destruct H as (r & Hin & Hr). exists r.
  destruct (d_con d (r_key r)) as [p|]; [|discriminate]. exists p. auto.
Qed.

(* an arbitrator step that leaves contracts, resolver goroutines, c.state and
   the fin thread alone *)
Lemma pinv_pc : forall s d' m' o',
  Inv2 sc s -> PInv s -> m_pc (mm s) <> MDone ->
  d_con d' = d_con (dk s) -> d_full d' = d_full (dk s) -> d_state d' = d_state (dk s) ->
  m_res m' = m_res (mm s) -> m_state m' = m_state (mm s) -> m_fin m' = m_fin (mm s) ->
  (d_closed (dk s) = true -> d_closed d' = true) ->
  (d_bcast (dk s) = true -> d_bcast d' = true) ->
  (d_res (dk s) = true -> d_res d' = true) ->
  m_pc m' <> MDone ->
  (m_closedeliv m' = true -> d_closed d' = true \/ exists i, m_pc m' = MClose i) ->
  (m_userdone m' = true -> m_state m' <> SDefault \/ m_pc m' = MStep TUser false
                           \/ m_pc m' = MCommit SBroadcast TUser) ->
  (pc_trig (m_pc m') = Some TClose -> d_closed d' = true) ->
  (d_closed d' = true -> sc_kind sc = KCoop \/ d_res d' = true) ->
  (forall i, m_pc m' = MClose (S i) -> sc_kind sc = KCoop \/ d_res d' = true) ->
  ((exists t, m_pc m' = MPublish t \/ m_pc m' = MCommit SCB t) -> d_bcast d' = true) ->
  (m_pc m' = MIdle -> m_state m' = SDefault \/ m_state m' = SCB \/ m_state m' = SWaiting) ->
  (forall i, m_pc m' = MClose i -> m_state m' = SDefault \/ m_state m' = SCB) ->
  (d_closed d' = true -> early (m_state m') = true -> pc_trig (m_pc m') = Some TClose) ->
  (forall t, m_pc m' = MBcast t \/ m_pc m' = MPublish t -> m_state m' = SBroadcast) ->
  (forall a t, m_pc m' = MCommit a t -> lvl a < lvl (m_state m')) ->
  (forall a t, m_pc m' = MCommit a t -> early a = false -> d_closed d' = true) ->
  (forall t, m_pc m' = MCommit SClosed t -> d_res d' = true) ->
  (launched m' -> launched (mm s) \/ forall k, d_con (dk s) k = None) ->
  (m_state m' = SWaiting -> m_pc m' = MIdle -> m_sigs m' = 0 ->
   exists k p, d_con d' k = Some p) ->
  PInv (mkSt d' m' o').
Proof.
  intros s d' m' o' J I Hpc Hcon Hfull Hdst Hmres Hmst Hmfin Hclm Hbcm Hresm
         O1 O2 O3 O4 O5 O6 O7 O8 O9 O10 O11 O12 O13 O14 O15 O16.
  destruct (live_of_pc s J Hpc) as [Hnf Hnfin].
  constructor; simpl.
  - intros H. contradiction.
  - exact O2.
  - exact O3.
  - rewrite Hmst. intros H. apply Hclm. apply (q_late s I H).
  - exact O4.
  - intros _. exact O5.
  - exact O6.
  - rewrite Hmst. intros [H|H]; [|apply O7; exact H]. apply Hbcm. apply (q_scb s I). left. exact H.
  - exact O8.
  - exact O9.
  - intros _. exact O10.
  - exact O11.
  - exact O12.
  - exact O13.
  - rewrite Hmst, Hfull. intros H1 H2. apply Hresm. apply (q_clres s I H1 H2).
  - exact O14.
  - rewrite Hcon, Hmres. intros HL k p Hc. destruct (O15 HL) as [H|H].
    + apply (q_launch s I H k p Hc).
    + rewrite H in Hc. discriminate.
  - exact O16.
  - rewrite Hdst. intros H. apply Hclm. apply (q_dlate s I H).
Qed.

Ltac triv :=
  simpl; try solve
    [ intros; discriminate
    | intros ? [?|?]; discriminate
    | intros [? [?|?]]; discriminate
    | intros (? & ? & ?); discriminate
    | intros [? ?]; discriminate
    | intros; reflexivity
    | intros; assumption ].

Ltac pq J I Epc :=
  eapply (pinv_pc _ _ _ _ J I);
  [ rewrite Epc; discriminate
  | reflexivity | reflexivity | reflexivity | reflexivity
  | first [reflexivity | symmetry; assumption] | reflexivity
  | triv | triv | triv
  | triv | triv | triv | triv | triv | triv | triv | triv | triv | triv | triv | triv
  | triv | triv | triv | triv ];
  unfold set_pc; simpl;
  try match goal with E : m_state (mm _) = _ |- _ => rewrite E end.


Ltac old_ud Qud :=
  let H := fresh in
  intros H; destruct (Qud H) as [?|[?|?]]; [left; assumption | discriminate | discriminate].

Ltac lnch Epc :=
  unfold launched; simpl; intros [[? ?]|[? ?]];
  [ left; left; split; [assumption | rewrite Epc; intros; discriminate] | discriminate ].

Ltac old_cd Qcd :=
  let H := fresh in
  intros H; destruct (Qcd H) as [?|[? ?]]; [left; assumption | discriminate].

Ltac fin Epc Qud Qcd :=
  try solve
    [ triv
    | intros; right; eexists; reflexivity
    | old_ud Qud
    | old_cd Qcd
    | lnch Epc
    | unfold launched; simpl; intros [[? ?]|[? ?]]; discriminate
    | intros; auto
    | intros; left; auto
    | intros; left; discriminate
    | intros; match goal with E : sc_kind sc = _ |- _ => rewrite E end; auto
    | let A := fresh in let B := fresh in
      intros A B; simpl in B; try discriminate;
      match goal with Q : d_closed _ = true -> early _ = true -> _ |- _ =>
        specialize (Q A B); first [discriminate | assumption] end
    | let H := fresh in
      intros ? ? H; inversion H; subst; simpl;
      first [lia | discriminate
            | match goal with |- context [close_next sc ?d] =>
                pose proof (close_next_lvl d); lia end] ].

Lemma pinv_main : forall s, Inv2 sc s -> PInv s -> PInv (main_step sc s).
Proof.
  intros s J I. unfold main_step.
  destruct (m_pc (mm s)) as [| |i|t r|a t|t|t|t] eqn:Epc; [| exact I | | | | | |].
  all: destruct (live_of_pc s J ltac:(rewrite Epc; discriminate)) as [Hnf Hnfin].
  all: pose proof (q_cd s I) as Qcd; pose proof (q_ud s I) as Qud;
       pose proof (q_late s I) as Qlate; pose proof (q_trig s I) as Qtrig;
       pose proof (q_closed s I Hnf) as Qclosed; pose proof (q_mclose s I) as Qmclose;
       pose proof (q_scb s I) as Qscb; pose proof (q_noidle s I) as Qnoidle;
       pose proof (q_mce s I) as Qmce; pose proof (q_early s I Hnf) as Qearly;
       pose proof (q_bc s I) as Qbc; pose proof (q_commit s I) as Qcommit;
       pose proof (q_commit_late s I) as Qcl; pose proof (q_clres s I) as Qclres;
       pose proof (q_clres2 s I) as Qclres2; pose proof (q_wait s I) as Qwait;
       pose proof (q_dlate s I) as Qdlate;
       rewrite Epc in Qcd, Qud, Qtrig, Qmclose, Qscb, Qnoidle, Qmce, Qearly, Qbc, Qcommit,
                      Qcl, Qclres2, Qwait;
       simpl in Qtrig, Qearly.
  - (* MIdle *)
    destruct (negb (d_closed (dk s)) && negb (m_closedeliv (mm s)) &&
              (negb (sc_userfc sc) || d_bcast (dk s))) eqn:E1.
    { assert (Hncl : d_closed (dk s) = false).
      { destruct (d_closed (dk s)); [discriminate|reflexivity]. }
      assert (Hst : m_state (mm s) = SDefault \/ m_state (mm s) = SCB).
      { destruct (Qnoidle eq_refl) as [H|[H|H]]; auto.
        rewrite H in Qlate. specialize (Qlate eq_refl). congruence. }
      destruct (sc_kind sc) eqn:Ek; pq J I Epc; fin Epc Qud Qcd. }
    destruct (sc_userfc sc && negb (m_userdone (mm s)) && negb (d_closed (dk s))) eqn:E2.
    { assert (Hncl : d_closed (dk s) = false).
      { destruct (d_closed (dk s)); [|reflexivity]. rewrite andb_false_r in E2. discriminate. }
      destruct (m_state (mm s)) eqn:Ems; pq J I Epc; fin Epc Qud Qcd.
      all: try (intros; congruence). }
    destruct (m_sigs (mm s)) eqn:Es; [exact I|].
    pq J I Epc; fin Epc Qud Qcd.
  - (* MClose *)
    destruct i as [|[|i]].
    + pq J I Epc; fin Epc Qud Qcd. all: try (intros; apply (Qmce _ eq_refl)).
    + pq J I Epc; fin Epc Qud Qcd.
      all: try (intros; apply (Qmclose _ eq_refl)).
      all: try (intros; apply (Qmce _ eq_refl)).
    + pq J I Epc; fin Epc Qud Qcd. all: try (intros; apply (Qmclose _ eq_refl)).
  - (* MStep *)
    destruct (m_state (mm s)) eqn:Ems.
    + (* Default *)
      destruct t.
      * destruct (d_cset (dk s) && sc_cs_acts sc) eqn:Ec.
        -- pq J I Epc; fin Epc Qud Qcd.
        -- pq J I Epc; fin Epc Qud Qcd.
      * pq J I Epc; fin Epc Qud Qcd.
      * pq J I Epc; fin Epc Qud Qcd.
        all: try (intros [t0 [H|H]]; [discriminate|]; inversion H as [[H1]];
                  pose proof (close_next_lvl (dk s)) as L; rewrite H1 in L; simpl in L; lia).
        all: try (intros t0 H; inversion H as [[H1]];
                  apply (close_next_closed_res _ (Qclosed (Qtrig eq_refl)) H1)).
        all: try (unfold launched; simpl; intros [[H _]|[t0 H]]; [discriminate|];
                  inversion H as [[H1]]; exfalso; eapply close_next_nw; eauto).
    + (* Broadcast *)
      destruct t.
      * pq J I Epc; fin Epc Qud Qcd.
      * pq J I Epc; fin Epc Qud Qcd.
      * pq J I Epc; fin Epc Qud Qcd.
        all: try (intros [t0 [H|H]]; [discriminate|]; inversion H as [[H1]];
                  pose proof (close_next_lvl (dk s)) as L; rewrite H1 in L; simpl in L; lia).
        all: try (intros t0 H; inversion H as [[H1]];
                  apply (close_next_closed_res _ (Qclosed (Qtrig eq_refl)) H1)).
        all: try (unfold launched; simpl; intros [[H _]|[t0 H]]; [discriminate|];
                  inversion H as [[H1]]; exfalso; eapply close_next_nw; eauto).
    + (* CB *)
      destruct t.
      * pq J I Epc; fin Epc Qud Qcd.
      * pq J I Epc; fin Epc Qud Qcd.
      * pq J I Epc; fin Epc Qud Qcd.
        all: try (intros [t0 [H|H]]; [discriminate|]; inversion H as [[H1]];
                  pose proof (close_next_lvl (dk s)) as L; rewrite H1 in L; simpl in L; lia).
        all: try (intros t0 H; inversion H as [[H1]];
                  apply (close_next_closed_res _ (Qclosed (Qtrig eq_refl)) H1)).
        all: try (unfold launched; simpl; intros [[H _]|[t0 H]]; [discriminate|];
                  inversion H as [[H1]]; exfalso; eapply close_next_nw; eauto).
    + (* Closed *)
      destruct (negb (d_res (dk s))) eqn:Er.
      { exfalso. rewrite (Qclres eq_refl Hnf) in Er. discriminate. }
      destruct (sc_empty sc) eqn:Ee.
      { pq J I Epc; fin Epc Qud Qcd. }
      pq J I Epc; fin Epc Qud Qcd.
    + (* Waiting *)
      destruct (no_contracts sc (dk s)) eqn:En.
      { pq J I Epc; fin Epc Qud Qcd.
        intros _. right. apply (no_contracts_none sc s J En). }
      destruct r.
      * (* relaunchResolvers *)
        constructor; simpl; fin Epc Qud Qcd.
        -- intros [H|[t0 [H|H]]]; discriminate.
        -- intros _ k p Hc. unfold relaunch. rewrite Hc.
           pose proof (j_keys sc s J k p Hc) as Hk.
           destruct (find_spec sc k); [discriminate|contradiction].
        -- intros _ _ _. destruct (no_contracts_false _ En) as (r0 & p0 & _ & Hc). eauto.
      * pq J I Epc; fin Epc Qud Qcd.
        intros _ _ _. destruct (no_contracts_false _ En) as (r0 & p0 & _ & Hc). eauto.
    + (* Full *)
      rewrite Hnfin.
      constructor; simpl; fin Epc Qud Qcd.
      intros [H|[t0 [H|H]]]; discriminate.
  - (* MCommit *)
    assert (Hlv : lvl a < lvl (m_state (mm s))) by (apply (Qcommit a t eq_refl)).
    constructor; simpl; fin Epc Qud Qcd.
    + intros _. left. intros ->. simpl in Hlv. destruct (m_state (mm s)); simpl in Hlv; lia.
    + intros H. apply (Qcl a t eq_refl H).
    + intros [H|[t0 [H|H]]]; try discriminate. subst a. apply Qscb. right. exists t. right. reflexivity.
    + intros _ A B. apply Qearly; auto.
      destruct a, (m_state (mm s)); simpl in *; try reflexivity; try discriminate; lia.
    + intros -> _. apply (Qclres2 t eq_refl).
    + unfold launched; simpl. intros [[H _]|[t0 H]]; [|discriminate]. subst a.
      apply (q_launch s I). right. exists t. exact Epc.
    + intros H. apply (Qcl a t eq_refl H).
  - (* MBcast *)
    pq J I Epc; fin Epc Qud Qcd. all: try (intros; apply (Qbc t); left; reflexivity).
  - (* MPublish *)
    assert (Hsb : m_state (mm s) = SBroadcast) by (apply (Qbc t); right; reflexivity).
    pq J I Epc; fin Epc Qud Qcd.
    all: try (intros; apply Qscb; right; eexists; left; reflexivity).
    all: try (intros a0 t0 H; inversion H; rewrite Hsb; simpl; lia).
    all: try (intros a0 t0 H; inversion H; discriminate).
    intros A _. apply Qearly; auto. rewrite Hsb. reflexivity.
  - (* MInsert *)
    destruct (j_ins sc s J t Epc) as [Hres Hcl].
    constructor; simpl; fin Epc Qud Qcd.
    + intros [H|[t0 [H|H]]]; try discriminate. congruence.
    + intros a0 t0 H. inversion H. rewrite Hcl. simpl. lia.
    + intros a0 t0 H _. apply Qlate. rewrite Hcl. reflexivity.
    + intros _ k p Hc. unfold insert_con in Hc. unfold insert_res.
      destruct (find_spec sc k) eqn:Hf; [discriminate|].
      exfalso. apply (j_keys sc s J k p Hc Hf).
Qed.


Lemma pinv_res : forall s k, Inv2 sc s -> PInv s -> PInv (res_step sc s k).
Proof.
  intros s k J I. unfold res_step.
  destruct (m_res (mm s) k) as [[p e]|] eqn:Er; [|exact I].
  destruct (find_spec sc k) as [r|] eqn:Hf; [|exact I].
  pose proof (q_launch s I) as Ql. pose proof (q_wait s I) as Qw.
  destruct (nth_error (r_stages r) p) as [g|] eqn:Hn.
  - destruct e.
    + destruct I; constructor; simpl; auto.
      * intros HL k' p' H'. destruct (N.eqb_spec k' k) as [->|Hne].
        -- rewrite upd_same. discriminate.
        -- rewrite upd_other in H' by auto. rewrite upd_other by auto. eapply Ql; eauto.
      * intros _ _ _. exists k, (S p). apply upd_same.
    + destruct I; constructor; simpl; auto.
      intros HL k' p' H'. destruct (N.eqb_spec k' k) as [->|Hne].
      * rewrite upd_same. discriminate.
      * rewrite upd_other by auto. eapply Ql; eauto.
  - destruct I; constructor; simpl; auto.
    + intros HL k' p' H'. destruct (N.eqb_spec k' k) as [->|Hne].
      * rewrite upd_same in H'. discriminate.
      * rewrite upd_other in H' by auto. rewrite upd_other by auto. eapply Ql; eauto.
    + intros; discriminate.
Qed.

Lemma pinv_anchor : forall s, PInv s -> PInv (anchor_step s).
Proof.
  intros s I. unfold anchor_step. destruct (m_anchor (mm s)); auto.
  destruct I; constructor; simpl; auto. intros; discriminate.
Qed.

Lemma pinv_fin : forall s, Inv2 sc s -> PInv s -> PInv (fin_step s).
Proof.
  intros s J I. unfold fin_step.
  destruct (m_fin (mm s)) as [[|[|n]]|] eqn:Em; auto.
  - assert (Hne : m_fin (mm s) <> None) by congruence.
    destruct (j_fin sc s J Hne) as (Hpc & Hst & _).
    pose proof (q_cd s I) as Qcd. pose proof (q_late s I) as Qlate.
    pose proof (q_dlate s I) as Qdlate.
    rewrite Hpc in Qcd. rewrite Hst in *.
    constructor; simpl; try solve [triv | intros [H|[t [H|H]]]; discriminate].
    + intros H. destruct (Qcd H) as [?|[? ?]]; [left; assumption|discriminate].
    + intros _. left. discriminate.
    + exact Qlate.
    + unfold launched; simpl. intros [[H _]|[t H]]; discriminate.
    + exact Qdlate.
  - assert (Hne : m_fin (mm s) <> None) by congruence.
    destruct (j_fin sc s J Hne) as (Hpc & Hst & Hfull).
    pose proof (Hfull 0 Em) as Ef.
    pose proof (q_cd s I) as Qcd. pose proof (q_late s I) as Qlate.
    rewrite Hpc in Qcd. rewrite Hst in *.
    constructor; simpl; try solve [triv | intros [H|[t [H|H]]]; discriminate | congruence].
    + intros H. destruct (Qcd H) as [?|[? ?]]; [left; assumption|discriminate].
    + intros _. left. discriminate.
    + exact Qlate.
Qed.

Lemma pinv_crash : forall s, Inv2 sc s -> PInv s -> PInv (step sc s ECrash).
Proof.
  intros s J I. simpl. unfold restart. destruct (d_full (dk s)) eqn:Ef.
  - destruct (j_full sc s J Ef) as (_ & _ & _ & Hst).
    pose proof (q_dlate s I) as Qdlate.
    constructor; simpl; try solve [triv | congruence | intros [H|[t [H|H]]]; discriminate].
    + exact Qdlate.
    + intros [H|[t [H|H]]]; try discriminate. destruct Hst; congruence.
    + unfold launched; simpl. intros [[H _]|[t H]]; [|discriminate]. destruct Hst; congruence.
    + exact Qdlate.
  - pose proof (j_state sc s J Ef) as Hs.
    pose proof (q_dlate s I) as Qdlate. pose proof (q_closed s I) as Qclosed.
    pose proof (q_scb s I) as Qscb. pose proof (q_clres s I) as Qclres.
    constructor; simpl; try solve [triv | congruence | intros [H|[t [H|H]]]; discriminate].
    + exact Qdlate.
    + destruct (d_closed (dk s) && early (d_state (dk s))) eqn:E; [|discriminate].
      intros _. apply andb_true_iff in E. apply E.
    + exact Qclosed.
    + intros [H|[t [H|H]]]; try discriminate. apply Qscb. left. congruence.
    + intros _ A B. rewrite A, B. reflexivity.
    + intros A B. apply Qclres; congruence.
    + unfold launched; simpl. intros [[H H2]|[t H]]; [|discriminate].
      exfalso. rewrite H in H2. simpl in H2. eapply H2. reflexivity.
    + exact Qdlate.
Qed.

Lemma pinv_step : forall s e, Inv2 sc s -> PInv s -> PInv (step sc s e).
Proof.
  intros s [[|k| |]|] J I.
  - apply pinv_main; auto.
  - apply pinv_res; auto.
  - apply pinv_anchor; auto.
  - apply pinv_fin; auto.
  - apply pinv_crash; auto.
Qed.

Lemma pinv_run : forall h, PInv (run sc h).
Proof.
  intros h.
  assert (H : Inv2 sc (run sc h) /\ PInv (run sc h)).
  { apply (reach_ind sc (fun s => Inv2 sc s /\ PInv s)).
    - split; [apply inv2_init|apply pinv_init].
    - intros s e [J I]. split; [apply inv2_step; auto|apply pinv_step; auto].
    - exists h; reflexivity. }
  apply H.
Qed.


(* ------------------------------------------------------------------ *)
(* the measure *)

Definition pot (v : option (nat * bool)) (r : rspec) : nat :=
  match v with
  | None => 0
  | Some (p, e) => 2 * (length (r_stages r) - p) + 1 + (if e then 0 else 1)
  end.

Fixpoint tsum (f : N -> option (nat * bool)) (l : list rspec) : nat :=
  match l with
  | [] => 0
  | r :: t => pot (f (r_key r)) r + tsum f t
  end.

Definition pcrank (m : mem) : nat :=
  match m_pc m with
  | MDone => 1
  | MCommit _ _ => 1
  | MIdle => 8
  | MClose 0 => 6
  | MClose 1 => 5
  | MClose _ => 4
  | MBcast _ => 7
  | MPublish _ => 6
  | MInsert _ => 7
  | MStep t r =>
    match m_state m with
    | SDefault => match t with TChain => 9 | _ => 3 end
    | SCB => match t with TClose => 3 | _ => 9 end
    | SWaiting => if r then 9 else 8
    | _ => 9
    end
  end.

Definition major (s : st) : nat :=
  if d_full (dk s) then 0 else 10 * lvl (m_state (mm s)) + pcrank (mm s).

Definition minor (s : st) : nat :=
  3 * m_sigs (mm s) + 4 * tsum (m_res (mm s)) (sc_resolvers sc)
  + (match m_pc (mm s) with MStep _ _ => 1 | _ => 0 end)
  + (if m_userdone (mm s) then 0 else 1).

Definition lexlt (s' s : st) : Prop :=
  major s' < major s \/ (major s' = major s /\ minor s' < minor s).

Lemma tsum_upd_notin : forall f k v l,
  existsb (fun x => N.eqb (r_key x) k) l = false -> tsum (upd f k v) l = tsum f l.
Proof.
  induction l as [|a l IH]; simpl; intros H; [reflexivity|].
  apply orb_false_iff in H. destruct H as [H1 H2].
  unfold upd at 1. rewrite H1. rewrite IH by exact H2. reflexivity.
Qed.

Lemma tsum_upd : forall f k v l r, keys_nodup l = true -> In r l -> r_key r = k ->
  tsum (upd f k v) l + pot (f k) r = tsum f l + pot v r.
Proof.
  induction l as [|a l IH]; simpl; intros r Hn Hin Hk; [contradiction|].
  apply andb_true_iff in Hn. destruct Hn as [Hex Hn]. apply negb_true_iff in Hex.
  destruct Hin as [->|Hin].
  - rewrite Hk. rewrite upd_same. rewrite Hk in Hex.
    rewrite tsum_upd_notin by exact Hex. lia.
  - assert (Hne : r_key a <> k).
    { intros E. assert (X : existsb (fun x => N.eqb (r_key x) (r_key a)) l = true).
      { apply existsb_exists. exists r. split; auto. apply N.eqb_eq. congruence. }
      congruence. }
    rewrite upd_other by exact Hne. specialize (IH r Hn Hin Hk). lia.
Qed.

(* in every live state some enabled thread step decreases the measure *)
Lemma idle_waiting : forall s, PInv s -> d_full (dk s) = false -> m_pc (mm s) = MIdle ->
  negb (d_closed (dk s)) && negb (m_closedeliv (mm s)) &&
    (negb (sc_userfc sc) || d_bcast (dk s)) = false ->
  sc_userfc sc && negb (m_userdone (mm s)) && negb (d_closed (dk s)) = false ->
  m_state (mm s) = SWaiting /\ d_closed (dk s) = true.
Proof.
  intros s I Hnf Epc E1 E2.
  pose proof (q_cd s I) as Qcd. pose proof (q_ud s I) as Qud.
  pose proof (q_early s I Hnf) as Qearly. pose proof (q_scb s I) as Qscb.
  pose proof (q_late s I) as Qlate.
  rewrite Epc in Qcd, Qud, Qearly. simpl in Qearly.
  destruct (d_closed (dk s)) eqn:Ec.
  - split; [|reflexivity].
    destruct (q_noidle s I Epc) as [H|[H|H]]; auto;
      rewrite H in Qearly; specialize (Qearly eq_refl eq_refl); discriminate.
  - exfalso. simpl in E1, E2.
    assert (Hcd : m_closedeliv (mm s) = false).
    { destruct (m_closedeliv (mm s)); auto. destruct (Qcd eq_refl) as [?|[? ?]]; discriminate. }
    rewrite Hcd in E1. simpl in E1. apply orb_false_iff in E1. destruct E1 as [E1a E1b].
    apply negb_false_iff in E1a. rewrite E1a, andb_true_r in E2. simpl in E2.
    apply negb_false_iff in E2.
    destruct (q_noidle s I Epc) as [H|[H|H]].
    + destruct (Qud E2) as [?|[?|?]]; try discriminate. contradiction.
    + rewrite Qscb in E1b; [discriminate|]. left. exact H.
    + rewrite H in Qlate. specialize (Qlate eq_refl). discriminate.
Qed.


Ltac meas Hnf := unfold lexlt, major, minor, pcrank; simpl; rewrite ?Hnf; simpl.

Lemma dec : forall s, Inv2 sc s -> PInv s -> d_full (dk s) = false ->
  exists t, lexlt (tstep sc s t) s.
Proof.
  intros s J I Hnf.
  destruct (m_pc (mm s)) as [| |i|t r|a t|t|t|t] eqn:Epc.
  - (* MIdle *)
    destruct (negb (d_closed (dk s)) && negb (m_closedeliv (mm s)) &&
              (negb (sc_userfc sc) || d_bcast (dk s))) eqn:E1.
    { exists TMain. simpl. unfold main_step. rewrite Epc, E1.
      destruct (sc_kind sc); left; meas Hnf; rewrite Epc; lia. }
    destruct (sc_userfc sc && negb (m_userdone (mm s)) && negb (d_closed (dk s))) eqn:E2.
    { exists TMain. simpl. unfold main_step. rewrite Epc, E1, E2.
      assert (Hud : m_userdone (mm s) = false).
      { destruct (m_userdone (mm s)); auto. rewrite andb_false_r in E2. discriminate. }
      destruct (m_state (mm s)) eqn:Ems.
      - left. meas Hnf. rewrite Epc, Ems. simpl. lia.
      - right. meas Hnf. rewrite Epc, Ems, Hud. simpl. lia.
      - right. meas Hnf. rewrite Epc, Ems, Hud. simpl. lia.
      - right. meas Hnf. rewrite Epc, Ems, Hud. simpl. lia.
      - right. meas Hnf. rewrite Epc, Ems, Hud. simpl. lia.
      - right. meas Hnf. rewrite Epc, Ems, Hud. simpl. lia. }
    destruct (idle_waiting s I Hnf Epc E1 E2) as [Hw Hcl].
    destruct (m_sigs (mm s)) eqn:Es.
    + (* a resolver goroutine must be live *)
      destruct (q_wait s I Hw Epc Es) as (k & p & Hc).
      assert (HL : launched (mm s)).
      { left. split; [exact Hw|]. rewrite Epc. discriminate. }
      pose proof (q_launch s I HL k p Hc) as Hm.
      destruct (m_res (mm s) k) as [[p' e]|] eqn:Er; [|contradiction].
      destruct (j_thr sc s J k p' e Er) as [Hfs Hcc].
      destruct (find_spec sc k) as [r|] eqn:Hf; [|contradiction].
      destruct (find_spec_in sc k r Hf) as [Hin Hkey].
      pose proof (fun v => tsum_upd (m_res (mm s)) k v _ r (wf_nodup sc Hwf) Hin Hkey) as TS.
      rewrite Er in TS. simpl in TS.
      exists (TRes k). simpl. unfold res_step. rewrite Er, Hf.
      destruct (nth_error (r_stages r) p') as [g|] eqn:Hn.
      * assert (Hlt : p' < length (r_stages r)) by (apply nth_error_Some; congruence).
        destruct e.
        -- right. specialize (TS (Some (S p', false))). simpl in TS.
           meas Hnf. rewrite Epc, Es. destruct (m_userdone (mm s)); lia.
        -- right. specialize (TS (Some (p', true))). simpl in TS.
           meas Hnf. rewrite Epc, Es. destruct (m_userdone (mm s)); lia.
      * right. specialize (TS None). simpl in TS. destruct e.
        all: meas Hnf; rewrite Epc, Es; destruct (m_userdone (mm s)); lia.
    + exists TMain. simpl. unfold main_step. rewrite Epc, E1, E2, Es.
      right. meas Hnf. rewrite Epc, Hw, Es. simpl. destruct (m_userdone (mm s)); lia.
  - (* MDone *)
    exists TFin. simpl. unfold fin_step. rewrite (q_done s I Epc Hnf).
    left. meas Hnf. rewrite Epc. lia.
  - (* MClose *)
    exists TMain. simpl. unfold main_step. rewrite Epc.
    destruct (q_mce s I i Epc) as [Hs|Hs];
      destruct i as [|[|i]]; left; meas Hnf; rewrite Epc, Hs; simpl; lia.
  - (* MStep *)
    exists TMain. simpl. unfold main_step. rewrite Epc.
    destruct (m_state (mm s)) eqn:Ems.
    + destruct t; [destruct (d_cset (dk s) && sc_cs_acts sc)| |];
        left; meas Hnf; rewrite Epc, Ems; simpl; lia.
    + destruct t; left; meas Hnf; rewrite Epc, Ems; simpl; lia.
    + destruct t; left; meas Hnf; rewrite Epc, Ems; simpl; lia.
    + destruct (negb (d_res (dk s))); [|destruct (sc_empty sc)];
        left; meas Hnf; rewrite Epc, Ems; simpl; lia.
    + destruct (no_contracts sc (dk s)).
      { left; meas Hnf; rewrite Epc, Ems; simpl; destruct r; lia. }
      destruct r.
      * left; meas Hnf; rewrite Epc, Ems; simpl; lia.
      * right; meas Hnf; rewrite Epc, Ems; simpl; destruct (m_userdone (mm s)); lia.
    + left; meas Hnf; rewrite Epc, Ems; simpl; lia.
  - (* MCommit *)
    exists TMain. simpl. unfold main_step. rewrite Epc.
    pose proof (q_commit s I a t Epc) as Hlv.
    left. meas Hnf. rewrite Epc. destruct a, t; simpl in *; lia.
  - exists TMain. simpl. unfold main_step. rewrite Epc. left. meas Hnf. rewrite Epc. lia.
  - exists TMain. simpl. unfold main_step. rewrite Epc. left. meas Hnf. rewrite Epc. lia.
  - exists TMain. simpl. unfold main_step. rewrite Epc. left. meas Hnf. rewrite Epc. lia.
Qed.


Definition nocrash (h : list ev) : Prop := forall e, In e h -> e <> ECrash.

Lemma prog_lex : forall M m h, major (run sc h) <= M -> minor (run sc h) <= m ->
  exists h', nocrash h' /\ terminal (run sc (h ++ h')) = true.
Proof.
  induction M as [M IHM] using lt_wf_ind.
  induction m as [m IHm] using lt_wf_ind.
  intros h HM Hm.
  destruct (d_full (dk (run sc h))) eqn:Ef.
  - exists []. split; [intros e []|]. rewrite app_nil_r. exact Ef.
  - destruct (dec (run sc h) (inv2_run sc Hwf h) (pinv_run h) Ef) as [t Hlt].
    assert (Hrun : run sc (h ++ [EStep t]) = tstep sc (run sc h) t) by apply run_snoc.
    assert (Hext : forall h', nocrash h' /\ terminal (run sc ((h ++ [EStep t]) ++ h')) = true ->
              exists h'', nocrash h'' /\ terminal (run sc (h ++ h'')) = true).
    { intros h' [Hn Ht]. exists (EStep t :: h'). split.
      - intros e [<-|Hin]; [discriminate|apply Hn; exact Hin].
      - rewrite <- app_assoc in Ht. exact Ht. }
    destruct Hlt as [Hlt|[Heq Hlt]].
    + destruct (IHM (major (tstep sc (run sc h) t)) ltac:(lia)
                    (minor (tstep sc (run sc h) t)) (h ++ [EStep t])) as [h' Hh'].
      * rewrite Hrun. lia.
      * rewrite Hrun. lia.
      * apply Hext with h'. exact Hh'.
    + destruct (IHm (minor (tstep sc (run sc h) t)) ltac:(lia) (h ++ [EStep t])) as [h' Hh'].
      * rewrite Hrun. lia.
      * rewrite Hrun. lia.
      * apply Hext with h'. exact Hh'.
Qed.

(* every history can be extended, without any further stop, to one that
   marks the channel fully resolved *)
Theorem progress : forall h, exists h',
  nocrash h' /\ terminal (run sc (h ++ h')) = true.
Proof. intros h. eapply prog_lex; eauto. Qed.


(* The window of (fixed) finding C13-F1: a stop right after a resolver's final
   Checkpoint(resolved = true), before log.ResolveContract.  After the
   restart relaunchResolvers hands the reloaded contract to resolveContract,
   which removes it from the log and signals the arbitrator. *)
Lemma resolved_contract_recovered : forall h k r,
  find_spec sc k = Some r ->
  d_full (dk (run sc h)) = false -> d_state (dk (run sc h)) = SWaiting ->
  d_con (dk (run sc h)) k = Some (length (r_stages r)) ->
  let s' := run sc (h ++ [ECrash; EStep TMain; EStep (TRes k)]) in
  d_con (dk s') k = None /\ m_sigs (mm s') = 1
  /\ (forall k', k' <> k -> d_con (dk s') k' = d_con (dk (run sc h)) k').
Proof.
  intros h k r Hf Hnf Hst Hc.
  replace (h ++ [ECrash; EStep TMain; EStep (TRes k)])
    with (((h ++ [ECrash]) ++ [EStep TMain]) ++ [EStep (TRes k)])
    by (repeat rewrite <- app_assoc; reflexivity).
  cbv zeta. rewrite !run_snoc.
  set (s := run sc h) in *.
  assert (Hnc : no_contracts sc (dk s) = false).
  { destruct (no_contracts sc (dk s)) eqn:E; auto.
    unfold no_contracts in E. rewrite forallb_forall in E.
    destruct (find_spec_in sc k r Hf) as [Hin Hk].
    specialize (E r Hin). rewrite Hk, Hc in E. discriminate. }
  assert (Hrl : relaunch sc (dk s) k = Some (length (r_stages r), false))
    by (unfold relaunch; rewrite Hf, Hc; reflexivity).
  assert (Hn : nth_error (r_stages r) (length (r_stages r)) = None)
    by (apply nth_error_None; lia).
  assert (H2 : main_step sc (step sc s ECrash)
               = mkSt (dk s) (mkMem SWaiting MIdle (relaunch sc (dk s)) (sc_anchor sc)
                                    0 false false None) (outs s)).
  { simpl. unfold restart. rewrite Hnf, Hst. simpl.
    unfold main_step. simpl. rewrite Hnc. reflexivity. }
  cbn [step tstep]. cbn [step] in H2. rewrite H2.
  unfold res_step. cbn [mm dk m_res]. rewrite Hrl, Hf, Hn. simpl.
  split; [apply upd_same|]. split; [reflexivity|].
  intros k' Hne. apply upd_other. exact Hne.
Qed.

End Progress.
