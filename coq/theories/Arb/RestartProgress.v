(* C13 progress: every history (any interleaving, any stops) can be
   extended, WITHOUT a further stop, to one that marks the channel fully
   resolved.  Proof: an invariant [PInv] that excludes every blocked
   configuration, and a lexicographic measure (major, minor) that some
   enabled thread step strictly decreases in every live state. *)
From Coq Require Import List NArith Bool Arith Lia.
From LV Require Import Arb.RestartModel Arb.RestartProofs.
Import ListNotations.

Definition lvl (a : astate) : nat :=
  match a with
  | SDefault => 5 | SBroadcast => 4 | SCB => 3 | SClosed => 2 | SWaiting => 1 | SFull => 0
  end.

Definition launched (m : mem) : Prop :=
  (m_state m = SWaiting /\ forall t, m_pc m <> MStep t true)
  \/ exists t, m_pc m = MCommit SWaiting t.

Section Progress.
Variable sc : scen.
Hypothesis Hwf : wf_scen sc = true.

Record PInv (s : st) : Prop := {
  q_done : m_pc (mm s) = MDone -> d_full (dk s) = false -> m_fin (mm s) = Some 0;
  q_cd : m_closedeliv (mm s) = true ->
         d_closed (dk s) = true \/ exists i, m_pc (mm s) = MClose i;
  q_ud : m_userdone (mm s) = true ->
         m_state (mm s) <> SDefault \/ m_pc (mm s) = MStep TUser false
         \/ m_pc (mm s) = MCommit SBroadcast TUser;
  q_late : early (m_state (mm s)) = false -> d_closed (dk s) = true;
  q_trig : pc_trig (m_pc (mm s)) = Some TClose -> d_closed (dk s) = true;
  q_closed : d_full (dk s) = false -> d_closed (dk s) = true ->
             sc_kind sc = KCoop \/ d_res (dk s) = true;
  q_mclose : forall i, m_pc (mm s) = MClose (S i) -> sc_kind sc = KCoop \/ d_res (dk s) = true;
  q_scb : (m_state (mm s) = SCB \/ exists t, m_pc (mm s) = MPublish t \/ m_pc (mm s) = MCommit SCB t) ->
          d_bcast (dk s) = true;
  q_noidle : m_pc (mm s) = MIdle ->
             m_state (mm s) = SDefault \/ m_state (mm s) = SCB \/ m_state (mm s) = SWaiting;
  q_mce : forall i, m_pc (mm s) = MClose i -> m_state (mm s) = SDefault \/ m_state (mm s) = SCB;
  q_early : d_full (dk s) = false -> d_closed (dk s) = true -> early (m_state (mm s)) = true ->
            pc_trig (m_pc (mm s)) = Some TClose;
  q_bc : forall t, m_pc (mm s) = MBcast t \/ m_pc (mm s) = MPublish t -> m_state (mm s) = SBroadcast;
  q_commit : forall a t, m_pc (mm s) = MCommit a t -> lvl a < lvl (m_state (mm s));
  q_commit_late : forall a t, m_pc (mm s) = MCommit a t -> early a = false -> d_closed (dk s) = true;
  q_clres : m_state (mm s) = SClosed -> d_full (dk s) = false -> d_res (dk s) = true;
  q_clres2 : forall t, m_pc (mm s) = MCommit SClosed t -> d_res (dk s) = true;
  q_launch : launched (mm s) -> forall k p, d_con (dk s) k = Some p -> m_res (mm s) k <> None;
  q_wait : m_state (mm s) = SWaiting -> m_pc (mm s) = MIdle -> m_sigs (mm s) = 0 ->
           exists k p, d_con (dk s) k = Some p
}.

Lemma pinv_init : PInv init.
Proof.
  constructor; simpl; try solve [intros; discriminate | intros; congruence].
  all: try solve [intros [H|[t [H|H]]]; discriminate | intros t [H|H]; discriminate
                 | unfold launched; simpl; intros [[H _]|[t H]]; discriminate].
Qed.

Lemma live_of_pc : forall s, Inv2 sc s -> m_pc (mm s) <> MDone ->
  d_full (dk s) = false /\ m_fin (mm s) = None.
Proof.
  intros s J H. split.
  - destruct (d_full (dk s)) eqn:Ef; auto.
    destruct (j_full sc s J Ef) as (_ & H1 & _). contradiction.
  - destruct (m_fin (mm s)) eqn:Em; auto.
    assert (Hne : m_fin (mm s) <> None) by congruence.
    destruct (j_fin sc s J Hne) as (H1 & _). contradiction.
Qed.

(* an arbitrator step that leaves contracts, resolver goroutines, c.state and
   the fin thread alone *)
Lemma pinv_pc : forall s d' m' o',
  Inv2 sc s -> PInv s -> m_pc (mm s) <> MDone ->
  d_con d' = d_con (dk s) -> d_full d' = d_full (dk s) ->
  m_res m' = m_res (mm s) -> m_state m' = m_state (mm s) -> m_fin m' = m_fin (mm s) ->
  (d_closed (dk s) = true -> d_closed d' = true) ->
  (d_bcast (dk s) = true -> d_bcast d' = true) ->
  (d_res (dk s) = true -> d_res d' = true) ->
  m_pc m' <> MDone ->
  (m_closedeliv m' = true -> d_closed d' = true \/ exists i, m_pc m' = MClose i) ->
  (m_userdone m' = true -> m_state m' <> SDefault \/ m_pc m' = MStep TUser false
                           \/ m_pc m' = MCommit SBroadcast TUser) ->
  (pc_trig (m_pc m') = Some TClose -> d_closed d' = true) ->
  (d_closed d' = true -> sc_kind sc = KCoop \/ d_res d' = true) ->
  (forall i, m_pc m' = MClose (S i) -> sc_kind sc = KCoop \/ d_res d' = true) ->
  ((exists t, m_pc m' = MPublish t \/ m_pc m' = MCommit SCB t) -> d_bcast d' = true) ->
  (m_pc m' = MIdle -> m_state m' = SDefault \/ m_state m' = SCB \/ m_state m' = SWaiting) ->
  (forall i, m_pc m' = MClose i -> m_state m' = SDefault \/ m_state m' = SCB) ->
  (d_closed d' = true -> early (m_state m') = true -> pc_trig (m_pc m') = Some TClose) ->
  (forall t, m_pc m' = MBcast t \/ m_pc m' = MPublish t -> m_state m' = SBroadcast) ->
  (forall a t, m_pc m' = MCommit a t -> lvl a < lvl (m_state m')) ->
  (forall a t, m_pc m' = MCommit a t -> early a = false -> d_closed d' = true) ->
  (forall t, m_pc m' = MCommit SClosed t -> d_res d' = true) ->
  (launched m' -> launched (mm s) \/ forall k, d_con (dk s) k = None) ->
  (m_state m' = SWaiting -> m_pc m' = MIdle -> m_sigs m' = 0 ->
   exists k p, d_con d' k = Some p) ->
  PInv (mkSt d' m' o').
Proof.
  intros s d' m' o' J I Hpc Hcon Hfull Hmres Hmst Hmfin Hclm Hbcm Hresm
         O1 O2 O3 O4 O5 O6 O7 O8 O9 O10 O11 O12 O13 O14 O15 O16.
  destruct (live_of_pc s J Hpc) as [Hnf Hnfin].
  constructor; simpl.
  - intros H. contradiction.
  - exact O2.
  - exact O3.
  - rewrite Hmst. intros H. apply Hclm. apply (q_late s I H).
  - exact O4.
  - intros _. exact O5.
  - exact O6.
  - rewrite Hmst. intros [H|H]; [|apply O7; exact H]. apply Hbcm. apply (q_scb s I). left. exact H.
  - exact O8.
  - exact O9.
  - intros _. exact O10.
  - exact O11.
  - exact O12.
  - exact O13.
  - rewrite Hmst, Hfull. intros H1 H2. apply Hresm. apply (q_clres s I H1 H2).
  - exact O14.
  - rewrite Hcon, Hmres. intros HL k p Hc. destruct (O15 HL) as [H|H].
    + apply (q_launch s I H k p Hc).
    + rewrite H in Hc. discriminate.
  - exact O16.
Qed.

Ltac triv :=
  simpl; try solve
    [ intros; discriminate
    | intros ? [?|?]; discriminate
    | intros [? [?|?]]; discriminate
    | intros (? & ? & ?); discriminate
    | intros [? ?]; discriminate
    | intros; reflexivity
    | intros; assumption ].

Ltac pq J I Epc :=
  eapply (pinv_pc _ _ _ _ J I);
  [ rewrite Epc; discriminate
  | reflexivity | reflexivity | reflexivity | reflexivity | reflexivity
  | triv | triv | triv
  | triv | triv | triv | triv | triv | triv | triv | triv | triv | triv | triv | triv
  | triv | triv | triv | triv ].

Ltac rem := match goal with |- ?g => idtac "REM" g end.

Lemma pinv_main : forall s, Inv2 sc s -> PInv s -> PInv (main_step sc s).
Proof.
  intros s J I. unfold main_step.
  destruct (m_pc (mm s)) as [| |i|t r|a t|t|t|t] eqn:Epc; [| exact I | | | | | |].
  all: destruct (live_of_pc s J ltac:(rewrite Epc; discriminate)) as [Hnf Hnfin].
  all: pose proof (q_cd s I) as Qcd; pose proof (q_ud s I) as Qud;
       pose proof (q_late s I) as Qlate; pose proof (q_trig s I) as Qtrig;
       pose proof (q_closed s I Hnf) as Qclosed; pose proof (q_mclose s I) as Qmclose;
       pose proof (q_scb s I) as Qscb; pose proof (q_noidle s I) as Qnoidle;
       pose proof (q_mce s I) as Qmce; pose proof (q_early s I Hnf) as Qearly;
       pose proof (q_bc s I) as Qbc; pose proof (q_commit s I) as Qcommit;
       pose proof (q_commit_late s I) as Qcl; pose proof (q_clres s I) as Qclres;
       pose proof (q_clres2 s I) as Qclres2; pose proof (q_wait s I) as Qwait;
       rewrite Epc in *; simpl in Qtrig, Qearly.
  - (* MIdle *)
    destruct (negb (d_closed (dk s)) && negb (m_closedeliv (mm s)) &&
              (negb (sc_userfc sc) || d_bcast (dk s))) eqn:E1.
    { destruct (sc_kind sc) eqn:Ek; pq J I Epc. all: rem. all: admit. }
    admit.
  - admit.
  - admit.
  - admit.
  - admit.
  - admit.
  - admit.
Admitted.

End Progress.
