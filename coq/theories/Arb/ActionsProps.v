(* C12 — property theorems (statements in full; proofs in ActionsProofs.v).

   Vocabulary (ActionsModel.v / ActionsProofs.v):
     due e h height        h's broadcast cut-off (expiry - delta, no uint32
                           underflow) is reached and the node is obliged to
                           act on h: offered + (forwarded or grace period
                           over), or received + preimage known;
     go_witness            an HTLC that justifies going on chain;
     must_fail e k c x     x is the index of an offered HTLC that is dust on
                           the confirmed commitment k, or is on another
                           commitment only (others k c) with no known preimage;
     close_guarantees      resolvers / no fail-back / received dust closed out
                           for every HTLC of the confirmed commitment;
     wf c                  HTLC indexes unique per commitment and direction
                           (a Go map invariant of newHtlcSet);
     res_complete          lnwallet supplied a resolution for every HTLC
                           output of the confirmed commitment;
     local_sub_conf        protocol shape: an offered HTLC on our commitment
                           is also on the confirmed one;
     fixed                 false = lnd as it is, true = notes/C12-fix.diff.

   Shape hypotheses DERIVED (Arb/Shape.v, end of this file):
     sets_of s p           the three HTLC sets the arbitrator of party p sees
                           in state s of the two-party channel model
                           (Channel/Model.v): Local = HTLCs of p's revoked-into
                           local commitment, Remote = of the acked remote one,
                           RemotePending = of the signed, not yet revoked
                           remote commitment (empty if there is none);
     has_pending s p       p holds such a pending remote commitment;
     shape hasp c          wf c /\ local_sub_conf k c for every close kind k
                           (k = KPending only if hasp);
     close_ok s p k        k = KPending -> has_pending s p = true;
     Channel.Proofs.reachable cc s   s is reached from the funded channel by
                           ANY interleaving of sends, signatures, revocations
                           and deliveries (C01);
     Channel.Discipline.dreachable_ok cc x   the same with reconnects
                           (channel_reestablish, C03) under the link discipline;
     chan_reachable cc s   either of the two.

   Event loop (AttendantModel.v, end of this file):
     att                   the running arbitrator: decision state + log
                           (at_arb), grace reference startTimestamp (at_start),
                           the clock (at_now), bestHeight, the link's latest
                           HTLC sets (at_sets);
     aev                   AStart h | ASignal | AUpdate k l | ATick dt |
                           ABlock h | AUser: (re)start, contract signals (link
                           start / reconnect), commitment update from the link,
                           time passing, blockbeat, user force close request;
     att_run               a history of events on att_step;
     ticks evs             total clock advance of a history;
     ref_of evs now ref    the clock at the last AStart of evs (ref if none);
     with_uptime e u       e with Clock.Now() - startTimestamp = u. *)
From Coq Require Import List NArith ZArith Bool.
From LV Require Import Arb.ActionsModel Arb.ActionsProofs.
From LV Require Channel.Model Channel.Proofs Channel.Resync Channel.Discipline.
From LV Require Import Arb.Shape.
From LV Require Import Arb.AttendantModel Arb.AttendantProofs.
Import ListNotations.
Local Open Scope N_scope.

(* Deadline: at the first block at or past the cut-off of an HTLC it must act
   on, the node force closes (exactly one ForceCloseChan). *)
Theorem C12_deadline :
  forall fixed e active height h,
    In h (c_local active) -> due e h height ->
    exists a' ef, on_block fixed e arb0 height active = Some (a', ef) /\
                  ar_state a' = SCommitmentBroadcasted /\ f_force ef = 1.
Proof. exact deadline_block. Qed.

(* ... and over any sequence of block epochs containing such a block the
   arbitrator has left StateDefault with exactly one force close. *)
Theorem C12_deadline_blocks :
  forall fixed e active hs h x,
    In h (c_local active) -> In x hs -> due e h x ->
    exists a' ef, run_blocks fixed e arb0 active hs no_eff = Some (a', ef) /\
                  ar_state a' = SCommitmentBroadcasted /\ f_force ef = 1.
Proof.
  intros fixed e active hs h x I Ix D.
  destruct (deadline_blocks fixed e active hs h x I Ix D arb0 no_eff eq_refl)
    as (a' & ef & R & S & F).
  exists a', ef. repeat split; assumption.
Qed.

(* No spurious force close: a chain-triggered force close always has an HTLC
   that justifies it ... *)
Theorem C12_no_spurious :
  forall fixed e active height a' ef,
    on_block fixed e arb0 height active = Some (a', ef) -> f_force ef <> 0 ->
    exists h, go_witness e active height h.
Proof. exact no_spurious. Qed.

(* ... in particular never because of received HTLCs it cannot claim. *)
Theorem C12_no_spurious_received :
  forall fixed e active height,
    (forall h, In h (c_local active ++ c_remote active ++ c_pending active) ->
               h_incoming h = true) ->
    (forall h, In h (c_local active) -> e_pre e (h_hash h) = false) ->
    on_block fixed e arb0 height active = Some (arb0, no_eff).
Proof. exact no_spurious_received. Qed.

(* Classification, commitment confirms without a prior broadcast (lnd as it
   is): one resolver per HTLC output, received dust closed out once, and every
   must-fail HTLC failed back EXACTLY once. *)
Theorem C12_classification_total_direct :
  forall e k height c r,
    uni k = true -> r_breach r = false -> wf c -> res_complete r (conf_of k c) ->
    exists a' ef,
      on_close false e arb0 k height c r c = Some (a', ef) /\
      closed_state (ar_state a') = true /\
      close_guarantees e k c ef /\
      (forall x, must_fail e (kkey k) c x -> cnt x (f_fail ef) = 1%nat).
Proof. exact classification_direct. Qed.

(* The full classification is REFUTED for lnd as it is when the node
   broadcast first (DESIGN §7-a): offered HTLC 7, output on ours, dust on the
   peer's commitment, user force close at 100, peer's commitment confirms at
   101: well-formed, protocol-shaped, resolutions complete — and HTLC 7 gets
   neither a resolver nor a fail-back, the arbitrator waits for full
   resolution. *)
Theorem C12_classification_total_refuted :
  wf w_sets /\ local_sub_conf KRemote w_sets /\ res_complete w_res (conf_of KRemote w_sets) /\
  must_fail w_env CRemote w_sets 7 /\
  exists a1 ef1 a2 ef2,
    trigger_step false w_env true 100 w_sets = Some (a1, ef1) /\ f_force ef1 = 1 /\
    on_close false w_env a1 KRemote 101 w_sets w_res w_sets = Some (a2, ef2) /\
    ar_state a2 = SWaitingFullResolution /\
    cnt 7 (f_fail ef1 ++ f_fail ef2) = O /\
    res_idxs out_kind (f_resolvers ef2) = [].
Proof.
  split; [exact w_wf|]. split.
  { intros l [<-|[]]. cbn. now left. }
  split.
  { intros h [<-|[]]. cbn. discriminate. }
  split.
  { left. exists w_htlc_remote. cbn. repeat split. now left. }
  exact w_refutes.
Qed.

(* What does hold for lnd as it is after a broadcast: resolvers and received
   dust as above, NO index is failed back more than once over the whole path,
   and a non-dust HTLC that is only on a non-confirmed commitment is failed
   back exactly once. *)
Theorem C12_classification_partial_broadcast :
  forall e user h0 k h1 c r a1 ef1,
    uni k = true -> r_breach r = false -> wf c -> res_complete r (conf_of k c) ->
    local_sub_conf k c ->
    trigger_step false e user h0 c = Some (a1, ef1) -> f_force ef1 = 1 ->
    exists a2 ef2,
      on_close false e a1 k h1 c r c = Some (a2, ef2) /\
      closed_state (ar_state a2) = true /\
      close_guarantees e k c ef2 /\
      (forall x, (cnt x (f_fail ef1 ++ f_fail ef2) <= 1)%nat) /\
      (forall x, In x (idxs (others (kkey k) c)) -> ~ In x (idxs (outs (conf_of k c))) ->
                 no_pre e c x ->
                 (forall m, In m (others (kkey k) c) -> h_idx m = x -> h_dust m = false) ->
                 cnt x (f_fail ef1 ++ f_fail ef2) = 1%nat).
Proof. exact classification_broadcast_partial. Qed.

(* With the candidate fix every must-fail HTLC is failed back at least once
   on both paths (a duplicate is possible and harmless, see notes/C12.md). *)
Theorem C12_classification_total_fixed :
  forall e k c r,
    uni k = true -> r_breach r = false -> wf c -> res_complete r (conf_of k c) ->
    (forall height, exists a' ef,
        on_close true e arb0 k height c r c = Some (a', ef) /\
        closed_state (ar_state a') = true /\ close_guarantees e k c ef /\
        (forall x, must_fail e (kkey k) c x -> (1 <= cnt x (f_fail ef))%nat)) /\
    (forall user h0 h1 a1 ef1,
        trigger_step true e user h0 c = Some (a1, ef1) -> f_force ef1 = 1 ->
        exists a2 ef2,
          on_close true e a1 k h1 c r c = Some (a2, ef2) /\
          closed_state (ar_state a2) = true /\ close_guarantees e k c ef2 /\
          (forall x, must_fail e (kkey k) c x ->
                     (1 <= cnt x (f_fail ef1 ++ f_fail ef2))%nat)).
Proof.
  intros e k c r U Hb W RC. split.
  - intros height. now apply classification_fixed_direct.
  - intros user h0 h1 a1 ef1 T F. eapply classification_fixed_broadcast; eassumption.
Qed.

(* At or after confirmation no fail-back is issued for an offered HTLC that
   has an output on the confirmed commitment (both variants, both paths). *)
Theorem C12_no_failback_with_output :
  forall fixed e a k height c r active,
    uni k = true -> start_ok a -> r_breach r = false -> wf c ->
    exists a' ef,
      on_close fixed e a k height c r active = Some (a', ef) /\
      forall h, In h (outs (conf_of k c)) -> h_dust h = false ->
                cnt (h_idx h) (f_fail ef) = O.
Proof.
  intros fixed e a k height c r active U S Hb W.
  destruct (on_close_uni fixed e a k height c r active U S Hb)
    as (a' & ef & On & F1 & _).
  exists a', ef. split; [assumption|].
  intros h I D. rewrite F1. apply cnt_zero_iff.
  apply close_fail_output; try assumption. apply ktrig_nochain.
Qed.

(* Breach: every offered HTLC on either remote commitment is failed back, no
   HTLC resolver is created. *)
Theorem C12_breach_all_failed :
  forall fixed e a height c r active,
    start_ok a ->
    exists a' ef,
      on_close fixed e a KBreach height c r active = Some (a', ef) /\
      (forall h, In h (outs (c_remote c) ++ outs (c_pending c)) ->
                 (1 <= cnt (h_idx h) (f_fail ef))%nat) /\
      res_idxs out_kind (f_resolvers ef) = [] /\
      res_idxs in_kind (f_resolvers ef) = [].
Proof. exact breach_all_failed. Qed.

(* ------------------------------------------------------------------ *)
(* The shape hypotheses are theorems about the channel state machine: in every
   reachable state, for either party, the three HTLC sets have unique indexes
   per commitment and direction, and every offered HTLC of our own commitment
   is also on the peer's current commitment and on its pending one (if any). *)
Theorem C12_shape_reachable :
  forall cc s, Channel.Model.cfg_ok cc -> Channel.Proofs.reachable cc s ->
  forall p, shape (has_pending s p) (sets_of s p).
Proof. exact shape_reachable. Qed.

(* ... and the same across reconnects: every state reached by link-disciplined
   steps with successful channel_reestablish resynchronisations (C03). *)
Theorem C12_shape_reachable_resync :
  forall cc x, Channel.Model.cfg_ok cc -> Channel.Discipline.dreachable_ok cc x ->
  forall p, shape (has_pending (Channel.Resync.xs x) p) (sets_of (Channel.Resync.xs x) p).
Proof. exact shape_dreachable_ok. Qed.

(* ... the guard on KPending is necessary: without a pending commitment the
   (empty) pending set does not contain our offered HTLCs. *)
Theorem C12_shape_pending_guard_needed :
  exists cc s p, Channel.Model.cfg_ok cc /\ Channel.Proofs.reachable cc s /\
                 has_pending s p = false /\ ~ local_sub_conf KPending (sets_of s p).
Proof. exact pending_guard_needed. Qed.

(* Caveat made precise (not a hypothesis of any theorem): the peer's current
   and pending commitment can carry the same offered HTLC with different
   dust-ness (fee update in between) while it is not yet on ours; there
   checkRemoteDanglingActions depends on Go's map iteration order and the model
   keeps the first record. *)
Theorem C12_shape_dust_disagreement_reachable :
  exists cc s p h1 h2,
    Channel.Model.cfg_ok cc /\ Channel.Proofs.reachable cc s /\
    In h1 (outs (c_remote (sets_of s p))) /\ In h2 (outs (c_pending (sets_of s p))) /\
    h_idx h1 = h_idx h2 /\ h_dust h1 = false /\ h_dust h2 = true /\
    ~ In (h_idx h1) (idxs (outs (c_local (sets_of s p)))).
Proof. exact dust_disagreement_reachable. Qed.

(* The classification theorems for HTLC sets that come from a reachable channel
   state: no shape hypothesis left (res_complete is a fact about lnwallet's
   resolutions, not about the sets). *)
Theorem C12_classification_total_direct_reachable :
  forall cc s p e k height r,
    Channel.Model.cfg_ok cc -> chan_reachable cc s ->
    uni k = true -> r_breach r = false -> res_complete r (conf_of k (sets_of s p)) ->
    exists a' ef,
      on_close false e arb0 k height (sets_of s p) r (sets_of s p) = Some (a', ef) /\
      closed_state (ar_state a') = true /\
      close_guarantees e k (sets_of s p) ef /\
      (forall x, must_fail e (kkey k) (sets_of s p) x -> cnt x (f_fail ef) = 1%nat).
Proof. exact classification_direct_reachable. Qed.

Theorem C12_classification_partial_broadcast_reachable :
  forall cc s p e user h0 k h1 r a1 ef1,
    Channel.Model.cfg_ok cc -> chan_reachable cc s -> close_ok s p k ->
    uni k = true -> r_breach r = false -> res_complete r (conf_of k (sets_of s p)) ->
    trigger_step false e user h0 (sets_of s p) = Some (a1, ef1) -> f_force ef1 = 1 ->
    let c := sets_of s p in
    exists a2 ef2,
      on_close false e a1 k h1 c r c = Some (a2, ef2) /\
      closed_state (ar_state a2) = true /\
      close_guarantees e k c ef2 /\
      (forall x, (cnt x (f_fail ef1 ++ f_fail ef2) <= 1)%nat) /\
      (forall x, In x (idxs (others (kkey k) c)) -> ~ In x (idxs (outs (conf_of k c))) ->
                 no_pre e c x ->
                 (forall m, In m (others (kkey k) c) -> h_idx m = x -> h_dust m = false) ->
                 cnt x (f_fail ef1 ++ f_fail ef2) = 1%nat).
Proof. exact classification_broadcast_partial_reachable. Qed.

Theorem C12_classification_total_fixed_reachable :
  forall cc s p e k r,
    Channel.Model.cfg_ok cc -> chan_reachable cc s ->
    uni k = true -> r_breach r = false -> res_complete r (conf_of k (sets_of s p)) ->
    let c := sets_of s p in
    (forall height, exists a' ef,
        on_close true e arb0 k height c r c = Some (a', ef) /\
        closed_state (ar_state a') = true /\ close_guarantees e k c ef /\
        (forall x, must_fail e (kkey k) c x -> (1 <= cnt x (f_fail ef))%nat)) /\
    (forall user h0 h1 a1 ef1,
        trigger_step true e user h0 c = Some (a1, ef1) -> f_force ef1 = 1 ->
        exists a2 ef2,
          on_close true e a1 k h1 c r c = Some (a2, ef2) /\
          closed_state (ar_state a2) = true /\ close_guarantees e k c ef2 /\
          (forall x, must_fail e (kkey k) c x ->
                     (1 <= cnt x (f_fail ef1 ++ f_fail ef2))%nat)).
Proof. exact classification_fixed_reachable. Qed.

Theorem C12_no_failback_with_output_reachable :
  forall cc s p fixed e a k height r active,
    Channel.Model.cfg_ok cc -> chan_reachable cc s ->
    uni k = true -> start_ok a -> r_breach r = false ->
    exists a' ef,
      on_close fixed e a k height (sets_of s p) r active = Some (a', ef) /\
      forall h, In h (outs (conf_of k (sets_of s p))) -> h_dust h = false ->
                cnt (h_idx h) (f_fail ef) = O.
Proof. exact no_failback_with_output_reachable. Qed.

(* ------------------------------------------------------------------ *)
(* The event loop around the decision (channelAttendant).  The reference of the
   start-up grace period is a constant of a run: after ANY history of events it
   is the clock at the last (re)start of the arbitrator; contract signals (link
   flaps), commitment updates, blocks, user requests and the passing of time
   leave it unchanged. *)
Theorem C12_loop_grace_reference :
  forall fixed e a evs a' efs,
    att_run fixed e a evs = Some (a', efs) ->
    at_start a' = ref_of evs (at_now a) (at_start a) /\
    at_now a' = (at_now a + ticks evs)%Z /\
    (forallb (fun ev => negb (is_start ev)) evs = true -> at_start a' = at_start a).
Proof.
  intros fixed e a evs a' efs R. destruct (att_run_ref _ _ _ _ _ _ R) as (R1 & R2).
  split; [assumption|]. split; [assumption|].
  intros NS. now destruct (start_constant _ _ _ _ _ _ NS R).
Qed.

(* Deadline in the running arbitrator: after any history without a restart,
   if the arbitrator is still in StateDefault and an HTLC of the link's latest
   local commitment is due under the time elapsed SINCE THE START of the
   arbitrator (own payments: grace < now - start), the next block at that
   height makes it force close, exactly once. *)
Theorem C12_loop_deadline :
  forall fixed e a evs a' efs h height,
    forallb (fun ev => negb (is_start ev)) evs = true ->
    att_run fixed e a evs = Some (a', efs) ->
    ar_state (at_arb a') = SDefault ->
    In h (c_local (at_sets a')) ->
    due (with_uptime e (at_now a + ticks evs - at_start a)) h height ->
    exists a'' ef, att_step fixed e a' (ABlock height) = Some (a'', ef) /\
                   ar_state (at_arb a'') = SCommitmentBroadcasted /\ f_force ef = 1.
Proof. exact loop_deadline. Qed.

(* ... and a block that makes the running arbitrator force close always has a
   witness HTLC under the up-time since the last (re)start, whatever the
   history since the arbitrator was created. *)
Theorem C12_loop_no_spurious :
  forall fixed e now sets evs a' efs height a'' ef,
    att_run fixed e (att0 now sets) evs = Some (a', efs) ->
    att_step fixed e a' (ABlock height) = Some (a'', ef) -> f_force ef <> 0 ->
    exists h, go_witness (with_uptime e (now + ticks evs - ref_of evs now now))
                         (at_sets a') height h.
Proof. exact loop_no_spurious. Qed.
