(* placeholder: property theorems are added with ActionsProofs.v *)
From LV Require Import Arb.ActionsModel.
