(* C13 nursery stage: trace checker.  Every committed nursery-store
   transaction of the real NurseryStore, with the operation and arguments the
   real UtxoNursery passed, must change the decoded store content exactly as
   the model's [napply] does. *)
From Coq Require Import List NArith Bool.
From LV Require Import Arb.NurseryModel.
Import ListNotations.

Record nsnap := mkNSnap {
  q_outs : list (N * ostate); q_idx : list (N * ostate * N); q_chan : bool }.

Definition subset {A} (eqb : A -> A -> bool) (l1 l2 : list A) : bool :=
  forallb (fun x => existsb (eqb x) l2) l1.
Definition seteq {A} (eqb : A -> A -> bool) (l1 l2 : list A) : bool :=
  subset eqb l1 l2 && subset eqb l2 l1.

Definition snap_matches (s : nstore) (q : nsnap) : bool :=
  seteq ent_eqb (n_outs s) (q_outs q) && seteq idx_eqb (n_idx s) (q_idx q)
  && Bool.eqb (n_chan s) (q_chan q).

(* one committed transaction: the operations it performed (Incubate: one per
   output) and the store content after it *)
Record ntx := mkNTx { t_ops : list nop; t_after : nsnap }.

Record ncase := mkNCase { k_txs : list ntx }.

Fixpoint replay (s : nstore) (l : list ntx) (i : N) : list N :=
  match l with
  | [] => []
  | t :: r =>
    let s' := fold_left napply (t_ops t) s in
    if snap_matches s' (t_after t) then replay s' r (i + 1) else [i]
  end.

Definition check_case (c : ncase) : list N := replay nstore0 (k_txs c) 0.

Fixpoint mismatches (cases : list ncase) (i : N) : list (N * list N) :=
  match cases with
  | [] => []
  | c :: r =>
    match check_case c with
    | [] => mismatches r (i + 1)
    | bad => (i, bad) :: mismatches r (i + 1)
    end
  end.
