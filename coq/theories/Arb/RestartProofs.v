(* C13 proofs: invariants of the restart model over ALL histories (any
   interleaving of thread micro steps and crashes, no bound). *)
From Coq Require Import List NArith Bool Arith Lia.
From LV Require Import Arb.RestartModel.
Import ListNotations.

Section Proofs.
Variable sc : scen.

Definition reach (s : st) : Prop := exists h, s = run sc h.

Lemma run_snoc : forall h e, run sc (h ++ [e]) = step sc (run sc h) e.
Proof. intros. unfold run. rewrite fold_left_app. reflexivity. Qed.

Lemma reach_ind (P : st -> Prop) :
  P init -> (forall s e, P s -> P (step sc s e)) -> forall s, reach s -> P s.
Proof.
  intros H0 Hs s [h ->]. induction h using rev_ind.
  - exact H0.
  - rewrite run_snoc. apply Hs. exact IHh.
Qed.

Lemma find_spec_in : forall k r, find_spec sc k = Some r -> In r (sc_resolvers sc) /\ r_key r = k.
Proof.
  unfold find_spec. intros k r H. apply find_some in H. destruct H as [Hin Hk].
  apply N.eqb_eq in Hk. auto.
Qed.

(* ------------------------------------------------------------------ *)
(* 1. every upstream output ever produced is one of the uninterrupted run *)

Definition outs_ok (l : list out) : Prop :=
  forall o, In o l -> is_tx_out o = true \/ In o (expected_outs sc).

Lemma outs_ok_app : forall l1 l2, outs_ok l1 -> outs_ok l2 -> outs_ok (l1 ++ l2).
Proof. unfold outs_ok. intros l1 l2 H1 H2 o Hin. apply in_app_or in Hin. destruct Hin; auto. Qed.

Lemma exp_fails : outs_ok (map OFail (sc_fails_default sc)).
Proof. intros o Hin. right. unfold expected_outs. apply in_or_app. auto. Qed.

Lemma exp_closed : outs_ok (closed_outs sc).
Proof.
  intros o Hin. right. unfold expected_outs. apply in_or_app. right. apply in_or_app. auto.
Qed.

Lemma exp_notify : outs_ok [ONotify].
Proof.
  intros o [<-|[]]. right. unfold expected_outs.
  apply in_or_app. right. apply in_or_app. right. apply in_or_app. right. simpl. auto.
Qed.

Lemma exp_stage : forall r p stg, In r (sc_resolvers sc) -> nth_error (r_stages r) p = Some stg ->
  outs_ok (s_outs stg).
Proof.
  intros r p stg Hin Hn o Ho. right. unfold expected_outs.
  apply in_or_app. right. apply in_or_app. right. apply in_or_app. left.
  unfold resolver_outs. apply in_flat_map. exists r. split; [exact Hin|].
  apply in_flat_map. exists stg. split; [|exact Ho]. eapply nth_error_In; eauto.
Qed.

Lemma exp_tx1 : outs_ok [OForceClose].
Proof. intros o [<-|[]]. left. reflexivity. Qed.
Lemma exp_tx2 : outs_ok [OPublish].
Proof. intros o [<-|[]]. left. reflexivity. Qed.

Lemma main_outs_ok : forall s, outs_ok (outs s) -> outs_ok (outs (main_step sc s)).
Proof.
  intros s H. unfold main_step.
  destruct (m_pc (mm s)) as [| |i|t r|a t|t|t|t]; simpl; auto.
  - destruct (negb (d_closed (dk s)) && negb (m_closedeliv (mm s)) &&
              (negb (sc_userfc sc) || d_bcast (dk s))); simpl; auto.
    destruct (sc_userfc sc && negb (m_userdone (mm s)) && negb (d_closed (dk s))); simpl; auto.
    destruct (m_sigs (mm s)); simpl; auto.
  - destruct i as [|[|i]]; simpl; auto.
  - destruct (m_state (mm s)); destruct t; simpl; auto;
      repeat match goal with
      | |- context [if ?b then _ else _] => destruct b; simpl; auto
      end;
      try (apply outs_ok_app; auto using exp_fails, exp_closed, exp_notify, exp_tx1, exp_tx2).
  - apply outs_ok_app; auto using exp_tx2.
Qed.

Lemma res_outs_ok : forall s k, outs_ok (outs s) -> outs_ok (outs (res_step sc s k)).
Proof.
  intros s k H. unfold res_step.
  destruct (m_res (mm s) k) as [[p e]|]; auto.
  destruct (find_spec sc k) as [r|] eqn:Hf; auto.
  destruct (nth_error (r_stages r) p) as [stg|] eqn:Hn; simpl; auto.
  destruct e; simpl; auto.
  apply outs_ok_app; auto. apply find_spec_in in Hf. destruct Hf. eapply exp_stage; eauto.
Qed.

Lemma step_outs_ok : forall s e, outs_ok (outs s) -> outs_ok (outs (step sc s e)).
Proof.
  intros s [[|k| |]|] H; simpl; auto using main_outs_ok, res_outs_ok.
  - unfold anchor_step. destruct (m_anchor (mm s)); auto.
  - unfold fin_step. destruct (m_fin (mm s)) as [[|[|n]]|]; auto.
Qed.

Theorem outputs_sound : forall h o,
  In o (outs (run sc h)) -> is_tx_out o = false -> In o (expected_outs sc).
Proof.
  intros h o Hin Htx.
  assert (Hok : outs_ok (outs (run sc h))).
  { apply (reach_ind (fun s => outs_ok (outs s))).
    - intros x [].
    - intros; apply step_outs_ok; auto.
    - exists h; reflexivity. }
  destruct (Hok o Hin) as [Ht|]; auto. congruence.
Qed.


(* ------------------------------------------------------------------ *)
(* 2. the main invariant *)

Hypothesis Hwf : wf_scen sc = true.
(* Exception F2 (see Props): a persisted commit set that yields chain
   actions on a chain trigger together with a dust fail-back set. *)
Hypothesis Hdust : sc_cs_acts sc = false \/ sc_fails_default sc = [].

Definition stage_done (o : list out) (rp : list (N * N)) (g : stage) : Prop :=
  incl (s_outs g) o /\ (forall x, s_rep g = Some x -> In x rp).
Definition stages_done (o : list out) (rp : list (N * N)) (r : rspec) (p : nat) : Prop :=
  forall j g, j < p -> nth_error (r_stages r) j = Some g -> stage_done o rp g.
Definition A_done (o : list out) := incl (map OFail (sc_fails_default sc)) o.
Definition B_done (o : list out) := incl (closed_outs sc) o.
Definition all_done (o : list out) (rp : list (N * N)) :=
  forall r, In r (sc_resolvers sc) -> stages_done o rp r (length (r_stages r)).
Definition con_done (s : st) := forall r, In r (sc_resolvers sc) ->
  match d_con (dk s) (r_key r) with
  | Some p => stages_done (outs s) (d_rep (dk s)) r p
  | None => stages_done (outs s) (d_rep (dk s)) r (length (r_stages r))
  end.
Definition complete (s : st) :=
  A_done (outs s) /\ B_done (outs s) /\ all_done (outs s) (d_rep (dk s)).
Definition inserted (m : mem) := m_state m = SWaiting \/ exists t, m_pc m = MCommit SWaiting t.
Definition fullph (m : mem) := m_state m = SFull \/ exists t, m_pc m = MCommit SFull t.
Definition pc_trig (p : mpc) : option trig :=
  match p with
  | MStep t _ | MCommit _ t | MBcast t | MPublish t | MInsert t => Some t
  | _ => None
  end.

Record Inv (s : st) : Prop := {
  i_state : d_full (dk s) = false -> d_state (dk s) = m_state (mm s);
  i_thr : forall k p e, m_res (mm s) k = Some (p, e) ->
    exists r, find_spec sc k = Some r /\ d_con (dk s) k = Some p /\
      (e = true -> exists g, nth_error (r_stages r) p = Some g /\ incl (s_outs g) (outs s));
  i_disk : forall k p r, d_con (dk s) k = Some p -> find_spec sc k = Some r ->
    stages_done (outs s) (d_rep (dk s)) r p;
  i_keys : forall k p, d_con (dk s) k = Some p -> find_spec sc k <> None;
  i_ins : inserted (mm s) -> A_done (outs s) /\ B_done (outs s) /\ con_done s;
  i_fullph : fullph (mm s) -> complete s /\ forall k, d_con (dk s) k = None;
  i_fin : m_fin (mm s) <> None ->
    m_pc (mm s) = MDone /\ m_state (mm s) = SFull /\ In ONotify (outs s) /\
    (forall n, m_fin (mm s) = Some (S n) -> d_full (dk s) = true);
  i_full : d_full (dk s) = true ->
    complete s /\ In ONotify (outs s) /\ (forall k, d_con (dk s) k = None) /\
    m_pc (mm s) = MDone /\ (forall k, m_res (mm s) k = None) /\
    (d_state (dk s) = SFull \/ d_state (dk s) = SDefault);
  i_A : (m_state (mm s) <> SDefault \/ exists a t, m_pc (mm s) = MCommit a t) ->
    A_done (outs s);
  i_B : (exists t, m_pc (mm s) = MInsert t) ->
    A_done (outs s) /\ B_done (outs s) /\ m_state (mm s) = SClosed;
  i_bc : (exists t, m_pc (mm s) = MBcast t \/ m_pc (mm s) = MPublish t) ->
    m_state (mm s) = SBroadcast;
  i_trig : pc_trig (m_pc (mm s)) = Some TClose -> d_closed (dk s) = true;
  i_closed : d_full (dk s) = false -> d_closed (dk s) = true ->
    sc_kind sc = KCoop \/ d_res (dk s) = true;
  i_mclose : forall i, m_pc (mm s) = MClose (S i) -> sc_kind sc = KCoop \/ d_res (dk s) = true
}.

(* ---- helper lemmas ---- *)
Lemma stages_done_mono : forall o o' rp rp' r p,
  incl o o' -> incl rp rp' -> stages_done o rp r p -> stages_done o' rp' r p.
Proof.
  unfold stages_done, stage_done. intros o o' rp rp' r p Ho Hr H j g Hj Hn.
  destruct (H j g Hj Hn) as [H1 H2]. split.
  - eapply incl_tran; eauto.
  - intros x Hx. apply Hr. auto.
Qed.

Lemma stages_done_le : forall o rp r p q, q <= p -> stages_done o rp r p -> stages_done o rp r q.
Proof. unfold stages_done. intros. eapply H0; eauto. lia. Qed.

Lemma stages_done_len : forall o rp r p, length (r_stages r) <= p ->
  stages_done o rp r (length (r_stages r)) -> stages_done o rp r p.
Proof.
  unfold stages_done. intros o rp r p Hl H j g Hj Hn. eapply H; eauto.
  apply nth_error_Some. congruence.
Qed.

Lemma keys_nodup_find : forall l r, keys_nodup l = true -> In r l ->
  find (fun x => N.eqb (r_key x) (r_key r)) l = Some r.
Proof.
  induction l as [|a l IH]; simpl; intros r Hn Hin; [contradiction|].
  apply andb_true_iff in Hn. destruct Hn as [Hex Hn].
  destruct Hin as [->|Hin].
  - rewrite N.eqb_refl. reflexivity.
  - destruct (N.eqb (r_key a) (r_key r)) eqn:E.
    + exfalso. apply negb_true_iff in Hex.
      assert (existsb (fun x => N.eqb (r_key x) (r_key a)) l = true).
      { apply existsb_exists. exists r. split; auto. apply N.eqb_eq in E. apply N.eqb_eq. auto. }
      congruence.
    + auto.
Qed.

Lemma wf_nodup : keys_nodup (sc_resolvers sc) = true.
Proof.
  pose proof Hwf as W. unfold wf_scen in W.
  repeat (apply andb_true_iff in W; destruct W as [W ?]). exact W.
Qed.

Lemma find_spec_self : forall r, In r (sc_resolvers sc) -> find_spec sc (r_key r) = Some r.
Proof. intros. unfold find_spec. apply keys_nodup_find; auto using wf_nodup. Qed.

Lemma wf_trivial : sc_empty sc = true \/ sc_kind sc = KCoop ->
  sc_resolvers sc = [] /\ closed_outs sc = [].
Proof.
  intros H. pose proof Hwf as W. unfold wf_scen in W.
  repeat (apply andb_true_iff in W; destruct W as [W ?]).
  assert (E : (sc_empty sc || match sc_kind sc with KCoop => true | _ => false end) = true).
  { destruct H as [->| ->]; auto. apply orb_true_r. }
  rewrite E in H1. unfold closed_outs.
  destruct (sc_resolvers sc); [|discriminate].
  destruct (sc_fails_closed sc); [|discriminate].
  destruct (sc_finals_closed sc); [|discriminate]. auto.
Qed.

Lemma triv_complete : forall s, sc_empty sc = true \/ sc_kind sc = KCoop -> Inv s ->
  A_done (outs s) -> complete s /\ forall k, d_con (dk s) k = None.
Proof.
  intros s H I HA. destruct (wf_trivial H) as [Hr Hc]. split.
  - split; [exact HA|]. split.
    + unfold B_done. rewrite Hc. apply incl_nil_l.
    + unfold all_done. rewrite Hr. intros r [].
  - intros k. destruct (d_con (dk s) k) eqn:E; auto.
    exfalso. apply (i_keys s I) in E. apply E. unfold find_spec. rewrite Hr. reflexivity.
Qed.

Lemma incl_app_l : forall (o l x : list out), incl x o -> incl x (o ++ l).
Proof. intros. apply incl_appl. auto. Qed.

Lemma A_mono : forall o l, A_done o -> A_done (o ++ l).
Proof. unfold A_done. intros. apply incl_appl. auto. Qed.
Lemma B_mono : forall o l, B_done o -> B_done (o ++ l).
Proof. unfold B_done. intros. apply incl_appl. auto. Qed.

Ltac vac :=
  simpl in *; intros; try discriminate; try congruence; try tauto;
  repeat match goal with
         | H : _ \/ _ |- _ => destruct H
         | H : exists _, _ |- _ => destruct H
         | H : _ /\ _ |- _ => destruct H
         end; try discriminate; try congruence; try tauto.

Lemma inv_init : Inv init.
Proof.
  constructor; unfold inserted, fullph; solve [vac].
Qed.

End Proofs.
