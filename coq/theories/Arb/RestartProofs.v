(* C13 proofs: invariants of the restart model over ALL histories (any
   interleaving of thread micro steps and crashes, no bound). *)
From Coq Require Import List NArith Bool Arith Lia.
From LV Require Import Arb.RestartModel.
Import ListNotations.

Section Proofs.
Variable sc : scen.

Definition reach (s : st) : Prop := exists h, s = run sc h.

Lemma run_snoc : forall h e, run sc (h ++ [e]) = step sc (run sc h) e.
Proof. intros. unfold run. rewrite fold_left_app. reflexivity. Qed.

Lemma reach_ind (P : st -> Prop) :
  P init -> (forall s e, P s -> P (step sc s e)) -> forall s, reach s -> P s.
Proof.
  intros H0 Hs s [h ->]. induction h using rev_ind.
  - exact H0.
  - rewrite run_snoc. apply Hs. exact IHh.
Qed.

Lemma find_spec_in : forall k r, find_spec sc k = Some r -> In r (sc_resolvers sc) /\ r_key r = k.
Proof.
  unfold find_spec. intros k r H. apply find_some in H. destruct H as [Hin Hk].
  apply N.eqb_eq in Hk. auto.
Qed.

(* ------------------------------------------------------------------ *)
(* 1. every upstream output ever produced is one of the uninterrupted run *)

Definition outs_ok (l : list out) : Prop :=
  forall o, In o l -> is_tx_out o = true \/ In o (expected_outs sc).

Lemma outs_ok_app : forall l1 l2, outs_ok l1 -> outs_ok l2 -> outs_ok (l1 ++ l2).
Proof. unfold outs_ok. intros l1 l2 H1 H2 o Hin. apply in_app_or in Hin. destruct Hin; auto. Qed.

Lemma exp_fails : outs_ok (map OFail (sc_fails_default sc)).
Proof. intros o Hin. right. unfold expected_outs. apply in_or_app. auto. Qed.

Lemma exp_closed : outs_ok (closed_outs sc).
Proof.
  intros o Hin. right. unfold expected_outs. apply in_or_app. right. apply in_or_app. auto.
Qed.

Lemma exp_notify : outs_ok [ONotify].
Proof.
  intros o [<-|[]]. right. unfold expected_outs.
  apply in_or_app. right. apply in_or_app. right. apply in_or_app. right. simpl. auto.
Qed.

Lemma exp_stage : forall r p stg, In r (sc_resolvers sc) -> nth_error (r_stages r) p = Some stg ->
  outs_ok (s_outs stg).
Proof.
  intros r p stg Hin Hn o Ho. right. unfold expected_outs.
  apply in_or_app. right. apply in_or_app. right. apply in_or_app. left.
  unfold resolver_outs. apply in_flat_map. exists r. split; [exact Hin|].
  apply in_flat_map. exists stg. split; [|exact Ho]. eapply nth_error_In; eauto.
Qed.

Lemma exp_tx1 : outs_ok [OForceClose].
Proof. intros o [<-|[]]. left. reflexivity. Qed.
Lemma exp_tx2 : outs_ok [OPublish].
Proof. intros o [<-|[]]. left. reflexivity. Qed.

Lemma main_outs_ok : forall s, outs_ok (outs s) -> outs_ok (outs (main_step sc s)).
Proof.
  intros s H. unfold main_step.
  destruct (m_pc (mm s)) as [| |i|t r|a t|t|t|t]; simpl; auto.
  - destruct (negb (d_closed (dk s)) && negb (m_closedeliv (mm s)) &&
              (negb (sc_userfc sc) || d_bcast (dk s))); simpl; auto.
    destruct (sc_userfc sc && negb (m_userdone (mm s)) && negb (d_closed (dk s))); simpl; auto.
    destruct (m_sigs (mm s)); simpl; auto.
  - destruct i as [|[|i]]; simpl; auto.
  - destruct (m_state (mm s)); destruct t; simpl; auto;
      repeat match goal with
      | |- context [if ?b then _ else _] => destruct b; simpl; auto
      end;
      try (apply outs_ok_app; auto using exp_fails, exp_closed, exp_notify, exp_tx1, exp_tx2).
  - apply outs_ok_app; auto using exp_tx2.
Qed.

Lemma res_outs_ok : forall s k, outs_ok (outs s) -> outs_ok (outs (res_step sc s k)).
Proof.
  intros s k H. unfold res_step.
  destruct (m_res (mm s) k) as [[p e]|]; auto.
  destruct (find_spec sc k) as [r|] eqn:Hf; auto.
  destruct (nth_error (r_stages r) p) as [stg|] eqn:Hn; simpl; auto.
  destruct e; simpl; auto.
  apply outs_ok_app; auto. apply find_spec_in in Hf. destruct Hf. eapply exp_stage; eauto.
Qed.

Lemma step_outs_ok : forall s e, outs_ok (outs s) -> outs_ok (outs (step sc s e)).
Proof.
  intros s [[|k| |]|] H; simpl; auto using main_outs_ok, res_outs_ok.
  - unfold anchor_step. destruct (m_anchor (mm s)); auto.
  - unfold fin_step. destruct (m_fin (mm s)) as [[|[|n]]|]; auto.
Qed.

Theorem outputs_sound : forall h o,
  In o (outs (run sc h)) -> is_tx_out o = false -> In o (expected_outs sc).
Proof.
  intros h o Hin Htx.
  assert (Hok : outs_ok (outs (run sc h))).
  { apply (reach_ind (fun s => outs_ok (outs s))).
    - intros x [].
    - intros; apply step_outs_ok; auto.
    - exists h; reflexivity. }
  destruct (Hok o Hin) as [Ht|]; auto. congruence.
Qed.


(* ------------------------------------------------------------------ *)
(* 2. the main invariant *)

Hypothesis Hwf : wf_scen sc = true.
(* Exception F2 (see Props): a persisted commit set that yields chain
   actions on a chain trigger together with a dust fail-back set. *)
Hypothesis Hdust : sc_cs_acts sc = false \/ sc_fails_default sc = [].

Definition stage_done (o : list out) (rp : list (N * N)) (g : stage) : Prop :=
  incl (s_outs g) o /\ incl (s_rep g) rp.
Definition stages_done (o : list out) (rp : list (N * N)) (r : rspec) (p : nat) : Prop :=
  forall j g, j < p -> nth_error (r_stages r) j = Some g -> stage_done o rp g.
Definition A_done (o : list out) := incl (map OFail (sc_fails_default sc)) o.
Definition B_done (o : list out) := incl (closed_outs sc) o.
Definition all_done (o : list out) (rp : list (N * N)) :=
  forall r, In r (sc_resolvers sc) -> stages_done o rp r (length (r_stages r)).
Definition con_done (s : st) := forall r, In r (sc_resolvers sc) ->
  match d_con (dk s) (r_key r) with
  | Some p => stages_done (outs s) (d_rep (dk s)) r p
  | None => stages_done (outs s) (d_rep (dk s)) r (length (r_stages r))
  end.
Definition complete (s : st) :=
  A_done (outs s) /\ B_done (outs s) /\ all_done (outs s) (d_rep (dk s)).
Definition inserted (m : mem) := m_state m = SWaiting \/ exists t, m_pc m = MCommit SWaiting t.
Definition fullph (m : mem) := m_state m = SFull \/ exists t, m_pc m = MCommit SFull t.
Definition pc_trig (p : mpc) : option trig :=
  match p with
  | MStep t _ | MCommit _ t | MBcast t | MPublish t | MInsert t => Some t
  | _ => None
  end.

Record Inv (s : st) : Prop := {
  i_state : d_full (dk s) = false -> d_state (dk s) = m_state (mm s);
  i_thr : forall k p e, m_res (mm s) k = Some (p, e) ->
    exists r, find_spec sc k = Some r /\ d_con (dk s) k = Some p /\
      (e = true -> exists g, nth_error (r_stages r) p = Some g /\ incl (s_outs g) (outs s));
  i_disk : forall k p r, d_con (dk s) k = Some p -> find_spec sc k = Some r ->
    stages_done (outs s) (d_rep (dk s)) r p;
  i_keys : forall k p, d_con (dk s) k = Some p -> find_spec sc k <> None;
  i_ins : inserted (mm s) -> A_done (outs s) /\ B_done (outs s) /\ con_done s;
  i_fullph : fullph (mm s) -> complete s /\ forall k, d_con (dk s) k = None;
  i_fin : m_fin (mm s) <> None ->
    m_pc (mm s) = MDone /\ m_state (mm s) = SFull /\ In ONotify (outs s) /\
    (forall n, m_fin (mm s) = Some (S n) -> d_full (dk s) = true);
  i_full : d_full (dk s) = true ->
    complete s /\ In ONotify (outs s) /\ (forall k, d_con (dk s) k = None) /\
    m_pc (mm s) = MDone /\ (forall k, m_res (mm s) k = None) /\
    (d_state (dk s) = SFull \/ d_state (dk s) = SDefault);
  i_A : (m_state (mm s) <> SDefault \/ exists a t, m_pc (mm s) = MCommit a t) ->
    A_done (outs s);
  i_B : (exists t, m_pc (mm s) = MInsert t) ->
    A_done (outs s) /\ B_done (outs s) /\ m_state (mm s) = SClosed;
  i_bc : (exists t, m_pc (mm s) = MBcast t \/ m_pc (mm s) = MPublish t) ->
    m_state (mm s) = SBroadcast;
  i_trig : pc_trig (m_pc (mm s)) = Some TClose -> d_closed (dk s) = true;
  i_closed : d_full (dk s) = false -> d_closed (dk s) = true ->
    sc_kind sc = KCoop \/ d_res (dk s) = true;
  i_mclose : forall i, m_pc (mm s) = MClose (S i) -> sc_kind sc = KCoop \/ d_res (dk s) = true
}.

(* ---- helper lemmas ---- *)
Lemma stages_done_mono : forall o o' rp rp' r p,
  incl o o' -> incl rp rp' -> stages_done o rp r p -> stages_done o' rp' r p.
Proof.
  unfold stages_done, stage_done. intros o o' rp rp' r p Ho Hr H j g Hj Hn.
  destruct (H j g Hj Hn) as [H1 H2]. split.
  - eapply incl_tran; eauto.
  - intros x Hx. apply Hr. auto.
Qed.

Lemma stages_done_le : forall o rp r p q, q <= p -> stages_done o rp r p -> stages_done o rp r q.
Proof. unfold stages_done. intros. eapply H0; eauto. lia. Qed.

Lemma stages_done_len : forall o rp r p, length (r_stages r) <= p ->
  stages_done o rp r (length (r_stages r)) -> stages_done o rp r p.
Proof.
  unfold stages_done. intros o rp r p Hl H j g Hj Hn. eapply H; eauto.
  apply nth_error_Some. congruence.
Qed.

Lemma keys_nodup_find : forall l r, keys_nodup l = true -> In r l ->
  find (fun x => N.eqb (r_key x) (r_key r)) l = Some r.
Proof.
  induction l as [|a l IH]; simpl; intros r Hn Hin; [contradiction|].
  apply andb_true_iff in Hn. destruct Hn as [Hex Hn].
  destruct Hin as [->|Hin].
  - rewrite N.eqb_refl. reflexivity.
  - destruct (N.eqb (r_key a) (r_key r)) eqn:E.
    + exfalso. apply negb_true_iff in Hex.
      assert (existsb (fun x => N.eqb (r_key x) (r_key a)) l = true).
      { apply existsb_exists. exists r. split; auto. apply N.eqb_eq in E. apply N.eqb_eq. auto. }
      congruence.
    + auto.
Qed.

Lemma wf_nodup : keys_nodup (sc_resolvers sc) = true.
Proof.
  pose proof Hwf as W. unfold wf_scen in W.
  repeat (apply andb_true_iff in W; destruct W as [W ?]). exact W.
Qed.

Lemma find_spec_self : forall r, In r (sc_resolvers sc) -> find_spec sc (r_key r) = Some r.
Proof. intros. unfold find_spec. apply keys_nodup_find; auto using wf_nodup. Qed.

Lemma wf_trivial : sc_empty sc = true \/ sc_kind sc = KCoop ->
  sc_resolvers sc = [] /\ closed_outs sc = [].
Proof.
  intros H. pose proof Hwf as W. unfold wf_scen in W.
  repeat (apply andb_true_iff in W; destruct W as [W ?]).
  assert (E : (sc_empty sc || match sc_kind sc with KCoop => true | _ => false end) = true).
  { destruct H as [->| ->]; auto. apply orb_true_r. }
  rewrite E in H1. unfold closed_outs.
  destruct (sc_resolvers sc); [|discriminate].
  destruct (sc_fails_closed sc); [|discriminate].
  destruct (sc_finals_closed sc); [|discriminate]. auto.
Qed.

Lemma triv_complete : forall s, sc_empty sc = true \/ sc_kind sc = KCoop -> Inv s ->
  A_done (outs s) -> complete s /\ forall k, d_con (dk s) k = None.
Proof.
  intros s H I HA. destruct (wf_trivial H) as [Hr Hc]. split.
  - split; [exact HA|]. split.
    + unfold B_done. rewrite Hc. apply incl_nil_l.
    + unfold all_done. rewrite Hr. intros r [].
  - intros k. destruct (d_con (dk s) k) eqn:E; auto.
    exfalso. apply (i_keys s I) in E. apply E. unfold find_spec. rewrite Hr. reflexivity.
Qed.

Lemma incl_app_l : forall (o l x : list out), incl x o -> incl x (o ++ l).
Proof. intros. apply incl_appl. auto. Qed.

Lemma A_mono : forall o l, A_done o -> A_done (o ++ l).
Proof. unfold A_done. intros. apply incl_appl. auto. Qed.
Lemma B_mono : forall o l, B_done o -> B_done (o ++ l).
Proof. unfold B_done. intros. apply incl_appl. auto. Qed.

End Proofs.

(* ------------------------------------------------------------------ *)
(* 3. the channel is marked resolved only with an empty contract set *)

Section Inv2.
Variable sc : scen.
Hypothesis Hwf : wf_scen sc = true.

Record Inv2 (s : st) : Prop := {
  j_state : d_full (dk s) = false -> d_state (dk s) = m_state (mm s);
  j_thr : forall k p e, m_res (mm s) k = Some (p, e) ->
    find_spec sc k <> None /\ d_con (dk s) k = Some p;
  j_keys : forall k p, d_con (dk s) k = Some p -> find_spec sc k <> None;
  j_res : forall k p, d_con (dk s) k = Some p -> d_res (dk s) = true;
  j_ins : forall t, m_pc (mm s) = MInsert t -> d_res (dk s) = true /\ m_state (mm s) = SClosed;
  j_fullph : fullph (mm s) -> forall k, d_con (dk s) k = None;
  j_fin : m_fin (mm s) <> None ->
    m_pc (mm s) = MDone /\ m_state (mm s) = SFull /\
    (forall n, m_fin (mm s) = Some (S n) -> d_full (dk s) = true);
  j_full : d_full (dk s) = true ->
    (forall k, d_con (dk s) k = None) /\ m_pc (mm s) = MDone /\
    (forall k, m_res (mm s) k = None) /\
    (d_state (dk s) = SFull \/ d_state (dk s) = SDefault)
}.

Lemma inv2_init : Inv2 init.
Proof.
  constructor; simpl.
  - reflexivity.
  - intros; discriminate.
  - intros; discriminate.
  - intros; discriminate.
  - intros; discriminate.
  - unfold fullph; simpl. intros [H|[t H]]; discriminate.
  - intros H; exfalso; apply H; reflexivity.
  - intros; discriminate.
Qed.

Lemma inv2_crash : forall s, Inv2 s -> Inv2 (step sc s ECrash).
Proof.
  intros s I. simpl. unfold restart. destruct (d_full (dk s)) eqn:Ef.
  - destruct (j_full s I Ef) as (Hcon & Hpc & Hres & Hst).
    constructor; simpl.
    + rewrite Ef; discriminate.
    + intros; discriminate.
    + apply (j_keys s I).
    + apply (j_res s I).
    + intros; discriminate.
    + intros _. exact Hcon.
    + intros H; exfalso; apply H; reflexivity.
    + intros _. repeat split; auto.
  - pose proof (j_state s I Ef) as Hs.
    constructor; simpl.
    + reflexivity.
    + intros; discriminate.
    + apply (j_keys s I).
    + apply (j_res s I).
    + intros; discriminate.
    + unfold fullph; simpl. intros [H|[t H]]; [|discriminate].
      apply (j_fullph s I). left. congruence.
    + intros H; exfalso; apply H; reflexivity.
    + rewrite Ef; discriminate.
Qed.

Lemma inv2_anchor : forall s, Inv2 s -> Inv2 (anchor_step s).
Proof.
  intros s I. unfold anchor_step. destruct (m_anchor (mm s)); auto.
  destruct I. constructor; simpl; auto.
Qed.

Lemma inv2_fin : forall s, Inv2 s -> Inv2 (fin_step s).
Proof.
  intros s I. unfold fin_step.
  destruct (m_fin (mm s)) as [[|[|n]]|] eqn:Em; auto.
  - assert (Hne : m_fin (mm s) <> None) by congruence.
    destruct (j_fin s I Hne) as (Hpc & Hst & _).
    pose proof (j_fullph s I (or_introl Hst)) as Hcon.
    constructor; simpl.
    + discriminate.
    + intros; discriminate.
    + apply (j_keys s I).
    + apply (j_res s I).
    + intros; discriminate.
    + intros _. exact Hcon.
    + intros _. repeat split; auto. 
    + intros _. repeat split; auto.
      destruct (d_full (dk s)) eqn:Ef.
      * apply (j_full s I Ef).
      * left. rewrite (j_state s I Ef). exact Hst.
  - assert (Hne : m_fin (mm s) <> None) by congruence.
    destruct (j_fin s I Hne) as (Hpc & Hst & Hfull).
    pose proof (Hfull 0 Em) as Ef.
    constructor; simpl.
    + rewrite Ef; discriminate.
    + intros; discriminate.
    + intros; discriminate.
    + intros; discriminate.
    + intros; discriminate.
    + intros _ k. reflexivity.
    + intros H; exfalso; apply H; reflexivity.
    + intros _. repeat split; auto.
Qed.

Lemma upd_same : forall A (f : N -> option A) k v, upd f k v k = v.
Proof. intros. unfold upd. rewrite N.eqb_refl. reflexivity. Qed.
Lemma upd_other : forall A (f : N -> option A) k v x, x <> k -> upd f k v x = f x.
Proof. intros. unfold upd. destruct (N.eqb_spec x k); congruence. Qed.

Lemma inv2_res : forall s k, Inv2 s -> Inv2 (res_step sc s k).
Proof.
  intros s k I. unfold res_step.
  destruct (m_res (mm s) k) as [[p e]|] eqn:Er; auto.
  destruct (find_spec sc k) as [r|] eqn:Hf; auto.
  destruct (j_thr s I k p e Er) as (_ & Hc).
  assert (Hnf : d_full (dk s) = false).
  { destruct (d_full (dk s)) eqn:Ef; auto.
    destruct (j_full s I Ef) as (_ & _ & Hres & _). rewrite Hres in Er. discriminate. }
  assert (Hnp : ~ fullph (mm s)).
  { intros Hp. pose proof (j_fullph s I Hp k). congruence. }
  destruct (nth_error (r_stages r) p) as [stg|] eqn:Hn.
  - destruct e.
    + constructor; simpl.
      * intros _. apply (j_state s I Hnf).
      * intros k' p' e' H'. destruct (N.eqb_spec k' k) as [->|Hne].
        -- rewrite upd_same in H'. inversion H'; subst. rewrite upd_same. split; congruence.
        -- rewrite upd_other in H' by auto. rewrite upd_other by auto. apply (j_thr s I k' p' e' H').
      * intros k' p' H'. destruct (N.eqb_spec k' k) as [->|Hne]; [congruence|].
        rewrite upd_other in H' by auto. apply (j_keys s I k' p' H').
      * intros k' p' H'. apply (j_res s I k p Hc).
      * apply (j_ins s I).
      * intros Hp. contradiction.
      * apply (j_fin s I).
      * rewrite Hnf. discriminate.
    + constructor; simpl.
      * apply (j_state s I).
      * intros k' p' e' H'. destruct (N.eqb_spec k' k) as [->|Hne].
        -- rewrite upd_same in H'. inversion H'; subst. split; congruence.
        -- rewrite upd_other in H' by auto. apply (j_thr s I k' p' e' H').
      * apply (j_keys s I).
      * apply (j_res s I).
      * apply (j_ins s I).
      * apply (j_fullph s I).
      * apply (j_fin s I).
      * intros Ef. destruct (j_full s I Ef) as (H1 & H2 & H3 & H4). congruence.
  - constructor; simpl.
    + intros _. apply (j_state s I Hnf).
    + intros k' p' e' H'. destruct (N.eqb_spec k' k) as [->|Hne].
      * rewrite upd_same in H'. discriminate.
      * rewrite upd_other in H' by auto. rewrite upd_other by auto. apply (j_thr s I k' p' e' H').
    + intros k' p' H'. destruct (N.eqb_spec k' k) as [->|Hne].
      * rewrite upd_same in H'. discriminate.
      * rewrite upd_other in H' by auto. apply (j_keys s I k' p' H').
    + intros k' p' H'. apply (j_res s I k p Hc).
    + apply (j_ins s I).
    + intros Hp. contradiction.
    + apply (j_fin s I).
    + rewrite Hnf. discriminate.
Qed.

(* a step of the arbitrator that leaves the contracts, its own state and the
   resolver goroutines alone *)
Lemma inv2_pc : forall s d' m' o',
  Inv2 s -> m_pc (mm s) <> MDone ->
  d_con d' = d_con (dk s) -> d_full d' = d_full (dk s) -> d_state d' = d_state (dk s) ->
  (d_res (dk s) = true -> d_res d' = true) ->
  m_res m' = m_res (mm s) -> m_state m' = m_state (mm s) -> m_fin m' = m_fin (mm s) ->
  (forall t, m_pc m' = MCommit SFull t -> forall k, d_con (dk s) k = None) ->
  (forall t, m_pc m' = MInsert t -> d_res d' = true /\ m_state m' = SClosed) ->
  Inv2 (mkSt d' m' o').
Proof.
  intros s d' m' o' I Hpc Hcon Hfull Hst Hres Hmres Hmst Hmfin Hcf Hins.
  assert (Hnf : d_full (dk s) = false).
  { destruct (d_full (dk s)) eqn:Ef; auto. destruct (j_full s I Ef) as (_ & H & _). contradiction. }
  assert (Hnfin : m_fin (mm s) = None).
  { destruct (m_fin (mm s)) eqn:Em; auto.
    assert (Hne : m_fin (mm s) <> None) by congruence.
    destruct (j_fin s I Hne) as (H & _). contradiction. }
  constructor; simpl.
  - intros _. rewrite Hst, Hmst. apply (j_state s I Hnf).
  - rewrite Hmres, Hcon. apply (j_thr s I).
  - rewrite Hcon. apply (j_keys s I).
  - rewrite Hcon. intros k p H. apply Hres. apply (j_res s I k p H).
  - exact Hins.
  - rewrite Hcon. unfold fullph. rewrite Hmst. intros [H|[t H]].
    + apply (j_fullph s I). left. exact H.
    + eapply Hcf; eauto.
  - rewrite Hmfin, Hnfin. intros H; exfalso; apply H; reflexivity.
  - rewrite Hfull, Hnf. discriminate.
Qed.

Lemma wf_trivial_con : forall s, Inv2 s -> sc_empty sc = true \/ sc_kind sc = KCoop ->
  forall k, d_con (dk s) k = None.
Proof.
  intros s I H k. destruct (wf_trivial sc Hwf H) as [Hr _].
  destruct (d_con (dk s) k) eqn:E; auto.
  exfalso. apply (j_keys s I) in E. apply E. unfold find_spec. rewrite Hr. reflexivity.
Qed.

Lemma close_next_full : forall s, Inv2 s -> close_next sc (dk s) = SFull ->
  forall k, d_con (dk s) k = None.
Proof.
  intros s I H k. unfold close_next in H.
  destruct (sc_kind sc) eqn:Ek; try discriminate.
  - apply wf_trivial_con; auto.
  - destruct (d_res (dk s)) eqn:Er; [discriminate|].
    destruct (d_con (dk s) k) eqn:E; auto.
    apply (j_res s I) in E. congruence.
Qed.

Lemma no_contracts_none : forall s, Inv2 s -> no_contracts sc (dk s) = true ->
  forall k, d_con (dk s) k = None.
Proof.
  intros s I H k. destruct (d_con (dk s) k) eqn:E; auto. exfalso.
  pose proof (j_keys s I k n E) as Hk.
  destruct (find_spec sc k) as [r|] eqn:Hf; [|congruence].
  apply find_spec_in in Hf. destruct Hf as [Hin Hkey].
  unfold no_contracts in H. rewrite forallb_forall in H. specialize (H r Hin).
  rewrite Hkey, E in H. discriminate.
Qed.

Ltac pcstep I Epc :=
  eapply inv2_pc;
  [ exact I | rewrite Epc; discriminate | reflexivity | reflexivity | reflexivity
  | simpl; auto | reflexivity | reflexivity | reflexivity | simpl | simpl ].

Lemma inv2_main : forall s, Inv2 s -> Inv2 (main_step sc s).
Proof.
  intros s I. unfold main_step.
  destruct (m_pc (mm s)) as [| |i|t r|a t|t|t|t] eqn:Epc.
  - (* MIdle *)
    destruct (negb (d_closed (dk s)) && negb (m_closedeliv (mm s)) &&
              (negb (sc_userfc sc) || d_bcast (dk s))).
    { pcstep I Epc; intros t H; destruct (sc_kind sc); discriminate. }
    destruct (sc_userfc sc && negb (m_userdone (mm s)) && negb (d_closed (dk s))).
    { pcstep I Epc; intros t H; destruct (m_state (mm s)); discriminate. }
    destruct (m_sigs (mm s)); auto.
    pcstep I Epc; intros t H; discriminate.
  - (* MDone *) exact I.
  - (* MClose *)
    destruct i as [|[|i]]; pcstep I Epc; intros t H; discriminate.
  - (* MStep *)
    destruct (m_state (mm s)) eqn:Ems.
    + (* Default *)
      destruct t.
      * destruct (d_cset (dk s) && sc_cs_acts sc); pcstep I Epc; intros t H; discriminate.
      * pcstep I Epc; intros t H; discriminate.
      * pcstep I Epc; intros t H; try discriminate.
        inversion H. eapply close_next_full; eauto.
    + (* Broadcast *)
      destruct t; pcstep I Epc; intros t H; try discriminate.
      inversion H. eapply close_next_full; eauto.
    + (* CB *)
      destruct t; pcstep I Epc; intros t H; try discriminate.
      inversion H. eapply close_next_full; eauto.
    + (* Closed *)
      destruct (negb (d_res (dk s))) eqn:Er.
      { pcstep I Epc; intros t0 H; discriminate. }
      destruct (sc_empty sc) eqn:Ee.
      { pcstep I Epc; intros t0 H; try discriminate. apply wf_trivial_con; auto. }
      pcstep I Epc; intros t0 H; try discriminate.
      apply negb_false_iff in Er. split; [exact Er|exact Ems].
    + (* Waiting *)
      destruct (no_contracts sc (dk s)) eqn:En.
      { pcstep I Epc; intros t0 H; try discriminate. apply no_contracts_none; auto. }
      destruct r.
      * (* relaunchResolvers *)
        assert (Hnf : d_full (dk s) = false).
        { destruct (d_full (dk s)) eqn:Ef; auto.
          destruct (j_full s I Ef) as (_ & H & _). congruence. }
        assert (Hnfin : m_fin (mm s) = None).
        { destruct (m_fin (mm s)) eqn:Em; auto.
          assert (Hne : m_fin (mm s) <> None) by congruence.
          destruct (j_fin s I Hne) as (H & _). congruence. }
        constructor; simpl.
        -- intros _. rewrite (j_state s I Hnf). exact Ems.
        -- intros k p e H. unfold relaunch in H.
           destruct (find_spec sc k) as [r0|] eqn:Hf; [|discriminate].
           destruct (d_con (dk s) k) as [p0|] eqn:Hc; [|discriminate].
           inversion H; subst. split; congruence.
        -- apply (j_keys s I).
        -- apply (j_res s I).
        -- intros; discriminate.
        -- unfold fullph; simpl. intros [H|[t0 H]]; discriminate.
        -- rewrite Hnfin. intros H; exfalso; apply H; reflexivity.
        -- rewrite Hnf. discriminate.
      * pcstep I Epc; intros t0 H; discriminate.
    + (* Full: NotifyChannelResolved *)
      assert (Hnf : d_full (dk s) = false).
      { destruct (d_full (dk s)) eqn:Ef; auto.
        destruct (j_full s I Ef) as (_ & H & _). congruence. }
      assert (Hnfin : m_fin (mm s) = None).
      { destruct (m_fin (mm s)) eqn:Em; auto.
        assert (Hne : m_fin (mm s) <> None) by congruence.
        destruct (j_fin s I Hne) as (H & _). congruence. }
      constructor; simpl.
      * intros _. rewrite (j_state s I Hnf). exact Ems.
      * apply (j_thr s I).
      * apply (j_keys s I).
      * apply (j_res s I).
      * intros; discriminate.
      * intros _. apply (j_fullph s I). left. exact Ems.
      * rewrite Hnfin. intros _. repeat split; auto. intros n H; discriminate.
      * rewrite Hnf. discriminate.
  - (* MCommit *)
    assert (Hnf : d_full (dk s) = false).
    { destruct (d_full (dk s)) eqn:Ef; auto.
      destruct (j_full s I Ef) as (_ & H & _). congruence. }
    assert (Hnfin : m_fin (mm s) = None).
    { destruct (m_fin (mm s)) eqn:Em; auto.
      assert (Hne : m_fin (mm s) <> None) by congruence.
      destruct (j_fin s I Hne) as (H & _). congruence. }
    constructor; simpl.
    + reflexivity.
    + apply (j_thr s I).
    + apply (j_keys s I).
    + apply (j_res s I).
    + intros; discriminate.
    + unfold fullph; simpl. intros [H|[t0 H]]; [|discriminate].
      apply (j_fullph s I). right. exists t. rewrite Epc, H. reflexivity.
    + rewrite Hnfin. intros H; exfalso; apply H; reflexivity.
    + rewrite Hnf. discriminate.
  - (* MBcast *) pcstep I Epc; intros t0 H; discriminate.
  - (* MPublish *) pcstep I Epc; intros t0 H; discriminate.
  - (* MInsert *)
    assert (Hnf : d_full (dk s) = false).
    { destruct (d_full (dk s)) eqn:Ef; auto.
      destruct (j_full s I Ef) as (_ & H & _). congruence. }
    assert (Hnfin : m_fin (mm s) = None).
    { destruct (m_fin (mm s)) eqn:Em; auto.
      assert (Hne : m_fin (mm s) <> None) by congruence.
      destruct (j_fin s I Hne) as (H & _). congruence. }
    destruct (j_ins s I t Epc) as [Hres Hcl].
    constructor; simpl.
    + intros _. apply (j_state s I Hnf).
    + intros k p e H. unfold insert_res in H. unfold insert_con.
      destruct (find_spec sc k) as [r0|] eqn:Hf.
      * inversion H; subst. split; congruence.
      * apply (j_thr s I k p e) in H. destruct H as [H _]. congruence.
    + intros k p H. unfold insert_con in H.
      destruct (find_spec sc k) as [r0|] eqn:Hf; [congruence|].
      apply (j_keys s I k p) in H. congruence.
    + intros; exact Hres.
    + intros; discriminate.
    + unfold fullph; simpl. intros [H|[t0 H]]; [congruence|discriminate].
    + rewrite Hnfin. intros H; exfalso; apply H; reflexivity.
    + rewrite Hnf. discriminate.
Qed.

Lemma inv2_step : forall s e, Inv2 s -> Inv2 (step sc s e).
Proof.
  intros s [[|k| |]|] I.
  - apply inv2_main; auto.
  - apply inv2_res; auto.
  - apply inv2_anchor; auto.
  - apply inv2_fin; auto.
  - apply inv2_crash; auto.
Qed.

Lemma inv2_run : forall h, Inv2 (run sc h).
Proof.
  intros h. apply (reach_ind sc Inv2).
  - apply inv2_init.
  - intros; apply inv2_step; auto.
  - exists h; reflexivity.
Qed.

Theorem resolved_only_when_done : forall h,
  let s := run sc h in
  (* ChainArbitrator.ResolveContract pending, running or done *)
  (m_fin (mm s) <> None \/ d_full (dk s) = true \/ d_state (dk s) = SFull) ->
  (forall k, d_con (dk s) k = None)
  /\ (m_fin (mm s) <> None -> m_state (mm s) = SFull).
Proof.
  intros h s H. pose proof (inv2_run h) as I. fold s in I. split.
  - destruct (d_full (dk s)) eqn:Ef.
    + apply (j_full s I Ef).
    + destruct H as [H|[H|H]]; [|discriminate|].
      * destruct (j_fin s I H) as (_ & Hst & _). apply (j_fullph s I). left. exact Hst.
      * apply (j_fullph s I). left. rewrite <- (j_state s I Ef). exact H.
  - intros Hf. apply (j_fin s I Hf).
Qed.

End Inv2.
