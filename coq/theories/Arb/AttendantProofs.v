(* C12 — proofs about the modelled event loop (AttendantModel.v). *)
From Coq Require Import List NArith ZArith Bool Lia.
From LV Require Import Arb.ActionsModel Arb.ActionsProofs Arb.AttendantModel.
Import ListNotations.
Local Open Scope N_scope.

Lemma lift_some a best r a' ef :
  lift a best r = Some (a', ef) ->
  exists ar, r = Some (ar, ef) /\ a' = mkAtt ar (at_start a) (at_now a) best (at_sets a).
Proof.
  unfold lift. destruct r as [[ar ef0]|]; [|discriminate].
  intros H. inversion H; subst. now exists ar.
Qed.

(* one event: the grace reference and the clock *)
Lemma att_step_ref fixed e a ev a' ef :
  att_step fixed e a ev = Some (a', ef) ->
  at_start a' = ref_of [ev] (at_now a) (at_start a) /\
  at_now a' = (at_now a + ticks [ev])%Z.
Proof.
  destruct ev; cbn [att_step ref_of ticks]; intros H.
  - apply lift_some in H. destruct H as (ar & _ & ->). cbn. lia.
  - inversion H; subst. lia.
  - inversion H; subst. cbn. lia.
  - inversion H; subst. cbn. lia.
  - apply lift_some in H. destruct H as (ar & _ & ->). cbn. lia.
  - apply lift_some in H. destruct H as (ar & _ & ->). cbn. lia.
Qed.

Lemma ref_of_cons ev r now ref :
  ref_of (ev :: r) now ref = ref_of r (now + ticks [ev])%Z (ref_of [ev] now ref).
Proof. destruct ev; cbn [ref_of ticks]; rewrite ?Z.add_0_r; reflexivity. Qed.

Lemma ticks_cons ev r : ticks (ev :: r) = (ticks [ev] + ticks r)%Z.
Proof. destruct ev; cbn [ticks]; lia. Qed.

(* the grace reference of a run is the clock at its last (re)start: no other
   event moves it *)
Lemma att_run_ref fixed e evs : forall a a' efs,
  att_run fixed e a evs = Some (a', efs) ->
  at_start a' = ref_of evs (at_now a) (at_start a) /\
  at_now a' = (at_now a + ticks evs)%Z.
Proof.
  induction evs as [|ev r IH]; intros a a' efs H.
  - cbn in H. inversion H; subst. cbn. lia.
  - cbn [att_run] in H.
    destruct (att_step fixed e a ev) as [[a1 ef]|] eqn:S; [|discriminate].
    destruct (att_run fixed e a1 r) as [[a2 efs2]|] eqn:R; [|discriminate].
    inversion H; subst. destruct (att_step_ref _ _ _ _ _ _ S) as (S1 & S2).
    destruct (IH _ _ _ R) as (R1 & R2).
    rewrite R1, R2, S1, S2, (ref_of_cons ev r), (ticks_cons ev r). split; [reflexivity|lia].
Qed.

Lemma ref_of_nostart evs : forall now ref,
  forallb (fun ev => negb (is_start ev)) evs = true -> ref_of evs now ref = ref.
Proof.
  induction evs as [|ev r IH]; intros now ref H; [reflexivity|].
  cbn [forallb] in H. apply andb_true_iff in H. destruct H as (H1 & H2).
  destruct ev; cbn [ref_of]; try (now apply IH). discriminate.
Qed.

Lemma start_constant fixed e a evs a' efs :
  forallb (fun ev => negb (is_start ev)) evs = true ->
  att_run fixed e a evs = Some (a', efs) ->
  at_start a' = at_start a /\ at_now a' = (at_now a + ticks evs)%Z.
Proof.
  intros NS R. destruct (att_run_ref _ _ _ _ _ _ R) as (R1 & R2).
  rewrite R1, ref_of_nostart by assumption. now split.
Qed.

(* deadline in the loop: whatever happened since the arbitrator was started *)
Lemma due_with_uptime e u h height :
  due (with_uptime e u) h height <->
  (let delta := if h_incoming h then e_in_delta e else e_out_delta e in
   h_expiry h < u32 /\ delta <= h_expiry h /\ h_expiry h - delta <= height /\
   (if h_incoming h then e_pre e (h_hash h) = true
    else e_fwd e (h_idx h) = true \/ (e_grace e < u)%Z)).
Proof. unfold due, with_uptime; cbn. reflexivity. Qed.

Lemma loop_deadline fixed e a evs a' efs h height :
  forallb (fun ev => negb (is_start ev)) evs = true ->
  att_run fixed e a evs = Some (a', efs) ->
  ar_state (at_arb a') = SDefault ->
  In h (c_local (at_sets a')) ->
  due (with_uptime e (at_now a + ticks evs - at_start a)) h height ->
  exists a'' ef, att_step fixed e a' (ABlock height) = Some (a'', ef) /\
                 ar_state (at_arb a'') = SCommitmentBroadcasted /\ f_force ef = 1.
Proof.
  intros NS R S I D. destruct (start_constant _ _ _ _ _ _ NS R) as (R1 & R2).
  cbn [att_step]. unfold att_env. rewrite R1, R2.
  rewrite on_block_default by assumption. cbv zeta.
  rewrite (check_local_due fixed _ h height (at_sets a') I D).
  cbn [lift]. do 2 eexists. split; [reflexivity|]. split; reflexivity.
Qed.

(* the arbitrator part of an attendant that has not seen a close event is
   either the pristine one or the one that broadcast *)
Definition pre_close (ar : arb) : Prop :=
  ar = arb0 \/ ar = mkArb SCommitmentBroadcasted 0 None.

Lemma run_adv_chain_pre fixed e ar h sets ar' ef :
  pre_close ar -> run_adv fixed e ar h TChain None sets = Some (ar', ef) -> pre_close ar'.
Proof.
  intros [-> | ->] H.
  - assert (O := on_block_default fixed e arb0 h sets eq_refl).
    unfold on_block in O. cbn [arb0 ar_state closed_state] in O. rewrite O in H. cbv zeta in H.
    destruct (acts_empty _); inversion H; subst; [now left|now right].
  - cbv in H. inversion H; subst. now right.
Qed.

Lemma att_step_pre fixed e a ev a' ef :
  pre_close (at_arb a) -> att_step fixed e a ev = Some (a', ef) -> pre_close (at_arb a').
Proof.
  intros P H. destruct ev; cbn [att_step] in H.
  - apply lift_some in H. destruct H as (ar & H & ->). cbn [at_arb].
    eapply run_adv_chain_pre; eassumption.
  - inversion H; subst. assumption.
  - inversion H; subst. assumption.
  - inversion H; subst. assumption.
  - apply lift_some in H. destruct H as (ar & H & ->). cbn [at_arb].
    destruct P as [P|P]; rewrite P in H.
    + rewrite on_block_default in H by reflexivity. cbv zeta in H.
      destruct (acts_empty _); inversion H; subst; [now left|now right].
    + rewrite on_block_broadcasted in H by reflexivity. inversion H; subst. now right.
  - apply lift_some in H. destruct H as (ar & H & ->). cbn [at_arb].
    destruct P as [P|P]; rewrite P in H.
    + rewrite on_user_default in H by reflexivity. inversion H; subst. now right.
    + cbv in H. inversion H; subst. now right.
Qed.

Lemma att_run_pre fixed e evs : forall a a' efs,
  pre_close (at_arb a) -> att_run fixed e a evs = Some (a', efs) -> pre_close (at_arb a').
Proof.
  induction evs as [|ev r IH]; intros a a' efs P H.
  - cbn in H. inversion H; subst. assumption.
  - cbn [att_run] in H.
    destruct (att_step fixed e a ev) as [[a1 ef]|] eqn:S; [|discriminate].
    destruct (att_run fixed e a1 r) as [[a2 efs2]|] eqn:R; [|discriminate].
    inversion H; subst. eapply IH; [|eassumption]. eapply att_step_pre; eassumption.
Qed.

(* no spurious force close in the loop: a block that makes the running
   arbitrator force close has a witness HTLC under the up-time since the last
   (re)start *)
Lemma loop_no_spurious fixed e now sets evs a' efs height a'' ef :
  att_run fixed e (att0 now sets) evs = Some (a', efs) ->
  att_step fixed e a' (ABlock height) = Some (a'', ef) -> f_force ef <> 0 ->
  exists h, go_witness (with_uptime e (now + ticks evs - ref_of evs now now))
                       (at_sets a') height h.
Proof.
  intros R S F.
  destruct (att_run_ref _ _ _ _ _ _ R) as (R1 & R2). cbn [att0 at_now at_start] in R1, R2.
  assert (P : pre_close (at_arb a')) by (eapply att_run_pre; [|eassumption]; now left).
  cbn [att_step] in S. apply lift_some in S. destruct S as (ar & S & _).
  unfold att_env in S. rewrite R1, R2 in S.
  destruct P as [P|P]; rewrite P in S.
  - eapply no_spurious; eassumption.
  - rewrite on_block_broadcasted in S by reflexivity. inversion S; subst.
    exfalso. apply F. reflexivity.
Qed.
