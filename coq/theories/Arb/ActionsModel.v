(* C12 — executable model of the on-chain decision logic of lnd's
   ChannelArbitrator (contractcourt/channel_arbitrator.go):

     shouldGoOnChain, checkCommitChainActions, checkLocalChainActions,
     checkRemoteDanglingActions, checkRemoteChainActions,
     checkRemoteDiffActions, constructChainActions, prepContractResolutions,
     abandonForwards / failIncomingDust, stateStep, advanceState and the
     event handlers (handleBlockbeat, force-close request, handle*CloseEvent).

   Definitions only; proofs live in ActionsProofs.v, property theorems in
   ActionsProps.v.  Go maps iterate in random order: every list below stands
   for a multiset, the trace checker compares sorted lists. *)
From Coq Require Import List NArith ZArith Bool.
Import ListNotations.
Local Open Scope N_scope.

(* ------------------------------------------------------------------ *)
(* HTLCs and commitment sets                                           *)

(* channeldb.HTLC projected on the fields the arbitrator reads.
   h_out = OutputIndex (negative = dust, no output on that commitment);
   h_hash identifies RHash. *)
Record htlc := mkHtlc {
  h_idx : N; h_incoming : bool; h_out : Z; h_expiry : N; h_hash : N }.

Definition h_dust (h : htlc) : bool := (h_out h <? 0)%Z.

(* newHtlcSet: split by direction.  (Duplicate indexes inside one
   commitment+direction would overwrite each other in the Go map; the
   theorems carry NoDup hypotheses where it matters.) *)
Definition outs (l : list htlc) : list htlc := filter (fun h => negb (h_incoming h)) l.
Definition ins (l : list htlc) : list htlc := filter h_incoming l.

(* CommitSet.HtlcSets / activeHTLCs: a missing RemotePendingHtlcSet entry
   behaves as the empty set everywhere. *)
Record csets := mkSets { c_local : list htlc; c_remote : list htlc; c_pending : list htlc }.

Definition cs_empty (c : csets) : bool :=
  match c_local c, c_remote c, c_pending c with [], [], [] => true | _, _, _ => false end.

Inductive ckey := CLocal | CRemote | CPending.        (* HtlcSetKey *)

Definition conf_set (k : ckey) (c : csets) : list htlc :=
  match k with CLocal => c_local c | CRemote => c_remote c | CPending => c_pending c end.

(* ------------------------------------------------------------------ *)
(* Environment                                                         *)

Record env := mkEnv {
  e_in_delta : N;            (* IncomingBroadcastDelta (uint32) *)
  e_out_delta : N;           (* OutgoingBroadcastDelta (uint32) *)
  e_fwd : N -> bool;         (* IsForwardedHTLC(chan, idx) *)
  e_uptime : Z;              (* Clock.Now() - startTimestamp *)
  e_grace : Z;               (* PaymentsExpirationGracePeriod *)
  e_pre : N -> bool }.       (* isPreimageAvailable(RHash): witness cache or
                                invoice carrying its preimage *)

Definition u32 : N := 4294967296.
(* uint32 subtraction *)
Definition u32_sub (a b : N) : N := (a mod u32 + u32 - b mod u32) mod u32.

(* shouldGoOnChain *)
Definition should_go (e : env) (h : htlc) (delta height : N) : bool :=
  if height <? u32_sub (h_expiry h) delta then false
  else if h_incoming h then true
  else e_fwd e (h_idx h) || (e_grace e <? e_uptime e)%Z.

Inductive trigger := TChain | TUser | TRemoteClose | TLocalClose | TCoopClose | TBreachClose.

Definition is_chain (t : trigger) : bool := match t with TChain => true | _ => false end.

(* ------------------------------------------------------------------ *)
(* ChainActionMap                                                      *)

Record actions := mkActs {
  a_timeout : list htlc;     (* HtlcTimeoutAction *)
  a_claim : list htlc;       (* HtlcClaimAction (never produced today) *)
  a_faildust : list htlc;    (* HtlcFailDustAction *)
  a_outwatch : list htlc;    (* HtlcOutgoingWatchAction *)
  a_inwatch : list htlc;     (* HtlcIncomingWatchAction *)
  a_indust : list htlc;      (* HtlcIncomingDustFinalAction *)
  a_dangling : list htlc }.  (* HtlcFailDanglingAction *)

Definition no_actions : actions := mkActs [] [] [] [] [] [] [].

(* ChainActionMap.Merge *)
Definition merge (a b : actions) : actions :=
  mkActs (a_timeout a ++ a_timeout b) (a_claim a ++ a_claim b)
         (a_faildust a ++ a_faildust b) (a_outwatch a ++ a_outwatch b)
         (a_inwatch a ++ a_inwatch b) (a_indust a ++ a_indust b)
         (a_dangling a ++ a_dangling b).

Definition nil_b {A} (l : list A) : bool := match l with [] => true | _ => false end.

(* len(chainActions) == 0 : keys exist only for non-empty lists *)
Definition acts_empty (a : actions) : bool :=
  nil_b (a_timeout a) && nil_b (a_claim a) && nil_b (a_faildust a) &&
  nil_b (a_outwatch a) && nil_b (a_inwatch a) && nil_b (a_indust a) &&
  nil_b (a_dangling a).

Definition mem_idx (i : N) (l : list htlc) : bool := existsb (fun h => N.eqb (h_idx h) i) l.

(* ------------------------------------------------------------------ *)
(* checkCommitChainActions                                             *)

Definition have_chain_actions (e : env) (height : N) (l : list htlc) : bool :=
  existsb (fun h => should_go e h (e_out_delta e) height) (outs l) ||
  existsb (fun h => e_pre e (h_hash h) && should_go e h (e_in_delta e) height) (ins l).

Definition check_commit (e : env) (height : N) (t : trigger) (l : list htlc) : actions :=
  if negb (have_chain_actions e height l) && is_chain t then no_actions
  else
    let go h := should_go e h (e_out_delta e) height in
    mkActs
      (filter (fun h => negb (h_dust h) && go h) (outs l))
      []
      (filter h_dust (outs l))
      (filter (fun h => negb (h_dust h) && negb (go h)) (outs l))
      (filter (fun h => negb (h_dust h)) (ins l))
      (filter h_dust (ins l))
      [].

(* ------------------------------------------------------------------ *)
(* checkRemoteDanglingActions                                          *)

(* remoteHTLCs[htlc.HtlcIndex] = htlc over the remote and the remote-pending
   set: one entry per index.  (If the two commitments carried different
   records for one index the Go result would depend on map iteration order;
   the first occurrence is kept here — see notes/C12.md.) *)
Fixpoint dedup_idx (seen : list N) (l : list htlc) : list htlc :=
  match l with
  | [] => []
  | h :: r =>
    if existsb (N.eqb (h_idx h)) seen then dedup_idx seen r
    else h :: dedup_idx (h_idx h :: seen) r
  end.

Definition remote_merged (c : csets) : list htlc :=
  dedup_idx [] (outs (c_remote c) ++ outs (c_pending c)).

Definition split_fail (cand : list htlc) : actions :=
  mkActs [] [] (filter h_dust cand) [] [] []
         (filter (fun h => negb (h_dust h)) cand).

Definition check_dangling (e : env) (height : N) (c : csets) (confirmed : bool) : actions :=
  let pend := filter (fun h => negb (mem_idx (h_idx h) (outs (c_local c)))) (remote_merged c) in
  split_fail
    (filter (fun h => (should_go e h (e_out_delta e) height || confirmed)
                      && negb (e_pre e (h_hash h))) pend).

(* checkLocalChainActions.  [fixed] selects the candidate fix (see
   [closed_failback_set] below): when only a dangling remote HTLC makes the
   chain trigger fire, the HTLCs of our own commitment are classified too. *)
Definition check_local (fixed : bool) (e : env) (height : N) (t : trigger) (c : csets)
           (confirmed : bool) : actions :=
  let la := check_commit e height t (c_local c) in
  let da := check_dangling e height c confirmed in
  let la' := if fixed && acts_empty la && negb (acts_empty da) && is_chain t
             then check_commit e height TUser (c_local c) else la in
  merge la' da.

(* checkRemoteDiffActions *)
Definition check_remote_diff (e : env) (c : csets) (pending_conf : bool) : actions :=
  let conf := if pending_conf then c_pending c else c_remote c in
  let dang := if pending_conf then c_remote c else c_pending c in
  split_fail
    (filter (fun h => negb (mem_idx (h_idx h) (outs conf)) && negb (e_pre e (h_hash h)))
            (outs dang)).

(* checkRemoteChainActions *)
Definition check_remote (e : env) (height : N) (t : trigger) (c : csets) (pending_conf : bool)
  : actions :=
  merge (check_commit e height t (if pending_conf then c_pending c else c_remote c))
        (check_remote_diff e c pending_conf).

(* constructChainActions (ConfCommitKey present) *)
Definition construct (fixed : bool) (e : env) (height : N) (t : trigger) (k : ckey) (c : csets)
  : actions :=
  match k with
  | CLocal => check_local fixed e height t c true
  | CRemote => check_remote e height t c false
  | CPending => check_remote e height t c true
  end.

(* ------------------------------------------------------------------ *)
(* Contract resolutions and prepContractResolutions                    *)

Record resolutions := mkRes {
  r_breach : bool; r_anchor : bool; r_commit : bool;
  r_in : list Z;             (* output indexes having an IncomingHtlcResolution *)
  r_out : list Z }.          (* output indexes having an OutgoingHtlcResolution *)

Definition res_empty (r : resolutions) : bool :=
  negb (r_commit r) && nil_b (r_in r) && nil_b (r_out r) && negb (r_anchor r)
  && negb (r_breach r).

Inductive rkind := RTimeout | RSuccess | RInContest | ROutContest | RAnchor | RBreach | RCommit.

(* boltArbitratorLog.writeResolver: the anchor resolver has no ResolverKey
   and is not persisted, so it never counts as an unresolved contract. *)
Definition persisted (p : rkind * N) : bool :=
  match fst p with RAnchor => false | _ => true end.

Definition has_res (l : list Z) (h : htlc) : bool := existsb (Z.eqb (h_out h)) l.

Definition mk_resolvers (k : rkind) (res : list Z) (l : list htlc) : list (rkind * N) :=
  map (fun h => (k, h_idx h)) (filter (has_res res) l).

Definition prep_resolutions (r : resolutions) (a : actions) : list (rkind * N) :=
  (if r_anchor r then [(RAnchor, 0)] else []) ++
  (if r_breach r then [(RBreach, 0)]
   else
     mk_resolvers RSuccess (r_in r) (a_claim a) ++
     mk_resolvers RTimeout (r_out r) (a_timeout a) ++
     mk_resolvers RInContest (r_in r) (a_inwatch a) ++
     mk_resolvers ROutContest (r_out r) (a_outwatch a) ++
     (if r_commit r then [(RCommit, 0)] else [])).

(* ------------------------------------------------------------------ *)
(* State machine                                                       *)

Inductive astate :=
| SDefault | SBroadcastCommit | SCommitmentBroadcasted | SContractClosed
| SWaitingFullResolution | SFullyResolved | SError.

(* Observable effects of a step (appended in program order). *)
Record eff := mkEff {
  f_fail : list N;             (* ResolutionMsg fail-backs: HtlcIndex *)
  f_final : list N;            (* PutFinalHtlcOutcome(idx, settled=false) *)
  f_resolvers : list (rkind * N);  (* InsertUnresolvedContracts *)
  f_force : N;                 (* ForceCloseChan invocations *)
  f_resolved : N }.            (* NotifyChannelResolved invocations *)

Definition no_eff : eff := mkEff [] [] [] 0 0.
Definition eff_app (a b : eff) : eff :=
  mkEff (f_fail a ++ f_fail b) (f_final a ++ f_final b)
        (f_resolvers a ++ f_resolvers b) (f_force a + f_force b)
        (f_resolved a + f_resolved b).

(* fn.NewSet(...) : one message per distinct index *)
Fixpoint nodup_n (l : list N) : list N :=
  match l with
  | [] => []
  | x :: r => if existsb (N.eqb x) r then nodup_n r else x :: nodup_n r
  end.

Definition idxs (l : list htlc) : list N := map h_idx l.

(* THE SWITCH.  Which chain actions StateContractClosed hands to
   abandonForwards.  Today (fixed = false): HtlcFailDanglingAction only, so an
   HtlcFailDustAction entry computed there is never acted upon (DESIGN §7-a).
   Candidate fix (fixed = true, notes/C12-fix.diff): also the
   HtlcFailDustAction entries that are not dust on OUR commitment (those are
   cancelled back in StateDefault, when the node decides to act), together
   with the [check_local] change above.
   [impl_fixed] says which variant the lnd tree under test implements; the
   correspondence run uses it, the theorems are stated for both values. *)
Definition closed_failback_set (fixed : bool) (c : csets) (a : actions) : list htlc :=
  a_dangling a ++
  (if fixed
   then filter (fun h => negb (existsb (fun l => N.eqb (h_idx l) (h_idx h) && h_dust l)
                                       (outs (c_local c))))
               (a_faildust a)
   else []).

Definition impl_fixed : bool := false.

(* checkLegacyBreach *)
Definition legacy_breach (logres : option resolutions) : astate :=
  match logres with None => SFullyResolved | Some _ => SContractClosed end.

Section Machine.
  Variable fixed : bool.
  Variable e : env.

  (* stateStep.  [conf] = confCommitSet (with its ConfCommitKey), [active] =
     the link's last view (activeHTLCs after updateActiveHTLCs), [logres] =
     what FetchContractResolutions returns. *)
  Definition state_step (st : astate) (height : N) (t : trigger)
             (conf : option (ckey * csets)) (active : csets)
             (logres : option resolutions) : astate * eff :=
    match st with
    | SDefault =>
      let acts := match conf with
                  | None => check_local fixed e height t active false
                  | Some (k, c) => construct fixed e height t k c
                  end in
      if acts_empty acts && is_chain t then (SDefault, no_eff)
      else
        let ef := mkEff (nodup_n (idxs (a_faildust acts))) [] [] 0 0 in
        match t with
        | TChain | TUser => (SBroadcastCommit, ef)
        | TCoopClose => (SFullyResolved, ef)
        | TLocalClose | TRemoteClose => (SContractClosed, ef)
        | TBreachClose => (legacy_breach logres, ef)
        end
    | SBroadcastCommit =>
      match t with
      | TLocalClose | TRemoteClose => (SContractClosed, no_eff)
      | TBreachClose => (legacy_breach logres, no_eff)
      | TCoopClose => (SFullyResolved, no_eff)
      | TChain | TUser => (SCommitmentBroadcasted, mkEff [] [] [] 1 0)
      end
    | SCommitmentBroadcasted =>
      match t with
      | TChain | TUser => (SCommitmentBroadcasted, no_eff)
      | TLocalClose | TRemoteClose => (SContractClosed, no_eff)
      | TCoopClose => (SFullyResolved, no_eff)
      | TBreachClose => (legacy_breach logres, no_eff)
      end
    | SContractClosed =>
      match logres, conf with
      | None, _ => (SError, no_eff)
      | Some _, None => (SError, no_eff)    (* pre-CommitSet legacy log: out of scope *)
      | Some r, Some (k, c) =>
        if res_empty r && cs_empty c then (SFullyResolved, no_eff)
        else
          let acts := construct fixed e height t k c in
          let ef :=
            if r_breach r
            then mkEff (nodup_n (idxs (outs (c_remote c) ++ outs (c_pending c)))) [] [] 0 0
            else mkEff (nodup_n (idxs (closed_failback_set fixed c acts)))
                       (idxs (a_indust acts)) [] 0 0 in
          (SWaitingFullResolution,
           eff_app ef (mkEff [] [] (prep_resolutions r acts) 0 0))
      end
    | SWaitingFullResolution => (SWaitingFullResolution, no_eff)   (* refined in [advance] *)
    | SFullyResolved => (SFullyResolved, mkEff [] [] [] 0 1)
    | SError => (SError, no_eff)
    end.

  (* advanceState: step until the state repeats.  [unres] = number of
     unresolved contracts in the log (StateWaitingFullResolution consults it;
     no resolver makes progress inside one advanceState call). *)
  Definition adv_step (st : astate) (unres : nat) (height : N) (t : trigger)
             (conf : option (ckey * csets)) (active : csets)
             (logres : option resolutions) : astate * eff :=
    match st with
    | SWaitingFullResolution =>
      if Nat.eqb unres 0 then (SFullyResolved, no_eff) else (SWaitingFullResolution, no_eff)
    | _ => state_step st height t conf active logres
    end.

  Definition same_state (a b : astate) : bool :=
    match a, b with
    | SDefault, SDefault | SBroadcastCommit, SBroadcastCommit
    | SCommitmentBroadcasted, SCommitmentBroadcasted
    | SContractClosed, SContractClosed
    | SWaitingFullResolution, SWaitingFullResolution
    | SFullyResolved, SFullyResolved | SError, SError => true
    | _, _ => false
    end.

  Definition is_error (a : astate) : bool := match a with SError => true | _ => false end.

  Fixpoint advance (fuel : nat) (st : astate) (unres : nat) (height : N) (t : trigger)
           (conf : option (ckey * csets)) (active : csets)
           (logres : option resolutions) (acc : eff) : option (astate * nat * eff) :=
    match fuel with
    | O => None
    | S f =>
      let nx := fst (adv_step st unres height t conf active logres) in
      let ef := snd (adv_step st unres height t conf active logres) in
      let unres' := (unres + length (filter persisted (f_resolvers ef)))%nat in
      let acc' := eff_app acc ef in
      if is_error nx then Some (st, unres', acc')    (* error: state not committed *)
      else if same_state nx st then Some (nx, unres', acc')
      else advance f nx unres' height t conf active logres acc'
    end.

  Definition fuel0 : nat := 8.

  (* Arbitrator = state + the parts of the log the decision logic reads. *)
  Record arb := mkArb { ar_state : astate; ar_unres : nat; ar_res : option resolutions }.
  Definition arb0 : arb := mkArb SDefault 0 None.

  Definition run_adv (a : arb) (height : N) (t : trigger)
             (conf : option (ckey * csets)) (active : csets) : option (arb * eff) :=
    match advance fuel0 (ar_state a) (ar_unres a) height t conf active (ar_res a) no_eff with
    | None => None
    | Some (st, u, ef) => Some (mkArb st u (ar_res a), ef)
    end.

  Definition closed_state (s : astate) : bool :=      (* ArbitratorState.IsContractClosed *)
    match s with SContractClosed | SWaitingFullResolution | SFullyResolved => true | _ => false end.

  (* handleBlockbeat (no close event queued) *)
  Definition on_block (a : arb) (height : N) (active : csets) : option (arb * eff) :=
    if closed_state (ar_state a) then Some (a, no_eff)
    else match ar_state a with
         | SDefault => run_adv a height TChain None active
         | _ => Some (a, no_eff)
         end.

  (* channelAttendant, forceCloseReqs *)
  Definition on_user (a : arb) (height : N) (active : csets) : option (arb * eff) :=
    match ar_state a with
    | SDefault => run_adv a height TUser None active
    | _ => Some (a, no_eff)
    end.

  Inductive close_kind := KLocal | KRemote | KPending | KBreach | KCoop.

  (* handle{Local,Remote}ForceCloseEvent / handleContractBreach /
     handleCoopCloseEvent: log the resolutions, then advanceState. *)
  Definition on_close (a : arb) (k : close_kind) (height : N) (c : csets)
             (r : resolutions) (active : csets) : option (arb * eff) :=
    match k with
    | KCoop => run_adv a height TCoopClose None active
    | KLocal => run_adv (mkArb (ar_state a) (ar_unres a) (Some r)) height TLocalClose
                        (Some (CLocal, c)) active
    | KRemote => run_adv (mkArb (ar_state a) (ar_unres a) (Some r)) height TRemoteClose
                         (Some (CRemote, c)) active
    | KPending => run_adv (mkArb (ar_state a) (ar_unres a) (Some r)) height TRemoteClose
                          (Some (CPending, c)) active
    | KBreach =>
      let r' := mkRes true (r_anchor r) false [] [] in
      run_adv (mkArb (ar_state a) (ar_unres a) (Some r')) height TBreachClose
              (Some (CRemote, c)) active
    end.
End Machine.
