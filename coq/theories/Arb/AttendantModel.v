(* C12 — the arbitrator's EVENT LOOP (channelAttendant) as a second entry
   point around the decision logic of ActionsModel.v.

   The decision functions read per-arbitrator state that is written elsewhere:
     startTimestamp   set by Start() only; the reference of the start-up grace
                      period for own payments (shouldGoOnChain: upTime :=
                      Clock.Now() - startTimestamp);
     unmergedSet      written by notifyContractUpdate (the link's commitment
                      updates), merged into activeHTLCs (updateActiveHTLCs)
                      exactly when StateDefault reads it;
     bestHeight       local variable of channelAttendant: the height of the
                      last blockbeat (or of Start), used by a user request;
     cfg.ShortChanID  written by the contract-signals handler; only used as the
                      key of IsForwardedHTLC — the harness answers for the scid
                      announced last, so it does not appear here.
   Events of a run (what reaches the arbitrator between two decisions):
     AStart h      Stop + NewChannelArbitrator(the channel's current HTLC
                   sets) + Start(beat h): state read back from the log,
                   startTimestamp := now, progressStateMachineAfterRestart =
                   advanceState(h, chainTrigger) in WHATEVER state, then the
                   link's first contract signals (no effect);
     ASignal       UpdateContractSignals (every link start / reconnect);
     AUpdate k l   notifyContractUpdate(k, l);
     ATick dt      the clock advances (not an event of the arbitrator);
     ABlock h      blockbeat: bestHeight := h; handleBlockbeat;
     AUser         force close request: advanceState(bestHeight, userTrigger)
                   in StateDefault, refused otherwise.
   Definitions only. *)
From Coq Require Import List NArith ZArith Bool.
From LV Require Import Arb.ActionsModel.
Import ListNotations.
Local Open Scope N_scope.

Definition with_uptime (e : env) (u : Z) : env :=
  mkEnv (e_in_delta e) (e_out_delta e) (e_fwd e) u (e_grace e) (e_pre e).

Record att := mkAtt {
  at_arb : arb;          (* state + the parts of the log the decision reads *)
  at_start : Z;          (* startTimestamp (seconds) *)
  at_now : Z;            (* Clock.Now(): the environment's clock *)
  at_best : N;           (* bestHeight *)
  at_sets : csets }.     (* unmergedSet = the link's latest view *)

Inductive aev :=
| AStart (h : N)
| ASignal
| AUpdate (k : ckey) (l : list htlc)
| ATick (dt : Z)
| ABlock (h : N)
| AUser.

Definition set_key (k : ckey) (l : list htlc) (c : csets) : csets :=
  match k with
  | CLocal => mkSets l (c_remote c) (c_pending c)
  | CRemote => mkSets (c_local c) l (c_pending c)
  | CPending => mkSets (c_local c) (c_remote c) l
  end.

(* the environment the decision functions see in attendant state [a] *)
Definition att_env (e : env) (a : att) : env := with_uptime e (at_now a - at_start a)%Z.

Definition lift (a : att) (best : N) (r : option (arb * eff)) : option (att * eff) :=
  match r with
  | None => None
  | Some (ar, ef) => Some (mkAtt ar (at_start a) (at_now a) best (at_sets a), ef)
  end.

Definition att_step (fixed : bool) (e : env) (a : att) (ev : aev) : option (att * eff) :=
  match ev with
  | ATick dt =>
    Some (mkAtt (at_arb a) (at_start a) (at_now a + dt)%Z (at_best a) (at_sets a), no_eff)
  | ASignal => Some (a, no_eff)
  | AUpdate k l =>
    Some (mkAtt (at_arb a) (at_start a) (at_now a) (at_best a) (set_key k l (at_sets a)),
          no_eff)
  | ABlock h => lift a h (on_block fixed (att_env e a) (at_arb a) h (at_sets a))
  | AUser => lift a (at_best a)
                  (on_user fixed (att_env e a) (at_arb a) (at_best a) (at_sets a))
  | AStart h =>
    let a0 := mkAtt (at_arb a) (at_now a) (at_now a) h (at_sets a) in
    lift a0 h (run_adv fixed (att_env e a0) (at_arb a) h TChain None (at_sets a))
  end.

Fixpoint att_run (fixed : bool) (e : env) (a : att) (evs : list aev)
  : option (att * list eff) :=
  match evs with
  | [] => Some (a, [])
  | ev :: r =>
    match att_step fixed e a ev with
    | None => None
    | Some (a', ef) =>
      match att_run fixed e a' r with
      | None => None
      | Some (a'', efs) => Some (a'', ef :: efs)
      end
    end
  end.

(* a freshly created arbitrator: nothing in the log, not yet started *)
Definition att0 (now : Z) (sets : csets) : att := mkAtt arb0 now now 0 sets.

Definition is_start (ev : aev) : bool := match ev with AStart _ => true | _ => false end.

(* total clock advance of a history *)
Fixpoint ticks (evs : list aev) : Z :=
  match evs with
  | [] => 0%Z
  | ATick dt :: r => (dt + ticks r)%Z
  | _ :: r => ticks r
  end.

(* the grace reference after a history: the clock at its last (re)start *)
Fixpoint ref_of (evs : list aev) (now ref : Z) : Z :=
  match evs with
  | [] => ref
  | ATick dt :: r => ref_of r (now + dt)%Z ref
  | AStart _ :: r => ref_of r now now
  | _ :: r => ref_of r now ref
  end.
