(* C12 — non-vacuity of the event-loop theorems: a flapping peer.  Own payment
   (not forwarded) expiring at 1000, OutgoingBroadcastDelta 10, grace period
   20 s.  The arbitrator starts at height 985; the link comes up, flaps 18 s
   later (contract signals again, commitment re-sent), and 3 s after that the
   block at the cut-off 990 arrives: up-time 21 s > 20 s, the node must go on
   chain. *)
From Coq Require Import List NArith ZArith Bool Lia.
From LV Require Import Arb.ActionsModel Arb.ActionsProofs Arb.AttendantModel
     Arb.AttendantProofs.
Import ListNotations.
Local Open Scope N_scope.

Definition x_env : env := mkEnv 10 10 (fun _ => false) 0 20 (fun _ => false).
Definition x_h : htlc := mkHtlc 3 false 0 1000 1.
Definition x_sets : csets :=
  mkSets [x_h] [mkHtlc 3 false 20 1000 1] [mkHtlc 3 false 40 1000 1].
Definition x_hist : list aev :=
  [ASignal; ATick 18; ASignal; AUpdate CLocal [x_h]; ABlock 989; ATick 3].

(* the started attendant *)
Definition x_a0 : att := mkAtt arb0 100 100 985 x_sets.

Example x_start :
  att_step false x_env (att0 100 x_sets) (AStart 985) = Some (x_a0, no_eff).
Proof. vm_compute. reflexivity. Qed.

Example x_hyps :
  forallb (fun ev => negb (is_start ev)) x_hist = true /\
  (exists a' efs, att_run false x_env x_a0 x_hist = Some (a', efs) /\
                  ar_state (at_arb a') = SDefault /\ In x_h (c_local (at_sets a'))) /\
  due (with_uptime x_env (at_now x_a0 + ticks x_hist - at_start x_a0)) x_h 990.
Proof.
  split; [reflexivity|]. split.
  - do 2 eexists. split; [vm_compute; reflexivity|]. split; [reflexivity|]. now left.
  - unfold due. cbn. repeat split; lia.
Qed.

(* the run itself: one force close at 990, none one second earlier *)
Example x_run :
  (match att_run false x_env x_a0 (x_hist ++ [ABlock 990]) with
   | Some (a, efs) => (ar_state (at_arb a), map f_force efs)
   | None => (SError, [])
   end) = (SCommitmentBroadcasted, [0; 0; 0; 0; 0; 0; 1]).
Proof. vm_compute. reflexivity. Qed.

Example x_run_within_grace :
  (match att_run false x_env x_a0
               [ASignal; ATick 18; ASignal; ATick 2; ABlock 990] with
   | Some (a, efs) => (ar_state (at_arb a), map f_force efs)
   | None => (SError, [])
   end) = (SDefault, [0; 0; 0; 0; 0]).
Proof. vm_compute. reflexivity. Qed.

(* a restart legitimately moves the reference *)
Example x_ref_restart :
  ref_of [ATick 5; ASignal; AStart 986; ATick 7; ASignal] 100 100 = 105%Z.
Proof. reflexivity. Qed.
