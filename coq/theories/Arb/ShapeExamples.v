(* C12b — non-vacuity of the *_reachable theorems: a concrete reachable
   mid-flight channel state (Shape.w_ops_mid: three different HTLC sets, a
   pending remote commitment) satisfies every hypothesis, and the conclusions
   are about non-trivial objects (a dust and a dangling must-fail HTLC).
   TESTS by vm_compute, not theorems about all schedules. *)
From Coq Require Import List NArith ZArith Bool Lia.
From LV Require Import Arb.ActionsModel Arb.ActionsProofs Arb.Shape.
Import ListNotations.
Local Open Scope N_scope.

Definition sx_state : CM.sys := CM.run w_cfg w_s0 w_ops_mid.

Example sx_reachable : chan_reachable w_cfg sx_state.
Proof. left. apply w_reach. Qed.

Example sx_sets : sets_of sx_state true = w_mid_sets.
Proof. exact (proj1 w_mid_ok). Qed.

Example sx_close_ok k : close_ok sx_state true k.
Proof. intros _. exact (proj2 w_mid_ok). Qed.

(* the shape theorem instantiated: all three inclusions are non-trivial *)
Example sx_shape : shape true (sets_of sx_state true).
Proof.
  rewrite <- (proj2 w_mid_ok). apply (shape_reachable w_cfg); [exact w_cfg_ok|apply w_reach].
Qed.

Definition sx_env : env :=
  mkEnv 10 10 (fun _ => true) 0 14400 (fun _ => false).

(* the peer's current commitment confirms: outputs 0 (offered #0); A's #1 is
   dust there, A's #2 exists only on the pending commitment *)
Definition sx_res : resolutions := mkRes false true true [] [0%Z].

Example sx_res_complete : res_complete sx_res (conf_of KRemote (sets_of sx_state true)).
Proof.
  rewrite sx_sets. intros h I D. cbn in I.
  repeat (destruct I as [<-|I]; [cbn in D; first [discriminate D | reflexivity]|]). destruct I.
Qed.

Example sx_must_fail_dust : must_fail sx_env CRemote (sets_of sx_state true) 1.
Proof. rewrite sx_sets. left. exists (mkHtlc 1 false (-1) 520 33). cbn. tauto. Qed.

Example sx_must_fail_dangling : must_fail sx_env CRemote (sets_of sx_state true) 2.
Proof.
  rewrite sx_sets. right. split; [cbn; tauto|]. split.
  - cbn. intuition discriminate.
  - intros h I E. reflexivity.
Qed.

(* the reachable corollary applies, and its run is the expected one: one
   outgoing resolver for #0, fail-backs for #1 (dust) and #2 (dangling) *)
Example sx_direct :
  exists a' ef,
    on_close false sx_env arb0 KRemote 400 (sets_of sx_state true) sx_res (sets_of sx_state true)
      = Some (a', ef) /\
    cnt 1 (f_fail ef) = 1%nat /\ cnt 2 (f_fail ef) = 1%nat /\ cnt 0 (f_fail ef) = 0%nat.
Proof.
  destruct (classification_direct_reachable w_cfg sx_state true sx_env KRemote 400 sx_res
              w_cfg_ok sx_reachable eq_refl eq_refl sx_res_complete)
    as (a' & ef & On & _ & G & M).
  exists a', ef. split; [exact On|].
  split; [apply M, sx_must_fail_dust|]. split; [apply M, sx_must_fail_dangling|].
  destruct G as (G1 & _). rewrite sx_sets in G1.
  apply (G1 (mkHtlc 0 false 0 500 11)); [cbn; tauto|reflexivity].
Qed.

Example sx_direct_run :
  option_map (fun r => (ar_state (fst r), f_fail (snd r), f_resolvers (snd r)))
    (on_close false sx_env arb0 KRemote 400 (sets_of sx_state true) sx_res
              (sets_of sx_state true))
  = Some (SWaitingFullResolution, [1; 2], [(RAnchor, 0); (ROutContest, 0); (RCommit, 0)]).
Proof. vm_compute. reflexivity. Qed.
