(* C13 property theorems (statements only; proofs in RestartProofs/Examples). *)
From Coq Require Import List NArith Bool Arith.
From LV Require Import Arb.RestartModel Arb.RestartExec Arb.RestartProofs Arb.RestartInv
  Arb.RestartProgress Arb.RestartExamples Arb.RestartIncModel Arb.RestartIncProofs.
Import ListNotations.

(* Every upstream resolution / final htlc outcome / resolved notification that
   ANY history produces (any interleaving of goroutine steps, a stop at any
   instant, any number of restarts) is one the uninterrupted run produces. *)
Theorem C13_outputs_sound : forall (sc : scen) (h : list ev) (o : out),
  In o (outs (run sc h)) -> is_tx_out o = false -> In o (expected_outs sc).
Proof. exact outputs_sound. Qed.

(* Hence no htlc is both failed and settled upstream unless the uninterrupted
   run does that. *)
Theorem C13_no_contradiction : forall (sc : scen) (h : list ev) (i : N),
  ~ (In (OFail i) (expected_outs sc) /\ In (OSettle i) (expected_outs sc)) ->
  ~ (In (OFail i) (outs (run sc h)) /\ In (OSettle i) (outs (run sc h))).
Proof.
  intros sc h i Hn [H1 H2]. apply Hn. split; eapply outputs_sound; eauto.
Qed.

(* The channel is marked fully resolved only after all contracts are
   resolved: whenever StateFullyResolved is on disk, or
   ChainArbitrator.ResolveContract (MarkChanFullyClosed, WipeHistory) is
   pending / running / done, the persisted contract set is empty, and that
   procedure is only ever started by an arbitrator in StateFullyResolved.
   All histories: any interleaving, stops at any instant, any restarts. *)
Theorem C13_resolved_only_when_done : forall (sc : scen) (h : list ev),
  wf_scen sc = true ->
  let s := run sc h in
  (m_fin (mm s) <> None \/ d_full (dk s) = true \/ d_state (dk s) = SFull) ->
  (forall k, d_con (dk s) k = None)
  /\ (m_fin (mm s) <> None -> m_state (mm s) = SFull).
Proof. intros sc h Hwf. exact (resolved_only_when_done sc Hwf h). Qed.

(* SAME OUTCOME.  Any history that marks the channel fully resolved -- any
   interleaving of goroutine micro steps, a stop at ANY instant (between any
   two durable writes, between an upstream message and its checkpoint), any
   number of restarts -- has produced exactly the upstream resolutions
   (Fail / Settle per htlc), final htlc outcomes and NotifyChannelResolved,
   and exactly the resolver reports, of the uninterrupted run.  Own
   ForceCloseChan / PublishTx calls are excluded (a restart may re-publish).
   Exception F2 (precisely): scenarios where BOTH the persisted commit set
   yields chain actions on a chain trigger (dangling htlc) AND the
   StateDefault step has a dust fail-back set; refuted for those below. *)
Theorem C13_same_outcome : forall (sc : scen) (h : list ev),
  wf_scen sc = true ->
  (sc_cs_acts sc = false \/ sc_fails_default sc = []) ->
  terminal (run sc h) = true ->
  (forall o, is_tx_out o = false ->
     (In o (outs (run sc h)) <-> In o (expected_outs sc)))
  /\ (forall x, In x (d_rep (dk (run sc h))) <-> In x (resolver_reps sc)).
Proof.
  intros sc h Hwf Hd Ht.
  destruct (terminal_complete sc Hwf Hd h Ht) as [H1 H2]. split.
  - intros o Ho. split; [intros Hin; eapply outputs_sound; eauto|apply H1].
  - intros x. split; [apply reps_sound|apply H2].
Qed.

(* The same, stated without the model's [expected_outs]: a crashy terminal
   history h and ANY crash-free terminal history h0 (the uninterrupted run,
   which exists by C13_progress with h = []) agree on every upstream output
   and every report. *)
Theorem C13_same_outcome_as_uninterrupted : forall (sc : scen) (h0 h : list ev),
  wf_scen sc = true ->
  (sc_cs_acts sc = false \/ sc_fails_default sc = []) ->
  nocrash h0 -> terminal (run sc h0) = true -> terminal (run sc h) = true ->
  (forall o, is_tx_out o = false ->
     (In o (outs (run sc h)) <-> In o (outs (run sc h0))))
  /\ (forall x, In x (d_rep (dk (run sc h))) <-> In x (d_rep (dk (run sc h0)))).
Proof.
  intros sc h0 h Hwf Hd _ Ht0 Ht.
  destruct (C13_same_outcome sc h Hwf Hd Ht) as [A1 A2].
  destruct (C13_same_outcome sc h0 Hwf Hd Ht0) as [B1 B2]. split.
  - intros o Ho. rewrite (A1 o Ho), (B1 o Ho). reflexivity.
  - intros x. rewrite (A2 x), (B2 x). reflexivity.
Qed.

(* PROGRESS.  Every history (stops anywhere, any number of them) can be
   extended WITHOUT any further stop to one that marks the channel fully
   resolved: no reachable configuration is blocked, in particular none
   reached by a restart.  (No F2 restriction: F2 loses an output, not
   termination.) *)
Theorem C13_progress : forall (sc : scen) (h : list ev),
  wf_scen sc = true ->
  exists h', nocrash h' /\ terminal (run sc (h ++ h')) = true.
Proof. intros sc h Hwf. exact (progress sc Hwf h). Qed.

(* The window of the repaired finding C13-F1 (commit 2099ea4): a stop right
   after a resolver's final Checkpoint(resolved = true) and before
   log.ResolveContract.  After the restart the reloaded contract is removed
   from the log, the arbitrator is signalled, and no other contract is touched. *)
Theorem C13_resolved_contract_recovered : forall (sc : scen) (h : list ev) (k : N) (r : rspec),
  wf_scen sc = true -> find_spec sc k = Some r ->
  d_full (dk (run sc h)) = false -> d_state (dk (run sc h)) = SWaiting ->
  d_con (dk (run sc h)) k = Some (length (r_stages r)) ->
  let s' := run sc (h ++ [ECrash; EStep TMain; EStep (TRes k)]) in
  d_con (dk s') k = None /\ m_sigs (mm s') = 1%nat
  /\ (forall k', k' <> k -> d_con (dk s') k' = d_con (dk (run sc h)) k').
Proof. intros sc h k r Hwf. exact (resolved_contract_recovered sc h k r). Qed.

(* REFUTED (finding C13-F2): "the terminal outcome equals the uninterrupted
   one" for scenarios with a dust fail-back set AND a persisted commit set
   that yields chain actions on a chain trigger (dangling htlc). *)
Theorem C13_dust_failback_lost_refuted : exists (sc : scen) (h : list ev),
  wf_scen sc = true
  /\ terminal (run sc (rr sc 40)) = true /\ has_out (OFail 2) (run sc (rr sc 40)) = true
  /\ terminal (run sc h) = true /\ has_out (OFail 2) (run sc h) = false.
Proof.
  exists sc_dust, h_f2.
  split; [reflexivity|]. repeat split; vm_compute; reflexivity.
Qed.

(* REFUTED in its literal form (candidate 7-c): re-executing
   StateContractClosed after a stop between InsertUnresolvedContracts and
   CommitState(WaitingFullResolution) overwrites a checkpoint. *)
Theorem C13_no_lost_progress_refuted : exists (sc : scen) (h h' : list ev) (k : N) (p q : nat),
  wf_scen sc = true
  /\ d_con (dk (run sc h)) k = Some p
  /\ d_con (dk (run sc (h ++ ECrash :: h'))) k = Some q /\ q < p.
Proof.
  exists sc_two, h_7c, [M; M], 22%N, 1, 0.
  split; [reflexivity|]. split; [vm_compute; reflexivity|].
  split; [vm_compute; reflexivity|]. auto.
Qed.

(* ------------------------------------------------------------------ *)
(* RECEIVED (incoming) htlcs: htlcIncomingContestResolver / htlcSuccessResolver
   as one machine (RestartIncModel) whose branch is decided by the
   environment DURING the history.  Histories: any list of resolver micro
   steps, stops (the goroutine is relaunched from the persisted contract),
   "the witness beacon learns the preimage" and "the chain reaches the expiry
   height", in any order. *)

(* NO received htlc is both finally settled (claimed with the preimage) and
   finally failed (abandoned at expiry), and no history writes both a
   Claimed/FirstStage and a Timeout report -- whatever the order of stops,
   preimage arrival and expiry. *)
Theorem C13_incoming_no_contradiction : forall (p : iparams) (h : list iev),
  ~ (In (OFinal (ip_idx p) true) (i_outs (irun p h))
     /\ In (OFinal (ip_idx p) false) (i_outs (irun p h)))
  /\ ~ ((exists x, In x (i_reps (irun p h)) /\ claimed_rep x = true)
        /\ (exists y, In y (i_reps (irun p h)) /\ timeout_rep y = true)).
Proof. exact inc_no_contradiction. Qed.

(* An outcome has its cause: settled only if the beacon knew the preimage,
   failed only if the expiry height was reached; nothing else is ever emitted. *)
Theorem C13_incoming_outcome_caused : forall (p : iparams) (h : list iev),
  (In (OFinal (ip_idx p) true) (i_outs (irun p h)) -> i_pre (irun p h) = true)
  /\ (In (OFinal (ip_idx p) false) (i_outs (irun p h)) -> i_exp (irun p h) = true)
  /\ (forall o, In o (i_outs (irun p h)) -> exists b, o = OFinal (ip_idx p) b).
Proof. exact inc_outcome_caused. Qed.

(* At every instant of every history the machine is a state of the STAGED
   resolver of RestartModel running ONE of the two scripts [inc_script p
   claim], the one named by the persisted contract: everything emitted so far
   belongs to that script, and every stage the persisted progress counts as
   completed has delivered its outputs and reports.  (This is what makes the
   whole-channel theorems, which are proved for every staged script,
   applicable to received htlcs.) *)
Theorem C13_incoming_refines_script : forall (p : iparams) (h : list iev),
  let s := irun p h in
  let sc := inc_script p (chosen (i_disk s)) in
  incl (i_outs s) (flat_map s_outs sc) /\ incl (i_reps s) (flat_map s_rep sc)
  /\ match iprog p (i_disk s) with
     | Some n => n <= length sc
                 /\ forall j g, j < n -> nth_error sc j = Some g ->
                      incl (s_outs g) (i_outs s) /\ incl (s_rep g) (i_reps s)
     | None => forall g, In g sc -> incl (s_outs g) (i_outs s) /\ incl (s_rep g) (i_reps s)
     end.
Proof. exact inc_refines_script. Qed.

(* PROGRESS: wherever the node was stopped, once the preimage is known or the
   expiry height reached, 12 resolver steps without a further stop resolve
   and delete the contract. *)
Theorem C13_incoming_progress : forall (p : iparams) (h : list iev),
  i_pre (irun p h) = true \/ i_exp (irun p h) = true ->
  gone (isteps p 12 (irun p h)) = true.
Proof. exact inc_progress. Qed.

(* A preimage that reached the beacon before the expiry height is never lost
   by a restart: from EVERY reachable state with the preimage known and the
   expiry not reached, the resolver (re-launched or not) claims the htlc. *)
Theorem C13_incoming_preimage_wins : forall (p : iparams) (h : list iev),
  i_pre (irun p h) = true -> i_exp (irun p h) = false ->
  let s' := isteps p 12 (irun p h) in
  i_disk s' = IDGone true
  /\ In (OFinal (ip_idx p) true) (i_outs s') /\ incl (claim_reps p) (i_reps s')
  /\ ~ In (OFinal (ip_idx p) false) (i_outs s').
Proof. exact inc_preimage_wins. Qed.

(* Whole channel: a scenario that contains the staged resolver of a received
   htlc (either branch) -- every history that marks the channel fully
   resolved has delivered that htlc's final outcome and reports, and the
   opposite outcome only if the uninterrupted run produces it. *)
Theorem C13_incoming_same_outcome : forall (sc : scen) (h : list ev) (p : iparams) (claim : bool),
  wf_scen sc = true ->
  (sc_cs_acts sc = false \/ sc_fails_default sc = []) ->
  In (inc_spec p claim) (sc_resolvers sc) ->
  terminal (run sc h) = true ->
  In (OFinal (ip_idx p) claim) (outs (run sc h))
  /\ incl (if claim then claim_reps p else exp_reps p) (d_rep (dk (run sc h)))
  /\ (~ In (OFinal (ip_idx p) (negb claim)) (expected_outs sc) ->
      ~ In (OFinal (ip_idx p) (negb claim)) (outs (run sc h))).
Proof.
  intros sc h p claim Hwf Hd Hin Ht.
  destruct (C13_same_outcome sc h Hwf Hd Ht) as [A B].
  set (g := if claim then mkStage [OFinal (ip_idx p) true] (claim_reps p)
                                    (if ip_two p then 1 else 0)
            else mkStage [OFinal (ip_idx p) false] (exp_reps p) 2).
  assert (Hg : In g (r_stages (inc_spec p claim))).
  { unfold g, inc_spec, inc_script. simpl. destruct claim; simpl.
    - right. apply in_or_app. right. left. reflexivity.
    - left. reflexivity. }
  split; [|split].
  - apply (A (OFinal (ip_idx p) claim) eq_refl). unfold expected_outs.
    apply in_or_app. right. apply in_or_app. right. apply in_or_app. left.
    unfold resolver_outs. apply in_flat_map. exists (inc_spec p claim). split; [exact Hin|].
    apply in_flat_map. exists g. split; [exact Hg|]. unfold g. destruct claim; left; reflexivity.
  - intros x Hx. apply B. unfold resolver_reps. apply in_flat_map.
    exists (inc_spec p claim). split; [exact Hin|]. apply in_flat_map. exists g.
    split; [exact Hg|]. unfold g. destruct claim; exact Hx.
  - intros Hn Ho. apply Hn. apply (A (OFinal (ip_idx p) (negb claim)) eq_refl). exact Ho.
Qed.
