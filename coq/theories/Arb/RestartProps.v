(* C13 property theorems (statements only; proofs in RestartProofs/Examples). *)
From Coq Require Import List NArith Bool Arith.
From LV Require Import Arb.RestartModel Arb.RestartExec Arb.RestartProofs Arb.RestartExamples.
Import ListNotations.

(* Every upstream resolution / final htlc outcome / resolved notification that
   ANY history produces (any interleaving of goroutine steps, a stop at any
   instant, any number of restarts) is one the uninterrupted run produces. *)
Theorem C13_outputs_sound : forall (sc : scen) (h : list ev) (o : out),
  In o (outs (run sc h)) -> is_tx_out o = false -> In o (expected_outs sc).
Proof. exact outputs_sound. Qed.

(* Hence no htlc is both failed and settled upstream unless the uninterrupted
   run does that. *)
Theorem C13_no_contradiction : forall (sc : scen) (h : list ev) (i : N),
  ~ (In (OFail i) (expected_outs sc) /\ In (OSettle i) (expected_outs sc)) ->
  ~ (In (OFail i) (outs (run sc h)) /\ In (OSettle i) (outs (run sc h))).
Proof.
  intros sc h i Hn [H1 H2]. apply Hn. split; eapply outputs_sound; eauto.
Qed.

(* The channel is marked fully resolved only after all contracts are
   resolved: whenever StateFullyResolved is on disk, or
   ChainArbitrator.ResolveContract (MarkChanFullyClosed, WipeHistory) is
   pending / running / done, the persisted contract set is empty, and that
   procedure is only ever started by an arbitrator in StateFullyResolved.
   All histories: any interleaving, stops at any instant, any restarts. *)
Theorem C13_resolved_only_when_done : forall (sc : scen) (h : list ev),
  wf_scen sc = true ->
  let s := run sc h in
  (m_fin (mm s) <> None \/ d_full (dk s) = true \/ d_state (dk s) = SFull) ->
  (forall k, d_con (dk s) k = None)
  /\ (m_fin (mm s) <> None -> m_state (mm s) = SFull).
Proof. intros sc h Hwf. exact (resolved_only_when_done sc Hwf h). Qed.

(* REFUTED (finding C13-F2): "the terminal outcome equals the uninterrupted
   one" for scenarios with a dust fail-back set AND a persisted commit set
   that yields chain actions on a chain trigger (dangling htlc). *)
Theorem C13_dust_failback_lost_refuted : exists (sc : scen) (h : list ev),
  wf_scen sc = true
  /\ terminal (run sc (rr sc 40)) = true /\ has_out (OFail 2) (run sc (rr sc 40)) = true
  /\ terminal (run sc h) = true /\ has_out (OFail 2) (run sc h) = false.
Proof.
  exists sc_dust, h_f2.
  split; [reflexivity|]. repeat split; vm_compute; reflexivity.
Qed.

(* REFUTED in its literal form (candidate 7-c): re-executing
   StateContractClosed after a stop between InsertUnresolvedContracts and
   CommitState(WaitingFullResolution) overwrites a checkpoint. *)
Theorem C13_no_lost_progress_refuted : exists (sc : scen) (h h' : list ev) (k : N) (p q : nat),
  wf_scen sc = true
  /\ d_con (dk (run sc h)) k = Some p
  /\ d_con (dk (run sc (h ++ ECrash :: h'))) k = Some q /\ q < p.
Proof.
  exists sc_two, h_7c, [M; M], 22%N, 1, 0.
  split; [reflexivity|]. split; [vm_compute; reflexivity|].
  split; [vm_compute; reflexivity|]. auto.
Qed.
