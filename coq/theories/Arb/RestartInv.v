(* C13: the completeness invariant [Inv] (defined in RestartProofs) is
   preserved by every micro step of every thread and by a crash, for ALL
   histories.  Consequence: a history that marks the channel fully resolved
   has produced every upstream output and every report of the uninterrupted
   run (outside exception F2, hypothesis [Hdust]). *)
From Coq Require Import List NArith Bool Arith Lia.
From LV Require Import Arb.RestartModel Arb.RestartProofs.
Import ListNotations.

Section InvProofs.
Variable sc : scen.
Hypothesis Hwf : wf_scen sc = true.
Hypothesis Hdust : sc_cs_acts sc = false \/ sc_fails_default sc = [].

Notation Inv := (Inv sc).
Notation complete := (complete sc).
Notation con_done := (con_done sc).
Notation A_done := (A_done sc).
Notation B_done := (B_done sc).
Notation all_done := (all_done sc).

Lemma A_nil : sc_fails_default sc = [] -> forall o, A_done o.
Proof. intros E o. unfold RestartProofs.A_done. rewrite E. apply incl_nil_l. Qed.

Lemma A_here : forall o, A_done (o ++ map OFail (sc_fails_default sc)).
Proof. intros o. unfold RestartProofs.A_done. apply incl_appr. apply incl_refl. Qed.

Lemma B_here : forall o, B_done (o ++ closed_outs sc).
Proof. intros o. unfold RestartProofs.B_done. apply incl_appr. apply incl_refl. Qed.

Lemma all_done_mono : forall o o' rp rp', incl o o' -> incl rp rp' ->
  all_done o rp -> all_done o' rp'.
Proof.
  unfold RestartProofs.all_done. intros o o' rp rp' Ho Hr H r Hin.
  eapply stages_done_mono; eauto.
Qed.

Lemma complete_mono : forall d m o d' m' l,
  d_rep d' = d_rep d ->
  complete (mkSt d m o) -> complete (mkSt d' m' (o ++ l)).
Proof.
  unfold RestartProofs.complete. simpl. intros d m o d' m' l Hr (HA & HB & HD).
  split; [apply A_mono; auto|]. split; [apply B_mono; auto|].
  rewrite Hr. eapply all_done_mono; eauto.
  - apply incl_appl, incl_refl.
  - apply incl_refl.
Qed.

Lemma inv_init : Inv init.
Proof.
  constructor; simpl.
  - reflexivity.
  - intros; discriminate.
  - intros; discriminate.
  - intros; discriminate.
  - unfold inserted; simpl. intros [H|[t H]]; discriminate.
  - unfold fullph; simpl. intros [H|[t H]]; discriminate.
  - intros H; exfalso; apply H; reflexivity.
  - intros; discriminate.
  - intros [H|(a & t & H)]; [exfalso; apply H; reflexivity|discriminate].
  - intros [t H]; discriminate.
  - intros [t [H|H]]; discriminate.
  - intros; discriminate.
  - intros; discriminate.
  - intros; discriminate.
Qed.

(* ---- facts every non-trivial step of a live thread can use ---- *)
Lemma nofull_of_pc : forall s, Inv s -> m_pc (mm s) <> MDone -> d_full (dk s) = false.
Proof.
  intros s I H. destruct (d_full (dk s)) eqn:Ef; auto.
  destruct (i_full sc s I Ef) as (_ & _ & _ & Hpc & _). contradiction.
Qed.

Lemma nofin_of_pc : forall s, Inv s -> m_pc (mm s) <> MDone -> m_fin (mm s) = None.
Proof.
  intros s I H. destruct (m_fin (mm s)) eqn:Em; auto.
  assert (Hne : m_fin (mm s) <> None) by congruence.
  destruct (i_fin sc s I Hne) as (Hpc & _). contradiction.
Qed.

(* a step of the arbitrator that leaves the contracts, reports, its own
   state, the resolver goroutines and the fin thread alone and only appends
   outputs *)
Lemma inv_pc : forall s d' m' l,
  Inv s -> m_pc (mm s) <> MDone ->
  d_con d' = d_con (dk s) -> d_rep d' = d_rep (dk s) ->
  d_full d' = d_full (dk s) -> d_state d' = d_state (dk s) ->
  m_res m' = m_res (mm s) -> m_state m' = m_state (mm s) -> m_fin m' = m_fin (mm s) ->
  (forall t, m_pc m' <> MCommit SWaiting t) ->
  (forall t, m_pc m' = MCommit SFull t ->
     complete (mkSt d' m' (outs s ++ l)) /\ forall k, d_con d' k = None) ->
  ((exists a t, m_pc m' = MCommit a t) -> A_done (outs s ++ l)) ->
  (forall t, m_pc m' = MInsert t ->
     A_done (outs s ++ l) /\ B_done (outs s ++ l) /\ m_state m' = SClosed) ->
  (forall t, m_pc m' = MBcast t \/ m_pc m' = MPublish t -> m_state m' = SBroadcast) ->
  (pc_trig (m_pc m') = Some TClose -> d_closed d' = true) ->
  (d_closed d' = true -> sc_kind sc = KCoop \/ d_res d' = true) ->
  (forall i, m_pc m' = MClose (S i) -> sc_kind sc = KCoop \/ d_res d' = true) ->
  Inv (mkSt d' m' (outs s ++ l)).
Proof.
  intros s d' m' l I Hpc Hcon Hrep Hfull Hst Hmres Hmst Hmfin
         Hnw Hcf HA HB Hbc Htr Hcl Hmc.
  pose proof (nofull_of_pc s I Hpc) as Hnf.
  pose proof (nofin_of_pc s I Hpc) as Hnfin.
  assert (Hio : incl (outs s) (outs s ++ l)) by (apply incl_appl, incl_refl).
  constructor; simpl.
  - intros _. rewrite Hst, Hmst. apply (i_state sc s I Hnf).
  - rewrite Hmres, Hcon. intros k p e H.
    destruct (i_thr sc s I k p e H) as (r & Hf & Hc & He).
    exists r. split; auto. split; auto. intros E. destruct (He E) as (g & Hg & Hi).
    exists g. split; auto. eapply incl_tran; eauto.
  - rewrite Hcon, Hrep. intros k p r Hc Hf.
    eapply stages_done_mono; [exact Hio|apply incl_refl|]. eapply (i_disk sc s I); eauto.
  - rewrite Hcon. apply (i_keys sc s I).
  - unfold inserted. rewrite Hmst. intros [H|[t H]]; [|exfalso; eapply Hnw; eauto].
    destruct (i_ins sc s I (or_introl H)) as (H1 & H2 & H3).
    split; [apply A_mono; auto|]. split; [apply B_mono; auto|].
    unfold RestartProofs.con_done in *. simpl. rewrite Hcon, Hrep. intros r Hin.
    specialize (H3 r Hin). destruct (d_con (dk s) (r_key r));
      (eapply stages_done_mono; [exact Hio|apply incl_refl|exact H3]).
  - unfold fullph. rewrite Hmst. intros [H|[t H]].
    + destruct (i_fullph sc s I (or_introl H)) as (H1 & H2). split.
      * destruct s as [d m o]. eapply complete_mono; eauto.
      * rewrite Hcon. exact H2.
    + apply (Hcf t H).
  - rewrite Hmfin, Hnfin. intros H; exfalso; apply H; reflexivity.
  - rewrite Hfull, Hnf. discriminate.
  - rewrite Hmst. intros [H|H].
    + apply A_mono. apply (i_A sc s I). left. exact H.
    + apply HA. exact H.
  - intros [t H]. apply (HB t H).
  - intros [t H]. apply (Hbc t H).
  - exact Htr.
  - intros _. exact Hcl.
  - exact Hmc.
Qed.


Lemma inv_pc_eq : forall s d' m' l o',
  Inv s -> m_pc (mm s) <> MDone ->
  d_con d' = d_con (dk s) -> d_rep d' = d_rep (dk s) ->
  d_full d' = d_full (dk s) -> d_state d' = d_state (dk s) ->
  m_res m' = m_res (mm s) -> m_state m' = m_state (mm s) -> m_fin m' = m_fin (mm s) ->
  o' = outs s ++ l ->
  (forall t, m_pc m' <> MCommit SWaiting t) ->
  (forall t, m_pc m' = MCommit SFull t ->
     complete (mkSt d' m' o') /\ forall k, d_con d' k = None) ->
  ((exists a t, m_pc m' = MCommit a t) -> A_done o') ->
  (forall t, m_pc m' = MInsert t -> A_done o' /\ B_done o' /\ m_state m' = SClosed) ->
  (forall t, m_pc m' = MBcast t \/ m_pc m' = MPublish t -> m_state m' = SBroadcast) ->
  (pc_trig (m_pc m') = Some TClose -> d_closed d' = true) ->
  (d_closed d' = true -> sc_kind sc = KCoop \/ d_res d' = true) ->
  (forall i, m_pc m' = MClose (S i) -> sc_kind sc = KCoop \/ d_res d' = true) ->
  Inv (mkSt d' m' o').
Proof. intros; subst o'; eapply inv_pc; eauto. Qed.

Lemma triv_parts : forall s, sc_empty sc = true \/ sc_kind sc = KCoop -> Inv s ->
  (forall o rp, B_done o /\ all_done o rp) /\ forall k, d_con (dk s) k = None.
Proof.
  intros s H I. destruct (wf_trivial sc Hwf H) as [Hr Hc]. split.
  - intros o rp. split.
    + unfold RestartProofs.B_done. rewrite Hc. apply incl_nil_l.
    + unfold RestartProofs.all_done. rewrite Hr. intros r [].
  - intros k. destruct (d_con (dk s) k) eqn:E; auto.
    exfalso. apply (i_keys sc s I) in E. apply E. unfold find_spec. rewrite Hr. reflexivity.
Qed.

Lemma close_full_parts : forall s, Inv s -> d_full (dk s) = false ->
  pc_trig (m_pc (mm s)) = Some TClose -> close_next sc (dk s) = SFull ->
  (forall o rp, B_done o /\ all_done o rp) /\ forall k, d_con (dk s) k = None.
Proof.
  intros s I Hnf Ht Hc. unfold close_next in Hc.
  destruct (sc_kind sc) eqn:Ek; try discriminate.
  - apply triv_parts; auto.
  - destruct (d_res (dk s)) eqn:Er; [discriminate|].
    pose proof (i_trig sc s I Ht) as Hcl.
    destruct (i_closed sc s I Hnf Hcl) as [H|H]; congruence.
Qed.

Lemma close_next_not_waiting : forall d, close_next sc d <> SWaiting.
Proof. intros d. unfold close_next. destruct (sc_kind sc); try destruct (d_res d); discriminate. Qed.

Lemma no_contracts_none' : forall s, Inv s -> no_contracts sc (dk s) = true ->
  forall k, d_con (dk s) k = None.
Proof.
  intros s I H k. destruct (d_con (dk s) k) eqn:E; auto. exfalso.
  pose proof (i_keys sc s I k n E) as Hk.
  destruct (find_spec sc k) as [r|] eqn:Hf; [|congruence].
  apply find_spec_in in Hf. destruct Hf as [Hin Hkey].
  unfold no_contracts in H. rewrite forallb_forall in H. specialize (H r Hin).
  rewrite Hkey, E in H. discriminate.
Qed.

Lemma con_done_all : forall s, con_done s -> (forall k, d_con (dk s) k = None) ->
  all_done (outs s) (d_rep (dk s)).
Proof.
  unfold RestartProofs.con_done, RestartProofs.all_done. intros s H Hn r Hin.
  specialize (H r Hin). rewrite Hn in H. exact H.
Qed.

Lemma complete_mono' : forall s d' m' l, d_rep d' = d_rep (dk s) ->
  complete s -> complete (mkSt d' m' (outs s ++ l)).
Proof. intros [d m o] d' m' l H C. simpl in *. eapply complete_mono; eauto. Qed.

Lemma thr_mono : forall s o', Inv s -> incl (outs s) o' ->
  forall k p e, m_res (mm s) k = Some (p, e) ->
  exists r, find_spec sc k = Some r /\ d_con (dk s) k = Some p /\
    (e = true -> exists g, nth_error (r_stages r) p = Some g /\ incl (s_outs g) o').
Proof.
  intros s o' I Hio k p e H.
  destruct (i_thr sc s I k p e H) as (r & Hf & Hc & He).
  exists r. split; auto. split; auto. intros E. destruct (He E) as (g & Hg & Hi).
  exists g. split; auto. eapply incl_tran; eauto.
Qed.

Lemma disk_mono : forall s o' rp', Inv s -> incl (outs s) o' -> incl (d_rep (dk s)) rp' ->
  forall k p r, d_con (dk s) k = Some p -> find_spec sc k = Some r -> stages_done o' rp' r p.
Proof.
  intros s o' rp' I Ho Hr k p r Hc Hf.
  eapply stages_done_mono; [exact Ho|exact Hr|]. eapply (i_disk sc s I); eauto.
Qed.

Ltac nofin Hnfin := simpl; rewrite Hnfin; intros Hx; exfalso; apply Hx; reflexivity.

Ltac triv :=
  simpl; try solve
    [ intros; discriminate
    | intros ? [?|?]; discriminate
    | intros (? & ? & ?); discriminate
    | intros [? ?]; discriminate
    | intros; reflexivity ].

Ltac pcs I Epc L :=
  eapply (inv_pc_eq _ _ _ L _ I);
  [ rewrite Epc; discriminate
  | reflexivity | reflexivity | reflexivity | reflexivity
  | reflexivity | reflexivity | reflexivity
  | simpl; try rewrite app_nil_r; reflexivity
  | triv | triv | triv | triv | triv | triv | triv | triv ].

Lemma inv_main : forall s, Inv s -> Inv (main_step sc s).
Proof.
  intros s I. unfold main_step.
  destruct (m_pc (mm s)) as [| |i|t r|a t|t|t|t] eqn:Epc; [| exact I | | | | | |].
  all: pose proof (nofull_of_pc s I ltac:(rewrite Epc; discriminate)) as Hnf.
  all: pose proof (nofin_of_pc s I ltac:(rewrite Epc; discriminate)) as Hnfin.
  all: pose proof (i_closed sc s I Hnf) as Hcl0.
  - (* MIdle *)
    destruct (negb (d_closed (dk s)) && negb (m_closedeliv (mm s)) &&
              (negb (sc_userfc sc) || d_bcast (dk s))).
    { pcs I Epc (@nil out); auto.
      all: destruct (sc_kind sc) eqn:Ek; triv. intros; left; reflexivity. }
    destruct (sc_userfc sc && negb (m_userdone (mm s)) && negb (d_closed (dk s))).
    { pcs I Epc (@nil out); auto. all: destruct (m_state (mm s)); triv. }
    destruct (m_sigs (mm s)); [exact I|].
    pcs I Epc (@nil out); auto.
  - (* MClose *)
    destruct i as [|[|i]].
    + pcs I Epc (@nil out); intros; right; reflexivity.
    + pcs I Epc (@nil out); auto. intros i _. apply (i_mclose sc s I 0). exact Epc.
    + pcs I Epc (@nil out). intros _. apply (i_mclose sc s I (S i)). exact Epc.
  - (* MStep *)
    pose proof (i_trig sc s I) as Htr0. rewrite Epc in Htr0. simpl in Htr0.
    destruct (m_state (mm s)) eqn:Ems.
    + (* Default *)
      destruct t.
      * destruct (d_cset (dk s) && sc_cs_acts sc) eqn:Ec.
        -- pcs I Epc (@nil out); auto. intros _.
           destruct Hdust as [Hd|Hd]; [|apply A_nil; exact Hd].
           rewrite Hd, andb_false_r in Ec. discriminate.
        -- pcs I Epc (@nil out); auto.
      * pcs I Epc (map OFail (sc_fails_default sc)); auto. intros _. apply A_here.
      * pcs I Epc (map OFail (sc_fails_default sc)); auto.
        -- intros t H. inversion H. eapply close_next_not_waiting; eauto.
        -- intros t H. inversion H as [[Hc Ht]].
           destruct (close_full_parts s I Hnf ltac:(rewrite Epc; reflexivity) Hc) as [Hp Hn].
           split; [|exact Hn]. split; [apply A_here|]. apply Hp.
        -- intros _. apply A_here.
    + (* Broadcast *)
      assert (HA : A_done (outs s)) by (apply (i_A sc s I); left; congruence).
      destruct t.
      * pcs I Epc [OForceClose]; auto.
      * pcs I Epc [OForceClose]; auto.
      * pcs I Epc (@nil out); auto.
        -- intros t H. inversion H. eapply close_next_not_waiting; eauto.
        -- intros t H. inversion H as [[Hc Ht]].
           destruct (close_full_parts s I Hnf ltac:(rewrite Epc; reflexivity) Hc) as [Hp Hn].
           split; [|exact Hn]. split; [exact HA|]. apply Hp.
    + (* CB *)
      assert (HA : A_done (outs s)) by (apply (i_A sc s I); left; congruence).
      destruct t.
      * pcs I Epc (@nil out); auto.
      * pcs I Epc (@nil out); auto.
      * pcs I Epc (@nil out); auto.
        -- intros t H. inversion H. eapply close_next_not_waiting; eauto.
        -- intros t H. inversion H as [[Hc Ht]].
           destruct (close_full_parts s I Hnf ltac:(rewrite Epc; reflexivity) Hc) as [Hp Hn].
           split; [|exact Hn]. split; [exact HA|]. apply Hp.
    + (* Closed *)
      assert (HA : A_done (outs s)) by (apply (i_A sc s I); left; congruence).
      destruct (negb (d_res (dk s))) eqn:Er.
      { pcs I Epc (@nil out); auto. }
      destruct (sc_empty sc) eqn:Ee.
      { pcs I Epc (@nil out); auto.
        intros t0 _. destruct (triv_parts s (or_introl Ee) I) as [Hp Hn].
        split; [|exact Hn]. split; [exact HA|]. apply Hp. }
      pcs I Epc (closed_outs sc); auto.
      intros t0 _. split; [apply A_mono; exact HA|]. split; [apply B_here|exact Ems].
    + (* Waiting *)
      destruct (i_ins sc s I (or_introl Ems)) as (HA & HB & HC).
      destruct (no_contracts sc (dk s)) eqn:En.
      { pcs I Epc (@nil out); auto.
        intros t0 _. pose proof (no_contracts_none' s I En) as Hn.
        split; [|exact Hn]. split; [exact HA|]. split; [exact HB|].
        apply con_done_all; auto. }
      destruct r.
      * (* relaunchResolvers *)
        constructor; simpl.
        -- intros _. rewrite (i_state sc s I Hnf). exact Ems.
        -- intros k p e H. unfold relaunch in H.
           destruct (find_spec sc k) as [r0|] eqn:Hf; [|discriminate].
           destruct (d_con (dk s) k) as [p0|] eqn:Hc; [|discriminate].
           inversion H; subst. exists r0. split; auto. split; auto. intros; discriminate.
        -- apply (i_disk sc s I).
        -- apply (i_keys sc s I).
        -- intros _. split; [exact HA|]. split; [exact HB|exact HC].
        -- unfold fullph; simpl. intros [H|[t0 H]]; [congruence|discriminate].
        -- nofin Hnfin.
        -- rewrite Hnf. discriminate.
        -- intros _. exact HA.
        -- intros [t0 H]; discriminate.
        -- intros [t0 [H|H]]; discriminate.
        -- discriminate.
        -- intros _. exact Hcl0.
        -- intros; discriminate.
      * pcs I Epc (@nil out); auto.
    + (* Full: NotifyChannelResolved *)
      rewrite Hnfin.
      assert (Hio : incl (outs s) (outs s ++ [ONotify])) by (apply incl_appl, incl_refl).
      constructor; simpl.
      * intros _. rewrite (i_state sc s I Hnf). exact Ems.
      * apply thr_mono; auto.
      * apply disk_mono; auto. apply incl_refl.
      * apply (i_keys sc s I).
      * unfold inserted; simpl. intros [H|[t0 H]]; [congruence|discriminate].
      * intros _. destruct (i_fullph sc s I (or_introl Ems)) as [H1 H2]. split; [|exact H2].
        apply complete_mono'; auto.
      * intros _. split; [reflexivity|]. split; [reflexivity|].
        split; [apply in_or_app; right; left; reflexivity|]. intros n H; discriminate.
      * rewrite Hnf. discriminate.
      * intros _. apply A_mono. apply (i_A sc s I). left. congruence.
      * intros [t0 H]; discriminate.
      * intros [t0 [H|H]]; discriminate.
      * discriminate.
      * intros _. exact Hcl0.
      * intros; discriminate.
  - (* MCommit *)
    constructor; simpl.
    + intros _. reflexivity.
    + apply (i_thr sc s I).
    + apply (i_disk sc s I).
    + apply (i_keys sc s I).
    + unfold inserted; simpl. intros [H|[t0 H]]; [|discriminate]. subst a.
      destruct (i_ins sc s I (or_intror (ex_intro _ t Epc))) as (H1 & H2 & H3).
      split; [exact H1|]. split; [exact H2|exact H3].
    + unfold fullph; simpl. intros [H|[t0 H]]; [|discriminate]. subst a.
      destruct (i_fullph sc s I (or_intror (ex_intro _ t Epc))) as [H1 H2].
      split; [exact H1|exact H2].
    + nofin Hnfin.
    + rewrite Hnf. discriminate.
    + intros _. apply (i_A sc s I). right. exists a, t. exact Epc.
    + intros [t0 H]; discriminate.
    + intros [t0 [H|H]]; discriminate.
    + intros H. apply (i_trig sc s I). rewrite Epc. exact H.
    + intros _. exact Hcl0.
    + intros; discriminate.
  - (* MBcast *)
    pcs I Epc (@nil out); auto.
    + intros t0 _. apply (i_bc sc s I). exists t. left. exact Epc.
    + intros H. apply (i_trig sc s I). rewrite Epc. exact H.
  - (* MPublish *)
    assert (Hs : m_state (mm s) = SBroadcast).
    { apply (i_bc sc s I). exists t. right. exact Epc. }
    pcs I Epc [OPublish]; auto.
    + intros _. apply A_mono. apply (i_A sc s I). left. congruence.
    + intros H. apply (i_trig sc s I). rewrite Epc. exact H.
  - (* MInsert *)
    destruct (i_B sc s I (ex_intro _ t Epc)) as (HA & HB & Hcl).
    constructor; simpl.
    + intros _. apply (i_state sc s I Hnf).
    + intros k p e H. unfold insert_res in H. unfold insert_con.
      destruct (find_spec sc k) as [r0|] eqn:Hf.
      * inversion H; subst. exists r0. split; auto. split; auto. intros; discriminate.
      * destruct (i_thr sc s I k p e H) as (r & Hr & _). congruence.
    + intros k p r Hc Hf. unfold insert_con in Hc. rewrite Hf in Hc. inversion Hc; subst.
      intros j g Hj. lia.
    + intros k p H Hf. unfold insert_con in H. rewrite Hf in H.
      apply (i_keys sc s I k p H Hf).
    + intros _. split; [exact HA|]. split; [exact HB|].
      unfold RestartProofs.con_done; simpl. intros r Hin. unfold insert_con.
      rewrite (find_spec_self sc Hwf r Hin). intros j g Hj; lia.
    + unfold fullph; simpl. intros [H|[t0 H]]; [congruence|discriminate].
    + nofin Hnfin.
    + rewrite Hnf. discriminate.
    + intros _. exact HA.
    + intros [t0 H]; discriminate.
    + intros [t0 [H|H]]; discriminate.
    + intros H. apply (i_trig sc s I). rewrite Epc. exact H.
    + intros _. exact Hcl0.
    + intros; discriminate.
Qed.


Lemma con_done_mono : forall s d' m' l,
  d_con d' = d_con (dk s) -> d_rep d' = d_rep (dk s) ->
  con_done s -> con_done (mkSt d' m' (outs s ++ l)).
Proof.
  unfold RestartProofs.con_done. simpl. intros s d' m' l Hc Hr H r Hin.
  rewrite Hc, Hr. specialize (H r Hin).
  destruct (d_con (dk s) (r_key r));
    (eapply stages_done_mono; [apply incl_appl, incl_refl|apply incl_refl|exact H]).
Qed.

Lemma incl_add_rep : forall l o, incl l (add_rep l o).
Proof. intros l o. unfold add_rep. apply incl_appl, incl_refl. Qed.

Lemma inv_res : forall s k, Inv s -> Inv (res_step sc s k).
Proof.
  intros s k I. unfold res_step.
  destruct (m_res (mm s) k) as [[p e]|] eqn:Er; [|exact I].
  destruct (find_spec sc k) as [r|] eqn:Hf; [|exact I].
  destruct (i_thr sc s I k p e Er) as (r' & Hf' & Hc & He).
  assert (r' = r) by congruence. subst r'. clear Hf'.
  assert (Hnf : d_full (dk s) = false).
  { destruct (d_full (dk s)) eqn:Ef; auto.
    destruct (i_full sc s I Ef) as (_ & _ & _ & _ & Hres & _). rewrite Hres in Er. discriminate. }
  assert (Hnp : ~ fullph (mm s)).
  { intros Hp. destruct (i_fullph sc s I Hp) as [_ Hn]. rewrite Hn in Hc. discriminate. }
  assert (Hsame : forall r1, In r1 (sc_resolvers sc) -> r_key r1 = k -> r1 = r).
  { intros r1 Hin Hk. pose proof (find_spec_self sc Hwf r1 Hin) as H1.
    rewrite Hk in H1. congruence. }
  destruct (nth_error (r_stages r) p) as [g|] eqn:Hn.
  - destruct e.
    + (* Checkpoint / SwapContract *)
      destruct (He eq_refl) as (g' & Hg' & Hgo).
      assert (g' = g) by congruence. subst g'. clear Hg'.
      assert (Hrp : incl (d_rep (dk s)) (add_rep (d_rep (dk s)) (s_rep g)))
        by apply incl_add_rep.
      assert (Hdisk : forall k' p' r0,
                 upd (d_con (dk s)) k (Some (S p)) k' = Some p' -> find_spec sc k' = Some r0 ->
                 stages_done (outs s) (add_rep (d_rep (dk s)) (s_rep g)) r0 p').
      { intros k' p' r0 H Hf0. destruct (N.eqb_spec k' k) as [->|Hne].
        - rewrite upd_same in H. inversion H; subst p'. assert (r0 = r) by congruence. subst r0.
          intros j g0 Hj Hn0. destruct (Nat.eq_dec j p) as [->|Hjp].
          + assert (g0 = g) by congruence. subst g0. split; [exact Hgo|].
            unfold add_rep. apply incl_appr, incl_refl.
          + eapply (stages_done_mono (outs s) (outs s) (d_rep (dk s)) _ r p);
              [apply incl_refl|exact Hrp| | |exact Hn0].
            * eapply (i_disk sc s I); eauto.
            * lia.
        - rewrite upd_other in H by auto.
          eapply stages_done_mono; [apply incl_refl|exact Hrp|]. eapply (i_disk sc s I); eauto. }
      constructor; simpl.
      * intros _. apply (i_state sc s I Hnf).
      * intros k' p' e' H'. destruct (N.eqb_spec k' k) as [->|Hne].
        -- rewrite upd_same in H'. inversion H'; subst. exists r. rewrite upd_same.
           split; auto. split; auto. intros; discriminate.
        -- rewrite upd_other in H' by auto. rewrite upd_other by auto.
           apply (i_thr sc s I k' p' e' H').
      * exact Hdisk.
      * intros k' p' H'. destruct (N.eqb_spec k' k) as [->|Hne]; [congruence|].
        rewrite upd_other in H' by auto. apply (i_keys sc s I k' p' H').
      * intros Hi. destruct (i_ins sc s I Hi) as (H1 & H2 & H3).
        split; [exact H1|]. split; [exact H2|].
        unfold RestartProofs.con_done in *. simpl. intros r1 Hin. specialize (H3 r1 Hin).
        destruct (upd (d_con (dk s)) k (Some (S p)) (r_key r1)) as [q|] eqn:Eu.
        -- eapply Hdisk; eauto. apply find_spec_self; auto.
        -- destruct (N.eqb_spec (r_key r1) k) as [Hk|Hne].
           ++ rewrite Hk, upd_same in Eu. discriminate.
           ++ rewrite upd_other in Eu by auto. rewrite Eu in H3.
              eapply stages_done_mono; [apply incl_refl|exact Hrp|exact H3].
      * intros Hp. contradiction.
      * apply (i_fin sc s I).
      * rewrite Hnf. discriminate.
      * apply (i_A sc s I).
      * apply (i_B sc s I).
      * apply (i_bc sc s I).
      * apply (i_trig sc s I).
      * intros _. apply (i_closed sc s I Hnf).
      * apply (i_mclose sc s I).
    + (* upstream outputs of the stage *)
      assert (Hio : incl (outs s) (outs s ++ s_outs g)) by (apply incl_appl, incl_refl).
      constructor; simpl.
      * apply (i_state sc s I).
      * intros k' p' e' H'. destruct (N.eqb_spec k' k) as [->|Hne].
        -- rewrite upd_same in H'. inversion H'; subst. exists r.
           split; auto. split; auto. intros _. exists g. split; auto.
           apply incl_appr, incl_refl.
        -- rewrite upd_other in H' by auto. eapply thr_mono; eauto.
      * apply disk_mono; auto. apply incl_refl.
      * apply (i_keys sc s I).
      * intros Hi. destruct (i_ins sc s I Hi) as (H1 & H2 & H3).
        split; [apply A_mono; auto|]. split; [apply B_mono; auto|].
        apply con_done_mono; auto.
      * intros Hp. contradiction.
      * intros Hne. destruct (i_fin sc s I Hne) as (H1 & H2 & H3 & H4).
        split; [exact H1|]. split; [exact H2|]. split; [|exact H4].
        apply in_or_app. left. exact H3.
      * rewrite Hnf. discriminate.
      * intros H. apply A_mono. apply (i_A sc s I H).
      * intros H. destruct (i_B sc s I H) as (H1 & H2 & H3).
        split; [apply A_mono; auto|]. split; [apply B_mono; auto|exact H3].
      * apply (i_bc sc s I).
      * apply (i_trig sc s I).
      * apply (i_closed sc s I).
      * apply (i_mclose sc s I).
  - (* log.ResolveContract + resolutionSignal *)
    assert (Hlen : length (r_stages r) <= p) by (apply nth_error_None; exact Hn).
    constructor; simpl.
    + intros _. apply (i_state sc s I Hnf).
    + intros k' p' e' H'. destruct (N.eqb_spec k' k) as [->|Hne].
      * rewrite upd_same in H'. discriminate.
      * rewrite upd_other in H' by auto. rewrite upd_other by auto.
        apply (i_thr sc s I k' p' e' H').
    + intros k' p' r0 H' Hf0. destruct (N.eqb_spec k' k) as [->|Hne].
      * rewrite upd_same in H'. discriminate.
      * rewrite upd_other in H' by auto. eapply (i_disk sc s I); eauto.
    + intros k' p' H'. destruct (N.eqb_spec k' k) as [->|Hne].
      * rewrite upd_same in H'. discriminate.
      * rewrite upd_other in H' by auto. apply (i_keys sc s I k' p' H').
    + intros Hi. destruct (i_ins sc s I Hi) as (H1 & H2 & H3).
      split; [exact H1|]. split; [exact H2|].
      unfold RestartProofs.con_done in *. simpl. intros r1 Hin. specialize (H3 r1 Hin).
      destruct (N.eqb_spec (r_key r1) k) as [Hk|Hne].
      * rewrite Hk, upd_same. rewrite (Hsame r1 Hin Hk).
        eapply stages_done_le; [exact Hlen|]. eapply (i_disk sc s I); eauto.
      * rewrite upd_other by auto. exact H3.
    + intros Hp. contradiction.
    + apply (i_fin sc s I).
    + rewrite Hnf. discriminate.
    + apply (i_A sc s I).
    + apply (i_B sc s I).
    + apply (i_bc sc s I).
    + apply (i_trig sc s I).
    + intros _. apply (i_closed sc s I Hnf).
    + apply (i_mclose sc s I).
Qed.


Lemma inv_anchor : forall s, Inv s -> Inv (anchor_step s).
Proof.
  intros s I. unfold anchor_step. destruct (m_anchor (mm s)); auto.
  destruct I. constructor; simpl; auto.
Qed.

Lemma inv_fin : forall s, Inv s -> Inv (fin_step s).
Proof.
  intros s I. unfold fin_step.
  destruct (m_fin (mm s)) as [[|[|n]]|] eqn:Em; auto.
  - (* MarkChanFullyClosed *)
    assert (Hne : m_fin (mm s) <> None) by congruence.
    destruct (i_fin sc s I Hne) as (Hpc & Hst & Hno & _).
    destruct (i_fullph sc s I (or_introl Hst)) as [Hco Hcon].
    constructor; simpl.
    + discriminate.
    + intros; discriminate.
    + apply (i_disk sc s I).
    + apply (i_keys sc s I).
    + unfold inserted; simpl. intros [H|[t H]]; [congruence|discriminate].
    + intros _. split; [exact Hco|exact Hcon].
    + intros _. split; [reflexivity|]. split; [exact Hst|]. split; [exact Hno|reflexivity].
    + intros _. split; [exact Hco|]. split; [exact Hno|]. split; [exact Hcon|].
      split; [reflexivity|]. split; [reflexivity|].
      destruct (d_full (dk s)) eqn:Ef.
      * apply (i_full sc s I Ef).
      * left. rewrite (i_state sc s I Ef). exact Hst.
    + intros _. apply Hco.
    + intros [t H]; discriminate.
    + intros [t [H|H]]; discriminate.
    + discriminate.
    + discriminate.
    + intros; discriminate.
  - (* Stop; WipeHistory *)
    assert (Hne : m_fin (mm s) <> None) by congruence.
    destruct (i_fin sc s I Hne) as (Hpc & Hst & Hno & Hfull).
    pose proof (Hfull 0 Em) as Ef.
    destruct (i_full sc s I Ef) as (Hco & _).
    constructor; simpl.
    + rewrite Ef; discriminate.
    + intros; discriminate.
    + intros; discriminate.
    + intros; discriminate.
    + unfold inserted; simpl. intros [H|[t H]]; [congruence|discriminate].
    + intros _. split; [exact Hco|reflexivity].
    + intros H; exfalso; apply H; reflexivity.
    + intros _. split; [exact Hco|]. split; [exact Hno|]. split; [reflexivity|].
      split; [reflexivity|]. split; [reflexivity|]. right. reflexivity.
    + intros _. apply Hco.
    + intros [t H]; discriminate.
    + intros [t [H|H]]; discriminate.
    + discriminate.
    + rewrite Ef; discriminate.
    + intros; discriminate.
Qed.

Lemma inv_crash : forall s, Inv s -> Inv (step sc s ECrash).
Proof.
  intros s I. simpl. unfold restart. destruct (d_full (dk s)) eqn:Ef.
  - destruct (i_full sc s I Ef) as (Hco & Hno & Hcon & Hpc & Hres & Hst).
    constructor; simpl.
    + rewrite Ef; discriminate.
    + intros; discriminate.
    + apply (i_disk sc s I).
    + apply (i_keys sc s I).
    + intros _. destruct Hco as (H1 & H2 & H3). split; [exact H1|]. split; [exact H2|].
      unfold RestartProofs.con_done. simpl. intros r Hin. rewrite Hcon. apply H3. exact Hin.
    + intros _. split; [exact Hco|exact Hcon].
    + intros H; exfalso; apply H; reflexivity.
    + intros _. split; [exact Hco|]. split; [exact Hno|]. split; [exact Hcon|].
      split; [reflexivity|]. split; [reflexivity|exact Hst].
    + intros _. apply Hco.
    + intros [t H]; discriminate.
    + intros [t [H|H]]; discriminate.
    + discriminate.
    + rewrite Ef; discriminate.
    + intros; discriminate.
  - pose proof (i_state sc s I Ef) as Hs.
    constructor; simpl.
    + reflexivity.
    + intros; discriminate.
    + apply (i_disk sc s I).
    + apply (i_keys sc s I).
    + unfold inserted; simpl. intros [H|[t H]]; [|discriminate].
      apply (i_ins sc s I). left. congruence.
    + unfold fullph; simpl. intros [H|[t H]]; [|discriminate].
      apply (i_fullph sc s I). left. congruence.
    + intros H; exfalso; apply H; reflexivity.
    + rewrite Ef; discriminate.
    + intros [H|(a & t & H)]; [|discriminate]. apply (i_A sc s I). left. congruence.
    + intros [t H]; discriminate.
    + intros [t [H|H]]; discriminate.
    + destruct (d_closed (dk s) && early (d_state (dk s))) eqn:E; [|discriminate].
      intros _. apply andb_true_iff in E. apply E.
    + intros _. apply (i_closed sc s I Ef).
    + intros; discriminate.
Qed.

Lemma inv_step : forall s e, Inv s -> Inv (step sc s e).
Proof.
  intros s [[|k| |]|] I.
  - apply inv_main; auto.
  - apply inv_res; auto.
  - apply inv_anchor; auto.
  - apply inv_fin; auto.
  - apply inv_crash; auto.
Qed.

Lemma inv_run : forall h, Inv (run sc h).
Proof.
  intros h. apply (reach_ind sc Inv).
  - apply inv_init.
  - intros; apply inv_step; auto.
  - exists h; reflexivity.
Qed.

(* every report on disk is one of the uninterrupted run *)
Lemma reps_sound : forall h x, In x (d_rep (dk (run sc h))) -> In x (resolver_reps sc).
Proof.
  intros h. apply (reach_ind sc (fun s => forall x, In x (d_rep (dk s)) -> In x (resolver_reps sc))).
  - intros x [].
  - intros s e IH x. destruct e as [[|k| |]|]; simpl.
    + unfold main_step.
      destruct (m_pc (mm s)) as [| |i|t r|a t|t|t|t]; simpl; auto.
      * repeat match goal with |- context [if ?b then _ else _] => destruct b; simpl; auto end.
        destruct (m_sigs (mm s)); simpl; auto.
      * destruct i as [|[|i]]; simpl; auto.
      * destruct (m_state (mm s)); destruct t; simpl; auto;
          repeat match goal with |- context [if ?b then _ else _] => destruct b; simpl; auto end.
    + unfold res_step.
      destruct (m_res (mm s) k) as [[p e]|]; auto.
      destruct (find_spec sc k) as [r|] eqn:Hf; auto.
      destruct (nth_error (r_stages r) p) as [g|] eqn:Hn; simpl; auto.
      destruct e; simpl; auto.
      unfold add_rep.
      intros Hin. apply in_app_or in Hin. destruct Hin as [Hin|Hin]; auto.
      apply find_spec_in in Hf. destruct Hf as [Hr _].
      unfold resolver_reps. apply in_flat_map. exists r. split; [exact Hr|].
      apply in_flat_map. exists g. split; [eapply nth_error_In; eauto|].
      exact Hin.
    + unfold anchor_step. destruct (m_anchor (mm s)); auto.
    + unfold fin_step. destruct (m_fin (mm s)) as [[|[|n]]|]; simpl; auto.
    + auto.
  - exists h; reflexivity.
Qed.

(* the channel is marked fully resolved => everything the uninterrupted run
   delivers has been delivered *)
Theorem terminal_complete : forall h, terminal (run sc h) = true ->
  (forall o, In o (expected_outs sc) -> In o (outs (run sc h)))
  /\ (forall x, In x (resolver_reps sc) -> In x (d_rep (dk (run sc h)))).
Proof.
  intros h Ht. unfold terminal in Ht.
  destruct (i_full sc _ (inv_run h) Ht) as ((HA & HB & HD) & Hno & _).
  split.
  - intros o Ho. unfold expected_outs in Ho.
    apply in_app_or in Ho. destruct Ho as [Ho|Ho]; [apply HA; exact Ho|].
    apply in_app_or in Ho. destruct Ho as [Ho|Ho]; [apply HB; exact Ho|].
    apply in_app_or in Ho. destruct Ho as [Ho|Ho].
    + unfold resolver_outs in Ho. apply in_flat_map in Ho. destruct Ho as (r & Hr & Ho).
      apply in_flat_map in Ho. destruct Ho as (g & Hg & Ho).
      apply In_nth_error in Hg. destruct Hg as [j Hj].
      assert (Hlt : j < length (r_stages r)) by (apply nth_error_Some; congruence).
      destruct (HD r Hr j g Hlt Hj) as [H1 _]. apply H1. exact Ho.
    + destruct Ho as [<-|[]]. exact Hno.
  - intros x Hx. unfold resolver_reps in Hx. apply in_flat_map in Hx. destruct Hx as (r & Hr & Hx).
    apply in_flat_map in Hx. destruct Hx as (g & Hg & Hx).
    apply In_nth_error in Hg. destruct Hg as [j Hj].
    assert (Hlt : j < length (r_stages r)) by (apply nth_error_Some; congruence).
    destruct (HD r Hr j g Hlt Hj) as [_ H2]. apply H2.
    exact Hx.
Qed.

End InvProofs.
