(* C13 nursery stage: property theorems. *)
From Coq Require Import List NArith Bool Lia.
From LV Require Import Arb.NurseryModel Arb.NurseryProofs.
Import ListNotations.

(* PreschoolToKinder never files an output under a height the nursery has
   already graduated: the class is above lastGradHeight, not below the
   output's maturity, and at most max(maturity, lastGradHeight + 1). *)
Theorem C13_nursery_pscl_class_after_best : forall a conf csv last,
  (last < pscl_class a conf csv last)%N
  /\ ((if N.eqb csv 0 then a else conf + csv) <= pscl_class a conf csv last)%N
  /\ (pscl_class a conf csv last
      <= N.max (if N.eqb csv 0 then a else conf + csv) (last + 1))%N.
Proof. exact pscl_class_bounds. Qed.

(* In EVERY history of consecutive block epochs, restarts at any later tip,
   preschool promotions at any moment (any conf height, any maturity --
   below, at or above the nursery's best height) and crib promotions that are
   not late: every kindergarten output whose class the nursery's best height
   has reached HAS BEEN offered to the sweeper.  With the class bound above:
   an output spendable at m and promoted when the nursery is at b is offered
   by block max(m, b + 1). *)
Theorem C13_nursery_pscl_offered : forall (h : list nev) (u : nurs),
  good u -> hist_ok u h = true ->
  forall c id, In (c, OKndr, id) (n_idx (u_store (nrun u h))) ->
    (c <= u_best (nrun u h))%N -> In id (u_offered (nrun u h)).
Proof. intros h u G H. exact (good_run h u G H). Qed.

(* REFUTED for late crib promotions (finding C13-F4): CribToKinder has no late
   registration.  Baby output 1 (expiry 103, csv 3): the timeout tx is
   published at 103 and mined at 104 while the node is down; restart at tip
   107; the historical confirmation promotes the output into class 107; 23
   more blocks: never offered. *)
Definition u_crib : nurs :=
  mkNurs (napply nstore0 (NIncBaby 1 103)) 103 [].
Definition h_f4 : list nev :=
  ERestart 107 :: ECribConf 1 103 104 3 ::
  map EBlock [108; 109; 110; 111; 112; 113; 114; 115; 116; 117; 118; 119; 120; 121; 122;
              123; 124; 125; 126; 127; 128; 129; 130]%N.

Theorem C13_nursery_crib_late_registration_refuted :
  In (107%N, OKndr, 1%N) (n_idx (u_store (nrun u_crib h_f4)))
  /\ u_best (nrun u_crib h_f4) = 130%N
  /\ u_offered (nrun u_crib h_f4) = [].
Proof. repeat split; vm_compute; auto. Qed.

(* non-vacuity of C13_nursery_pscl_offered: the boundary case maturity =
   lastGradHeight (kid with absolute maturity 106 promoted after a restart at
   tip 106) is offered at block 107 *)
Example pscl_boundary :
  let u0 := mkNurs (napply nstore0 (NIncKid 1)) 100 [] in
  let h := [ERestart 106; EPsclConf 1 106 102 0; EBlock 107] in
  (forall c id, In (c, OKndr, id) (n_idx (u_store u0)) -> (c <= u_best u0)%N -> In id (u_offered u0))
  /\ hist_ok u0 h = true
  /\ n_idx (u_store (nrun u0 h)) = [(107, OKndr, 1)]%N
  /\ u_offered (nrun u0 h) = [1%N].
Proof. repeat split; try (vm_compute; reflexivity). intros c id []. Qed.
