(* C13: concrete witnesses (refutations found by the model and replayed on
   the real code by the harness) and non-vacuity examples. *)
From Coq Require Import List NArith Bool Arith Lia.
From LV Require Import Arb.RestartModel Arb.RestartExec Arb.RestartProofs Arb.RestartIncModel.
Import ListNotations.
Local Open Scope N_scope.

Definition M := EStep TMain.
Definition R (k : N) := EStep (TRes k).

(* round robin over all threads: the canonical uninterrupted continuation *)
Definition rr (sc : scen) (n : nat) : list ev := concat (repeat (map EStep (threads sc)) n).

Definition has_out (o : out) (s : st) : bool := existsb (out_eqb o) (outs s).

(* ---- F1: remote force close, one commit-sweep resolver ---- *)
Definition sc_commit : scen :=
  mkScen KRemote false false false false [] [] [] [mkSpec 900 [mkStage [] [(900, 0)] 0]].

(* arbitrator to StateWaitingFullResolution, resolver: sweep confirmed,
   Checkpoint(resolved = true) committed -- stop before log.ResolveContract *)
Definition h_f1 : list ev := repeat M 16 ++ [R 900; R 900; ECrash].

Example sc_commit_wf : wf_scen sc_commit = true.
Proof. reflexivity. Qed.

Example f1_uninterrupted_terminates :
  terminal (run sc_commit (rr sc_commit 30)) = true
  /\ has_out ONotify (run sc_commit (rr sc_commit 30)) = true.
Proof. split; vm_compute; reflexivity. Qed.

Example f1_window :
  d_con (dk (run sc_commit h_f1)) 900 = Some 1%nat
  /\ d_state (dk (run sc_commit h_f1)) = SWaiting.
Proof. split; vm_compute; reflexivity. Qed.

(* since commit 2099ea4 the window is recovered: after the restart the
   reloaded (resolved) contract is removed from the log, the arbitrator is
   signalled and the channel is marked resolved with the uninterrupted
   outcome *)
Example f1_recovered :
  let s := run sc_commit (h_f1 ++ rr sc_commit 30) in
  terminal s = true
  /\ seteq out_eqb (outs s) (outs (run sc_commit (rr sc_commit 30))) = true
  /\ seteq pair_eqb (d_rep (dk s)) (d_rep (dk (run sc_commit (rr sc_commit 30)))) = true.
Proof. repeat split; vm_compute; reflexivity. Qed.

(* non-vacuity of C13_resolved_contract_recovered: its hypotheses hold in the
   window state (before the stop) and its conclusion is the recovery *)
Example f1_window_hyps :
  let h := repeat M 16 ++ [R 900; R 900] in
  find_spec sc_commit 900 = Some (mkSpec 900 [mkStage [] [(900, 0)] 0])
  /\ d_full (dk (run sc_commit h)) = false /\ d_state (dk (run sc_commit h)) = SWaiting
  /\ d_con (dk (run sc_commit h)) 900 = Some 1%nat
  /\ d_con (dk (run sc_commit (h ++ [ECrash; M; R 900]))) 900 = None.
Proof. repeat split; vm_compute; reflexivity. Qed.

(* ---- F2: remote (pending) close, dust fail-back + dangling htlc ---- *)
Definition sc_dust : scen :=
  mkScen KRemote false false false true [2] [6] [] [mkSpec 900 [mkStage [] [(900, 0)] 0]].

(* stop after LogContractResolutions and InsertConfirmedCommitSet, before
   MarkChannelClosed; then everything runs on undisturbed *)
Definition h_f2 : list ev := repeat M 4 ++ [ECrash] ++ rr sc_dust 40.

Example sc_dust_wf : wf_scen sc_dust = true.
Proof. reflexivity. Qed.

Example f2_uninterrupted :
  terminal (run sc_dust (rr sc_dust 40)) = true
  /\ has_out (OFail 2) (run sc_dust (rr sc_dust 40)) = true.
Proof. split; vm_compute; reflexivity. Qed.

Example f2_lost :
  terminal (run sc_dust h_f2) = true
  /\ has_out (OFail 2) (run sc_dust h_f2) = false
  /\ has_out (OFail 6) (run sc_dust h_f2) = true
  /\ has_out OForceClose (run sc_dust h_f2) = true.
Proof. repeat split; vm_compute; reflexivity. Qed.

(* ---- candidate 7-c: re-executing StateContractClosed overwrites a checkpoint ---- *)
Definition sc_two : scen :=
  mkScen KLocal true false false false [2] [] []
         [mkSpec 22 [mkStage [OFail 1] [(22, 4)] 0; mkStage [] [(0, 3)] 0]].

(* arbitrator up to InsertUnresolvedContracts (CommitState(Waiting) pending),
   the resolver completes stage one and checkpoints *)
Definition h_7c : list ev := repeat M 17 ++ [R 22; R 22].

Example sc_two_wf : wf_scen sc_two = true.
Proof. reflexivity. Qed.

Example c7_overwrite :
  d_con (dk (run sc_two h_7c)) 22 = Some 1%nat
  /\ d_state (dk (run sc_two h_7c)) = SClosed
  /\ d_con (dk (run sc_two (h_7c ++ [ECrash; M; M]))) 22 = Some 0%nat.
Proof. repeat split; vm_compute; reflexivity. Qed.

(* ... and the outcome is nevertheless the uninterrupted one *)
Example c7_same_outcome :
  let s := run sc_two (h_7c ++ [ECrash] ++ rr sc_two 40) in
  terminal s = true /\ seteq out_eqb (outs s) (outs (run sc_two (rr sc_two 40))) = true
  /\ seteq pair_eqb (d_rep (dk s)) (d_rep (dk (run sc_two (rr sc_two 40)))) = true.
Proof. repeat split; vm_compute; reflexivity. Qed.

(* non-vacuity of the hypotheses of the terminal-outcome theorem: a scenario
   with every kind of ingredient reaches the terminal state under crashes *)
Definition sc_rich : scen :=
  mkScen KRemote false false true false [2] [] [3]
         [mkSpec 900 [mkStage [] [(900, 0)] 0];
          mkSpec 21 [mkStage [OFail 1] [(21, 3)] 0];
          mkSpec 24 [mkStage [] [] 0; mkStage [OFail 4] [(24, 3)] 0];
          mkSpec 25 [mkStage [OSettle 5] [(25, 0)] 0]].

Example rich_nonvacuous :
  wf_scen sc_rich = true
  /\ (sc_cs_acts sc_rich = false \/ sc_fails_default sc_rich = [])
  /\ terminal (run sc_rich (repeat M 9 ++ [ECrash] ++ repeat M 7 ++ [R 24; R 24; ECrash]
                              ++ rr sc_rich 60)) = true.
Proof. repeat split; try (left; reflexivity); vm_compute; reflexivity. Qed.

(* ---- received htlcs (RestartIncModel): non-vacuity of the hypotheses ---- *)
Definition ip_remote : iparams := mkIP false 27 7 27.
Definition ip_local : iparams := mkIP true 27 7 0.

(* preimage learned after a stop, stop between applyPreimage and
   SwapContract, stop after the swap: C13_incoming_preimage_wins applies
   (preimage known, expiry not reached) and its conclusion is what happens *)
Definition h_inc_late : list iev :=
  [IStep; ICrashE; IPre; IStep; ICrashE; IStep; IStep; ICrashE].

Example inc_preimage_hyp :
  i_pre (irun ip_local h_inc_late) = true /\ i_exp (irun ip_local h_inc_late) = false
  /\ i_disk (irun ip_local h_inc_late) = IDSuccess false false
  /\ i_disk (isteps ip_local 12 (irun ip_local h_inc_late)) = IDGone true
  /\ i_outs (isteps ip_local 12 (irun ip_local h_inc_late)) = [OFinal 7 true]
  /\ i_reps (isteps ip_local 12 (irun ip_local h_inc_late)) = [(0, 0); (27, 4)].
Proof. repeat split; vm_compute; reflexivity. Qed.

(* expiry: stop between PutFinalHtlcOutcome(false) and Checkpoint(resolved),
   the preimage turning up afterwards does not change the branch *)
Definition h_inc_exp : list iev := [IStep; IExp; IStep; IStep; ICrashE; IPre].

Example inc_expiry_hyp :
  (i_pre (irun ip_remote h_inc_exp) = true \/ i_exp (irun ip_remote h_inc_exp) = true)
  /\ i_disk (irun ip_remote h_inc_exp) = IDContest false
  /\ i_outs (irun ip_remote h_inc_exp) = [OFinal 7 false]
  /\ i_disk (isteps ip_remote 12 (irun ip_remote h_inc_exp)) = IDGone false
  /\ i_outs (isteps ip_remote 12 (irun ip_remote h_inc_exp)) = [OFinal 7 false; OFinal 7 false]
  /\ i_reps (isteps ip_remote 12 (irun ip_remote h_inc_exp)) = [(27, 3)].
Proof. repeat split; try (left; reflexivity); vm_compute; reflexivity. Qed.

(* without the preimage and before the expiry the resolver waits (the
   hypothesis of C13_incoming_progress is needed) *)
Example inc_waits :
  gone (isteps ip_remote 12 (irun ip_remote [IStep; ICrashE; IStep])) = false.
Proof. reflexivity. Qed.

(* whole channel: remote close with an offered htlc timing out (21), a
   received htlc claimed after a late preimage (27: swap, claim) and one that
   expires (28); C13_incoming_same_outcome's hypotheses hold and a crashy
   history reaches the terminal state *)
Definition sc_in : scen :=
  mkScen KRemote false false false false [2] [] [3]
         [mkSpec 900 [mkStage [] [(900, 0)] 0];
          mkSpec 21 [mkStage [OFail 1] [(21, 3)] 0];
          inc_spec ip_remote true;
          inc_spec (mkIP false 28 8 28) false].

Example sc_in_nonvacuous :
  wf_scen sc_in = true
  /\ (sc_cs_acts sc_in = false \/ sc_fails_default sc_in = [])
  /\ In (inc_spec ip_remote true) (sc_resolvers sc_in)
  /\ In (inc_spec (mkIP false 28 8 28) false) (sc_resolvers sc_in)
  /\ ~ In (OFinal 7 false) (expected_outs sc_in)
  /\ terminal (run sc_in (repeat M 9 ++ [R 27; ECrash] ++ repeat M 4 ++ [R 27; R 27; ECrash]
                            ++ rr sc_in 60)) = true.
Proof.
  repeat split; try (left; reflexivity); try (vm_compute; reflexivity).
  - right. right. left. reflexivity.
  - right. right. right. left. reflexivity.
  - vm_compute. intuition discriminate.
Qed.
