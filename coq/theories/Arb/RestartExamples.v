(* C13: concrete witnesses (refutations found by the model and replayed on
   the real code by the harness) and non-vacuity examples. *)
From Coq Require Import List NArith Bool Arith Lia.
From LV Require Import Arb.RestartModel Arb.RestartExec Arb.RestartProofs.
Import ListNotations.
Local Open Scope N_scope.

Definition M := EStep TMain.
Definition R (k : N) := EStep (TRes k).

(* round robin over all threads: the canonical uninterrupted continuation *)
Definition rr (sc : scen) (n : nat) : list ev := concat (repeat (map EStep (threads sc)) n).

Definition has_out (o : out) (s : st) : bool := existsb (out_eqb o) (outs s).

(* ---- F1: remote force close, one commit-sweep resolver ---- *)
Definition sc_commit : scen :=
  mkScen KRemote false false false false [] [] [] [mkSpec 900 [mkStage [] (Some (900, 0))]].

(* arbitrator to StateWaitingFullResolution, resolver: sweep confirmed,
   Checkpoint(resolved = true) committed -- stop before log.ResolveContract *)
Definition h_f1 : list ev := repeat M 16 ++ [R 900; R 900; ECrash].

Example sc_commit_wf : wf_scen sc_commit = true.
Proof. reflexivity. Qed.

Example f1_uninterrupted_terminates :
  terminal (run sc_commit (rr sc_commit 30)) = true
  /\ has_out ONotify (run sc_commit (rr sc_commit 30)) = true.
Proof. split; vm_compute; reflexivity. Qed.

Example f1_window :
  d_con (dk (run sc_commit h_f1)) 900 = Some 1%nat
  /\ d_state (dk (run sc_commit h_f1)) = SWaiting.
Proof. split; vm_compute; reflexivity. Qed.

(* the set of states the run can never leave *)
Definition stuck_f1 (s : st) : Prop :=
  d_state (dk s) = SWaiting /\ d_full (dk s) = false /\ d_closed (dk s) = true
  /\ d_con (dk s) 900 = Some 1%nat
  /\ m_state (mm s) = SWaiting /\ (forall k, m_res (mm s) k = None)
  /\ m_anchor (mm s) = false /\ m_sigs (mm s) = 0%nat /\ m_fin (mm s) = None
  /\ (m_pc (mm s) = MIdle \/ exists r, m_pc (mm s) = MStep TChain r).

Lemma stuck_f1_start : stuck_f1 (run sc_commit h_f1).
Proof.
  unfold stuck_f1. repeat split; try (vm_compute; reflexivity).
  right. exists true. vm_compute. reflexivity.
Qed.

Lemma stuck_f1_step : forall s e, stuck_f1 s -> stuck_f1 (step sc_commit s e).
Proof.
  intros s e (Hds & Hf & Hcl & Hcon & Hms & Hres & Han & Hsig & Hfin & Hpc).
  destruct e as [[|k| |]|]; simpl.
  - (* arbitrator *)
    unfold main_step. destruct Hpc as [Hpc|[r Hpc]]; rewrite Hpc.
    + rewrite Hcl, Hsig. simpl.
      unfold stuck_f1; repeat split; auto.
    + rewrite Hms. unfold no_contracts. simpl. rewrite Hcon. simpl.
      destruct r; unfold stuck_f1; simpl; repeat split; auto.
      intros k. unfold relaunch.
      destruct (find_spec sc_commit k) as [r0|] eqn:Ef; [|reflexivity].
      apply find_spec_in in Ef. destruct Ef as [Hin Hk].
      simpl in Hin. destruct Hin as [<-|[]]. simpl in Hk. subst k.
      rewrite Hcon. reflexivity.
  - unfold res_step. rewrite Hres. unfold stuck_f1; repeat split; auto.
  - unfold anchor_step. rewrite Han. unfold stuck_f1; repeat split; auto.
  - unfold fin_step. rewrite Hfin. unfold stuck_f1; repeat split; auto.
  - (* one more restart does not help *)
    unfold restart. rewrite Hf, Hcl, Hds. simpl.
    unfold stuck_f1; simpl; repeat split; auto. right. exists true. reflexivity.
Qed.

Lemma stuck_f1_forever : forall h', stuck_f1 (run sc_commit (h_f1 ++ h')).
Proof.
  intros h'. induction h' using rev_ind.
  - rewrite app_nil_r. apply stuck_f1_start.
  - rewrite app_assoc, run_snoc. apply stuck_f1_step. exact IHh'.
Qed.

(* ---- F2: remote (pending) close, dust fail-back + dangling htlc ---- *)
Definition sc_dust : scen :=
  mkScen KRemote false false false true [2] [6] [] [mkSpec 900 [mkStage [] (Some (900, 0))]].

(* stop after LogContractResolutions and InsertConfirmedCommitSet, before
   MarkChannelClosed; then everything runs on undisturbed *)
Definition h_f2 : list ev := repeat M 4 ++ [ECrash] ++ rr sc_dust 40.

Example sc_dust_wf : wf_scen sc_dust = true.
Proof. reflexivity. Qed.

Example f2_uninterrupted :
  terminal (run sc_dust (rr sc_dust 40)) = true
  /\ has_out (OFail 2) (run sc_dust (rr sc_dust 40)) = true.
Proof. split; vm_compute; reflexivity. Qed.

Example f2_lost :
  terminal (run sc_dust h_f2) = true
  /\ has_out (OFail 2) (run sc_dust h_f2) = false
  /\ has_out (OFail 6) (run sc_dust h_f2) = true
  /\ has_out OForceClose (run sc_dust h_f2) = true.
Proof. repeat split; vm_compute; reflexivity. Qed.

(* ---- candidate 7-c: re-executing StateContractClosed overwrites a checkpoint ---- *)
Definition sc_two : scen :=
  mkScen KLocal true false false false [2] [] []
         [mkSpec 22 [mkStage [OFail 1] (Some (22, 4)); mkStage [] (Some (0, 3))]].

(* arbitrator up to InsertUnresolvedContracts (CommitState(Waiting) pending),
   the resolver completes stage one and checkpoints *)
Definition h_7c : list ev := repeat M 17 ++ [R 22; R 22].

Example sc_two_wf : wf_scen sc_two = true.
Proof. reflexivity. Qed.

Example c7_overwrite :
  d_con (dk (run sc_two h_7c)) 22 = Some 1%nat
  /\ d_state (dk (run sc_two h_7c)) = SClosed
  /\ d_con (dk (run sc_two (h_7c ++ [ECrash; M; M]))) 22 = Some 0%nat.
Proof. repeat split; vm_compute; reflexivity. Qed.

(* ... and the outcome is nevertheless the uninterrupted one *)
Example c7_same_outcome :
  let s := run sc_two (h_7c ++ [ECrash] ++ rr sc_two 40) in
  terminal s = true /\ seteq out_eqb (outs s) (outs (run sc_two (rr sc_two 40))) = true
  /\ seteq pair_eqb (d_rep (dk s)) (d_rep (dk (run sc_two (rr sc_two 40)))) = true.
Proof. repeat split; vm_compute; reflexivity. Qed.

(* non-vacuity of the hypotheses of the terminal-outcome theorem: a scenario
   with every kind of ingredient reaches the terminal state under crashes *)
Definition sc_rich : scen :=
  mkScen KRemote false false true false [2] [] [3]
         [mkSpec 900 [mkStage [] (Some (900, 0))];
          mkSpec 21 [mkStage [OFail 1] (Some (21, 3))];
          mkSpec 24 [mkStage [] None; mkStage [OFail 4] (Some (24, 3))];
          mkSpec 25 [mkStage [OSettle 5] (Some (25, 0))]].

Example rich_nonvacuous :
  wf_scen sc_rich = true
  /\ (sc_cs_acts sc_rich = false \/ sc_fails_default sc_rich = [])
  /\ terminal (run sc_rich (repeat M 9 ++ [ECrash] ++ repeat M 7 ++ [R 24; R 24; ECrash]
                              ++ rr sc_rich 60)) = true.
Proof. repeat split; try (left; reflexivity); vm_compute; reflexivity. Qed.
