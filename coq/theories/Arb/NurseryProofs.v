(* C13 nursery stage: proofs about NurseryModel. *)
From Coq Require Import List NArith Bool Lia.
From LV Require Import Arb.NurseryModel.
Import ListNotations.

Lemma ostate_eqb_true : forall a b, ostate_eqb a b = true -> a = b.
Proof. intros [] []; simpl; congruence. Qed.

Lemma in_add_idx : forall l e x, In x (add_idx l e) -> In x l \/ x = e.
Proof.
  intros l e x. unfold add_idx. destruct (existsb (idx_eqb e) l); auto.
  intros H. apply in_app_or in H. destruct H as [H|[H|[]]]; auto.
Qed.

Lemma in_del_idx : forall l e x, In x (del_idx l e) -> In x l.
Proof. intros l e x H. unfold del_idx in H. apply filter_In in H. tauto. Qed.

Lemma in_class_kids : forall s p id,
  In id (class_kids s p) <-> exists c, In (c, OKndr, id) (n_idx s) /\ p c = true.
Proof.
  intros s p id. unfold class_kids. rewrite in_map_iff. split.
  - intros [[[c st] i] [Hi Hf]]. simpl in Hi. subst i. apply filter_In in Hf.
    destruct Hf as [Hin Hb]. simpl in Hb. apply andb_true_iff in Hb. destruct Hb as [Hs Hp].
    apply ostate_eqb_true in Hs. subst st. exists c. auto.
  - intros [c [Hin Hp]]. exists (c, OKndr, id). split; [reflexivity|].
    apply filter_In. split; [exact Hin|]. simpl. rewrite Hp. reflexivity.
Qed.

(* every kindergarten entry whose class the nursery has reached has been
   offered to the sweeper *)
Definition good (u : nurs) : Prop :=
  forall c id, In (c, OKndr, id) (n_idx (u_store u)) -> (c <= u_best u)%N -> In id (u_offered u).

(* histories: block epochs are consecutive, a restart never goes back, and a
   crib promotion is NOT late (its class is above the nursery's best height:
   the case the code does not handle, see the refutation below) *)
Definition ev_ok (u : nurs) (e : nev) : bool :=
  match e with
  | EBlock h => N.eqb h (u_best u + 1)
  | ERestart t => N.leb (u_best u) t
  | EPsclConf _ _ _ _ => true
  | ECribConf _ _ conf csv => N.ltb (u_best u) (crib_class conf csv)
  end.

Fixpoint hist_ok (u : nurs) (h : list nev) : bool :=
  match h with
  | [] => true
  | e :: r => ev_ok u e && hist_ok (nstep u e) r
  end.

Lemma pscl_class_bounds : forall a conf csv last,
  (last < pscl_class a conf csv last)%N
  /\ ((if N.eqb csv 0 then a else conf + csv) <= pscl_class a conf csv last)%N
  /\ (pscl_class a conf csv last
      <= N.max (if N.eqb csv 0 then a else conf + csv) (last + 1))%N.
Proof.
  intros a conf csv last. unfold pscl_class.
  destruct (N.leb_spec (if N.eqb csv 0 then a else (conf + csv)%N) last); lia.
Qed.

Lemma good_step : forall u e, good u -> ev_ok u e = true -> good (nstep u e).
Proof.
  intros u e G Hok. destruct e as [h|t|id a conf csv|id ex conf csv]; simpl in *.
  - apply N.eqb_eq in Hok. intros c id Hin Hc. simpl in *.
    apply in_or_app. destruct (N.eq_dec c h) as [->|Hne].
    + right. apply in_class_kids. exists h. split; auto. apply N.eqb_refl.
    + left. apply (G c id Hin). lia.
  - apply N.leb_le in Hok. intros c id Hin Hc. simpl in *.
    apply in_or_app. right. apply in_class_kids. exists c. split; auto. apply N.leb_le. exact Hc.
  - intros c i Hin Hc. simpl in *. apply in_add_idx in Hin. destruct Hin as [Hin|Heq].
    + apply (G c i Hin Hc).
    + inversion Heq; subst. destruct (pscl_class_bounds a conf csv (u_best u)) as [H _]. lia.
  - apply N.ltb_lt in Hok. intros c i Hin Hc. simpl in *.
    apply in_add_idx in Hin. destruct Hin as [Hin|Heq].
    + apply in_del_idx in Hin. apply (G c i Hin Hc).
    + inversion Heq; subst. lia.
Qed.

Theorem good_run : forall h u, good u -> hist_ok u h = true -> good (nrun u h).
Proof.
  induction h as [|e r IH]; intros u G H; simpl in *; auto.
  apply andb_true_iff in H. destruct H as [H1 H2]. apply IH; auto. apply good_step; auto.
Qed.
