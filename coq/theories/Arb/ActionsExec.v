(* C12 — trace checker: replays the operations recorded by
   harness/contractcourt/verif_actions_test.go on the model and reports the
   operations whose observables differ from what the real ChannelArbitrator
   did.  Evaluated by vm_compute in the correspondence run. *)
From Coq Require Import List NArith ZArith Bool.
From LV Require Import Arb.ActionsModel.
Import ListNotations.
Local Open Scope N_scope.

Definition mem_n (x : N) (l : list N) : bool := existsb (N.eqb x) l.

(* isPreimageAvailable: witness cache first, then an invoice that carries its
   preimage. *)
Definition mk_env (ind outd : N) (fwd : list N) (uptime grace : Z)
           (cache : list N) (inv : list (N * bool)) : env :=
  mkEnv ind outd (fun i => mem_n i fwd) uptime grace
        (fun h => mem_n h cache ||
                  existsb (fun p => N.eqb (fst p) h && snd p) inv).

Record eobs := mkObs {
  o_state : N; o_fc : N; o_fail : list N; o_final : list N;
  o_resolvers : list (N * N); o_resolved : N }.

Inductive eop :=
| EBlock (h : N) (o : eobs)
| EUser (h : N) (o : eobs)
| EClose (k : close_kind) (h : N) (c : csets) (r : resolutions) (o : eobs).

Record ecase := mkCase { ec_env : env; ec_active : csets; ec_ops : list eop }.

Definition state_code (s : astate) : N :=
  match s with
  | SDefault => 0 | SBroadcastCommit => 1 | SContractClosed => 2
  | SWaitingFullResolution => 3 | SFullyResolved => 4 | SError => 5
  | SCommitmentBroadcasted => 6
  end.

Definition rkind_code (k : rkind) : N :=
  match k with
  | RTimeout => 1 | RSuccess => 2 | RInContest => 3 | ROutContest => 4
  | RAnchor => 5 | RBreach => 6 | RCommit => 7
  end.

(* insertion sort *)
Section Sort.
  Variable A : Type.
  Variable leb : A -> A -> bool.
  Fixpoint insert (x : A) (l : list A) : list A :=
    match l with
    | [] => [x]
    | y :: r => if leb x y then x :: l else y :: insert x r
    end.
  Fixpoint isort (l : list A) : list A :=
    match l with [] => [] | x :: r => insert x (isort r) end.
End Sort.

Definition sort_n := isort N N.leb.
Definition pair_leb (a b : N * N) : bool :=
  if N.ltb (fst a) (fst b) then true
  else if N.eqb (fst a) (fst b) then N.leb (snd a) (snd b) else false.
Definition sort_p := isort (N * N) pair_leb.

Fixpoint list_eqb {A} (eqb : A -> A -> bool) (a b : list A) : bool :=
  match a, b with
  | [], [] => true
  | x :: a', y :: b' => eqb x y && list_eqb eqb a' b'
  | _, _ => false
  end.

Definition pair_eqb (a b : N * N) : bool := N.eqb (fst a) (fst b) && N.eqb (snd a) (snd b).

Definition obs_ok (a : arb) (ef : eff) (o : eobs) : bool :=
  N.eqb (state_code (ar_state a)) (o_state o) &&
  N.eqb (f_force ef) (o_fc o) &&
  list_eqb N.eqb (sort_n (f_fail ef)) (o_fail o) &&
  list_eqb N.eqb (sort_n (f_final ef)) (o_final o) &&
  list_eqb pair_eqb
           (sort_p (map (fun p => (rkind_code (fst p), snd p)) (f_resolvers ef)))
           (o_resolvers o) &&
  N.eqb (f_resolved ef) (o_resolved o).

Definition step_op (e : env) (active : csets) (a : arb) (o : eop) : arb * bool :=
  let fx := impl_fixed in
  match o with
  | EBlock h ob =>
    match on_block fx e a h active with
    | Some (a', ef) => (a', obs_ok a' ef ob)
    | None => (a, false)
    end
  | EUser h ob =>
    match on_user fx e a h active with
    | Some (a', ef) => (a', obs_ok a' ef ob)
    | None => (a, false)
    end
  | EClose k h c r ob =>
    match on_close fx e a k h c r active with
    | Some (a', ef) => (a', obs_ok a' ef ob)
    | None => (a, false)
    end
  end.

Fixpoint run_ops (e : env) (active : csets) (a : arb) (ops : list eop) (i : N) (bad : list N)
  : list N :=
  match ops with
  | [] => rev bad
  | o :: r =>
    let '(a', ok) := step_op e active a o in
    run_ops e active a' r (i + 1) (if ok then bad else i :: bad)
  end.

Definition check_case (c : ecase) : list N :=
  run_ops (ec_env c) (ec_active c) arb0 (ec_ops c) 0 [].

Fixpoint mismatches (cases : list ecase) (i : N) : list (N * list N) :=
  match cases with
  | [] => []
  | c :: r =>
    match check_case c with
    | [] => mismatches r (i + 1)
    | bad => (i, bad) :: mismatches r (i + 1)
    end
  end.

(* What the model says the arbitrator does on a case (used to print the
   model side of a disagreement). *)
Fixpoint model_trace (e : env) (active : csets) (a : arb) (ops : list eop)
  : list (N * eff) :=
  match ops with
  | [] => []
  | o :: r =>
    let res := match o with
               | EBlock h _ => on_block impl_fixed e a h active
               | EUser h _ => on_user impl_fixed e a h active
               | EClose k h c rs _ => on_close impl_fixed e a k h c rs active
               end in
    match res with
    | Some (a', ef) => (state_code (ar_state a'), ef) :: model_trace e active a' r
    | None => []
    end
  end.
