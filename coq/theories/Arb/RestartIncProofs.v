(* C13 — received htlcs: proofs about the machine of RestartIncModel. *)
From Coq Require Import List NArith Bool Arith Lia.
From LV Require Import Arb.RestartModel Arb.RestartIncModel.
Import ListNotations.

Section Inc.
Variable p : iparams.

Definition on_contest_done (d : idisk) : Prop := d = IDContest true \/ d = IDGone false.
Definition on_success_done (d : idisk) : Prop :=
  (exists inc, d = IDSuccess inc true) \/ d = IDGone true.

Record IInv (s : ist) : Prop := {
  j_exp_side : chosen (i_disk s) = false ->
    (forall o, In o (i_outs s) -> o = OFinal (ip_idx p) false)
    /\ (forall x, In x (i_reps s) -> In x (exp_reps p));
  j_claim_side : chosen (i_disk s) = true ->
    (forall o, In o (i_outs s) -> o = OFinal (ip_idx p) true)
    /\ (forall x, In x (i_reps s) -> In x (claim_reps p))
    /\ i_pre s = true;
  j_exp_done : on_contest_done (i_disk s) ->
    In (OFinal (ip_idx p) false) (i_outs s) /\ incl (exp_reps p) (i_reps s);
  j_claim_done : on_success_done (i_disk s) ->
    In (OFinal (ip_idx p) true) (i_outs s) /\ incl (claim_reps p) (i_reps s);
  j_shape : forall inc res, i_disk s = IDSuccess inc res ->
    (inc = true -> ip_two p = true) /\ (res = true -> inc = ip_two p);
  j_cause_exp : chosen (i_disk s) = false ->
    (i_outs s <> [] \/ i_reps s <> []) -> i_exp s = true;
  j_pc : match i_pc s with
         | PExpFinal => i_disk s = IDContest false /\ i_exp s = true
         | PExpCkpt => i_disk s = IDContest false /\ i_exp s = true
                       /\ In (OFinal (ip_idx p) false) (i_outs s)
         | PSwap => i_disk s = IDContest false /\ i_pre s = true
                    /\ i_outs s = [] /\ i_reps s = []
         | PIncCkpt => i_disk s = IDSuccess false false /\ ip_two p = true
         | PClaimFinal => i_disk s = IDSuccess (ip_two p) false
         | PClaimCkpt => i_disk s = IDSuccess (ip_two p) false
                         /\ In (OFinal (ip_idx p) true) (i_outs s)
         | PDelete => i_disk s = IDContest true \/ exists inc, i_disk s = IDSuccess inc true
         | PLoop => True
         | PDone => exists b, i_disk s = IDGone b
         end
}.

Lemma nil_of_none : forall A (l : list A), (forall x, In x l -> False) -> l = [].
Proof. intros A [|a l] H; [reflexivity|]. exfalso. apply (H a). left. reflexivity. Qed.

Lemma iinv_init : IInv iinit.
Proof.
  constructor; simpl.
  - intros _. split; intros ? [].
  - discriminate.
  - intros [H|H]; discriminate.
  - intros [[? H]|H]; discriminate.
  - discriminate.
  - intros _ [H|H]; congruence.
  - exact I.
Qed.

Ltac inv_on :=
  unfold on_contest_done, on_success_done in *;
  repeat match goal with
  | H : _ \/ _ |- _ => destruct H
  | H : exists _, _ |- _ => destruct H
  | H : _ /\ _ |- _ => destruct H
  end; try discriminate; try congruence.

Lemma iinv_env : forall s e, e <> IStep -> IInv s -> IInv (iev_step p s e).
Proof.
  intros s e He I. destruct I as [J1 J2 J3 J4 J5 J6 J7].
  destruct e; [congruence| | |].
  - (* crash *) constructor; simpl; auto.
  - (* preimage *) constructor; simpl; auto.
    all: try (intros H; destruct (J2 H) as (A & B & _); auto; fail).
    all: try (destruct (i_pc s); auto; destruct J7 as (A & _ & B & C); auto; fail).
  - (* expiry *) constructor; simpl; auto.
    all: try (destruct (i_pc s); auto; try tauto; destruct J7 as (A & _ & B); auto; fail).
Qed.

Ltac fin :=
  try solve [ auto | discriminate | tauto | intros; discriminate | intros; congruence
            | intros [?|?]; discriminate | intros [[? ?]|?]; discriminate
            | intros ? [?|?]; congruence
            | left; reflexivity | right; eexists; reflexivity | eexists; reflexivity
            | intros ? ? HH; inversion HH; subst; split; intros;
              solve [auto | discriminate | congruence] ].

Lemma in_app1 : forall A (l : list A) a x, In x (l ++ [a]) -> In x l \/ x = a.
Proof. intros A l a x H. apply in_app_or in H. destruct H as [H|[H|[]]]; auto. Qed.

Lemma iinv_step : forall s, IInv s -> IInv (istep p s).
Proof.
  intros s Hinv. pose proof Hinv as Hkeep. destruct Hinv as [J1 J2 J3 J4 J5 J6 J7].
  unfold istep. destruct (i_pc s) eqn:Epc.
  - (* PLoop *)
    destruct (i_disk s) as [[|]|[|] [|]|b] eqn:Ed; simpl in *;
      try (constructor; unfold set_ipc; simpl; rewrite ?Ed; simpl; fin; fail).
    + (* contest, unresolved *)
      destruct (i_exp s) eqn:Ee.
      * constructor; unfold set_ipc; simpl; rewrite ?Ed; simpl; fin.
      * destruct (i_pre s) eqn:Ep.
        -- assert (Ho : i_outs s = []).
           { apply nil_of_none. intros o Ho. assert (false = true); [|discriminate].
             apply J6; auto. left. intros E. rewrite E in Ho. destruct Ho. }
           assert (Hr : i_reps s = []).
           { apply nil_of_none. intros o Hx. assert (false = true); [|discriminate].
             apply J6; auto. right. intros E. rewrite E in Hx. destruct Hx. }
           constructor; unfold set_ipc; simpl; rewrite ?Ed; simpl; fin.
        -- exact Hkeep.
    + (* success, incubating, unresolved *)
      destruct (J5 true false eq_refl) as [A _]. specialize (A eq_refl).
      constructor; unfold set_ipc; simpl; rewrite ?Ed, ?A; simpl; fin.
    + (* success, not incubating, unresolved *)
      destruct (J5 false false eq_refl) as [_ _].
      destruct (ip_two p) eqn:Et.
      * constructor; unfold set_ipc; simpl; rewrite ?Ed; simpl; fin.
      * constructor; unfold set_ipc; simpl; rewrite ?Ed, ?Et; simpl; fin.
  - (* PExpFinal *)
    destruct J7 as [Ed Ee]. rewrite Ed in *. simpl in *. destruct (J1 eq_refl) as [A B].
    constructor; simpl; rewrite ?Ed; simpl; fin.
    all: try (intros _; split; auto; intros o Ho; apply in_app1 in Ho; destruct Ho; subst; auto; fail).
    all: try (repeat split; auto; apply in_or_app; right; left; reflexivity; fail).
  - (* PExpCkpt *)
    destruct J7 as (Ed & Ee & Ho). rewrite Ed in *. simpl in *. destruct (J1 eq_refl) as [A B].
    constructor; simpl; fin.
    all: try (intros _; split; auto; intros x Hx; apply in_app_or in Hx; destruct Hx; auto; fail).
    all: try (intros _; split; auto; apply incl_appr, incl_refl; fail).
  - (* PSwap *)
    destruct J7 as (Ed & Ep & Eo & Er). rewrite Ed in *. simpl in *.
    constructor; simpl; rewrite ?Eo, ?Er; simpl; fin.
    all: try (intros _; repeat split; auto; intros ? []; fail).
  - (* PIncCkpt *)
    destruct J7 as (Ed & Et). rewrite Ed in *. simpl in *.
    constructor; simpl; fin.
  - (* PClaimFinal *)
    rename J7 into Ed. rewrite Ed in *. simpl in *. destruct (J2 eq_refl) as (A & B & C).
    constructor; simpl; rewrite ?Ed; simpl; fin.
    all: try (intros _; repeat split; auto; intros o Ho; apply in_app1 in Ho; destruct Ho; subst; auto; fail).
    all: try (split; auto; apply in_or_app; right; left; reflexivity; fail).
  - (* PClaimCkpt *)
    destruct J7 as (Ed & Ho). rewrite Ed in *. simpl in *. destruct (J2 eq_refl) as (A & B & C).
    destruct (J5 _ _ eq_refl) as [S1 _].
    constructor; simpl; fin.
    all: try (intros _; repeat split; auto; intros x Hx; apply in_app_or in Hx; destruct Hx; auto; fail).
    all: try (intros _; split; auto; apply incl_appr, incl_refl; fail).
  - (* PDelete *)
    destruct J7 as [Ed|[inc Ed]]; rewrite Ed in *; simpl in *;
      constructor; simpl; fin.
    all: try (intros _; apply J3; left; reflexivity; fail).
    all: try (intros _; apply J4; left; eexists; reflexivity; fail).
  - (* PDone *) exact Hkeep.
Qed.

Lemma iinv_run : forall h, IInv (irun p h).
Proof.
  intros h. unfold irun.
  assert (G : forall s, IInv s -> IInv (fold_left (iev_step p) h s)).
  { induction h as [|e h IH]; intros s I; simpl; auto. apply IH.
    destruct e; try (apply iinv_env; [discriminate|exact I]). apply iinv_step. exact I. }
  apply G, iinv_init.
Qed.

(* ---- no contradiction ---- *)
Theorem inc_no_contradiction : forall h,
  ~ (In (OFinal (ip_idx p) true) (i_outs (irun p h))
     /\ In (OFinal (ip_idx p) false) (i_outs (irun p h)))
  /\ ~ ((exists x, In x (i_reps (irun p h)) /\ claimed_rep x = true)
        /\ (exists y, In y (i_reps (irun p h)) /\ timeout_rep y = true)).
Proof.
  intros h. destruct (iinv_run h) as [J1 J2 _ _ _ _ _].
  destruct (chosen (i_disk (irun p h))) eqn:Ec.
  - destruct (J2 eq_refl) as (A & B & _). split.
    + intros [_ H]. apply A in H. discriminate.
    + intros [_ [y [Hy Ht]]]. apply B in Hy. unfold claim_reps in Hy.
      destruct (ip_two p); simpl in Hy;
        repeat (destruct Hy as [<-|Hy]; [discriminate Ht|]); destruct Hy.
  - destruct (J1 eq_refl) as (A & B). split.
    + intros [H _]. apply A in H. discriminate.
    + intros [[x [Hx Ht]] _]. apply B in Hx. unfold exp_reps in Hx.
      destruct Hx as [<-|[]]. discriminate Ht.
Qed.

(* ---- an outcome has its cause ---- *)
Theorem inc_outcome_caused : forall h,
  (In (OFinal (ip_idx p) true) (i_outs (irun p h)) -> i_pre (irun p h) = true)
  /\ (In (OFinal (ip_idx p) false) (i_outs (irun p h)) -> i_exp (irun p h) = true)
  /\ (forall o, In o (i_outs (irun p h)) -> exists b, o = OFinal (ip_idx p) b).
Proof.
  intros h. destruct (iinv_run h) as [J1 J2 _ _ _ J6 _].
  destruct (chosen (i_disk (irun p h))) eqn:Ec.
  - destruct (J2 eq_refl) as (A & B & C). repeat split; auto.
    + intros H. apply A in H. discriminate.
    + intros o Ho. exists true. auto.
  - destruct (J1 eq_refl) as (A & B). repeat split.
    + intros H. apply A in H. discriminate.
    + intros H. apply J6; auto. left. intros E. rewrite E in H. destruct H.
    + intros o Ho. exists false. auto.
Qed.

(* ---- the machine is always a state of the staged resolver of RestartModel ---- *)
Definition stage_done_i (s : ist) (g : stage) : Prop :=
  incl (s_outs g) (i_outs s) /\ incl (s_rep g) (i_reps s).

Theorem inc_refines_script : forall h,
  let s := irun p h in
  let sc := inc_script p (chosen (i_disk s)) in
  incl (i_outs s) (flat_map s_outs sc) /\ incl (i_reps s) (flat_map s_rep sc)
  /\ match iprog p (i_disk s) with
     | Some n => n <= length sc
                 /\ forall j g, j < n -> nth_error sc j = Some g -> stage_done_i s g
     | None => forall g, In g sc -> stage_done_i s g
     end.
Proof.
  intros h s sc. subst s sc. destruct (iinv_run h) as [J1 J2 J3 J4 J5 _ _].
  set (s := irun p h) in *.
  assert (Hdone_c : on_success_done (i_disk s) ->
            forall g, In g (inc_script p true) -> stage_done_i s g).
  { intros H g Hg. destruct (J4 H) as [A B]. unfold inc_script in Hg. simpl in Hg.
    unfold stage_done_i.
    destruct Hg as [<-|Hg]; [split; intros ? []|].
    apply in_app_or in Hg. destruct Hg as [Hg|[<-|[]]].
    - destruct (ip_two p); [destruct Hg as [<-|[]]; split; intros ? []|destruct Hg].
    - simpl. split; auto. intros o [<-|[]]. exact A. }
  assert (Hdone_e : on_contest_done (i_disk s) ->
            forall g, In g (inc_script p false) -> stage_done_i s g).
  { intros H g Hg. destruct (J3 H) as [A B]. simpl in Hg. destruct Hg as [<-|[]].
    unfold stage_done_i. simpl. split; auto. intros o [<-|[]]. exact A. }
  destruct (chosen (i_disk s)) eqn:Ec.
  - destruct (J2 eq_refl) as (A & B & _). split; [|split].
    + intros o Ho. rewrite (A o Ho). unfold inc_script. simpl. rewrite flat_map_app.
      apply in_or_app. right. simpl. left. reflexivity.
    + intros x Hx. apply B in Hx. unfold inc_script. simpl. rewrite flat_map_app.
      apply in_or_app. right. simpl. rewrite app_nil_r. exact Hx.
    + destruct (i_disk s) as [r|inc res|b] eqn:Ed; simpl in Ec; try discriminate.
      * destruct (J5 inc res eq_refl) as [S1 S2].
        assert (Hlen : length (inc_script p true) = if ip_two p then 3 else 2).
        { unfold inc_script. simpl. rewrite app_length. destruct (ip_two p); reflexivity. }
        destruct res.
        -- (* resolved: everything done *)
           assert (Hp : iprog p (IDSuccess inc true) = Some (if ip_two p then 3 else 2))
             by (destruct inc; reflexivity).
           rewrite Hp, Hlen. split; [destruct (ip_two p); lia|].
           intros j g _ Hn. apply Hdone_c; [left; eexists; reflexivity|].
           eapply nth_error_In; eauto.
        -- destruct inc; cbn [iprog].
           ++ rewrite Hlen, (S1 eq_refl). split; [lia|].
              intros j g Hj Hn. unfold inc_script in Hn. rewrite (S1 eq_refl) in Hn.
              destruct j as [|[|j]]; [| |lia]; simpl in Hn; inversion Hn; subst;
                split; intros ? [].
           ++ rewrite Hlen. split; [destruct (ip_two p); lia|].
              intros j g Hj Hn. destruct j; [|lia]. unfold inc_script in Hn. simpl in Hn.
              inversion Hn; subst. split; intros ? [].
      * destruct b; [|discriminate]. cbn [iprog]. intros g Hg. apply Hdone_c; auto.
        right. reflexivity.
  - destruct (J1 eq_refl) as (A & B). split; [|split].
    + intros o Ho. rewrite (A o Ho). simpl. left. reflexivity.
    + intros x Hx. apply B in Hx. simpl in *. tauto.
    + destruct (i_disk s) as [r|inc res|b] eqn:Ed; simpl in Ec; try discriminate.
      * destruct r; cbn [iprog]; simpl length.
        -- split; [lia|]. intros j g _ Hn. apply Hdone_e; [left; reflexivity|].
           eapply nth_error_In; eauto.
        -- split; [lia|]. intros j g Hj. lia.
      * destruct b; [discriminate|]. cbn [iprog]. intros g Hg. apply Hdone_e; auto.
        right. reflexivity.
Qed.

(* ---- progress ---- *)
Lemma istep_env : forall s, i_pre (istep p s) = i_pre s /\ i_exp (istep p s) = i_exp s.
Proof.
  intros s. unfold istep, set_ipc.
  destruct (i_pc s); simpl; auto;
    destruct (i_disk s) as [[|]|[|] [|]|b]; simpl; auto;
    destruct (i_exp s) eqn:Ee; destruct (i_pre s) eqn:Ep; destruct (ip_two p);
    simpl; rewrite ?Ee, ?Ep; auto.
Qed.

(* from every reachable state in which the preimage is known or the expiry
   height reached, 12 resolver steps without a further stop delete the
   contract *)
End Inc.

Ltac kill := try solve [ exfalso;
   repeat match goal with
   | H : _ /\ _ |- _ => destruct H
   | H : _ \/ _ |- _ => destruct H
   | H : exists _, _ |- _ => destruct H
   end; (discriminate || congruence) ].

Theorem inc_progress : forall (p : iparams) h,
  i_pre (irun p h) = true \/ i_exp (irun p h) = true ->
  gone (isteps p 12 (irun p h)) = true.
Proof.
  intros p h He. destruct (iinv_run p h) as [_ _ _ _ _ _ J7].
  destruct (irun p h) as [d pc pre ex o r]. destruct p as [two k i c]. simpl in *.
  destruct two; destruct pc; destruct d as [[|]|[|] [|]|b];
    destruct pre; destruct ex; simpl in J7; kill; reflexivity.
Qed.

(* a preimage that reached the beacon before the expiry height is never lost,
   wherever the node was stopped: without further environment events the
   resolver claims the htlc *)
Theorem inc_preimage_wins : forall (p : iparams) h,
  i_pre (irun p h) = true -> i_exp (irun p h) = false ->
  let s' := isteps p 12 (irun p h) in
  i_disk s' = IDGone true
  /\ In (OFinal (ip_idx p) true) (i_outs s') /\ incl (claim_reps p) (i_reps s')
  /\ ~ In (OFinal (ip_idx p) false) (i_outs s').
Proof.
  intros p h Hp He s'.
  assert (Hd : i_disk s' = IDGone true).
  { subst s'. destruct (iinv_run p h) as [_ _ J3 _ J5 J6 J7].
    assert (Hne : ~ on_contest_done (i_disk (irun p h))).
    { intros H. destruct (J3 H) as [A _].
      assert (i_exp (irun p h) = true).
      { apply J6; [destruct H as [H|H]; rewrite H; reflexivity|].
        left. intros E. rewrite E in A. destruct A. }
      congruence. }
    destruct (irun p h) as [d pc pre ex o r]. destruct p as [two k i c]. simpl in *.
    subst pre ex. clear J3 J6.
    destruct two; destruct pc; destruct d as [[|]|[|] [|]|[|]];
      simpl in J7; kill;
      try (exfalso; apply Hne; unfold on_contest_done; auto; fail);
      try (exfalso; destruct (J5 _ _ eq_refl) as [S1 S2];
           try specialize (S1 eq_refl); try specialize (S2 eq_refl); congruence);
      reflexivity. }
  assert (Hreach : exists h', s' = irun p h').
  { exists (h ++ repeat IStep 12). subst s'. unfold irun. rewrite fold_left_app.
    generalize (fold_left (iev_step p) h iinit). intros s. simpl. reflexivity. }
  destruct Hreach as [h' Eh]. destruct (iinv_run p h') as [_ J2 _ J4 _ _ _].
  rewrite <- Eh in *. rewrite Hd in *.
  destruct (J4 (or_intror eq_refl)) as [A B]. destruct (J2 eq_refl) as (C & _).
  repeat split; auto. intros H. apply C in H. discriminate.
Qed.
