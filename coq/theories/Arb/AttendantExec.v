(* C12 — trace checker for the event-loop histories recorded by
   harness/contractcourt/verif_attendant_test.go on the RUNNING
   ChannelArbitrator: replays every event on AttendantModel.att_step and
   compares the six observables of ActionsExec plus the arbitrator's grace
   reference (startTimestamp) after every event. *)
From Coq Require Import List NArith ZArith Bool.
From LV Require Import Arb.ActionsModel Arb.ActionsExec Arb.AttendantModel.
Import ListNotations.
Local Open Scope N_scope.

(* event, observables, observed startTimestamp, observed clock *)
Inductive lop := LOp (ev : aev) (o : eobs) (ref now : Z).

Record lcase := mkLCase { lc_env : env; lc_sets : csets; lc_ops : list lop }.

Definition lstep (e : env) (a : att) (o : lop) : att * bool :=
  match o with
  | LOp ev ob ref now =>
    match att_step impl_fixed e a ev with
    | Some (a', ef) =>
      (a', obs_ok (at_arb a') ef ob && Z.eqb (at_start a') ref && Z.eqb (at_now a') now)
    | None => (a, false)
    end
  end.

Fixpoint lrun (e : env) (a : att) (ops : list lop) (i : N) (bad : list N) : list N :=
  match ops with
  | [] => rev bad
  | o :: r =>
    let '(a', ok) := lstep e a o in
    lrun e a' r (i + 1) (if ok then bad else i :: bad)
  end.

Definition check_lcase (c : lcase) : list N :=
  lrun (lc_env c) (att0 0 (lc_sets c)) (lc_ops c) 0 [].

Fixpoint att_mismatches (cases : list lcase) (i : N) : list (N * list N) :=
  match cases with
  | [] => []
  | c :: r =>
    match check_lcase c with
    | [] => att_mismatches r (i + 1)
    | bad => (i, bad) :: att_mismatches r (i + 1)
    end
  end.
