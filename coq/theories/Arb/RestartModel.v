(* C13 — contract resolution survives restarts.  Executable model, no proofs.

   Mirrors contractcourt/channel_arbitrator.go (Start,
   progressStateMachineAfterRestart, relaunchResolvers, advanceState,
   stateStep, handle*CloseEvent, resolveContract), briefcase.go
   (boltArbitratorLog: what each method persists) and
   chain_arbitrator.go (ResolveContract, loadOpen/PendingCloseChannels).

   - the durable state is [disk]; every kvdb transaction of the code is one
     micro step that changes [disk]; everything else of a state is volatile
     ([mem]) and is rebuilt from [disk] by [restart];
   - the arbitrator goroutine (channelAttendant) is thread [TMain], every
     resolver goroutine (resolveContract) is a thread [TRes key], the
     anchor resolver (stateless, no key) is [TAnchor], and
     ChainArbitrator.ResolveContract (MarkChanFullyClosed, Stop,
     WipeHistory) is [TFin];
   - a history is a list of events: one micro step of a thread, or a crash
     (stop at any instant: between any two micro steps, in particular
     between any two durable writes, and between an upstream message and
     the checkpoint that follows it);
   - resolvers are staged machines given by the scenario: a stage produces
     upstream outputs, then one checkpoint/swap transaction (with a
     report); after the last stage the resolver is persisted with
     resolved = true and its goroutine then deletes it (log.ResolveContract)
     and signals the arbitrator.  What chain actions / resolvers a close
     yields is an input (that classification is property C12). *)
From Coq Require Import List NArith Bool Arith.
Import ListNotations.

Inductive astate := SDefault | SBroadcast | SCB | SClosed | SWaiting | SFull.
Inductive ckind := KCoop | KLocal | KRemote | KBreach.
Inductive trig := TChain | TUser | TClose.

Inductive out :=
| OFail (i : N)                      (* ResolutionMsg with Failure *)
| OSettle (i : N)                    (* ResolutionMsg with PreImage *)
| OFinal (i : N) (settled : bool)    (* PutFinalHtlcOutcome *)
| OForceClose                        (* Channel.ForceCloseChan *)
| OPublish                           (* PublishTx(closeTx) *)
| ONotify.                           (* NotifyChannelResolved *)

(* s_rep: the reports written INSIDE the checkpoint transaction that ends the
   stage (checkpointClaim of a two-stage success writes two) *)
(* s_watch: what the resolver goroutine is parked on while the persisted
   progress is this stage (derived at run time from the reloaded resolver and
   the chain, not persisted): 0 = an output of the commitment tx, 1 = the
   output of ITS second-level tx as it is on chain (for zero-fee htlcs not the
   pre-signed outpoint), 2 = no spend notification.  No transition depends on
   it; the trace checker compares it with every real wait of the
   implementation, in particular after a reload. *)
Record stage := mkStage { s_outs : list out; s_rep : list (N * N); s_watch : N }.
Record rspec := mkSpec { r_key : N; r_stages : list stage }.

Record scen := mkScen {
  sc_kind : ckind;
  sc_userfc : bool;           (* we force close first (user trigger) *)
  sc_empty : bool;            (* resolutions and commit set empty *)
  sc_anchor : bool;           (* AnchorResolution present *)
  sc_cs_acts : bool;          (* constructChainActions(persisted commit set, chainTrigger)
                                 is non-empty (dangling htlcs: independent of the trigger) *)
  sc_fails_default : list N;  (* HtlcFailDustAction set of the StateDefault step *)
  sc_fails_closed : list N;   (* dangling / breach fail backs of StateContractClosed *)
  sc_finals_closed : list N;  (* incoming dust finalised in StateContractClosed *)
  sc_resolvers : list rspec   (* prepContractResolutions (stateful resolvers) *)
}.

Definition find_spec (sc : scen) (k : N) : option rspec :=
  find (fun r => N.eqb (r_key r) k) (sc_resolvers sc).

(* ---------------- durable state ---------------- *)
Record disk := mkDisk {
  d_state : astate;           (* CommitState *)
  d_res : bool;               (* LogContractResolutions *)
  d_cset : bool;              (* InsertConfirmedCommitSet *)
  d_bcast : bool;             (* MarkCommitmentBroadcasted *)
  d_closed : bool;            (* MarkChannelClosed (pending close + summary) *)
  d_full : bool;              (* MarkChanFullyClosed *)
  d_con : N -> option nat;    (* contracts bucket: key -> stages completed *)
  d_rep : list (N * N)        (* resolver reports *)
}.

Definition disk0 : disk :=
  mkDisk SDefault false false false false false (fun _ => None) [].

Definition set_state (d : disk) (s : astate) : disk :=
  mkDisk s (d_res d) (d_cset d) (d_bcast d) (d_closed d) (d_full d) (d_con d) (d_rep d).
Definition set_res (d : disk) : disk :=
  mkDisk (d_state d) true (d_cset d) (d_bcast d) (d_closed d) (d_full d) (d_con d) (d_rep d).
Definition set_cset (d : disk) : disk :=
  mkDisk (d_state d) (d_res d) true (d_bcast d) (d_closed d) (d_full d) (d_con d) (d_rep d).
Definition set_bcast (d : disk) : disk :=
  mkDisk (d_state d) (d_res d) (d_cset d) true (d_closed d) (d_full d) (d_con d) (d_rep d).
Definition set_closed (d : disk) : disk :=
  mkDisk (d_state d) (d_res d) (d_cset d) (d_bcast d) true (d_full d) (d_con d) (d_rep d).
Definition set_full (d : disk) : disk :=
  mkDisk (d_state d) (d_res d) (d_cset d) (d_bcast d) (d_closed d) true (d_con d) (d_rep d).
Definition set_con (d : disk) (f : N -> option nat) (rep : list (N * N)) : disk :=
  mkDisk (d_state d) (d_res d) (d_cset d) (d_bcast d) (d_closed d) (d_full d) f rep.
(* WipeHistory: the arbitrator log scope is deleted *)
Definition wipe (d : disk) : disk :=
  mkDisk SDefault false false (d_bcast d) (d_closed d) (d_full d) (fun _ => None) (d_rep d).

Definition upd {A} (f : N -> option A) (k : N) (v : option A) : N -> option A :=
  fun x => if N.eqb x k then v else f x.

(* ---------------- volatile state ---------------- *)
Inductive mpc :=
| MIdle                         (* channelAttendant select *)
| MDone                         (* attendant gone *)
| MClose (i : nat)              (* close handler: 0 LogContractResolutions,
                                   1 InsertConfirmedCommitSet, 2 MarkChannelClosed *)
| MStep (t : trig) (r : bool)   (* advanceState: about to run stateStep;
                                   r: restart run that started in Waiting *)
| MCommit (s : astate) (t : trig)  (* about to CommitState s *)
| MBcast (t : trig)             (* about to MarkCommitmentBroadcasted *)
| MPublish (t : trig)           (* about to PublishTx *)
| MInsert (t : trig).           (* about to InsertUnresolvedContracts *)

Record mem := mkMem {
  m_state : astate;                  (* c.state *)
  m_pc : mpc;
  m_res : N -> option (nat * bool);  (* live resolver goroutines: stages
                                        completed, outputs of the current
                                        stage already sent *)
  m_anchor : bool;                   (* anchor resolver goroutine alive *)
  m_sigs : nat;                      (* pending resolutionSignal sends *)
  m_userdone : bool;                 (* force close request issued *)
  m_closedeliv : bool;               (* close event consumed *)
  m_fin : option nat                 (* ChainArbitrator.ResolveContract pc *)
}.

Record st := mkSt { dk : disk; mm : mem; outs : list out }.

Definition set_pc (m : mem) (p : mpc) : mem :=
  mkMem (m_state m) p (m_res m) (m_anchor m) (m_sigs m) (m_userdone m)
        (m_closedeliv m) (m_fin m).

Definition early (s : astate) : bool :=
  match s with SDefault | SBroadcast | SCB => true | _ => false end.

Definition is_waiting (s : astate) : bool :=
  match s with SWaiting => true | _ => false end.

(* ChainArbitrator.Start + ChannelArbitrator.Start +
   progressStateMachineAfterRestart's trigger selection *)
Definition restart (d : disk) : mem :=
  if d_full d then
    mkMem (d_state d) MDone (fun _ => None) false 0 false false None
  else
    let t := if d_closed d && early (d_state d) then TClose else TChain in
    mkMem (d_state d) (MStep t (is_waiting (d_state d))) (fun _ => None)
          false 0 false false None.

Definition init : st := mkSt disk0 (restart disk0) [].

(* state a close trigger leads to (stateStep's trigger switch incl.
   checkLegacyBreach) *)
Definition close_next (sc : scen) (d : disk) : astate :=
  match sc_kind sc with
  | KCoop => SFull
  | KBreach => if d_res d then SClosed else SFull
  | _ => SClosed
  end.

Definition no_contracts (sc : scen) (d : disk) : bool :=
  forallb (fun r => match d_con d (r_key r) with None => true | Some _ => false end)
          (sc_resolvers sc).

(* relaunchResolvers + resolveContracts: a goroutine per persisted contract.
   launchResolvers skips a contract that was reloaded with resolved = true,
   but its resolveContract goroutine (since commit 2099ea4) removes it from
   the log (log.ResolveContract) and signals the arbitrator: in the model
   that is the thread state "all stages completed", whose only step is the
   delete + resolutionSignal of [res_step]. *)
Definition relaunch (sc : scen) (d : disk) : N -> option (nat * bool) :=
  fun k => match find_spec sc k, d_con d k with
           | Some r, Some p => Some (p, false)
           | _, _ => None
           end.

Definition insert_con (sc : scen) (f : N -> option nat) : N -> option nat :=
  fun k => match find_spec sc k with Some _ => Some 0 | None => f k end.

Definition insert_res (sc : scen) (f : N -> option (nat * bool)) : N -> option (nat * bool) :=
  fun k => match find_spec sc k with Some _ => Some (0, false) | None => f k end.

Definition closed_outs (sc : scen) : list out :=
  map (fun i => OFinal i false) (sc_finals_closed sc) ++ map OFail (sc_fails_closed sc).

(* one micro step of the arbitrator goroutine *)
Definition main_step (sc : scen) (s : st) : st :=
  let d := dk s in let m := mm s in
  match m_pc m with
  | MDone => s
  | MIdle =>
    if negb (d_closed d) && negb (m_closedeliv m) && (negb (sc_userfc sc) || d_bcast d) then
      (* chain watcher delivers the close event *)
      mkSt d (mkMem (m_state m)
                    (match sc_kind sc with KCoop => MClose 2 | _ => MClose 0 end)
                    (m_res m) (m_anchor m) (m_sigs m) (m_userdone m) true (m_fin m))
           (outs s)
    else if sc_userfc sc && negb (m_userdone m) && negb (d_closed d) then
      (* forceCloseReqs *)
      mkSt d (mkMem (m_state m)
                    (match m_state m with SDefault => MStep TUser false | _ => MIdle end)
                    (m_res m) (m_anchor m) (m_sigs m) true (m_closedeliv m) (m_fin m))
           (outs s)
    else match m_sigs m with
         | S n => mkSt d (mkMem (m_state m) (MStep TChain false) (m_res m) (m_anchor m) n
                                (m_userdone m) (m_closedeliv m) (m_fin m)) (outs s)
         | O => s
         end
  | MClose 0 => mkSt (set_res d) (set_pc m (MClose 1)) (outs s)
  | MClose 1 => mkSt (set_cset d) (set_pc m (MClose 2)) (outs s)
  | MClose _ => mkSt (set_closed d) (set_pc m (MStep TClose false)) (outs s)
  | MCommit a t =>
    mkSt (set_state d a)
         (mkMem a (MStep t false) (m_res m) (m_anchor m) (m_sigs m) (m_userdone m)
                (m_closedeliv m) (m_fin m))
         (outs s)
  | MBcast t => mkSt (set_bcast d) (set_pc m (MPublish t)) (outs s)
  | MPublish t => mkSt d (set_pc m (MCommit SCB t)) (outs s ++ [OPublish])
  | MInsert t =>
    mkSt (set_con d (insert_con sc (d_con d)) (d_rep d))
         (mkMem (m_state m) (MCommit SWaiting t) (insert_res sc (m_res m)) (sc_anchor sc)
                (m_sigs m) (m_userdone m) (m_closedeliv m) (m_fin m))
         (outs s)
  | MStep t r =>
    match m_state m with
    | SDefault =>
      match t with
      | TChain =>
        (* restart with the confirmed commit set already persisted but the
           channel not yet marked closed: the chain trigger sees the
           dangling actions and decides to go on chain itself *)
        if d_cset d && sc_cs_acts sc
        then mkSt d (set_pc m (MCommit SBroadcast t)) (outs s)
        else mkSt d (set_pc m MIdle) (outs s)
      | TUser => mkSt d (set_pc m (MCommit SBroadcast t))
                      (outs s ++ map OFail (sc_fails_default sc))
      | TClose => mkSt d (set_pc m (MCommit (close_next sc d) t))
                       (outs s ++ map OFail (sc_fails_default sc))
      end
    | SBroadcast =>
      match t with
      | TClose => mkSt d (set_pc m (MCommit (close_next sc d) t)) (outs s)
      | _ => mkSt d (set_pc m (MBcast t)) (outs s ++ [OForceClose])
      end
    | SCB =>
      match t with
      | TClose => mkSt d (set_pc m (MCommit (close_next sc d) t)) (outs s)
      | _ => mkSt d (set_pc m MIdle) (outs s)
      end
    | SClosed =>
      if negb (d_res d) then mkSt d (set_pc m MIdle) (outs s)
      else if sc_empty sc then mkSt d (set_pc m (MCommit SFull t)) (outs s)
      else mkSt d (set_pc m (MInsert t)) (outs s ++ closed_outs sc)
    | SWaiting =>
      if no_contracts sc d then mkSt d (set_pc m (MCommit SFull t)) (outs s)
      else if r then
        mkSt d (mkMem (m_state m) MIdle (relaunch sc d) (sc_anchor sc) (m_sigs m)
                      (m_userdone m) (m_closedeliv m) (m_fin m)) (outs s)
      else mkSt d (set_pc m MIdle) (outs s)
    | SFull =>
      mkSt d (mkMem (m_state m) MDone (m_res m) (m_anchor m) (m_sigs m) (m_userdone m)
                    (m_closedeliv m)
                    (match m_fin m with None => Some 0 | x => x end))
           (outs s ++ [ONotify])
    end
  end.

Definition add_rep (l : list (N * N)) (o : list (N * N)) : list (N * N) := l ++ o.

(* one micro step of the resolver goroutine of key k *)
Definition res_step (sc : scen) (s : st) (k : N) : st :=
  let d := dk s in let m := mm s in
  match m_res m k, find_spec sc k with
  | Some (p, e), Some r =>
    match nth_error (r_stages r) p with
    | Some stg =>
      if e then
        (* Checkpoint / SwapContract (+ report) ending stage p *)
        mkSt (set_con d (upd (d_con d) k (Some (S p))) (add_rep (d_rep d) (s_rep stg)))
             (mkMem (m_state m) (m_pc m) (upd (m_res m) k (Some (S p, false))) (m_anchor m)
                    (m_sigs m) (m_userdone m) (m_closedeliv m) (m_fin m))
             (outs s)
      else
        mkSt d (mkMem (m_state m) (m_pc m) (upd (m_res m) k (Some (p, true))) (m_anchor m)
                      (m_sigs m) (m_userdone m) (m_closedeliv m) (m_fin m))
             (outs s ++ s_outs stg)
    | None =>
      (* resolved: log.ResolveContract deletes it, resolutionSignal *)
      mkSt (set_con d (upd (d_con d) k None) (d_rep d))
           (mkMem (m_state m) (m_pc m) (upd (m_res m) k None) (m_anchor m)
                  (S (m_sigs m)) (m_userdone m) (m_closedeliv m) (m_fin m))
           (outs s)
    end
  | _, _ => s
  end.

Definition anchor_step (s : st) : st :=
  let m := mm s in
  if m_anchor m then
    mkSt (dk s) (mkMem (m_state m) (m_pc m) (m_res m) false (S (m_sigs m)) (m_userdone m)
                       (m_closedeliv m) (m_fin m)) (outs s)
  else s.

(* ChainArbitrator.ResolveContract *)
Definition fin_step (s : st) : st :=
  let d := dk s in let m := mm s in
  match m_fin m with
  | Some 0 =>
    mkSt (set_full d)
         (mkMem (m_state m) MDone (fun _ => None) false (m_sigs m) (m_userdone m)
                (m_closedeliv m) (Some 1))
         (outs s)
  | Some 1 =>
    mkSt (wipe d)
         (mkMem (m_state m) MDone (fun _ => None) false (m_sigs m) (m_userdone m)
                (m_closedeliv m) None)
         (outs s)
  | _ => s
  end.

Inductive tid := TMain | TRes (k : N) | TAnchor | TFin.
Inductive ev := EStep (t : tid) | ECrash.

Definition tstep (sc : scen) (s : st) (t : tid) : st :=
  match t with
  | TMain => main_step sc s
  | TRes k => res_step sc s k
  | TAnchor => anchor_step s
  | TFin => fin_step s
  end.

Definition step (sc : scen) (s : st) (e : ev) : st :=
  match e with
  | EStep t => tstep sc s t
  | ECrash => mkSt (dk s) (restart (dk s)) (outs s)
  end.

Definition run (sc : scen) (h : list ev) : st := fold_left (step sc) h init.

(* ---------------- outcome ---------------- *)
Definition resolver_outs (sc : scen) : list out :=
  flat_map (fun r => flat_map s_outs (r_stages r)) (sc_resolvers sc).

Definition resolver_reps (sc : scen) : list (N * N) :=
  flat_map (fun r => flat_map s_rep (r_stages r)) (sc_resolvers sc).

(* upstream resolutions, final outcomes and the resolved notification of
   the uninterrupted run *)
Definition expected_outs (sc : scen) : list out :=
  map OFail (sc_fails_default sc) ++ closed_outs sc ++ resolver_outs sc ++ [ONotify].

Definition is_tx_out (o : out) : bool :=
  match o with OForceClose | OPublish => true | _ => false end.

(* the channel has been marked fully resolved *)
Definition terminal (s : st) : bool := d_full (dk s).

(* scenario well-formedness: what the code guarantees about its inputs *)
Fixpoint keys_nodup (l : list rspec) : bool :=
  match l with
  | [] => true
  | r :: t => negb (existsb (fun x => N.eqb (r_key x) (r_key r)) t) && keys_nodup t
  end.

Definition wf_scen (sc : scen) : bool :=
  keys_nodup (sc_resolvers sc)
  && forallb (fun r => negb (Nat.eqb (length (r_stages r)) 0)) (sc_resolvers sc)
  && (if sc_empty sc || match sc_kind sc with KCoop => true | _ => false end
      then match sc_resolvers sc, sc_fails_closed sc, sc_finals_closed sc with
           | [], [], [] => negb (sc_anchor sc)
           | _, _, _ => false
           end
      else true)
  && match sc_kind sc with KLocal => sc_userfc sc | KCoop => negb (sc_userfc sc) | _ => true end.
