(* C13 trace checker: the sequence of database contents observed on the real
   ChannelArbitrator / boltArbitratorLog (one snapshot per committed kvdb
   transaction, crash markers in between) must be a path of the model, the
   final database must agree, and the cumulative set of upstream outputs
   must be the one the model produced. *)
From Coq Require Import List NArith Bool Arith.
From LV Require Import Arb.RestartModel Arb.RestartIncModel.
Import ListNotations.

Definition astate_code (s : astate) : N :=
  match s with
  | SDefault => 0 | SBroadcast => 1 | SCB => 2 | SClosed => 3 | SWaiting => 4 | SFull => 5
  end%N.

Record osnap := mkSnap {
  o_state : N; o_res : bool; o_cset : bool; o_bcast : bool; o_closed : bool; o_full : bool;
  o_con : list (N * nat);     (* key, stages completed *)
  o_rep : list (N * N)
}.

Inductive item := ISnap (o : osnap) | ICrash.

Record case := mkCase {
  c_scen : scen;
  c_items : list item;
  c_end : osnap;
  c_outs : list out;
  (* resolvers of received htlcs: the scenario's script for that key must be
     RestartIncModel.inc_script of these parameters / this branch *)
  c_inc : list (iparams * bool);
  (* real waits of the implementation: (resolver key, persisted progress of
     its contract when the goroutine parked, level of the outpoint it parked
     on: 0 / 1 as s_watch, 8 = exists but other script, 9 = not on chain) *)
  c_watch : list (N * nat * N)
}.

Definition out_eqb (a b : out) : bool :=
  match a, b with
  | OFail i, OFail j => N.eqb i j
  | OSettle i, OSettle j => N.eqb i j
  | OFinal i x, OFinal j y => N.eqb i j && Bool.eqb x y
  | OForceClose, OForceClose => true
  | OPublish, OPublish => true
  | ONotify, ONotify => true
  | _, _ => false
  end.

Definition pair_eqb (a b : N * N) : bool := N.eqb (fst a) (fst b) && N.eqb (snd a) (snd b).

Fixpoint list_eqb {A} (eqb : A -> A -> bool) (l1 l2 : list A) : bool :=
  match l1, l2 with
  | [], [] => true
  | a :: r1, b :: r2 => eqb a b && list_eqb eqb r1 r2
  | _, _ => false
  end.

Definition stage_eqb (a b : stage) : bool :=
  list_eqb out_eqb (s_outs a) (s_outs b) && list_eqb pair_eqb (s_rep a) (s_rep b)
  && N.eqb (s_watch a) (s_watch b).

Definition watch_ok (sc : scen) (x : N * nat * N) : bool :=
  match find_spec sc (fst (fst x)) with
  | Some r => match nth_error (r_stages r) (snd (fst x)) with
              | Some g => N.eqb (s_watch g) (snd x)
              | None => false
              end
  | None => false
  end.

Definition inc_ok (sc : scen) (x : iparams * bool) : bool :=
  match find_spec sc (ip_key (fst x)) with
  | Some r => list_eqb stage_eqb (r_stages r) (inc_script (fst x) (snd x))
  | None => false
  end.

Definition subset {A} (eqb : A -> A -> bool) (l1 l2 : list A) : bool :=
  forallb (fun x => existsb (eqb x) l2) l1.

Definition seteq {A} (eqb : A -> A -> bool) (l1 l2 : list A) : bool :=
  subset eqb l1 l2 && subset eqb l2 l1.

Fixpoint lookup (k : N) (l : list (N * nat)) : option nat :=
  match l with
  | [] => None
  | (x, v) :: t => if N.eqb x k then Some v else lookup k t
  end.

Definition optnat_eqb (a b : option nat) : bool :=
  match a, b with
  | None, None => true
  | Some x, Some y => Nat.eqb x y
  | _, _ => false
  end.

Definition disk_matches (sc : scen) (d : disk) (o : osnap) : bool :=
  N.eqb (astate_code (d_state d)) (o_state o)
  && Bool.eqb (d_res d) (o_res o) && Bool.eqb (d_cset d) (o_cset o)
  && Bool.eqb (d_bcast d) (o_bcast o) && Bool.eqb (d_closed d) (o_closed o)
  && Bool.eqb (d_full d) (o_full o)
  && forallb (fun r => optnat_eqb (d_con d (r_key r)) (lookup (r_key r) (o_con o)))
             (sc_resolvers sc)
  && forallb (fun kv => match find_spec sc (fst kv) with Some _ => true | None => false end)
             (o_con o)
  && seteq pair_eqb (d_rep d) (o_rep o).

Definition snap_of (sc : scen) (d : disk) : osnap :=
  mkSnap (astate_code (d_state d)) (d_res d) (d_cset d) (d_bcast d) (d_closed d) (d_full d)
         (flat_map (fun r => match d_con d (r_key r) with Some p => [(r_key r, p)] | None => [] end)
                   (sc_resolvers sc))
         (d_rep d).

(* run thread t until its next transaction that changes the database *)
Fixpoint thread_run (sc : scen) (fuel : nat) (s : st) (t : tid) : st :=
  match fuel with
  | O => s
  | S f =>
    let s' := tstep sc s t in
    if disk_matches sc (dk s') (snap_of sc (dk s)) then thread_run sc f s' t else s'
  end.

Definition threads (sc : scen) : list tid :=
  TMain :: TFin :: TAnchor :: map (fun r => TRes (r_key r)) (sc_resolvers sc).

(* the volatile prefix of thread t: its micro steps up to (excluding) its
   next transaction that changes the database *)
Fixpoint vol_run (sc : scen) (fuel : nat) (s : st) (t : tid) : st :=
  match fuel with
  | O => s
  | S f =>
    let s' := tstep sc s t in
    if disk_matches sc (dk s') (snap_of sc (dk s)) then vol_run sc f s' t else s
  end.

Fixpoint try_threads (sc : scen) (s : st) (o : osnap) (ts : list tid) : option st :=
  match ts with
  | [] => None
  | t :: r =>
    let s' := thread_run sc 10 s t in
    if disk_matches sc (dk s') o then Some s'
    else try_threads sc (vol_run sc 10 s t) o r   (* keep its volatile progress *)
  end.

(* an unchanged snapshot is a transaction without effect on the abstract
   content (ResolveContract of the key-less anchor resolver, an insert or
   a re-logged resolution that rewrites what is there) *)
Definition consume (sc : scen) (s : st) (it : item) : option st :=
  match it with
  | ICrash => Some (step sc s ECrash)
  | ISnap o =>
    if disk_matches sc (dk s) o then Some s
    else try_threads sc s o (threads sc ++ threads sc)
  end.

(* after the last observed transaction: let every thread run on; the model
   must not change the database any more *)
Fixpoint settle (sc : scen) (fuel : nat) (s : st) : st :=
  match fuel with
  | O => s
  | S f => settle sc f (fold_left (fun x t => tstep sc x t) (threads sc) s)
  end.

Fixpoint replay (sc : scen) (s : st) (its : list item) (i : N) : st * list N :=
  match its with
  | [] => (s, [])
  | it :: r =>
    match consume sc s it with
    | Some s' => replay sc s' r (i + 1)
    | None => (s, [i])
    end
  end.

Definition visible (o : out) : bool := true.

Definition check_case (c : case) : list N :=
  let sc := c_scen c in
  match replay sc init (c_items c) 0 with
  | (s, []) =>
    let s' := settle sc 40 s in
    (if disk_matches sc (dk s') (c_end c) then [] else [9000%N])
    ++ (if seteq out_eqb (outs s') (c_outs c) then [] else [9001%N])
    ++ (if wf_scen sc then [] else [9002%N])
    ++ (if forallb (inc_ok sc) (c_inc c) then [] else [9003%N])
    ++ (if forallb (watch_ok sc) (c_watch c) then [] else [9004%N])
  | (_, bad) => bad
  end.

Fixpoint mismatches (cases : list case) (i : N) : list (N * list N) :=
  match cases with
  | [] => []
  | c :: r =>
    match check_case c with
    | [] => mismatches r (i + 1)
    | bad => (i, bad) :: mismatches r (i + 1)
    end
  end.

(* canonical crash-free completion, used by examples and the failing-input
   search *)
Definition complete (sc : scen) (s : st) : st := settle sc 60 s.
