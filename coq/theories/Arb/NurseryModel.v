(* C13, stage "nursery": the utxo nursery's store (contractcourt/nursery_store.go)
   as height-indexed buckets, and the nursery's block-driven graduation
   (contractcourt/utxonursery.go).  Executable definitions only.

   Store: per channel a set of (output, state) entries (state = key prefix
   crib / pscl / kndr / grad) and a height index of (height, state, output)
   entries.  One function per store transaction, mirroring what the code
   writes, including its quirks:
   - Incubate ignores an output only if an entry with the SAME prefix exists;
   - CribToKinder files the kindergarten entry under confHeight + csv with NO
     late registration (enterCrib: "TODO: Handle late registration");
   - PreschoolToKinder: maturity = absolute maturity if csv = 0 else
     confHeight + csv; if maturity <= lastGradHeight it is filed under
     lastGradHeight + 1;
   - GraduateKinder is a no-op if the height bucket does not exist;
   - RemoveChannel fails (no commit) unless every entry is grad. *)
From Coq Require Import List NArith Bool.
Import ListNotations.

Inductive ostate := OCrib | OPscl | OKndr | OGrad.

Definition ostate_eqb (a b : ostate) : bool :=
  match a, b with
  | OCrib, OCrib | OPscl, OPscl | OKndr, OKndr | OGrad, OGrad => true
  | _, _ => false
  end.

Record nstore := mkNStore {
  n_outs : list (N * ostate);          (* channel bucket: output id, state *)
  n_idx : list (N * ostate * N);       (* height index: height, state, output id *)
  n_chan : bool                        (* channel bucket exists *)
}.

Definition nstore0 : nstore := mkNStore [] [] false.

Definition ent_eqb (a b : N * ostate) : bool :=
  N.eqb (fst a) (fst b) && ostate_eqb (snd a) (snd b).
Definition idx_eqb (a b : N * ostate * N) : bool :=
  N.eqb (fst (fst a)) (fst (fst b)) && ostate_eqb (snd (fst a)) (snd (fst b))
  && N.eqb (snd a) (snd b).

Definition has_ent (s : nstore) (e : N * ostate) : bool := existsb (ent_eqb e) (n_outs s).
Definition add_ent (l : list (N * ostate)) (e : N * ostate) :=
  if existsb (ent_eqb e) l then l else l ++ [e].
Definition del_ent (l : list (N * ostate)) (e : N * ostate) :=
  filter (fun x => negb (ent_eqb e x)) l.
Definition add_idx (l : list (N * ostate * N)) (e : N * ostate * N) :=
  if existsb (idx_eqb e) l then l else l ++ [e].
Definition del_idx (l : list (N * ostate * N)) (e : N * ostate * N) :=
  filter (fun x => negb (idx_eqb e x)) l.
Definition height_exists (s : nstore) (h : N) : bool :=
  existsb (fun x => N.eqb (fst (fst x)) h) (n_idx s).

Inductive nop :=
| NIncKid (id : N)                                   (* enterPreschool *)
| NIncBaby (id expiry : N)                           (* enterCrib *)
| NCribToKinder (id expiry conf csv : N)
| NPsclToKinder (id absmat conf csv last : N)
| NGraduate (id height : N)
| NRemove.

(* the height class PreschoolToKinder files an output under *)
Definition pscl_class (absmat conf csv last : N) : N :=
  let m := if N.eqb csv 0 then absmat else (conf + csv)%N in
  if N.leb m last then (last + 1)%N else m.

(* the height class CribToKinder files an output under: no late registration *)
Definition crib_class (conf csv : N) : N := (conf + csv)%N.

Definition napply (s : nstore) (o : nop) : nstore :=
  match o with
  | NIncKid id =>
    if has_ent s (id, OPscl) then mkNStore (n_outs s) (n_idx s) true
    else mkNStore (n_outs s ++ [(id, OPscl)]) (n_idx s) true
  | NIncBaby id e =>
    if has_ent s (id, OCrib) then mkNStore (n_outs s) (n_idx s) true
    else mkNStore (n_outs s ++ [(id, OCrib)]) (add_idx (n_idx s) (e, OCrib, id)) true
  | NCribToKinder id e conf csv =>
    mkNStore (add_ent (del_ent (n_outs s) (id, OCrib)) (id, OKndr))
             (add_idx (del_idx (n_idx s) (e, OCrib, id)) (crib_class conf csv, OKndr, id))
             true
  | NPsclToKinder id a conf csv last =>
    mkNStore (add_ent (del_ent (n_outs s) (id, OPscl)) (id, OKndr))
             (add_idx (n_idx s) (pscl_class a conf csv last, OKndr, id))
             true
  | NGraduate id h =>
    if height_exists s h then
      mkNStore (add_ent (del_ent (n_outs s) (id, OKndr)) (id, OGrad))
               (del_idx (n_idx s) (h, OKndr, id)) (n_chan s)
    else s
  | NRemove =>
    if forallb (fun x => ostate_eqb (snd x) OGrad) (n_outs s)
    then mkNStore [] (n_idx s) false else s
  end.

(* ---------------- the nursery on top of the store ----------------
   [best] is UtxoNursery.bestHeight (= lastGradHeight passed to
   PreschoolToKinder); a block epoch at height h sets best := h and offers
   every kindergarten entry of class h to the sweeper (graduateClass); a
   restart at chain tip t sets best := t and offers every kindergarten entry
   of a class <= t (reloadClasses). *)
Record nurs := mkNurs { u_store : nstore; u_best : N; u_offered : list N }.

Definition class_kids (s : nstore) (p : N -> bool) : list N :=
  map snd (filter (fun x => ostate_eqb (snd (fst x)) OKndr && p (fst (fst x))) (n_idx s)).

Inductive nev :=
| EBlock (h : N)                        (* block epoch *)
| ERestart (tip : N)                    (* stop + Start at chain tip *)
| EPsclConf (id absmat conf csv : N)    (* confirmation -> PreschoolToKinder *)
| ECribConf (id expiry conf csv : N).   (* confirmation -> CribToKinder *)

Definition nstep (u : nurs) (e : nev) : nurs :=
  match e with
  | EBlock h =>
    mkNurs (u_store u) h (u_offered u ++ class_kids (u_store u) (N.eqb h))
  | ERestart t =>
    mkNurs (u_store u) t (u_offered u ++ class_kids (u_store u) (fun c => N.leb c t))
  | EPsclConf id a conf csv =>
    mkNurs (napply (u_store u) (NPsclToKinder id a conf csv (u_best u))) (u_best u) (u_offered u)
  | ECribConf id e conf csv =>
    mkNurs (napply (u_store u) (NCribToKinder id e conf csv)) (u_best u) (u_offered u)
  end.

Definition nrun (u : nurs) (h : list nev) : nurs := fold_left nstep h u.
