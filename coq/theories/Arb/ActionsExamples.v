(* C12 — non-vacuity: the hypotheses of the property theorems are satisfied
   by a concrete, non-trivial channel (six HTLCs over three commitments). *)
From Coq Require Import List NArith ZArith Bool Lia.
From LV Require Import Arb.ActionsModel Arb.ActionsProofs.
Import ListNotations.
Local Open Scope N_scope.

Definition x_env : env :=
  mkEnv 10 10 (fun i => N.eqb i 1) 0 14400 (fun h => N.eqb h 4).

(* idx 1: offered, forwarded, output everywhere
   idx 2: offered, dust everywhere
   idx 3: received dust;  idx 4: received, preimage known
   idx 5: offered, on the peer's commitments only (not yet on ours)
   idx 6: offered, dust, on the peer's pending commitment only *)
Definition x_local : list htlc :=
  [mkHtlc 1 false 0 500 1; mkHtlc 2 false (-1) 600 2;
   mkHtlc 3 true (-1) 700 3; mkHtlc 4 true 1 800 4].
Definition x_remote : list htlc :=
  [mkHtlc 1 false 20 500 1; mkHtlc 2 false (-1) 600 2;
   mkHtlc 3 true (-1) 700 3; mkHtlc 4 true 21 800 4; mkHtlc 5 false 22 900 5].
Definition x_pending : list htlc :=
  x_remote ++ [mkHtlc 6 false (-1) 950 6].
Definition x_sets : csets := mkSets x_local x_remote x_pending.
Definition x_res : resolutions := mkRes false true true [21%Z] [20%Z; 22%Z].

Ltac nodup_n :=
  repeat (apply NoDup_cons;
          [cbn; intuition discriminate|]);
  apply NoDup_nil.

Example x_wf : wf x_sets.
Proof. unfold wf. cbn. repeat split; nodup_n. Qed.

Example x_shape : local_sub_conf KRemote x_sets.
Proof.
  intros l I. cbn in I. cbn.
  destruct I as [<-|[<-|[]]]; cbn; tauto.
Qed.

Example x_res_complete : res_complete x_res (conf_of KRemote x_sets).
Proof.
  intros h I D. cbn in I.
  repeat (destruct I as [<-|I]; [cbn in D; first [discriminate D | reflexivity]|]). destruct I.
Qed.

Example x_due : due x_env (mkHtlc 1 false 0 500 1) 490.
Proof. unfold due. cbn. repeat split; try lia; try (now left). Qed.

Example x_due_received : due x_env (mkHtlc 4 true 1 800 4) 790.
Proof. unfold due. cbn. repeat split; try lia; try reflexivity. Qed.

Example x_must_fail_dust : must_fail x_env CRemote x_sets 2.
Proof. left. exists (mkHtlc 2 false (-1) 600 2). cbn. tauto. Qed.

Example x_must_fail_dangling : must_fail x_env CRemote x_sets 6.
Proof.
  right. split; [cbn; tauto|]. split.
  - cbn. intuition discriminate.
  - intros h I E. cbn in I.
    repeat (destruct I as [<-|I]; [cbn in E; first [discriminate E | reflexivity]|]). destruct I.
Qed.

(* the trigger hypothesis of the broadcast-path theorems is satisfiable, for
   both variants, by a block (cut-off of idx 1 = 490) and by a user request *)
Example x_trigger_block :
  match trigger_step false x_env false 490 x_sets with
  | Some (a1, ef1) => f_force ef1 = 1 /\ f_fail ef1 = [2]
  | None => False
  end.
Proof. vm_compute. split; reflexivity. Qed.

Example x_trigger_user_fixed :
  match trigger_step true x_env true 100 x_sets with
  | Some (a1, ef1) => f_force ef1 = 1
  | None => False
  end.
Proof. vm_compute. reflexivity. Qed.

(* one block earlier nothing happens *)
Example x_not_yet :
  on_block false x_env arb0 489 x_sets = Some (arb0, no_eff).
Proof. vm_compute. reflexivity. Qed.

(* the whole run on the example: block 490 broadcasts and fails dust 2; the
   peer's commitment confirms: contest/timeout resolvers for 1 and 5, incoming
   contest for 4, received dust 3 closed out, nothing for pending-only dust 6
   (the refuted conjunct) *)
Example x_run :
  match trigger_step false x_env false 490 x_sets with
  | Some (a1, ef1) =>
    match on_close false x_env a1 KRemote 495 x_sets x_res x_sets with
    | Some (a2, ef2) =>
      f_fail ef2 = [] /\ f_final ef2 = [3] /\
      f_resolvers ef2 = [(RAnchor, 0); (RTimeout, 1); (RInContest, 4); (ROutContest, 5);
                         (RCommit, 0)]
    | None => False
    end
  | None => False
  end.
Proof. vm_compute. repeat split. Qed.

(* with the candidate fix the same run fails 6 back *)
Example x_run_fixed :
  match trigger_step true x_env false 490 x_sets with
  | Some (a1, ef1) =>
    match on_close true x_env a1 KRemote 495 x_sets x_res x_sets with
    | Some (a2, ef2) => f_fail ef1 = [2] /\ f_fail ef2 = [6]
    | None => False
    end
  | None => False
  end.
Proof. vm_compute. repeat split. Qed.
