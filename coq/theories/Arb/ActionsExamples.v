From LV Require Import Arb.ActionsModel.
