(* C13 — received (incoming) htlcs: the htlcIncomingContestResolver /
   htlcSuccessResolver pair as ONE machine whose branch (claim with the
   preimage / give up at expiry) is decided by the environment during the
   history.  Executable definitions only.

   Mirrors contractcourt/htlc_incoming_contest_resolver.go (Resolve: expiry
   check FIRST, then the preimage lookup / subscription; processFinalHtlcFail
   = PutFinalHtlcOutcome(false) BEFORE Checkpoint(resolved, Timeout report);
   on a preimage: applyPreimage in memory, Resolve returns the inner success
   resolver and ChannelArbitrator.resolveContract SwapContract's it into the
   log -- the preimage is persisted inside the success resolver),
   htlc_success_resolver.go (remote commitment: wait for the direct preimage
   spend -> checkpointClaim = PutFinalHtlcOutcome(true) BEFORE
   Checkpoint(resolved, Claimed); our commitment: second-level success tx
   confirmed -> Checkpoint(outputIncubating) -> its output swept ->
   checkpointClaim with Claimed + FirstStage reports) and
   channel_arbitrator.go:resolveContract (resolved contract, also one reloaded
   as resolved after a restart: log.ResolveContract deletes it).

   lnd creates an incoming CONTEST resolver for every received non-dust htlc
   (HtlcClaimAction is never produced): a preimage known at the close is just
   an [IPre] event before the first step.  Nothing is ever sent to the switch
   for a received htlc: its observable outputs are the final htlc outcome and
   the resolver reports.

   The environment is monotone and durable: once the witness beacon knows the
   preimage it knows it after every restart ([i_pre]); the chain height never
   decreases ([i_exp]: height >= expiry).  Both events may happen at ANY
   point of a history, in any order, like the stops.

   [inc_script] is the staged script (RestartModel.stage) that the whole-
   channel model uses for such a resolver once the branch is fixed;
   RestartIncProofs shows that this machine is, at every instant of every
   history, in a state of that staged resolver. *)
From Coq Require Import List NArith Bool Arith.
From LV Require Import Arb.RestartModel.
Import ListNotations.

Record iparams := mkIP {
  ip_two : bool;     (* htlc is on OUR commitment: two-stage claim *)
  ip_key : N;        (* resolver key = output index of the htlc *)
  ip_idx : N;        (* htlc index *)
  ip_claim : N       (* output index of htlcResolution.ClaimOutpoint
                        (= ip_key on the remote commitment) *)
}.

(* persisted contract; [IDGone b] is the deleted contract, b is a ghost that
   remembers which resolver type was deleted (no behaviour depends on it) *)
Inductive idisk :=
| IDContest (res : bool)          (* incoming contest resolver, resolved flag *)
| IDSuccess (inc res : bool)      (* success resolver (holds the preimage):
                                     outputIncubating, resolved *)
| IDGone (claimed : bool).

Inductive ipc :=
| PLoop          (* resolveContract loop head: Resolve() of what is loaded *)
| PExpFinal      (* contest: height >= expiry seen; PutFinalHtlcOutcome(false) next *)
| PExpCkpt       (* Checkpoint(resolved) + Timeout report next *)
| PSwap          (* preimage applied in memory; SwapContract next *)
| PIncCkpt       (* second-level success tx confirmed; Checkpoint(incubating) next *)
| PClaimFinal    (* our spend confirmed; PutFinalHtlcOutcome(true) next *)
| PClaimCkpt     (* Checkpoint(resolved) + Claimed (+ FirstStage) reports next *)
| PDelete        (* log.ResolveContract next *)
| PDone.

Record ist := mkISt {
  i_disk : idisk;
  i_pc : ipc;
  i_pre : bool;               (* witness beacon knows the preimage *)
  i_exp : bool;               (* chain height >= htlc expiry *)
  i_outs : list out;          (* PutFinalHtlcOutcome calls (durable) *)
  i_reps : list (N * N)       (* resolver reports (durable) *)
}.

Definition claim_reps (p : iparams) : list (N * N) :=
  if ip_two p then [(ip_claim p, 0%N); (ip_key p, 4%N)] else [(ip_key p, 0%N)].
Definition exp_reps (p : iparams) : list (N * N) := [(ip_claim p, 3%N)].

Definition iinit : ist := mkISt (IDContest false) PLoop false false [] [].

Definition set_ipc (s : ist) (c : ipc) : ist :=
  mkISt (i_disk s) c (i_pre s) (i_exp s) (i_outs s) (i_reps s).

(* one micro step of the resolver goroutine *)
Definition istep (p : iparams) (s : ist) : ist :=
  match i_pc s with
  | PLoop =>
    match i_disk s with
    | IDContest false =>
      if i_exp s then set_ipc s PExpFinal          (* expiry is checked first *)
      else if i_pre s then set_ipc s PSwap         (* LookupPreimage / subscription *)
      else s                                       (* wait *)
    | IDContest true => set_ipc s PDelete
    | IDSuccess _ true => set_ipc s PDelete
    | IDSuccess false false =>
      if ip_two p then set_ipc s PIncCkpt else set_ipc s PClaimFinal
    | IDSuccess true false => set_ipc s PClaimFinal
    | IDGone _ => set_ipc s PDone
    end
  | PExpFinal =>
    mkISt (i_disk s) PExpCkpt (i_pre s) (i_exp s)
          (i_outs s ++ [OFinal (ip_idx p) false]) (i_reps s)
  | PExpCkpt =>
    mkISt (IDContest true) PDelete (i_pre s) (i_exp s) (i_outs s) (i_reps s ++ exp_reps p)
  | PSwap =>
    mkISt (IDSuccess false false) PLoop (i_pre s) (i_exp s) (i_outs s) (i_reps s)
  | PIncCkpt =>
    mkISt (IDSuccess true false) PLoop (i_pre s) (i_exp s) (i_outs s) (i_reps s)
  | PClaimFinal =>
    mkISt (i_disk s) PClaimCkpt (i_pre s) (i_exp s)
          (i_outs s ++ [OFinal (ip_idx p) true]) (i_reps s)
  | PClaimCkpt =>
    mkISt (match i_disk s with IDSuccess inc _ => IDSuccess inc true | d => d end)
          PDelete (i_pre s) (i_exp s) (i_outs s) (i_reps s ++ claim_reps p)
  | PDelete =>
    mkISt (match i_disk s with IDSuccess _ _ => IDGone true | _ => IDGone false end)
          PDone (i_pre s) (i_exp s) (i_outs s) (i_reps s)
  | PDone => s
  end.

Inductive iev := IStep | ICrashE | IPre | IExp.

Definition iev_step (p : iparams) (s : ist) (e : iev) : ist :=
  match e with
  | IStep => istep p s
  | ICrashE => set_ipc s PLoop     (* restart: relaunchResolvers reloads from disk *)
  | IPre => mkISt (i_disk s) (i_pc s) true (i_exp s) (i_outs s) (i_reps s)
  | IExp => mkISt (i_disk s) (i_pc s) (i_pre s) true (i_outs s) (i_reps s)
  end.

Definition irun (p : iparams) (h : list iev) : ist := fold_left (iev_step p) h iinit.

(* ---- the staged scripts of the whole-channel model ---- *)
Definition inc_script (p : iparams) (claim : bool) : list stage :=
  if claim then
    mkStage [] [] 2 ::                                      (* SwapContract *)
    (if ip_two p then [mkStage [] [] 0] else []) ++         (* Checkpoint(incubating) *)
    [mkStage [OFinal (ip_idx p) true] (claim_reps p)
             (if ip_two p then 1 else 0)]                   (* checkpointClaim *)
  else
    [mkStage [OFinal (ip_idx p) false] (exp_reps p) 2].     (* expiry *)

Definition inc_spec (p : iparams) (claim : bool) : rspec :=
  mkSpec (ip_key p) (inc_script p claim).

(* which script a persisted state belongs to *)
Definition chosen (d : idisk) : bool :=
  match d with IDSuccess _ _ | IDGone true => true | _ => false end.

(* persisted progress = stages completed (RestartModel.d_con) *)
Definition iprog (p : iparams) (d : idisk) : option nat :=
  match d with
  | IDContest false => Some 0
  | IDContest true => Some 1
  | IDSuccess false false => Some 1
  | IDSuccess true false => Some 2
  | IDSuccess _ true => Some (if ip_two p then 3 else 2)
  | IDGone _ => None
  end.

Definition claimed_rep (x : N * N) : bool := N.eqb (snd x) 0 || N.eqb (snd x) 4.
Definition timeout_rep (x : N * N) : bool := N.eqb (snd x) 3.

Fixpoint isteps (p : iparams) (n : nat) (s : ist) : ist :=
  match n with O => s | S m => isteps p m (istep p s) end.

(* the contract has been deleted from the log *)
Definition gone (s : ist) : bool := match i_disk s with IDGone _ => true | _ => false end.
