(* C12b — the shape hypotheses of the C12 classification theorems, DERIVED from
   the channel state machine (Channel/Model.v, C01).

   The ChannelArbitrator of party p sees three HTLC sets (chain_watcher.go,
   CommitSet): Local = LocalCommitment.Htlcs (the revoked-into local tail),
   Remote = RemoteCommitment.Htlcs (the acked remote tail), RemotePending = the
   HTLCs of the signed-but-not-yet-revoked remote commitment, if any.
   [sets_of s p] projects a state of the two-party channel model on these
   three sets; [C12_shape_reachable] proves that for EVERY reachable state and
   either party they satisfy [shape] = exactly the conjunction of the shape
   hypotheses used by the theorems of ActionsProps.v:

     wf               indexes unique per commitment and direction,
     local_sub_conf k an offered HTLC of our commitment is also on the peer's
                      current AND pending commitment (adds are locked in on the
                      receiver's commitment first, removals on the offerer's).

   Definitions first, then proofs; the property theorems are restated without
   shape hypotheses in ActionsProps.v. *)
From Coq Require Import List NArith ZArith Bool Arith Lia FinFun.
From LV Require Import Arb.ActionsModel Arb.ActionsProofs.
From LV Require Channel.Model Channel.Proofs Channel.Resync Channel.Discipline Channel.ResyncProofs.
Import ListNotations.

Module CM := LV.Channel.Model.
Module CP := LV.Channel.Proofs.
Module CR := LV.Channel.Resync.
Module CD := LV.Channel.Discipline.
Module CRP := LV.Channel.ResyncProofs.

(* ------------------------------------------------------------------ *)
(* projection                                                          *)

(* channeldb.HTLC as the arbitrator of party [p] reads it.  OutputIndex: the
   theorems only use its sign (dust or not) and its identity as a key of the
   resolutions; a distinct non-negative number per (direction, index) stands
   for "has an output", -1 for dust. *)
Definition arb_htlc (p : bool) (h : CM.htlc) : htlc :=
  mkHtlc (N.of_nat (CM.h_idx h))
         (negb (Bool.eqb (CM.h_from h) p))
         (if CM.h_ontx h
          then Z.of_nat (2 * CM.h_idx h + (if CM.h_from h then 0 else 1))
          else (-1)%Z)
         (Z.to_N (CM.h_exp h)) (Z.to_N (CM.h_hash h)).

Definition commit_set (p : bool) (k : CM.commit) : list htlc :=
  map (arb_htlc p) (CM.c_htlcs k).

Definition sets_of (s : CM.sys) (p : bool) : csets :=
  let x := CM.get s p in
  mkSets (commit_set p (CM.lTail x)) (commit_set p (CM.rTail x))
         (match CM.rTip x with Some k => commit_set p k | None => [] end).

(* EXACTLY the shape hypotheses of ActionsProps.v: [wf], and [local_sub_conf k]
   for every close kind k that can occur (KLocal is our own commitment,
   KRemote / KBreach / KCoop read the peer's current one, KPending the pending
   one).  A missing RemotePendingHtlcSet is the empty list in ActionsModel, so
   [local_sub_conf KPending] is only meaningful — and only true, see
   [shape_pending_guard_needed] — when a pending commitment exists: [hasp]. *)
Definition shape (hasp : bool) (c : csets) : Prop :=
  wf c /\ forall k, (k = KPending -> hasp = true) -> local_sub_conf k c.

Definition has_pending (s : CM.sys) (p : bool) : bool :=
  match CM.rTip (CM.get s p) with Some _ => true | None => false end.

(* the extra ordering fact the C01 invariant does not record: p's local
   commitments never include more of p's OWN updates than the peer has acked
   (ReceiveNewCommitment builds the view from the acked remote tail) *)
Definition Jp (p : bool) (x : CM.party) : Prop :=
  (CM.n_of p (CM.lTail x) <= CM.n_of p (CM.rTail x))%nat /\
  (forall k, CM.lTip x = Some k -> (CM.n_of p k <= CM.n_of p (CM.rTail x))%nat).

Definition J (s : CM.sys) : Prop := Jp true (CM.pA s) /\ Jp false (CM.pB s).

(* indexes of the adds of log [lp] live in the cut (np, nq) *)
Definition live_idx (lp lq : list CM.upd) (np nq : nat) : list nat :=
  map CM.a_idx (CM.live_adds (CM.adds_of (firstn np lp)) (CM.removes_of (firstn nq lq))).

(* indexes of the HTLCs offered by [b] in a descriptor *)
Definition dir_idx (b : bool) (hs : list CM.htlc) : list nat :=
  map CM.h_idx (filter (fun h => Bool.eqb (CM.h_from h) b) hs).

(* a commitment is the commit_of of its own cut over the two global logs *)
Definition ggood (c : CM.cfg) (s : CM.sys) (k : CM.commit) : Prop :=
  CM.commit_of c (CM.c_owner k) (CM.c_h k) (CM.own (CM.pA s)) (CM.own (CM.pB s))
               (CM.c_nA k) (CM.c_nB k) = Some k.

(* ------------------------------------------------------------------ *)
(* lists                                                               *)

Lemma firstn_le_split {A} n m (l : list A) :
  (n <= m)%nat -> exists t, firstn m l = firstn n l ++ t.
Proof.
  intros L. exists (skipn n (firstn m l)).
  rewrite <- (firstn_skipn n (firstn m l)) at 1. f_equal.
  rewrite firstn_firstn. f_equal. lia.
Qed.

Lemma adds_from_prefix a b : forall i x,
  In x (CM.adds_from a i) -> In x (CM.adds_from (a ++ b) i).
Proof.
  induction a as [|u a IH]; intros i x I; [destruct I|].
  destruct u; cbn [app CM.adds_from] in *; try (apply IH; exact I).
  destruct I as [E|I]; [left; exact E|right; apply IH; exact I].
Qed.

Lemma live_idx_mono lp lq np nq np' nq' i :
  (np <= np')%nat -> (nq' <= nq)%nat ->
  In i (live_idx lp lq np nq) -> In i (live_idx lp lq np' nq').
Proof.
  intros Lp Lq I. unfold live_idx in *. apply in_map_iff in I as (x & E & I).
  apply in_map_iff. exists x. split; [exact E|].
  unfold CM.live_adds in *. apply filter_In in I as [I P]. apply filter_In. split.
  - destruct (firstn_le_split np np' lp Lp) as (t & ->).
    unfold CM.adds_of in *. apply adds_from_prefix. exact I.
  - apply negb_true_iff in P. apply negb_true_iff.
    destruct (existsb _ (CM.removes_of (firstn nq' lq))) eqn:X; [|reflexivity].
    apply existsb_exists in X as (r & Ir & Er).
    rewrite <- P. symmetry. apply existsb_exists. exists r. split; [|exact Er].
    destruct (firstn_le_split nq' nq lq Lq) as (t & ->).
    rewrite CP.removes_of_app. apply in_or_app. left. exact Ir.
Qed.

Lemma live_idx_nodup lp lq np nq : NoDup (live_idx lp lq np nq).
Proof. unfold live_idx. apply CP.live_adds_nodup. apply CP.adds_of_nodup. Qed.

(* ------------------------------------------------------------------ *)
(* the HTLC list of a cut, by direction                                *)

Lemma dir_idx_app b x y : dir_idx b (x ++ y) = dir_idx b x ++ dir_idx b y.
Proof. unfold dir_idx. now rewrite filter_app, map_app. Qed.

Lemma dir_idx_mk_same c o b rate L :
  dir_idx b (CM.mk_htlcs c o b rate L) = map CM.a_idx L.
Proof.
  unfold dir_idx, CM.mk_htlcs. induction L as [|x L IH]; [reflexivity|].
  cbn [map filter CM.h_from]. rewrite eqb_reflx. cbn [map CM.h_idx]. now rewrite IH.
Qed.

Lemma dir_idx_mk_other c o b rate L :
  dir_idx b (CM.mk_htlcs c o (negb b) rate L) = [].
Proof.
  unfold dir_idx, CM.mk_htlcs. induction L as [|x L IH]; [reflexivity|].
  cbn [map filter CM.h_from]. replace (Bool.eqb (negb b) b) with false by now destruct b.
  exact IH.
Qed.

Lemma dir_idx_cut c o lA lB nA nB b :
  dir_idx b (CP.cut_htlcs c o lA lB nA nB) =
  if b then live_idx lA lB nA nB else live_idx lB lA nB nA.
Proof.
  unfold CP.cut_htlcs. cbv zeta. rewrite dir_idx_app. destruct b.
  - rewrite dir_idx_mk_same. rewrite (dir_idx_mk_other c o true). now rewrite app_nil_r.
  - rewrite (dir_idx_mk_other c o false). rewrite dir_idx_mk_same. reflexivity.
Qed.

Lemma ggood_dir c s k b :
  ggood c s k ->
  dir_idx b (CM.c_htlcs k) =
  live_idx (CM.own (CM.get s b)) (CM.own (CM.get s (negb b))) (CM.n_of b k) (CM.n_of (negb b) k).
Proof.
  unfold ggood. intros G. apply CP.commit_of_inv in G as (gA & gB & _ & _ & G).
  cbv zeta in G.
  destruct G as (_ & _ & _ & _ & _ & _ & _ & _ & _ & _ & _ & Hh & _).
  rewrite Hh, dir_idx_cut. destruct b; reflexivity.
Qed.

(* ------------------------------------------------------------------ *)
(* the arbitrator's view of a descriptor                               *)

Lemma idxs_outs_set p hs :
  idxs (outs (map (arb_htlc p) hs)) = map N.of_nat (dir_idx p hs).
Proof.
  unfold idxs, outs, dir_idx. induction hs as [|h hs IH]; [reflexivity|].
  cbn [map filter arb_htlc h_incoming]. rewrite negb_involutive.
  destruct (Bool.eqb (CM.h_from h) p); cbn [map h_idx]; now rewrite IH.
Qed.

Lemma idxs_ins_set p hs :
  idxs (ins (map (arb_htlc p) hs)) = map N.of_nat (dir_idx (negb p) hs).
Proof.
  unfold idxs, ins, dir_idx. induction hs as [|h hs IH]; [reflexivity|].
  cbn [map filter arb_htlc h_incoming].
  replace (Bool.eqb (CM.h_from h) (negb p)) with (negb (Bool.eqb (CM.h_from h) p))
    by (destruct (CM.h_from h), p; reflexivity).
  destruct (negb (Bool.eqb (CM.h_from h) p)); cbn [map h_idx]; now rewrite IH.
Qed.

Lemma nodup_map_of_nat l : NoDup l -> NoDup (map N.of_nat l).
Proof.
  intros ND. apply Injective_map_NoDup; [|exact ND].
  intros a b E. now apply Nat2N.inj.
Qed.

(* ------------------------------------------------------------------ *)
(* J is an invariant of the reachable states                           *)

Lemma Jp_init c p k r : CM.init_commit c p = Some k -> CM.init_commit c (negb p) = Some r ->
  forall b, Jp b (CM.mkParty [] [] k None r None).
Proof.
  intros Hk Hr b.
  destruct (CP.init_commit_good c b b _ _ Hk) as (_ & E1 & _).
  destruct (CP.init_commit_good c b b _ _ Hr) as (_ & E2 & _).
  split; cbn [CM.lTail CM.rTail CM.lTip]; [lia|discriminate].
Qed.

Lemma J_init c s0 : CM.init_sys c = Some s0 -> J s0.
Proof.
  unfold CM.init_sys, CM.init_party. cbn [negb].
  destruct (CM.init_commit c true) as [ka|] eqn:HA; [|discriminate].
  destruct (CM.init_commit c false) as [kb|] eqn:HB; [|discriminate].
  intros [= <-]. split; cbn [CM.pA CM.pB].
  - eapply (Jp_init c true); eassumption.
  - eapply (Jp_init c false); eassumption.
Qed.

(* J of the two parties, addressed by name *)
Lemma J_get s : J s <-> forall p, Jp p (CM.get s p).
Proof.
  split.
  - intros [A B] [|]; assumption.
  - intros H. split; [exact (H true)|exact (H false)].
Qed.

Lemma get_set_same s p x : CM.get (CM.set s p x) p = x.
Proof. destruct p; reflexivity. Qed.
Lemma get_set_other s p x : CM.get (CM.set s p x) (negb p) = CM.get s (negb p).
Proof. destruct p; reflexivity. Qed.
Lemma get_set_outq s p q r : CM.get (CM.set_outq s p q) r = CM.get s r.
Proof. destruct p, r; reflexivity. Qed.

(* replacing party p by a party satisfying Jp keeps J *)
Lemma J_set s p x q r : J s -> Jp p x -> J (CM.set_outq (CM.set s p x) r q).
Proof.
  intros HJ HX. apply J_get. intros b. rewrite get_set_outq.
  destruct (Bool.eqb b p) eqn:E.
  - apply eqb_prop in E. subst b. now rewrite get_set_same.
  - assert (b = negb p) by (destruct b, p; try reflexivity; discriminate). subst b.
    rewrite get_set_other. apply J_get. exact HJ.
Qed.

Lemma J_step c s o : CP.Inv c s -> J s -> J (snd (CM.step c s o)).
Proof.
  intros HI HJ. pose proof (proj1 (J_get s) HJ) as HG.
  destruct o as [p u|p|p|p]; unfold CM.step.
  - (* send *)
    destruct (CM.upd_enabled c p (CM.get s p) u); [|exact HJ].
    cbn [snd]. apply J_set; [exact HJ|]. exact (HG p).
  - (* sign *)
    destruct (CM.do_sign c p (CM.get s p)) as [[r x'] [m|]] eqn:HD;
      destruct r; try exact HJ.
    apply CP.do_sign_ok in HD as (k & _ & _ & -> & ->).
    cbn [snd]. apply J_set; [exact HJ|]. exact (HG p).
  - (* revoke *)
    destruct (CM.do_revoke (CM.get s p)) as [[r x'] [m|]] eqn:HD;
      destruct r; try exact HJ.
    apply CP.do_revoke_ok in HD as (k & HL & -> & ->).
    cbn [snd]. apply J_set; [exact HJ|].
    destruct (HG p) as [_ J2]. split; cbn [CP.revoked CM.lTail CM.rTail CM.lTip].
    + apply J2. exact HL.
    + discriminate.
  - (* deliver *)
    destruct (CM.outq s (negb p)) as [|m q] eqn:HQ; [exact HJ|].
    destruct (CP.inv_get c s HI p) as [I1 I2]. rewrite HQ in I1, I2.
    destruct m as [u|k|].
    + cbn [snd]. apply J_set; [exact HJ|]. exact (HG p).
    + rewrite (CP.recv_sig_ok c p (negb p) _ _ _ _ _ eq_refl I2). cbn [snd].
      apply J_set; [exact HJ|].
      destruct (CP.head_sig c p (negb p) _ _ _ _ _ I2) as (_ & _ & _ & _ & E & _).
      destruct (HG p) as [J1 _].
      split; cbn [CP.set_lTip CM.lTail CM.rTail CM.lTip]; [exact J1|].
      intros k' [= <-]. rewrite E. apply le_n.
    + destruct (CM.do_recv_rev (CM.get s p)) as [r x'] eqn:HD. destruct r; try exact HJ.
      apply CP.do_recv_rev_ok in HD as (k & HR & ->).
      cbn [snd]. apply J_set; [exact HJ|].
      destruct I1 as [_ _ _ _ _ _ _ _ _ ph].
      destruct (CP.phase_m2 c _ _ _ _ _ _ ph) as [_ M]. rewrite HR in M. cbn [CM.tip_of] in M.
      destruct (HG p) as [J1 J2].
      split; cbn [CP.recv_rev CM.lTail CM.rTail CM.lTip]; [lia|].
      intros k' E. specialize (J2 k' E). lia.
Qed.

Lemma J_run c ops : forall s, CP.Inv c s -> J s -> J (CM.run c s ops).
Proof.
  unfold CM.run. induction ops as [|o ops IH]; intros s HI HJ; cbn [fold_left]; [exact HJ|].
  apply IH; [apply CP.inv_step; exact HI|apply J_step; assumption].
Qed.

Lemma J_reachable c s : CP.reachable c s -> J s.
Proof.
  intros (s0 & ops & H0 & ->). apply J_run; [apply CP.inv_init; exact H0|].
  eapply J_init; eassumption.
Qed.

(* ------------------------------------------------------------------ *)
(* what the C01 invariant gives for the three commitments of party p   *)

Lemma inv_ggood c s p : CP.Inv c s ->
  let x := CM.get s p in
  ggood c s (CM.lTail x) /\ ggood c s (CM.rTail x) /\
  (forall k, CM.rTip x = Some k -> ggood c s k).
Proof.
  intros HI x. subst x. destruct (CP.inv_get c s HI p) as [I1 I2].
  pose proof (CP.i_gt c _ _ _ _ _ _ I1) as [Gt _].
  pose proof (CP.i_gl c _ _ _ _ _ _ I2) as [Gl _].
  pose proof (CP.i_ph c _ _ _ _ _ _ I1) as ph.
  unfold ggood. destruct p; cbn [CM.get negb CP.sel] in *.
  - split; [exact Gl|]. split; [exact Gt|].
    intros k HR. destruct (CP.phase_rtip_good c _ _ _ _ _ _ _ ph HR) as [G _]. exact G.
  - split; [exact Gl|]. split; [exact Gt|].
    intros k HR. destruct (CP.phase_rtip_good c _ _ _ _ _ _ _ ph HR) as [G _]. exact G.
Qed.

(* the cut ordering: our local tail is behind the peer's commitments in OUR
   updates and ahead of them in THEIR updates *)
Lemma inv_cut_order c s p : CP.Inv c s -> J s ->
  let x := CM.get s p in
  (CM.n_of p (CM.lTail x) <= CM.n_of p (CM.rTail x))%nat /\
  (CM.n_of (negb p) (CM.rTail x) <= CM.n_of (negb p) (CM.lTail x))%nat /\
  (forall k, CM.rTip x = Some k ->
     (CM.n_of p (CM.lTail x) <= CM.n_of p k)%nat /\
     (CM.n_of (negb p) k <= CM.n_of (negb p) (CM.lTail x))%nat).
Proof.
  intros HI HJ x. subst x. destruct (CP.inv_get c s HI p) as [I1 I2].
  destruct (proj1 (J_get s) HJ p) as [J1 _].
  destruct (CP.i_m1 c _ _ _ _ _ _ I1) as [M1 M2].
  destruct (CP.lt_own_bound c _ _ _ _ _ _ I1 I2) as [B _].
  split; [exact J1|]. split; [exact M1|].
  intros k HR. rewrite HR in B. cbn [CM.tip_of] in B. split; [exact B|]. apply M2. exact HR.
Qed.

(* offered HTLCs: inclusion of index sets between two commitments *)
Lemma offered_incl c s p k1 k2 :
  ggood c s k1 -> ggood c s k2 ->
  (CM.n_of p k1 <= CM.n_of p k2)%nat ->
  (CM.n_of (negb p) k2 <= CM.n_of (negb p) k1)%nat ->
  forall l, In l (outs (commit_set p k1)) ->
            In (h_idx l) (idxs (outs (commit_set p k2))).
Proof.
  intros G1 G2 Lp Lq l I.
  assert (I' : In (h_idx l) (idxs (outs (commit_set p k1)))).
  { apply in_idxs. exists l. split; [exact I|reflexivity]. }
  unfold commit_set in *. rewrite idxs_outs_set in *.
  apply in_map_iff in I' as (i & E & Ii). apply in_map_iff. exists i. split; [exact E|].
  rewrite (ggood_dir c s k1 p G1) in Ii. rewrite (ggood_dir c s k2 p G2).
  eapply live_idx_mono; eassumption.
Qed.

Lemma set_wf c s p k : ggood c s k ->
  NoDup (idxs (outs (commit_set p k))) /\ NoDup (idxs (ins (commit_set p k))).
Proof.
  intros G. unfold commit_set. rewrite idxs_outs_set, idxs_ins_set.
  rewrite !(ggood_dir c s k _ G). split; apply nodup_map_of_nat, live_idx_nodup.
Qed.

(* ------------------------------------------------------------------ *)
(* main result                                                         *)

Lemma shape_inv c s p : CP.Inv c s -> J s -> shape (has_pending s p) (sets_of s p).
Proof.
  intros HI HJ.
  destruct (inv_ggood c s p HI) as (Gl & Gr & Gp).
  destruct (inv_cut_order c s p HI HJ) as (O1 & O2 & O3).
  unfold sets_of, has_pending. cbv zeta. split.
  - unfold wf. cbn [c_local c_remote c_pending].
    destruct (set_wf c s p _ Gl) as [A1 A2]. destruct (set_wf c s p _ Gr) as [B1 B2].
    destruct (CM.rTip (CM.get s p)) as [k|] eqn:HR.
    + destruct (set_wf c s p k (Gp k eq_refl)) as [C1 C2]. tauto.
    + cbn. repeat split; try assumption; constructor.
  - intros k HP l I. unfold conf_of, conf_set. cbn [c_local] in I.
    destruct k; cbn [kkey c_local c_remote c_pending].
    + apply in_idxs. exists l. split; [exact I|reflexivity].
    + eapply offered_incl; [exact Gl|exact Gr|exact O1|exact O2|exact I].
    + destruct (CM.rTip (CM.get s p)) as [k|] eqn:HR; [|discriminate (HP eq_refl)].
      destruct (O3 k eq_refl) as [P1 P2].
      eapply offered_incl; [exact Gl|exact (Gp k eq_refl)|exact P1|exact P2|exact I].
    + eapply offered_incl; [exact Gl|exact Gr|exact O1|exact O2|exact I].
    + eapply offered_incl; [exact Gl|exact Gr|exact O1|exact O2|exact I].
Qed.

Lemma shape_reachable c s : CM.cfg_ok c -> CP.reachable c s ->
  forall p, shape (has_pending s p) (sets_of s p).
Proof.
  intros _ HR p. apply (shape_inv c); [apply CP.inv_reachable; exact HR|].
  eapply J_reachable; eassumption.
Qed.

(* ------------------------------------------------------------------ *)
(* ... and across reconnects: states reached by disciplined steps with
   channel_reestablish resynchronisation (Channel/Resync.v, C03)        *)

Lemma xs_xop c s o : CR.xs (snd (CR.xstep c s (CR.XOp o))) = snd (CM.step c (CR.xs s) o).
Proof.
  unfold CR.xstep. destruct (CM.step c (CR.xs s) o) as [r s'].
  destruct r, o; try reflexivity; cbn [snd]; unfold CR.set_lwr; destruct p; reflexivity.
Qed.

Lemma J_deliver_n c p n : forall s, CP.Inv c s -> J s ->
  CP.Inv c (CR.deliver_n c s p n) /\ J (CR.deliver_n c s p n).
Proof.
  induction n as [|n IH]; intros s HI HJ; cbn [CR.deliver_n]; [split; assumption|].
  apply IH; [apply CP.inv_step; exact HI|apply J_step; assumption].
Qed.

Lemma Jp_restore p x : Jp p x -> Jp p (CR.restore p x).
Proof.
  intros [J1 _]. unfold CR.restore. split; cbn [CM.lTail CM.rTail CM.lTip]; [exact J1|discriminate].
Qed.

(* ProcessChanSyncMsg touches at most the pending remote commitment *)
Lemma process_sync_local c p x lw next rt r x' out sg :
  CR.process_sync c p x lw next rt = (r, x', out, sg) ->
  CM.lTail x' = CM.lTail x /\ CM.lTip x' = CM.lTip x /\ CM.rTail x' = CM.rTail x.
Proof.
  unfold CR.process_sync. cbv zeta.
  assert (SG : forall y m, CM.do_sign c p x = (CM.Ok, y, Some m) ->
               CM.lTail y = CM.lTail x /\ CM.lTip y = CM.lTip x /\ CM.rTail y = CM.rTail x).
  { intros y m HD. apply CP.do_sign_ok in HD as (k & _ & _ & -> & _). cbn. tauto. }
  destruct (CM.do_sign c p x) as [[rs y] [m|]] eqn:HD;
  repeat match goal with
         | |- context [if ?b then _ else _] => destruct b
         | |- context [match ?r with CM.Ok => _ | _ => _ end] => destruct r
         | |- context [match CM.rTip x with Some _ => _ | None => _ end] => destruct (CM.rTip x)
         end;
  intros [= <- <- <- <-]; try tauto; eapply SG; reflexivity.
Qed.

Lemma Jp_process_sync c p x lw next rt r x' out sg :
  CR.process_sync c p x lw next rt = (r, x', out, sg) -> Jp p x -> Jp p x'.
Proof.
  intros PS [J1 J2]. apply process_sync_local in PS as (E1 & E2 & E3).
  split; rewrite ?E1, ?E2, ?E3; assumption.
Qed.

Lemma J_xcut c s ka kb : CP.Inv c (CR.xs s) -> J (CR.xs s) ->
  fst (CR.xstep c s (CR.XCut ka kb)) = CM.Ok ->
  J (CR.xs (snd (CR.xstep c s (CR.XCut ka kb)))).
Proof.
  intros HI HJ. unfold CR.xstep.
  destruct (J_deliver_n c true ka _ HI HJ) as [HI1 HJ1].
  destruct (J_deliver_n c false kb _ HI1 HJ1) as [_ [JA JB]].
  set (s1 := CR.deliver_n c (CR.deliver_n c (CR.xs s) true ka) false kb) in *.
  cbv zeta. unfold CR.sync_msg.
  destruct (CR.process_sync c true _ _ _ _) as [[[ra a'] outA] sa] eqn:PA.
  destruct (CR.process_sync c false _ _ _ _) as [[[rb b'] outB] sb] eqn:PB.
  apply Jp_process_sync in PA; [|apply Jp_restore; exact JA].
  apply Jp_process_sync in PB; [|apply Jp_restore; exact JB].
  destruct ra, rb; cbn [fst snd CR.xs]; try discriminate.
  intros _. split; assumption.
Qed.

Lemma J_dreachable_ok c s : CD.dreachable_ok c s -> J (CR.xs s).
Proof.
  induction 1 as [s0 H0|s o HR IH HD HOk].
  - unfold CR.xinit in H0. destruct (CM.init_sys c) as [s1|] eqn:E; [|discriminate].
    injection H0 as <-. cbn [CR.xs]. eapply J_init; eassumption.
  - pose proof (CRP.dreachable_ok_xinv c s HR) as [HI _].
    destruct o as [o|ka kb].
    + rewrite xs_xop. apply J_step; assumption.
    + apply J_xcut; try assumption. apply (HOk ka kb). reflexivity.
Qed.

Lemma shape_dreachable_ok c s : CM.cfg_ok c -> CD.dreachable_ok c s ->
  forall p, shape (has_pending (CR.xs s) p) (sets_of (CR.xs s) p).
Proof.
  intros _ HR p. apply (shape_inv c).
  - destruct (CRP.dreachable_ok_xinv c s HR) as [HI _]. exact HI.
  - eapply J_dreachable_ok; eassumption.
Qed.

(* either notion of reachability: free schedules without reconnects (C01), or
   link-disciplined schedules with successful reconnects (C03) *)
Definition chan_reachable (c : CM.cfg) (s : CM.sys) : Prop :=
  CP.reachable c s \/ exists x, CD.dreachable_ok c x /\ s = CR.xs x.

Lemma shape_chan_reachable c s : CM.cfg_ok c -> chan_reachable c s ->
  forall p, shape (has_pending s p) (sets_of s p).
Proof.
  intros HC [HR|(x & HR & ->)]; [now apply (shape_reachable c)|now apply (shape_dreachable_ok c)].
Qed.

(* ------------------------------------------------------------------ *)
(* the classification theorems for sets coming from a reachable channel
   state: no shape hypothesis left.  [close_ok]: a pending-commitment close
   presupposes a pending commitment. *)

Definition close_ok (s : CM.sys) (p : bool) (k : close_kind) : Prop :=
  k = KPending -> has_pending s p = true.

Lemma classification_direct_reachable cc s p e k height r :
  CM.cfg_ok cc -> chan_reachable cc s ->
  uni k = true -> r_breach r = false -> res_complete r (conf_of k (sets_of s p)) ->
  exists a' ef,
    on_close false e arb0 k height (sets_of s p) r (sets_of s p) = Some (a', ef) /\
    closed_state (ar_state a') = true /\
    close_guarantees e k (sets_of s p) ef /\
    (forall x, must_fail e (kkey k) (sets_of s p) x -> cnt x (f_fail ef) = 1%nat).
Proof.
  intros HC HR U Hb RC. destruct (shape_chan_reachable cc s HC HR p) as [W _].
  now apply classification_direct.
Qed.

Lemma classification_broadcast_partial_reachable cc s p e user h0 k h1 r a1 ef1 :
  CM.cfg_ok cc -> chan_reachable cc s -> close_ok s p k ->
  uni k = true -> r_breach r = false -> res_complete r (conf_of k (sets_of s p)) ->
  trigger_step false e user h0 (sets_of s p) = Some (a1, ef1) -> f_force ef1 = 1%N ->
  let c := sets_of s p in
  exists a2 ef2,
    on_close false e a1 k h1 c r c = Some (a2, ef2) /\
    closed_state (ar_state a2) = true /\
    close_guarantees e k c ef2 /\
    (forall x, (cnt x (f_fail ef1 ++ f_fail ef2) <= 1)%nat) /\
    (forall x, In x (idxs (others (kkey k) c)) -> ~ In x (idxs (outs (conf_of k c))) ->
               no_pre e c x ->
               (forall m, In m (others (kkey k) c) -> h_idx m = x -> h_dust m = false) ->
               cnt x (f_fail ef1 ++ f_fail ef2) = 1%nat).
Proof.
  intros HC HR CK U Hb RC T F c. destruct (shape_chan_reachable cc s HC HR p) as [W L].
  eapply classification_broadcast_partial; try eassumption. apply L. exact CK.
Qed.

Lemma classification_fixed_reachable cc s p e k r :
  CM.cfg_ok cc -> chan_reachable cc s ->
  uni k = true -> r_breach r = false -> res_complete r (conf_of k (sets_of s p)) ->
  let c := sets_of s p in
  (forall height, exists a' ef,
      on_close true e arb0 k height c r c = Some (a', ef) /\
      closed_state (ar_state a') = true /\ close_guarantees e k c ef /\
      (forall x, must_fail e (kkey k) c x -> (1 <= cnt x (f_fail ef))%nat)) /\
  (forall user h0 h1 a1 ef1,
      trigger_step true e user h0 c = Some (a1, ef1) -> f_force ef1 = 1%N ->
      exists a2 ef2,
        on_close true e a1 k h1 c r c = Some (a2, ef2) /\
        closed_state (ar_state a2) = true /\ close_guarantees e k c ef2 /\
        (forall x, must_fail e (kkey k) c x ->
                   (1 <= cnt x (f_fail ef1 ++ f_fail ef2))%nat)).
Proof.
  intros HC HR U Hb RC c. destruct (shape_chan_reachable cc s HC HR p) as [W _]. split.
  - intros height. now apply classification_fixed_direct.
  - intros user h0 h1 a1 ef1 T F. eapply classification_fixed_broadcast; eassumption.
Qed.

Lemma no_failback_with_output_reachable cc s p fixed e a k height r active :
  CM.cfg_ok cc -> chan_reachable cc s ->
  uni k = true -> start_ok a -> r_breach r = false ->
  exists a' ef,
    on_close fixed e a k height (sets_of s p) r active = Some (a', ef) /\
    forall h, In h (outs (conf_of k (sets_of s p))) -> h_dust h = false ->
              cnt (h_idx h) (f_fail ef) = O.
Proof.
  intros HC HR U S Hb. destruct (shape_chan_reachable cc s HC HR p) as [W _].
  destruct (on_close_uni fixed e a k height (sets_of s p) r active U S Hb)
    as (a' & ef & On & F1 & _).
  exists a', ef. split; [assumption|].
  intros h I D. rewrite F1. apply cnt_zero_iff.
  apply close_fail_output; try assumption. apply ktrig_nochain.
Qed.

(* ------------------------------------------------------------------ *)
(* witnesses (concrete reachable states, evaluated by vm_compute)      *)

Definition w_cfg : CM.cfg :=
  CM.mkCfg 1000000 true 1124 172 666 706 330 true
           (CM.mkSide 354 10000) (CM.mkSide 573 10000)
           599340000 400000000 2500.

Lemma w_cfg_ok : CM.cfg_ok w_cfg.
Proof. unfold CM.cfg_ok, w_cfg. cbn. lia. Qed.

Definition w_dummy_commit : CM.commit := CM.mkCommit true 0 0 0 0 0 0 0 [] 0 0.
Definition w_dummy_sys : CM.sys :=
  let x := CM.mkParty [] [] w_dummy_commit None w_dummy_commit None in CM.mkSys x x [] [].
Definition w_s0 : CM.sys :=
  Eval vm_compute in
    match CM.init_sys w_cfg with Some s => s | None => w_dummy_sys end.
Lemma w_s0_init : CM.init_sys w_cfg = Some w_s0.
Proof. vm_compute. reflexivity. Qed.

Lemma w_reach ops : CP.reachable w_cfg (CM.run w_cfg w_s0 ops).
Proof. exists w_s0, ops. split; [exact w_s0_init|reflexivity]. Qed.

(* (1) A offers one HTLC (50k sat) and it is locked in on every commitment;
   nothing is pending.  local_sub_conf KPending fails: the guard on [hasp]
   in [shape] is necessary. *)
Definition w_ops_locked : list CM.op :=
  [ CM.OSend true (CM.UAdd 50000000 500 11); CM.ODeliver false;
    CM.OSign true; CM.ODeliver false; CM.ORevoke false; CM.ODeliver true;
    CM.OSign false; CM.ODeliver true; CM.ORevoke true; CM.ODeliver false ].

Lemma pending_guard_needed :
  exists cc s p, CM.cfg_ok cc /\ CP.reachable cc s /\
                 has_pending s p = false /\ ~ local_sub_conf KPending (sets_of s p).
Proof.
  exists w_cfg, (CM.run w_cfg w_s0 w_ops_locked), true.
  split; [exact w_cfg_ok|]. split; [apply w_reach|]. split; [vm_compute; reflexivity|].
  intros L.
  specialize (L (mkHtlc 0 false 0 500 11)).
  assert (I : In (mkHtlc 0 false 0 500 11)
                 (outs (c_local (sets_of (CM.run w_cfg w_s0 w_ops_locked) true)))).
  { vm_compute. left. reflexivity. }
  specialize (L I). vm_compute in L. exact L.
Qed.

(* (2) a mid-flight state in which the three sets all differ (non-vacuity of
   the reachable corollaries): A offered #0 (50k sat) and #1 (200 sat, dust),
   B offered #0 (30k sat); A's third add (#2) is only on the pending remote
   commitment. *)
Definition w_ops_mid : list CM.op :=
  [ CM.OSend true (CM.UAdd 50000000 500 11); CM.OSend true (CM.UAdd 200000 520 33);
    CM.OSend false (CM.UAdd 30000000 510 22);
    CM.ODeliver false; CM.ODeliver false; CM.ODeliver true;
    CM.OSign true; CM.ODeliver false; CM.ORevoke false; CM.ODeliver true;
    CM.OSign false; CM.ODeliver true; CM.ORevoke true; CM.ODeliver false;
    CM.OSend true (CM.UAdd 40000000 530 44);
    CM.OSign true ].

Definition w_mid_sets : csets :=
  mkSets
    [mkHtlc 0 false 0 500 11; mkHtlc 1 false (-1) 520 33; mkHtlc 0 true 1 510 22]
    [mkHtlc 0 false 0 500 11; mkHtlc 1 false (-1) 520 33]
    [mkHtlc 0 false 0 500 11; mkHtlc 1 false (-1) 520 33; mkHtlc 2 false 4 530 44;
     mkHtlc 0 true 1 510 22].

Lemma w_mid_ok :
  sets_of (CM.run w_cfg w_s0 w_ops_mid) true = w_mid_sets /\
  has_pending (CM.run w_cfg w_s0 w_ops_mid) true = true.
Proof. split; vm_compute; reflexivity. Qed.

(* (3) the peer's current and pending commitment can carry the SAME offered
   HTLC with different dust-ness (a fee update in between), while it is not yet
   on ours: there checkRemoteDanglingActions reads whichever record Go's map
   iteration visits last ([remote_merged] keeps the first).  Documented
   restriction of the correspondence run, not a hypothesis of a theorem. *)
Definition w_ops_dust : list CM.op :=
  [ CM.OSend true (CM.UAdd 2500000 500 11); CM.ODeliver false;
    CM.OSign true; CM.ODeliver false; CM.ORevoke false; CM.ODeliver true;
    CM.OSend true (CM.UFee 3000); CM.OSign true ].

Lemma dust_disagreement_reachable :
  exists cc s p h1 h2,
    CM.cfg_ok cc /\ CP.reachable cc s /\
    In h1 (outs (c_remote (sets_of s p))) /\ In h2 (outs (c_pending (sets_of s p))) /\
    h_idx h1 = h_idx h2 /\ h_dust h1 = false /\ h_dust h2 = true /\
    ~ In (h_idx h1) (idxs (outs (c_local (sets_of s p)))).
Proof.
  exists w_cfg, (CM.run w_cfg w_s0 w_ops_dust), true,
         (mkHtlc 0 false 0 500 11), (mkHtlc 0 false (-1) 500 11).
  split; [exact w_cfg_ok|]. split; [apply w_reach|].
  split; [vm_compute; left; reflexivity|]. split; [vm_compute; left; reflexivity|].
  split; [reflexivity|]. split; [reflexivity|]. split; [reflexivity|].
  vm_compute. intros [].
Qed.
