(* Go fixed-width integer semantics on Z, used by the GENERATED arithmetic
   (Gen/GenArith.v, tie T1 generator translate/gen_arith.go) and by the bridge
   lemmas <Subsys>/GenBridge.v.

   A value of a Go integer type is a Z inside the range of the type.  After
   every operation that can leave the range the generator applies the wrap of
   the RESULT type:
     unsigned N bits   wrap_uN x = x mod 2^N
     signed   N bits   wrap_iN x = (x + 2^(N-1)) mod 2^N - 2^(N-1)   (two's complement)
   Signed `/` is Z.quot (truncation), `%` is Z.rem; unsigned `/` and `%` are
   Z.div / Z.modulo (operands are non-negative).  `x << s` is the wrap of
   Z.shiftl x s (high bits dropped), `x >> s` is Z.shiftr x s (arithmetic for
   negative x, like Go), `&`,`|`,`^`,`&^` are Z.land/Z.lor/Z.lxor/Z.ldiff (Z is
   an infinite two's complement, so they agree with Go on in-range operands).
   Conversions T(x) are the wrap of T, omitted by the generator when the
   source range is contained in the target range.

   Powers of two are written as literals so that `lia` can work with the
   definitions after `unfold`.  Hand-written; no axioms. *)
From Coq Require Import ZArith Lia Bool.
Local Open Scope Z_scope.

Definition wrap_u8 (x : Z) : Z := x mod 256.
Definition wrap_u16 (x : Z) : Z := x mod 65536.
Definition wrap_u32 (x : Z) : Z := x mod 4294967296.
Definition wrap_u64 (x : Z) : Z := x mod 18446744073709551616.

Definition wrap_i8 (x : Z) : Z := (x + 128) mod 256 - 128.
Definition wrap_i16 (x : Z) : Z := (x + 32768) mod 65536 - 32768.
Definition wrap_i32 (x : Z) : Z := (x + 2147483648) mod 4294967296 - 2147483648.
Definition wrap_i64 (x : Z) : Z :=
  (x + 9223372036854775808) mod 18446744073709551616 - 9223372036854775808.

Definition in_u8 (x : Z) : Prop := 0 <= x < 256.
Definition in_u16 (x : Z) : Prop := 0 <= x < 65536.
Definition in_u32 (x : Z) : Prop := 0 <= x < 4294967296.
Definition in_u64 (x : Z) : Prop := 0 <= x < 18446744073709551616.
Definition in_i8 (x : Z) : Prop := -128 <= x < 128.
Definition in_i16 (x : Z) : Prop := -32768 <= x < 32768.
Definition in_i32 (x : Z) : Prop := -2147483648 <= x < 2147483648.
Definition in_i64 (x : Z) : Prop := -9223372036854775808 <= x < 9223372036854775808.

(* domain of an optional argument (fn.Option[T]) *)
Definition in_opt (P : Z -> Prop) (o : option Z) : Prop :=
  match o with Some v => P v | None => True end.

Ltac goint_unfold :=
  unfold wrap_u8, wrap_u16, wrap_u32, wrap_u64, wrap_i8, wrap_i16, wrap_i32, wrap_i64,
         in_u8, in_u16, in_u32, in_u64, in_i8, in_i16, in_i32, in_i64 in *.

(* ---- the wrap is the identity inside the range ---- *)
Lemma wrap_u8_small x : in_u8 x -> wrap_u8 x = x.
Proof. goint_unfold. intros. apply Z.mod_small; lia. Qed.
Lemma wrap_u16_small x : in_u16 x -> wrap_u16 x = x.
Proof. goint_unfold. intros. apply Z.mod_small; lia. Qed.
Lemma wrap_u32_small x : in_u32 x -> wrap_u32 x = x.
Proof. goint_unfold. intros. apply Z.mod_small; lia. Qed.
Lemma wrap_u64_small x : in_u64 x -> wrap_u64 x = x.
Proof. goint_unfold. intros. apply Z.mod_small; lia. Qed.
Lemma wrap_i8_small x : in_i8 x -> wrap_i8 x = x.
Proof. goint_unfold. intros. rewrite Z.mod_small; lia. Qed.
Lemma wrap_i16_small x : in_i16 x -> wrap_i16 x = x.
Proof. goint_unfold. intros. rewrite Z.mod_small; lia. Qed.
Lemma wrap_i32_small x : in_i32 x -> wrap_i32 x = x.
Proof. goint_unfold. intros. rewrite Z.mod_small; lia. Qed.
Lemma wrap_i64_small x : in_i64 x -> wrap_i64 x = x.
Proof. goint_unfold. intros. rewrite Z.mod_small; lia. Qed.

(* ---- the wrap always lands in the range ---- *)
Lemma wrap_u8_range x : in_u8 (wrap_u8 x).
Proof. goint_unfold. apply Z.mod_pos_bound; lia. Qed.
Lemma wrap_u16_range x : in_u16 (wrap_u16 x).
Proof. goint_unfold. apply Z.mod_pos_bound; lia. Qed.
Lemma wrap_u32_range x : in_u32 (wrap_u32 x).
Proof. goint_unfold. apply Z.mod_pos_bound; lia. Qed.
Lemma wrap_u64_range x : in_u64 (wrap_u64 x).
Proof. goint_unfold. apply Z.mod_pos_bound; lia. Qed.
Lemma wrap_i8_range x : in_i8 (wrap_i8 x).
Proof. goint_unfold. pose proof (Z.mod_pos_bound (x + 128) 256). lia. Qed.
Lemma wrap_i16_range x : in_i16 (wrap_i16 x).
Proof. goint_unfold. pose proof (Z.mod_pos_bound (x + 32768) 65536). lia. Qed.
Lemma wrap_i32_range x : in_i32 (wrap_i32 x).
Proof. goint_unfold. pose proof (Z.mod_pos_bound (x + 2147483648) 4294967296). lia. Qed.
Lemma wrap_i64_range x : in_i64 (wrap_i64 x).
Proof.
  goint_unfold.
  pose proof (Z.mod_pos_bound (x + 9223372036854775808) 18446744073709551616). lia.
Qed.

(* ---- the wraps are congruences: x and wrap x differ by a multiple of 2^N ---- *)
Lemma wrap_u64_cong x : exists k, wrap_u64 x = x - k * 18446744073709551616.
Proof.
  exists (x / 18446744073709551616). unfold wrap_u64.
  rewrite Z.mod_eq by lia. lia.
Qed.
Lemma wrap_i64_cong x : exists k, wrap_i64 x = x - k * 18446744073709551616.
Proof.
  exists ((x + 9223372036854775808) / 18446744073709551616). unfold wrap_i64.
  rewrite Z.mod_eq by lia. lia.
Qed.
Lemma wrap_u32_cong x : exists k, wrap_u32 x = x - k * 4294967296.
Proof. exists (x / 4294967296). unfold wrap_u32. rewrite Z.mod_eq by lia. lia. Qed.
Lemma wrap_i32_cong x : exists k, wrap_i32 x = x - k * 4294967296.
Proof.
  exists ((x + 2147483648) / 4294967296). unfold wrap_i32.
  rewrite Z.mod_eq by lia. lia.
Qed.

(* idempotence *)
Lemma wrap_u64_idem x : wrap_u64 (wrap_u64 x) = wrap_u64 x.
Proof. apply wrap_u64_small, wrap_u64_range. Qed.
Lemma wrap_i64_idem x : wrap_i64 (wrap_i64 x) = wrap_i64 x.
Proof. apply wrap_i64_small, wrap_i64_range. Qed.
Lemma wrap_u32_idem x : wrap_u32 (wrap_u32 x) = wrap_u32 x.
Proof. apply wrap_u32_small, wrap_u32_range. Qed.
Lemma wrap_i32_idem x : wrap_i32 (wrap_i32 x) = wrap_i32 x.
Proof. apply wrap_i32_small, wrap_i32_range. Qed.

(* reinterpretations between same-width signed and unsigned values *)
Lemma wrap_i64_of_u64 x : in_u64 x ->
  wrap_i64 x = if x <? 9223372036854775808 then x else x - 18446744073709551616.
Proof.
  goint_unfold. intros H. destruct (Z.ltb_spec x 9223372036854775808).
  - rewrite Z.mod_small; lia.
  - replace (x + 9223372036854775808)
      with ((x - 9223372036854775808) + 1 * 18446744073709551616) by lia.
    rewrite Z.mod_add by lia. rewrite Z.mod_small; lia.
Qed.
Lemma wrap_u32_of_i32 x : in_i32 x ->
  wrap_u32 x = if x <? 0 then x + 4294967296 else x.
Proof.
  goint_unfold. intros H. destruct (Z.ltb_spec x 0).
  - replace x with ((x + 4294967296) + (-1) * 4294967296) at 1 by lia.
    rewrite Z.mod_add by lia. rewrite Z.mod_small; lia.
  - rewrite Z.mod_small; lia.
Qed.
Lemma wrap_u64_of_i64 x : in_i64 x ->
  wrap_u64 x = if x <? 0 then x + 18446744073709551616 else x.
Proof.
  goint_unfold. intros H. destruct (Z.ltb_spec x 0).
  - replace x with ((x + 18446744073709551616) + (-1) * 18446744073709551616) at 1 by lia.
    rewrite Z.mod_add by lia. rewrite Z.mod_small; lia.
  - rewrite Z.mod_small; lia.
Qed.
