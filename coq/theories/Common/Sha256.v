(* Executable SHA-256 over byte lists (list N, each element < 256).
   Used only to EXECUTE models byte-exactly against the Go implementation
   (correspondence runs).  No theorem depends on any property of this
   function: the shachain theorems are proved for an arbitrary hash.  Its
   agreement with crypto/sha256 is itself checked by the C06 harness. *)
From Coq Require Import List NArith.
Import ListNotations.
Local Open Scope N_scope.

Definition w32 (x : N) : N := N.land x 4294967295.
Definition add32 (a b : N) : N := w32 (a + b).
Definition rotr (n x : N) : N :=
  w32 (N.lor (N.shiftr x n) (N.shiftl x (32 - n))).
Definition shr (n x : N) : N := N.shiftr x n.
Definition not32 (x : N) : N := N.lxor x 4294967295.

Definition Ch (x y z : N) := N.lxor (N.land x y) (N.land (not32 x) z).
Definition Maj (x y z : N) :=
  N.lxor (N.lxor (N.land x y) (N.land x z)) (N.land y z).
Definition bsig0 x := N.lxor (N.lxor (rotr 2 x) (rotr 13 x)) (rotr 22 x).
Definition bsig1 x := N.lxor (N.lxor (rotr 6 x) (rotr 11 x)) (rotr 25 x).
Definition ssig0 x := N.lxor (N.lxor (rotr 7 x) (rotr 18 x)) (shr 3 x).
Definition ssig1 x := N.lxor (N.lxor (rotr 17 x) (rotr 19 x)) (shr 10 x).

Definition K256 : list N :=
 [1116352408;1899447441;3049323471;3921009573;961987163;1508970993;2453635748;2870763221;
  3624381080;310598401;607225278;1426881987;1925078388;2162078206;2614888103;3248222580;
  3835390401;4022224774;264347078;604807628;770255983;1249150122;1555081692;1996064986;
  2554220882;2821834349;2952996808;3210313671;3336571891;3584528711;113926993;338241895;
  666307205;773529912;1294757372;1396182291;1695183700;1986661051;2177026350;2456956037;
  2730485921;2820302411;3259730800;3345764771;3516065817;3600352804;4094571909;275423344;
  430227734;506948616;659060556;883997877;958139571;1322822218;1537002063;1747873779;
  1955562222;2024104815;2227730452;2361852424;2428436474;2756734187;3204031479;3329325298].

Definition H0 : list N :=
 [1779033703;3144134277;1013904242;2773480762;1359893119;2600822924;528734635;1541459225].

(* message schedule: ws holds W[t-1], W[t-2], ... (most recent first) *)
Fixpoint extend (n : nat) (ws : list N) : list N :=
  match n with
  | O => ws
  | S n' =>
    let w2 := nth 1 ws 0 in
    let w7 := nth 6 ws 0 in
    let w15 := nth 14 ws 0 in
    let w16 := nth 15 ws 0 in
    extend n' (add32 (add32 (ssig1 w2) w7) (add32 (ssig0 w15) w16) :: ws)
  end.

Definition round (st : list N) (kw : N * N) : list N :=
  match st with
  | [a;b;c;d;e;f;g;h] =>
    let t1 := add32 (add32 (add32 h (bsig1 e)) (add32 (Ch e f g) (fst kw))) (snd kw) in
    let t2 := add32 (bsig0 a) (Maj a b c) in
    [add32 t1 t2; a; b; c; add32 d t1; e; f; g]
  | _ => st
  end.

Fixpoint be32 (bs : list N) : list N :=
  match bs with
  | b0 :: b1 :: b2 :: b3 :: r =>
    (b0 * 16777216 + b1 * 65536 + b2 * 256 + b3) :: be32 r
  | _ => []
  end.

Definition compress (st : list N) (block : list N) : list N :=
  let w := rev (extend 48 (rev (be32 block))) in
  let st' := fold_left round (combine K256 w) st in
  map (fun p => add32 (fst p) (snd p)) (combine st st').

Fixpoint blocks (fuel : nat) (bs : list N) (st : list N) : list N :=
  match fuel with
  | O => st
  | S f =>
    match bs with
    | [] => st
    | _ => blocks f (skipn 64 bs) (compress st (firstn 64 bs))
    end
  end.

Definition be_bytes (nbytes : nat) (x : N) : list N :=
  map (fun i => N.land (N.shiftr x (8 * N.of_nat i)) 255) (rev (seq 0 nbytes)).

Definition pad (msg : list N) : list N :=
  let l := length msg in
  let k := Nat.modulo (64 - Nat.modulo (l + 9)%nat 64)%nat 64 in
  msg ++ [128] ++ repeat 0 k ++ be_bytes 8 (8 * N.of_nat l).

Definition sha256 (msg : list N) : list N :=
  let p := pad msg in
  flat_map (be_bytes 4) (blocks (S (Nat.div (length p) 64)) p H0).
