(* C15 non-vacuity: concrete histories under which the hypotheses of the
   property theorems are satisfied and the interesting branches are taken. *)
From Coq Require Import List NArith ZArith.
From LV Require Import Invoice.Model Invoice.Proofs.
Import ListNotations.

Definition exH (p : N) : N := (p + 100)%N.          (* preimage p hashes to 100+p *)
Definition ex_cfg : cfg := mkCfg 4 false false true.
Definition mpp_inv : invoice := mkInv 101 7 1000 (Some 1%N) 9 false false true COpen [] 0.
Definition hodl_inv : invoice := mkInv 102 0 500 None 4 true false false COpen [] 0.
Definition shard (k amt : N) : hctx :=
  mkCtx 101 k amt 110 100 (Some (7%N, 1000%N)) false None 0 KSNone.
Definition legacy (k amt : N) : hctx := mkCtx 102 k amt 110 100 None false None 0 KSNone.

(* an MPP set of two shards settles on the second shard; the first one is
   notified on its hodl subscription *)
Example ex_mpp_settles :
  snd (run exH ex_cfg init [EAdd mpp_inv; ENotify (shard 1 400); ENotify (shard 2 600)]) =
  [(RpApi AOk, []); (RpDirect DNil, []);
   (RpDirect (DRes (NSettle 2 1 100 S_Settled)), [NSettle 1 1 100 S_Settled])].
Proof. vm_compute. reflexivity. Qed.

(* one msat short: held, nothing released *)
Example ex_mpp_short :
  snd (run exH ex_cfg init [EAdd mpp_inv; ENotify (shard 1 400); ENotify (shard 2 599)]) =
  [(RpApi AOk, []); (RpDirect DNil, []); (RpDirect DNil, [])].
Proof. vm_compute. reflexivity. Qed.

(* hold invoice: accept, settle with the preimage, replay answers Settle *)
Example ex_hodl :
  snd (run exH ex_cfg init [EAdd hodl_inv; ENotify (legacy 5 500); ESettleHodl 2;
                            ENotify (legacy 5 500)]) =
  [(RpApi AOk, []); (RpDirect DNil, []); (RpApi AOk, [NSettle 5 2 100 S_Settled]);
   (RpDirect (DRes (NSettle 5 2 100 S_ReplayToSettled)), [])].
Proof. vm_compute. reflexivity. Qed.

(* the hypotheses of C15_replay_same_verdict hold on that history *)
Example ex_replay_hyps :
  let st := fst (run exH ex_cfg init [EAdd hodl_inv; ENotify (legacy 5 500); ESettleHodl 2]) in
  exists i h,
    lookup_ref (g_kv ex_cfg) (invs st) (fst (ctx_ref (legacy 5 500))) (snd (ctx_ref (legacy 5 500)))
      = Some i /\
    fst (ctx_ref (legacy 5 500)) = Some (c_hash (legacy 5 500)) /\ i_amp i = false /\
    find_htlc 5 (i_htlcs i) = Some h /\ h_state h = HSettled.
Proof. vm_compute. eexists. eexists. repeat split; reflexivity. Qed.

(* set timeout cancels the held shard, the replay is then failed *)
Example ex_timeout :
  snd (run exH ex_cfg init [EAdd mpp_inv; ENotify (shard 1 400); ETimeout 101 (Some 7%N) 1;
                            ENotify (shard 1 400)]) =
  [(RpApi AOk, []); (RpDirect DNil, []); (RpApi AOk, [NFail 1 100 F_MppTimeout]);
   (RpDirect (DRes (NFail 1 100 F_ReplayToCanceled)), [])].
Proof. vm_compute. reflexivity. Qed.

(* wrong payment address / mismatching total / expiry one block short *)
Example ex_rejects :
  snd (run exH ex_cfg init
           [EAdd mpp_inv;
            ENotify (mkCtx 101 1 400 110 100 (Some (8%N, 1000%N)) false None 0 KSNone);
            ENotify (shard 2 400);
            ENotify (mkCtx 101 3 600 110 100 (Some (7%N, 1001%N)) false None 0 KSNone);
            ENotify (mkCtx 101 4 600 108 100 (Some (7%N, 1000%N)) false None 0 KSNone)]) =
  [(RpApi AOk, []); (RpDirect (DRes (NFail 1 100 F_AddressMismatch)), []); (RpDirect DNil, []);
   (RpDirect (DRes (NFail 3 100 F_SetTotalMismatch)), []);
   (RpDirect (DRes (NFail 4 100 F_ExpiryTooSoon)), [])].
Proof. vm_compute. reflexivity. Qed.
