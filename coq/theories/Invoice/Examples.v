(* C15 non-vacuity: concrete histories under which the hypotheses of the
   property theorems are satisfied and the interesting branches are taken. *)
From Coq Require Import List NArith ZArith.
From LV Require Import Invoice.Model Invoice.Proofs.
Import ListNotations.

Definition exH (p : N) : N := (p + 100)%N.          (* preimage p hashes to 100+p *)
Definition exR (l : list (N * N)) : list (N * N) := [].   (* no AMP in these histories *)
Definition ex_cfg : cfg := mkCfg 4 false false true false.
Definition mpp_inv : invoice := mkInv 101 7 1000 (Some 1%N) 9 false false true COpen [] 0 [].
Definition hodl_inv : invoice := mkInv 102 0 500 None 4 true false false COpen [] 0 [].
Definition shard (k amt : N) : hctx :=
  mkCtx 101 k amt 110 100 (Some (7%N, 1000%N)) false None 0 KSNone 0 0 0.
Definition legacy (k amt : N) : hctx := mkCtx 102 k amt 110 100 None false None 0 KSNone 0 0 0.

(* an MPP set of two shards settles on the second shard; the first one is
   notified on its hodl subscription *)
Example ex_mpp_settles :
  snd (run exH exR ex_cfg init [EAdd mpp_inv; ENotify (shard 1 400); ENotify (shard 2 600)]) =
  [(RpApi AOk, []); (RpDirect DNil, []);
   (RpDirect (DRes (NSettle 2 1 100 S_Settled)), [NSettle 1 1 100 S_Settled])].
Proof. vm_compute. reflexivity. Qed.

(* one msat short: held, nothing released *)
Example ex_mpp_short :
  snd (run exH exR ex_cfg init [EAdd mpp_inv; ENotify (shard 1 400); ENotify (shard 2 599)]) =
  [(RpApi AOk, []); (RpDirect DNil, []); (RpDirect DNil, [])].
Proof. vm_compute. reflexivity. Qed.

(* hold invoice: accept, settle with the preimage, replay answers Settle *)
Example ex_hodl :
  snd (run exH exR ex_cfg init [EAdd hodl_inv; ENotify (legacy 5 500); ESettleHodl 2;
                            ENotify (legacy 5 500)]) =
  [(RpApi AOk, []); (RpDirect DNil, []); (RpApi AOk, [NSettle 5 2 100 S_Settled]);
   (RpDirect (DRes (NSettle 5 2 100 S_ReplayToSettled)), [])].
Proof. vm_compute. reflexivity. Qed.

(* the hypotheses of C15_replay_same_verdict hold on that history *)
Example ex_replay_hyps :
  let st := fst (run exH exR ex_cfg init [EAdd hodl_inv; ENotify (legacy 5 500); ESettleHodl 2]) in
  exists i h,
    lookup_ref (g_kv ex_cfg) (invs st) (fst (ctx_ref (legacy 5 500))) (snd (ctx_ref (legacy 5 500)))
      = Some i /\
    fst (ctx_ref (legacy 5 500)) = Some (c_hash (legacy 5 500)) /\ i_amp i = false /\
    find_htlc 5 (i_htlcs i) = Some h /\ h_state h = HSettled.
Proof. vm_compute. eexists. eexists. repeat split; reflexivity. Qed.

(* set timeout cancels the held shard, the replay is then failed *)
Example ex_timeout :
  snd (run exH exR ex_cfg init [EAdd mpp_inv; ENotify (shard 1 400); ETimeout 101 (Some 7%N) 1;
                            ENotify (shard 1 400)]) =
  [(RpApi AOk, []); (RpDirect DNil, []); (RpApi AOk, [NFail 1 100 F_MppTimeout]);
   (RpDirect (DRes (NFail 1 100 F_ReplayToCanceled)), [])].
Proof. vm_compute. reflexivity. Qed.

(* wrong payment address / mismatching total / expiry one block short *)
Example ex_rejects :
  snd (run exH exR ex_cfg init
           [EAdd mpp_inv;
            ENotify (mkCtx 101 1 400 110 100 (Some (8%N, 1000%N)) false None 0 KSNone 0 0 0);
            ENotify (shard 2 400);
            ENotify (mkCtx 101 3 600 110 100 (Some (7%N, 1001%N)) false None 0 KSNone 0 0 0);
            ENotify (mkCtx 101 4 600 108 100 (Some (7%N, 1000%N)) false None 0 KSNone 0 0 0)]) =
  [(RpApi AOk, []); (RpDirect (DRes (NFail 1 100 F_AddressMismatch)), []); (RpDirect DNil, []);
   (RpDirect (DRes (NFail 3 100 F_SetTotalMismatch)), []);
   (RpDirect (DRes (NFail 4 100 F_ExpiryTooSoon)), [])].
Proof. vm_compute. reflexivity. Qed.

(* ---- AMP (witness functions of Proofs.v: preimage 10+n hashes to 20+n; the
   oracle reconstructs a lone share s to (hash 20+s, preimage 10+s), the
   two-share set {4,5} with indices 0,1 to (24,14),(25,15)) ---- *)
Definition ampR (l : list (N * N)) : list (N * N) :=
  match l with
  | [(s, _)] => [((s + 20)%N, (s + 10)%N)]
  | [(5, 1); (4, 0)]%N => [(25, 15); (24, 14)]%N
  | _ => []
  end.
Definition amp_cfg : cfg := mkCfg 4 false false false false.
Definition amp_shard (k s idx sid amt : N) : hctx :=
  mkCtx (s + 20) k amt 110 100 (Some (7%N, 1000%N)) true None 0 KSNone sid s idx.

(* a two-shard AMP set settles on the second shard, each htlc with its own
   preimage; the invoice stays open; a replay is answered from the record *)
Example ex_amp_settles :
  snd (run ampw_H ampR amp_cfg init
           [EAdd ampw_inv; ENotify (amp_shard 1 4 0 3 400); ENotify (amp_shard 2 5 1 3 600);
            ENotify (amp_shard 1 4 0 3 400)]) =
  [(RpApi AOk, []); (RpDirect DNil, []);
   (RpDirect (DRes (NSettle 2 15 100 S_Settled)), [NSettle 1 14 100 S_Settled]);
   (RpDirect (DRes (NSettle 1 14 100 S_ReplayToSettled)), [])] /\
  map i_state (invs (fst (run ampw_H ampR amp_cfg init
           [EAdd ampw_inv; ENotify (amp_shard 1 4 0 3 400); ENotify (amp_shard 2 5 1 3 600)]))) = [COpen] /\
  map i_sets (invs (fst (run ampw_H ampR amp_cfg init
           [EAdd ampw_inv; ENotify (amp_shard 1 4 0 3 400); ENotify (amp_shard 2 5 1 3 600)]))) =
    [[(3%N, (HSettled, 1000%N))]].
Proof. vm_compute. repeat split; reflexivity. Qed.

(* the hypotheses of C15_replay_same_verdict_amp hold on that history *)
Example ex_amp_replay_hyps :
  let st := fst (run ampw_H ampR amp_cfg init
           [EAdd ampw_inv; ENotify (amp_shard 1 4 0 3 400); ENotify (amp_shard 2 5 1 3 600)]) in
  let c := amp_shard 1 4 0 3 400 in
  exists i h, lookup_ref (g_kv amp_cfg) (invs st) None (Some 7%N) = Some i /\ i_amp i = true /\
              find_htlc (c_key c) (i_htlcs i) = Some h /\ h_set h = Some (c_set c) /\
              h_hash h = c_hash c /\ h_state h = HSettled.
Proof. vm_compute. eexists. eexists. repeat split; reflexivity. Qed.

(* one msat short: held; a shard of ANOTHER set id does not complete it; the set
   timeout cancels one shard, AmtPaid and AMPState[set] go down *)
Example ex_amp_short :
  snd (run ampw_H ampR amp_cfg init
           [EAdd ampw_inv; ENotify (amp_shard 1 4 0 3 400); ENotify (amp_shard 2 5 1 3 599);
            ENotify (amp_shard 3 6 0 8 600); ETimeoutSet 3 1]) =
  [(RpApi AOk, []); (RpDirect DNil, []); (RpDirect DNil, []); (RpDirect DNil, []);
   (RpApi AOk, [NFail 1 100 F_MppTimeout])] /\
  map (fun i => (i_paid i, i_sets i)) (invs (fst (run ampw_H ampR amp_cfg init
           [EAdd ampw_inv; ENotify (amp_shard 1 4 0 3 400); ENotify (amp_shard 2 5 1 3 599);
            ENotify (amp_shard 3 6 0 8 600); ETimeoutSet 3 1]))) =
    [(1199%N, [(3%N, (HCanceled, 599%N)); (8%N, (HAccepted, 600%N))])].
Proof. vm_compute. split; reflexivity. Qed.

(* a child whose hash does not match the reconstruction: the set and the whole
   invoice are cancelled, nothing is released *)
Example ex_amp_bad_share :
  snd (run ampw_H ampR amp_cfg init
           [EAdd ampw_inv; ENotify (amp_shard 1 4 0 3 400); ENotify (amp_shard 2 5 9 3 600)]) =
  [(RpApi AOk, []); (RpDirect DNil, []);
   (RpDirect (DRes (NFail 2 100 F_AmpReconstruction)), [NFail 1 100 F_AmpReconstruction])] /\
  map i_state (invs (fst (run ampw_H ampR amp_cfg init
           [EAdd ampw_inv; ENotify (amp_shard 1 4 0 3 400); ENotify (amp_shard 2 5 9 3 600)]))) = [CCanceled].
Proof. vm_compute. split; reflexivity. Qed.

(* mismatching total inside a set, total below the invoice value, the blank
   set id, an AMP htlc without MPP record *)
Example ex_amp_rejects :
  snd (run ampw_H ampR amp_cfg init
           [EAdd ampw_inv; ENotify (amp_shard 1 4 0 3 400);
            ENotify (mkCtx 25 2 600 110 100 (Some (7%N, 1001%N)) true None 0 KSNone 3 5 1);
            ENotify (mkCtx 26 3 999 110 100 (Some (7%N, 999%N)) true None 0 KSNone 8 6 0);
            ENotify (amp_shard 4 6 0 0 1000);
            ENotify (mkCtx 26 5 1000 110 100 None true None 0 KSNone 8 6 0)]) =
  [(RpApi AOk, []); (RpDirect DNil, []);
   (RpDirect (DRes (NFail 2 100 F_SetTotalMismatch)), []);
   (RpDirect (DRes (NFail 3 100 F_SetTotalTooLow)), []);
   (RpDirect (DRes (NFail 4 100 F_AmpError)), []);
   (RpDirect (DRes (NFail 5 100 F_InvoiceNotFound)), [])].
Proof. vm_compute. reflexivity. Qed.
