(* C15 / AMP — non-vacuity examples and set-level refutations (vm_compute on
   the executable model with a toy hash and a toy XOR reconstruction). *)
From Coq Require Import List NArith ZArith Bool Lia.
From LV Require Import Invoice.Model Invoice.Proofs Invoice.AmpModel Invoice.AmpProofs Invoice.AmpProps.
Import ListNotations.
Local Open Scope N_scope.

Example xR_wellformed : R_wellformed xH xR.
Proof.
  split.
  - intro q. unfold xR. apply map_length.
  - intros q hh p I. unfold xR in I. apply in_map_iff in I. destruct I as [d [E _]]. inv E. reflexivity.
Qed.

(* a reconstruction that refuses unless all of D is present: satisfies R_atomic *)
Definition dD : list (N * N) := [(1, 0); (2, 1)].
Definition deqb (a b : N * N) : bool := N.eqb (fst a) (fst b) && N.eqb (snd a) (snd b).
Definition xR2 (q : list (N * N)) : list (N * N) :=
  if forallb (fun d => existsb (deqb d) q) dD then xR q else map (fun _ => (0, 0)) q.
Definition dE (d : N * N) : N := xH (xpre 3 d).

Example xR2_atomic : R_atomic xR2 dD dE.
Proof.
  intros q j d NT ID [p NP]. unfold xR2 in NP.
  destruct (forallb (fun d => existsb (deqb d) q) dD) eqn:FB.
  - intros x IX. rewrite forallb_forall in FB. specialize (FB x IX).
    apply existsb_exists in FB. destruct FB as [y [IY EY]]. unfold deqb in EY.
    apply andb_true_iff in EY. destruct EY as [E1 E2]. apply N.eqb_eq in E1. apply N.eqb_eq in E2.
    destruct x, y. simpl in *. subst. exact IY.
  - rewrite (map_nth_error _ _ _ NT) in NP. exfalso.
    destruct ID as [E|[E|[]]]; subst d; vm_compute in NP; discriminate.
Qed.

(* interleaved sets: set 3 completes, set 4 is released by its timer *)
Definition ev_interleave : list event :=
  [EAdd xinv; ENotify (xctx 1 1 0 3 600 3); ENotify (xctx 2 4 0 4 500 12);
   ENotify (xctx 3 2 1 3 400 3); ETimeoutSet 4 2].

Example interleave_run :
  snd (run xH xR sql init ev_interleave) =
    [(RpApi AOk, []); (RpDirect DNil, []); (RpDirect DNil, []);
     (RpDirect (DRes (NSettle 3 1321 100 S_Settled)), [NSettle 1 1310 100 S_Settled]);
     (RpApi AOk, [NFail 2 100 F_MppTimeout])] /\
  map (fun i => (i_state i, i_paid i, i_sets i)) (invs (fst (run xH xR sql init ev_interleave))) =
    [(COpen, 1000, [(3, (HSettled, 1000)); (4, (HCanceled, 0))])].
Proof. vm_compute. split; reflexivity. Qed.

(* the hypotheses / conclusion of C15_amp_accounting on that history *)
Example interleave_accounting :
  let i := hd xinv (invs (fst (run xH xR sql init ev_interleave))) in
  asum all_h (i_htlcs i) < W64 /\ i_paid i = asum nc (i_htlcs i) /\
  get_set 3 (i_sets i) = proj_entry 3 (i_htlcs i) /\ get_set 4 (i_sets i) = proj_entry 4 (i_htlcs i) /\
  i_paid i = asum (is_state HSettled) (i_htlcs i).
Proof. vm_compute. repeat split; reflexivity. Qed.

(* the completing arrival satisfies complete_set, and with the refusing
   reconstruction xR2 the batch contains all of dD *)
Example interleave_complete :
  let st := fst (run xH xR sql init [EAdd xinv; ENotify (xctx 1 1 0 3 600 3)]) in
  let i := hd xinv (invs st) in
  exists h pm, amp_update xR sql (xctx 3 2 1 3 400 3) i 7 1000 = MSettle h pm /\
               descs_of (amp_batch (xctx 3 2 1 3 400 3) i 7 1000) = [(2, 1); (1, 0)].
Proof. vm_compute. eexists. eexists. split; reflexivity. Qed.

(* two half-paid sets reach the invoice value together: nothing settles *)
Example no_borrowing :
  snd (run xH xR sql init [EAdd xinv; ENotify (xctx 1 1 0 3 600 3); ENotify (xctx 2 4 0 4 500 12)]) =
    [(RpApi AOk, []); (RpDirect DNil, []); (RpDirect DNil, [])].
Proof. vm_compute. reflexivity. Qed.
