(* C15 property theorems.  Statements only; proofs are in Proofs.v.

   H (preimage -> payment hash) and the registry configuration g are universally
   quantified; `run H g init evs` executes ANY sequence of registry calls
   (AddInvoice, NotifyExitHopHtlc incl. replays, SettleHodlInvoice,
   CancelInvoice / expiry, single-htlc set timeout) from the empty registry.
   Amount sums are uint64 sums (wsum = true sum mod 2^64, Proofs.wsum_tsum);
   height sums are uint32 (u32).  AMP sets are outside the model (notes/C15.md). *)
From Coq Require Import List NArith ZArith Bool.
From LV Require Import Invoice.Model Invoice.Proofs.
Import ListNotations.

(* Whenever a step hands out a Settle resolution (directly or on a hodl
   channel) for htlc k with preimage p, then in the state after that step k is
   recorded settled on a settled invoice whose preimage is p, p hashes to the
   payment hash the htlc arrived with (= the invoice's), the htlc carried the
   invoice's payment address (or none is required / it was a valid keysend),
   it left both final-CLTV margins when accepted, and it is fully paid: a
   legacy htlc pays the invoice value alone; an MPP htlc declares a total not
   below the value that all settled MPP htlcs of the invoice share and their
   amounts sum to at least that total. *)
Theorem C15_settle_sound :
  forall (H : N -> N) (g : cfg) (evs : list event) (e : event)
         (st st' : state) (outs : list (reply * list resn)) (o : reply * list resn) (k p : N),
    run H g init evs = (st, outs) ->
    step H g st e = (st', o) ->
    In (k, p) (settle_outs o) ->
    exists i h,
      In i (invs st') /\ In (k, h) (i_htlcs i) /\ h_state h = HSettled /\
      i_state i = CSettled /\ i_pre i = Some p /\ H p = h_hash h /\ i_hash i = h_hash h /\
      match h_addr h with
      | Some a => a = i_addr i
      | None => i_addr_req i = false \/ h_ks h = true
      end /\
      (u32 (h_height h + g_rd g) <= h_expiry h)%Z /\
      (u32 (h_height h + i_delta i) <= h_expiry h)%Z /\
      (h_total h = 0%N -> (i_value i <= h_amt h)%N) /\
      (h_total h <> 0%N ->
         (i_value i <= h_total h)%N /\
         (forall k' h', In (k', h') (i_htlcs i) -> h_state h' = HSettled ->
                        h_total h' <> 0%N -> h_total h' = h_total h) /\
         (h_total h <= wsum (fun x => is_state HSettled x && negb (N.eqb (h_total x) 0))
                            (i_htlcs i))%N).
Proof.
  intros H g evs e st st' outs o k p R S I.
  assert (SO : state_ok H g st) by (eapply run_ok; [apply init_ok|eauto]).
  assert (SO' : state_ok H g st') by (eapply step_ok; eauto).
  destruct (step_settles H g st e st' o k p SO S I) as [i [h [II [IH [HS P]]]]].
  destruct (settled_record_sound H g st' i k h SO' II IH HS)
    as (A1 & [p' (P1 & P2 & P3)] & A3 & A4 & A5 & A6 & A7).
  exists i, h. rewrite P in P1. inversion P1; subst p'. repeat split; auto.
  - apply A7; auto.
  - apply A7; auto.
  - apply A7; auto.
Qed.

(* Invoice and htlc states only move forward along any continuation of any
   history: open -> accepted -> {settled | canceled} for invoices, accepted ->
   {settled | canceled} for htlcs; no invoice or htlc record disappears, the
   recorded amounts/total/expiry/accept height never change, and a settled
   invoice keeps its preimage. *)
Theorem C15_monotone :
  forall (H : N -> N) (g : cfg) (evs1 evs2 : list event) (st1 st2 : state) o1 o2,
    run H g init evs1 = (st1, o1) ->
    run H g st1 evs2 = (st2, o2) ->
    state_le (invs st1) (invs st2).
Proof.
  intros H g evs1 evs2 st1 st2 o1 o2 R1 R2.
  eapply run_le; [|eauto]. eapply run_ok; [apply init_ok|eauto].
Qed.

(* A settled invoice records as amount paid exactly the (uint64) sum of its
   settled htlcs; without uint64 overflow that is the true sum. *)
Theorem C15_amt_paid :
  forall (H : N -> N) (g : cfg) (evs : list event) (st : state) outs (i : invoice),
    run H g init evs = (st, outs) -> In i (invs st) -> i_state i = CSettled ->
    i_paid i = wsum (is_state HSettled) (i_htlcs i) /\
    i_paid i = (tsum (is_state HSettled) (i_htlcs i) mod W64)%N /\
    ((tsum (is_state HSettled) (i_htlcs i) < W64)%N ->
     i_paid i = tsum (is_state HSettled) (i_htlcs i)).
Proof.
  intros H g evs st outs i R I S.
  assert (SO : state_ok H g st) by (eapply run_ok; [apply init_ok|eauto]).
  destruct SO as [_ OK]. destruct (ok_settled H g i (OK i I) S) as [_ [p [_ [_ E]]]].
  split; [exact E|]. split.
  - rewrite E. apply wsum_tsum.
  - intro X. rewrite E. apply wsum_no_overflow. exact X.
Qed.

(* A replay of an htlc that is recorded on its (non-AMP) invoice changes no
   invoice and is answered from the record: held if accepted, the fail
   resolution if canceled, and the invoice's preimage -- which hashes to the
   htlc's payment hash -- if settled.  Hypothesis: no just-in-time keysend
   pre-check applies (AcceptKeySend off, or no keysend record); with it the
   clause is REFUTED, see C15_replay_keysend_refuted. *)
Theorem C15_replay_same_verdict :
  forall (H : N -> N) (g : cfg) (evs : list event) (st st' : state) outs
         (c : hctx) (i : invoice) (h : htlc) rp ntf,
    run H g init evs = (st, outs) ->
    g_keysend g = false \/ c_ks c = KSNone ->
    lookup_ref (g_kv g) (invs st) (fst (ctx_ref c)) (snd (ctx_ref c)) = Some i ->
    fst (ctx_ref c) = Some (c_hash c) -> i_amp i = false ->
    find_htlc (c_key c) (i_htlcs i) = Some h ->
    notify H g st c = (st', (rp, ntf)) ->
    invs st' = invs st /\
    match h_state h with
    | HAccepted => rp = RpDirect DNil
    | HCanceled => rp = RpDirect (DRes (NFail (c_key c) (h_height h) F_ReplayToCanceled))
    | HSettled => exists p, i_pre i = Some p /\ H p = c_hash c /\
                            rp = RpDirect (DRes (NSettle (c_key c) p (c_height c) S_ReplayToSettled))
    end.
Proof.
  intros H g evs st st' outs c i h rp ntf R. apply replay_same_verdict.
  eapply run_ok; [apply init_ok|eauto].
Qed.

(* Finding C15-F1: with AcceptKeySend the expiry pre-check of the just-in-time
   keysend invoice runs before the replay lookup, so a replay of a SETTLED htlc
   at a later height is answered Fail(ResultKeySendError). *)
Theorem C15_replay_keysend_refuted :
  exists (H : N -> N) (g : cfg) (evs : list event) (c : hctx),
    let st := fst (run H g init evs) in
    (exists i h, In i (invs st) /\ find_htlc (c_key c) (i_htlcs i) = Some h /\
                 h_state h = HSettled) /\
    fst (snd (notify H g st c)) = RpDirect (DRes (NFail (c_key c) (c_height c) F_KeySendError)).
Proof.
  exists wit_H, wit_cfg, wit_events, (wit_ctx 117).
  destruct replay_keysend_refuted as [_ [A B]]. split; [exact A|exact B].
Qed.

(* No htlc is both settled and canceled: in every state reached later, the
   htlc has exactly one record on its invoice, a settled record stays settled
   and a canceled one stays canceled, and no other invoice holds a record of
   that circuit key carrying the same payment hash (a record lives only on the
   invoice whose hash the htlc arrived with). *)
Theorem C15_no_settle_and_cancel :
  forall (H : N -> N) (g : cfg) (evs1 evs2 : list event) (st1 st2 : state) o1 o2
         (i1 : invoice) (k : N) (h1 : htlc),
    run H g init evs1 = (st1, o1) ->
    run H g st1 evs2 = (st2, o2) ->
    In i1 (invs st1) -> In (k, h1) (i_htlcs i1) ->
    exists i2 h2,
      In i2 (invs st2) /\ i_hash i2 = i_hash i1 /\ In (k, h2) (i_htlcs i2) /\
      (forall x, In (k, x) (i_htlcs i2) -> x = h2) /\
      (h_state h1 = HSettled -> h_state h2 = HSettled) /\
      (h_state h1 = HCanceled -> h_state h2 = HCanceled) /\
      same_rec h1 h2 /\
      (forall j x, In j (invs st2) -> In (k, x) (i_htlcs j) -> h_hash x = h_hash h1 -> j = i2).
Proof.
  intros H g evs1 evs2 st1 st2 o1 o2 i1 k h1 R1 R2.
  eapply records_forward; [|eauto]. eapply run_ok; [apply init_ok|eauto].
Qed.
